(** Correspondence evaluator and executable property checker for C20.

    A case is a configuration (values with their raw tapes, the tape of the
    global generator, the DisableSync flag), a step bound, and what two
    separately built real generators returned ([c_obs], [c_obs2]).
      family queue : the harness does what client.go reset does with the queue
                     API (queue.New, Add(sync at Latest())) and calls Next;
      family client: the harness runs fake/gnmi Client.Run on a stub stream and
                     records the responses sent.
    [check_case] (a) runs the model of FakeQModel.v on the same configuration
    and tapes -- correspondence, tag 1 -- and (b) applies the clauses of the
    property, written here independently of the model, to the implementation's
    own observations -- tags 2..9, or 11/12 inside a known-finding class. *)
From Gnmi Require Import Base.Prelude FakeQ.GoRand FakeQ.FakeQModel.
From Coq Require Export Floats Uint63.
Open Scope Z_scope.

Inductive oval :=
| VInt (z : Z) | VUint (z : Z) | VDouble (f : float) | VStr (s : string)
| VStrList (l : list string) | VBool (b : bool) | VSync (n : Z) | VDelete | VUnset.

Inductive obs :=
| OEmit (id : nat) (ts rep : Z) (v : oval)   (* queue family: one value returned by Next *)
| OUpd (id : nat) (ts : Z) (v : oval)        (* client family: update response *)
| ODel (id : nat) (ts : Z)                   (* client family: delete response *)
| OSync (b : bool)                           (* client family: sync response *)
| OLatest (z : Z)                            (* queue family: UpdateQueue.Latest() after the run *)
| OEnd (e : ending).                         (* the run ended before the step bound *)

(** tapes are written as primitive 63-bit integers in cases files (a raw
    Int63 value fits exactly; elaborating them costs nothing) *)
Definition tz (l : list Uint63.int) : tape := map Uint63.to_Z l.

(** direct draws from a real rand.Rand (family "draws": validates the port of
    GoRand.v where the generator's configurations cannot reach, e.g. the
    rejection loops): Int63n(n) = r, Intn(n) = r, Float64() * 2^63 = r *)
Inductive draw := DInt63n (n r : Z) | DIntn (n r : Z) | DFloat (r : Z).

Record case := mkCase {
  c_client : bool;
  c_vals : list value;
  c_gtape : tape;
  c_nosync : bool;
  c_steps : nat;
  c_obs : list obs;
  c_obs2 : list obs;
  c_draws : list draw;
  c_late : option (nat * value);   (* queue family: UpdateQueue.Add(value) after that many Next calls *)
  c_fixed : option (list obs * list nat);   (* family fixed: backing array of responses, prefix
                                               lengths of the generators run one after another;
                                               c_obs = first generator, c_obs2 = last one *)
}.

(** ** equality of observations (doubles by their IEEE class/sign/mantissa/exponent) *)

Definition sf_eqb (a b : spec_float) : bool :=
  match a, b with
  | S754_zero s, S754_zero s' => Bool.eqb s s'
  | S754_infinity s, S754_infinity s' => Bool.eqb s s'
  | S754_nan, S754_nan => true
  | S754_finite s m e, S754_finite s' m' e' => Bool.eqb s s' && Pos.eqb m m' && Z.eqb e e'
  | _, _ => false
  end.
Definition feqb (a b : float) : bool := sf_eqb (Prim2SF a) (Prim2SF b).

Fixpoint list_eqb {A} (e : A -> A -> bool) (a b : list A) : bool :=
  match a, b with
  | [], [] => true
  | x :: a', y :: b' => e x y && list_eqb e a' b'
  | _, _ => false
  end.

Definition oval_eqb (a b : oval) : bool :=
  match a, b with
  | VInt x, VInt y => Z.eqb x y
  | VUint x, VUint y => Z.eqb x y
  | VDouble x, VDouble y => feqb x y
  | VStr x, VStr y => String.eqb x y
  | VStrList x, VStrList y => list_eqb String.eqb x y
  | VBool x, VBool y => Bool.eqb x y
  | VSync x, VSync y => Z.eqb x y
  | VDelete, VDelete => true
  | VUnset, VUnset => true
  | _, _ => false
  end.

Definition ending_eqb (a b : ending) : bool :=
  match a, b with
  | EMore, EMore | EDone, EDone | EErr, EErr | EPanic, EPanic | EOut, EOut => true
  | _, _ => false
  end.

Definition obs_eqb (a b : obs) : bool :=
  match a, b with
  | OEmit i t r v, OEmit i' t' r' v' => Nat.eqb i i' && Z.eqb t t' && Z.eqb r r' && oval_eqb v v'
  | OUpd i t v, OUpd i' t' v' => Nat.eqb i i' && Z.eqb t t' && oval_eqb v v'
  | ODel i t, ODel i' t' => Nat.eqb i i' && Z.eqb t t'
  | OSync b, OSync b' => Bool.eqb b b'
  | OEnd e, OEnd e' => ending_eqb e e'
  | OLatest z, OLatest z' => Z.eqb z z'
  | _, _ => false
  end.

(** ** the model side *)

Definition oval_of (k : kind) : oval :=
  match k with
  | KInt v _ => VInt v
  | KUint v _ => VUint v
  | KDouble v _ => VDouble v
  | KString v _ => VStr v
  | KStrList v _ => VStrList v
  | KBool v _ => VBool v
  | KSync n => VSync n
  | KDelete => VDelete
  | KUnset => VUnset
  end.

Definition emit_obs (v : value) : obs := OEmit (vid v) (vts v) (vrep v) (oval_of (vk v)).

(** client.go processQueue + valToResp: a value without a TypedValue ends the
    stream with an error; the harness sees only "Run returned". *)
Fixpoint client_obs (vs : list value) (e : ending) : list obs :=
  match vs with
  | [] =>
      match e with
      | EMore => []
      | EDone | EErr => [OEnd EDone]
      | EPanic => [OEnd EPanic]
      | EOut => [OEnd EOut]
      end
  | v :: vs' =>
      match vk v with
      | KUnset => [OEnd EDone]
      | KDelete => ODel (vid v) (vts v) :: client_obs vs' e
      | KSync n => OSync (n >? 0) :: client_obs vs' e
      | k => OUpd (vid v) (vts v) (oval_of k) :: client_obs vs' e
      end
  end.

Definition float_scaled (f : float) : Z :=
  match Prim2SF f with
  | S754_zero _ => 0
  | S754_finite false m e => Z.shiftl (Zpos m) (e + 63)
  | _ => -1
  end.

Fixpoint draws_ok (ds : list draw) (t : tape) : bool :=
  match ds with
  | [] => true
  | DInt63n n r :: ds' =>
      match int63n n t with RV x t' => (x =? r) && draws_ok ds' t' | _ => false end
  | DIntn n r :: ds' =>
      match intn n t with RV x t' => (x =? r) && draws_ok ds' t' | _ => false end
  | DFloat r :: ds' =>
      match float64 t with RV f t' => (float_scaled f =? r) && draws_ok ds' t' | _ => false end
  end.

(** queue family: Next calls, optionally an Add after [k] of them, then Latest() *)
Definition queue_run (c : case) : list value * ending * Z :=
  match reset (c_vals c) (c_gtape c) (c_nosync c) with
  | Ok q0 =>
      match c_late c with
      | None => let '(tr, e, qf) := run_state (c_steps c) q0 in (tr, e, qlatest qf)
      | Some (k, v) =>
          let '(tr1, e1, q1) := run_state k q0 in
          match e1 with
          | EMore =>
              match add_value v q1 with
              | Ok q2 => let '(tr2, e2, q3) := run_state (c_steps c - k) q2 in
                         (tr1 ++ tr2, e2, qlatest q3)
              | _ => (tr1, EPanic, qlatest q1)
              end
          | _ => (tr1, e1, qlatest q1)
          end
      end
  | _ => ([], EPanic, 0)
  end.

Definition model_obs (c : case) : list obs :=
  if c_client c then
    let r := run_cfg (c_vals c) (c_gtape c) (c_nosync c) (c_steps c) in
    client_obs (fst r) (snd r)
  else
    let '(tr, e, lat) := queue_run c in
    map emit_obs tr ++ [OLatest lat] ++ match e with EMore => [] | e => [OEnd e] end.

(** ** the specification side (uses the configuration, never the model) *)

(** an emission as the clauses see it: who (None: a sync response of the client
    family, which carries neither path nor timestamp), when, what *)
Record erec := mkE { e_id : option nat; e_ts : Z; e_rep : option Z; e_val : oval }.

Definition erec_of (o : obs) : option erec :=
  match o with
  | OEmit i t r v => Some (mkE (Some i) t (Some r) v)
  | OUpd i t v => Some (mkE (Some i) t None v)
  | ODel i t => Some (mkE (Some i) t None VDelete)
  | OSync b => Some (mkE None 0 None (VSync (if b then 1 else 0)))
  | OEnd _ => None
  | OLatest _ => None
  end.

Fixpoint erecs (l : list obs) : list erec :=
  match l with
  | [] => []
  | o :: l' => match erec_of o with Some e => e :: erecs l' | None => erecs l' end
  end.

Definition end_of (l : list obs) : ending :=
  match last l (OEnd EMore) with OEnd e => e | _ => EMore end.

Definition cfg_of (vs : list value) (i : nat) : option value :=
  find (fun v => Nat.eqb (vid v) i) vs.

(** clause 1: timestamps never decrease *)
Fixpoint ts_sorted_from (prev : option Z) (l : list erec) : bool :=
  match l with
  | [] => true
  | e :: l' =>
      match e_id e with
      | None => ts_sorted_from prev l'
      | Some _ =>
          match prev with
          | Some p => (p <=? e_ts e) && ts_sorted_from (Some (e_ts e)) l'
          | None => ts_sorted_from (Some (e_ts e)) l'
          end
      end
  end.

Definition count_id (i : nat) (l : list erec) : Z :=
  Z.of_nat (List.length (filter (fun e => match e_id e with Some j => Nat.eqb i j | None => false end) l)).

(** clause 2: repeat counts.  Never more than [repeat] emissions; the k-th
    emission shows the remaining count; a run that ended because the queue ran
    dry has emitted every value exactly [repeat] times and has no unbounded value. *)
Definition rep_ok_prefix (vs : list value) (l : list erec) : bool :=
  forallb (fun v => (vrep v <=? 0) || (count_id (vid v) l <=? vrep v)) vs.

Fixpoint rep_fields_from (vs : list value) (seen : list erec) (l : list erec) : bool :=
  match l with
  | [] => true
  | e :: l' =>
      (match e_id e, e_rep e with
       | Some i, Some r =>
           match cfg_of vs i with
           | Some v => if vrep v >? 0 then r =? vrep v - count_id i seen else r =? vrep v
           | None => true
           end
       | _, _ => true
       end) && rep_fields_from vs (seen ++ [e]) l'
  end.

Definition is_sync_kind (v : value) : bool := match vk v with KSync _ => true | _ => false end.

Definition rep_ok_done (client : bool) (vs : list value) (l : list erec) : bool :=
  forallb (fun v => (client && is_sync_kind v) ||
                    ((0 <? vrep v) && (count_id (vid v) l =? vrep v))) vs.

(** clause 3: generated values stay inside the configured range / option list;
    the first emission is the configured value at the configured timestamp *)
Definition fle (a b : float) : bool := PrimFloat.leb a b.
Definition ffinite (a : float) : bool :=
  match Prim2SF a with S754_zero _ | S754_finite _ _ _ => true | _ => false end.

(** doubles: the clause is claimed for finite bounds, deltas and start value
    whose width is finite (otherwise inf-inf / 0*inf produce NaN, which no
    clamp catches -- documented limit) *)
Definition dbl_sane (v mn mx dmn dmx : float) : bool :=
  ffinite v && ffinite mn && ffinite mx && ffinite dmn && ffinite dmx &&
  ffinite (mx - mn)%float && ffinite (dmx - dmn)%float.

Definition in_dist (k : kind) (x : oval) : bool :=
  match k, x with
  | KInt v NNone, VInt y | KUint v NNone, VUint y => y =? v
  | KInt _ (NRange mn mx _ _), VInt y | KUint _ (NRange mn mx _ _), VUint y => (mn <=? y) && (y <=? mx)
  | KInt _ (NList opts _), VInt y | KUint _ (NList opts _), VUint y => existsb (Z.eqb y) opts
  | KDouble v DNone, VDouble y => feqb y v || PrimFloat.eqb y v   (* up to the sign of zero: proto.Clone drops it *)
  | KDouble v (DRange mn mx dmn dmx), VDouble y =>
      if dbl_sane v mn mx dmn dmx then fle mn y && fle y mx else true
  | KDouble _ (DList opts _), VDouble y => existsb (feqb y) opts
  | KString v LNone, VStr y => String.eqb y v
  | KString _ (LList opts _), VStr y => existsb (String.eqb y) opts
  | KBool v LNone, VBool y => Bool.eqb y v
  | KBool _ (LList opts _), VBool y => existsb (Bool.eqb y) opts
  | KStrList v LNone, VStrList y => list_eqb String.eqb y v
  | KStrList _ (LList opts rnd), VStrList y =>
      forallb (fun s => existsb (String.eqb s) opts) y &&
      (rnd || Nat.eqb (List.length y) (List.length opts))
  | KSync n, VSync m => m =? n
  | KDelete, VDelete => true
  | KUnset, VUnset => true
  | _, _ => false
  end.

(** the first emission is the configured value (a double up to the sign of a zero:
    whether the value travels through proto.Clone, which drops it, is an
    implementation detail and is compared under tag 1 only) *)
Definition first_ok (client : bool) (v : value) (e : erec) : bool :=
  (e_ts e =? vts v) &&
  match e_val e, oval_of (vk v) with
  | VDouble x, VDouble y => feqb x y || PrimFloat.eqb x y
  | a, b => oval_eqb a b
  end.

Fixpoint range_from (vs : list value) (seen : list erec) (l : list erec) : bool :=
  match l with
  | [] => true
  | e :: l' =>
      (match e_id e with
       | Some i =>
           match cfg_of vs i with
           | Some v => if count_id i seen =? 0 then first_ok false v e else in_dist (vk v) (e_val e)
           | None => true     (* the injected sync; checked by clause 5 *)
           end
       | None => true
       end) && range_from vs (seen ++ [e]) l'
  end.

(** clause 4: every timestamp step of one value lies within its delta bounds *)
(* [seen] is kept newest-first here *)
Fixpoint newest_ts (i : nat) (seen : list erec) : option Z :=
  match seen with
  | [] => None
  | e :: s' =>
      match e_id e with
      | Some j => if Nat.eqb i j then Some (e_ts e) else newest_ts i s'
      | None => newest_ts i s'
      end
  end.

Fixpoint steps_from (vs : list value) (seen_rev : list erec) (l : list erec) : bool :=
  match l with
  | [] => true
  | e :: l' =>
      (match e_id e with
       | Some i =>
           match cfg_of vs i, newest_ts i seen_rev with
           | Some v, Some p => (vdmin v <=? e_ts e - p) && (e_ts e - p <=? vdmax v)
           | _, _ => true
           end
       | None => true
       end) && steps_from vs (e :: seen_rev) l'
  end.

(** clause 5: the injected sync comes after the first emission of every
    configured value *)
Definition is_injected_sync (client : bool) (n : nat) (e : erec) : bool :=
  if client then match e_id e, e_val e with None, VSync 1 => true | _, _ => false end
  else match e_id e with Some i => Nat.eqb i n | None => false end.

Definition all_seen (client : bool) (vs : list value) (seen : list erec) : bool :=
  forallb (fun v => if client && is_sync_kind v then true else 0 <? count_id (vid v) seen) vs &&
  (negb client ||
   (Z.of_nat (List.length (filter is_sync_kind vs)) <=?
    Z.of_nat (List.length (filter (fun e => match e_id e with None => true | _ => false end) seen)))).

Fixpoint sync_from (client : bool) (vs : list value) (seen : list erec) (l : list erec) : bool :=
  match l with
  | [] => true
  | e :: l' =>
      if is_injected_sync client (List.length vs) e then all_seen client vs seen
      else sync_from client vs (seen ++ [e]) l'
  end.

(** in the client family a configured sync with a positive value cannot be told
    from the injected one; the clause is checked when there is none *)
Definition sync_checkable (client : bool) (vs : list value) : bool :=
  negb client || forallb (fun v => match vk v with KSync n => n <=? 0 | _ => true end) vs.

(** client family with configured syncs of positive value (sent as sync=true like
    the injected one): a sound, weaker form.  T true syncs seen, U = total repeat
    of the configured true syncs.  Never more than U+1; once T > U the injected
    one is among them, so before the LAST true sync every value has been seen. *)
Definition user_true_syncs (vs : list value) : list value :=
  filter (fun v => match vk v with KSync n => 0 <? n | _ => false end) vs.
Definition is_true_sync (e : erec) : bool :=
  match e_id e, e_val e with None, VSync 1 => true | _, _ => false end.
Fixpoint before_last_true (seen : list erec) (best : option (list erec)) (l : list erec)
  : option (list erec) :=
  match l with
  | [] => best
  | e :: l' => before_last_true (seen ++ [e]) (if is_true_sync e then Some seen else best) l'
  end.
Definition weak_sync_ok (vs : list value) (l : list erec) (at_done : bool) : bool :=
  let ut := user_true_syncs vs in
  if forallb (fun v => 0 <? vrep v) ut then
    let U := fold_left Z.add (map vrep ut) 0 in
    let T := Z.of_nat (List.length (filter is_true_sync l)) in
    (T <=? U + 1) && (negb at_done || (T =? U + 1)) &&
    (if U <? T then match before_last_true [] None l with
                    | Some seen => all_seen true vs seen
                    | None => true
                    end
     else true)
  else true.

Definition has_injected (client : bool) (vs : list value) (l : list erec) : bool :=
  existsb (is_injected_sync client (List.length vs)) l.

(** when is an error the documented answer?  (mirror of the documented checks:
    a value that is updated needs a non-negative timestamp, 0 <= delta_min <=
    delta_max, a set kind, min <= value <= max, ordered deltas, options) *)
Definition kind_valid (k : kind) : bool :=
  match k with
  | KInt v (NRange mn mx dmn dmx) | KUint v (NRange mn mx dmn dmx) =>
      (mn <=? mx) && (mn <=? v) && (v <=? mx) &&
      (((dmn =? 0) && (dmx =? 0)) || (dmn <=? dmx))
  | KInt _ (NList opts _) | KUint _ (NList opts _) => negb (Nat.eqb (List.length opts) 0)
  | KDouble v (DRange mn mx dmn dmx) =>
      negb (fgt mn mx) && negb (PrimFloat.ltb v mn || fgt v mx) &&
      negb ((fnonzero dmn || fnonzero dmx) && fgt dmn dmx)
  | KDouble _ (DList opts _) => negb (Nat.eqb (List.length opts) 0)
  | KString _ (LList opts _) | KStrList _ (LList opts _) => negb (Nat.eqb (List.length opts) 0)
  | KBool _ (LList opts _) => negb (Nat.eqb (List.length opts) 0)
  | KUnset => false
  | _ => true
  end.

Definition value_valid (v : value) : bool :=
  (vrep v =? 1) ||
  ((0 <=? vts v) && (0 <=? vdmin v) && (vdmin v <=? vdmax v) && kind_valid (vk v)).

(** in the client family a value without a TypedValue also ends the stream
    (valToResp), whatever its repeat count *)
Definition cfg_valid (client : bool) (vs : list value) : bool :=
  forallb (fun v => value_valid v &&
                    negb (client && match vk v with KUnset => true | _ => false end)) vs.

(** ** known-finding classes *)

(** KF 1 (tag 11): some width exceeds int64, [Int63n] panics *)
Definition width_ovf (left right : Z) : bool := wrap64 (right - left + 1) <=? 0.

Definition kind_width_ovf (k : kind) : bool :=
  match k with
  | KInt _ (NRange mn mx dmn dmx) =>
      if negb (dmn =? 0) || negb (dmx =? 0) then width_ovf dmn dmx else width_ovf mn mx
  | KUint _ (NRange mn mx dmn dmx) =>
      if negb (dmn =? 0) || negb (dmx =? 0) then width_ovf dmn dmx
      else width_ovf (wrap64 mn) (wrap64 mx)
  | _ => false
  end.

Definition value_width_ovf (v : value) : bool :=
  width_ovf (vdmin v) (vdmax v) || kind_width_ovf (vk v).

Definition class_width (vs : list value) : bool := existsb value_width_ovf vs.

(** KF 2 (tag 12): some emitted timestamp plus its delta_max exceeds int64 *)
Definition class_ts_ovf (vs : list value) (l : list erec) : bool :=
  existsb (fun e => match e_id e with
                    | Some i => match cfg_of vs i with
                                | Some v => max_i64 <? e_ts e + vdmax v
                                | None => false
                                end
                    | None => false
                    end) l.

(** an overflow error may come before the value whose successor overflowed is
    emitted (Next returns the error instead of the value): some value's latest
    emitted (else configured) timestamp is within two steps of the end of int64 *)
Definition ts_ovf_possible (vs : list value) (l : list erec) : bool :=
  existsb (fun v => max_i64 <? (match newest_ts (vid v) (rev l) with Some t => t | None => vts v end)
                               + 2 * vdmax v) vs.

(** ** family fixed (FixedQueue through Client.Run) *)

Definition with_end (steps : nat) (l : list obs) : list obs :=
  if (List.length l <? steps)%nat then l ++ [OEnd EDone] else l.

Definition fixed_model (c : case) (arr : list obs) (ks : list nat) : list (list obs) :=
  map (with_end (c_steps c)) (fixed_scenario arr ks (c_nosync c) (OSync true) (c_steps c)).

(** specification: strict delivery of the configured responses, then the sync *)
Definition fixed_spec (c : case) (arr : list obs) (k : nat) : list obs :=
  with_end (c_steps c) (firstn (c_steps c) (firstn k arr ++ if c_nosync c then [] else [OSync true])).

(** KF class 3 (tag 13): between the two compared generators another one was
    built from a shorter prefix of the same backing array (so its sync was
    appended into the array), and the only difference is that sync at its index *)
Definition class_shared (c : case) (arr : list obs) (ks : list nat) : bool :=
  negb (c_nosync c) &&
  match ks with
  | k0 :: rest =>
      existsb (fun k => (k <? k0)%nat &&
                 list_eqb obs_eqb (c_obs2 c)
                   (with_end (c_steps c) (firstn (c_steps c)
                      (firstn k0 (set_at k (OSync true) arr) ++ [OSync true])))) (removelast rest)
  | [] => false
  end.

Definition check_fixed (c : case) (arr : list obs) (ks : list nat) : list (nat * N) :=
  let m := fixed_model c arr ks in
  (if list_eqb obs_eqb (c_obs c) (hd [] m) && list_eqb obs_eqb (c_obs2 c) (last m [])
   then [] else [(0%nat, 1%N)]) ++
  (if list_eqb obs_eqb (c_obs c) (fixed_spec c arr (hd 0%nat ks)) then [] else [(3%nat, 4%N)]) ++
  (if list_eqb obs_eqb (c_obs c) (c_obs2 c) then []
   else [(6%nat, if class_shared c arr ks then 13%N else 7%N)]) ++
  (match end_of (c_obs c) with EPanic => [(7%nat, 8%N)] | _ => [] end).

(** ** verdict for one case: list of (clause/step index, tag) *)

Definition check_case (c : case) : list (nat * N) :=
  match c_fixed c with Some (arr, ks) => check_fixed c arr ks | None =>
  let vs := c_vals c in
  let cl := c_client c in
  let l := filter (fun e => match e_id e with
                            | Some i => Nat.leb i (List.length vs)   (* a value Add-ed later is not a configured value *)
                            | None => true
                            end) (erecs (c_obs c)) in
  let e := end_of (c_obs c) in
  let ovf := class_ts_ovf vs l in
  let err_ok := negb (cfg_valid cl vs) || class_width vs || ovf || ts_ovf_possible vs l in
  let ktag (t : N) : N := if ovf then 12%N else t in
  (if list_eqb obs_eqb (c_obs c) (model_obs c) && draws_ok (c_draws c) (c_gtape c)
   then [] else [(0%nat, 1%N)]) ++
  (if ts_sorted_from None l then [] else [(1%nat, ktag 2%N)]) ++
  (if rep_ok_prefix vs l && rep_fields_from vs [] l &&
      (match e with
       | EDone => if cl && err_ok then true else rep_ok_done cl vs l
       | _ => true
       end)
   then [] else [(2%nat, ktag 3%N)]) ++
  (if range_from vs [] l then [] else [(3%nat, 4%N)]) ++
  (if steps_from vs [] l then [] else [(4%nat, ktag 5%N)]) ++
  (if c_nosync c then []
   else if negb (sync_checkable cl vs) then
     (if weak_sync_ok vs l (match e with EDone => negb err_ok | _ => false end)
      then [] else [(5%nat, ktag 6%N)])
   else if sync_from cl vs [] l &&
           (Nat.leb (List.length (filter (is_injected_sync cl (List.length vs)) l)) 1) &&
           (match e with
            | EDone => (cl && err_ok) || has_injected cl vs l
            | _ => true
            end)
        then [] else [(5%nat, ktag 6%N)]) ++
  (if list_eqb obs_eqb (c_obs c) (c_obs2 c) then [] else [(6%nat, 7%N)]) ++
  (match e with
   | EPanic => [(7%nat, if class_width vs then 11%N else 8%N)]
   | EErr =>
       (* an error is the documented answer to an invalid value, to a width
          beyond int64 and to a timestamp that would leave int64 (the last two
          only occur once the patches for KF-C20-1/2 are in) *)
       if err_ok then [] else [(8%nat, 9%N)]
   | _ => []
   end)
  end.

Fixpoint check_all_from (i : nat) (cs : list case) : list (nat * nat * N) :=
  match cs with
  | [] => []
  | c :: cs' => map (fun sn => (i, fst sn, snd sn)) (check_case c) ++ check_all_from (S i) cs'
  end.

Definition check_all (cs : list case) : list (nat * nat * N) := check_all_from 0 cs.

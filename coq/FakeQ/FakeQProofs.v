(** Lemmas and proofs for C20 (model: FakeQModel.v, math/rand port: GoRand.v). *)
From Gnmi Require Import Base.Prelude FakeQ.GoRand FakeQ.FakeQModel.
From Coq Require Import Floats Sorting.Sorted.
Open Scope Z_scope.

Ltac zb := repeat match goal with
  | H : (_ >? _) = true |- _ => rewrite Z.gtb_ltb in H; apply Z.ltb_lt in H
  | H : (_ >? _) = false |- _ => rewrite Z.gtb_ltb in H; apply Z.ltb_ge in H
  | H : (_ <? _) = true |- _ => apply Z.ltb_lt in H
  | H : (_ <? _) = false |- _ => apply Z.ltb_ge in H
  | H : (_ <=? _) = true |- _ => apply Z.leb_le in H
  | H : (_ <=? _) = false |- _ => apply Z.leb_gt in H
  | H : (_ =? _) = true |- _ => apply Z.eqb_eq in H
  | H : (_ =? _) = false |- _ => apply Z.eqb_neq in H
  | H : (_ || _) = false |- _ => apply orb_false_iff in H; destruct H
  | H : (_ && _) = true |- _ => apply andb_true_iff in H; destruct H
  | H : negb _ = true |- _ => apply negb_true_iff in H
  | H : negb _ = false |- _ => apply negb_false_iff in H
  end.

(** * Part 1: the bounded draws stay in their bounds, for every tape *)

Lemma land_mask_range v m : 0 <= m -> 0 <= Z.land v m <= m.
Proof.
  intros Hm. apply Z.ldiff_le; [assumption|].
  rewrite Z.ldiff_land, <- Z.land_assoc, Z.land_lnot_diag. apply Z.land_0_r.
Qed.

Lemma until_le_inv mx t v t' : until_le mx t = RV v t' -> v <= mx.
Proof.
  induction t as [|x t IH]; cbn; [discriminate|].
  destruct (x >? mx) eqn:E; [exact IH|].
  intros H; inversion H; subst. zb. lia.
Qed.

Theorem int63n_range n t x t' : int63n n t = RV x t' -> 0 <= x < n.
Proof.
  unfold int63n. destruct (n <=? 0) eqn:En; [discriminate|]. apply Z.leb_gt in En.
  destruct (Z.land n (n - 1) =? 0).
  - destruct t as [|v t]; cbn; [discriminate|]. intros H; inversion H; subst.
    pose proof (land_mask_range v (n - 1)). lia.
  - destruct (until_le _ t) as [v t1| | |]; cbn; try discriminate.
    intros H; inversion H; subst. apply Z.mod_pos_bound; lia.
Qed.

Lemma until_le_no_panic mx t : until_le mx t <> RPanic.
Proof.
  induction t as [|x t IH]; cbn; [discriminate|]. destruct (x >? mx); [exact IH|discriminate].
Qed.

Lemma int63n_no_panic n t : 0 < n -> int63n n t <> RPanic.
Proof.
  unfold int63n. intros Hn. destruct (n <=? 0) eqn:En; [apply Z.leb_le in En; lia|].
  destruct (Z.land n (n - 1) =? 0).
  - destruct t; cbn; intro; discriminate.
  - pose proof (until_le_no_panic (two63 - 1 - two63 mod n) t).
    destruct (until_le _ t); cbn; intro; try discriminate; congruence.
Qed.

Lemma int63n_panic_iff n t : int63n n t = RPanic <-> n <= 0.
Proof.
  split.
  - intros H. destruct (Z_le_gt_dec n 0); [assumption|].
    exfalso. eapply int63n_no_panic; [|exact H]. lia.
  - intros H. unfold int63n. apply Z.leb_le in H. now rewrite H.
Qed.

Theorem int31n_pub_range n t x t' : int31n_pub n t = RV x t' -> 0 <= x < n.
Proof.
  unfold int31n_pub. destruct (n <=? 0) eqn:En; [discriminate|]. apply Z.leb_gt in En.
  destruct (Z.land n (n - 1) =? 0).
  - destruct t as [|v t]; cbn [rbind int63]; [discriminate|]. intros H.
    assert (Hx : x = Z.land (int31_of v) (n - 1)) by congruence. rewrite Hx.
    generalize (int31_of v); intros w.
    pose proof (land_mask_range w (n - 1)). lia.
  - destruct (until_le31 _ t) as [v t1| | |]; cbn; try discriminate.
    intros H; inversion H; subst. apply Z.mod_pos_bound; lia.
Qed.

Theorem intn_range n t x t' : intn n t = RV x t' -> 0 <= x < n.
Proof.
  unfold intn. destruct (n <=? 0); [discriminate|].
  destruct (n <=? two31 - 1); [apply int31n_pub_range|apply int63n_range].
Qed.

Lemma In_firstn {A} n (l : list A) x : In x (firstn n l) -> In x l.
Proof. intros H. rewrite <- (firstn_skipn n l). apply in_or_app. now left. Qed.

Lemma In_skipn {A} n (l : list A) x : In x (skipn n l) -> In x l.
Proof. intros H. rewrite <- (firstn_skipn n l). apply in_or_app. now right. Qed.

(** the shuffle only rearranges: every element of the result is one of the input *)
Lemma swap_incl {A} (l l' : list A) i j : swap l i j = Some l' -> incl l' l.
Proof.
  unfold swap. destruct (nth_error l i) as [a|] eqn:Ea; [|discriminate].
  destruct (nth_error l j) as [b|] eqn:Eb; [|discriminate].
  intros H; inversion H; subst; clear H.
  apply nth_error_In in Ea, Eb.
  assert (Hset : forall k (x : A) (m : list A), In x l -> incl m l ->
            incl (firstn k m ++ x :: skipn (S k) m) l).
  { intros k x m Hx Hm y Hy. apply in_app_or in Hy. destruct Hy as [Hy|[<-|Hy]]; auto.
    - apply Hm. eapply In_firstn; eauto.
    - apply Hm. eapply In_skipn; eauto. }
  apply Hset; auto. apply Hset; auto. apply incl_refl.
Qed.

Lemma shuffle_from_incl {A} i : forall (l l' : list A) t t',
  shuffle_from i l t = RV l' t' -> incl l' l.
Proof.
  induction i as [|i IH]; cbn; intros l l' t t' H.
  - inversion H; subst. apply incl_refl.
  - destruct (int31n_lemire _ t) as [j t1| | |]; cbn in H; try discriminate.
    destruct (swap l (S i) (Z.to_nat j)) as [l1|] eqn:Es; [|discriminate].
    eapply incl_tran; [eapply IH; eauto|eapply swap_incl; eauto].
Qed.

Lemma shuffle_incl {A} (l l' : list A) t t' : shuffle l t = RV l' t' -> incl l' l.
Proof. apply shuffle_from_incl. Qed.

Lemma pick_list_spec {A} (opts : list A) rnd t x opts' t' :
  pick_list opts rnd t = RV (x, opts') t' -> In x opts /\ incl opts' opts.
Proof.
  unfold pick_list. destruct opts as [|o0 rest]; [discriminate|].
  destruct rnd.
  - destruct (intn _ t) as [i t1| | |]; cbn; try discriminate.
    destruct (nth_error (o0 :: rest) (Z.to_nat i)) as [y|] eqn:En; [|discriminate].
    intros H; inversion H; subst. split; [exact (nth_error_In _ _ En)|apply incl_refl].
  - intros H; inversion H; subst. split; [now left|].
    intros y Hy. apply in_app_or in Hy. destruct Hy as [Hy|[<-|[]]]; [now right|now left].
Qed.

(** * Part 2: every generated value lies in the configured range / option list *)

Lemma clampZ_range mn mx x : mn <= mx -> mn <= clampZ mn mx x <= mx.
Proof.
  intros H. unfold clampZ. destruct (x >? mx) eqn:E1.
  - destruct (mx <? mn) eqn:E2; zb; lia.
  - destruct (x <? mn) eqn:E2; zb; lia.
Qed.

(** [nd_like d0 v0 d v]: (d, v) is a state the configuration (d0, v0) can be
    in: same bounds; options only rearranged; without a distribution the value
    never changes.  [nd_in d0 v]: v is inside what d0 allows. *)
Definition nd_like (d0 : ndist) (v0 : Z) (d : ndist) (v : Z) : Prop :=
  match d0, d with
  | NNone, NNone => v = v0
  | NRange a b c e, NRange a' b' c' e' => a' = a /\ b' = b /\ c' = c /\ e' = e
  | NList o r, NList o' r' => incl o' o /\ r' = r
  | _, _ => False
  end.

Definition nd_in (d0 : ndist) (v0 v : Z) : Prop :=
  match d0 with
  | NNone => v = v0
  | NRange mn mx _ _ => mn <= v <= mx
  | NList o _ => In v o
  end.

Definition ld_like {A} (d0 : ldist A) (v0 : A) (d : ldist A) (v : A) : Prop :=
  match d0, d with
  | LNone, LNone => v = v0
  | LList o r, LList o' r' => incl o' o /\ r' = r
  | _, _ => False
  end.

Definition ld_in {A} (d0 : ldist A) (v0 v : A) : Prop :=
  match d0 with
  | LNone => v = v0
  | LList o _ => In v o
  end.

Definition sl_like (d0 : ldist string) (v0 : list string) (d : ldist string) (v : list string) : Prop :=
  match d0, d with
  | LNone, LNone => v = v0
  | LList o r, LList o' r' => incl o' o /\ r' = r
  | _, _ => False
  end.

Definition sl_in (d0 : ldist string) (v0 v : list string) : Prop :=
  match d0 with
  | LNone => v = v0
  | LList o _ => incl v o
  end.

Definition dd_like (d0 : ddist) (v0 : float) (d : ddist) (v : float) : Prop :=
  match d0, d with
  | DNone, DNone => nz v = nz v0     (* up to the sign of zero, which proto.Clone drops *)
  | DRange a b c e, DRange a' b' c' e' => nz a' = nz a /\ nz b' = nz b /\ nz c' = nz c /\ nz e' = nz e
  | DList o r, DList o' r' => incl o' o /\ r' = r
  | _, _ => False
  end.

(** doubles: within [mn, mx] whenever the bounds are numbers, unless the sum
    that was clamped is itself NaN (inf - inf, 0 * inf: see docs/props/C20.md) *)
Definition dd_in (d0 : ddist) (v0 v : float) : Prop :=
  match d0 with
  | DNone => nz v = nz v0
  | DRange mn mx _ _ =>
      PrimFloat.is_nan mn = false -> PrimFloat.is_nan mx = false ->
      PrimFloat.is_nan v = true \/ (PrimFloat.leb mn v = true /\ PrimFloat.leb v mx = true)
  | DList o _ => In v o
  end.

Definition like (k0 k : kind) : Prop :=
  match k0, k with
  | KInt v0 d0, KInt v d | KUint v0 d0, KUint v d => nd_like d0 v0 d v
  | KDouble v0 d0, KDouble v d => dd_like d0 v0 d v
  | KString v0 d0, KString v d => ld_like d0 v0 d v
  | KStrList v0 d0, KStrList v d => sl_like d0 v0 d v
  | KBool v0 d0, KBool v d => ld_like d0 v0 d v
  | KSync n0, KSync n => n = n0
  | KDelete, KDelete => True
  | KUnset, KUnset => True
  | _, _ => False
  end.

Definition in_range (k0 k : kind) : Prop :=
  match k0, k with
  | KInt v0 d0, KInt v _ | KUint v0 d0, KUint v _ => nd_in d0 v0 v
  | KDouble v0 d0, KDouble v _ => dd_in d0 v0 v
  | KString v0 d0, KString v _ => ld_in d0 v0 v
  | KStrList v0 d0, KStrList v _ => sl_in d0 v0 v
  | KBool v0 d0, KBool v _ => ld_in d0 v0 v
  | KSync n0, KSync n => n = n0
  | KDelete, KDelete => True
  | KUnset, KUnset => True
  | _, _ => False
  end.

Lemma like_refl k : like k k.
Proof.
  destruct k as [v d|v d|v d|v d|v d|v d|n| |]; cbn; try tauto;
    destruct d; cbn; auto using incl_refl.
Qed.

Lemma update_int_gen d0 v0 d v t v' d' t' :
  nd_like d0 v0 d v -> update_int v d t = RV (v', d') t' ->
  nd_like d0 v0 d' v' /\ nd_in d0 v0 v'.
Proof.
  intros Hl. destruct d as [|mn mx dmn dmx|opts rnd]; cbn.
  - intros H; inversion H; subst. destruct d0; cbn in *; try tauto.
  - destruct (mn >? mx) eqn:E1; [discriminate|].
    destruct ((v <? mn) || (v >? mx)); [discriminate|].
    destruct (_ && (dmn >? dmx)); [discriminate|].
    unfold guard_width, guard_width_gen. destruct (fix_C20_1 && _); [discriminate|].
    destruct (int63n _ t) as [r t1| | |]; cbn; try discriminate.
    intros H; inversion H; subst. destruct d0; cbn in *; try tauto.
    destruct Hl as (-> & -> & -> & ->). split; [tauto|]. apply clampZ_range. zb. lia.
  - destruct (pick_list opts rnd t) as [[x o'] t1| | |] eqn:Ep; cbn; try discriminate.
    intros H; inversion H; subst. apply pick_list_spec in Ep. destruct Ep as [Hx Ho].
    destruct d0; cbn in *; try tauto. destruct Hl as [Hi ->]. split; [split|]; auto.
    eapply incl_tran; eauto.
Qed.

Lemma update_uint_gen d0 v0 d v t v' d' t' :
  nd_like d0 v0 d v -> update_uint v d t = RV (v', d') t' ->
  nd_like d0 v0 d' v' /\ nd_in d0 v0 v'.
Proof.
  intros Hl. destruct d as [|mn mx dmn dmx|opts rnd]; cbn.
  - intros H; inversion H; subst. destruct d0; cbn in *; try tauto.
  - destruct (mn >? mx) eqn:E1; [discriminate|].
    destruct ((v <? mn) || (v >? mx)); [discriminate|].
    destruct (_ && (dmn >? dmx)); [discriminate|].
    unfold guard_width, guard_width_gen. destruct (fix_C20_1 && _); [discriminate|].
    destruct (int63n _ t) as [r t1| | |]; cbn; try discriminate.
    intros H; inversion H; subst. destruct d0; cbn in *; try tauto.
    destruct Hl as (-> & -> & -> & ->). split; [tauto|]. apply clampZ_range. zb. lia.
  - destruct (pick_list opts rnd t) as [[x o'] t1| | |] eqn:Ep; cbn; try discriminate.
    intros H; inversion H; subst. apply pick_list_spec in Ep. destruct Ep as [Hx Ho].
    destruct d0; cbn in *; try tauto. destruct Hl as [Hi ->]. split; [split|]; auto.
    eapply incl_tran; eauto.
Qed.

Lemma update_scalar_gen {A} (d0 : ldist A) v0 d v t v' d' t' :
  ld_like d0 v0 d v -> update_scalar v d t = RV (v', d') t' ->
  ld_like d0 v0 d' v' /\ ld_in d0 v0 v'.
Proof.
  intros Hl. destruct d as [|opts rnd]; cbn.
  - intros H; inversion H; subst. destruct d0; cbn in *; tauto.
  - destruct (pick_list opts rnd t) as [[x o'] t1| | |] eqn:Ep; cbn; try discriminate.
    intros H; inversion H; subst. apply pick_list_spec in Ep. destruct Ep as [Hx Ho].
    destruct d0; cbn in *; try tauto. destruct Hl as [Hi ->]. split; [split|]; auto.
    eapply incl_tran; eauto.
Qed.

Lemma update_strlist_gen (d0 : ldist string) v0 d v t v' d' t' :
  sl_like d0 v0 d v -> update_strlist v d t = RV (v', d') t' ->
  sl_like d0 v0 d' v' /\ sl_in d0 v0 v'.
Proof.
  intros Hl. destruct d as [|opts rnd]; cbn.
  - intros H; inversion H; subst. destruct d0; cbn in *; tauto.
  - destruct opts as [|o0 rest]; [discriminate|]. destruct rnd.
    + destruct (shuffle (o0 :: rest) t) as [sh t1| | |] eqn:Es; cbn; try discriminate.
      destruct (intn _ t1) as [k t2| | |]; cbn; try discriminate.
      intros H; inversion H; subst. apply shuffle_incl in Es.
      destruct d0; cbn in *; try tauto. destruct Hl as [Hi ->].
      split; [split; auto; eapply incl_tran; eauto|].
      intros y Hy. apply Hi, Es. eapply In_firstn; exact Hy.
    + intros H; inversion H; subst.
      assert (Hr : incl (rest ++ [o0]) (o0 :: rest)).
      { intros y Hy. apply in_app_or in Hy. destruct Hy as [Hy|[<-|[]]]; [now right|now left]. }
      destruct d0; cbn in *; try tauto. destruct Hl as [Hi ->].
      split; [split; auto|]; eapply incl_tran; eauto.
Qed.

(** ** doubles: the clamp, through the stdlib specification of binary64
    comparisons (FloatAxioms: [ltb_spec], [leb_spec], [eqb_spec]) *)

Lemma SFcompare_antisym s s' c :
  SFcompare s s' = Some c -> SFcompare s' s = Some (CompOpp c).
Proof.
  destruct s as [b| b| |b m e], s' as [b'| b'| |b' m' e']; cbn;
    try discriminate; try (intros H; inversion H; subst; clear H);
    try (destruct b; try destruct b'; reflexivity).
  destruct b, b'; try reflexivity.
  - rewrite (Z.compare_antisym e e'). destruct (e ?= e'); cbn; try reflexivity.
    rewrite (Pos.compare_cont_antisym m m' Eq). reflexivity.
  - rewrite (Z.compare_antisym e e'). destruct (e ?= e'); cbn; try reflexivity.
    rewrite (Pos.compare_cont_antisym m m' Eq). reflexivity.
Qed.

Lemma SFcompare_refl s : s <> S754_nan -> SFcompare s s = Some Eq.
Proof.
  destruct s as [b| b| |b m e]; cbn; try congruence; intros _.
  - now destruct b.
  - rewrite Z.compare_refl. fold (Pos.compare m m). rewrite Pos.compare_refl. now destruct b.
Qed.

Lemma SFcompare_total s s' :
  s <> S754_nan -> s' <> S754_nan -> exists c, SFcompare s s' = Some c.
Proof.
  destruct s, s'; cbn; try congruence; eauto.
Qed.

Lemma not_nan_SF x : PrimFloat.is_nan x = false -> Prim2SF x <> S754_nan.
Proof.
  unfold PrimFloat.is_nan. rewrite eqb_spec. intros H E. rewrite E in H. discriminate.
Qed.

Lemma nan_or_not x : PrimFloat.is_nan x = true \/ Prim2SF x <> S754_nan.
Proof.
  destruct (PrimFloat.is_nan x) eqn:E; [now left|right; now apply not_nan_SF].
Qed.

Lemma not_ltb_leb x y :
  Prim2SF x <> S754_nan -> Prim2SF y <> S754_nan ->
  PrimFloat.ltb x y = false -> PrimFloat.leb y x = true.
Proof.
  intros Hx Hy. rewrite ltb_spec, leb_spec. unfold SFltb, SFleb.
  destruct (SFcompare_total _ _ Hx Hy) as [c Hc]. rewrite Hc.
  rewrite (SFcompare_antisym _ _ _ Hc). destruct c; cbn; congruence.
Qed.

Lemma leb_refl_SF x : Prim2SF x <> S754_nan -> PrimFloat.leb x x = true.
Proof. intros Hx. rewrite leb_spec. unfold SFleb. now rewrite SFcompare_refl. Qed.

Theorem clampF_range mn mx x :
  PrimFloat.is_nan mn = false -> PrimFloat.is_nan mx = false -> fgt mn mx = false ->
  PrimFloat.is_nan (clampF mn mx x) = true \/
  (PrimFloat.leb mn (clampF mn mx x) = true /\ PrimFloat.leb (clampF mn mx x) mx = true).
Proof.
  intros Hmn Hmx Hle. apply not_nan_SF in Hmn, Hmx. unfold fgt in *.
  pose proof (not_ltb_leb _ _ Hmx Hmn Hle) as Hmm.
  unfold clampF, fgt. destruct (PrimFloat.ltb mx x) eqn:E1.
  - rewrite Hle. right. split; [assumption|now apply leb_refl_SF].
  - destruct (nan_or_not x) as [Hn|Hx].
    + destruct (PrimFloat.ltb x mn) eqn:E2.
      * right. split; [now apply leb_refl_SF|assumption].
      * now left.
    + destruct (PrimFloat.ltb x mn) eqn:E2.
      * right. split; [now apply leb_refl_SF|assumption].
      * right. split; apply not_ltb_leb; assumption.
Qed.

Lemma nz_idem x : nz (nz x) = nz x.
Proof.
  unfold nz. destruct (PrimFloat.eqb x 0) eqn:E; [reflexivity|now rewrite E].
Qed.

(** [nz] only changes the sign of a zero, which no comparison sees *)
Lemma nz_SF x : Prim2SF (nz x) = Prim2SF x \/
                (exists s, Prim2SF x = S754_zero s /\ Prim2SF (nz x) = S754_zero false).
Proof.
  unfold nz. destruct (PrimFloat.eqb x 0) eqn:E; [right|now left].
  rewrite eqb_spec in E. unfold SFeqb in E.
  change (Prim2SF 0) with (S754_zero false) in E.
  destruct (Prim2SF x) as [s|s| |s m e]; cbn in E; try discriminate;
    try (destruct s; discriminate).
  exists s. split; reflexivity.
Qed.

Lemma SFcompare_zero_l s s' y : SFcompare (S754_zero s) y = SFcompare (S754_zero s') y.
Proof. destruct y; reflexivity. Qed.

Lemma SFcompare_zero_r s s' x : SFcompare x (S754_zero s) = SFcompare x (S754_zero s').
Proof. destruct x; reflexivity. Qed.

Lemma leb_nz_l x y : PrimFloat.leb (nz x) y = PrimFloat.leb x y.
Proof.
  rewrite !leb_spec. unfold SFleb. destruct (nz_SF x) as [->|(s & Hx & ->)]; [reflexivity|].
  rewrite Hx. now rewrite (SFcompare_zero_l false s).
Qed.

Lemma leb_nz_r x y : PrimFloat.leb x (nz y) = PrimFloat.leb x y.
Proof.
  rewrite !leb_spec. unfold SFleb. destruct (nz_SF y) as [->|(s & Hy & ->)]; [reflexivity|].
  rewrite Hy. now rewrite (SFcompare_zero_r false s).
Qed.

Lemma is_nan_nz x : PrimFloat.is_nan (nz x) = PrimFloat.is_nan x.
Proof.
  unfold PrimFloat.is_nan. rewrite !eqb_spec. unfold SFeqb.
  destruct (nz_SF x) as [->|(s & Hx & ->)]; [reflexivity|]. rewrite Hx. now destruct s.
Qed.

Lemma update_double_gen d0 v0 d v t v' d' t' :
  dd_like d0 v0 d v -> update_double v d t = RV (v', d') t' ->
  dd_like d0 v0 d' v' /\ dd_in d0 v0 v'.
Proof.
  intros Hl. destruct d as [|mn mx dmn dmx|opts rnd]; cbn [update_double]; cbv zeta.
  - intros H; inversion H; subst. destruct d0; cbn in *; try tauto.
    rewrite nz_idem. tauto.
  - destruct (fgt (nz mn) (nz mx)) eqn:E1; [discriminate|].
    destruct (PrimFloat.ltb (nz v) (nz mn) || fgt (nz v) (nz mx)); [discriminate|].
    destruct (_ && fgt (nz dmn) (nz dmx)); [discriminate|].
    destruct (float64 t) as [r t1| | |]; cbn; try discriminate.
    intros H; inversion H; subst. destruct d0 as [|a b c e|]; cbn in *; try tauto.
    destruct Hl as (Ha & Hb & Hc & He). rewrite !nz_idem. split; [tauto|].
    intros Hmn Hmx.
    pose proof (clampF_range (nz mn) (nz mx)
      ((if fnonzero (nz dmn) || fnonzero (nz dmx) then nz v else 0) +
       (r * ((if fnonzero (nz dmn) || fnonzero (nz dmx) then nz dmx else nz mx) -
             (if fnonzero (nz dmn) || fnonzero (nz dmx) then nz dmn else nz mn)) +
        (if fnonzero (nz dmn) || fnonzero (nz dmx) then nz dmn else nz mn)))%float) as Hc'.
    rewrite Ha, Hb in Hc'. rewrite !is_nan_nz in Hc'. specialize (Hc' Hmn Hmx).
    rewrite Ha, Hb in E1. specialize (Hc' E1).
    rewrite Ha, Hb. rewrite leb_nz_l, leb_nz_r in Hc'. exact Hc'.
  - destruct (pick_list opts rnd t) as [[x o'] t1| | |] eqn:Ep; cbn; try discriminate.
    intros H; inversion H; subst. apply pick_list_spec in Ep. destruct Ep as [Hx Ho].
    destruct d0; cbn in *; try tauto. destruct Hl as [Hi ->]. split; [split|]; auto.
    eapply incl_tran; eauto.
Qed.

Theorem update_kind_gen k0 k t k' t' :
  like k0 k -> update_kind k t = RV k' t' -> like k0 k' /\ in_range k0 k'.
Proof.
  intros Hl. destruct k as [v d|v d|v d|v d|v d|v d|n| |]; cbn.
  - destruct (update_int v d t) as [[x dx] t1| | |] eqn:E; cbn; try discriminate.
    intros H; inversion H; subst. destruct k0; cbn in *; try tauto. eapply update_int_gen; eauto.
  - destruct (update_uint v d t) as [[x dx] t1| | |] eqn:E; cbn; try discriminate.
    intros H; inversion H; subst. destruct k0; cbn in *; try tauto. eapply update_uint_gen; eauto.
  - destruct (update_double v d t) as [[x dx] t1| | |] eqn:E; cbn; try discriminate.
    intros H; inversion H; subst. destruct k0; cbn in *; try tauto. eapply update_double_gen; eauto.
  - destruct (update_scalar v d t) as [[x dx] t1| | |] eqn:E; cbn; try discriminate.
    intros H; inversion H; subst. destruct k0; cbn in *; try tauto. eapply update_scalar_gen; eauto.
  - destruct (update_strlist v d t) as [[x dx] t1| | |] eqn:E; cbn; try discriminate.
    intros H; inversion H; subst. destruct k0; cbn in *; try tauto. eapply update_strlist_gen; eauto.
  - destruct (update_scalar v d t) as [[x dx] t1| | |] eqn:E; cbn; try discriminate.
    intros H; inversion H; subst. destruct k0; cbn in *; try tauto. eapply update_scalar_gen; eauto.
  - intros H; inversion H; subst. destruct k0; cbn in *; tauto.
  - intros H; inversion H; subst. destruct k0; cbn in *; tauto.
  - discriminate.
Qed.

(** * Part 3: one step of one value *)

Lemma wrap64_id z : min_i64 <= z <= max_i64 -> wrap64 z = z.
Proof.
  unfold wrap64, min_i64, max_i64, two63, two64. intros H.
  rewrite Z.mod_small; lia.
Qed.

Lemma wrap64_range z : min_i64 <= wrap64 z <= max_i64.
Proof.
  unfold wrap64, min_i64, max_i64, two63, two64.
  pose proof (Z.mod_pos_bound (z + 9223372036854775808) 18446744073709551616). lia.
Qed.

Lemma wrap64_high z : max_i64 < z < two64 -> wrap64 z = z - two64.
Proof.
  unfold wrap64, max_i64, two63, two64. intros H.
  replace (z + 9223372036854775808)
    with ((z + 9223372036854775808 - 18446744073709551616) + 1 * 18446744073709551616) by lia.
  rewrite Z_mod_plus_full, Z.mod_small; lia.
Qed.

Lemma update_ts_gen_spec f1 f2 ts dmin dmax t ts' t' :
  dmax <= max_i64 ->
  update_ts_gen f1 f2 ts dmin dmax t = RV ts' t' ->
  0 <= ts /\ 0 <= dmin <= dmax /\
  exists r, 0 <= r <= dmax - dmin /\ ts' = wrap64 (ts + r + dmin) /\ (f2 = true -> ts <= ts').
Proof.
  intros Hmax. unfold update_ts_gen.
  destruct (ts <? 0) eqn:E1; [discriminate|].
  destruct ((dmin >? dmax) || (dmin <? 0)) eqn:E2; [discriminate|].
  unfold guard_width_gen. destruct (f1 && _); [discriminate|].
  destruct (int63n (wrap64 (dmax - dmin + 1)) t) as [r t1| | |] eqn:Er; cbn [rbind]; try discriminate.
  cbv zeta. destruct (f2 && _) eqn:E3; [discriminate|].
  intros H. assert (Hts : ts' = wrap64 (ts + r + dmin)) by congruence. clear H.
  zb. apply int63n_range in Er.
  assert (Hw : dmax - dmin + 1 <= max_i64 \/ dmax - dmin + 1 = two63)
    by (unfold max_i64, two63 in *; lia).
  destruct Hw as [Hw|Hw].
  - rewrite wrap64_id in Er by (unfold min_i64, max_i64 in *; lia).
    repeat split; try lia. exists r. split; [lia|]. split; [assumption|].
    intros ->. cbn in E3. zb. lia.
  - rewrite Hw in Er. exfalso. revert Er. unfold wrap64, two63, two64.
    change ((9223372036854775808 + 9223372036854775808) mod 18446744073709551616) with 0. lia.
Qed.

Lemma update_ts_spec ts dmin dmax t ts' t' :
  dmax <= max_i64 ->
  update_ts ts dmin dmax t = RV ts' t' ->
  0 <= ts /\ 0 <= dmin <= dmax /\
  exists r, 0 <= r <= dmax - dmin /\ ts' = wrap64 (ts + r + dmin).
Proof.
  intros Hmax H. destruct (update_ts_gen_spec _ _ _ _ _ _ _ _ Hmax H) as (H0 & H1 & r & Hr & Hts & _).
  eauto 6.
Qed.

(** C20_2 repaired: a successful timestamp update never goes back *)
Lemma update_ts_gen_mono f1 ts dmin dmax t ts' t' :
  update_ts_gen f1 true ts dmin dmax t = RV ts' t' -> ts <= ts'.
Proof.
  unfold update_ts_gen.
  destruct (ts <? 0); [discriminate|]. destruct ((dmin >? dmax) || (dmin <? 0)); [discriminate|].
  unfold guard_width_gen. destruct (f1 && _); [discriminate|].
  destruct (int63n _ t) as [r t1| | |]; cbn [rbind]; try discriminate.
  cbv zeta. cbn [andb]. destruct (wrap64 (ts + r + dmin) <? ts) eqn:E; [discriminate|].
  intros H. assert (ts' = wrap64 (ts + r + dmin)) by congruence. zb. lia.
Qed.

(** ... and with int64 fields it stays within the delta bounds *)
Lemma update_ts_gen_step f1 ts dmin dmax t ts' t' :
  ts <= max_i64 -> dmax <= max_i64 ->
  update_ts_gen f1 true ts dmin dmax t = RV ts' t' ->
  0 <= dmin /\ dmin <= ts' - ts <= dmax.
Proof.
  intros Hts Hmax H. pose proof (update_ts_gen_mono _ _ _ _ _ _ _ H) as Hmono.
  destruct (update_ts_gen_spec _ _ _ _ _ _ _ _ Hmax H) as (H0 & H1 & r & Hr & Heq & _).
  destruct (Z_le_gt_dec (ts + r + dmin) max_i64) as [Hle|Hgt].
  - rewrite wrap64_id in Heq by (unfold min_i64, max_i64 in *; lia). lia.
  - exfalso. rewrite wrap64_high in Heq by (unfold max_i64, two64 in *; lia).
    unfold max_i64, two64 in *. lia.
Qed.

Lemma next_value_none v g g' : next_value v g = RV None g' -> vrep v = 1 /\ g' = g.
Proof.
  unfold next_value. destruct (vrep v =? 1) eqn:E.
  - intros H; inversion H; subst. zb. auto.
  - destruct (rbind _ _) as [tk t2| | |]; try discriminate.
    destruct (vown v); discriminate.
Qed.

Lemma next_value_some v g v' g' :
  next_value v g = RV (Some v') g' ->
  vrep v <> 1 /\ vrep v' = (if vrep v >? 1 then vrep v - 1 else vrep v) /\
  vid v' = vid v /\ vdmin v' = vdmin v /\ vdmax v' = vdmax v /\
  (exists t t', update_ts (vts v) (vdmin v) (vdmax v) t = RV (vts v') t') /\
  (exists t t', update_kind (vk v) t = RV (vk v') t').
Proof.
  unfold next_value. destruct (vrep v =? 1) eqn:E; [discriminate|]. zb.
  set (t0 := match vown v with Some o => o | None => g end).
  destruct (update_ts (vts v) (vdmin v) (vdmax v) t0) as [ts1 t1| | |] eqn:Ets;
    cbn [rbind]; try discriminate.
  destruct (update_kind (vk v) t1) as [k1 t2| | |] eqn:Ek; cbn [rbind]; try discriminate.
  intros H.
  assert (Hv : v' = set_gen v ts1 (if vrep v >? 1 then vrep v - 1 else vrep v)
                      (match vown v with Some _ => Some t2 | None => None end) k1).
  { destruct (vown v); inversion H; reflexivity. }
  subst v'. cbn. repeat split; eauto.
Qed.

(** [vlike v0 v]: v is a state of the configured value v0 *)
Definition vlike (v0 v : value) : Prop :=
  vid v = vid v0 /\ vdmin v = vdmin v0 /\ vdmax v = vdmax v0 /\ like (vk v0) (vk v).

Theorem next_value_gen v0 v g v' g' :
  vlike v0 v -> next_value v g = RV (Some v') g' -> vlike v0 v' /\ in_range (vk v0) (vk v').
Proof.
  intros (Hi & Hmn & Hmx & Hl) H. apply next_value_some in H.
  destruct H as (_ & _ & Hi' & Hmn' & Hmx' & _ & (t & t' & Hk)).
  destruct (update_kind_gen _ _ _ _ _ Hl Hk) as [Hl' Hr].
  split; [|assumption]. unfold vlike. repeat split; congruence.
Qed.

Theorem next_value_ts_step v g v' g' :
  vdmax v <= max_i64 ->
  next_value v g = RV (Some v') g' ->
  0 <= vts v /\ 0 <= vdmin v <= vdmax v /\
  (vts v + vdmax v <= max_i64 -> vdmin v <= vts v' - vts v <= vdmax v).
Proof.
  intros Hmax H. apply next_value_some in H.
  destruct H as (_ & _ & _ & _ & _ & (t & t' & Hts) & _).
  apply update_ts_spec in Hts; [|assumption].
  destruct Hts as (H0 & Hd & r & Hr & ->). repeat split; try lia;
    rewrite wrap64_id by (unfold min_i64, max_i64 in *; lia); lia.
Qed.

(** * Part 4: the bucketed queue is a stable sorted insertion *)

Definition bkey (b : list value) : Z := match b with h :: _ => vts h | [] => 0 end.

(** buckets: non-empty, one timestamp each, strictly increasing *)
Definition bucket_ok (b : list value) : Prop := b <> [] /\ Forall (fun x => vts x = bkey b) b.
Definition wf (q : buckets) : Prop :=
  Forall bucket_ok q /\ StronglySorted Z.lt (map bkey q).

(** the specification of addValue: linear stable insertion *)
Fixpoint ins (v : value) (q : buckets) : buckets :=
  match q with
  | [] => [[v]]
  | b :: q' =>
      if vts v =? bkey b then (b ++ [v]) :: q'
      else if vts v <? bkey b then [v] :: b :: q'
      else b :: ins v q'
  end.

Definition keyat (q : buckets) (j : nat) : Z := nth j (map bkey q) 0.

Lemma sorted_nth_lt (l : list Z) : StronglySorted Z.lt l ->
  forall i j, (i < j < List.length l)%nat -> nth i l 0 < nth j l 0.
Proof.
  induction 1 as [|a l Hs IH Hf]; cbn; intros i j Hij; [lia|].
  destruct i as [|i], j as [|j]; try lia.
  - rewrite Forall_forall in Hf. apply Hf. apply nth_In. lia.
  - apply IH. lia.
Qed.

Lemma wf_nth_error q i : wf q -> (i < List.length q)%nat ->
  exists h b, nth_error q i = Some (h :: b) /\ vts h = keyat q i.
Proof.
  intros [Hb _] Hi. destruct (nth_error q i) as [bk|] eqn:E.
  - assert (Hin : In bk q) by (eapply nth_error_In; eauto).
    rewrite Forall_forall in Hb. destruct (Hb _ Hin) as [Hne _].
    destruct bk as [|h b]; [congruence|]. exists h, b. split; [reflexivity|].
    unfold keyat. erewrite nth_indep with (d' := bkey []) by (rewrite map_length; lia).
    rewrite map_nth. erewrite nth_error_nth; eauto. reflexivity.
  - apply nth_error_None in E. lia.
Qed.

Lemma bsearch_spec fuel t q : wf q -> forall l r,
  (l <= r <= List.length q)%nat -> (r - l < fuel)%nat ->
  (forall j, (j < l)%nat -> keyat q j < t) ->
  (forall j, (r <= j < List.length q)%nat -> t < keyat q j) ->
  (exists i, bsearch fuel t q l r = Ok (i, true) /\ (i < List.length q)%nat /\ keyat q i = t) \/
  (exists p, bsearch fuel t q l r = Ok (p, false) /\ (p <= List.length q)%nat /\
             (forall j, (j < p)%nat -> keyat q j < t) /\
             (forall j, (p <= j < List.length q)%nat -> t < keyat q j)).
Proof.
  intros Hwf. induction fuel as [|f IH]; intros l r Hlr Hf Hlo Hhi; [lia|].
  cbn [bsearch]. destruct (Nat.eqb l r) eqn:E.
  - apply Nat.eqb_eq in E. subst r. right. exists l. repeat split; auto; lia.
  - apply Nat.eqb_neq in E.
    set (i := ((r - l) / 2 + l)%nat).
    assert (Hi : (l <= i < r)%nat).
    { unfold i. split; [lia|].
      assert ((r - l) / 2 < r - l)%nat by (apply Nat.div_lt; lia). lia. }
    destruct (wf_nth_error q i Hwf) as (h & b & Hn & Hk); [lia|].
    rewrite Hn. rewrite Hk.
    pose proof (sorted_nth_lt _ (proj2 Hwf)) as Hmono.
    rewrite map_length in Hmono. fold (keyat q) in Hmono.
    destruct (t =? keyat q i) eqn:E1; zb.
    + left. exists i. repeat split; auto; lia.
    + destruct (t <? keyat q i) eqn:E2; zb.
      * apply IH; try lia; auto.
        intros j Hj. destruct (Nat.eq_dec j i) as [->|Hne]; [lia|].
        assert (keyat q i < keyat q j) by (apply Hmono; lia). lia.
      * apply IH; try lia; auto.
        intros j Hj. destruct (Nat.eq_dec j i) as [->|Hne]; [lia|].
        assert (keyat q j < keyat q i) by (apply Hmono; lia). lia.
Qed.

Lemma wf_tail b q : wf (b :: q) -> wf q.
Proof. intros [Hb Hs]. inversion Hb; inversion Hs; subst. split; auto. Qed.

Lemma wf_head_lt b q j : wf (b :: q) -> (j < List.length q)%nat -> bkey b < keyat q j.
Proof.
  intros [_ Hs] Hj. cbn in Hs. inversion Hs as [|? ? _ Hf]; subst.
  rewrite Forall_forall in Hf. apply Hf. unfold keyat. apply nth_In. rewrite map_length. lia.
Qed.

Lemma app_at_ins v q : wf q -> forall i, (i < List.length q)%nat -> keyat q i = vts v ->
  app_at i v q = ins v q.
Proof.
  induction q as [|b q IH]; intros Hwf i Hi Hk; [cbn in Hi; lia|].
  destruct i as [|i]; cbn [app_at ins].
  - unfold keyat in Hk. cbn in Hk. rewrite <- Hk, Z.eqb_refl. reflexivity.
  - cbn in Hi. assert (Hlt : bkey b < vts v).
    { rewrite <- Hk. change (keyat (b :: q) (S i)) with (keyat q i).
      apply (wf_head_lt b q i Hwf). lia. }
    destruct (vts v =? bkey b) eqn:E1; zb; [lia|].
    destruct (vts v <? bkey b) eqn:E2; zb; [lia|].
    f_equal. apply IH; [eapply wf_tail; eauto|lia|exact Hk].
Qed.

Lemma split_ins v q : wf q -> forall p, (p <= List.length q)%nat ->
  (forall j, (j < p)%nat -> keyat q j < vts v) ->
  (forall j, (p <= j < List.length q)%nat -> vts v < keyat q j) ->
  firstn p q ++ [v] :: skipn p q = ins v q.
Proof.
  induction q as [|b q IH]; intros Hwf p Hp Hlo Hhi.
  - destruct p; reflexivity.
  - destruct p as [|p]; cbn [firstn skipn app ins].
    + specialize (Hhi 0%nat). unfold keyat in Hhi. cbn in Hhi.
      assert (vts v < bkey b) by (apply Hhi; lia).
      destruct (vts v =? bkey b) eqn:E1; zb; [lia|].
      destruct (vts v <? bkey b) eqn:E2; zb; [reflexivity|lia].
    + assert (bkey b < vts v) by (apply (Hlo 0%nat); lia).
      destruct (vts v =? bkey b) eqn:E1; zb; [lia|].
      destruct (vts v <? bkey b) eqn:E2; zb; [lia|].
      f_equal. apply IH; [eapply wf_tail; eauto|cbn in Hp; lia| |].
      * intros j Hj. apply (Hlo (S j)). lia.
      * intros j Hj. apply (Hhi (S j)). cbn [List.length]. lia.
Qed.

(** addValue's binary search computes the stable sorted insertion *)
Theorem insert_value_ins v q : wf q -> insert_value v q = Ok (ins v q).
Proof.
  intros Hwf. unfold insert_value.
  destruct (bsearch_spec (S (List.length q)) (vts v) q Hwf 0 (List.length q))
    as [(i & -> & Hi & Hk)|(p & -> & Hp & Hlo & Hhi)]; try lia.
  - f_equal. now apply app_at_ins.
  - f_equal. now apply split_ins.
Qed.

Definition flat (q : buckets) : list value := List.concat q.

(** what the insertion does to the emission order: the element goes after
    everything at most as late and before everything later; nothing else moves *)
Lemma ins_flat v q : wf q ->
  exists m1 m2, flat q = m1 ++ m2 /\ flat (ins v q) = m1 ++ v :: m2 /\
    Forall (fun x => vts x <= vts v) m1 /\ Forall (fun x => vts v < vts x) m2.
Proof.
  induction q as [|b q IH]; intros Hwf.
  - exists [], []. cbn. repeat split; constructor.
  - cbn [ins]. destruct Hwf as [Hb Hs]. inversion Hb as [|? ? [Hne Hu] Hb']; subst.
    assert (Hrest : forall c, StronglySorted Z.lt (map bkey (b :: q)) -> bkey b <= c ->
              Forall (fun x => c <= vts x) (flat q) -> True) by auto.
    assert (Hq : Forall (fun x => bkey b < vts x) (flat q)).
    { cbn in Hs. inversion Hs as [|? ? Hs' Hf]; subst. clear - Hf Hb'.
      unfold flat. induction q as [|c q IHq]; cbn; [constructor|].
      inversion Hf; inversion Hb' as [|? ? [_ Hc] ?]; subst.
      apply Forall_app. split; [|auto].
      eapply Forall_impl; [|exact Hc]. cbn. intros x ->. assumption. }
    destruct (vts v =? bkey b) eqn:E1; zb.
    + exists b, (flat q). cbn. rewrite <- app_assoc. repeat split; auto.
      * eapply Forall_impl; [|exact Hu]. cbn. intros x ->. lia.
      * eapply Forall_impl; [|exact Hq]. cbn. intros x. lia.
    + destruct (vts v <? bkey b) eqn:E2; zb.
      * exists [], (b ++ flat q). cbn. repeat split; auto.
        apply Forall_app. split.
        -- eapply Forall_impl; [|exact Hu]. cbn. intros x ->. lia.
        -- eapply Forall_impl; [|exact Hq]. cbn. intros x. lia.
      * destruct IH as (m1 & m2 & Hf & Hi & H1 & H2).
        { split; auto. cbn in Hs. now inversion Hs. }
        exists (b ++ m1), m2. cbn. unfold flat in *. rewrite Hf, Hi, <- !app_assoc.
        repeat split; auto. apply Forall_app. split; auto.
        eapply Forall_impl; [|exact Hu]. cbn. intros x ->. lia.
Qed.

Lemma ins_wf v q : wf q -> wf (ins v q).
Proof.
  induction q as [|b q IH]; intros Hwf.
  - cbn. split; [repeat constructor; congruence|repeat constructor].
  - cbn [ins]. pose proof Hwf as [Hb Hs]. inversion Hb as [|? ? [Hne Hu] Hb']; subst.
    cbn in Hs. inversion Hs as [|? ? Hs' Hf]; subst.
    assert (Hk : bkey (b ++ [v]) = bkey b) by (destruct b; [congruence|reflexivity]).
    destruct (vts v =? bkey b) eqn:E1; zb.
    + split.
      * constructor; auto. split; [destruct b; discriminate|].
        rewrite Hk. apply Forall_app. split; auto.
      * cbn. rewrite Hk. constructor; auto.
    + destruct (vts v <? bkey b) eqn:E2; zb.
      * split.
        -- constructor; auto. split; [discriminate|repeat constructor].
        -- cbn. constructor; [constructor; auto|]. constructor; [assumption|].
           eapply Forall_impl; [|exact Hf]. cbn. intros; lia.
      * destruct (IH (wf_tail _ _ Hwf)) as [Hb2 Hs2]. split; [constructor; auto; split; auto|].
        cbn. constructor; auto.
        (* every key of [ins v q] is a key of q or [vts v] *)
        clear - Hf E1 E2 Hb'. induction q as [|c q IHq]; cbn.
        -- repeat constructor. cbn. lia.
        -- inversion Hf; inversion Hb' as [|? ? [Hne _] ?]; subst.
           assert (Hk : bkey (c ++ [v]) = bkey c) by (destruct c; [congruence|reflexivity]).
           destruct (vts v =? bkey c); [cbn; rewrite Hk; constructor; auto|].
           destruct (vts v <? bkey c); cbn.
           ++ constructor; [cbn; lia|constructor; auto].
           ++ constructor; auto.
Qed.

(** * Part 5: runs *)

Lemma update_ts_nonneg ts dmin dmax t ts' t' :
  update_ts ts dmin dmax t = RV ts' t' -> 0 <= ts.
Proof.
  unfold update_ts, update_ts_gen. destruct (ts <? 0) eqn:E1; [discriminate|]. zb. auto.
Qed.

Theorem next_value_ts_step' v g v' g' :
  next_value v g = RV (Some v') g' ->
  0 <= vts v /\
  (vts v + vdmax v <= max_i64 -> 0 <= vdmin v /\ vdmin v <= vts v' - vts v <= vdmax v).
Proof.
  intros H. pose proof H as H'. apply next_value_some in H'.
  destruct H' as (_ & _ & _ & _ & _ & (t & t' & Hts) & _).
  pose proof (update_ts_nonneg _ _ _ _ _ _ Hts) as H0. split; [assumption|].
  intros Hg. assert (Hm : vdmax v <= max_i64) by lia.
  destruct (next_value_ts_step v g v' g' Hm H) as (_ & Hd & Hs). specialize (Hs Hg). lia.
Qed.

Lemma wf_below b q : wf (b :: q) -> Forall (fun x => bkey b < vts x) (flat q).
Proof.
  intros [Hb Hs]. inversion Hb as [|? ? _ Hb']; subst.
  cbn in Hs. inversion Hs as [|? ? Hs' Hf]; subst. clear - Hf Hb'.
  unfold flat. induction q as [|c q IHq]; cbn; [constructor|].
  inversion Hf; inversion Hb' as [|? ? [_ Hc] ?]; subst.
  apply Forall_app. split; [|auto].
  eapply Forall_impl; [|exact Hc]. cbn. intros x ->. assumption.
Qed.

(** the head of a well-formed queue is its earliest element *)
Lemma wf_head_min v rest bs :
  wf ((v :: rest) :: bs) -> Forall (fun x => vts v <= vts x) (rest ++ flat bs).
Proof.
  intros Hwf. pose proof (wf_below _ _ Hwf) as Hb. destruct Hwf as [Hok _].
  inversion Hok as [|? ? [_ Hu] _]; subst. cbn in Hu, Hb. inversion Hu; subst.
  apply Forall_app. split.
  - eapply Forall_impl; [|eassumption]. cbn. intros x ->. lia.
  - eapply Forall_impl; [|exact Hb]. cbn. intros; lia.
Qed.

Lemma wf_pop v rest bs :
  wf ((v :: rest) :: bs) ->
  wf (match rest with [] => bs | _ => rest :: bs end) /\
  flat (match rest with [] => bs | _ => rest :: bs end) = rest ++ flat bs.
Proof.
  intros Hwf. destruct rest as [|w rest]; [split; [eapply wf_tail; eauto|reflexivity]|].
  split; [|reflexivity]. destruct Hwf as [Hok Hs].
  inversion Hok as [|? ? [_ Hu] Hok']; subst. cbn in Hu. inversion Hu as [|? ? _ Hu']; subst.
  inversion Hu' as [|? ? Hw Hu'']; subst.
  split.
  - constructor; auto. split; [discriminate|]. cbn. constructor; auto.
    eapply Forall_impl; [|exact Hu'']. cbn. intros; lia.
  - cbn in *. rewrite Hw. assumption.
Qed.

Theorem next_emit q v q' :
  wf (qb q) -> next q = SEmit v q' ->
  exists rest, flat (qb q) = v :: rest /\ wf (qb q') /\
    Forall (fun x => vts v <= vts x) rest /\
    ((exists g', next_value v (qtape q) = RV None g' /\ flat (qb q') = rest) \/
     (exists v' g' m1 m2, next_value v (qtape q) = RV (Some v') g' /\ rest = m1 ++ m2 /\
        flat (qb q') = m1 ++ v' :: m2 /\
        Forall (fun x => vts x <= vts v') m1 /\ Forall (fun x => vts v' < vts x) m2)).
Proof.
  intros Hwf. unfold next. destruct (qb q) as [|[|v0 rest0] bs] eqn:Eq; try discriminate.
  destruct (next_value v0 (qtape q)) as [ov g'| | |] eqn:En; try discriminate.
  destruct (wf_pop _ _ _ Hwf) as [Hwf' Hfl]. pose proof (wf_head_min _ _ _ Hwf) as Hmin.
  set (bs' := match rest0 with [] => bs | _ => rest0 :: bs end) in *.
  destruct ov as [v'|].
  - unfold add_value. cbn [qb]. rewrite (insert_value_ins v' bs' Hwf').
    intros H; inversion H; subst; clear H. cbn [qb].
    exists (rest0 ++ flat bs). split; [reflexivity|]. split; [now apply ins_wf|].
    split; [assumption|]. right.
    destruct (ins_flat v' bs' Hwf') as (m1 & m2 & Hf & Hi & H1 & H2).
    exists v', g', m1, m2. rewrite <- Hfl. auto.
  - intros H; inversion H; subst; clear H. cbn [qb].
    exists (rest0 ++ flat bs). split; [reflexivity|]. split; [assumption|].
    split; [assumption|]. left. eauto.
Qed.

(** since df96f85 a successful step of a value never moves its timestamp back
    (before: only while [ts + delta_max <= MaxInt64], see update_ts_unpatched_wraps) *)
Definition ts_monotone_steps : Prop :=
  forall v g v' g', next_value v g = RV (Some v') g' -> vts v <= vts v'.

Lemma ts_monotone_fixed : fix_C20_2 = true -> ts_monotone_steps.
Proof.
  intros Hfix v g v' g' H. apply next_value_some in H.
  destruct H as (_ & _ & _ & _ & _ & (t & t' & Hts) & _).
  unfold update_ts in Hts. rewrite Hfix in Hts. eapply update_ts_gen_mono; eauto.
Qed.

Lemma run_sorted_lb n : ts_monotone_steps -> forall q lb,
  wf (qb q) -> Forall (fun x => lb <= vts x) (flat (qb q)) ->
  StronglySorted Z.le (map vts (fst (run n q))) /\ Forall (fun x => lb <= vts x) (fst (run n q)).
Proof.
  intros Hmono. induction n as [|n IH]; intros q lb Hwf Hlb; cbn [run] in *.
  - cbn. split; constructor.
  - destruct (next q) as [|v q'| | |] eqn:En; cbn in *; try solve [split; constructor].
    destruct (next_emit _ _ _ Hwf En) as (rest & Hfl & Hwf' & Hmin & Hcase).
    rewrite Hfl in Hlb. inversion Hlb as [|? ? Hv Hrest]; subst.
    assert (Hlb' : Forall (fun x => vts v <= vts x) (flat (qb q'))).
    { destruct Hcase as [(g' & _ & ->)|(v' & g' & m1 & m2 & Hnv & -> & -> & _ & _)]; [assumption|].
      apply Forall_app in Hmin. destruct Hmin as [Hm1 Hm2].
      apply Forall_app. split; [assumption|]. constructor; [|assumption].
      eapply Hmono; eauto. }
    destruct (IH q' (vts v) Hwf' Hlb') as [Hs Hall].
    split.
    + constructor; [assumption|]. rewrite Forall_map. assumption.
    + constructor; [assumption|]. eapply Forall_impl; [|exact Hall]. cbn. intros; lia.
Qed.

Lemma add_all_wf vs : forall q q', wf (qb q) -> add_all vs q = Ok q' -> wf (qb q').
Proof.
  induction vs as [|v vs IH]; cbn; intros q q' Hwf H.
  - inversion H; subst; assumption.
  - unfold add_value in H. rewrite (insert_value_ins v (qb q) Hwf) in H.
    eapply IH; [|exact H]. cbn. now apply ins_wf.
Qed.

Lemma wf_nil : wf [].
Proof. split; constructor. Qed.

Lemma reset_wf vs g ds q : reset vs g ds = Ok q -> wf (qb q).
Proof.
  unfold reset, new_queue. destruct (add_all vs _) as [q0| |] eqn:E; try discriminate.
  pose proof (add_all_wf vs (mkQ [] 0 g) _ wf_nil E) as Hwf.
  destruct ds; [intros H; inversion H; subst; assumption|].
  unfold add_value. rewrite (insert_value_ins _ _ Hwf). intros H; inversion H; subst.
  cbn. now apply ins_wf.
Qed.

Lemma reset_total vs g ds : exists q, reset vs g ds = Ok q.
Proof.
  unfold reset, new_queue.
  assert (Ht : forall vs q, wf (qb q) -> exists q', add_all vs q = Ok q' /\ wf (qb q')).
  { clear. induction vs as [|v vs IH]; cbn; intros q Hwf; [eauto|].
    unfold add_value. rewrite (insert_value_ins v (qb q) Hwf). apply IH. cbn. now apply ins_wf. }
  destruct (Ht vs (mkQ [] 0 g) wf_nil) as (q0 & -> & Hwf).
  destruct ds; [eauto|]. unfold add_value. rewrite (insert_value_ins _ _ Hwf). eauto.
Qed.

(** clause 1: for every configuration and every tape the emitted timestamps
    never decrease (unconditional since df96f85: a step that would leave int64
    is an error, which ends the stream) *)
Theorem ts_nondecreasing vs g ds n :
  StronglySorted Z.le (map vts (fst (run_cfg vs g ds n))).
Proof.
  pose proof (ts_monotone_fixed eq_refl) as Hmono.
  unfold run_cfg. destruct (reset vs g ds) as [q| |] eqn:E; cbn; try constructor.
  pose proof (reset_wf _ _ _ _ E) as Hwf.
  destruct (flat (qb q)) as [|v0 rest] eqn:Ef.
  - destruct n; cbn; [constructor|]. unfold next.
    destruct (qb q) as [|[|] ?]; cbn; try constructor; discriminate.
  - assert (Hlb : Forall (fun x => vts v0 <= vts x) (flat (qb q))).
    { destruct (qb q) as [|[|w r0] bs] eqn:Eq; cbn in Ef; try discriminate.
      - destruct Hwf as [Hb _]. inversion Hb as [|? ? [Hne _] _]; congruence.
      - cbn in Ef. inversion Ef; subst. constructor; [lia|]. now apply wf_head_min. }
    apply (run_sorted_lb n Hmono q (vts v0) Hwf Hlb).
Qed.

(** ** clause 3 at the level of runs *)

Lemma vlike_refl v : vlike v v.
Proof. unfold vlike. repeat split; auto. apply like_refl. Qed.

(** [genuine cfg x]: x is a configured value as configured, or a state of one
    whose current value lies in the configured range / option list *)
Definition genuine (cfg : list value) (x : value) : Prop :=
  exists v0, In v0 cfg /\ vlike v0 x /\ (x = v0 \/ in_range (vk v0) (vk x)).

Lemma run_genuine cfg n : forall q,
  wf (qb q) -> Forall (genuine cfg) (flat (qb q)) -> Forall (genuine cfg) (fst (run n q)).
Proof.
  induction n as [|n IH]; intros q Hwf Hinv; cbn [run]; [constructor|].
  destruct (next q) as [|v q'| | |] eqn:En; cbn; try constructor.
  - destruct (next_emit _ _ _ Hwf En) as (rest & Hfl & _). rewrite Hfl in Hinv. now inversion Hinv.
  - destruct (next_emit _ _ _ Hwf En) as (rest & Hfl & Hwf' & _ & Hcase).
    rewrite Hfl in Hinv. inversion Hinv as [|? ? Hv Hrest]; subst.
    apply IH; [assumption|].
    destruct Hcase as [(g' & _ & ->)|(v' & g' & m1 & m2 & Hnv & -> & -> & _ & _)]; [assumption|].
    apply Forall_app in Hrest. destruct Hrest as [H1 H2].
    apply Forall_app. split; [assumption|]. constructor; [|assumption].
    destruct Hv as (v0 & Hin & Hl & _).
    destruct (next_value_gen _ _ _ _ _ Hl Hnv) as [Hl' Hr]. exists v0. auto.
Qed.

Lemma ins_In v q x : wf q -> (In x (flat (ins v q)) <-> x = v \/ In x (flat q)).
Proof.
  intros Hwf. destruct (ins_flat v q Hwf) as (m1 & m2 & -> & -> & _).
  rewrite !in_app_iff. cbn. intuition congruence.
Qed.

Lemma add_all_In vs : forall q q', wf (qb q) -> add_all vs q = Ok q' ->
  forall x, In x (flat (qb q')) <-> In x vs \/ In x (flat (qb q)).
Proof.
  induction vs as [|v vs IH]; cbn; intros q q' Hwf H x.
  - inversion H; subst. tauto.
  - unfold add_value in H. rewrite (insert_value_ins v (qb q) Hwf) in H.
    match type of H with add_all vs ?qq = _ =>
      assert (Hw2 : wf (qb qq)) by (cbn [qb]; now apply ins_wf);
      rewrite (IH qq q' Hw2 H x) end.
    cbn [qb]. rewrite (ins_In v _ x Hwf). intuition congruence.
Qed.

(** the configuration as the generator sees it: the values and, unless
    disabled, the sync marker at the latest initial timestamp *)
Definition latest_of (vs : list value) : Z := fold_left (fun m v => if vts v >? m then vts v else m) vs 0.

Lemma add_all_latest vs : forall q q', add_all vs q = Ok q' ->
  qlatest q' = fold_left (fun m v => if vts v >? m then vts v else m) vs (qlatest q).
Proof.
  induction vs as [|v vs IH]; cbn; intros q q' H.
  - now inversion H.
  - unfold add_value in H. destruct (insert_value v (qb q)) as [b| |]; try discriminate.
    rewrite (IH _ _ H). reflexivity.
Qed.

Definition full_cfg (vs : list value) (ds : bool) : list value :=
  if ds then vs else vs ++ [sync_value (List.length vs) (latest_of vs)].

Lemma reset_In vs g ds q : reset vs g ds = Ok q ->
  forall x, In x (flat (qb q)) <-> In x (full_cfg vs ds).
Proof.
  unfold reset, new_queue, full_cfg. destruct (add_all vs _) as [q0| |] eqn:E; try discriminate.
  pose proof (add_all_wf vs (mkQ [] 0 g) _ wf_nil E) as Hwf.
  pose proof (add_all_In vs (mkQ [] 0 g) _ wf_nil E) as Hin.
  pose proof (add_all_latest vs _ _ E) as Hlat. cbn in Hlat. fold (latest_of vs) in Hlat.
  destruct ds; intros H x.
  - inversion H; subst. rewrite Hin. cbn. tauto.
  - unfold add_value in H. rewrite (insert_value_ins _ _ Hwf) in H. inversion H; subst. cbn [qb].
    rewrite ins_In by assumption. rewrite Hin, in_app_iff, Hlat. cbn. intuition congruence.
Qed.

(** clause 3: every emitted value is a configured value as configured (its
    first emission) or lies inside the configured range / option list *)
Theorem in_range_run vs g ds n :
  Forall (genuine (full_cfg vs ds)) (fst (run_cfg vs g ds n)).
Proof.
  unfold run_cfg. destruct (reset vs g ds) as [q| |] eqn:E; cbn; try constructor.
  apply run_genuine; [eapply reset_wf; eauto|].
  rewrite Forall_forall. intros x Hx. rewrite (reset_In _ _ _ _ E) in Hx.
  exists x. split; [assumption|]. split; [apply vlike_refl|now left].
Qed.

(** ** clause 2 (repeat counts) at the level of runs *)

Definition ids (l : list value) : list nat := map vid l.
Definition count (i : nat) (tr : list value) : Z :=
  Z.of_nat (List.length (filter (fun x => Nat.eqb (vid x) i) tr)).

Lemma count_cons i x tr :
  count i (x :: tr) = (if Nat.eqb (vid x) i then 1 else 0) + count i tr.
Proof. unfold count. cbn. destruct (Nat.eqb (vid x) i); cbn [List.length]; lia. Qed.

Lemma count_nonneg i tr : 0 <= count i tr.
Proof. unfold count. lia. Qed.

(** what one successful Next does to the identities in the queue *)
Lemma next_emit_ids q v q' :
  wf (qb q) -> NoDup (ids (flat (qb q))) -> next q = SEmit v q' ->
  exists rest, flat (qb q) = v :: rest /\ wf (qb q') /\ NoDup (ids (flat (qb q'))) /\
    ((vrep v = 1 /\ flat (qb q') = rest) \/
     (exists v' g' m1 m2, next_value v (qtape q) = RV (Some v') g' /\ rest = m1 ++ m2 /\
        flat (qb q') = m1 ++ v' :: m2 /\ vid v' = vid v)).
Proof.
  intros Hwf Hnd En. destruct (next_emit _ _ _ Hwf En) as (rest & Hfl & Hwf' & _ & Hcase).
  exists rest. split; [assumption|]. split; [assumption|].
  rewrite Hfl in Hnd. unfold ids in *. cbn in Hnd. inversion Hnd as [|? ? Hni Hnd']; subst.
  destruct Hcase as [(g' & Hnv & Hq)|(v' & g' & m1 & m2 & Hnv & Hr & Hq & _)].
  - split; [rewrite Hq; assumption|]. left. apply next_value_none in Hnv. tauto.
  - pose proof (next_value_some _ _ _ _ Hnv) as (_ & _ & Hid & _).
    split; [|right; exists v', g', m1, m2; auto].
    rewrite Hq. subst rest.
    eapply Permutation_NoDup; [|exact Hnd].
    rewrite !map_app. cbn. rewrite Hid. apply Permutation_middle.
Qed.

Lemma run_counts n : forall q,
  wf (qb q) -> NoDup (ids (flat (qb q))) ->
  (forall i, ~ In i (ids (flat (qb q))) -> count i (fst (run n q)) = 0) /\
  (forall x, In x (flat (qb q)) ->
     (0 < vrep x -> count (vid x) (fst (run n q)) <= vrep x) /\
     (snd (run n q) = EDone -> 0 < vrep x /\ count (vid x) (fst (run n q)) = vrep x)).
Proof.
  induction n as [|n IH]; intros q Hwf Hnd; cbn [run].
  - cbn. split; [reflexivity|]. intros x _. split; [lia|discriminate].
  - destruct (next q) as [|v q'| | |] eqn:En; cbn [fst snd];
      try (split; [reflexivity|intros x _; split; [cbn; lia|discriminate]]).
    + (* queue exhausted *)
      split; [reflexivity|]. intros x Hx. exfalso.
      unfold next in En. destruct (qb q) as [|[|? ?] ?]; [destruct Hx| |]; try discriminate.
      destruct (next_value _ _) as [[?|]? | | |]; try discriminate.
      destruct (add_value _ _); discriminate.
    + destruct (next_emit_ids _ _ _ Hwf Hnd En) as (rest & Hfl & Hwf' & Hnd' & Hcase).
      destruct (IH q' Hwf' Hnd') as [IHa IHb].
      assert (Hni : ~ In (vid v) (ids rest)).
      { rewrite Hfl in Hnd. unfold ids in *. cbn in Hnd. now inversion Hnd. }
      assert (Hsub : forall i, In i (ids (flat (qb q'))) -> In i (ids (flat (qb q)))).
      { intros i. rewrite Hfl. unfold ids. cbn.
        destruct Hcase as [[_ ->]|(v' & g' & m1 & m2 & _ & -> & -> & Hid)]; [tauto|].
        rewrite !map_app, !in_app_iff. cbn. rewrite Hid. tauto. }
      split.
      * intros i Hi. rewrite count_cons.
        destruct (Nat.eqb (vid v) i) eqn:E.
        -- apply Nat.eqb_eq in E. exfalso. apply Hi. rewrite Hfl. unfold ids. cbn. now left.
        -- rewrite IHa; [reflexivity|]. intros Hin. apply Hi. now apply Hsub.
      * intros x Hx. rewrite Hfl in Hx. rewrite count_cons. destruct Hx as [<-|Hx].
        -- rewrite Nat.eqb_refl.
           destruct Hcase as [[Hr Hq]|(v' & g' & m1 & m2 & Hnv & -> & Hq & Hid)].
           ++ rewrite IHa by (rewrite Hq; assumption). rewrite Hr. split; intros; lia.
           ++ pose proof (next_value_some _ _ _ _ Hnv) as (Hne & Hrep & _).
              assert (Hin' : In v' (flat (qb q'))) by (rewrite Hq; apply in_or_app; right; now left).
              destruct (IHb v' Hin') as [Hle Hdone]. rewrite Hid in *.
              destruct (vrep v >? 1) eqn:Eg; zb; rewrite Hrep in *.
              ** split; [intros _; lia|]. intros He. specialize (Hdone He). lia.
              ** split; [intros; lia|]. intros He. specialize (Hdone He). lia.
        -- assert (Hne : Nat.eqb (vid v) (vid x) = false).
           { apply Nat.eqb_neq. intros Heq. apply Hni. rewrite Heq. unfold ids. now apply in_map. }
           rewrite Hne. cbn [Z.add].
           assert (Hin' : In x (flat (qb q'))).
           { destruct Hcase as [[_ ->]|(v' & g' & m1 & m2 & _ & -> & -> & _)]; [assumption|].
             apply in_app_or in Hx. apply in_or_app. destruct Hx; [now left|right; now right]. }
           apply IHb. assumption.
Qed.

(** identities are distinct and none collides with the injected sync *)
Definition ids_ok (vs : list value) : Prop :=
  NoDup (ids vs) /\ ~ In (List.length vs) (ids vs).

Lemma Permutation_ids_nodup (l l' : list value) :
  (forall x, In x l <-> In x l') -> NoDup l -> List.length l = List.length l' -> True.
Proof. auto. Qed.

Lemma ins_ids_perm v q : wf q -> Permutation (ids (flat (ins v q))) (vid v :: ids (flat q)).
Proof.
  intros Hwf. destruct (ins_flat v q Hwf) as (m1 & m2 & -> & -> & _).
  unfold ids. rewrite !map_app. cbn. symmetry. apply Permutation_middle.
Qed.

Lemma add_all_ids vs : forall q q', wf (qb q) -> add_all vs q = Ok q' ->
  Permutation (ids (flat (qb q'))) (rev (ids vs) ++ ids (flat (qb q))).
Proof.
  induction vs as [|v vs IH]; cbn; intros q q' Hwf H.
  - inversion H; subst. reflexivity.
  - unfold add_value in H. rewrite (insert_value_ins v (qb q) Hwf) in H.
    match type of H with add_all vs ?qq = _ =>
      assert (Hw2 : wf (qb qq)) by (cbn [qb]; now apply ins_wf);
      rewrite (IH qq q' Hw2 H) end.
    cbn [qb]. rewrite (ins_ids_perm v _ Hwf). rewrite <- app_assoc. cbn. reflexivity.
Qed.

Lemma reset_ids vs g ds q : reset vs g ds = Ok q ->
  Permutation (ids (flat (qb q))) (ids (full_cfg vs ds)).
Proof.
  unfold reset, new_queue, full_cfg. destruct (add_all vs _) as [q0| |] eqn:E; try discriminate.
  pose proof (add_all_wf vs (mkQ [] 0 g) _ wf_nil E) as Hwf.
  pose proof (add_all_ids vs (mkQ [] 0 g) _ wf_nil E) as Hp. cbn in Hp. rewrite app_nil_r in Hp.
  destruct ds; intros H.
  - inversion H; subst. rewrite Hp. symmetry. apply Permutation_rev.
  - unfold add_value in H. rewrite (insert_value_ins _ _ Hwf) in H. inversion H; subst. cbn [qb].
    rewrite ins_ids_perm by assumption. rewrite Hp. rewrite <- Permutation_rev.
    unfold ids. rewrite map_app. cbn. apply Permutation_cons_append.
Qed.

Lemma full_cfg_nodup vs ds : ids_ok vs -> NoDup (ids (full_cfg vs ds)).
Proof.
  intros [Hnd Hs]. unfold full_cfg. destruct ds; [assumption|].
  unfold ids. rewrite map_app. cbn. apply NoDup_app_intro_single; assumption.
Qed.

(** clause 2: a value with repeat n > 0 is never emitted more than n times, a
    run that ends because the queue ran dry has emitted every value exactly
    [repeat] times, and cannot end that way while an unbounded value (repeat <= 0)
    is configured *)
Theorem repeat_exact vs g ds n v :
  ids_ok vs -> In v (full_cfg vs ds) ->
  (0 < vrep v -> count (vid v) (fst (run_cfg vs g ds n)) <= vrep v) /\
  (snd (run_cfg vs g ds n) = EDone ->
     0 < vrep v /\ count (vid v) (fst (run_cfg vs g ds n)) = vrep v).
Proof.
  intros Hok Hin. unfold run_cfg. destruct (reset_total vs g ds) as [q E]. rewrite E.
  pose proof (reset_wf _ _ _ _ E) as Hwf.
  assert (Hnd : NoDup (ids (flat (qb q)))).
  { eapply Permutation_NoDup; [symmetry; eapply reset_ids; eauto|now apply full_cfg_nodup]. }
  apply (run_counts n q Hwf Hnd). now apply (reset_In _ _ _ _ E).
Qed.

(** ** clause 5 (the sync marker) at the level of runs *)

(** [before a b l]: walking l, a is met before any b, and b follows *)
Fixpoint before (a b : nat) (l : list nat) : Prop :=
  match l with
  | [] => False
  | x :: l' => if Nat.eqb x b then False else if Nat.eqb x a then In b l' else before a b l'
  end.

Lemma before_In_b a b l : before a b l -> In b l.
Proof.
  induction l as [|x l IH]; cbn; [tauto|].
  destruct (Nat.eqb x b); [tauto|]. destruct (Nat.eqb x a); auto.
Qed.

Lemma before_insert a b c m1 m2 : c <> b -> before a b (m1 ++ m2) -> before a b (m1 ++ c :: m2).
Proof.
  intros Hc. induction m1 as [|x m1 IH]; cbn.
  - intros H. apply Nat.eqb_neq in Hc. rewrite Hc.
    destruct (Nat.eqb c a); [now apply before_In_b in H|assumption].
  - destruct (Nat.eqb x b); [tauto|]. destruct (Nat.eqb x a); [|assumption].
    rewrite !in_app_iff. cbn. tauto.
Qed.

Lemma before_snoc a b l : In a l -> ~ In b l -> before a b (l ++ [b]).
Proof.
  induction l as [|x l IH]; cbn; [tauto|]. intros Ha Hb.
  destruct (Nat.eqb x b) eqn:E1; [apply Nat.eqb_eq in E1; tauto|].
  destruct (Nat.eqb x a) eqn:E2.
  - apply in_or_app. right. now left.
  - apply Nat.eqb_neq in E2. destruct Ha as [Ha|Ha]; [congruence|]. apply IH; tauto.
Qed.

Lemma run_sync sid (cfg : list nat) n : forall q seen a s b,
  wf (qb q) -> NoDup (ids (flat (qb q))) ->
  (forall x, In x (flat (qb q)) -> vid x = sid -> vrep x = 1) ->
  (forall i, In i cfg -> In i seen \/ before i sid (ids (flat (qb q)))) ->
  fst (run n q) = a ++ s :: b -> vid s = sid ->
  forall i, In i cfg -> In i (seen ++ ids a).
Proof.
  induction n as [|n IH]; intros q seen a s b Hwf Hnd Hrep Hinv Htr Hs i Hi; cbn [run] in Htr.
  - destruct a; discriminate.
  - destruct (next q) as [|v q'| | |] eqn:En; cbn in Htr; try (destruct a; discriminate).
    destruct (next_emit_ids _ _ _ Hwf Hnd En) as (rest & Hfl & Hwf' & Hnd' & Hcase).
    rewrite Hfl in Hinv, Hnd. unfold ids in Hinv, Hnd. cbn in Hinv, Hnd.
    destruct a as [|w a]; cbn in Htr; injection Htr as Hhd Htl; subst v.
    + (* the sync is the value emitted now *)
      rewrite app_nil_r. destruct (Hinv i Hi) as [H|H]; [assumption|].
      rewrite Hs, Nat.eqb_refl in H. destruct H.
    + (* an earlier value *)
      apply in_or_app.
      assert (Hgoal : In i ((seen ++ [vid w]) ++ ids a)).
      { eapply (IH q' (seen ++ [vid w]) a s b Hwf' Hnd'); eauto.
        - (* the value with the sync's identity still has repeat 1 *)
          intros x Hx Hxs.
          destruct Hcase as [[_ Hq]|(v' & g' & m1 & m2 & Hnv & Hr & Hq & Hid)].
          + apply Hrep; [|assumption]. rewrite Hfl, <- Hq. now right.
          + rewrite Hq in Hx. apply in_app_or in Hx. destruct Hx as [Hx|[<-|Hx]].
            * apply Hrep; [|assumption]. rewrite Hfl, Hr. right. apply in_or_app. now left.
            * exfalso. pose proof (next_value_some _ _ _ _ Hnv) as (Hne & _).
              apply Hne. apply Hrep; [rewrite Hfl; now left|congruence].
            * apply Hrep; [|assumption]. rewrite Hfl, Hr. right. apply in_or_app. now right.
        - intros j Hj. destruct (Hinv j Hj) as [H|H]; [left; apply in_or_app; now left|].
          destruct (Nat.eqb (vid w) sid) eqn:E1; [destruct H|].
          destruct (Nat.eqb (vid w) j) eqn:E2.
          + apply Nat.eqb_eq in E2. left. apply in_or_app. right. now left.
          + right. destruct Hcase as [[_ ->]|(v' & g' & m1 & m2 & Hnv & -> & -> & Hid)]; [assumption|].
            unfold ids in *. rewrite map_app in *. cbn. apply before_insert; [|assumption].
            rewrite Hid. now apply Nat.eqb_neq. }
      rewrite <- app_assoc in Hgoal. cbn in Hgoal. apply in_app_or in Hgoal.
      destruct Hgoal as [H|H]; [now left|right; exact H].
Qed.

Lemma fold_latest_ge vs : forall m x,
  (In x vs -> vts x <= fold_left (fun m v => if vts v >? m then vts v else m) vs m) /\
  m <= fold_left (fun m v => if vts v >? m then vts v else m) vs m.
Proof.
  induction vs as [|v vs IH]; cbn; intros m x; [split; [tauto|lia]|].
  destruct (IH (if vts v >? m then vts v else m) x) as [H1 H2].
  assert (Hm : m <= (if vts v >? m then vts v else m) /\ vts v <= (if vts v >? m then vts v else m))
    by (destruct (vts v >? m) eqn:E; zb; lia).
  split; [|lia]. intros [<-|Hx]; [lia|auto].
Qed.

(** clause 5: whenever the injected sync marker is emitted, every configured
    value has been emitted at least once before it *)
Theorem sync_after_first_emissions vs g n a s b :
  ids_ok vs ->
  fst (run_cfg vs g false n) = a ++ s :: b -> vid s = List.length vs ->
  forall v, In v vs -> In (vid v) (ids a).
Proof.
  intros [Hnd Hfresh] Htr Hs v Hv. unfold run_cfg in Htr.
  destruct (reset_total vs g false) as [q E]. rewrite E in Htr.
  pose proof (reset_wf _ _ _ _ E) as Hwf.
  assert (Hnd' : NoDup (ids (flat (qb q)))).
  { eapply Permutation_NoDup; [symmetry; eapply reset_ids; eauto|].
    apply full_cfg_nodup. split; assumption. }
  change (In (vid v) ([] ++ ids a)).
  eapply (run_sync (List.length vs) (ids vs) n q [] a s b); eauto.
  - (* the only value carrying the sync's identity is the sync (repeat 1) *)
    intros x Hx Hxs. rewrite (reset_In _ _ _ _ E) in Hx. unfold full_cfg in Hx.
    apply in_app_or in Hx. destruct Hx as [Hx|[<-|[]]]; [|reflexivity].
    exfalso. apply Hfresh. rewrite <- Hxs. unfold ids. now apply in_map.
  - (* initially every configured value precedes the sync *)
    intros i Hi. right. revert E. unfold reset, new_queue.
    destruct (add_all vs _) as [q0| |] eqn:E0; try discriminate.
    pose proof (add_all_wf vs (mkQ [] 0 g) _ wf_nil E0) as Hwf0.
    pose proof (add_all_In vs (mkQ [] 0 g) _ wf_nil E0) as Hin0.
    pose proof (add_all_latest vs _ _ E0) as Hlat. cbn in Hlat.
    unfold add_value. rewrite (insert_value_ins _ _ Hwf0). intros E; inversion E; subst; clear E.
    cbn [qb]. destruct (ins_flat (sync_value (List.length vs) (qlatest q0)) (qb q0) Hwf0)
      as (m1 & m2 & Hf & -> & H1 & H2).
    assert (Hm2 : m2 = []).
    { destruct m2 as [|y m2]; [reflexivity|]. exfalso. inversion H2 as [|? ? Hy _]; subst.
      cbn in Hy. assert (Hyin : In y vs).
      { specialize (Hin0 y). cbn in Hin0. rewrite Hf in Hin0.
        destruct (proj1 Hin0) as [H|[]]; [apply in_or_app; right; now left|assumption]. }
      rewrite Hlat in Hy. pose proof (proj1 (fold_latest_ge vs 0 y) Hyin). lia. }
    subst m2. rewrite app_nil_r in Hf. unfold ids. rewrite map_app. cbn.
    apply before_snoc.
    + unfold ids in Hi. apply in_map_iff in Hi. destruct Hi as (x & <- & Hx). apply in_map.
      rewrite <- Hf. apply Hin0. now left.
    + intros Hin. apply Hfresh. apply in_map_iff in Hin. destruct Hin as (x & Hid & Hx).
      rewrite <- Hid. unfold ids. apply in_map. rewrite <- Hf in Hx. apply Hin0 in Hx.
      cbn in Hx. tauto.
  - unfold ids. now apply in_map.
Qed.

(** ** clause 4 (timestamp steps) at the level of runs *)

Lemma first_emit n : forall q b y c z,
  wf (qb q) -> NoDup (ids (flat (qb q))) ->
  fst (run n q) = b ++ y :: c -> (forall w, In w b -> vid w <> vid y) ->
  In z (flat (qb q)) -> vid z = vid y -> y = z.
Proof.
  induction n as [|n IH]; intros q b y c z Hwf Hnd Htr Hb Hz Hid; cbn [run] in Htr.
  - destruct b; discriminate.
  - destruct (next q) as [|v q'| | |] eqn:En; cbn in Htr; try (destruct b; discriminate).
    destruct (next_emit_ids _ _ _ Hwf Hnd En) as (rest & Hfl & Hwf' & Hnd' & Hcase).
    rewrite Hfl in Hz, Hnd. unfold ids in Hnd. cbn in Hnd. inversion Hnd as [|? ? Hni _]; subst.
    destruct b as [|w b]; cbn in Htr; injection Htr as Hhd Htl; subst v.
    + destruct Hz as [Hz|Hz]; [assumption|]. exfalso. apply Hni. rewrite <- Hid. now apply in_map.
    + assert (Hne : vid w <> vid y) by (apply Hb; now left).
      destruct Hz as [Hz|Hz]; [congruence|].
      eapply (IH q' b y c z); eauto.
      * intros u Hu. apply Hb. now right.
      * destruct Hcase as [[_ ->]|(v' & g' & m1 & m2 & _ & -> & -> & _)]; [assumption|].
        apply in_app_or in Hz. apply in_or_app. destruct Hz; [now left|right; now right].
Qed.

Lemma count_In y tr : In y tr -> 0 < count (vid y) tr.
Proof.
  induction tr as [|x tr IH]; [intros []|]. rewrite count_cons. intros [->|H].
  - rewrite Nat.eqb_refl. pose proof (count_nonneg (vid y) tr). lia.
  - specialize (IH H). destruct (Nat.eqb (vid x) (vid y)); lia.
Qed.

(** with int64 fields a successful step stays within the delta bounds *)
Definition i64v (x : value) : Prop := vts x <= max_i64 /\ vdmax x <= max_i64.

Lemma next_value_step_fixed v g v' g' :
  fix_C20_2 = true -> i64v v -> next_value v g = RV (Some v') g' ->
  (0 <= vdmin v /\ vdmin v <= vts v' - vts v <= vdmax v) /\ i64v v'.
Proof.
  intros Hfix [Ht Hd] H. apply next_value_some in H.
  destruct H as (_ & _ & _ & _ & Hdm & (t & t' & Hts) & _).
  unfold update_ts in Hts. rewrite Hfix in Hts.
  split; [eapply update_ts_gen_step; eauto|].
  split; [|congruence].
  destruct (update_ts_gen_spec _ _ _ _ _ _ _ _ Hd Hts) as (_ & _ & r & _ & -> & _).
  apply wrap64_range.
Qed.

Lemma run_forall (P : value -> Prop) :
  (forall v g v' g', P v -> next_value v g = RV (Some v') g' -> P v') ->
  forall n q, wf (qb q) -> Forall P (flat (qb q)) -> Forall P (fst (run n q)).
Proof.
  intros Hstep. induction n as [|n IH]; intros q Hwf Hinv; cbn [run]; [constructor|].
  destruct (next q) as [|v q'| | |] eqn:En; cbn; try constructor.
  - destruct (next_emit _ _ _ Hwf En) as (rest & Hfl & _). rewrite Hfl in Hinv. now inversion Hinv.
  - destruct (next_emit _ _ _ Hwf En) as (rest & Hfl & Hwf' & _ & Hcase).
    rewrite Hfl in Hinv. inversion Hinv as [|? ? Hv Hrest]; subst.
    apply IH; [assumption|].
    destruct Hcase as [(g' & _ & ->)|(v' & g' & m1 & m2 & Hnv & -> & -> & _ & _)]; [assumption|].
    apply Forall_app in Hrest. destruct Hrest as [H1 H2].
    apply Forall_app. split; [assumption|]. constructor; [|assumption]. eapply Hstep; eauto.
Qed.

Lemma run_ts_step n : fix_C20_2 = true -> forall q a x b y c,
  wf (qb q) -> NoDup (ids (flat (qb q))) ->
  fst (run n q) = a ++ x :: b ++ y :: c -> vid y = vid x ->
  (forall w, In w b -> vid w <> vid x) ->
  i64v x ->
  0 <= vdmin x /\ vdmin x <= vts y - vts x <= vdmax x.
Proof.
  intros Hfix. induction n as [|n IH]; intros q a x b y c Hwf Hnd Htr Hid Hb Hg; cbn [run] in Htr.
  - destruct a; discriminate.
  - destruct (next q) as [|v q'| | |] eqn:En; cbn in Htr; try (destruct a; discriminate).
    destruct (next_emit_ids _ _ _ Hwf Hnd En) as (rest & Hfl & Hwf' & Hnd' & Hcase).
    destruct a as [|w a]; cbn in Htr; injection Htr as Hhd Htl; subst v.
    + destruct Hcase as [[Hr Hq]|(x' & g' & m1 & m2 & Hnv & Hrest & Hq & Hid')].
      * exfalso. rewrite Hfl in Hnd. unfold ids in Hnd. cbn in Hnd. inversion Hnd as [|? ? Hni _]; subst.
        destruct (run_counts n q' Hwf' Hnd') as [Hz _].
        specialize (Hz (vid x) Hni).
        assert (Hy : In y (fst (run n q'))) by (rewrite Htl; apply in_or_app; right; now left).
        apply count_In in Hy. rewrite Hid in Hy. lia.
      * assert (Hx' : In x' (flat (qb q'))) by (rewrite Hq; apply in_or_app; right; now left).
        assert (y = x').
        { eapply (first_emit n q' b y c x'); eauto; try congruence.
          intros u Hu. rewrite Hid. now apply Hb. }
        subst x'. apply (next_value_step_fixed _ _ _ _ Hfix Hg Hnv).
    + eapply (IH q' a x b y c); eauto.
Qed.

Lemma latest_of_le vs : Forall i64v vs -> latest_of vs <= max_i64.
Proof.
  unfold latest_of. assert (H : forall m, m <= max_i64 -> Forall i64v vs ->
    fold_left (fun m v => if vts v >? m then vts v else m) vs m <= max_i64).
  { induction vs as [|v vs IH]; cbn; intros m Hm Hf; [assumption|].
    inversion Hf as [|? ? [Hv _] Hf']; subst. apply IH; [|assumption].
    destruct (vts v >? m); assumption. }
  apply H. unfold max_i64. lia.
Qed.

(** clause 4: between two consecutive emissions of one value the timestamp
    advances by at least delta_min and at most delta_max, for every
    configuration whose timestamps and deltas are int64 values *)
Theorem ts_step_bounds vs g ds n a x b y c :
  ids_ok vs -> Forall i64v vs ->
  fst (run_cfg vs g ds n) = a ++ x :: b ++ y :: c -> vid y = vid x ->
  (forall w, In w b -> vid w <> vid x) ->
  0 <= vdmin x /\ vdmin x <= vts y - vts x <= vdmax x.
Proof.
  intros Hok H64 Htr Hid Hb. unfold run_cfg in Htr.
  destruct (reset_total vs g ds) as [q E]. rewrite E in Htr.
  pose proof (reset_wf _ _ _ _ E) as Hwf.
  assert (Hnd : NoDup (ids (flat (qb q)))).
  { eapply Permutation_NoDup; [symmetry; eapply reset_ids; eauto|now apply full_cfg_nodup]. }
  assert (Hall : Forall i64v (fst (run n q))).
  { apply run_forall; [|assumption|].
    - intros v g0 v' g' Hv Hn. exact (proj2 (next_value_step_fixed _ _ _ _ eq_refl Hv Hn)).
    - rewrite Forall_forall. intros z Hz. rewrite (reset_In _ _ _ _ E) in Hz.
      unfold full_cfg in Hz. destruct ds.
      + rewrite Forall_forall in H64. auto.
      + apply in_app_or in Hz. destruct Hz as [Hz|[<-|[]]].
        * rewrite Forall_forall in H64. auto.
        * split; cbn; [now apply latest_of_le|unfold max_i64; lia]. }
  eapply (run_ts_step n eq_refl); eauto.
  rewrite Forall_forall in Hall. apply Hall. rewrite Htr. apply in_or_app. right. now left.
Qed.

(** clause 6: the emitted sequence is a function of the configuration and the
    tapes (the content of this clause lies in the correspondence run: two real
    generators with the same seed, compared with each other and the model) *)
Theorem deterministic vs g ds n r1 r2 :
  run_cfg vs g ds n = r1 -> run_cfg vs g ds n = r2 -> r1 = r2.
Proof. congruence. Qed.

(** ** the width guard (C20_1, repaired by c1a0b35) *)

(** before the repair updateTimestamp panicked exactly when the width left int64 *)
Theorem update_ts_unpatched_panic_iff f2 ts dmin dmax t :
  update_ts_gen false f2 ts dmin dmax t = RPanic <->
  (0 <= ts /\ 0 <= dmin <= dmax /\ wrap64 (dmax - dmin + 1) <= 0).
Proof.
  unfold update_ts_gen, guard_width_gen. cbn [andb].
  destruct (ts <? 0) eqn:E1; zb.
  - split; [discriminate|lia].
  - destruct ((dmin >? dmax) || (dmin <? 0)) eqn:E2.
    + split; [discriminate|]. intros (_ & H & _). apply orb_true_iff in E2. destruct E2; zb; lia.
    + zb. destruct (int63n (wrap64 (dmax - dmin + 1)) t) as [r t1| | |] eqn:Er; cbn [rbind].
      * cbv zeta. destruct (f2 && _);
          (split; [discriminate|]; intros (_ & _ & Hw); apply int63n_range in Er; lia).
      * apply int63n_panic_iff in Er. split; [intros _; lia|reflexivity].
      * split; [discriminate|]. intros (_ & _ & Hw).
        apply (proj2 (int63n_panic_iff _ t)) in Hw. congruence.
      * split; [discriminate|]. intros (_ & _ & Hw).
        apply (proj2 (int63n_panic_iff _ t)) in Hw. congruence.
Qed.

(** now it never does *)
Theorem update_ts_no_panic f2 ts dmin dmax t : update_ts_gen true f2 ts dmin dmax t <> RPanic.
Proof.
  unfold update_ts_gen, guard_width_gen. cbn [andb].
  destruct (ts <? 0); [discriminate|]. destruct ((dmin >? dmax) || (dmin <? 0)); [discriminate|].
  destruct (wrap64 (dmax - dmin + 1) <=? 0) eqn:Ew; [discriminate|]. zb.
  pose proof (int63n_no_panic (wrap64 (dmax - dmin + 1)) t Ew) as Hn.
  destruct (int63n _ t) as [r t1| | |]; cbn [rbind]; try congruence; try discriminate.
  cbv zeta. destruct (f2 && _); discriminate.
Qed.

(** * Non-vacuity: a concrete configuration meeting the hypotheses, and the
    two findings as refutations of the unguarded statements *)

Definition ex_tape : tape :=
  [5577006791947779410; 8674665223082153551; 6129484611666145821; 4037200794235010051;
   3916589616287113937; 6334824724549167320; 605394647632969758; 1443635317331776148;
   894385949183117216; 2775422040480279449; 4751997750760398084; 7504504064263669287;
   1976235410884491574; 3510942875414458836; 2933568871211445515; 4324745483838182873].

Definition ex_vals : list value :=
  [ mkValue 0 10 1 3 3 None (KInt 5 (NRange 0 10 (-2) 2));
    mkValue 1 12 0 2 0 None (KString "a" (LList ["a"; "b"; "c"] false));
    mkValue 2 10 2 2 2 (Some ex_tape) (KDouble 1.5 (DRange 0 3 0 0)) ].

Example ex_ids_ok : ids_ok ex_vals.
Proof.
  split; cbn.
  - repeat constructor; cbn; intuition discriminate.
  - intuition discriminate.
Qed.

Example ex_run_shape :
  map (fun v => (vid v, vts v, vrep v)) (fst (run_cfg ex_vals ex_tape false 8)) =
  [(0%nat, 10, 3); (2%nat, 10, 2); (1%nat, 12, 0); (3%nat, 12, 1);
   (2%nat, 12, 1); (1%nat, 12, 0); (0%nat, 13, 2); (1%nat, 14, 0)].
Proof. vm_compute. reflexivity. Qed.

Example ex_i64 : Forall i64v ex_vals.
Proof. repeat constructor; cbn; unfold max_i64; lia. Qed.

(** the sync (identity 3) is emitted fourth, after values 0, 2 and 1 *)
Example ex_sync_position :
  exists a s b, fst (run_cfg ex_vals ex_tape false 8) = a ++ s :: b /\
                vid s = List.length ex_vals /\ List.length a = 3%nat.
Proof.
  remember (fst (run_cfg ex_vals ex_tape false 8)) as tr eqn:E. vm_compute in E.
  match type of E with tr = ?x1 :: ?x2 :: ?x3 :: ?s :: ?b =>
    exists [x1; x2; x3], s, b end.
  subst tr. repeat split.
Qed.

(** a finite configuration runs dry (EDone) with exact counts *)
Example ex_done :
  let r := run_cfg [mkValue 0 1 1 1 2 None (KBool true LNone); mkValue 1 0 0 0 1 None KDelete] [0; 0; 0] false 9 in
  snd r = EDone /\ map vid (fst r) = [1%nat; 0%nat; 2%nat; 0%nat].
Proof. vm_compute. split; reflexivity. Qed.

(** regression witnesses of the two repaired defects *)
Definition kf2_vals : list value :=
  [ mkValue 0 9223372036854775805 5 5 2 None (KInt 1 NNone);
    mkValue 1 9223372036854775806 0 0 2 None (KBool true LNone) ].

Definition kf1_vals : list value :=
  [ mkValue 0 6 3 3 5 None (KInt 0 (NRange (-9000000000000000000) 9000000000000000000 0 0)) ].

(** C20_2: the unpatched updateTimestamp moved an int64 timestamp backwards *)
Theorem update_ts_unpatched_wraps :
  exists ts dmin dmax t ts' t',
    0 <= ts <= max_i64 /\ 0 <= dmin <= dmax /\ dmax <= max_i64 /\
    update_ts_gen false false ts dmin dmax t = RV ts' t' /\ ts' < ts.
Proof.
  exists 9223372036854775805, 5, 5, [0], (-9223372036854775806), [].
  unfold max_i64. repeat split; try lia.
Qed.

(** C20_1: the unpatched updateTimestamp panicked on an int64 configuration *)
Theorem update_ts_unpatched_panics :
  exists ts dmin dmax t, 0 <= ts <= max_i64 /\ 0 <= dmin <= dmax /\ dmax <= max_i64 /\
    update_ts_gen false false ts dmin dmax t = RPanic.
Proof.
  exists 0, 0, max_i64, [1]. unfold max_i64. repeat split; try lia.
Qed.

(** on the repaired code both witnesses end the stream with an error *)
Example kf2_now_error : run_cfg kf2_vals [0; 0; 0; 0] false 3 = ([], EErr).
Proof. vm_compute. reflexivity. Qed.

Example kf1_now_error : snd (run_cfg kf1_vals [1; 2; 3] false 2) = EErr.
Proof. vm_compute. reflexivity. Qed.

(** ** soundness of the executable order clause K_P applies to the
    implementation's observations ([FakeQCheck.ts_sorted_from]) *)
From Gnmi Require FakeQ.FakeQCheck.

Definition timed (l : list FakeQCheck.erec) : list Z :=
  map FakeQCheck.e_ts (filter (fun e => match FakeQCheck.e_id e with Some _ => true | None => false end) l).

Lemma ts_sorted_from_sound l : forall p,
  FakeQCheck.ts_sorted_from (Some p) l = true -> StronglySorted Z.le (p :: timed l).
Proof.
  induction l as [|e l IH]; intros p H.
  - repeat constructor.
  - unfold timed in *. cbn in *. destruct (FakeQCheck.e_id e); [|auto].
    zb. specialize (IH _ H0). cbn. constructor; [assumption|].
    inversion IH as [|? ? Hs Hf]; subst. constructor; [assumption|].
    eapply Forall_impl; [|exact Hf]. cbn. intros; lia.
Qed.

Theorem K_ts_sorted_sound l :
  FakeQCheck.ts_sorted_from None l = true -> StronglySorted Z.le (timed l).
Proof.
  induction l as [|e l IH]; intros H; [constructor|].
  unfold timed in *. cbn in *. destruct (FakeQCheck.e_id e); [|auto].
  cbn. apply (ts_sorted_from_sound l _ H).
Qed.

(** * FixedQueue *)

Section FixedProofs.
Context {R : Type}.
Implicit Types (arr : list R) (r sync : R).

Lemma skipn_nth_cons arr off r : nth_error arr off = Some r -> skipn off arr = r :: skipn (S off) arr.
Proof.
  revert off. induction arr as [|a arr IH]; intros [|off]; cbn; try discriminate.
  - intros H; inversion H; reflexivity.
  - intros H. now apply IH.
Qed.

(** Next delivers the window of the slice, in order *)
Lemma fq_run_elems n : forall arr off len,
  (off + len <= List.length arr)%nat ->
  fq_run n (mkSl arr off len) = firstn n (sl_elems (mkSl arr off len)).
Proof.
  induction n as [|n IH]; intros arr off len Hle; [reflexivity|].
  cbn [fq_run]. unfold fq_next. cbn [s_len s_arr s_off]. destruct len as [|len].
  - unfold sl_elems. cbn. reflexivity.
  - destruct (nth_error arr off) as [r|] eqn:En.
    + rewrite IH by lia. unfold sl_elems. cbn [s_len s_arr s_off].
      rewrite (skipn_nth_cons _ _ _ En). reflexivity.
    + apply nth_error_None in En. lia.
Qed.

Lemma firstn_app_exact {A} (l1 l2 : list A) : firstn (List.length l1) (l1 ++ l2) = l1.
Proof. rewrite firstn_app, Nat.sub_diag, firstn_all. cbn. apply app_nil_r. Qed.

Lemma set_at_length i r arr : (i < List.length arr)%nat -> List.length (set_at i r arr) = List.length arr.
Proof.
  intros H. unfold set_at. rewrite app_length, firstn_length. cbn [List.length].
  rewrite skipn_length. lia.
Qed.

(** strict delivery: the generator built from arr[:k] emits those k responses
    and then the sync marker, whatever the fix switch *)
Theorem fixed_strict_delivery arr k nosync sync steps :
  (k <= List.length arr)%nat ->
  fq_run steps (fst (fixed_reset arr k nosync sync)) =
  firstn steps (firstn k arr ++ if nosync then [] else [sync]).
Proof.
  intros Hk. unfold fixed_reset, fq_new, fq_add. cbn [fst].
  assert (Hlen : List.length (firstn k arr) = k) by (rewrite firstn_length; lia).
  destruct fix_C20_3; cbn [s_len].
  - (* copied slice *)
    change (sl_elems {| s_arr := arr; s_off := 0; s_len := k |}) with (firstn k arr).
    destruct nosync.
    + rewrite fq_run_elems by (cbn; rewrite firstn_length; lia).
      unfold sl_elems. cbn [s_len s_off s_arr skipn]. rewrite app_nil_r.
      f_equal. rewrite firstn_firstn. f_equal. lia.
    + unfold sl_append. cbn [s_len s_off s_arr]. rewrite Hlen, Nat.add_0_l, Nat.ltb_irrefl.
      change (sl_elems {| s_arr := firstn k arr; s_off := 0; s_len := k |})
        with (firstn k (firstn k arr)).
      replace (firstn k (firstn k arr)) with (firstn k arr) by (rewrite firstn_firstn; f_equal; lia).
      rewrite fq_run_elems by (cbn; rewrite app_length, Hlen; cbn; lia).
      unfold sl_elems. cbn [s_len s_off s_arr skipn].
      replace (S k) with (List.length (firstn k arr ++ [sync]))
        by (rewrite app_length; cbn; lia).
      now rewrite firstn_all.
  - (* shared slice *)
    destruct nosync.
    + rewrite fq_run_elems by (cbn; lia). unfold sl_elems. cbn [s_len s_off s_arr skipn].
      now rewrite app_nil_r.
    + unfold sl_append. cbn [s_len s_off s_arr]. rewrite Nat.add_0_l.
      destruct (k <? List.length arr)%nat eqn:E.
      * apply Nat.ltb_lt in E.
        rewrite fq_run_elems by (cbn [s_arr]; rewrite set_at_length by lia; lia).
        unfold sl_elems, set_at. cbn [s_len s_off s_arr].
        change (skipn 0 (firstn k arr ++ sync :: skipn (S k) arr))
          with (firstn k arr ++ sync :: skipn (S k) arr).
        replace (firstn k arr ++ sync :: skipn (S k) arr)
          with ((firstn k arr ++ [sync]) ++ skipn (S k) arr) by (rewrite <- app_assoc; reflexivity).
        replace (S k) with (List.length (firstn k arr ++ [sync])) at 1
          by (rewrite app_length; cbn; lia).
        now rewrite firstn_app_exact.
      * rewrite fq_run_elems by (cbn; unfold sl_elems; cbn; rewrite app_length, Hlen; cbn; lia).
        unfold sl_elems. cbn [s_len s_off s_arr skipn].
        replace (S k) with (List.length (firstn k arr ++ [sync])) by (rewrite app_length; cbn; lia).
        now rewrite firstn_all.
Qed.

(** the caller's array is left alone when the sync is disabled, and always
    once NewFixed no longer shares the slice *)
Theorem fixed_reset_keeps_config arr k nosync sync :
  fix_C20_3 = true \/ nosync = true -> snd (fixed_reset arr k nosync sync) = arr.
Proof.
  unfold fixed_reset. cbn [snd]. intros [->| ->]; [reflexivity|].
  now rewrite orb_true_r.
Qed.

(** hence every generator of a scenario emits what its own prefix says *)
Theorem fixed_scenario_repro ks : forall arr nosync sync steps,
  fix_C20_3 = true \/ nosync = true ->
  Forall (fun k => (k <= List.length arr)%nat) ks ->
  fixed_scenario arr ks nosync sync steps =
  map (fun k => firstn steps (firstn k arr ++ if nosync then [] else [sync])) ks.
Proof.
  induction ks as [|k ks IH]; intros arr nosync sync steps Hfix Hks; [reflexivity|].
  inversion Hks; subst. cbn [fixed_scenario map].
  rewrite fixed_strict_delivery by assumption.
  rewrite (fixed_reset_keeps_config arr k nosync sync Hfix). f_equal. now apply IH.
Qed.
End FixedProofs.

(** DEFECT C20_3: with the shared slice, a generator built from a shorter prefix
    of the same array changes what the next generator of the full
    configuration emits (same configuration, different sequence) *)
Theorem fixed_repro_refuted :
  fix_C20_3 = false ->
  exists (arr : list nat) k sync steps,
    nth 0 (fixed_scenario arr [List.length arr; k; List.length arr] false sync steps) [] <>
    nth 2 (fixed_scenario arr [List.length arr; k; List.length arr] false sync steps) [].
Proof.
  intros Hfix. unfold fix_C20_3 in Hfix.
  first [ discriminate Hfix
        | exists [1; 2; 3]%nat, 2%nat, 9%nat, 10%nat; vm_compute; discriminate ].
Qed.

(** [run_state] (used by the correspondence for Latest() and a late Add) is [run]
    plus the final queue *)
Lemma run_state_run n : forall q, (fst (fst (run_state n q)), snd (fst (run_state n q))) = run n q.
Proof.
  induction n as [|n IH]; intros q; [reflexivity|]. cbn [run_state run].
  destruct (next q) as [|v q'| | |]; try reflexivity.
  specialize (IH q'). destruct (run_state n q') as [[tr e] qf]. cbn in *.
  rewrite <- IH. reflexivity.
Qed.

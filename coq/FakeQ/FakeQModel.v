(** Executable model of the synthetic-target generator:
      testing/fake/queue/queue.go   (New, Add, Latest, Next, addValue, newValue,
                                     nextValue, updateTimestamp, update*Value)
      testing/fake/gnmi/client.go   (reset: sync injected at the latest initial
                                     timestamp; valToResp)
    Definitions only.  Randomness is a raw [Int63] tape per [rand.Rand]
    (GoRand.v): one tape for the queue's generator (global seed) and one per
    value that carries its own non-zero seed.

    int64 / uint64 arithmetic of the Go code is written out ([wrap64], [u64])
    wherever the Go expression can leave the range, because two clauses of the
    property are about exactly those places (range width, timestamp addition).

    Not modelled: the real-time delay ([delay]/[duration], only [time.Sleep]);
    a [Value] whose oneof wrapper holds a nil inner message or a nil Range/List
    (only constructible programmatically); behaviour of [Next] after it has
    returned an error (fake/gnmi/client.go stops at the first error, and so does
    the harness). *)
From Gnmi Require Import Base.Prelude FakeQ.GoRand.
From Coq Require Export Floats.
Open Scope Z_scope.

Definition two64 : Z := 18446744073709551616.
Definition max_i64 : Z := 9223372036854775807.
Definition min_i64 : Z := -9223372036854775808.

(** the int64 value of an exact integer result (two's complement wrap) *)
Definition wrap64 (z : Z) : Z := (z + two63) mod two64 - two63.
(** uint64(int64 x) *)
Definition u64 (z : Z) : Z := z mod two64.

(** * Configuration *)

(** IntValue / UintValue distribution (oneof).  For uint values [mn mx] are
    uint64 and [dmn dmx] int64, as in fake.proto. *)
Inductive ndist :=
| NNone
| NRange (mn mx dmn dmx : Z)
| NList (opts : list Z) (rnd : bool).

Inductive ddist :=
| DNone
| DRange (mn mx dmn dmx : float)
| DList (opts : list float) (rnd : bool).

(** String / StringList / Bool values only have the list distribution *)
Inductive ldist (A : Type) :=
| LNone
| LList (opts : list A) (rnd : bool).
Arguments LNone {A}.
Arguments LList {A} opts rnd.

Inductive kind :=
| KInt (v : Z) (d : ndist)
| KUint (v : Z) (d : ndist)
| KDouble (v : float) (d : ddist)
| KString (v : string) (d : ldist string)
| KStrList (v : list string) (d : ldist string)
| KBool (v : bool) (d : ldist bool)
| KSync (n : Z)
| KDelete
| KUnset.            (* the oneof is not set *)

(** One fake.Value together with the generator it draws from
    ([value{v, r}] in queue.go).  [vid] stands for the path (the harness gives
    every configured value a distinct path).  [vown = Some t]: Seed != 0, the
    value owns [rand.New(rand.NewSource(Seed))] whose remaining tape is [t];
    [None]: it shares the queue's generator.  A nil Timestamp is represented by
    the zero timestamp ([addValue] installs one before anything reads it). *)
Record value := mkValue {
  vid : nat;
  vts : Z;
  vdmin : Z;
  vdmax : Z;
  vrep : Z;
  vown : option tape;
  vk : kind;
}.

Definition set_gen (v : value) (ts rep : Z) (own : option tape) (k : kind) : value :=
  mkValue (vid v) ts (vdmin v) (vdmax v) rep own k.

(** * Switches for the two defects found and since repaired in /repo
      c1a0b35 fix: fake queue returns an error for a range width that overflows int64
      df96f85 fix: fake queue returns an error when a timestamp would overflow int64
    [true] = the code as it is now (patched); [false] reproduces the code before
    the patch (kept so that the refutations of the unpatched variants remain as
    regression witnesses: [update_ts_gen false false], [guard_width_gen false]). *)
Definition fix_C20_1 : bool := true.   (* C20_1: width beyond int64 is an error (was: panic in Int63n) *)
Definition fix_C20_2 : bool := true.   (* C20_2: timestamp addition beyond int64 is an error (was: silent wrap) *)

(** [if right-left+1 <= 0 { return error }] in front of every Int63n whose
    argument is a configured width ([f1 = false]: the check is absent and the
    draw panics for such a width) *)
Definition guard_width_gen (f1 : bool) {A} (w : Z) (k : rres A) : rres A :=
  if f1 && (wrap64 w <=? 0) then RErr else k.
Definition guard_width {A} (w : Z) (k : rres A) : rres A := guard_width_gen fix_C20_1 w k.
Arguments guard_width : simpl never.
Arguments guard_width_gen : simpl never.

(** * Per-kind generators *)

(** the shared shape of every *_List arm:
      if len(options) == 0 { return error }
      if random { newval = options[r.Intn(len(options))] }
      else { newval = options[0]; list.Options = append(options[1:], options[0]) }
    result: (new value, new option list) *)
Definition pick_list {A} (opts : list A) (rnd : bool) (t : tape) : rres (A * list A) :=
  match opts with
  | [] => RErr
  | o0 :: rest =>
      if rnd then
        rbind (intn (Z.of_nat (List.length opts)) t) (fun i t' =>
          match nth_error opts (Z.to_nat i) with
          | Some x => RV (x, opts) t'
          | None => RPanic
          end)
      else RV (o0, rest ++ [o0]) t
  end.

(** [if newval > max { newval = max }; if newval < min { newval = min }] *)
Definition clampZ (mn mx x : Z) : Z :=
  let x1 := if x >? mx then mx else x in
  if x1 <? mn then mn else x1.

(** updateIntValue *)
Definition update_int (v : Z) (d : ndist) (t : tape) : rres (Z * ndist) :=
  match d with
  | NRange mn mx dmn dmx =>
      if mn >? mx then RErr
      else if (v <? mn) || (v >? mx) then RErr
      else
        let delta := negb (dmn =? 0) || negb (dmx =? 0) in
        if delta && (dmn >? dmx) then RErr
        else
          let left := if delta then dmn else mn in
          let right := if delta then dmx else mx in
          let base := if delta then v else 0 in
          (* C20_1 (guard_width): a width beyond int64 is an error *)
          guard_width (right - left + 1)
          (rbind (int63n (wrap64 (right - left + 1)) t) (fun r t' =>
            RV (clampZ mn mx (wrap64 (base + wrap64 (r + left))), d) t'))
  | NList opts rnd =>
      rbind (pick_list opts rnd t) (fun xo t' => RV (fst xo, NList (snd xo) rnd) t')
  | NNone => RV (v, d) t
  end.

(** updateUintValue *)
Definition update_uint (v : Z) (d : ndist) (t : tape) : rres (Z * ndist) :=
  match d with
  | NRange mn mx dmn dmx =>
      if mn >? mx then RErr
      else if (v <? mn) || (v >? mx) then RErr
      else
        let delta := negb (dmn =? 0) || negb (dmx =? 0) in
        if delta && (dmn >? dmx) then RErr
        else
          let left := if delta then dmn else wrap64 mn in
          let right := if delta then dmx else wrap64 mx in
          let base := if delta then v else 0 in
          (* C20_1 (guard_width): as in update_int *)
          guard_width (right - left + 1)
          (rbind (int63n (wrap64 (right - left + 1)) t) (fun r t' =>
            let tmp := wrap64 (wrap64 base + wrap64 (r + left)) in
            let nv := if tmp <? 0 then mn else tmp in
            RV (clampZ mn mx nv, d) t'))
  | NList opts rnd =>
      rbind (pick_list opts rnd t) (fun xo t' => RV (fst xo, NList (snd xo) rnd) t')
  | NNone => RV (v, d) t
  end.

Definition fgt (a b : float) : bool := PrimFloat.ltb b a.
Definition fnonzero (a : float) : bool := negb (PrimFloat.eqb a 0%float).

Definition clampF (mn mx x : float) : float :=
  let x1 := if fgt x mx then mx else x in
  if PrimFloat.ltb x1 mn then mn else x1.

(** nextValue works on [proto.Clone(v.v)]; protobuf-go's merge copies a proto3
    scalar only when it is [!= 0], so a NEGATIVE ZERO in a scalar double field
    (value, minimum, maximum, delta_min, delta_max) comes out of the clone as +0
    (repeated fields -- the options -- are copied as they are) *)
Definition nz (x : float) : float := if PrimFloat.eqb x 0%float then 0%float else x.

(** updateDoubleValue (on the clone) *)
Definition update_double (v : float) (d : ddist) (t : tape) : rres (float * ddist) :=
  let v := nz v in
  match d with
  | DRange mn0 mx0 dmn0 dmx0 =>
      let mn := nz mn0 in let mx := nz mx0 in let dmn := nz dmn0 in let dmx := nz dmx0 in
      if fgt mn mx then RErr
      else if PrimFloat.ltb v mn || fgt v mx then RErr
      else
        let delta := fnonzero dmn || fnonzero dmx in
        if delta && fgt dmn dmx then RErr
        else
          let left := if delta then dmn else mn in
          let right := if delta then dmx else mx in
          let base := if delta then v else 0%float in
          rbind (float64 t) (fun f t' =>
            RV (clampF mn mx (base + (f * (right - left) + left))%float, DRange mn mx dmn dmx) t')
  | DList opts rnd =>
      rbind (pick_list opts rnd t) (fun xo t' => RV (fst xo, DList (snd xo) rnd) t')
  | DNone => RV (v, d) t
  end.

(** updateStringValue / updateBoolValue *)
Definition update_scalar {A} (v : A) (d : ldist A) (t : tape) : rres (A * ldist A) :=
  match d with
  | LList opts rnd =>
      rbind (pick_list opts rnd t) (fun xo t' => RV (fst xo, LList (snd xo) rnd) t')
  | LNone => RV (v, d) t
  end.

(** updateStringListValue *)
Definition update_strlist (v : list string) (d : ldist string) (t : tape)
  : rres (list string * ldist string) :=
  match d with
  | LList opts rnd =>
      match opts with
      | [] => RErr
      | o0 :: rest =>
          if rnd then
            rbind (shuffle opts t) (fun sh t1 =>
              rbind (intn (Z.of_nat (List.length sh)) t1) (fun k t2 =>
                RV (firstn (Z.to_nat k) sh, LList sh rnd) t2))
          else RV (rest ++ [o0], LList (rest ++ [o0]) rnd) t
      end
  | LNone => RV (v, d) t
  end.

Definition update_kind (k : kind) (t : tape) : rres kind :=
  match k with
  | KInt v d => rbind (update_int v d t) (fun r t' => RV (KInt (fst r) (snd r)) t')
  | KUint v d => rbind (update_uint v d t) (fun r t' => RV (KUint (fst r) (snd r)) t')
  | KDouble v d => rbind (update_double v d t) (fun r t' => RV (KDouble (fst r) (snd r)) t')
  | KString v d => rbind (update_scalar v d t) (fun r t' => RV (KString (fst r) (snd r)) t')
  | KStrList v d => rbind (update_strlist v d t) (fun r t' => RV (KStrList (fst r) (snd r)) t')
  | KBool v d => rbind (update_scalar v d t) (fun r t' => RV (KBool (fst r) (snd r)) t')
  | KSync _ => RV k t
  | KDelete => RV k t
  | KUnset => RErr
  end.

(** updateTimestamp.  [f1], [f2]: the two repairs (see the switches above). *)
Definition update_ts_gen (f1 f2 : bool) (ts dmin dmax : Z) (t : tape) : rres Z :=
  if ts <? 0 then RErr
  else if (dmin >? dmax) || (dmin <? 0) then RErr
  else
    (* C20_1: [if max-min+1 <= 0 { return error }] *)
    guard_width_gen f1 (dmax - dmin + 1)
    (rbind (int63n (wrap64 (dmax - dmin + 1)) t) (fun r t' =>
      let nt := wrap64 (ts + r + dmin) in
      (* C20_2: [if nt < t { return error }] *)
      if f2 && (nt <? ts) then RErr else RV nt t')).

Definition update_ts := update_ts_gen fix_C20_1 fix_C20_2.

(** nextValue.  [g] is the tape of the queue's generator; the result carries
    the new value ([None]: repeats exhausted, [v.v = nil]) and the new [g]. *)
Definition next_value (v : value) (g : tape) : rres (option value) :=
  if vrep v =? 1 then RV None g
  else
    let rep' := if vrep v >? 1 then vrep v - 1 else vrep v in
    let t0 := match vown v with Some o => o | None => g end in
    match rbind (update_ts (vts v) (vdmin v) (vdmax v) t0) (fun ts' t1 =>
            rbind (update_kind (vk v) t1) (fun k' t2 => RV (ts', k') t2)) with
    | RV tk t2 =>
        match vown v with
        | Some _ => RV (Some (set_gen v (fst tk) rep' (Some t2) (snd tk))) g
        | None => RV (Some (set_gen v (fst tk) rep' None (snd tk))) t2
        end
    | RPanic => RPanic
    | ROut => ROut
    | RErr => RErr
    end.

(** * The queue *)

Definition buckets := list (list value).

(** the binary search of addValue: [Ok (i, true)]: bucket [i] has timestamp [t];
    [Ok (r, false)]: a new bucket goes at index [r].  [Panic]: [u.q[i][0]] out
    of range.  [Err]: fuel exhausted (unreachable with fuel = S (length q),
    lemma [bsearch_fuel] in FakeQProofs). *)
Fixpoint bsearch (fuel : nat) (t : Z) (q : buckets) (l r : nat) : outcome (nat * bool) :=
  match fuel with
  | O => Err 99
  | S f =>
      if Nat.eqb l r then Ok (r, false)
      else
        let i := ((r - l) / 2 + l)%nat in
        match nth_error q i with
        | Some (h :: _) =>
            let t2 := vts h in
            if t =? t2 then Ok (i, true)
            else if t <? t2 then bsearch f t q l i
            else bsearch f t q (i + 1)%nat r
        | _ => Panic 1
        end
  end.

Fixpoint app_at (i : nat) (v : value) (q : buckets) : buckets :=
  match i, q with
  | O, b :: q' => (b ++ [v]) :: q'
  | S i', b :: q' => b :: app_at i' v q'
  | _, [] => []
  end.

(** addValue (the queue part; [latest] is handled by [add_value]) *)
Definition insert_value (v : value) (q : buckets) : outcome buckets :=
  match bsearch (S (List.length q)) (vts v) q 0 (List.length q) with
  | Ok (i, true) => Ok (app_at i v q)
  | Ok (r, false) => Ok (firstn r q ++ [v] :: skipn r q)
  | Err c => Err c
  | Panic w => Panic w
  end.

Record queue := mkQ { qb : buckets; qlatest : Z; qtape : tape }.

Definition add_value (v : value) (q : queue) : outcome queue :=
  let lat := if vts v >? qlatest q then vts v else qlatest q in
  match insert_value v (qb q) with
  | Ok b => Ok (mkQ b lat (qtape q))
  | Err c => Err c
  | Panic w => Panic w
  end.

(** queue.New: [for _, v := range values { u.addValue(newValue(v, u.r)) }] *)
Fixpoint add_all (vs : list value) (q : queue) : outcome queue :=
  match vs with
  | [] => Ok q
  | v :: vs' =>
      match add_value v q with
      | Ok q' => add_all vs' q'
      | other => other
      end
  end.

Definition new_queue (vs : list value) (g : tape) : outcome queue :=
  add_all vs (mkQ [] 0 g).

(** the sync value of client.go reset: timestamp q.Latest(), Repeat 1, Sync 1,
    no path, Seed 0 *)
Definition sync_value (id : nat) (lat : Z) : value :=
  mkValue id lat 0 0 1 None (KSync 1).

(** client.go reset (random generator arm) *)
Definition reset (vs : list value) (g : tape) (disable_sync : bool) : outcome queue :=
  match new_queue vs g with
  | Ok q =>
      if disable_sync then Ok q
      else add_value (sync_value (List.length vs) (qlatest q)) q
  | other => other
  end.

Inductive step_res :=
| SDone                          (* (nil, nil): queue exhausted *)
| SEmit (v : value) (q : queue)  (* the value returned, the queue afterwards *)
| SErr
| SPanic
| SOut.

(** UpdateQueue.Next *)
Definition next (q : queue) : step_res :=
  match qb q with
  | [] => SDone
  | [] :: _ => SPanic
  | (v :: rest) :: bs =>
      match next_value v (qtape q) with
      | RV ov g' =>
          let bs' := match rest with [] => bs | _ => rest :: bs end in
          match ov with
          | None => SEmit v (mkQ bs' (qlatest q) g')
          | Some v' =>
              match add_value v' (mkQ bs' (qlatest q) g') with
              | Ok q' => SEmit v q'
              | _ => SPanic
              end
          end
      | RErr => SErr
      | RPanic => SPanic
      | ROut => SOut
      end
  end.

(** how a run of [Next] calls ends *)
Inductive ending := EMore | EDone | EErr | EPanic | EOut.

(** up to [n] calls of Next, stopping at the first that does not return a value *)
Fixpoint run (n : nat) (q : queue) : list value * ending :=
  match n with
  | O => ([], EMore)
  | S n' =>
      match next q with
      | SDone => ([], EDone)
      | SEmit v q' => let r := run n' q' in (v :: fst r, snd r)
      | SErr => ([], EErr)
      | SPanic => ([], EPanic)
      | SOut => ([], EOut)
      end
  end.

(** the same, also returning the queue as it is afterwards (for Latest() and for
    an Add between two Next calls) *)
Fixpoint run_state (n : nat) (q : queue) : list value * ending * queue :=
  match n with
  | O => ([], EMore, q)
  | S n' =>
      match next q with
      | SDone => ([], EDone, q)
      | SEmit v q' => let '(tr, e, qf) := run_state n' q' in (v :: tr, e, qf)
      | SErr => ([], EErr, q)
      | SPanic => ([], EPanic, q)
      | SOut => ([], EOut, q)
      end
  end.

Definition run_cfg (vs : list value) (g : tape) (disable_sync : bool) (n : nat)
  : list value * ending :=
  match reset vs g disable_sync with
  | Ok q => run n q
  | _ => ([], EPanic)
  end.

(** * FixedQueue (fixed_queue.go) and the fixed arm of client.go reset

    [NewFixed(resp, delay)] keeps the caller's slice ([resp: resp]); reset then
    calls [q.Add(syncResp)], i.e. [q.resp = append(q.resp, resp)] -- an append
    to a slice that shares its backing array with the configuration.  A Go
    slice is modelled as a window on a backing array whose length is the
    capacity; an append within capacity writes into the array and is seen by
    every slice sharing it.  (The delay fields only feed time.Sleep; not modelled.) *)

Definition fix_C20_3 : bool := true.
  (* DEFECT C20_3: NewFixed shares the configuration's slice; with the patch
     (copy in NewFixed) this switch becomes [true] *)

Section Fixed.
Context {R : Type}.

Record gslice := mkSl { s_arr : list R; s_off : nat; s_len : nat }.

Definition sl_elems (s : gslice) : list R := firstn (s_len s) (skipn (s_off s) (s_arr s)).

Definition set_at (i : nat) (r : R) (l : list R) : list R := firstn i l ++ r :: skipn (S i) l.

(** append(s, r) *)
Definition sl_append (s : gslice) (r : R) : gslice :=
  if (s_off s + s_len s <? List.length (s_arr s))%nat
  then mkSl (set_at (s_off s + s_len s) r (s_arr s)) (s_off s) (S (s_len s))
  else mkSl (sl_elems s ++ [r]) 0 (S (s_len s)).      (* reallocation *)

(** NewFixed *)
Definition fq_new (resp : gslice) : gslice :=
  if fix_C20_3 then mkSl (sl_elems resp) 0 (s_len resp)   (* DEFECT C20_3: becomes the only arm *)
  else resp.

(** FixedQueue.Add *)
Definition fq_add (q : gslice) (r : R) : gslice := sl_append q r.

(** FixedQueue.Next: [resp := q.resp[0]; q.resp = q.resp[1:]] *)
Definition fq_next (q : gslice) : option (R * gslice) :=
  match s_len q, nth_error (s_arr q) (s_off q) with
  | S n, Some r => Some (r, mkSl (s_arr q) (S (s_off q)) n)
  | _, _ => None
  end.

Fixpoint fq_run (n : nat) (q : gslice) : list R :=
  match n with
  | O => []
  | S n' => match fq_next q with Some (r, q') => r :: fq_run n' q' | None => [] end
  end.

(** client.go reset, fixed arm, for a configuration whose Responses slice is
    [arr[:k]]; returns the queue and the backing array as it is afterwards *)
Definition fixed_reset (arr : list R) (k : nat) (nosync : bool) (sync : R) : gslice * list R :=
  let q0 := fq_new (mkSl arr 0 k) in
  let q := if nosync then q0 else fq_add q0 sync in
  (q, if fix_C20_3 || nosync then arr
      else if (k <? List.length arr)%nat then s_arr q else arr).

(** several generators, one after another, built from prefixes [ks] of the same array *)
Fixpoint fixed_scenario (arr : list R) (ks : list nat) (nosync : bool) (sync : R) (steps : nat)
  : list (list R) :=
  match ks with
  | [] => []
  | k :: ks' =>
      let qa := fixed_reset arr k nosync sync in
      fq_run steps (fst qa) :: fixed_scenario (snd qa) ks' nosync sync steps
  end.
End Fixed.

(** Executable model of match/match.go (subscription trie) and of the two
    functions of subscribe/subscribe.go that sit on it: UpdateNotification
    (per-notification [updated] set) and addSubscription (the paths a
    subscriber is registered with, and the closure that removes them).

    Definitions only -- proofs are in MatchProofs.v.

    Clients ([match.Client] values; in subscribe a [*matchClient] per RPC) are
    natural numbers.  A trie node is [Br clients children]: [clients] is the Go
    set [map[Client]struct{}] (nil and empty are indistinguishable in the code:
    every access is [len], [range], [delete] or an insert guarded by a nil
    test), [children] the Go [map[string]*branch].

    How the traversal is written.  [branch.update] threads the optional
    [updated] set through a depth-first walk of the trie and calls
    [client.Update] at every node it reaches.  The model splits this into
    [visit] -- the sequence of (node, client) visits of exactly that walk,
    same descent, same cut-offs -- and [deliver] -- the test-and-insert on
    [updated] applied to the visits in sequence.  Go iterates the two maps in
    random order; every statement about the result is by membership / count,
    and MatchProofs.deliver_count shows the delivered multiset does not depend
    on the order. *)
From Gnmi Require Export Base.Prelude.
From Gnmi Require Import CTree.CTreeModel Path.PathModel.

Definition cid := nat.

Inductive branch := Br (cl : list cid) (ch : list (string * branch)).

Definition empty_branch : branch := Br [] [].
Definition br_clients (b : branch) : list cid := match b with Br cl _ => cl end.
Definition br_children (b : branch) : list (string * branch) := match b with Br _ ch => ch end.

Definition mem (c : cid) (s : list cid) : bool := existsb (Nat.eqb c) s.

(** b.clients[client] = struct{}{} *)
Definition cl_add (c : cid) (cl : list cid) : list cid := if mem c cl then cl else cl ++ [c].
(** delete(b.clients, client) *)
Definition cl_del (c : cid) (cl : list cid) : list cid := filter (fun x => negb (Nat.eqb x c)) cl.

(** branch.addQuery *)
Fixpoint add_query (q : path) (c : cid) (b : branch) : branch :=
  match b with
  | Br cl ch =>
      match q with
      | [] => Br (cl_add c cl) ch
      | k :: r =>
          Br cl (aset k (add_query r c (match assoc k ch with
                                        | Some sb => sb
                                        | None => empty_branch
                                        end)) ch)
      end
  end.

(** len(b.clients) == 0 && len(b.children) == 0 *)
Definition is_empty_br (cl : list cid) (ch : list (string * branch)) : bool :=
  match cl, ch with [], [] => true | _, _ => false end.

(** branch.removeQuery: the node afterwards and the [empty] result computed by
    the deferred function. *)
Fixpoint remove_query (q : path) (c : cid) (b : branch) : branch * bool :=
  match b with
  | Br cl ch =>
      match q with
      | [] => let cl' := cl_del c cl in (Br cl' ch, is_empty_br cl' ch)
      | k :: r =>
          match assoc k ch with
          | None => (b, is_empty_br cl ch)
          | Some sb =>
              let res := remove_query r c sb in
              let ch' := if snd res then adel k ch else aset k (fst res) ch in
              (Br cl ch', is_empty_br cl ch')
          end
      end
  end.

(** The closure returned by Match.AddQuery ignores the root's [empty]. *)
Definition remove_root (q : path) (c : cid) (b : branch) : branch := fst (remove_query q c b).

(** branch.update, the walk: clients of this node, then
    - no children: stop;
    - update path exhausted: every child with an exhausted path (implicit
      recursion for intermediate deletes);
    - head is the glob: every child with the tail;
    - otherwise the glob child, then the child named like the head. *)
Fixpoint visit (b : branch) (p : path) {struct b} : list cid :=
  match b with
  | Br cl ch =>
      cl ++
      match ch with
      | [] => []
      | _ :: _ =>
          match p with
          | [] => flat_map (fun kc => visit (snd kc) []) ch
          | k :: r =>
              if is_glob k
              then flat_map (fun kc => visit (snd kc) r) ch
              else find_with (fun sb => visit sb r) [] "*" ch ++
                   find_with (fun sb => visit sb r) [] k ch
          end
      end
  end.

(** The per-client test in branch.update applied to a sequence of visits:
    [None] is a nil [updated] map (every visit calls the client), [Some s] a
    set (a client in [s] is skipped, one not in [s] is called and inserted).
    Result: the calls made, in order, and the set afterwards. *)
Fixpoint deliver (vs : list cid) (upd : option (list cid)) : list cid * option (list cid) :=
  match vs with
  | [] => ([], upd)
  | c :: vs' =>
      match upd with
      | None => let r := deliver vs' None in (c :: fst r, snd r)
      | Some s =>
          if mem c s then deliver vs' upd
          else let r := deliver vs' (Some (c :: s)) in (c :: fst r, snd r)
      end
  end.

(** Match.Update (nil set) / Match.UpdateOnce *)
Definition update_once (b : branch) (p : path) (upd : option (list cid)) :=
  deliver (visit b p) upd.

Definition match_update (b : branch) (p : path) : list cid := fst (update_once b p None).

(** several UpdateOnce calls sharing one set *)
Definition update_many (b : branch) (ps : list path) (upd : option (list cid))
  : list cid * option (list cid) :=
  fold_left (fun acc p => let r := update_once b p (snd acc) in (fst acc ++ fst r, snd r))
            ps ([], upd).

(** * subscribe.UpdateNotification

    [fixed1 = true] is the code as it is (since commit 0aa714c): the
    [updated] set is always allocated.
    C06_1 (fixed): before that commit ([fixed1 = false]) the set was allocated
    only when the notification carried more than one update/delete, so a
    single-update notification was offered once per matching registered path. *)
Definition update_notification_gen (fixed1 : bool) (b : branch) (prefix : path) (paths : list path)
  : list cid :=
  let upd0 := if fixed1 || (1 <? List.length paths)%nat then Some [] else None in
  fst (update_many b (map (fun p => prefix ++ p) paths) upd0).

(** Server.Update on a leaf holding a notification: prefix indexed with
    target and origin, update paths then delete paths indexed without. *)
Definition notif_paths (ups dels : list (option gpath)) : list path :=
  map (fun o => to_strings false (gp_of_opt o)) (ups ++ dels).

Definition notif_prefix (pre : option gpath) : path := to_strings true (gp_of_opt pre).

Definition server_update_gen (fixed1 : bool) (b : branch) (pre : option gpath)
           (ups dels : list (option gpath)) : list cid :=
  update_notification_gen fixed1 b (notif_prefix pre) (notif_paths ups dels).

(** * subscribe.addSubscription

    For every entry the code computes [query := append(prefix[, origin],
    names...)], registers it, and the removal closure captures the slice
    [query].  [prefix := path.ToStrings(s.Prefix, true)] is a slice of length
    k; ToStrings allocates [make([]string, 0, 20)], so its capacity is
    [slice_cap] = 20 for k <= 20.  (Only the pre-fix variant depends on the
    capacity; for k > 20 it would be decided by the runtime's growth policy,
    and that variant is undefined there: [None].)

    C06_3 (fixed by commit 434b003, [fixed3 = true]: the capacity of [prefix]
    is clipped to its length, so every [append] copies and each entry owns
    its slice).  Before ([fixed3 = false]): while the result fits in the
    capacity, [append] writes into the backing array of [prefix], which all
    entries share, so the slice captured for entry i is overwritten by the
    entries after it.  AddQuery has already copied the names into the trie,
    so registration was right, but the closure later removed, for entry i,
    the first [len_i] names of what the LAST writers left in the array.

    C06_2 (fixed by commit 601ff89, [fixed2 = true]: an entry whose path is
    nil is handled like the empty path).  Before ([fixed2 = false]) it was
    skipped, although the snapshot treats it as the empty path. *)
Definition slice_cap : nat := 20.

(** a slice: a window [0, len) on the shared array, or a private array *)
Inductive qref := Shared (len : nat) | Own (q : path).

(** append(s, xs...) where [arr] is the shared backing array (length
    [slice_cap]); returns the new array contents and the resulting slice *)
Definition go_append (arr : list string) (s : qref) (xs : list string) : list string * qref :=
  match s with
  | Own q => (arr, Own (q ++ xs))
  | Shared len =>
      if (len + List.length xs <=? slice_cap)%nat
      then (firstn len arr ++ xs ++ skipn (len + List.length xs) arr, Shared (len + List.length xs))
      else (arr, Own (firstn len arr ++ xs))
  end.

Definition qref_val (arr : list string) (s : qref) : path :=
  match s with Own q => q | Shared len => firstn len arr end.

Definition pad (l : list string) : list string := l ++ repeat "" (slice_cap - List.length l).

Record sub_acc := SubAcc {
  sa_trie : branch;
  sa_arr : list string;
  sa_refs : list qref            (* one per registered entry, in order *)
}.

(** which path an entry stands for: its own, or -- since 601ff89 -- the empty
    path when it has none *)
Definition entry_path (fixed2 : bool) (e : option gpath) : option gpath :=
  match e with Some p => Some p | None => if fixed2 then Some empty_gpath else None end.

(** the origin of the entry's path is spliced in when the prefix has none *)
Definition origin_splice (pre p : gpath) : list string :=
  if String.eqb (gp_origin pre) "" && negb (String.eqb (gp_origin p) "") then [gp_origin p] else [].

(** [query] for one entry: append(prefix[, origin], names...) *)
Definition sub_query (pre p : gpath) : path :=
  to_strings true pre ++ origin_splice pre p ++ to_strings false p.

(** The code since 434b003: the capacity of [prefix] is its length, so both
    appends copy; the entry is registered with, and its closure keeps, its own
    [query].  Accumulator: trie and the captured paths in order. *)
Definition sub_entry_own (fixed2 : bool) (c : cid) (pre : gpath)
           (a : branch * list path) (e : option gpath) : branch * list path :=
  match entry_path fixed2 e with
  | None => a
  | Some p => (add_query (sub_query pre p) c (fst a), snd a ++ [sub_query pre p])
  end.

(** The code before 434b003: [query] starts as the window [0,k) on the shared
    array and is extended in place while it fits. *)
Definition sub_entry (fixed2 : bool) (c : cid) (pre : gpath) (k : nat)
           (a : sub_acc) (e : option gpath) : sub_acc :=
  match entry_path fixed2 e with
  | None => a
  | Some p =>
      let r1 :=
        if String.eqb (gp_origin pre) "" && negb (String.eqb (gp_origin p) "")
        then go_append (sa_arr a) (Shared k) [gp_origin p]
        else (sa_arr a, Shared k) in
      let r2 := go_append (fst r1) (snd r1) (to_strings false p) in
      SubAcc (add_query (qref_val (fst r2) (snd r2)) c (sa_trie a)) (fst r2) (sa_refs a ++ [snd r2])
  end.

(** result: the trie afterwards and the paths the removal closure will remove *)
Definition add_subscription_gen (fixed2 fixed3 : bool) (b : branch) (c : cid) (pre : gpath)
           (ents : list (option gpath)) : option (branch * list path) :=
  if fixed3 then Some (fold_left (sub_entry_own fixed2 c pre) ents (b, []))
  else
    let prefix := to_strings true pre in
    let k := List.length prefix in
    if (k <=? slice_cap)%nat then
      let a := fold_left (sub_entry fixed2 c pre k) ents (SubAcc b (pad prefix) []) in
      Some (sa_trie a, map (qref_val (sa_arr a)) (sa_refs a))
    else None.

(** the removal closure: each captured path in turn *)
Definition remove_all (qs : list path) (c : cid) (b : branch) : branch :=
  fold_left (fun t q => remove_root q c t) qs b.

(** * The code as it is now: all three patches of /verif/fixes/C06_*.diff are
      committed in the repository (0aa714c, 601ff89, 434b003).  [false] gives
      the model of the code before the respective commit (used by the
      regression refutations in MatchProofs.v). *)
Definition fixed_C06_1 : bool := true.   (* C06_1 fixed by 0aa714c *)
Definition fixed_C06_2 : bool := true.   (* C06_2 fixed by 601ff89 *)
Definition fixed_C06_3 : bool := true.   (* C06_3 fixed by 434b003 *)

Definition update_notification := update_notification_gen fixed_C06_1.
Definition server_update := server_update_gen fixed_C06_1.
Definition add_subscription := add_subscription_gen fixed_C06_2 fixed_C06_3.

(** * The relations of the property *)

(** [compat q p]: query and update path agree on every element they both have;
    a glob on either side agrees with anything. *)
Fixpoint compat (q p : path) : bool :=
  match q, p with
  | [], _ => true
  | _, [] => true
  | a :: q', b :: p' => (is_glob a || is_glob b || String.eqb a b) && compat q' p'
  end.

(** number of nodes below the root (what the pruning keeps minimal) *)
Fixpoint nodes (b : branch) : nat :=
  match b with
  | Br _ ch => fold_right (fun kc n => S (nodes (snd kc)) + n)%nat 0%nat ch
  end.

(** clients registered at exactly [q] *)
Fixpoint clients_at (b : branch) (q : path) : list cid :=
  match b with
  | Br cl ch =>
      match q with
      | [] => cl
      | k :: r => find_with (fun sb => clients_at sb r) [] k ch
      end
  end.

(** * Lock discipline of Match.mu: a small labelled transition system

    Threads are calls in flight: [TUpd] = one Match.Update / UpdateOnce call,
    [TRem] = one call of a removal closure, [TAdd] = one AddQuery call.  One
    label = one atomic step of one thread; a schedule is a list of thread
    numbers (Base/Lts.v), "for all interleavings" is "for all schedules".

    Match.Update / UpdateOnce:  m.mu.RLock(); m.tree.update(...) -- which calls
    client.Update for every matching client INSIDE the read-locked section --;
    m.mu.RUnlock().  Steps: [UIdle -> UHold l]: RLock (enabled iff no writer
    holds the lock); while the read lock is held no writer can change the
    trie, so the calls the walk is going to make are fixed at that moment:
    [l = fst (deliver (visit trie p) upd)].  [UHold (c :: l) -> UHold l]: one
    client callback (event [EDeliver]).  [UHold [] -> UDone]: RUnlock, return.

    removal closure / AddQuery:  m.mu.Lock(); change the trie; m.mu.Unlock().
    [WIdle -> WHold]: Lock (enabled iff no reader and no writer) and the
    change; [WHold -> WDone]: Unlock, the call RETURNS (event [EReturned]).

    sync.RWMutex additionally blocks new readers while a writer waits; that
    only removes behaviours, and everything proved here is a safety property
    of all behaviours of the more permissive lock.

    [locked = true] is the code as it is.  [locked = false] is the variant
    "collect the clients under the read lock, call them after RUnlock" (the
    read lock is taken and released inside the [UIdle -> UHold] step); it is
    kept for the refutation MatchProofs.concurrent_unlocked_refuted. *)

Inductive ustate := UIdle | UHold (pending : list cid) | UDone.
Inductive wstate := WIdle | WHold | WDone.

Inductive thread :=
| TUpd (p : path) (upd : option (list cid)) (st : ustate)
| TRem (q : path) (c : cid) (st : wstate)
| TAdd (q : path) (c : cid) (st : wstate).

Inductive event :=
| EDeliver (tid : nat) (c : cid)     (* client.Update called by thread tid *)
| EReturned (tid : nat).             (* the call of thread tid returned *)

Record cstate := CS {
  cs_trie : branch;
  cs_readers : nat;                  (* holders of the read lock *)
  cs_writer : bool;                  (* the write lock is held *)
  cs_thr : list thread;
  cs_trace : list event
}.

Fixpoint set_nth {A} (n : nat) (x : A) (l : list A) : list A :=
  match l, n with
  | [], _ => []
  | _ :: l', O => x :: l'
  | y :: l', S n' => y :: set_nth n' x l'
  end.

Definition cstep (locked : bool) (s : cstate) (tid : nat) : option cstate :=
  match nth_error (cs_thr s) tid with
  | None => None
  | Some (TUpd p upd UIdle) =>
      if cs_writer s then None
      else Some (CS (cs_trie s) (if locked then S (cs_readers s) else cs_readers s) (cs_writer s)
                    (set_nth tid (TUpd p upd (UHold (fst (deliver (visit (cs_trie s) p) upd)))) (cs_thr s))
                    (cs_trace s))
  | Some (TUpd p upd (UHold (c :: l))) =>
      Some (CS (cs_trie s) (cs_readers s) (cs_writer s)
               (set_nth tid (TUpd p upd (UHold l)) (cs_thr s))
               (cs_trace s ++ [EDeliver tid c]))
  | Some (TUpd p upd (UHold [])) =>
      Some (CS (cs_trie s) (if locked then pred (cs_readers s) else cs_readers s) (cs_writer s)
               (set_nth tid (TUpd p upd UDone) (cs_thr s))
               (cs_trace s ++ [EReturned tid]))
  | Some (TUpd _ _ UDone) => None
  | Some (TRem q c WIdle) =>
      if cs_writer s || negb (Nat.eqb (cs_readers s) 0) then None
      else Some (CS (remove_root q c (cs_trie s)) (cs_readers s) true
                    (set_nth tid (TRem q c WHold) (cs_thr s)) (cs_trace s))
  | Some (TRem q c WHold) =>
      Some (CS (cs_trie s) (cs_readers s) false
               (set_nth tid (TRem q c WDone) (cs_thr s)) (cs_trace s ++ [EReturned tid]))
  | Some (TRem _ _ WDone) => None
  | Some (TAdd q c WIdle) =>
      if cs_writer s || negb (Nat.eqb (cs_readers s) 0) then None
      else Some (CS (add_query q c (cs_trie s)) (cs_readers s) true
                    (set_nth tid (TAdd q c WHold) (cs_thr s)) (cs_trace s))
  | Some (TAdd q c WHold) =>
      Some (CS (cs_trie s) (cs_readers s) false
               (set_nth tid (TAdd q c WDone) (cs_thr s)) (cs_trace s ++ [EReturned tid]))
  | Some (TAdd _ _ WDone) => None
  end.

(** calls not yet started *)
Definition thread_idle (t : thread) : bool :=
  match t with
  | TUpd _ _ UIdle | TRem _ _ WIdle | TAdd _ _ WIdle => true
  | _ => false
  end.

Definition cinit (t0 : branch) (thr : list thread) : cstate := CS t0 0 false thr [].

(** * The variant "walk the existing part of the query under the read lock,
      attach under the write lock without looking again" (seeded/C06/seed_va),
      kept only for the refutation MatchProofs.split_add_refuted.  Phase 1
      finds how many leading names of the query exist as nodes; other calls
      may run; phase 2 attaches the rest below the node found -- which, when
      it has been pruned meanwhile, is no longer part of the trie. *)
Fixpoint prefix_len (b : branch) (q : path) : nat :=
  match b, q with
  | Br _ ch, k :: r => find_with (fun sb => S (prefix_len sb r)) 0%nat k ch
  | _, [] => 0%nat
  end.

Fixpoint node_exists (b : branch) (q : path) : bool :=
  match b, q with
  | _, [] => true
  | Br _ ch, k :: r => find_with (fun sb => node_exists sb r) false k ch
  end.

Definition split_add_attach (j : nat) (q : path) (c : cid) (b : branch) : branch :=
  if node_exists b (firstn j q) then add_query q c b else b.

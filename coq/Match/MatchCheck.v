(** Correspondence evaluator and executable property checker for C06.

    A case is the list of operations the harness applied to ONE real
    [subscribe.Server] (its [match.Match] trie, real [addSubscription], real
    [Server.Update]) with clients that are real [*matchClient]s on real
    coalescing queues, together with what was observed after each operation:
    how many times each client was offered the item (1 + the queue's duplicate
    count), the trie size, and -- for notifications -- which subscribers would
    have received one of the notification's leaves in a snapshot (real
    [path.CompletePath] + real [ctree.Tree.Query]).

    [check_case] replays the operations
    (a) on the model of MatchModel.v                     -- tag 1;
    (b) on the specification: a SET of (path, client) registrations and the
        relation [compat], applied to the implementation's own observations
        -- tags 2..7 (no known-finding class is open for C06: the three
        defects found while building this check are fixed in the repository;
        their witnesses are corpus/C06/fixed_*.json). *)
From Gnmi Require Import Base.Prelude CTree.CTreeModel Path.PathModel Match.MatchModel.

Inductive op :=
| OAdd (c : cid) (q : path)                         (* Match.AddQuery; yields the next handle *)
| OSub (c : cid) (pre : gpath) (ents : list (option gpath))   (* addSubscription; next handle *)
| ORem (h : nat)                                    (* call removal closure h (again) *)
| OUpd (p : path)                                   (* Match.Update *)
| OOnce (ps : list path)                            (* UpdateOnce for each path, one shared set *)
| ONotif (atomic : bool) (pre : option gpath) (ups dels : list (option gpath))
    (* Server.Update on a leaf; [atomic] is Notification.Atomic, which Server.Update does not look at *)
| ONodes                                            (* size of the trie *)
| OConc (once : bool) (tq : path) (hs : list nat) (p : path)
| ORace (cx cy : cid) (qx qy p : path) (k : nat) (upd : bool).
    (* k times: AddQuery(qx, cx); UpdateOnce(p) with a fresh set; count the
       offers to cx; call the removal closure -- while a second goroutine spins
       AddQuery(qy, cy) / its removal (another subscriber on a shared prefix)
       and, with [upd], a third one spins Update(p).  Everything is removed at
       the end. *)
    (* Update / UpdateOnce of p while a trigger client registered at tq (for
       this operation only) starts, INSIDE its callback, a goroutine that calls
       the removal closures hs, and watches whether that goroutine finishes
       before the callback returns *)

Inductive obs :=
| RDone
| ROffers (l : list (cid * nat))                    (* calls per client, sorted by client, counts > 0 *)
| RNotif (l : list (cid * nat)) (hits : list cid)   (* + subscribers whose snapshot query selects a leaf *)
| RNodes (n : nat)
| RConc (l : list (cid * nat)) (triggered early : bool) (late : list cid)
    (* offers; the trigger was called; the removals RETURNED while the update
       was still in progress; clients being removed that were first called after
       the removals had returned *)
| RRace (n : nat)          (* how often cx was offered its k updates, in total *)
| RPanic.                                           (* equal to nothing *)

(** ** canonical forms *)

Fixpoint bump (c : cid) (l : list (cid * nat)) : list (cid * nat) :=
  match l with
  | [] => [(c, 1%nat)]
  | (d, n) :: l' =>
      if Nat.eqb c d then (d, S n) :: l'
      else if Nat.ltb c d then (c, 1%nat) :: l
      else (d, n) :: bump c l'
  end.

Definition tally (l : list cid) : list (cid * nat) := fold_left (fun acc c => bump c acc) l [].

Fixpoint list_eqb {A} (e : A -> A -> bool) (a b : list A) : bool :=
  match a, b with
  | [], [] => true
  | x :: a', y :: b' => e x y && list_eqb e a' b'
  | _, _ => false
  end.

Definition cn_eqb (a b : cid * nat) : bool := Nat.eqb (fst a) (fst b) && Nat.eqb (snd a) (snd b).

Definition obs_eqb (a b : obs) : bool :=
  match a, b with
  | RDone, RDone => true
  | ROffers x, ROffers y => list_eqb cn_eqb x y
  | RNotif x h, RNotif y g => list_eqb cn_eqb x y && list_eqb Nat.eqb h g
  | RNodes x, RNodes y => Nat.eqb x y
  | RRace x, RRace y => Nat.eqb x y
  | RConc x t e l, RConc y t' e' l' =>
      list_eqb cn_eqb x y && Bool.eqb t t' && Bool.eqb e e' && list_eqb Nat.eqb l l'
  | _, _ => false
  end.

(** ** the model side *)

Record hinfo := HInfo {
  h_client : cid;
  h_paths : list path;                              (* what the removal closure removes *)
  h_sub : option (gpath * list (option gpath));     (* the subscription list, for snapshots *)
  h_live : bool
}.

Record mst := MSt { m_trie : branch; m_handles : list hinfo }.

Definition mst0 : mst := MSt empty_branch [].

Fixpoint set_dead (h : nat) (l : list hinfo) : list hinfo :=
  match l, h with
  | [], _ => []
  | x :: l', O => HInfo (h_client x) (h_paths x) (h_sub x) false :: l'
  | x :: l', S h' => x :: set_dead h' l'
  end.

(** the tree the snapshot queries run on: every update of the notification
    stored at its index path without the target (as the cache stores it);
    an Add that conflicts with an earlier one fails and is skipped *)
Definition snap_tree (atomic : bool) (pre : option gpath) (ups : list (option gpath)) : tree nat :=
  if atomic then
    (* the cache stores an atomic notification as ONE leaf at its prefix *)
    match ups, notif_prefix pre with
    | _ :: _, _ :: ip => match add None ip 1%nat with Some t => t | None => None end
    | _, _ => None
    end
  else
  fold_left (fun t u =>
               match notif_prefix pre ++ to_strings false (gp_of_opt u) with
               | [] => t
               | _ :: ip => match add t ip 1%nat with Some t' => t' | None => t end
               end) ups None.

Definition sub_hits (t : tree nat) (ntarget : string) (pre : gpath) (ents : list (option gpath)) : bool :=
  negb (String.eqb ntarget "") &&
  (String.eqb (gp_target pre) "*" || String.eqb (gp_target pre) ntarget) &&
  existsb (fun e => match complete_path pre (gp_of_opt e) with
                    | Ok fp => match query t fp with [] => false | _ :: _ => true end
                    | _ => false
                    end) ents.

Definition model_hits (hs : list hinfo) (atomic : bool) (pre : option gpath) (ups : list (option gpath)) : list cid :=
  let t := snap_tree atomic pre ups in
  let nt := gp_target (gp_of_opt pre) in
  map fst (tally (flat_map (fun h => match h_sub h with
                                     | Some (p, ents) =>
                                         if h_live h && sub_hits t nt p ents then [h_client h] else []
                                     | None => []
                                     end) hs)).

(** the trigger is a client of its own, never one of the numbered ones *)
Definition trigger_id : cid := 1000%nat.

Definition remove_handles (s : mst) (hs : list nat) : mst :=
  fold_left (fun s h => match nth_error (m_handles s) h with
                        | None => s
                        | Some hi => MSt (remove_all (h_paths hi) (h_client hi) (m_trie s))
                                         (set_dead h (m_handles s))
                        end) hs s.

Definition mstep (s : mst) (o : op) : mst * obs :=
  match o with
  | OAdd c q =>
      (MSt (add_query q c (m_trie s)) (m_handles s ++ [HInfo c [q] None true]), RDone)
  | OSub c pre ents =>
      match add_subscription (m_trie s) c pre ents with
      | Some (t', qs) => (MSt t' (m_handles s ++ [HInfo c qs (Some (pre, ents)) true]), RDone)
      | None => (s, RPanic)        (* prefix longer than ToStrings' capacity: outside the model *)
      end
  | ORem h =>
      match nth_error (m_handles s) h with
      | None => (s, RDone)
      | Some hi => (MSt (remove_all (h_paths hi) (h_client hi) (m_trie s)) (set_dead h (m_handles s)), RDone)
      end
  | OUpd p => (s, ROffers (tally (match_update (m_trie s) p)))
  | OOnce ps => (s, ROffers (tally (fst (update_many (m_trie s) ps (Some [])))))
  | ONotif atomic pre ups dels =>
      (s, RNotif (tally (server_update (m_trie s) pre ups dels)) (model_hits (m_handles s) atomic pre ups))
  | ONodes => (s, RNodes (nodes (m_trie s)))
  | ORace cx cy qx qy p k _ =>
      (* AddQuery is one critical section (MatchProofs.registered_until_removed_concurrent):
         once it has returned, cx is registered at qx whatever other
         subscribers add or remove meanwhile, until its own closure runs *)
      (s, RRace (k * List.length (filter (Nat.eqb cx)
                                         (fst (update_once (add_query qx cx (m_trie s)) p (Some [])))))%nat)
  | OConc once tq hs p =>
      (* the callbacks run inside the read-locked section, so the removal
         closures cannot even start their critical section before the call
         returns (MatchProofs.concurrent_remove_blocked): everybody registered
         at the start is called, nothing returns early, nobody is called late *)
      let vs := fst (update_once (add_query tq trigger_id (m_trie s)) p (if once then Some [] else None)) in
      let triggered := mem trigger_id vs in
      (* a closure takes the lock iff it has at least one registration to remove *)
      let valid := existsb (fun h => match nth_error (m_handles s) h with
                                     | Some hi => match h_paths hi with [] => false | _ :: _ => true end
                                     | None => false end) hs in
      (remove_handles s hs,
       RConc (tally (filter (fun c => negb (Nat.eqb c trigger_id)) vs)) triggered
             (triggered && negb valid) [])
  end.

(** ** the specification side

    A subscriber's paths are what its snapshot queries: target followed by
    [CompletePath(prefix, path)], an absent path standing for the empty one.
    Registrations form a set of (path, client); removing a handle removes its
    pairs.  A subscription with an entry CompletePath rejects is an invalid
    request (its RPC ends with that error): its client is left unspecified. *)

Record sreg := SReg { r_path : path; r_client : cid }.

Record sst := SSt {
  s_reg : list sreg;                 (* live registrations *)
  s_gone : list sreg;                (* registrations of removed handles *)
  s_handles : list (list sreg);      (* by handle *)
  s_unspec : list cid;
  s_subclients : list cid            (* clients that called addSubscription *)
}.

Definition sst0 : sst := SSt [] [] [] [] [].

Fixpoint spec_entries (c : cid) (pre : gpath) (ents : list (option gpath)) : option (list sreg) :=
  match ents with
  | [] => Some []
  | e :: ents' =>
      match complete_path pre (gp_of_opt e), spec_entries c pre ents' with
      | Ok fp, Some rest =>
          Some (SReg (nonempty (gp_target pre) ++ fp) c :: rest)
      | _, _ => None
      end
  end.

Definition same_pair (a b : sreg) : bool :=
  path_eqb (r_path a) (r_path b) && Nat.eqb (r_client a) (r_client b).

Definition sstep_rem (s : sst) (h : nat) : sst :=
      match nth_error (s_handles s) h with
      | None => s
      | Some rs =>
          SSt (filter (fun r => negb (existsb (same_pair r) rs)) (s_reg s))
              (s_gone s ++ rs) (s_handles s) (s_unspec s) (s_subclients s)
      end.

Definition sstep (s : sst) (o : op) : sst :=
  match o with
  | OAdd c q =>
      let r := [SReg q c] in
      SSt (s_reg s ++ r) (s_gone s) (s_handles s ++ [r]) (s_unspec s) (s_subclients s)
  | OSub c pre ents =>
      (* one subscription list per client, as in Subscribe (a fresh matchClient per RPC);
         a client that subscribes twice is left unspecified *)
      let un := if mem c (s_subclients s) then c :: s_unspec s else s_unspec s in
      match spec_entries c pre ents with
      | Some rs => SSt (s_reg s ++ rs) (s_gone s) (s_handles s ++ [rs]) un (c :: s_subclients s)
      | None => SSt (s_reg s) (s_gone s) (s_handles s ++ [[]]) (c :: un) (c :: s_subclients s)
      end
  | ORem h => sstep_rem s h
  | OConc _ _ hs _ => fold_left (fun s h => sstep_rem s h) hs s
  | _ => s
  end.

Definition matches (ps : list path) (r : sreg) : bool := existsb (compat (r_path r)) ps.

Definition regs_of (c : cid) (ps : list path) (l : list sreg) : list sreg :=
  filter (fun r => Nat.eqb (r_client r) c && matches ps r) l.

Fixpoint dedup_paths (l : list path) : list path :=
  match l with
  | [] => []
  | x :: l' => if existsb (path_eqb x) l' then dedup_paths l' else x :: dedup_paths l'
  end.

Fixpoint dedup_nat (l : list nat) : list nat :=
  match l with
  | [] => []
  | x :: l' => if mem x l' then dedup_nat l' else x :: dedup_nat l'
  end.

Definition count_of (c : cid) (l : list (cid * nat)) : nat :=
  match find (fun cn => Nat.eqb (fst cn) c) l with Some cn => snd cn | None => 0%nat end.

Definition all_clients (s : sst) (offers : list (cid * nat)) (hits : list cid) : list cid :=
  dedup_nat (map r_client (s_reg s) ++ map r_client (s_gone s) ++ map fst offers ++ hits).

(** Verdict for one client on one notification-like operation.
    [once]: the operation is one notification (at most one offer allowed);
    otherwise (Match.Update) one call per matching registered path. *)
Definition judge (s : sst) (once : bool) (npaths : nat) (ps : list path)
           (offers : list (cid * nat)) (hits : list cid) (c : cid) : list N :=
  if mem c (s_unspec s) then [] else
  let live := regs_of c ps (s_reg s) in
  let gone := regs_of c ps (s_gone s) in
  let n := count_of c offers in
  (* offered iff compatible *)
  (match live, n with
   | _ :: _, O => [2%N]
   | [], S _ => match gone with
                | [] => [2%N]
                | _ :: _ => [4%N]
                end
   | _, _ => []
   end) ++
  (* multiplicity *)
  (match live with
   | [] => []
   | _ :: _ =>
       (* Match.Update without a set may call a client once per matching node:
          how often is an implementation detail (compared under tag 1 only) *)
       if once && (2 <=? n)%nat then [3%N] else []
   end) ++
  (* a leaf the snapshot would return is streamed *)
  (if mem c hits && Nat.eqb n 0 then [5%N] else []).

(** the property on the implementation's observation of one step *)
Definition kstep (s : sst) (o : op) (r : obs) : list N :=
  match o, r with
  | _, RPanic => [7%N]
  | OUpd p, ROffers l =>
      flat_map (judge s false 1 [p] l []) (all_clients s l [])
  | OOnce ps, ROffers l =>
      flat_map (judge s true (List.length ps) ps l []) (all_clients s l [])
  | ONotif _ pre ups dels, RNotif l hits =>
      let ps := map (fun p => notif_prefix pre ++ p) (notif_paths ups dels) in
      flat_map (judge s true (List.length ps) ps l hits) (all_clients s l hits)
  | ORace cx cy qx qy p k _, RRace n =>
      (* between the return of AddQuery(qx, cx) and cx's own removal every
         compatible update is offered to cx, exactly once, whatever cy does *)
      if mem cx (s_unspec s) || Nat.eqb cx cy then [] else
      let expected := compat qx p || match regs_of cx [p] (s_reg s) with [] => false | _ :: _ => true end in
      if expected then (if Nat.ltb n k then [2%N] else if Nat.ltb k n then [3%N] else [])
      else (match n with O => [] | S _ => [2%N] end)
  | OConc once tq hs p, RConc l _ _ late =>
      (* Clients whose registrations the removals leave alone are judged as
         for a sequential update.  A client being removed may or may not get
         this update (either order of the two calls is a correct outcome), but
         it must not be called after its removal has returned. *)
      let victims := flat_map (fun h => match nth_error (s_handles s) h with
                                        | Some rs => map r_client rs | None => [] end) hs in
      let after := fold_left (fun s h => sstep_rem s h) hs s in
      flat_map (fun c => if mem c victims then []
                         else judge s once 1 [p] l [] c) (all_clients s l []) ++
      flat_map (fun c => if mem c (s_unspec s) then []
                         else match regs_of c [p] (s_reg after) with
                              | [] => [4%N]
                              | _ :: _ => []
                              end) late
  (* the size of the trie is an implementation detail: tag 1 only *)
  | _, _ => []
  end.

(** ** verdicts: tag 1 model differs (this includes the size of the trie and
    how often Match.Update calls a client registered on several matching
    paths, which are implementation details and never a K_P tag); 2 offered
    set wrong; 3 offered more than once per notification; 4 offered after
    removal; 5 snapshot leaf not streamed; 7 panic. *)

Fixpoint check_from (i : nat) (m : mst) (s : sst) (c : list (op * obs)) : list (nat * N) :=
  match c with
  | [] => []
  | (o, r) :: c' =>
      let '(m', rm) := mstep m o in
      let v1 := if obs_eqb r rm then [] else [(i, 1%N)] in
      let v2 := map (fun t => (i, t)) (kstep s o r) in
      v1 ++ v2 ++ check_from (S i) m' (sstep s o) c'
  end.

Definition check_case (c : list (op * obs)) : list (nat * N) := check_from 0 mst0 sst0 c.

Fixpoint check_all_from (i : nat) (cs : list (list (op * obs))) : list (nat * nat * N) :=
  match cs with
  | [] => []
  | c :: cs' => map (fun sn => (i, fst sn, snd sn)) (check_case c) ++ check_all_from (S i) cs'
  end.

Definition check_all (cs : list (list (op * obs))) : list (nat * nat * N) := check_all_from 0 cs.

(** Lemmas about the model of match/match.go and the subscribe functions on it. *)
From Gnmi Require Import Base.Prelude CTree.CTreeModel Path.PathModel Match.MatchModel.

(** ctree.Query's relation is contained in the streaming relation. *)
Lemma qmatch_compat q p : qmatch q p = true -> compat q p = true.
Proof.
  revert p; induction q as [|k r IH]; intros p; cbn; [reflexivity|].
  destruct p as [|a p']; [reflexivity|].
  destruct (is_glob k) eqn:Hg; cbn.
  - destruct r as [|k' r']; [reflexivity|]. intros H. apply IH in H. exact H.
  - rewrite andb_true_iff. intros [-> H]. rewrite orb_true_r. cbn. auto.
Qed.

(** Lemmas about the model of match/match.go and of the subscribe functions
    that sit on it (MatchModel.v). *)
From Gnmi Require Import Base.Prelude CTree.CTreeModel Path.PathModel Match.MatchModel.

(** * Generic helpers *)

Lemma branch_ind' (P : branch -> Prop) :
  (forall cl ch, Forall (fun kc => P (snd kc)) ch -> P (Br cl ch)) ->
  forall b, P b.
Proof.
  intros H. fix IH 1. intros [cl ch]. apply H.
  induction ch as [|[k c] ch IHch]; constructor; [apply IH|apply IHch].
Qed.

Lemma in_keys_assoc {A} k (l : list (string * A)) : In k (keys l) -> exists a, assoc k l = Some a.
Proof.
  induction l as [|[k' a] l IH]; cbn; [tauto|].
  destruct (String.eqb_spec k k') as [->|Hn]; [eauto|].
  intros [E|Hin]; [congruence|auto].
Qed.

Lemma Forall_aset {A} (P : string * A -> Prop) k a l :
  Forall P l -> P (k, a) -> Forall P (aset k a l).
Proof.
  induction l as [|[k' a'] l IH]; cbn; intros Hl Hp.
  - constructor; auto.
  - inversion Hl; subst. destruct (String.eqb_spec k k') as [->|Hn]; constructor; auto.
Qed.

Lemma Forall_adel {A} (P : string * A -> Prop) k l : Forall P l -> Forall P (adel k l).
Proof.
  induction l as [|[k' a'] l IH]; cbn; intros Hl; [constructor|].
  inversion Hl; subst. destruct (String.eqb k k'); [assumption|constructor; auto].
Qed.

Lemma aset_aset_same {A} k (a b : A) l : aset k a (aset k b l) = aset k a l.
Proof.
  induction l as [|[k' a'] l IH]; cbn.
  - now rewrite String.eqb_refl.
  - destruct (String.eqb_spec k k') as [->|Hn]; cbn.
    + now rewrite String.eqb_refl.
    + destruct (String.eqb_spec k k'); [congruence|]. now rewrite IH.
Qed.

Lemma mem_In c s : mem c s = true <-> In c s.
Proof.
  unfold mem. rewrite existsb_exists. split.
  - intros (x & Hx & E). apply Nat.eqb_eq in E. now subst.
  - intros H. exists c. split; [assumption|apply Nat.eqb_refl].
Qed.

Lemma mem_false c s : mem c s = false <-> ~ In c s.
Proof. rewrite <- mem_In. destruct (mem c s); split; congruence. Qed.

Lemma is_glob_eq k : is_glob k = true <-> k = "*".
Proof. unfold is_glob. apply String.eqb_eq. Qed.

(** * ctree.Query's relation is contained in the streaming relation *)

Lemma qmatch_compat q p : qmatch q p = true -> compat q p = true.
Proof.
  revert p; induction q as [|k r IH]; intros p; cbn; [reflexivity|].
  destruct p as [|a p']; [reflexivity|].
  destruct (is_glob k) eqn:Hg; cbn.
  - destruct r as [|k' r']; [reflexivity|]. intros H. apply IH in H. exact H.
  - rewrite andb_true_iff. intros [-> H]. rewrite orb_true_r. cbn. auto.
Qed.

Lemma compat_nil_r q : compat q [] = true.
Proof. destruct q; reflexivity. Qed.

Lemma compat_sym q p : compat q p = compat p q.
Proof.
  revert p; induction q as [|a q IH]; intros [|b p]; cbn; try reflexivity.
  rewrite IH. f_equal. rewrite (String.eqb_sym a b).
  destruct (is_glob a), (is_glob b); reflexivity.
Qed.

(** a query that is a prefix of the update path, or extends it, is compatible *)
Lemma compat_prefix q s : compat q (q ++ s) = true.
Proof.
  induction q as [|a q IH]; cbn; [reflexivity|].
  rewrite String.eqb_refl, orb_true_r. exact IH.
Qed.

(** * Well-formed tries: the keys of every children map are distinct *)

Inductive wf : branch -> Prop :=
| wf_br cl ch : NoDup cl -> NoDup (keys ch) -> Forall (fun kc => wf (snd kc)) ch -> wf (Br cl ch).

Lemma wf_empty : wf empty_branch.
Proof. constructor; constructor. Qed.

Lemma wf_child cl ch k sb : wf (Br cl ch) -> assoc k ch = Some sb -> wf sb.
Proof.
  intros H Hk. inversion H as [? ? _ _ Hall]; subst. rewrite Forall_forall in Hall.
  apply assoc_In in Hk. exact (Hall _ Hk).
Qed.

Lemma NoDup_cl_add c cl : NoDup cl -> NoDup (cl_add c cl).
Proof.
  intros H. unfold cl_add. destruct (mem c cl) eqn:E; [assumption|].
  apply NoDup_app_intro_single; [assumption|now apply mem_false].
Qed.

Lemma In_cl_add c c' cl : In c' (cl_add c cl) <-> c' = c \/ In c' cl.
Proof.
  unfold cl_add. destruct (mem c cl) eqn:E.
  - apply mem_In in E. split; [auto|]. intros [->|H]; assumption.
  - rewrite in_app_iff. cbn. split; [intros [H|[H|[]]]; auto|intros [H|H]; auto].
Qed.

Lemma In_cl_del c c' cl : In c' (cl_del c cl) <-> In c' cl /\ c' <> c.
Proof.
  unfold cl_del. rewrite filter_In, negb_true_iff, Nat.eqb_neq. tauto.
Qed.

Lemma NoDup_cl_del c cl : NoDup cl -> NoDup (cl_del c cl).
Proof. apply NoDup_filter. Qed.

Lemma wf_add_query q : forall c b, wf b -> wf (add_query q c b).
Proof.
  induction q as [|k r IH]; intros c [cl ch] Hwf; cbn.
  - inversion Hwf; subst. constructor; auto using NoDup_cl_add.
  - inversion Hwf as [? ? Hcl Hnd Hall]; subst. constructor; auto.
    + now apply NoDup_keys_aset.
    + apply Forall_aset; [assumption|]. cbn. apply IH.
      destruct (assoc k ch) as [sb|] eqn:Hk; [eapply wf_child; eauto|apply wf_empty].
Qed.

Lemma wf_remove_query q : forall c b, wf b -> wf (fst (remove_query q c b)).
Proof.
  induction q as [|k r IH]; intros c [cl ch] Hwf; cbn.
  - inversion Hwf; subst. constructor; auto using NoDup_cl_del.
  - destruct (assoc k ch) as [sb|] eqn:Hk; cbn; [|assumption].
    inversion Hwf as [? ? Hcl Hnd Hall]; subst.
    destruct (snd (remove_query r c sb)).
    + constructor; auto using NoDup_keys_adel, Forall_adel.
    + constructor; auto using NoDup_keys_aset.
      apply Forall_aset; [assumption|]. cbn. apply IH. eapply wf_child; eauto.
Qed.

Lemma wf_remove_root q c b : wf b -> wf (remove_root q c b).
Proof. apply wf_remove_query. Qed.

(** * What is registered where: [clients_at] under add and remove *)

Lemma clients_at_cons cl ch k r :
  clients_at (Br cl ch) (k :: r) =
  match assoc k ch with Some sb => clients_at sb r | None => [] end.
Proof. cbn. apply find_with_assoc. Qed.

Lemma clients_at_empty q : clients_at empty_branch q = [].
Proof. destruct q; reflexivity. Qed.

Lemma clients_at_add_query q : forall c b q' c',
  In c' (clients_at (add_query q c b) q') <->
  (q' = q /\ c' = c) \/ In c' (clients_at b q').
Proof.
  induction q as [|k r IH]; intros c [cl ch] q' c'.
  - cbn [add_query]. destruct q' as [|k' r'].
    + cbn. rewrite In_cl_add. intuition congruence.
    + rewrite !clients_at_cons. intuition congruence.
  - cbn [add_query]. destruct q' as [|k' r'].
    + cbn. intuition congruence.
    + rewrite !clients_at_cons, assoc_aset.
      destruct (String.eqb_spec k' k) as [->|Hn].
      * rewrite IH. destruct (assoc k ch) as [sb|]; [|rewrite clients_at_empty];
          intuition congruence.
      * intuition congruence.
Qed.

Lemma remove_query_flag q : forall c b,
  snd (remove_query q c b) =
  is_empty_br (br_clients (fst (remove_query q c b))) (br_children (fst (remove_query q c b))).
Proof.
  destruct q as [|k r]; intros c [cl ch]; cbn; [reflexivity|].
  destruct (assoc k ch); reflexivity.
Qed.

Lemma clients_at_is_empty cl ch q : is_empty_br cl ch = true -> clients_at (Br cl ch) q = [].
Proof.
  destruct cl, ch; cbn; try discriminate. intros _. destruct q; reflexivity.
Qed.

Lemma clients_at_remove_query q : forall c b q' c',
  wf b ->
  (In c' (clients_at (fst (remove_query q c b)) q') <->
   In c' (clients_at b q') /\ ~ (q' = q /\ c' = c)).
Proof.
  induction q as [|k r IH]; intros c [cl ch] q' c' Hwf.
  - cbn [remove_query fst]. destruct q' as [|k' r'].
    + cbn. rewrite In_cl_del. intuition congruence.
    + rewrite !clients_at_cons. intuition congruence.
  - cbn [remove_query]. destruct (assoc k ch) as [sb|] eqn:Hk.
    2:{ cbn [fst]. split; [|tauto]. intros H. split; [assumption|].
        intros [-> ->]. rewrite clients_at_cons, Hk in H. contradiction. }
    cbn [fst]. inversion Hwf as [? ? Hcl Hnd Hall]; subst.
    assert (Hsb : wf sb) by (eapply wf_child; eauto).
    destruct q' as [|k' r'].
    + cbn. intuition congruence.
    + rewrite !clients_at_cons.
      destruct (snd (remove_query r c sb)) eqn:Hflag.
      * rewrite assoc_adel by assumption.
        destruct (String.eqb_spec k' k) as [->|Hn].
        -- rewrite Hk. split; [intros []|]. intros [Hin Hne].
           assert (Hx : In c' (clients_at (fst (remove_query r c sb)) r')).
           { apply IH; [assumption|]. split; [assumption|]. intros [-> ->]. apply Hne. auto. }
           rewrite remove_query_flag in Hflag.
           destruct (fst (remove_query r c sb)) as [cl' ch']. cbn in Hflag.
           rewrite (clients_at_is_empty _ _ _ Hflag) in Hx. contradiction.
        -- intuition congruence.
      * rewrite assoc_aset. destruct (String.eqb_spec k' k) as [->|Hn].
        -- rewrite Hk, IH by assumption.
           split; intros [H1 H2]; (split; [assumption|]); intros [E ->]; apply H2; split; congruence.
        -- intuition congruence.
Qed.

Lemma clients_at_remove_root q c b q' c' :
  wf b ->
  (In c' (clients_at (remove_root q c b) q') <->
   In c' (clients_at b q') /\ ~ (q' = q /\ c' = c)).
Proof. apply clients_at_remove_query. Qed.

(** * The walk offers exactly the clients registered on a compatible path *)

Lemma find_with_In {B} (f : branch -> list B) k ch x :
  In x (find_with f [] k ch) <-> exists sb, assoc k ch = Some sb /\ In x (f sb).
Proof.
  rewrite find_with_assoc. destruct (assoc k ch) as [sb|].
  - split; [eauto|]. intros (sb' & E & H). inversion E; subst. assumption.
  - split; [intros []|]. intros (sb' & E & _). discriminate.
Qed.

Lemma visit_spec b : forall p c,
  wf b ->
  (In c (visit b p) <-> exists q, In c (clients_at b q) /\ compat q p = true).
Proof.
  induction b as [cl ch IH] using branch_ind'. intros p c Hwf.
  inversion Hwf as [? ? Hcl Hnd Hall]; subst.
  rewrite Forall_forall in IH, Hall.
  cbn [visit]. rewrite in_app_iff. split.
  - intros [Hc|Hc].
    + exists []. split; [exact Hc|reflexivity].
    + destruct ch as [|kc0 ch0] eqn:Hch; [destruct Hc|]. rewrite <- Hch in *. clear Hch kc0 ch0.
      destruct p as [|k r].
      * apply in_flat_map in Hc as ([k' sb] & Hin & Hv). cbn in Hv.
        apply (IH _ Hin) in Hv; [|apply (Hall _ Hin)]. destruct Hv as (q & Hq & _).
        exists (k' :: q). split; [|reflexivity].
        rewrite clients_at_cons, (In_assoc _ _ _ Hnd Hin). exact Hq.
      * destruct (is_glob k) eqn:Hg.
        -- apply in_flat_map in Hc as ([k' sb] & Hin & Hv). cbn in Hv.
           apply (IH _ Hin) in Hv; [|apply (Hall _ Hin)]. destruct Hv as (q & Hq & Hcq).
           exists (k' :: q). split.
           ++ rewrite clients_at_cons, (In_assoc _ _ _ Hnd Hin). exact Hq.
           ++ cbn. rewrite Hg, orb_true_r. exact Hcq.
        -- apply in_app_iff in Hc as [Hc|Hc]; apply find_with_In in Hc as (sb & Hk & Hv);
             pose proof (assoc_In _ _ _ Hk) as Hin;
             apply (IH _ Hin) in Hv; try apply (Hall _ Hin); destruct Hv as (q & Hq & Hcq).
           ++ exists ("*" :: q). split; [rewrite clients_at_cons, Hk; exact Hq|].
              cbn. exact Hcq.
           ++ exists (k :: q). split; [rewrite clients_at_cons, Hk; exact Hq|].
              cbn. rewrite String.eqb_refl, orb_true_r. exact Hcq.
  - intros (q & Hq & Hcq). destruct q as [|k' q'].
    + left. exact Hq.
    + right. rewrite clients_at_cons in Hq.
      destruct (assoc k' ch) as [sb|] eqn:Hk; [|destruct Hq].
      pose proof (assoc_In _ _ _ Hk) as Hin.
      destruct ch as [|kc0 ch0] eqn:Hch; [destruct Hin|]. rewrite <- Hch in *. clear Hch kc0 ch0.
      destruct p as [|k r].
      * apply in_flat_map. exists (k', sb). split; [assumption|]. cbn.
        apply (IH _ Hin); [apply (Hall _ Hin)|]. exists q'. split; [assumption|apply compat_nil_r].
      * cbn in Hcq. apply andb_true_iff in Hcq as [Hhd Hcq].
        destruct (is_glob k) eqn:Hg.
        -- apply in_flat_map. exists (k', sb). split; [assumption|]. cbn.
           apply (IH _ Hin); [apply (Hall _ Hin)|]. eauto.
        -- rewrite orb_false_r in Hhd. apply in_app_iff.
           assert (Hv : In c (visit sb r)).
           { apply (IH _ Hin); [apply (Hall _ Hin)|]. eauto. }
           apply orb_true_iff in Hhd as [Hhd|Hhd].
           ++ left. apply is_glob_eq in Hhd. subst k'. apply find_with_In. eauto.
           ++ right. apply String.eqb_eq in Hhd. subst k'. apply find_with_In. eauto.
Qed.

(** * Histories: every trie reachable by registrations and removals *)

Inductive hop := HAdd (q : path) (c : cid) | HRem (q : path) (c : cid).

Definition run_hop (b : branch) (o : hop) : branch :=
  match o with
  | HAdd q c => add_query q c b
  | HRem q c => remove_root q c b
  end.

Definition run_hist (h : list hop) : branch := fold_left run_hop h empty_branch.

(** the registrations as a set of (path, client) pairs *)
Definition pair_eqb (x y : path * cid) : bool := path_eqb (fst x) (fst y) && Nat.eqb (snd x) (snd y).

Definition reg_hop (R : list (path * cid)) (o : hop) : list (path * cid) :=
  match o with
  | HAdd q c => (q, c) :: R
  | HRem q c => filter (fun x => negb (pair_eqb x (q, c))) R
  end.

Definition regs (h : list hop) : list (path * cid) := fold_left reg_hop h [].

Lemma pair_eqb_eq x y : pair_eqb x y = true <-> x = y.
Proof.
  destruct x as [q c], y as [q' c']. unfold pair_eqb. cbn.
  rewrite andb_true_iff, path_eqb_eq, Nat.eqb_eq. split; [intros [-> ->]; reflexivity|].
  intros E; inversion E; auto.
Qed.

Definition agrees (b : branch) (R : list (path * cid)) : Prop :=
  wf b /\ forall q c, In c (clients_at b q) <-> In (q, c) R.

Lemma agrees_step b R o : agrees b R -> agrees (run_hop b o) (reg_hop R o).
Proof.
  intros [Hwf Hag]. destruct o as [q c|q c]; cbn.
  - split; [now apply wf_add_query|]. intros q' c'.
    rewrite clients_at_add_query, Hag. cbn. intuition congruence.
  - split; [now apply wf_remove_root|]. intros q' c'.
    rewrite clients_at_remove_root by assumption. rewrite Hag, filter_In, negb_true_iff.
    split.
    + intros [Hin Hne]. split; [assumption|].
      destruct (pair_eqb (q', c') (q, c)) eqn:E; [|reflexivity].
      apply pair_eqb_eq in E. inversion E; subst. exfalso; apply Hne; auto.
    + intros [Hin Hne]. split; [assumption|]. intros [-> ->].
      assert (pair_eqb (q, c) (q, c) = true) by (apply pair_eqb_eq; reflexivity). congruence.
Qed.

Lemma agrees_fold h : forall b R, agrees b R -> agrees (fold_left run_hop h b) (fold_left reg_hop h R).
Proof.
  induction h as [|o h IH]; intros b R H; cbn; [assumption|]. apply IH. now apply agrees_step.
Qed.

Lemma agrees_hist h : agrees (run_hist h) (regs h).
Proof.
  apply agrees_fold. split; [apply wf_empty|]. intros q c. rewrite clients_at_empty. cbn. tauto.
Qed.

Lemma wf_hist h : wf (run_hist h).
Proof. apply agrees_hist. Qed.

(** * [deliver]: the [updated] set *)

Lemma deliver_none vs : deliver vs None = (vs, None).
Proof. induction vs as [|c vs IH]; cbn; [reflexivity|]. now rewrite IH. Qed.

Lemma deliver_some vs : forall s,
  exists s', snd (deliver vs (Some s)) = Some s' /\
  (forall c, In c s' <-> In c s \/ In c vs) /\
  (forall c, In c (fst (deliver vs (Some s))) <-> In c vs /\ ~ In c s) /\
  NoDup (fst (deliver vs (Some s))).
Proof.
  induction vs as [|c vs IH]; intros s; cbn.
  - exists s. split; [reflexivity|]. split; [tauto|]. split; [tauto|constructor].
  - destruct (mem c s) eqn:E.
    + apply mem_In in E. destruct (IH s) as (s' & Hs' & Hin & Hf & Hnd).
      exists s'. split; [assumption|]. split; [|split; [|assumption]].
      * intros x. rewrite Hin. intuition (subst; auto).
      * intros x. rewrite Hf. intuition (subst; auto). subst. contradiction.
    + apply mem_false in E. destruct (IH (c :: s)) as (s' & Hs' & Hin & Hf & Hnd).
      cbn. exists s'. split; [assumption|]. split; [|split].
      * intros x. rewrite Hin. cbn. tauto.
      * intros x. rewrite Hf. cbn. split.
        -- intros [<-|[Hx Hn]]; [tauto|]. split; [tauto|]. intros Hs. apply Hn. auto.
        -- intros [[<-|Hx] Hn]; [tauto|]. destruct (Nat.eq_dec c x) as [->|Hne]; [tauto|].
           right. split; [assumption|]. intros [E'|Hs]; [congruence|contradiction].
      * constructor; [|assumption]. rewrite Hf. cbn. tauto.
Qed.

(** The calls made do not depend on the order in which Go iterates its maps:
    the delivered multiset is determined by the visited multiset. *)
Lemma deliver_perm vs vs' u :
  Permutation vs vs' -> Permutation (fst (deliver vs u)) (fst (deliver vs' u)).
Proof.
  intros Hp. destruct u as [s|].
  - destruct (deliver_some vs s) as (_ & _ & _ & Hf & Hnd).
    destruct (deliver_some vs' s) as (_ & _ & _ & Hf' & Hnd').
    apply NoDup_Permutation; try assumption.
    intros c. rewrite Hf, Hf'. split; intros [H Hn]; (split; [|assumption]).
    + eapply Permutation_in; eauto.
    + eapply Permutation_in; [symmetry|]; eauto.
  - now rewrite !deliver_none.
Qed.

Lemma match_update_visit b p : match_update b p = visit b p.
Proof. unfold match_update, update_once. now rewrite deliver_none. Qed.

Lemma update_many_none b ps : forall acc,
  fold_left (fun acc p => let r := update_once b p (snd acc) in (fst acc ++ fst r, snd r)) ps (acc, None)
  = (acc ++ flat_map (visit b) ps, None).
Proof.
  induction ps as [|p ps IH]; intros acc; cbn.
  - now rewrite app_nil_r.
  - change (update_once b p None) with (deliver (visit b p) None).
    rewrite deliver_none. cbn [fst snd]. rewrite IH. now rewrite app_assoc.
Qed.

Lemma update_many_some b ps : forall acc s,
  NoDup acc -> (forall c, In c acc -> In c s) ->
  let r := fold_left (fun acc p => let r := update_once b p (snd acc) in (fst acc ++ fst r, snd r))
                     ps (acc, Some s) in
  NoDup (fst r) /\
  (forall c, In c (fst r) <-> In c acc \/ (~ In c s /\ exists p, In p ps /\ In c (visit b p))).
Proof.
  induction ps as [|p ps IH]; intros acc s Hnd Hsub; cbn.
  - split; [assumption|]. intros c. split; [auto|]. intros [H|[_ (p & [] & _)]]. assumption.
  - change (update_once b p (Some s)) with (deliver (visit b p) (Some s)).
    destruct (deliver_some (visit b p) s) as (s' & Hs' & Hin & Hf & Hnd').
    rewrite Hs'.
    specialize (IH (acc ++ fst (deliver (visit b p) (Some s))) s').
    destruct IH as [IH1 IH2].
    + apply NoDup_app_intro; try assumption.
      intros x Hx Hy. apply Hf in Hy. destruct Hy as [_ Hn]. auto.
    + intros c Hc. apply in_app_iff in Hc as [Hc|Hc]; apply Hin; [auto|].
      apply Hf in Hc. tauto.
    + split; [exact IH1|]. intros c. rewrite IH2, in_app_iff, Hf, Hin. split.
      * intros [[H|[Hv Hn]]|[Hn (p' & Hp' & Hv)]]; [auto| |].
        -- right. split; [assumption|]. exists p. cbn. auto.
        -- right. split; [tauto|]. exists p'. cbn. auto.
      * intros [H|[Hn (p' & [<-|Hp'] & Hv)]]; [auto| |].
        -- left. right. tauto.
        -- destruct (in_dec Nat.eq_dec c (visit b p)) as [Hi|Hni].
           ++ left. right. tauto.
           ++ right. split; [tauto|]. eauto.
Qed.

(** who is offered a notification, whatever the flag *)
Lemma update_notification_In f b prefix paths c :
  In c (update_notification_gen f b prefix paths) <->
  exists p, In p paths /\ In c (visit b (prefix ++ p)).
Proof.
  unfold update_notification_gen, update_many.
  destruct (f || (1 <? List.length paths)%nat).
  - pose proof (update_many_some b (map (fun p => prefix ++ p) paths) [] [] (NoDup_nil _)
                  (fun c H => H)) as [_ H].
    cbn zeta in H. rewrite H. cbn. split.
    + intros [[]|[_ (p & Hp & Hv)]]. apply in_map_iff in Hp as (p0 & <- & Hp0). eauto.
    + intros (p & Hp & Hv). right. split; [tauto|]. exists (prefix ++ p). split; [|assumption].
      apply in_map_iff. eauto.
  - rewrite update_many_none. cbn. rewrite in_flat_map. split.
    + intros (p & Hp & Hv). apply in_map_iff in Hp as (p0 & <- & Hp0). eauto.
    + intros (p & Hp & Hv). exists (prefix ++ p). split; [|assumption]. apply in_map_iff. eauto.
Qed.

Lemma update_notification_nodup f b prefix paths :
  f = true \/ (2 <= List.length paths)%nat ->
  NoDup (update_notification_gen f b prefix paths).
Proof.
  intros H. unfold update_notification_gen, update_many.
  assert (E : f || (1 <? List.length paths)%nat = true).
  { destruct H as [->|H]; [reflexivity|]. apply orb_true_iff. right. apply Nat.ltb_lt. lia. }
  rewrite E.
  apply (update_many_some b (map (fun p => prefix ++ p) paths) [] [] (NoDup_nil _) (fun c H => H)).
Qed.

(** * Statements of the property over the model *)

(** offered iff compatible, over every reachable trie *)
Lemma offered_iff_compatible h p c :
  In c (match_update (run_hist h) p) <->
  exists q, In (q, c) (regs h) /\ compat q p = true.
Proof.
  rewrite match_update_visit, visit_spec by apply wf_hist.
  destruct (agrees_hist h) as [_ Hag].
  split; intros (q & Hq & Hc); exists q; (split; [apply Hag; assumption|assumption]).
Qed.

Lemma notification_offered_iff f h prefix paths c :
  In c (update_notification_gen f (run_hist h) prefix paths) <->
  exists p q, In p paths /\ In (q, c) (regs h) /\ compat q (prefix ++ p) = true.
Proof.
  rewrite update_notification_In. split.
  - intros (p & Hp & Hv). rewrite <- match_update_visit in Hv.
    apply offered_iff_compatible in Hv as (q & Hq & Hc). eauto.
  - intros (p & q & Hp & Hq & Hc). exists p. split; [assumption|].
    rewrite <- match_update_visit. apply offered_iff_compatible. eauto.
Qed.

(** at most once per notification *)
Lemma at_most_once_gen f b prefix paths c :
  f = true \/ (2 <= List.length paths)%nat ->
  (count_occ Nat.eq_dec (update_notification_gen f b prefix paths) c <= 1)%nat.
Proof.
  intros H. apply NoDup_count_occ. now apply update_notification_nodup.
Qed.

(** nothing after removal; other registrations unaffected; idempotent *)
Lemma regs_after_remove h q c q' c' :
  In (q', c') (regs (h ++ [HRem q c])) <-> In (q', c') (regs h) /\ (q', c') <> (q, c).
Proof.
  unfold regs. rewrite fold_left_app. cbn. rewrite filter_In, negb_true_iff. split.
  - intros [H E]. split; [assumption|]. intros E'. rewrite E' in E.
    assert (pair_eqb (q, c) (q, c) = true) by (apply pair_eqb_eq; reflexivity). congruence.
  - intros [H Hne]. split; [assumption|]. destruct (pair_eqb (q', c') (q, c)) eqn:E; [|reflexivity].
    apply pair_eqb_eq in E. contradiction.
Qed.

Lemma no_delivery_after_remove h q c p :
  (forall q', In (q', c) (regs h) -> q' <> q -> compat q' p = false) ->
  ~ In c (match_update (run_hist (h ++ [HRem q c])) p).
Proof.
  intros Hno Hin. apply offered_iff_compatible in Hin as (q' & Hq' & Hc).
  apply regs_after_remove in Hq' as [Hq' Hne].
  rewrite Hno in Hc; [discriminate|assumption|]. intros ->. now apply Hne.
Qed.

Lemma remove_isolated h q c p c' :
  c' <> c ->
  (In c' (match_update (run_hist (h ++ [HRem q c])) p) <-> In c' (match_update (run_hist h) p)).
Proof.
  intros Hne. rewrite !offered_iff_compatible. split; intros (q' & Hq' & Hc); exists q'; (split; [|assumption]).
  - now apply regs_after_remove in Hq' as [Hq' _].
  - apply regs_after_remove. split; [assumption|]. congruence.
Qed.

Lemma remove_query_idem q : forall c b,
  wf b -> fst (remove_query q c (fst (remove_query q c b))) = fst (remove_query q c b).
Proof.
  induction q as [|k r IH]; intros c [cl ch] Hwf; cbn.
  - f_equal. unfold cl_del. induction cl as [|x cl IHcl]; cbn; [reflexivity|].
    inversion Hwf as [? ? Hcl Hnd Hall]; subst.
    destruct (negb (x =? c)%nat) eqn:E; cbn.
    + rewrite E. f_equal. apply IHcl. constructor; [now inversion Hcl|assumption|assumption].
    + apply IHcl. constructor; [now inversion Hcl|assumption|assumption].
  - destruct (assoc k ch) as [sb|] eqn:Hk; cbn.
    2:{ rewrite Hk. reflexivity. }
    inversion Hwf as [? ? Hcl Hnd Hall]; subst.
    assert (Hsb : wf sb) by (eapply wf_child; eauto).
    destruct (snd (remove_query r c sb)) eqn:Hflag.
    + rewrite assoc_adel by assumption. rewrite String.eqb_refl. reflexivity.
    + rewrite assoc_aset, String.eqb_refl.
      rewrite remove_query_flag, IH by assumption.
      rewrite <- remove_query_flag, Hflag. now rewrite aset_aset_same.
Qed.

Lemma remove_root_idem q c b : wf b -> remove_root q c (remove_root q c b) = remove_root q c b.
Proof. apply remove_query_idem. Qed.

(** * Pruning: no empty node survives below the root *)

Definition nonempty_br (b : branch) : bool := negb (is_empty_br (br_clients b) (br_children b)).

Inductive pruned : branch -> Prop :=
| pruned_br cl ch :
    Forall (fun kc => pruned (snd kc) /\ nonempty_br (snd kc) = true) ch -> pruned (Br cl ch).

Lemma pruned_empty : pruned empty_branch.
Proof. constructor. constructor. Qed.

Lemma aset_not_nil {A} k (a : A) l : aset k a l <> [].
Proof. destruct l as [|[k' a'] l]; cbn; [discriminate|]. destruct (String.eqb k k'); discriminate. Qed.

Lemma add_query_nonempty q c b : nonempty_br (add_query q c b) = true.
Proof.
  destruct b as [cl ch]. destruct q as [|k r]; cbn.
  - unfold nonempty_br, cl_add. cbn. destruct (mem c cl) eqn:E.
    + destruct cl; [discriminate|reflexivity].
    + destruct cl; reflexivity.
  - unfold nonempty_br. cbn.
    destruct (aset k _ ch) eqn:E; [now apply aset_not_nil in E|]. destruct cl; reflexivity.
Qed.

Lemma pruned_child cl ch k sb : pruned (Br cl ch) -> assoc k ch = Some sb -> pruned sb.
Proof.
  intros H Hk. inversion H as [? ? Hall]; subst. rewrite Forall_forall in Hall.
  apply assoc_In in Hk. exact (proj1 (Hall _ Hk)).
Qed.

Lemma pruned_add_query q : forall c b, pruned b -> pruned (add_query q c b).
Proof.
  induction q as [|k r IH]; intros c [cl ch] Hp; cbn.
  - inversion Hp; subst. now constructor.
  - inversion Hp as [? ? Hall]; subst. constructor.
    apply Forall_aset; [assumption|]. cbn. split; [|apply add_query_nonempty].
    apply IH. destruct (assoc k ch) as [sb|] eqn:Hk; [eapply pruned_child; eauto|apply pruned_empty].
Qed.

Lemma pruned_remove_query q : forall c b, pruned b -> pruned (fst (remove_query q c b)).
Proof.
  induction q as [|k r IH]; intros c [cl ch] Hp; cbn.
  - inversion Hp; subst. now constructor.
  - destruct (assoc k ch) as [sb|] eqn:Hk; cbn; [|assumption].
    inversion Hp as [? ? Hall]; subst.
    destruct (snd (remove_query r c sb)) eqn:Hflag.
    + constructor. now apply Forall_adel.
    + constructor. apply Forall_aset; [assumption|]. cbn. split.
      * apply IH. eapply pruned_child; eauto.
      * unfold nonempty_br. rewrite <- remove_query_flag, Hflag. reflexivity.
Qed.

Lemma pruned_hist h : pruned (run_hist h).
Proof.
  unfold run_hist. generalize pruned_empty. generalize empty_branch.
  induction h as [|o h IH]; intros b Hb; cbn; [assumption|]. apply IH.
  destruct o; cbn; [now apply pruned_add_query|now apply pruned_remove_query].
Qed.

(** a non-empty pruned node has a client somewhere below it *)
Lemma pruned_inhabited b :
  pruned b -> nonempty_br b = true -> exists q c, In c (clients_at b q).
Proof.
  induction b as [cl ch IH] using branch_ind'. intros Hp Hne.
  destruct cl as [|c cl].
  - destruct ch as [|[k sb] ch]; [discriminate|].
    inversion Hp as [? ? Hall]; subst. inversion Hall as [|? ? [Hsb Hnsb] _]; subst.
    inversion IH as [|? ? IHsb _]; subst. cbn [snd] in *.
    destruct (IHsb Hsb Hnsb) as (q & c & Hin).
    exists (k :: q), c. rewrite clients_at_cons. cbn. rewrite String.eqb_refl. exact Hin.
  - exists [], c. cbn. auto.
Qed.

(** when nothing is registered any more the trie is the empty trie again *)
Lemma no_leak h : (forall q c, ~ In (q, c) (regs h)) -> run_hist h = empty_branch.
Proof.
  intros Hnone. destruct (agrees_hist h) as [_ Hag]. pose proof (pruned_hist h) as Hp.
  destruct (run_hist h) as [cl ch].
  destruct cl as [|c cl].
  - destruct ch as [|[k sb] ch]; [reflexivity|]. exfalso.
    inversion Hp as [? ? Hall]; subst. inversion Hall as [|? ? [Hsb Hnsb] _]; subst. cbn [snd] in *.
    destruct (pruned_inhabited _ Hsb Hnsb) as (q & c & Hin).
    apply (Hnone (k :: q) c). apply Hag. rewrite clients_at_cons. cbn. rewrite String.eqb_refl. exact Hin.
  - exfalso. apply (Hnone [] c). apply Hag. cbn. auto.
Qed.

(** * addSubscription *)

Definition sub_queries (f2 : bool) (pre : gpath) (ents : list (option gpath)) : list path :=
  flat_map (fun e => match entry_path f2 e with Some p => [sub_query pre p] | None => [] end) ents.

Definition qref_ok (s : qref) : Prop :=
  match s with Shared len => (len <= slice_cap)%nat | Own _ => True end.

Definition qref_base (s : qref) : nat :=
  match s with Shared len => len | Own _ => slice_cap end.

Lemma go_append_spec arr s xs :
  List.length arr = slice_cap -> qref_ok s ->
  qref_val (fst (go_append arr s xs)) (snd (go_append arr s xs)) = qref_val arr s ++ xs /\
  List.length (fst (go_append arr s xs)) = slice_cap /\
  qref_ok (snd (go_append arr s xs)) /\
  (qref_base s <= qref_base (snd (go_append arr s xs)))%nat /\
  (forall n, (n <= qref_base s)%nat -> firstn n (fst (go_append arr s xs)) = firstn n arr).
Proof.
  intros Hlen Hok. destruct s as [len|q]; cbn in *.
  2:{ repeat split; auto. }
  destruct (len + List.length xs <=? slice_cap)%nat eqn:E; cbn.
  2:{ repeat split; auto. }
  apply Nat.leb_le in E.
  assert (Hl1 : List.length (firstn len arr) = len) by (rewrite firstn_length; lia).
  repeat split.
  - rewrite firstn_app, Hl1. rewrite firstn_all2 by lia.
    replace (len + List.length xs - len)%nat with (List.length xs) by lia.
    rewrite firstn_app, firstn_all, Nat.sub_diag. cbn. now rewrite app_nil_r.
  - rewrite !app_length, Hl1, skipn_length. lia.
  - assumption.
  - lia.
  - intros n Hn. rewrite firstn_app, Hl1.
    replace (n - len)%nat with 0%nat by lia. cbn. rewrite app_nil_r.
    rewrite firstn_firstn. f_equal. lia.
Qed.

Definition sub_inv (prefix : path) (a : sub_acc) : Prop :=
  List.length (sa_arr a) = slice_cap /\ firstn (List.length prefix) (sa_arr a) = prefix.

Lemma sub_entry_spec f2 c pre a e :
  let prefix := to_strings true pre in
  (List.length prefix <= slice_cap)%nat ->
  sub_inv prefix a ->
  let a' := sub_entry f2 c pre (List.length prefix) a e in
  sub_inv prefix a' /\
  sa_trie a' = match entry_path f2 e with
               | Some p => add_query (sub_query pre p) c (sa_trie a)
               | None => sa_trie a
               end /\
  match entry_path f2 e with
  | Some p => exists s, sa_refs a' = sa_refs a ++ [s] /\ qref_val (sa_arr a') s = sub_query pre p
  | None => a' = a
  end.
Proof.
  intros prefix Hk [Hlen Hpre] a'. subst a'. unfold sub_entry.
  destruct (entry_path f2 e) as [p|].
  2:{ repeat split; auto. }
  set (k := List.length prefix) in *.
  set (r1 := if String.eqb (gp_origin pre) "" && negb (String.eqb (gp_origin p) "")
             then go_append (sa_arr a) (Shared k) [gp_origin p] else (sa_arr a, Shared k)).
  assert (H1 : qref_val (fst r1) (snd r1) = prefix ++ origin_splice pre p /\
               List.length (fst r1) = slice_cap /\ qref_ok (snd r1) /\
               (k <= qref_base (snd r1))%nat /\ firstn k (fst r1) = prefix).
  { subst r1. unfold origin_splice.
    destruct (String.eqb (gp_origin pre) "" && negb (String.eqb (gp_origin p) "")).
    - destruct (go_append_spec (sa_arr a) (Shared k) [gp_origin p] Hlen Hk)
        as (Hv & Hl & Hok & Hb & Hf).
      rewrite Hv. cbn [qref_val]. rewrite Hpre. repeat split; auto.
      rewrite Hf by (cbn; lia). exact Hpre.
    - cbn [fst snd qref_val]. rewrite app_nil_r. repeat split; auto. }
  destruct H1 as (Hv1 & Hl1 & Hok1 & Hb1 & Hf1).
  destruct (go_append_spec (fst r1) (snd r1) (to_strings false p) Hl1 Hok1)
    as (Hv2 & Hl2 & Hok2 & Hb2 & Hf2).
  cbn [sa_trie sa_arr sa_refs]. rewrite Hv2, Hv1, <- app_assoc. fold (sub_query pre p).
  repeat split; auto.
  - rewrite Hf2 by lia. exact Hf1.
  - eexists. split; [reflexivity|]. rewrite Hv2, Hv1, <- app_assoc. reflexivity.
Qed.

Lemma pad_inv prefix :
  (List.length prefix <= slice_cap)%nat -> sub_inv prefix (SubAcc empty_branch (pad prefix) []) .
Proof.
  intros Hk. split; cbn.
  - unfold pad. rewrite app_length, repeat_length. lia.
  - unfold pad. rewrite firstn_app, firstn_all, Nat.sub_diag. cbn. now rewrite app_nil_r.
Qed.

Lemma sub_queries_cons f2 pre e ents :
  sub_queries f2 pre (e :: ents) =
  match entry_path f2 e with Some p => [sub_query pre p] | None => [] end ++ sub_queries f2 pre ents.
Proof. reflexivity. Qed.

Lemma sub_fold_spec f2 c pre ents : forall a,
  let prefix := to_strings true pre in
  (List.length prefix <= slice_cap)%nat ->
  sub_inv prefix a ->
  let a' := fold_left (sub_entry f2 c pre (List.length prefix)) ents a in
  sa_trie a' = fold_left (fun t q => add_query q c t) (sub_queries f2 pre ents) (sa_trie a).
Proof.
  induction ents as [|e ents IH]; intros a prefix Hk Hinv.
  - reflexivity.
  - cbn [fold_left]. subst prefix. cbn zeta in *.
    destruct (sub_entry_spec f2 c pre a e Hk Hinv) as (Hinv' & Ht & _).
    rewrite (IH _ Hk Hinv'), sub_queries_cons, Ht, fold_left_app.
    destruct (entry_path f2 e); reflexivity.
Qed.

(** the code since 434b003 *)
Lemma own_fold_spec f2 c pre ents : forall a,
  fold_left (sub_entry_own f2 c pre) ents a =
  (fold_left (fun t q => add_query q c t) (sub_queries f2 pre ents) (fst a),
   snd a ++ sub_queries f2 pre ents).
Proof.
  induction ents as [|e ents IH]; intros [t qs].
  - cbn. now rewrite app_nil_r.
  - cbn [fold_left]. rewrite IH, sub_queries_cons. unfold sub_entry_own.
    destruct (entry_path f2 e); cbn [fst snd]; [|reflexivity].
    cbn [app fold_left]. now rewrite <- app_assoc.
Qed.

(** registration is right whatever the aliasing *)
Lemma add_subscription_trie f2 f3 b c pre ents b' qs :
  add_subscription_gen f2 f3 b c pre ents = Some (b', qs) ->
  b' = fold_left (fun t q => add_query q c t) (sub_queries f2 pre ents) b.
Proof.
  unfold add_subscription_gen. destruct f3.
  - rewrite own_fold_spec. intros H. inversion H; subst. reflexivity.
  - destruct (List.length (to_strings true pre) <=? slice_cap)%nat eqn:E; [|discriminate].
    apply Nat.leb_le in E. intros H. inversion H; subst; clear H.
    assert (Hinv : sub_inv (to_strings true pre) (SubAcc b (pad (to_strings true pre)) [])).
    { destruct (pad_inv _ E) as [H1 H2]. split; assumption. }
    exact (sub_fold_spec f2 c pre ents _ E Hinv).
Qed.

(** with the slices copied the closure removes exactly what was registered *)
Lemma add_subscription_closure f2 b c pre ents b' qs :
  add_subscription_gen f2 true b c pre ents = Some (b', qs) -> qs = sub_queries f2 pre ents.
Proof.
  unfold add_subscription_gen. rewrite own_fold_spec. intros H. inversion H; subst. reflexivity.
Qed.

(** since 434b003 the function is defined for every prefix *)
Lemma add_subscription_total f2 b c pre ents :
  exists b' qs, add_subscription_gen f2 true b c pre ents = Some (b', qs).
Proof. unfold add_subscription_gen. rewrite own_fold_spec. eauto. Qed.

Lemma wf_fold_add qs c : forall b, wf b -> wf (fold_left (fun t q => add_query q c t) qs b).
Proof. induction qs as [|q qs IH]; intros b H; cbn; [assumption|]. apply IH. now apply wf_add_query. Qed.

Lemma clients_at_fold_add qs c : forall b q' c',
  In c' (clients_at (fold_left (fun t q => add_query q c t) qs b) q') <->
  In c' (clients_at b q') \/ (c' = c /\ In q' qs).
Proof.
  induction qs as [|q qs IH]; intros b q' c'; cbn; [tauto|].
  rewrite IH, clients_at_add_query. intuition (subst; auto).
Qed.

Lemma wf_remove_all qs c : forall b, wf b -> wf (remove_all qs c b).
Proof.
  unfold remove_all. induction qs as [|q qs IH]; intros b H; cbn; [assumption|].
  apply IH. now apply wf_remove_root.
Qed.

Lemma clients_at_remove_all qs c : forall b q' c',
  wf b ->
  (In c' (clients_at (remove_all qs c b) q') <->
   In c' (clients_at b q') /\ ~ (c' = c /\ In q' qs)).
Proof.
  unfold remove_all. induction qs as [|q qs IH]; intros b q' c' Hwf; cbn; [tauto|].
  rewrite IH by now apply wf_remove_root. rewrite clients_at_remove_root by assumption.
  intuition (subst; auto).
Qed.

(** the path an entry is registered with is the target followed by the path
    its snapshot queries *)
Lemma to_strings_true pre :
  to_strings true pre = nonempty (gp_target pre) ++ nonempty (gp_origin pre) ++ to_strings false pre.
Proof. unfold to_strings. cbn. now rewrite <- app_assoc. Qed.

Lemma sub_query_complete pre p fp :
  complete_path pre p = Ok fp -> sub_query pre p = nonempty (gp_target pre) ++ fp.
Proof.
  unfold complete_path, sub_query, origin_splice. rewrite to_strings_true.
  unfold nonempty at 2.
  destruct (String.eqb_spec (gp_origin pre) "") as [Ho|Ho];
    destruct (String.eqb_spec (gp_origin p) "") as [Hp|Hp]; cbn [negb andb]; try discriminate.
  - intros H; inversion H; subst. cbn [app]. now rewrite <- !app_assoc.
  - destruct (to_strings false pre) eqn:E; [|discriminate].
    intros H; inversion H; subst. cbn [app]. now rewrite <- !app_assoc.
  - intros H; inversion H; subst. cbn [app]. now rewrite <- !app_assoc.
Qed.

(** every leaf a snapshot query of a registered entry returns is streamed *)
Lemma query_implies_stream_gen f2 f3 b c pre ents b' qs e p fp t' ip :
  wf b ->
  add_subscription_gen f2 f3 b c pre ents = Some (b', qs) ->
  In e ents -> entry_path f2 e = Some p ->
  complete_path pre p = Ok fp ->
  gp_target pre <> "" ->
  (gp_target pre = t' \/ gp_target pre = "*" \/ t' = "*") ->
  qmatch fp ip = true ->
  In c (visit b' (t' :: ip)).
Proof.
  intros Hwf Hadd He Hp Hfp Ht Htt Hq.
  pose proof (add_subscription_trie _ _ _ _ _ _ _ _ Hadd) as Eb; subst b'.
  apply visit_spec; [now apply wf_fold_add|].
  exists (sub_query pre p). split.
  - apply clients_at_fold_add. right. split; [reflexivity|].
    unfold sub_queries. apply in_flat_map. exists e. split; [assumption|]. rewrite Hp. cbn. auto.
  - rewrite (sub_query_complete _ _ _ Hfp). unfold nonempty.
    destruct (String.eqb_spec (gp_target pre) ""); [contradiction|]. cbn.
    apply andb_true_iff. split; [|now apply qmatch_compat].
    destruct Htt as [ -> | [ -> | -> ] ]; [now rewrite String.eqb_refl, orb_true_r|reflexivity|].
    cbn. now rewrite orb_true_r.
Qed.

(** subscribe then unsubscribe: the client's paths are gone, nothing else changed *)
Lemma subscription_removed_gen f2 b c pre ents b' qs q' c' :
  wf b ->
  add_subscription_gen f2 true b c pre ents = Some (b', qs) ->
  (In c' (clients_at (remove_all qs c b') q') <->
   In c' (clients_at b q') /\ ~ (c' = c /\ In q' (sub_queries f2 pre ents))).
Proof.
  intros Hwf Hadd.
  pose proof (add_subscription_closure _ _ _ _ _ _ _ Hadd) as Eq; subst qs.
  pose proof (add_subscription_trie _ _ _ _ _ _ _ _ Hadd) as Eb; subst b'.
  rewrite clients_at_remove_all by now apply wf_fold_add.
  rewrite clients_at_fold_add. tauto.
Qed.

(** the code as it is: a subscription list with a single entry is removed correctly *)
Lemma add_subscription_closure_single f2 f3 b c pre e b' qs :
  add_subscription_gen f2 f3 b c pre [e] = Some (b', qs) -> qs = sub_queries f2 pre [e].
Proof.
  destruct f3; [apply add_subscription_closure|].
  unfold add_subscription_gen.
  destruct (List.length (to_strings true pre) <=? slice_cap)%nat eqn:E; [|discriminate].
  apply Nat.leb_le in E. intros H. inversion H; subst; clear H.
  assert (Hinv : sub_inv (to_strings true pre) (SubAcc b (pad (to_strings true pre)) [])).
  { destruct (pad_inv _ E) as [H1 H2]. split; assumption. }
  cbn [fold_left].
  destruct (sub_entry_spec f2 c pre _ e E Hinv) as (_ & _ & Hs).
  unfold sub_queries. cbn [flat_map]. rewrite app_nil_r.
  destruct (entry_path f2 e) as [p|].
  - destruct Hs as (s & Hr & Hv). rewrite Hr. cbn [sa_refs app map]. now rewrite Hv.
  - rewrite Hs. reflexivity.
Qed.

Lemma subscription_removed_single f2 f3 b c pre e b' qs q' c' :
  wf b ->
  add_subscription_gen f2 f3 b c pre [e] = Some (b', qs) ->
  (In c' (clients_at (remove_all qs c b') q') <->
   In c' (clients_at b q') /\ ~ (c' = c /\ In q' (sub_queries f2 pre [e]))).
Proof.
  intros Hwf Hadd.
  pose proof (add_subscription_closure_single _ _ _ _ _ _ _ _ Hadd) as Eq; subst qs.
  pose proof (add_subscription_trie _ _ _ _ _ _ _ _ Hadd) as Eb; subst b'.
  rewrite clients_at_remove_all by now apply wf_fold_add.
  rewrite clients_at_fold_add. tauto.
Qed.

(** * Regression refutations: the three clauses were false of the code before
      commits 0aa714c / 601ff89 / 434b003 (the [_gen] functions with the flags
      [false]); witnesses corpus/C06/fixed_*.json *)

Definition w_dev := "dev1".
Definition w_pre : gpath := gp_prefix w_dev "" [].

Lemma at_most_once_refuted :
  exists h prefix paths c,
    (2 <= count_occ Nat.eq_dec (update_notification_gen false (run_hist h) prefix paths) c)%nat.
Proof.
  exists [HAdd [w_dev; "a"] 3%nat; HAdd [w_dev; "a"; "b"] 3%nat; HAdd [w_dev; "*"] 3%nat],
         [w_dev], [["a"; "b"]], 3%nat.
  vm_compute. lia.
Qed.

Lemma query_implies_stream_refuted :
  exists c pre ents b' qs e fp t' ip,
    add_subscription_gen false false empty_branch c pre ents = Some (b', qs) /\
    In e ents /\ complete_path pre (gp_of_opt e) = Ok fp /\
    gp_target pre = t' /\ qmatch fp ip = true /\
    ~ In c (visit b' (t' :: ip)).
Proof.
  exists 3%nat, w_pre, [None], empty_branch, [], None, [], w_dev, ["a"].
  repeat split; try reflexivity; [left; reflexivity|]. vm_compute. tauto.
Qed.

Lemma unsubscribe_refuted :
  exists c pre ents b' qs p,
    add_subscription_gen false false empty_branch c pre ents = Some (b', qs) /\
    In c (match_update (remove_all qs c b') p).
Proof.
  eexists 3%nat, w_pre, [Some (gp_of_names ["a"]); Some (gp_of_names ["b"])], _, _, [w_dev; "a"].
  split; [vm_compute; reflexivity|]. vm_compute. auto.
Qed.

(** * Non-vacuity: concrete instances of the hypotheses *)

Example ex_history : list hop :=
  [HAdd [w_dev; "a"; "*"] 1%nat; HAdd [w_dev; "a"] 2%nat; HAdd ["*"; "a"; "b"] 1%nat;
   HRem [w_dev; "a"] 2%nat; HAdd [w_dev] 2%nat].

Definition tally_sorted (l : list cid) : list cid := isort Nat.leb l.

Example ex_offered :
  tally_sorted (match_update (run_hist ex_history) [w_dev; "a"; "b"]) = [1%nat; 1%nat; 2%nat]
  /\ In ([w_dev; "a"; "*"], 1%nat) (regs ex_history)
  /\ compat [w_dev; "a"; "*"] [w_dev; "a"; "b"] = true.
Proof. repeat split; vm_compute; auto. Qed.

(** * The statements of Props/C06.v that are instances of the lemmas above *)

Lemma query_implies_stream_partial b c pre ents b' qs p fp t' ip :
  wf b ->
  add_subscription b c pre ents = Some (b', qs) ->
  In (Some p) ents ->
  complete_path pre p = Ok fp ->
  gp_target pre <> "" ->
  (gp_target pre = t' \/ gp_target pre = "*" \/ t' = "*") ->
  qmatch fp ip = true ->
  In c (visit b' (t' :: ip)).
Proof.
  intros Hwf Hadd Hin. eapply query_implies_stream_gen; eauto.
Qed.

Lemma query_implies_stream_patched f3 b c pre ents b' qs e fp t' ip :
  wf b ->
  add_subscription_gen true f3 b c pre ents = Some (b', qs) ->
  In e ents ->
  complete_path pre (gp_of_opt e) = Ok fp ->
  gp_target pre <> "" ->
  (gp_target pre = t' \/ gp_target pre = "*" \/ t' = "*") ->
  qmatch fp ip = true ->
  In c (visit b' (t' :: ip)).
Proof.
  intros Hwf Hadd Hin. eapply query_implies_stream_gen; eauto. destruct e; reflexivity.
Qed.

Lemma at_most_once_partial b prefix paths c :
  (2 <= List.length paths)%nat ->
  (count_occ Nat.eq_dec (update_notification b prefix paths) c <= 1)%nat.
Proof. intros H. apply at_most_once_gen. now right. Qed.

Lemma at_most_once_patched b prefix paths c :
  (count_occ Nat.eq_dec (update_notification_gen true b prefix paths) c <= 1)%nat.
Proof. apply at_most_once_gen. now left. Qed.

Lemma remove_idempotent_hist h q c :
  remove_root q c (remove_root q c (run_hist h)) = remove_root q c (run_hist h).
Proof. apply remove_root_idem, wf_hist. Qed.

Lemma subscribe_registers b c pre ents b' qs q' c' :
  add_subscription b c pre ents = Some (b', qs) ->
  (In c' (clients_at b' q') <->
   In c' (clients_at b q') \/ (c' = c /\ In q' (sub_queries fixed_C06_2 pre ents))).
Proof.
  intros Hadd. rewrite (add_subscription_trie _ _ _ _ _ _ _ _ Hadd). apply clients_at_fold_add.
Qed.

Lemma unsubscribe_partial b c pre e b' qs q' c' :
  wf b ->
  add_subscription b c pre [e] = Some (b', qs) ->
  (In c' (clients_at (remove_all qs c b') q') <->
   In c' (clients_at b q') /\ ~ (c' = c /\ In q' (sub_queries fixed_C06_2 pre [e]))).
Proof. apply subscription_removed_single. Qed.

(** * Soundness of the executable specification K_P (MatchCheck.judge)

    When [judge] raises nothing for a client on a notification, the clauses of
    the property hold of the implementation's observation: the client was
    offered iff one of its live registered paths is compatible with one of the
    notification's paths, at most once, and it was offered if its snapshot
    would have returned one of the leaves. *)
From Gnmi Require Import Match.MatchCheck.

Lemma judge_sound s np ps offers hits c :
  mem c (s_unspec s) = false ->
  judge s true np ps offers hits c = [] ->
  let live := regs_of c ps (s_reg s) in
  let n := count_of c offers in
  (live = [] <-> n = 0%nat) /\ (n <= 1)%nat /\ (mem c hits = true -> n <> 0%nat).
Proof.
  intros Hun. unfold judge. rewrite Hun. cbn zeta.
  set (live := regs_of c ps (s_reg s)). set (gone := regs_of c ps (s_gone s)).
  set (n := count_of c offers).
  intros H. apply app_eq_nil in H as [H1 H]. apply app_eq_nil in H as [H2 H3].
  repeat split.
  - intros E. rewrite E in H1. destruct n; [reflexivity|]. exfalso.
    destruct gone; discriminate.
  - intros E. rewrite E in H1. destruct live; [reflexivity|discriminate].
  - destruct live eqn:El.
    + destruct n; [lia|]. exfalso. destruct gone; discriminate.
    + destruct (2 <=? n)%nat eqn:E2; [discriminate|apply Nat.leb_gt in E2; lia].
  - intros Hh En. rewrite Hh, En in H3. discriminate.
Qed.

(** more non-vacuity instances *)

(** hypotheses of [query_implies_stream_gen] are satisfiable on the code as it is *)
Example ex_query_stream :
  exists b' qs,
    add_subscription empty_branch 3%nat w_pre [Some (gp_of_names ["a"; "*"])] = Some (b', qs) /\
    complete_path w_pre (gp_of_names ["a"; "*"]) = Ok ["a"; "*"] /\
    qmatch ["a"; "*"] ["a"; "b"; "c"] = true /\
    In 3%nat (visit b' [w_dev; "a"; "b"; "c"]).
Proof. eexists _, _. split; [vm_compute; reflexivity|]. repeat split; vm_compute; auto. Qed.

(** two updates, a client with two matching paths: offered once *)
Example ex_at_most_once :
  update_notification
    (run_hist [HAdd [w_dev; "a"] 3%nat; HAdd [w_dev; "*"] 3%nat]) [w_dev] [["a"]; ["a"; "b"]]
  = [3%nat].
Proof. vm_compute. reflexivity. Qed.

(** with the slices copied, the witness of [unsubscribe_refuted] is clean *)
Example ex_unsubscribe_fixed :
  exists b' qs,
    add_subscription_gen false true empty_branch 3%nat w_pre
      [Some (gp_of_names ["a"]); Some (gp_of_names ["b"])] = Some (b', qs) /\
    remove_all qs 3%nat b' = empty_branch.
Proof. eexists _, _. split; vm_compute; reflexivity. Qed.

(** a history after which nothing is registered (hypothesis of [no_leak]) *)
Example ex_no_leak :
  regs [HAdd ["a"; "b"] 1%nat; HAdd ["a"] 2%nat; HRem ["a"; "b"] 1%nat; HRem ["a"] 2%nat] = [].
Proof. vm_compute. reflexivity. Qed.

(** * Lock discipline: the concurrent statements (LTS of MatchModel.v) *)
From Gnmi Require Import Base.Lts.

Lemma nth_error_set_nth_eq {A} n (x y : A) l :
  nth_error l n = Some y -> nth_error (set_nth n x l) n = Some x.
Proof.
  revert n; induction l as [|a l IH]; intros [|n]; cbn; try discriminate; auto.
Qed.

Lemma nth_error_set_nth_neq {A} n m (x : A) l :
  n <> m -> nth_error (set_nth n x l) m = nth_error l m.
Proof.
  revert n m; induction l as [|a l IH]; intros [|n] [|m] H; cbn; try reflexivity; try congruence.
  apply IH. congruence.
Qed.

Definition is_hold (t : thread) : bool :=
  match t with TUpd _ _ (UHold _) => true | _ => false end.

Definition count_hold (thr : list thread) : nat := List.length (filter is_hold thr).

Lemma count_hold_set_nth n x y thr :
  nth_error thr n = Some y ->
  (count_hold (set_nth n x thr) + (if is_hold y then 1 else 0) =
   count_hold thr + (if is_hold x then 1 else 0))%nat.
Proof.
  unfold count_hold. revert n; induction thr as [|a thr IH]; intros [|n]; cbn; try discriminate.
  - intros E; inversion E; subst. destruct (is_hold x), (is_hold y); cbn; lia.
  - intros E. specialize (IH _ E). destruct (is_hold a); cbn; lia.
Qed.

Lemma count_hold_zero thr n t : count_hold thr = 0%nat -> nth_error thr n = Some t -> is_hold t = false.
Proof.
  unfold count_hold. revert n; induction thr as [|a thr IH]; intros [|n]; cbn; try discriminate.
  - intros H E; inversion E; subst. destruct (is_hold t); [discriminate|reflexivity].
  - intros H E. destruct (is_hold a); [discriminate|]. eauto.
Qed.

Lemma deliver_incl vs u c : In c (fst (deliver vs u)) -> In c vs.
Proof.
  destruct u as [s|].
  - destruct (deliver_some vs s) as (_ & _ & _ & Hf & _). intros H. now apply Hf in H.
  - now rewrite deliver_none.
Qed.

(** the invariant of the code as it is *)
Definition cinv (s : cstate) : Prop :=
  wf (cs_trie s) /\
  cs_readers s = count_hold (cs_thr s) /\
  (forall tid p upd l, nth_error (cs_thr s) tid = Some (TUpd p upd (UHold l)) ->
                       incl l (visit (cs_trie s) p)).

Lemma cinv_init t0 thr : wf t0 -> forallb thread_idle thr = true -> cinv (cinit t0 thr).
Proof.
  intros Hwf Hidle. rewrite forallb_forall in Hidle.
  assert (Hno : forall n t, nth_error thr n = Some t -> is_hold t = false).
  { intros n t E. apply nth_error_In in E. apply Hidle in E. destruct t as [? ? []| |]; cbn in *; congruence. }
  split; [exact Hwf|]. split.
  - cbn. unfold count_hold. clear Hidle. induction thr as [|a thr IH]; [reflexivity|]. cbn.
    rewrite (Hno 0%nat a eq_refl). apply IH. intros n t E. apply (Hno (S n) t E).
  - intros tid p upd l E. apply Hno in E. discriminate.
Qed.

Ltac csplit_inv Hs := inversion Hs; subst; clear Hs.

Lemma cinv_step s tid s' : cinv s -> cstep true s tid = Some s' -> cinv s'.
Proof.
  intros (Hwf & Hrd & Hpend) Hs. unfold cstep in Hs.
  destruct (nth_error (cs_thr s) tid) as [th|] eqn:Hth; [|discriminate].
  assert (Hother : forall x tid' p upd l,
             (forall p' u' l', x <> TUpd p' u' (UHold l')) \/
             (exists p' u' l', x = TUpd p' u' (UHold l') /\ incl l' (visit (cs_trie s) p')) ->
             nth_error (set_nth tid x (cs_thr s)) tid' = Some (TUpd p upd (UHold l)) ->
             incl l (visit (cs_trie s) p)).
  { intros x tid' p upd l Hx E. destruct (Nat.eq_dec tid tid') as [<-|Hne].
    - rewrite (nth_error_set_nth_eq _ _ _ _ Hth) in E. inversion E; subst.
      destruct Hx as [Hx|(p' & u' & l' & Ex & Hi)]; [exfalso; eapply Hx; eauto|].
      inversion Ex; subst. exact Hi.
    - rewrite nth_error_set_nth_neq in E by assumption. eapply Hpend; eauto. }
  destruct th as [p upd [|[|c l]|]|q c [| |]|q c [| |]].
  - (* RLock *)
    destruct (cs_writer s); [discriminate|]. csplit_inv Hs. split; [exact Hwf|]. cbn [cs_trie cs_readers cs_thr cs_writer cs_trace]. split.
    + pose proof (count_hold_set_nth tid (TUpd p upd (UHold (fst (deliver (visit (cs_trie s) p) upd))))
                                      _ _ Hth) as H. cbn [is_hold] in H. lia.
    + intros tid' p' upd' l' E. eapply Hother; [|exact E]. right. do 3 eexists. split; [reflexivity|].
      intros c Hc. eapply deliver_incl; eauto.
  - (* RUnlock *)
    csplit_inv Hs. split; [exact Hwf|]. cbn [cs_trie cs_readers cs_thr cs_writer cs_trace]. split.
    + pose proof (count_hold_set_nth tid (TUpd p upd UDone) _ _ Hth) as H. cbn [is_hold] in H. lia.
    + intros tid' p' upd' l' E. eapply Hother; [|exact E]. left. congruence.
  - (* callback *)
    csplit_inv Hs. split; [exact Hwf|]. cbn [cs_trie cs_readers cs_thr cs_writer cs_trace]. split.
    + pose proof (count_hold_set_nth tid (TUpd p upd (UHold l)) _ _ Hth) as H. cbn [is_hold] in H. lia.
    + intros tid' p' upd' l' E. eapply Hother; [|exact E]. right. do 3 eexists. split; [reflexivity|].
      intros x Hx. apply (Hpend _ _ _ _ Hth). now right.
  - discriminate.
  - (* remove: Lock *)
    destruct (cs_writer s || negb (cs_readers s =? 0)%nat) eqn:E; [discriminate|].
    apply orb_false_iff in E as [_ E]. apply negb_false_iff, Nat.eqb_eq in E.
    csplit_inv Hs. split; [now apply wf_remove_root|]. cbn [cs_trie cs_readers cs_thr cs_writer cs_trace]. split.
    + pose proof (count_hold_set_nth tid (TRem q c WHold) _ _ Hth) as H. cbn [is_hold] in H. lia.
    + intros tid' p' upd' l' E'. exfalso. destruct (Nat.eq_dec tid tid') as [<-|Hne].
      * rewrite (nth_error_set_nth_eq _ _ _ _ Hth) in E'. discriminate.
      * rewrite nth_error_set_nth_neq in E' by assumption.
        rewrite E in Hrd. symmetry in Hrd. apply (count_hold_zero _ _ _ Hrd) in E'. discriminate.
  - csplit_inv Hs. split; [exact Hwf|]. cbn [cs_trie cs_readers cs_thr cs_writer cs_trace]. split.
    + pose proof (count_hold_set_nth tid (TRem q c WDone) _ _ Hth) as H. cbn [is_hold] in H. lia.
    + intros tid' p' upd' l' E. eapply Hother; [|exact E]. left. congruence.
  - discriminate.
  - (* add: Lock *)
    destruct (cs_writer s || negb (cs_readers s =? 0)%nat) eqn:E; [discriminate|].
    apply orb_false_iff in E as [_ E]. apply negb_false_iff, Nat.eqb_eq in E.
    csplit_inv Hs. split; [now apply wf_add_query|]. cbn [cs_trie cs_readers cs_thr cs_writer cs_trace]. split.
    + pose proof (count_hold_set_nth tid (TAdd q c WHold) _ _ Hth) as H. cbn [is_hold] in H. lia.
    + intros tid' p' upd' l' E'. exfalso. destruct (Nat.eq_dec tid tid') as [<-|Hne].
      * rewrite (nth_error_set_nth_eq _ _ _ _ Hth) in E'. discriminate.
      * rewrite nth_error_set_nth_neq in E' by assumption.
        rewrite E in Hrd. symmetry in Hrd. apply (count_hold_zero _ _ _ Hrd) in E'. discriminate.
  - csplit_inv Hs. split; [exact Hwf|]. cbn [cs_trie cs_readers cs_thr cs_writer cs_trace]. split.
    + pose proof (count_hold_set_nth tid (TAdd q c WDone) _ _ Hth) as H. cbn [is_hold] in H. lia.
    + intros tid' p' upd' l' E. eapply Hother; [|exact E]. left. congruence.
  - discriminate.
Qed.

Lemma cinv_reachable t0 thr s :
  wf t0 -> forallb thread_idle thr = true ->
  reachable_from (cstep true) (cinit t0 thr) s -> cinv s.
Proof.
  intros Hwf Hidle. apply (invariant (cstep true) cinv); [now apply cinv_init|].
  intros. eapply cinv_step; eauto.
Qed.

(** Every callback is made to a client that is registered, in the trie AS IT
    IS AT THAT MOMENT, on a path compatible with the update -- never on the
    strength of a stale walk. *)
Lemma concurrent_delivery_current t0 thr s tid p upd c l :
  wf t0 -> forallb thread_idle thr = true ->
  reachable_from (cstep true) (cinit t0 thr) s ->
  nth_error (cs_thr s) tid = Some (TUpd p upd (UHold (c :: l))) ->
  exists q, In c (clients_at (cs_trie s) q) /\ compat q p = true.
Proof.
  intros Hwf Hidle Hr Hth. destruct (cinv_reachable _ _ _ Hwf Hidle Hr) as (Hwf' & _ & Hpend).
  apply visit_spec; [assumption|]. apply (Hpend _ _ _ _ Hth). now left.
Qed.

(** While an Update call is handing a notification out (it holds the read
    lock), no removal closure and no AddQuery can enter its critical section,
    hence none can return. *)
Lemma concurrent_remove_blocked t0 thr s u p upd l tid :
  wf t0 -> forallb thread_idle thr = true ->
  reachable_from (cstep true) (cinit t0 thr) s ->
  nth_error (cs_thr s) u = Some (TUpd p upd (UHold l)) ->
  (forall q c, nth_error (cs_thr s) tid = Some (TRem q c WIdle) -> cstep true s tid = None) /\
  (forall q c, nth_error (cs_thr s) tid = Some (TAdd q c WIdle) -> cstep true s tid = None).
Proof.
  intros Hwf Hidle Hr Hu. destruct (cinv_reachable _ _ _ Hwf Hidle Hr) as (_ & Hrd & _).
  assert (Hpos : cs_readers s <> 0%nat).
  { intros E. rewrite E in Hrd. symmetry in Hrd. apply (count_hold_zero _ _ _ Hrd) in Hu. discriminate. }
  apply Nat.eqb_neq in Hpos.
  split; intros q c E; unfold cstep; rewrite E, Hpos; cbn; now rewrite orb_true_r.
Qed.

(** the program of a thread (its call and arguments) never changes *)
Definition prog (t : thread) : thread :=
  match t with
  | TUpd p upd _ => TUpd p upd UIdle
  | TRem q c _ => TRem q c WIdle
  | TAdd q c _ => TAdd q c WIdle
  end.

Lemma map_set_nth {A B} (f : A -> B) n x y l :
  nth_error l n = Some y -> f x = f y -> map f (set_nth n x l) = map f l.
Proof.
  revert n; induction l as [|a l IH]; intros [|n]; cbn; try discriminate.
  - intros E H; inversion E; subst. now rewrite H.
  - intros E H. f_equal. eauto.
Qed.

Lemma cstep_prog lk s tid s' : cstep lk s tid = Some s' -> map prog (cs_thr s') = map prog (cs_thr s).
Proof.
  unfold cstep. destruct (nth_error (cs_thr s) tid) as [th|] eqn:Hth; [|discriminate].
  destruct th as [p upd [|[|c l]|]|q c [| |]|q c [| |]]; try discriminate; intros H;
    repeat match type of H with
           | (if ?b then _ else _) = _ => destruct b; try discriminate
           end;
    inversion H; subst; cbn [cs_thr]; eapply map_set_nth; eauto.
Qed.

(** after the removal closure of (q, c) has taken effect, and as long as no
    AddQuery for the same pair exists, c is not registered at q *)
Definition removed_inv (q : path) (c : cid) (s : cstate) : Prop :=
  forall tid, nth_error (cs_thr s) tid = Some (TRem q c WHold) \/
              nth_error (cs_thr s) tid = Some (TRem q c WDone) ->
              ~ In c (clients_at (cs_trie s) q).

Lemma removed_inv_step q c s tid s' :
  cinv s ->
  (forall st, ~ In (TAdd q c st) (cs_thr s)) ->
  removed_inv q c s -> cstep true s tid = Some s' -> removed_inv q c s'.
Proof.
  intros (Hwf & _ & _) Hnoadd Hinv Hs. unfold cstep in Hs.
  destruct (nth_error (cs_thr s) tid) as [th|] eqn:Hth; [|discriminate].
  assert (Hkeep : forall x, cs_trie s' = cs_trie s -> cs_thr s' = set_nth tid x (cs_thr s) ->
                 (x = TRem q c WHold \/ x = TRem q c WDone ->
                  th = TRem q c WHold \/ th = TRem q c WDone) -> removed_inv q c s').
  { intros x Et Eth Hx tid' Htid'. rewrite Et, Eth in *.
    destruct (Nat.eq_dec tid tid') as [<-|Hne].
    - rewrite (nth_error_set_nth_eq _ _ _ _ Hth) in Htid'.
      apply (Hinv tid). rewrite Hth.
      destruct Htid' as [E|E]; inversion E; subst; destruct Hx as [->| ->]; auto.
    - rewrite nth_error_set_nth_neq in Htid' by assumption. eapply Hinv; eauto. }
  destruct th as [p upd [|[|c0 l]|]|q0 c0 [| |]|q0 c0 [| |]]; try discriminate.
  - destruct (cs_writer s); [discriminate|]. csplit_inv Hs.
    eapply Hkeep; cbn; eauto. intros [E|E]; discriminate.
  - csplit_inv Hs. eapply Hkeep; cbn; eauto. intros [E|E]; discriminate.
  - csplit_inv Hs. eapply Hkeep; cbn; eauto. intros [E|E]; discriminate.
  - destruct (cs_writer s || negb (cs_readers s =? 0)%nat); [discriminate|]. csplit_inv Hs.
    intros tid' Htid'. cbn in *. rewrite clients_at_remove_root by assumption.
    intros [Hin Hne]. destruct (Nat.eq_dec tid tid') as [<-|Hneq].
    + rewrite (nth_error_set_nth_eq _ _ _ _ Hth) in Htid'.
      destruct Htid' as [E|E]; inversion E; subst. apply Hne. auto.
    + rewrite nth_error_set_nth_neq in Htid' by assumption. eapply Hinv; eauto.
  - csplit_inv Hs. eapply Hkeep; cbn; eauto. intros [E|E]; inversion E; subst; auto.
  - destruct (cs_writer s || negb (cs_readers s =? 0)%nat); [discriminate|]. csplit_inv Hs.
    intros tid' Htid'. cbn in *. rewrite clients_at_add_query.
    intros [[Eq Ec]|Hin].
    + subst. apply (Hnoadd WIdle). eapply nth_error_In; eauto.
    + destruct (Nat.eq_dec tid tid') as [<-|Hneq].
      * rewrite (nth_error_set_nth_eq _ _ _ _ Hth) in Htid'. destruct Htid' as [E|E]; discriminate.
      * rewrite nth_error_set_nth_neq in Htid' by assumption. eapply Hinv; eauto.
  - csplit_inv Hs. eapply Hkeep; cbn; eauto. intros [E|E]; discriminate.
Qed.

Lemma no_add_preserved q c lk s tid s' :
  (forall st, ~ In (TAdd q c st) (cs_thr s)) -> cstep lk s tid = Some s' ->
  (forall st, ~ In (TAdd q c st) (cs_thr s')).
Proof.
  intros Hno Hs st Hin. apply cstep_prog in Hs.
  apply (in_map prog) in Hin. rewrite Hs in Hin. apply in_map_iff in Hin as (t & Et & Ht).
  destruct t as [| |q' c' st']; cbn in Et; try discriminate. inversion Et; subst. eapply Hno; eauto.
Qed.

(** For every interleaving of any number of Update / UpdateOnce calls,
    removal closures and AddQuery calls: once the removal closure of (q, c)
    has RETURNED (and nobody registers that pair again), every later callback
    to c is justified by ANOTHER path of c that is registered at that moment
    and compatible with the update. *)
Lemma no_delivery_after_remove_concurrent t0 thr s r q c u p upd l :
  wf t0 -> forallb thread_idle thr = true ->
  (forall st, ~ In (TAdd q c st) thr) ->
  reachable_from (cstep true) (cinit t0 thr) s ->
  nth_error (cs_thr s) r = Some (TRem q c WDone) ->
  nth_error (cs_thr s) u = Some (TUpd p upd (UHold (c :: l))) ->
  exists q', q' <> q /\ In c (clients_at (cs_trie s) q') /\ compat q' p = true.
Proof.
  intros Hwf Hidle Hnoadd Hr Hrem Hu.
  assert (Hboth : cinv s /\ (forall st, ~ In (TAdd q c st) (cs_thr s)) /\ removed_inv q c s).
  { clear Hrem Hu.
    apply (invariant (cstep true)
             (fun s => cinv s /\ (forall st, ~ In (TAdd q c st) (cs_thr s)) /\ removed_inv q c s)
             (cinit t0 thr)); [| |exact Hr].
    - split; [now apply cinv_init|]. split; [exact Hnoadd|].
      intros tid [E|E]; cbn in E; apply nth_error_In in E; rewrite forallb_forall in Hidle;
        apply Hidle in E; discriminate.
    - intros s1 l1 s2 (Hc & Hn & Hri) Hs. split; [eapply cinv_step; eauto|].
      split; [eapply no_add_preserved; eauto|eapply removed_inv_step; eauto]. }
  destruct Hboth as (Hc & _ & Hri).
  destruct (concurrent_delivery_current _ _ _ _ _ _ _ _ Hwf Hidle Hr Hu) as (q' & Hq' & Hcq).
  exists q'. split; [|auto]. intros ->. apply (Hri r); auto.
Qed.

(** The variant that calls the clients after RUnlock violates it: the removal
    closure returns (event 0) and the client is called afterwards (event 1),
    although it is registered nowhere any more.  (corpus: family conc) *)
Lemma concurrent_unlocked_refuted :
  exists t0 thr sch s,
    wf t0 /\ forallb thread_idle thr = true /\
    run (cstep false) (cinit t0 thr) sch = Some s /\
    cs_trace s = [EReturned 1%nat; EDeliver 0%nat 2%nat] /\
    (forall q, ~ In 2%nat (clients_at (cs_trie s) q)).
Proof.
  exists (add_query ["dev"; "a"] 2%nat empty_branch),
         [TUpd ["dev"; "a"; "b"] None UIdle; TRem ["dev"; "a"] 2%nat WIdle],
         [0%nat; 1%nat; 1%nat; 0%nat].
  eexists. split; [apply wf_add_query, wf_empty|]. split; [reflexivity|].
  split; [vm_compute; reflexivity|]. split; [reflexivity|].
  intros q. cbn. destruct q; cbn; tauto.
Qed.

(** the same schedule is not a run of the code as it is: the removal closure
    is not enabled while the read lock is held *)
Example ex_concurrent_locked_blocks :
  run (cstep true) (cinit (add_query ["dev"; "a"] 2%nat empty_branch)
                          [TUpd ["dev"; "a"; "b"] None UIdle; TRem ["dev"; "a"] 2%nat WIdle])
      [0%nat; 1%nat] = None
  /\ exists s, run (cstep true) (cinit (add_query ["dev"; "a"] 2%nat empty_branch)
                          [TUpd ["dev"; "a"; "b"] None UIdle; TRem ["dev"; "a"] 2%nat WIdle])
      [0%nat; 0%nat; 0%nat; 1%nat; 1%nat] = Some s
     /\ cs_trace s = [EDeliver 0%nat 2%nat; EReturned 0%nat; EReturned 1%nat].
Proof. split; [vm_compute; reflexivity|]. eexists. split; vm_compute; reflexivity. Qed.

(** * Registration is atomic w.r.t. other subscribers' removals *)

Lemma nth_set_cases {A} tid (x th y : A) l r :
  nth_error l tid = Some th ->
  nth_error (set_nth tid x l) r = Some y ->
  (r = tid /\ y = x) \/ (r <> tid /\ nth_error l r = Some y).
Proof.
  intros Hth E. destruct (Nat.eq_dec tid r) as [<-|Hne].
  - rewrite (nth_error_set_nth_eq _ _ _ _ Hth) in E. inversion E. auto.
  - rewrite nth_error_set_nth_neq in E by assumption. right. split; [congruence|assumption].
Qed.

Definition add_active (q : path) (c : cid) (thr : list thread) : Prop :=
  exists a, nth_error thr a = Some (TAdd q c WHold) \/ nth_error thr a = Some (TAdd q c WDone).

Definition rem_idle (q : path) (c : cid) (thr : list thread) : Prop :=
  forall r st, nth_error thr r = Some (TRem q c st) -> st = WIdle.

(** once AddQuery(q, c) has taken effect and while no removal closure of that
    pair has started, c is registered at q *)
Definition added_inv (q : path) (c : cid) (s : cstate) : Prop :=
  add_active q c (cs_thr s) -> rem_idle q c (cs_thr s) -> In c (clients_at (cs_trie s) q).

Lemma added_inv_step q c s tid s' :
  cinv s -> added_inv q c s -> cstep true s tid = Some s' -> added_inv q c s'.
Proof.
  intros (Hwf & _ & _) Hinv Hs. unfold cstep in Hs.
  destruct (nth_error (cs_thr s) tid) as [th|] eqn:Hth; [|discriminate].
  (* a step that changes neither the trie nor the state of an Add/Rem thread of (q, c) *)
  assert (Hkeep : forall x,
             cs_trie s' = cs_trie s -> cs_thr s' = set_nth tid x (cs_thr s) ->
             (x = TAdd q c WHold \/ x = TAdd q c WDone -> th = TAdd q c WHold \/ th = TAdd q c WDone) ->
             (forall st, th = TRem q c st -> st <> WIdle -> exists st', x = TRem q c st' /\ st' <> WIdle) ->
             added_inv q c s').
  { intros x Et Eth Hadd Hrem Hact Hidle. rewrite Et. rewrite Eth in Hact, Hidle. apply Hinv.
    - destruct Hact as [a Ha]. destruct Ha as [Ha|Ha];
        destruct (nth_set_cases _ _ _ _ _ _ Hth Ha) as [[-> Ex]|[Hne Ho]].
      + exists tid. rewrite Hth. destruct (Hadd (or_introl (eq_sym Ex))) as [->| ->]; auto.
      + exists a. auto.
      + exists tid. rewrite Hth. destruct (Hadd (or_intror (eq_sym Ex))) as [->| ->]; auto.
      + exists a. auto.
    - intros r st Hr. destruct (Nat.eq_dec r tid) as [->|Hne].
      + rewrite Hth in Hr. inversion Hr; subst. destruct st; [reflexivity| |].
        * destruct (Hrem WHold eq_refl ltac:(discriminate)) as (st' & -> & Hst').
          exfalso. apply Hst'. eapply Hidle. apply (nth_error_set_nth_eq _ _ _ _ Hth).
        * destruct (Hrem WDone eq_refl ltac:(discriminate)) as (st' & -> & Hst').
          exfalso. apply Hst'. eapply Hidle. apply (nth_error_set_nth_eq _ _ _ _ Hth).
      + apply (Hidle r). rewrite nth_error_set_nth_neq by (intros E; apply Hne; now symmetry). exact Hr. }
  destruct th as [p upd [|[|c0 l]|]|q0 c0 [| |]|q0 c0 [| |]]; try discriminate.
  - destruct (cs_writer s); [discriminate|]. csplit_inv Hs.
    eapply Hkeep; cbn; eauto; [intros [E|E]; discriminate|intros st E; discriminate].
  - csplit_inv Hs. eapply Hkeep; cbn; eauto; [intros [E|E]; discriminate|intros st E; discriminate].
  - csplit_inv Hs. eapply Hkeep; cbn; eauto; [intros [E|E]; discriminate|intros st E; discriminate].
  - (* another (or this) pair's removal enters its critical section *)
    destruct (cs_writer s || negb (cs_readers s =? 0)%nat); [discriminate|]. csplit_inv Hs.
    intros Hact Hidle. cbn in *.
    assert (Hneq : ~ (q = q0 /\ c = c0)).
    { intros [-> ->]. specialize (Hidle tid WHold (nth_error_set_nth_eq _ _ _ _ Hth)). discriminate. }
    rewrite clients_at_remove_root by assumption. split; [|exact Hneq].
    apply Hinv.
    + destruct Hact as [a Ha]. exists a.
      destruct Ha as [Ha|Ha]; destruct (nth_set_cases _ _ _ _ _ _ Hth Ha) as [[_ Ex]|[_ Ho]];
        try discriminate; auto.
    + intros r st Hr. destruct (Nat.eq_dec r tid) as [->|Hne].
      * rewrite Hth in Hr. inversion Hr; subst. reflexivity.
      * apply (Hidle r). rewrite nth_error_set_nth_neq by (intros E; apply Hne; now symmetry). exact Hr.
  - csplit_inv Hs. eapply Hkeep; cbn; eauto; [intros [E|E]; discriminate|].
    intros st E Hst. inversion E; subst. exists WDone. split; [reflexivity|discriminate].
  - (* an AddQuery enters its critical section *)
    destruct (cs_writer s || negb (cs_readers s =? 0)%nat); [discriminate|]. csplit_inv Hs.
    intros Hact Hidle. cbn in *. rewrite clients_at_add_query.
    destruct (path_eqb_spec q q0) as [->|Hq]; [destruct (Nat.eq_dec c c0) as [->|Hc]|]; [left; auto| |];
      right; apply Hinv.
    1,3: destruct Hact as [a Ha]; exists a;
      destruct Ha as [Ha|Ha]; destruct (nth_set_cases _ _ _ _ _ _ Hth Ha) as [[_ Ex]|[_ Ho]];
        try (inversion Ex; subst; congruence); auto.
    1,2: intros r st Hr; destruct (Nat.eq_dec r tid) as [->|Hne];
      [rewrite Hth in Hr; discriminate|apply (Hidle r); rewrite nth_error_set_nth_neq by (intros E; apply Hne; now symmetry); exact Hr].
  - csplit_inv Hs. eapply Hkeep; cbn; eauto; [|intros st E; discriminate].
    intros [E|E]; inversion E; subst; auto.
Qed.

(** For every interleaving of Update / UpdateOnce calls, removal closures and
    AddQuery calls of any subscribers: once AddQuery(q, c) has RETURNED, and
    until a removal closure of that pair is called, every Update of a
    compatible path that starts is going to call c (unless its [updated] set
    already holds c) -- whatever other subscribers register or remove on
    shared prefixes meanwhile. *)
Lemma registered_until_removed_concurrent t0 thr s a q c u p upd s' :
  wf t0 -> forallb thread_idle thr = true ->
  reachable_from (cstep true) (cinit t0 thr) s ->
  nth_error (cs_thr s) a = Some (TAdd q c WDone) ->
  rem_idle q c (cs_thr s) ->
  compat q p = true ->
  nth_error (cs_thr s) u = Some (TUpd p upd UIdle) ->
  cstep true s u = Some s' ->
  exists l, nth_error (cs_thr s') u = Some (TUpd p upd (UHold l)) /\
            (In c l \/ exists set, upd = Some set /\ In c set).
Proof.
  intros Hwf Hidle Hr Ha Hrem Hc Hu Hs.
  assert (Hboth : cinv s /\ added_inv q c s).
  { apply (invariant (cstep true) (fun s => cinv s /\ added_inv q c s) (cinit t0 thr)); [| |exact Hr].
    - split; [now apply cinv_init|]. intros [x Hx] _. exfalso. rewrite forallb_forall in Hidle.
      destruct Hx as [Hx|Hx]; apply nth_error_In in Hx; apply Hidle in Hx; discriminate.
    - intros s1 l1 s2 [H1 H2] Hst. split; [eapply cinv_step; eauto|eapply added_inv_step; eauto]. }
  destruct Hboth as ((Hwf' & _ & _) & Hadd).
  assert (Hin : In c (visit (cs_trie s) p)).
  { apply visit_spec; [assumption|]. exists q. split; [|assumption]. apply Hadd; [|assumption].
    exists a. auto. }
  unfold cstep in Hs. rewrite Hu in Hs. destruct (cs_writer s); [discriminate|]. csplit_inv Hs.
  cbn. eexists. split; [apply (nth_error_set_nth_eq _ _ _ _ Hu)|].
  destruct upd as [set|].
  - destruct (in_dec Nat.eq_dec c set) as [Hi|Hni]; [right; eauto|]. left.
    destruct (deliver_some (visit (cs_trie s) p) set) as (_ & _ & _ & Hf & _). apply Hf. auto.
  - left. now rewrite deliver_none.
Qed.

(** The split variant loses a registration: Y is registered at a/b, X's walk
    finds the node a/b, Y's removal prunes it, X attaches below the node it
    found -- and is registered nowhere, although AddQuery returns normally.
    The code as it is registers X in the same situation. *)
Lemma split_add_refuted :
  exists t q c qy cy,
    wf t /\
    let j := prefix_len t q in
    let t1 := remove_root qy cy t in
    (forall q', ~ In c (clients_at (split_add_attach j q c t1) q')) /\
    In c (clients_at (add_query q c t1) q).
Proof.
  exists (add_query ["a"; "b"] 1%nat empty_branch), ["a"; "b"; "c"], 2%nat, ["a"; "b"], 1%nat.
  split; [apply wf_add_query, wf_empty|]. cbn zeta. split.
  - intros q'. vm_compute. destruct q'; tauto.
  - vm_compute. auto.
Qed.

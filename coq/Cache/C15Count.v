(** C15, leafcount_is_tree: for every history, the exported leaf count equals
    the number of leaves stored outside "meta".

    Invariant [lc_inv]: the tree is well formed, holds no leaf at the empty
    path, every stored notification sits on the side of "meta" its own index
    says ([placed]), and [targetLeaves] = number of stored leaves whose path is
    not under "meta". *)
From Gnmi Require Import Base.Prelude CTree.CTreeModel CTree.CTreeProofs CTree.CTreeTheorems
  Path.PathModel Cache.CacheModel Cache.MultiCache Cache.C14Proofs Cache.C15Proofs.
From Coq Require Import Lia Permutation.
Local Open Scope Z_scope.

(** * Counting leaves *)

Definition realp (pv : path * notif) : bool := is_real (fst pv).

Definition rcount (l : list (path * notif)) : Z := Z.of_nat (List.length (filter realp l)).

Definition real_count (tr : tree notif) : Z := rcount (walk tr).

Lemma rcount_perm l l' : Permutation l l' -> rcount l = rcount l'.
Proof.
  unfold rcount. induction 1 as [|x l l' _ IH|x y l|l l' l'' _ IH1 _ IH2]; cbn [filter].
  - reflexivity.
  - destruct (realp x); cbn [List.length]; lia.
  - destruct (realp x), (realp y); cbn [List.length]; lia.
  - lia.
Qed.

Lemma rcount_cons x l : rcount (x :: l) = (if realp x then 1 else 0) + rcount l.
Proof. unfold rcount. cbn [filter]. destruct (realp x); cbn [List.length]; lia. Qed.

Lemma rcount_app a b : rcount (a ++ b) = rcount a + rcount b.
Proof. unfold rcount. rewrite filter_app, app_length. lia. Qed.

Lemma NoDup_of_fst' {A B} (l : list (A * B)) : NoDup (map fst l) -> NoDup l.
Proof.
  induction l as [|[a b] l IH]; cbn; intros H; [constructor|].
  inversion H as [|? ? Hni Hnd]; subst. constructor; [|auto].
  intros Hin. apply Hni. change a with (fst (a, b)). now apply in_map.
Qed.

Lemma walk_nodup (tr : tree notif) : wf_tree tr -> NoDup (walk tr).
Proof. intros H. apply NoDup_of_fst'. now apply walk_once. Qed.

(** a new path *)
Lemma walk_add_new (tr tr' : tree notif) p n :
  wf_tree tr -> lookup tr p = None -> CTreeModel.add tr p n = Some tr' ->
  Permutation (walk tr') ((p, n) :: walk tr).
Proof.
  intros Hwf Hnone Ha. destruct (add_spec tr tr' p n Hwf Ha) as [Hwf' Hl].
  apply NoDup_Permutation.
  - now apply walk_nodup.
  - constructor; [|now apply walk_nodup].
    intros Hin. apply (walk_exact tr _ _ Hwf) in Hin. congruence.
  - intros [q v]. rewrite (walk_exact tr' q v Hwf'), Hl. cbn [In]. rewrite (walk_exact tr q v Hwf).
    destruct (path_eqb_spec q p) as [->|Hne].
    + split; [intros E; inversion E; now left|intros [E|E]; [now inversion E|congruence]].
    + split; [now right|intros [E|E]; [inversion E; subst; congruence|exact E]].
Qed.

(** overwriting a stored leaf *)
Lemma walk_add_over (tr tr' : tree notif) p n old :
  wf_tree tr -> lookup tr p = Some old -> CTreeModel.add tr p n = Some tr' ->
  real_count tr' = real_count tr.
Proof.
  intros Hwf Hold Ha. destruct (add_spec tr tr' p n Hwf Ha) as [Hwf' Hl].
  unfold real_count.
  assert (Hin : In (p, old) (walk tr)) by now apply (walk_exact tr p old Hwf).
  destruct (in_split _ _ Hin) as (l1 & l2 & Hs).
  assert (Hp : Permutation (walk tr') ((p, n) :: l1 ++ l2)).
  { apply NoDup_Permutation.
    - now apply walk_nodup.
    - pose proof (walk_once tr Hwf) as Hnd. rewrite Hs, map_app in Hnd. cbn [map fst] in Hnd.
      apply NoDup_remove in Hnd. destruct Hnd as [Hnd Hni]. rewrite <- map_app in Hnd, Hni.
      constructor; [|now apply NoDup_of_fst'].
      intros Hc. apply Hni. change p with (fst (p, n)). now apply in_map.
    - intros [q v]. rewrite (walk_exact tr' q v Hwf'), Hl. cbn [In].
      destruct (path_eqb_spec q p) as [->|Hne].
      + split; [intros E; inversion E; now left|].
        intros [E|E]; [now inversion E|]. exfalso.
        pose proof (walk_once tr Hwf) as Hnd. rewrite Hs, map_app in Hnd. cbn [map fst] in Hnd.
        apply NoDup_remove_2 in Hnd. apply Hnd. rewrite <- map_app. change p with (fst (p, v)). now apply in_map.
      + rewrite <- (walk_exact tr q v Hwf), Hs. split.
        * intros E. right. apply in_app_or in E. apply in_or_app.
          destruct E as [E|[E|E]]; [now left|inversion E; subst; congruence|now right].
        * intros [E|E]; [inversion E; subst; congruence|].
          apply in_app_or in E. apply in_or_app. destruct E as [E|E]; [now left|right; now right]. }
  rewrite (rcount_perm _ _ Hp), Hs, rcount_cons, !rcount_app, rcount_cons. unfold realp. cbn [fst]. lia.
Qed.

(** deleting *)
Lemma walk_delete (tr : tree notif) q c :
  wf_tree tr ->
  Permutation (walk tr) (walk (fst (delete_cond tr q c)) ++ snd (delete_cond tr q c)).
Proof.
  intros Hwf. destruct (delete_spec tr q c Hwf) as (Hwf' & Hl & Hr & Hnd).
  apply NoDup_Permutation.
  - now apply walk_nodup.
  - apply NoDup_app_intro; [now apply walk_nodup|now apply NoDup_of_fst'|].
    intros [s v] H1 H2. apply (walk_exact _ s v Hwf') in H1. rewrite Hl in H1.
    apply Hr in H2. destruct H2 as (Hs & Hq & Hc). rewrite Hs in H1. unfold sel in H1.
    rewrite Hq, Hc in H1. discriminate.
  - intros [s v]. rewrite (walk_exact tr s v Hwf), in_app_iff, (walk_exact _ s v Hwf'), Hl, Hr.
    unfold sel. destruct (lookup tr s) as [w|]; [|split; [discriminate|intros [H|(H & _)]; discriminate]].
    destruct (qmatch q s && c w) eqn:E.
    + split.
      * intros H; inversion H; subst. right. apply andb_true_iff in E. tauto.
      * intros [H|(H & _)]; [discriminate|exact H].
    + split; [intros H; now left|]. intros [H|(H & Hq & Hc)]; [exact H|].
      inversion H; subst. rewrite Hq, Hc in E. discriminate.
Qed.

(** * The invariant *)

Definition placed (tr : tree notif) : Prop :=
  forall p v, lookup tr p = Some v -> is_real p = negb (stored_under_meta v).

Definition lc_inv (t : target) : Prop :=
  wf_tree (t_tree t) /\ lookup (t_tree t) [] = None /\ placed (t_tree t) /\
  gi (t_meta t) md_leaf_count = real_count (t_tree t).

(** the index path of a notification and its own "under meta" test agree *)
Lemma unit_index_agrees n p :
  unit_index n = Ok p -> is_real p = negb (stored_under_meta n).
Proof.
  unfold unit_index, stored_under_meta, raw_index, join_path, join_prefix_and_path.
  destruct (n_upd n) as [|u us]; [discriminate|].
  destruct (n_atomic n); cbn [gp_of_opt].
  - destruct (to_strings true (gp_of_opt (n_prefix n)) ++ to_strings false empty_gpath) as [|x [|y r]];
      intros H; inversion H; subst; cbn; auto.
  - destruct (to_strings true (gp_of_opt (n_prefix n)) ++ to_strings false (gp_of_opt (u_path u))) as [|x [|y r]];
      intros H; inversion H; subst; cbn; auto.
Qed.

Definition struct_inv (tr : tree notif) : Prop :=
  wf_tree tr /\ lookup tr [] = None /\ placed tr.

(** storing [n] at its own index path [p] *)
Lemma struct_add (tr tr' : tree notif) p n :
  struct_inv tr -> p <> [] -> is_real p = negb (stored_under_meta n) ->
  CTreeModel.add tr p n = Some tr' ->
  struct_inv tr' /\
  real_count tr' = real_count tr +
    match lookup tr p with None => if is_real p then 1 else 0 | Some _ => 0 end.
Proof.
  intros (Hwf & Hnrl & Hpl) Hp Hag Ha. destruct (add_spec tr tr' p n Hwf Ha) as [Hwf' Hl].
  split.
  - split; [exact Hwf'|]. split.
    + rewrite Hl. destruct (path_eqb_spec [] p); [congruence|exact Hnrl].
    + intros q v Hq. rewrite Hl in Hq. destruct (path_eqb_spec q p) as [->|];
        [inversion Hq; subst; exact Hag|eauto].
  - destruct (lookup tr p) as [old|] eqn:E.
    + rewrite (walk_add_over tr tr' p n old Hwf E Ha). lia.
    + unfold real_count. rewrite (rcount_perm _ _ (walk_add_new tr tr' p n Hwf E Ha)), rcount_cons.
      unfold realp. cbn [fst]. lia.
Qed.

Lemma gi_leaf_add_other t k i :
  k <> md_leaf_count -> gi (t_meta (add_int t k i)) md_leaf_count = gi (t_meta t) md_leaf_count.
Proof.
  intros Hk. cbn [t_meta add_int set_meta]. rewrite gi_add_int.
  destruct (String.eqb_spec md_leaf_count k); [congruence|]. rewrite andb_false_r. lia.
Qed.

(** the offset between the counter and the tree *)
Definition off (t : target) : Z := gi (t_meta t) md_leaf_count - real_count (t_tree t).

Lemma get_none_lookup' (tr : tree notif) p : CTreeModel.get tr p = None -> lookup tr p = None.
Proof.
  destruct tr as [n|]; cbn [CTreeModel.get lookup]; [|reflexivity].
  unfold lookup_node. now intros ->.
Qed.

Lemma get_branch_lookup' (tr : tree notif) p cs : CTreeModel.get tr p = Some (Branch cs) -> lookup tr p = None.
Proof.
  destruct tr as [n|]; cbn [CTreeModel.get lookup]; [|discriminate].
  unfold lookup_node. now intros ->.
Qed.

Lemma update_leaf_off t1 now p u n t2 r :
  struct_inv (t_tree t1) -> p <> [] -> is_real p = negb (stored_under_meta n) ->
  update_leaf t1 now p u n = (t2, r) ->
  struct_inv (t_tree t2) /\ off t2 = off t1 /\
  (is_real p = false -> gi (t_meta t2) md_leaf_count = gi (t_meta t1) md_leaf_count).
Proof.
  intros Hs Hp Hag. unfold update_leaf. cbv zeta.
  destruct (CTreeModel.get (t_tree t1) p) as [[old|cs]|] eqn:Hg.
  - pose proof (get_leaf_lookup' _ _ _ Hg) as Hold.
    assert (Hset : struct_inv (tree_set (t_tree t1) p n) /\
                   real_count (tree_set (t_tree t1) p n) = real_count (t_tree t1)).
    { unfold tree_set. destruct (CTreeModel.add (t_tree t1) p n) as [tr'|] eqn:Ha; [|auto].
      destruct (struct_add _ _ _ _ Hs Hp Hag Ha) as [H1 H2]. rewrite Hold in H2. split; [exact H1|lia]. }
    destruct Hset as [Hs2 Hc2].
    destruct (leaf_verdict t1 now old n) as [e|].
    + intros H; inversion H; subst. split; [exact Hs|]. unfold off.
      assert (Hk : (if N.eqb e err_stale then md_stale_count else md_future_count) <> md_leaf_count)
        by (destruct (N.eqb e err_stale); discriminate).
      rewrite (gi_leaf_add_other _ _ _ Hk). cbn [t_tree add_int set_meta]. split; [lia|auto].
    + repeat break_match; intros H; inversion H; subst; unfold off;
        rewrite ?lat_compute_tree, ?lat_compute_meta; cbn [t_tree t_meta set_tree add_int set_meta];
        rewrite ?gi_add_int; cbn [name_in existsb String.eqb Ascii.eqb Bool.eqb andb orb];
        (split; [exact Hs2|split; [rewrite Hc2; cbn; lia|intros; cbn; lia]]).
  - intros H; inversion H; subst. split; [exact Hs|]. split; [reflexivity|auto].
  - destruct (CTreeModel.add (t_tree t1) p n) as [tr'|] eqn:Ha.
    2:{ intros H; inversion H; subst. split; [exact Hs|]. split; [reflexivity|auto]. }
    destruct (struct_add _ _ _ _ Hs Hp Hag Ha) as [H1 H2]. rewrite (get_none_lookup' _ _ Hg) in H2.
    destruct (is_real p) eqn:Er; intros H; inversion H; subst; unfold off;
      rewrite ?lat_compute_tree, ?lat_compute_meta; cbn [t_tree t_meta set_tree add_int set_meta];
      rewrite ?gi_add_int; (split; [exact H1|split; [rewrite H2; cbn; lia|intros; try discriminate; cbn; lia]]).
Qed.

Lemma gnmi_update1_off t now n t' r :
  struct_inv (t_tree t) -> gnmi_update1 t now n = (t', r) ->
  struct_inv (t_tree t') /\ off t' = off t /\
  (forall p, unit_index n = Ok p -> is_real p = false ->
             gi (t_meta t') md_leaf_count = gi (t_meta t) md_leaf_count).
Proof.
  intros Hs. unfold gnmi_update1. destruct (n_upd n) as [|u us] eqn:Eu.
  { intros H; inversion H; subst. auto. }
  destruct (unit_index n) as [p|e|w] eqn:Hi; try (intros H; inversion H; subst; auto; fail).
  destruct (update_pre t p u) as [t1 r1] eqn:Hpre.
  destruct (update_pre_keeps _ _ _ _ _ Hpre) as [Htr _].
  pose proof (update_pre_counters _ _ _ _ _ Hpre) as Hsame.
  assert (Hleaf : gi (t_meta t1) md_leaf_count = gi (t_meta t) md_leaf_count)
    by (apply Hsame; unfold counters; cbn; tauto).
  assert (Hoff1 : off t1 = off t) by (unfold off; rewrite Htr, Hleaf; reflexivity).
  destruct r1 as [[]|e|w]; try (intros H; inversion H; subst; rewrite Htr; auto; fail).
  assert (Hp : p <> []).
  { intros ->. unfold update_pre in Hpre. inversion Hpre. }
  intros H. rewrite <- Htr in Hs.
  destruct (update_leaf_off t1 now p u n t' r Hs Hp (unit_index_agrees n p Hi) H) as (A & B & C).
  split; [exact A|]. split; [lia|]. intros q Hq Hr. inversion Hq; subst. rewrite (C Hr). exact Hleaf.
Qed.

(** gnmiRemove *)
Lemma rcount_removed (tr : tree notif) (l : list (path * notif)) :
  placed tr -> (forall s v, In (s, v) l -> lookup tr s = Some v) ->
  rcount l = counted (map snd l).
Proof.
  intros Hpl. unfold rcount, counted. induction l as [|[s v] l IH]; intros H; [reflexivity|].
  cbn [filter map snd]. unfold realp at 1. cbn [fst].
  rewrite (Hpl s v (H s v (or_introl eq_refl))).
  destruct (negb (stored_under_meta v)); cbn [List.length];
    rewrite ?Nat2Z.inj_succ, (IH (fun s' v' Hin => H s' v' (or_intror Hin))); reflexivity.
Qed.

Lemma struct_delete (tr : tree notif) q c :
  struct_inv tr -> struct_inv (fst (delete_cond tr q c)).
Proof.
  intros (Hwf & Hnrl & Hpl). destruct (delete_spec tr q c Hwf) as (Hwf' & Hl & _).
  split; [exact Hwf'|]. split.
  - rewrite Hl, Hnrl. reflexivity.
  - intros s v Hs. rewrite Hl in Hs. unfold sel in Hs. destruct (lookup tr s) as [w|] eqn:E; [|discriminate].
    destruct (qmatch q s && c w); [discriminate|]. inversion Hs; subst. eauto.
Qed.

Lemma gnmi_remove_off t n d ds t' r :
  n_del n = d :: ds -> no_counter_reset (n_prefix n) d ->
  struct_inv (t_tree t) -> gnmi_remove t n = (t', r) ->
  struct_inv (t_tree t') /\ off t' = off t.
Proof.
  intros Hd Hnc Hs. unfold gnmi_remove. rewrite Hd. unfold no_counter_reset in Hnc.
  destruct (join_path (n_prefix n) (Some d)) as [p|e|w] eqn:Hj;
    try (intros H; inversion H; subst; auto; fail).
  cbv zeta.
  match goal with |- context [t_tree ?x] => set (t1 := x) end.
  assert (H1 : t_tree t1 = t_tree t /\ gi (t_meta t1) md_leaf_count = gi (t_meta t) md_leaf_count).
  { subst t1. repeat break_match; split; try reflexivity.
    cbn [t_meta set_meta]. apply reset_entry_counters; [|unfold counters; cbn; tauto].
    apply Hnc. match goal with H : String.eqb _ md_root = true |- _ => apply String.eqb_eq in H; exact H end. }
  clearbody t1. destruct H1 as [Htr Hlf]. rewrite <- Htr in Hs.
  pose proof (struct_delete (t_tree t1) p (fun v => Z.ltb (n_ts v) (n_ts n)) Hs) as Hs2.
  destruct Hs as (Hwf & Hnrl & Hpl).
  pose proof (walk_delete (t_tree t1) p (fun v => Z.ltb (n_ts v) (n_ts n)) Hwf) as Hperm.
  destruct (delete_spec (t_tree t1) p (fun v => Z.ltb (n_ts v) (n_ts n)) Hwf) as (_ & _ & Hr & _).
  assert (Hcnt : real_count (t_tree t1) =
                 real_count (fst (delete_cond (t_tree t1) p (fun v => Z.ltb (n_ts v) (n_ts n)))) +
                 counted (map snd (snd (delete_cond (t_tree t1) p (fun v => Z.ltb (n_ts v) (n_ts n)))))).
  { unfold real_count at 1. rewrite (rcount_perm _ _ Hperm), rcount_app. f_equal.
    apply (rcount_removed (t_tree t1)); [exact Hpl|]. intros s v Hin. apply Hr in Hin. tauto. }
  destruct (map snd (snd (delete_cond (t_tree t1) p (fun v => Z.ltb (n_ts v) (n_ts n))))) as [|x l] eqn:E.
  - intros H; injection H as Ht Hr'; subst t' r. split; [exact Hs2|].
    unfold off. cbn [t_tree t_meta set_tree]. unfold counted in Hcnt. cbn in Hcnt. rewrite <- Htr. lia.
  - fold (counted (x :: l)). remember (counted (x :: l)) as L eqn:HL.
    intros H; injection H as Ht Hr'; subst t' r. split; [exact Hs2|].
    unfold off. cbn [t_tree t_meta set_tree add_int set_meta]. rewrite !gi_add_int.
    cbn [name_in existsb String.eqb Ascii.eqb Bool.eqb andb orb]. rewrite <- Htr. cbn. lia.
Qed.

(** * Target.GnmiUpdate *)

Definition tinv15 (t : target) : Prop := struct_inv (t_tree t) /\ off t = 0 /\ t_name t <> ""%string.

Lemma off_add_int t k i : k <> md_leaf_count -> off (add_int t k i) = off t.
Proof. intros Hk. unfold off. rewrite (gi_leaf_add_other _ _ _ Hk). reflexivity. Qed.

Lemma off_finish n b t : off (finish_ts n b t) = off t.
Proof.
  unfold off, finish_ts. destruct (tracks_ts n && b); [|reflexivity].
  unfold check_timestamp. destruct (t_ts t) as [z|]; [destruct (Z.ltb z (n_ts n))|]; reflexivity.
Qed.

Definition acc_off (o : Z) (a : acc) : Prop := struct_inv (t_tree (a_t a)) /\ off (a_t a) = o.

Lemma upd_ne_leaf : md_update_count <> md_leaf_count. Proof. discriminate. Qed.

Lemma multi_update_step_off o now n a u : acc_off o a -> acc_off o (multi_update_step now n a u).
Proof.
  intros [Hs Ho]. unfold multi_update_step. destruct (a_panic a); [split; assumption|].
  destruct (gnmi_update1 (a_t a) now (clone_with_update n u)) as [t1 r1] eqn:E.
  destruct (gnmi_update1_off _ _ _ _ _ Hs E) as (A & B & _).
  destruct r1 as [[nd|]|e|w]; unfold acc_off; cbn [a_t]; try (split; [exact A|lia]).
  split; [exact A|]. rewrite (off_add_int _ _ _ upd_ne_leaf). lia.
Qed.

Lemma multi_delete_step_off o n a d :
  no_counter_reset (n_prefix n) d -> acc_off o a -> acc_off o (multi_delete_step n a d).
Proof.
  intros Hnc [Hs Ho]. unfold multi_delete_step. destruct (a_panic a); [split; assumption|]. cbv zeta.
  destruct (gnmi_remove (add_int (a_t a) md_update_count 1) (clone_with_delete n d)) as [t1 r1] eqn:E.
  assert (Hd : n_del (clone_with_delete n d) = d :: []) by reflexivity.
  destruct (gnmi_remove_off (add_int (a_t a) md_update_count 1) _ _ _ _ _ Hd Hnc Hs E) as (A & B).
  rewrite (off_add_int _ _ _ upd_ne_leaf) in B.
  destruct r1 as [rm|e|w]; unfold acc_off; cbn [a_t]; split; try exact A; lia.
Qed.

Lemma fold_updates_off o now n us : forall a, acc_off o a -> acc_off o (fold_left (multi_update_step now n) us a).
Proof. induction us as [|u us IH]; cbn; intros a Ha; [exact Ha|]. apply IH. now apply multi_update_step_off. Qed.

Lemma fold_deletes_off o n ds : forall a,
  Forall (no_counter_reset (n_prefix n)) ds -> acc_off o a -> acc_off o (fold_left (multi_delete_step n) ds a).
Proof.
  induction ds as [|d ds IH]; cbn; intros a Hf Ha; [exact Ha|].
  inversion Hf; subst. apply IH; [assumption|]. now apply multi_delete_step_off.
Qed.

Theorem target_gnmi_update_off t now n t' fd r :
  Forall (no_counter_reset (n_prefix n)) (n_del n) ->
  struct_inv (t_tree t) -> target_gnmi_update t now n = (t', fd, r) ->
  struct_inv (t_tree t') /\ off t' = off t.
Proof.
  intros Hnc Hs. unfold target_gnmi_update.
  assert (Hmulti : forall us ds, Forall (no_counter_reset (n_prefix n)) ds ->
            acc_off (off t) (fold_left (multi_delete_step n) ds
                               (fold_left (multi_update_step now n) us (Acc t [] [] false None)))).
  { intros us ds Hf. apply fold_deletes_off; [exact Hf|]. apply fold_updates_off. split; [exact Hs|reflexivity]. }
  destruct (n_atomic n).
  - destruct (n_del n) as [|d ds]; [|intros H; inversion H; subst; auto].
    destruct (n_upd n) as [|u us].
    { intros H; inversion H; subst. split; [exact Hs|]. apply off_add_int. discriminate. }
    destruct (gnmi_update1 t now n) as [t1 r1] eqn:E.
    destruct (gnmi_update1_off _ _ _ _ _ Hs E) as (A & B & _).
    destruct r1 as [[nd|]|e|w]; intros H; inversion H; subst;
      rewrite ?finish_ts_tree', ?off_finish, ?(off_add_int _ _ _ upd_ne_leaf); auto.
  - destruct (n_upd n) as [|u [|u2 us]] eqn:Eu; destruct (n_del n) as [|d [|d2 ds]] eqn:Ed.
    + intros H; inversion H; subst. split; [exact Hs|]. apply off_add_int. discriminate.
    + destruct (gnmi_remove (add_int t md_update_count 1) n) as [t1 r1] eqn:E.
      inversion Hnc as [|? ? Hd _]; subst.
      destruct (gnmi_remove_off (add_int t md_update_count 1) _ _ _ _ _ Ed Hd Hs E) as (A & B).
      rewrite (off_add_int _ _ _ upd_ne_leaf) in B.
      destruct r1; intros H; inversion H; subst; auto.
    + intros H; injection H as Ht _ _; subst t'. destruct (Hmulti [] (d :: d2 :: ds) Hnc) as [A B].
      rewrite finish_ts_tree', off_finish. auto.
    + destruct (gnmi_update1 t now n) as [t1 r1] eqn:E.
      destruct (gnmi_update1_off _ _ _ _ _ Hs E) as (A & B & _).
      destruct r1 as [[nd|]|e|w]; intros H; inversion H; subst;
        rewrite ?finish_ts_tree', ?off_finish, ?(off_add_int _ _ _ upd_ne_leaf); auto.
    + intros H; injection H as Ht _ _; subst t'. destruct (Hmulti [u] [d] Hnc) as [A B].
      rewrite finish_ts_tree', off_finish. auto.
    + intros H; injection H as Ht _ _; subst t'. destruct (Hmulti [u] (d :: d2 :: ds) Hnc) as [A B].
      rewrite finish_ts_tree', off_finish. auto.
    + intros H; injection H as Ht _ _; subst t'. destruct (Hmulti (u :: u2 :: us) [] Hnc) as [A B].
      rewrite finish_ts_tree', off_finish. auto.
    + intros H; injection H as Ht _ _; subst t'. destruct (Hmulti (u :: u2 :: us) [d] Hnc) as [A B].
      rewrite finish_ts_tree', off_finish. auto.
    + intros H; injection H as Ht _ _; subst t'. destruct (Hmulti (u :: u2 :: us) (d :: d2 :: ds) Hnc) as [A B].
      rewrite finish_ts_tree', off_finish. auto.
Qed.

(** * updateMeta and Reset *)

Definition refresh15 (name : string) (o g : Z) (t : target) : Prop :=
  t_name t = name /\ struct_inv (t_tree t) /\ off t = o /\ gi (t_meta t) md_leaf_count = g.

Lemma generate_meta_updates_off name o g t now :
  name <> ""%string -> refresh15 name o g t ->
  refresh15 name o g (fst (fst (generate_meta_updates t now))).
Proof.
  intros Hne Hinv. unfold generate_meta_updates. cbv zeta.
  assert (Hone : forall k v same st, gst_ok (refresh15 name o g) (fun _ => True) st ->
                   gst_ok (refresh15 name o g) (fun _ => True) (gen_meta_one now k v same st)).
  { intros k v same st Hst. apply gen_meta_one_inv; [|exact Hst].
    intros val t' r t0 (Hnm & Hs & Ho & Hg) _ _ E. split; [|auto].
    destruct (gnmi_update1_off _ _ _ _ _ Hs E) as (A & B & C).
    destruct (gnmi_update1_good (fun _ => True) t0 now (meta_noti (t_name t0) now k val) t' r)
      as (_ & [Hid _] & _); auto.
    { split; [exact (proj1 Hs)|intros ? ? ?; exact I]. }
    split; [congruence|]. split; [exact A|]. split; [lia|].
    rewrite (C [md_root; k]); [exact Hg| |reflexivity].
    apply unit_index_meta_noti. congruence. }
  match goal with |- refresh15 name o g (fst (fst ?x)) =>
    assert (H : gst_ok (refresh15 name o g) (fun _ => True) x) end.
  { repeat (apply fold_gst_ok; [intros; apply Hone; assumption|]). split; [exact Hinv|constructor]. }
  exact (proj1 H).
Qed.

Lemma gi_leaf_set_latest m z : gi (md_set_int m md_latest_ts z) md_leaf_count = gi m md_leaf_count.
Proof. rewrite gi_set_int. reflexivity. Qed.

Lemma update_meta_off name o g t now :
  name <> ""%string -> refresh15 name o g t -> refresh15 name o g (fst (fst (update_meta t now))).
Proof.
  intros Hne (Hnm & Hs & Ho & Hg). unfold update_meta. cbv zeta. apply generate_meta_updates_off; [exact Hne|].
  split; [exact Hnm|]. split; [exact Hs|]. unfold off in *. cbn [t_meta t_tree set_meta set_lat].
  rewrite gi_leaf_set_latest. auto.
Qed.

Lemma real_count_zero (tr : tree notif) :
  wf_tree tr -> (forall p v, lookup tr p = Some v -> is_real p = false) -> real_count tr = 0.
Proof.
  intros Hwf H. unfold real_count, rcount.
  assert (E : filter realp (walk tr) = []).
  { assert (G : forall l, (forall pv, In pv l -> realp pv = false) -> filter realp l = []).
    { induction l as [|x l IH]; intros Hl; [reflexivity|]. cbn. rewrite (Hl x (or_introl eq_refl)).
      apply IH. intros pv Hpv. apply Hl. now right. }
    apply G. intros [p v] Hin. apply (walk_exact tr p v Hwf) in Hin. unfold realp. cbn. eauto. }
  now rewrite E.
Qed.

Lemma fold_delete_struct roots : forall tr,
  struct_inv tr -> struct_inv (fold_left (fun tr r => fst (CTreeModel.delete tr [r])) roots tr).
Proof.
  induction roots as [|r roots IH]; cbn; intros tr Hs; [exact Hs|].
  apply IH. unfold CTreeModel.delete. now apply struct_delete.
Qed.

Theorem target_reset_off t now t' feed :
  t_name t <> ""%string -> struct_inv (t_tree t) ->
  target_reset t now = (t', feed, None) -> tinv15 t'.
Proof.
  intros Hne Hs Hr.
  destruct (reset_clears_leaves t now t' feed (proj1 Hs) Hne Hr) as [Hmeta _].
  revert Hr. unfold target_reset. cbv zeta.
  set (t1 := set_meta (set_ts t None) (md_clear (t_meta t))).
  assert (H1 : refresh15 (t_name t) (off t1) (gi (t_meta t1) md_leaf_count) t1).
  { split; [reflexivity|]. split; [exact Hs|]. split; reflexivity. }
  pose proof (update_meta_off (t_name t) _ _ t1 now Hne H1) as Hu.
  destruct (update_meta t1 now) as [[t2 fd] po]. cbn [fst] in Hu.
  destruct po; [discriminate|]. intros H; inversion H; subst.
  destruct Hu as (Hnm2 & Hs2 & _ & Hg).
  assert (Hs3 := fold_delete_struct
                   (filter (fun r => negb (String.eqb r md_root)) (root_children (t_tree t2))) _ Hs2).
  split; [exact Hs3|]. split; [|cbn [t_name set_tree]; congruence]. unfold off. cbn [t_tree t_meta set_tree].
  rewrite real_count_zero.
  - rewrite Hg. subst t1. cbn [t_meta set_meta set_ts].
    assert (H0 : gi (md_clear (t_meta t)) md_leaf_count = 0).
    { destruct (md_clear_getters (t_meta t) 0) as (_ & _ & G & _).
      rewrite <- (gi_leaf_set_latest (md_clear (t_meta t)) 0). unfold gi.
      unfold reset_counters in G. inversion G as [|? ? _ G1]; inversion G1 as [|? ? _ G2];
        inversion G2 as [|? ? _ G3]; inversion G3 as [|? ? G4 _]; subst. now rewrite G4. }
    lia.
  - exact (proj1 Hs3).
  - intros p v Hl. destruct p as [|p0 rest].
    + destruct Hs3 as (_ & Hn & _). cbn [t_tree set_tree] in *. congruence.
    + cbn [t_tree set_tree] in Hmeta. rewrite (Hmeta p0 rest v Hl). reflexivity.
Qed.

(** * The cache, all histories *)

Definition cinv15 (c : cache) : Prop :=
  cinv c /\ forall name t, assoc name (c_targets c) = Some t -> tinv15 t.

(** calls the statement covers: no delete addressed to the metadata leaf of a
    counter, no target with the empty name *)
Definition admissible (o : mop) : Prop :=
  match o with
  | MUpd _ n => Forall (no_counter_reset (n_prefix n)) (n_del n)
  | MAdd t => t <> ""%string
  | _ => True
  end.

Lemma tinv15_new name cfg : name <> ""%string -> tinv15 (new_target name cfg).
Proof.
  intros Hne. split; [split; [exact I|split; [reflexivity|intros p v H; discriminate]]|].
  split; [|exact Hne]. unfold off. cbn [t_tree new_target]. vm_compute. reflexivity.
Qed.

Lemma no_counter_reset_connect name :
  no_counter_reset (Some (GPath name "" [] [])) (gp_of_names [md_root; md_connect_error]).
Proof.
  unfold no_counter_reset, join_path, join_prefix_and_path, gp_of_opt, to_strings, gp_of_names. cbn.
  unfold nonempty. destruct (String.eqb name ""); cbn; [exact I|].
  intros _. unfold counters. cbn. intros H. repeat (destruct H as [H|H]; [discriminate|]). exact H.
Qed.

Lemma tinv15_on_target t now n t' fd r :
  Forall (no_counter_reset (n_prefix n)) (n_del n) -> tinv15 t ->
  target_gnmi_update t now n = (t', fd, r) -> tinv15 t'.
Proof.
  intros Hnc (Hs & Ho & Hnm) E. destruct (target_gnmi_update_off t now n t' fd r Hnc Hs E) as [A B].
  destruct (target_gnmi_update_good (fun _ => True) t now n t' fd r) as (_ & [Hid _] & _); auto.
  { split; [exact (proj1 Hs)|intros ? ? ?; exact I]. }
  split; [exact A|]. split; [lia|congruence].
Qed.

(** the record of the addressed target after a call *)
Lemma addressed_ok c o t c' r f :
  cinv15 c -> admissible o -> op_addr o = AOne t -> cstep c o = (c', r, f) -> r <> RPanic ->
  forall x, assoc t (c_targets c') = Some x -> tinv15 x.
Proof.
  intros (Hc & Hall) Hadm Ha. destruct o; cbn [op_addr] in Ha; try discriminate; cbn [cstep].
  - (* MUpd *)
    destruct (n_prefix n) as [pr|] eqn:Hpr; [|discriminate]. inversion Ha; subst.
    unfold cache_gnmi_update. rewrite Hpr.
    destruct (assoc (gp_target pr) (c_targets c)) as [t0|] eqn:Ea.
    2:{ intros H _ x Hx; inversion H; subst. congruence. }
    destruct (target_gnmi_update t0 now n) as [[t1 fd] r1] eqn:E.
    intros H _ x Hx; inversion H; subst. cbn [c_targets set_target] in Hx.
    rewrite assoc_aset, String.eqb_refl in Hx. inversion Hx; subst.
    eapply tinv15_on_target; eauto.
  - (* MReset *)
    inversion Ha; subst. unfold cache_reset.
    destruct (assoc t (c_targets c)) as [t0|] eqn:Ea.
    2:{ intros H _ x Hx; inversion H; subst. congruence. }
    destruct (target_reset t0 now) as [[t1 feed] p] eqn:E.
    intros H Hp x Hx; inversion H; subst. cbn [c_targets set_target] in Hx.
    rewrite assoc_aset, String.eqb_refl in Hx. inversion Hx; subst.
    destruct p as [w|]; [exfalso; apply Hp; reflexivity|].
    destruct (Hall _ _ Ea) as (Hs0 & _ & Hn0).
    eapply target_reset_off; [exact Hn0|exact Hs0|exact E].
  - (* MRemove *)
    inversion Ha; subst. intros H _ x Hx. inversion H; subst. cbn [c_targets cache_remove fst] in Hx.
    rewrite assoc_adel in Hx by exact (proj1 Hc). now rewrite String.eqb_refl in Hx.
  - (* MAdd *)
    inversion Ha; subst. intros H _ x Hx. inversion H; subst. cbn [c_targets cache_add] in Hx.
    rewrite assoc_aset, String.eqb_refl in Hx. inversion Hx; subst. apply tinv15_new. exact Hadm.
  - (* MSync *)
    inversion Ha; subst. unfold cache_sync, cache_on_target.
    destruct (assoc t (c_targets c)) as [t0|] eqn:Ea.
    2:{ intros H _ x Hx; inversion H; subst. congruence. }
    destruct (target_gnmi_update t0 now (meta_noti t now md_sync (TBool true))) as [[t1 fd] r1] eqn:E.
    intros H _ x Hx; inversion H; subst. cbn [c_targets set_target] in Hx.
    rewrite assoc_aset, String.eqb_refl in Hx. inversion Hx; subst.
    eapply tinv15_on_target; [|exact (Hall _ _ Ea)|exact E]. constructor.
  - (* MConnect *)
    inversion Ha; subst. unfold cache_connect, cache_on_target.
    destruct (assoc t (c_targets c)) as [t0|] eqn:Ea.
    2:{ intros H _ x Hx; inversion H; subst. congruence. }
    destruct (target_gnmi_update t0 now (meta_noti t now md_connected (TBool true))) as [[t1 f1] r1] eqn:E1.
    assert (H1 : tinv15 t1) by (eapply tinv15_on_target; [|exact (Hall _ _ Ea)|exact E1]; constructor).
    destruct (target_gnmi_update t1 now (delete_noti t "" now [md_root; md_connect_error])) as [[t2 f2] r2] eqn:E2.
    assert (H2 : tinv15 t2).
    { eapply tinv15_on_target; [|exact H1|exact E2]. constructor; [|constructor].
      apply no_counter_reset_connect. }
    destruct r1; intros H _ x Hx; inversion H; subst; cbn [c_targets set_target] in Hx;
      rewrite assoc_aset, String.eqb_refl in Hx; inversion Hx; subst; assumption.
  - (* MConnectError *)
    inversion Ha; subst. unfold cache_connect_error, cache_on_target.
    destruct (assoc t (c_targets c)) as [t0|] eqn:Ea.
    2:{ intros H _ x Hx; inversion H; subst. congruence. }
    destruct (target_gnmi_update t0 now (meta_noti t now md_connect_error (TStr msg))) as [[t1 fd] r1] eqn:E.
    intros H _ x Hx; inversion H; subst. cbn [c_targets set_target] in Hx.
    rewrite assoc_aset, String.eqb_refl in Hx. inversion Hx; subst.
    eapply tinv15_on_target; [|exact (Hall _ _ Ea)|exact E]. constructor.
  - (* MSubWalk with a Remove at the hook point *)
    destruct rm as [y|]; [|discriminate]. inversion Ha; subst.
    destruct (cache_has_target c tgt).
    + intros H _ x Hx. inversion H; subst. cbn [c_targets cache_remove fst] in Hx.
      rewrite assoc_adel in Hx by exact (proj1 Hc). now rewrite String.eqb_refl in Hx.
    + intros H _ x Hx. inversion H; subst. exact (Hall _ _ Hx).
Qed.

Lemma update_metadata_15 c now : cinv15 c -> cinv15 (fst (fst (cache_update_metadata c now))).
Proof.
  intros [Hc Hall]. split; [now apply cache_update_metadata_cinv|].
  unfold cache_update_metadata. generalize (c_targets c) at 1. intros l.
  assert (G : forall (ll : list (string * target)) (st : cache * list notif * option N),
            cinv15 (fst (fst st)) ->
            cinv15 (fst (fst (fold_left (fun st kt =>
               match st with
               | (c', feed, Some w) => st
               | (c', feed, None) =>
                   match assoc (fst kt) (c_targets c') with
                   | None => st
                   | Some t => let '(t', f, p) := update_meta t now in (set_target c' (fst kt) t', feed ++ f, p)
                   end
               end) ll st)))).
  { induction ll as [|kt ll IH]; cbn [fold_left]; intros st Hst; [exact Hst|].
    apply IH. destruct st as [[c0 fd0] [w|]]; [exact Hst|]. cbn [fst] in *.
    destruct (assoc (fst kt) (c_targets c0)) as [t0|] eqn:Ea; [|exact Hst].
    destruct Hst as [Hc0 Hall0].
    destruct (Hall0 _ _ Ea) as (Hs0 & Ho0 & Hn0).
    pose proof (update_meta_inv (fst kt) t0 now (proj2 Hc0 _ _ Ea)) as Hu.
    assert (H15 : refresh15 (t_name t0) 0 (gi (t_meta t0) md_leaf_count) t0)
      by (split; [reflexivity|split; [exact Hs0|split; [exact Ho0|reflexivity]]]).
    pose proof (update_meta_off (t_name t0) _ _ t0 now Hn0 H15) as Hr.
    destruct (update_meta t0 now) as [[t1 f1] p1]. cbn [fst] in *. destruct Hu as [Hi _].
    destruct Hr as (Hnm1 & Hs1 & Ho1 & _).
    split; [now apply cinv_set_target|].
    intros name x. cbn [c_targets set_target]. rewrite assoc_aset.
    destruct (String.eqb_spec name (fst kt)) as [->|Hne]; [|apply Hall0].
    intros Hx; inversion Hx; subst. split; [exact Hs1|]. split; [exact Ho1|congruence]. }
  exact (proj2 (G l (c, [], None) (conj Hc Hall))).
Qed.

Lemma update_size_15 c sizes : cinv15 c -> cinv15 (cache_update_size c sizes).
Proof.
  intros [Hc Hall]. split; [now apply cinv_update_size|].
  intros name x. unfold cache_update_size. cbn [c_targets].
  rewrite (assoc_map_snd (fun kt => target_update_size (snd kt)
             (match assoc (fst kt) sizes with Some z => z | None => 0 end))).
  destruct (assoc name (c_targets c)) as [t0|] eqn:Ea; [|discriminate].
  intros Hx; inversion Hx; subst. destruct (Hall _ _ Ea) as (Hs0 & Ho0 & Hn0).
  split; [exact Hs0|]. split; [|exact Hn0].
  unfold off, target_update_size in *. cbn [t_meta t_tree set_meta snd]. rewrite gi_set_int. exact Ho0.
Qed.

(** one call keeps the invariant *)
Theorem cstep_15 c o :
  cinv15 c -> admissible o -> snd (fst (cstep c o)) <> RPanic -> cinv15 (fst (fst (cstep c o))).
Proof.
  intros H15 Hadm Hp. destruct (cstep c o) as [[c' r] f] eqn:E. cbn [fst snd] in *.
  pose proof (cstep_cinv c o (proj1 H15)) as Hc'. rewrite E in Hc'. cbn [fst] in Hc'.
  destruct (op_addr o) as [t| |] eqn:Ha.
  - split; [exact Hc'|]. intros name x Hx.
    destruct (String.eqb_spec name t) as [->|Hne].
    + exact (addressed_ok c o t c' r f H15 Hadm Ha E Hp x Hx).
    + destruct (cstep_local c o t c' r f (proj1 (proj1 H15)) Ha E) as [Hfr _].
      rewrite (Hfr name Hne) in Hx. exact (proj2 H15 _ _ Hx).
  - destruct o; cbn [op_addr] in Ha; try discriminate; cbn [cstep] in E.
    + destruct (n_prefix n); discriminate.
    + pose proof (update_metadata_15 c now H15) as H.
      destruct (cache_update_metadata c now) as [[c1 l1] p1]. inversion E; subst. exact H.
    + inversion E; subst. now apply update_size_15.
    + destruct rm; discriminate.
  - destruct (isolation_none c o c' r f Ha E) as [-> _]. exact H15.
Qed.

(** histories in which every call is admissible and none panics *)
Fixpoint good_run (c : cache) (ops : list mop) : Prop :=
  match ops with
  | [] => True
  | o :: ops' => admissible o /\ snd (fst (cstep c o)) <> RPanic /\ good_run (fst (fst (cstep c o))) ops'
  end.

Lemma cinv15_new cfg names : ~ In ""%string names -> cinv15 (new_cache cfg names).
Proof.
  intros Hnn. split; [apply cinv_new|]. unfold new_cache.
  assert (G : forall (ns : list string) (l : list (string * target)), ~ In ""%string ns ->
            (forall name t, assoc name l = Some t -> tinv15 t) ->
            forall name t, assoc name (fold_left (fun m k => aset k (new_target k cfg) m) ns l) = Some t ->
                           tinv15 t).
  { induction ns as [|k ns IH]; cbn [fold_left]; intros l Hn Hl; [exact Hl|].
    apply IH; [intros Hin; apply Hn; now right|].
    intros name t. rewrite assoc_aset. destruct (String.eqb_spec name k) as [->|]; [|apply Hl].
    intros Hx; inversion Hx; subst. apply tinv15_new. intros ->. apply Hn. now left. }
  apply (G names []); [exact Hnn|]. intros name t H; discriminate.
Qed.

(** leafcount_is_tree: after every history of admissible, non-panicking calls
    on a cache whose target names are non-empty, for every target the exported
    leaf count equals the number of leaves stored outside "meta" *)
Theorem leafcount_is_tree cfg names ops :
  ~ In ""%string names -> good_run (new_cache cfg names) ops ->
  forall name t, assoc name (c_targets (crun (new_cache cfg names) ops)) = Some t ->
    gi (t_meta t) md_leaf_count = real_count (t_tree t).
Proof.
  intros Hnn Hg.
  assert (G : forall (os : list mop) c, cinv15 c -> good_run c os -> cinv15 (crun c os)).
  { intros os. induction os as [|o os IH]; intros c Hc Hr; [exact Hc|].
    destruct Hr as (Ha & Hp & Hr). unfold crun. cbn [fold_left]. fold (crun (fst (fst (cstep c o))) os).
    apply IH; [now apply cstep_15|exact Hr]. }
  intros name t Hx. destruct (proj2 (G ops _ (cinv15_new cfg names Hnn) Hg) name t Hx) as (_ & Ho & _).
  unfold off in Ho. lia.
Qed.

(** [real_count] is the number of (path, value) pairs [Query [*]] / [walk]
    return whose path is not under "meta" -- the quantity K_P recounts *)
Lemma real_count_spec (tr : tree notif) :
  real_count tr = Z.of_nat (List.length (filter (fun pv => is_real (fst pv)) (walk tr))).
Proof. reflexivity. Qed.

(** Example: a history with ConnectError / Connect, a wildcard delete covering
    "meta", stale and suppressed updates satisfies the hypotheses *)
Definition ex_count_ops : list mop :=
  [MUpd 1 (ex_upd "t" "b" 5 1); MConnectError 2 "t" "boom"; MConnect 3 "t"; MUpdateMeta 3;
   MUpd 4 (Notif 9 (Some (gp_prefix "t" "" [])) None [] [gp_of_names ["*"]] false);
   MUpd 5 (ex_upd "t" "c" 5 1); MReset 6 "t"; MUpd 7 (ex_upd "t" "c" 9 2)].

Example ex_good_run : ~ In ""%string ["t"; "u"] /\ good_run (new_cache ex_cfg ["t"; "u"]) ex_count_ops.
Proof.
  split; [cbn; intros [H|[H|[]]]; discriminate|].
  cbn [good_run ex_count_ops admissible].
  repeat split; try exact I; try (vm_compute; discriminate);
    try (unfold ex_upd; cbn [n_del]; constructor; fail).
  constructor; [|constructor]. unfold no_counter_reset. vm_compute. exact I.
Qed.

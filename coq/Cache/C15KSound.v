(** C15: soundness of the K_P clause latest_is_max (tag 5) on observations (round 7). *)
From Gnmi Require Import Base.Prelude CTree.CTreeModel Path.PathModel Cache.CacheModel
  Cache.MultiCache Cache.C14Proofs Cache.C14Check Cache.C15Check Cache.C15Proofs Cache.C15Latest Cache.C15History.
Local Open Scope Z_scope.

(** * Soundness of the K_P clause latest_is_max (tag 5) on observations

    Independent of the model: what [kt_next] remembers for a target is the
    maximum of the declarative list [obs_tracked] -- the timestamps of the
    notifications addressed to the target since its last Reset / Add / Remove
    that the IMPLEMENTATION accepted (fewer errors than updates; result OK for an
    atomic group) and whose first update is tracked -- and a silent
    [kp_latest_one] means the exported value is that maximum (0 if none). *)

Definition obs_step := (list (string * tobs) * mop * mobs)%type.

Definition obs_hist_step (t : string) (st : obs_step) (acc : list Z) : list Z :=
  let '(prev, o, ob) := st in
  match o with
  | MReset _ x | MAdd x | MRemove _ x => if String.eqb t x then [] else acc
  | MUpd _ n =>
      match n_prefix n with
      | Some pr =>
          if String.eqb t (gp_target pr) &&
             ((match assoc (gp_target pr) prev with Some b => to_has b | None => false end) &&
              accepted_any n (o_res ob) && kp_tracked n)
          then acc ++ [n_ts n] else acc
      | None => acc
      end
  | _ => acc
  end.

Fixpoint obs_tracked (t : string) (steps : list obs_step) (acc : list Z) : list Z :=
  match steps with
  | [] => acc
  | st :: steps' => obs_tracked t steps' (obs_hist_step t st acc)
  end.

Fixpoint kt_run (ks : list (string * kt)) (steps : list obs_step) : list (string * kt) :=
  match steps with
  | [] => ks
  | (prev, o, ob) :: steps' => kt_run (kt_next prev ks o ob) steps'
  end.

Lemma kget_aset ks x v t : kget (aset x v ks) t = if String.eqb t x then v else kget ks t.
Proof. unfold kget. rewrite assoc_aset. destruct (String.eqb t x); reflexivity. Qed.

Lemma meta_del_fold_latest t (feed : list notif) : forall ks,
  k_latest (kget (fold_left (fun ks n =>
               match n_upd n, del_index n with
               | [], Some p =>
                   if is_meta_path p then
                     let k := kget ks (feed_tgt n) in
                     aset (feed_tgt n) (KT (k_meta_del k + 1) (k_latest k) (k_blind k)) ks
                   else ks
               | _, _ => ks
               end) feed ks) t) = k_latest (kget ks t).
Proof.
  induction feed as [|n feed IH]; cbn [fold_left]; intros ks; [reflexivity|].
  rewrite IH. destruct (n_upd n); [|reflexivity]. destruct (del_index n) as [p|]; [|reflexivity].
  destruct (is_meta_path p); [|reflexivity]. cbv zeta. rewrite kget_aset.
  destruct (String.eqb_spec t (feed_tgt n)) as [->|]; reflexivity.
Qed.

Theorem kt_next_latest t prev ks o ob acc :
  k_latest (kget ks t) = zmax_list acc ->
  k_latest (kget (kt_next prev ks o ob) t) = zmax_list (obs_hist_step t (prev, o, ob) acc).
Proof.
  intros H0. unfold kt_next. cbv zeta.
  match goal with |- context [fold_left ?F (o_feed ob) ks] => set (ks1 := fold_left F (o_feed ob) ks) end.
  assert (H1 : k_latest (kget ks1 t) = zmax_list acc).
  { unfold ks1. rewrite meta_del_fold_latest. exact H0. }
  clearbody ks1. unfold obs_hist_step.
  destruct o; try exact H1.
  - (* MUpd *)
    destruct (n_prefix n) as [pr|]; [|exact H1].
    destruct ((match assoc (gp_target pr) prev with Some b => to_has b | None => false end) &&
              accepted_any n (o_res ob) && kp_tracked n) eqn:Ec.
    + rewrite kget_aset. destruct (String.eqb_spec t (gp_target pr)) as [->|Hne]; cbn [andb]; [|exact H1].
      cbn [k_latest]. rewrite H1, zmax_list_snoc. reflexivity.
    + rewrite andb_false_r. exact H1.
  - rewrite kget_aset. destruct (String.eqb t tgt); [reflexivity|exact H1].
  - rewrite kget_aset. destruct (String.eqb t tgt); [reflexivity|exact H1].
  - rewrite kget_aset. destruct (String.eqb t tgt); [reflexivity|exact H1].
Qed.

Theorem kt_run_latest t : forall steps ks acc,
  k_latest (kget ks t) = zmax_list acc ->
  k_latest (kget (kt_run ks steps) t) = zmax_list (obs_tracked t steps acc).
Proof.
  induction steps as [|[[prev o] ob] steps IH]; intros ks acc H; [exact H|].
  cbn [kt_run obs_tracked]. apply IH. now apply kt_next_latest.
Qed.

(** from the start of a case ([check_cache]: no memory) *)
Corollary kp_latest_memory_sound t steps :
  k_latest (kget (kt_run [] steps) t) = zmax_list (obs_tracked t steps []).
Proof. apply kt_run_latest. reflexivity. Qed.

(** a silent clause: the exported value IS that maximum (0 when there is none) *)
Theorem kp_latest_one_sound ks ob t a m :
  kp_latest_one ks ob t = [] ->
  assoc t (o_tgts ob) = Some a -> to_meta a = Some m ->
  geti m md_latest_ts = match k_latest (kget ks t) with Some z => z | None => 0 end.
Proof.
  unfold kp_latest_one. intros H Ha Hm. rewrite Ha, Hm in H. cbv zeta in H.
  destruct (Z.eqb_spec (geti m md_latest_ts) (match k_latest (kget ks t) with Some z => z | None => 0 end))
    as [E|_]; [exact E|].
  destruct (k_blind (kget ks t)); [discriminate|].
  destruct (k_latest (kget ks t)); [discriminate|].
  destruct (Z.eqb (geti m md_latest_ts) zero_time_unixnano); discriminate.
Qed.

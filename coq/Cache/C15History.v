(** C15, history form of latest_is_max (round 7, second part; continues C15Latest.v).

    After every history of calls the latest timestamp of every target is the
    greatest timestamp of the accepted tracked notifications handed to it since
    its last Reset / Add / Remove, and that is what UpdateMetadata exports. *)
From Gnmi Require Import Base.Prelude CTree.CTreeModel Path.PathModel Cache.CacheModel
  Cache.MultiCache Cache.C14Proofs Cache.C14Check Cache.C15Check Cache.C15Proofs Cache.C15Latest.
Local Open Scope Z_scope.

(** updateMeta: the latest timestamp stays, and is what is exported *)
Definition export_latest (t : target) : target :=
  set_lat (set_meta t (md_set_int (t_meta t) md_latest_ts (ts_unixnano (t_ts t)))) [].

Lemma update_meta_unfold t now : update_meta t now = generate_meta_updates (export_latest t) now.
Proof. reflexivity. Qed.

Lemma export_latest_keeps t : keeps (t_ts t) (ts_unixnano (t_ts t)) (export_latest t).
Proof.
  split; [reflexivity|]. unfold gl, export_latest. cbn [t_meta set_meta set_lat]. rewrite gi_set_int. reflexivity.
Qed.

Lemma gl_eq t : gl t = gi (t_meta t) md_latest_ts.
Proof. reflexivity. Qed.

Theorem update_meta_keeps t now :
  keeps (t_ts t) (ts_unixnano (t_ts t)) (fst (fst (update_meta t now))).
Proof.
  rewrite update_meta_unfold. apply generate_meta_updates_keeps. apply export_latest_keeps.
Qed.

Theorem update_meta_exports t now :
  t_ts (fst (fst (update_meta t now))) = t_ts t /\
  gi (t_meta (fst (fst (update_meta t now)))) md_latest_ts = ts_unixnano (t_ts t).
Proof. destruct (update_meta_keeps t now) as [H1 H2]. rewrite gl_eq in H2. split; [exact H1|exact H2]. Qed.

(** Reset: the latest timestamp is forgotten, the sentinel is exported *)
Theorem target_reset_exports t now :
  let t' := fst (fst (target_reset t now)) in
  t_ts t' = None /\ gi (t_meta t') md_latest_ts = zero_time_unixnano.
Proof.
  cbv zeta. unfold target_reset. cbv zeta.
  pose proof (update_meta_exports (set_meta (set_ts t None) (md_clear (t_meta t))) now) as H. cbv zeta in H.
  destruct (update_meta (set_meta (set_ts t None) (md_clear (t_meta t))) now) as [[t2 fd] [w|]];
    cbn [fst snd t_ts t_meta set_tree set_meta set_ts] in *; exact H.
Qed.

(** (for a target named "" the index list of a metadata notification is
    ["meta"; k] and its second element is [k]: Sync / Connect on such a target
    WOULD be tracked -- hence [name <> ""] below, as in leafcount_is_tree) *)
Lemma tracks_meta_noti name now k v : name <> ""%string -> tracks_ts (meta_noti name now k v) = false.
Proof.
  intros Hne.
  unfold tracks_ts, raw_index, meta_noti, to_strings, nonempty.
  cbn [n_upd n_prefix n_atomic u_path gp_of_opt gp_target gp_origin gp_elems gp_element].
  destruct (String.eqb_spec name ""); [contradiction|reflexivity].
Qed.

Lemma tracks_delete_noti name o now p : tracks_ts (delete_noti name o now p) = false.
Proof. reflexivity. Qed.

Lemma untracked_ts t now n t' fd r :
  tracks_ts n = false -> target_gnmi_update t now n = (t', fd, r) -> t_ts t' = t_ts t.
Proof. intros Ht H. rewrite (latest_exact _ _ _ _ _ _ H). unfold latest_next. rewrite Ht. reflexivity. Qed.

(** * Histories *)

(** the timestamps of the accepted tracked notifications handed to [name]
    since its last Reset / Add / Remove, along the run of [ops] from [c] *)
Definition hist_step (name : string) (c : cache) (o : mop) (acc : list Z) : list Z :=
  match o with
  | MUpd now n =>
      match n_prefix n with
      | Some pr =>
          if String.eqb name (gp_target pr) then
            match assoc name (c_targets c) with
            | Some t => if tracks_ts n && accepted t now n then acc ++ [n_ts n] else acc
            | None => acc
            end
          else acc
      | None => acc
      end
  | MReset _ x | MAdd x | MRemove _ x => if String.eqb name x then [] else acc
  | MSubWalk _ T (Some x) => if cache_has_target c T && String.eqb name x then [] else acc
  | _ => acc
  end.

Fixpoint tracked_from (name : string) (c : cache) (ops : list mop) (acc : list Z) : list Z :=
  match ops with
  | [] => acc
  | o :: ops' => tracked_from name (fst (fst (cstep c o))) ops' (hist_step name c o acc)
  end.

Definition tracked_since_reset (name : string) (c : cache) (ops : list mop) : list Z :=
  tracked_from name c ops [].

Lemma zmax_list_snoc l z : zmax_list (l ++ [z]) = zmax_opt (zmax_list l) z.
Proof.
  destruct l as [|x l]; [reflexivity|]. cbn [app zmax_list zmax_opt]. rewrite fold_left_app. reflexivity.
Qed.

Definition linv (name : string) (c : cache) (acc : list Z) : Prop :=
  forall t, assoc name (c_targets c) = Some t -> t_ts t = zmax_list acc.

Lemma on_target_linv name c x f c' gs r acc :
  (name = x -> forall t t' fd r', f t = (t', fd, r') -> t_ts t' = t_ts t) ->
  linv name c acc -> cache_on_target c x f = (c', gs, r) -> linv name c' acc.
Proof.
  intros Hf Hl. unfold cache_on_target. destruct (assoc x (c_targets c)) as [t0|] eqn:Ea.
  - destruct (f t0) as [[t1 fd] r1] eqn:Ef. intros H; inversion H; subst.
    intros t. cbn [c_targets set_target]. rewrite assoc_aset.
    destruct (String.eqb_spec name x) as [->|Hne]; [|apply Hl].
    intros Ht; inversion Ht; subst. rewrite (Hf eq_refl _ _ _ _ Ef). now apply Hl.
  - intros H; inversion H; subst. exact Hl.
Qed.

Lemma update_metadata_linv name now acc : forall (l : list (string * target)) (st : cache * list notif * option N),
  linv name (fst (fst st)) acc ->
  linv name (fst (fst (fold_left (fun st kt =>
    match st with
    | (c', feed, Some w) => st
    | (c', feed, None) =>
        match assoc (fst kt) (c_targets c') with
        | None => st
        | Some t =>
            let '(t', f, p) := update_meta t now in
            (set_target c' (fst kt) t', feed ++ f, p)
        end
    end) l st))) acc.
Proof.
  induction l as [|kt l IH]; cbn [fold_left]; intros st Hl; [exact Hl|].
  apply IH. destruct st as [[c' feed] [w|]]; [exact Hl|]. cbn [fst] in Hl.
  destruct (assoc (fst kt) (c_targets c')) as [t0|] eqn:Ea; [|exact Hl].
  pose proof (update_meta_exports t0 now) as Hu. cbv zeta in Hu.
  destruct (update_meta t0 now) as [[t1 f1] p1]. cbn [fst] in *.
  intros t. cbn [c_targets set_target]. rewrite assoc_aset.
  destruct (String.eqb_spec name (fst kt)) as [->|Hne]; [|apply Hl].
  intros Ht; inversion Ht; subst. rewrite (proj1 Hu). now apply Hl.
Qed.

Lemma remove_linv name c now x :
  NoDup (keys (c_targets c)) ->
  forall acc, linv name c acc ->
  linv name (fst (cache_remove c now x)) (if String.eqb name x then [] else acc).
Proof.
  intros Hnd acc Hl t. unfold cache_remove. cbn [fst c_targets]. rewrite (assoc_adel _ _ _ Hnd).
  destruct (String.eqb name x); [discriminate|apply Hl].
Qed.

(** one call *)
Theorem cstep_linv name c o acc :
  name <> ""%string -> cinv c -> linv name c acc -> linv name (fst (fst (cstep c o))) (hist_step name c o acc).
Proof.
  intros Hnm Hc Hl. destruct o; cbn [cstep hist_step]; try exact Hl.
  - (* MUpd *)
    unfold cache_gnmi_update. destruct (n_prefix n) as [pr|]; [|exact Hl].
    destruct (assoc (gp_target pr) (c_targets c)) as [t0|] eqn:Ea.
    + destruct (target_gnmi_update t0 now n) as [[t1 fd] r1] eqn:E. cbn [fst].
      intros t. cbn [c_targets set_target]. rewrite assoc_aset.
      destruct (String.eqb_spec name (gp_target pr)) as [->|Hne]; [|apply Hl].
      intros Ht; inversion Ht; subst. rewrite Ea, (latest_exact _ _ _ _ _ _ E). unfold latest_next.
      rewrite (Hl _ Ea). destruct (tracks_ts n && accepted t0 now n); [now rewrite zmax_list_snoc|reflexivity].
    + cbn [fst]. destruct (String.eqb_spec name (gp_target pr)) as [->|Hne]; [|exact Hl].
      rewrite Ea. exact Hl.
  - (* MReset *)
    unfold cache_reset. destruct (assoc tgt (c_targets c)) as [t0|] eqn:Ea.
    + pose proof (target_reset_exports t0 now) as Hr. cbv zeta in Hr.
      destruct (target_reset t0 now) as [[t1 fd] p]. cbn [fst] in *.
      intros t. cbn [c_targets set_target]. rewrite assoc_aset.
      destruct (String.eqb_spec name tgt) as [->|Hne]; [|apply Hl].
      intros Ht; inversion Ht; subst. exact (proj1 Hr).
    + cbn [fst]. destruct (String.eqb_spec name tgt) as [->|Hne]; [|exact Hl].
      intros t Ht. rewrite Ea in Ht. discriminate.
  - (* MRemove *)
    pose proof (remove_linv name c now tgt (proj1 Hc) acc Hl) as H.
    destruct (cache_remove c now tgt) as [c1 l]. exact H.
  - (* MAdd *)
    intros t. cbn [fst cache_add c_targets]. rewrite assoc_aset.
    destruct (String.eqb_spec name tgt) as [->|Hne]; [|apply Hl].
    intros Ht; inversion Ht; subst. reflexivity.
  - (* MSync *)
    destruct (cache_sync c now tgt) as [[c1 gs] r1] eqn:E. cbn [fst]. unfold cache_sync in E.
    eapply on_target_linv; [|exact Hl|exact E].
    intros -> t t' fd r'. apply untracked_ts, tracks_meta_noti, Hnm.
  - (* MConnect *)
    destruct (cache_connect c now tgt) as [[c1 gs] r1] eqn:E. cbn [fst]. unfold cache_connect in E.
    eapply on_target_linv; [|exact Hl|exact E].
    intros -> t t' fd r'. cbv beta.
    destruct (target_gnmi_update t now (meta_noti tgt now md_connected (TBool true))) as [[t1 f1] r2] eqn:E1.
    pose proof (untracked_ts _ _ _ _ _ _ (tracks_meta_noti _ _ _ _ Hnm) E1) as H1.
    destruct (target_gnmi_update t1 now (delete_noti tgt "" now [md_root; md_connect_error])) as [[t2 f2] r3] eqn:E2.
    pose proof (untracked_ts _ _ _ _ _ _ (tracks_delete_noti _ _ _ _) E2) as H2.
    destruct r2; intros H; inversion H; subst; congruence.
  - (* MConnectError *)
    destruct (cache_connect_error c now tgt msg) as [[c1 gs] r1] eqn:E. cbn [fst]. unfold cache_connect_error in E.
    eapply on_target_linv; [|exact Hl|exact E].
    intros -> t t' fd r'. apply untracked_ts, tracks_meta_noti, Hnm.
  - (* MUpdateMeta *)
    pose proof (update_metadata_linv name now acc (c_targets c) (c, [], None) Hl) as H.
    unfold cache_update_metadata.
    destruct (fold_left _ (c_targets c) (c, [], None)) as [[c1 l1] p1]. exact H.
  - (* MUpdateSize *)
    intros t. cbn [fst]. unfold cache_update_size. cbn [c_targets].
    rewrite (assoc_map_snd (fun kt => target_update_size (snd kt)
               (match assoc (fst kt) sizes with Some z => z | None => 0 end))).
    destruct (assoc name (c_targets c)) as [t0|] eqn:Ea; [|discriminate].
    intros Ht; inversion Ht; subst. cbn [t_ts target_update_size set_meta snd]. now apply Hl.
  - (* MSubWalk *)
    destruct (cache_has_target c tgt); [|cbn [andb]; destruct rm; exact Hl].
    destruct rm as [x|]; [|exact Hl]. cbn [andb].
    pose proof (remove_linv name c now x (proj1 Hc) acc Hl) as H.
    destruct (cache_remove c now x) as [c1 l]. exact H.
Qed.

Theorem run_linv name : name <> ""%string -> forall ops c acc,
  cinv c -> linv name c acc -> linv name (crun c ops) (tracked_from name c ops acc).
Proof.
  intros Hnm. induction ops as [|o ops IH]; intros c acc Hc Hl; [exact Hl|].
  unfold crun. cbn [fold_left tracked_from]. fold (crun (fst (fst (cstep c o))) ops).
  apply IH; [now apply cstep_cinv|now apply cstep_linv].
Qed.

Lemma linv_new name cfg names : linv name (new_cache cfg names) [].
Proof.
  unfold linv, new_cache.
  assert (G : forall (ns : list string) (l : list (string * target)),
            (forall t, assoc name l = Some t -> t_ts t = None) ->
            forall t, assoc name (fold_left (fun m k => aset k (new_target k cfg) m) ns l) = Some t ->
                      t_ts t = None).
  { induction ns as [|k ns IH]; cbn [fold_left]; intros l Hl0; [exact Hl0|].
    apply IH. intros t. rewrite assoc_aset. destruct (String.eqb name k); [|apply Hl0].
    intros Hx; inversion Hx; subst. reflexivity. }
  apply (G names []). intros t H; discriminate.
Qed.

(** latest_is_max, history form: after every history of calls the latest
    timestamp of every target is the greatest timestamp of the accepted tracked
    notifications handed to it since its last Reset / Add / Remove ([None] =
    time.Time{} when there is none) *)
Theorem latest_history cfg names ops name t :
  name <> ""%string ->
  assoc name (c_targets (crun (new_cache cfg names) ops)) = Some t ->
  t_ts t = zmax_list (tracked_since_reset name (new_cache cfg names) ops).
Proof. intros Hnm. apply (run_linv name Hnm ops _ [] (cinv_new cfg names) (linv_new name cfg names)). Qed.

(** ... and what the next UpdateMetadata exports for that target is that
    maximum, the documented sentinel time.Time{}.UnixNano() when nothing was
    accepted (known finding KF-C15-2; Reset itself exports the sentinel:
    [target_reset_exports]) *)
Theorem latest_history_exported cfg names ops name t now :
  name <> ""%string ->
  assoc name (c_targets (crun (new_cache cfg names) ops)) = Some t ->
  gi (t_meta (fst (fst (update_meta t now)))) md_latest_ts =
  match zmax_list (tracked_since_reset name (new_cache cfg names) ops) with
  | Some z => z
  | None => zero_time_unixnano
  end.
Proof.
  intros Hnm Ht. rewrite (proj2 (update_meta_exports t now)), (latest_history _ _ _ _ _ Hnm Ht). reflexivity.
Qed.

(** [zmax_list] is the maximum: a member, and an upper bound *)
Lemma fold_max_ge l : forall x, x <= fold_left Z.max l x /\ forall y, In y l -> y <= fold_left Z.max l x.
Proof.
  induction l as [|a l IH]; cbn [fold_left]; intros x; [split; [lia|intros y []]|].
  destruct (IH (Z.max x a)) as [H1 H2]. split; [lia|].
  intros y [<-|Hy]; [lia|now apply H2].
Qed.

Lemma fold_max_in l : forall x, fold_left Z.max l x = x \/ In (fold_left Z.max l x) l.
Proof.
  induction l as [|a l IH]; cbn [fold_left]; intros x; [now left|].
  destruct (IH (Z.max x a)) as [H|H]; [|right; now right].
  rewrite H. destruct (Z.max_spec x a) as [[_ ->]|[_ ->]]; [right; now left|now left].
Qed.

Theorem zmax_list_spec l :
  match zmax_list l with
  | None => l = []
  | Some m => In m l /\ forall y, In y l -> y <= m
  end.
Proof.
  destruct l as [|x l]; cbn [zmax_list]; [reflexivity|].
  destruct (fold_max_ge l x) as [H1 H2]. split.
  - destruct (fold_max_in l x) as [H|H]; [left; now rewrite H|now right].
  - intros y [<-|Hy]; [exact H1|now apply H2].
Qed.

(** Example: a history with a single update, a multi notification whose first
    unit is stale (tracked, accepted through its second unit), one whose first
    unit is a metadata leaf (accepted, NOT tracked, although newest), lifecycle
    calls, a refresh, an older accepted update, a delete; then Reset and one
    more update.  Target "u" sees nothing. *)
Definition exh_pfx : option gpath := Some (GPath "t" "" [] []).
Definition exh_u (p : list string) (v : Z) : update := Upd (Some (gp_of_names p)) (Some (TInt v)) 0.
Definition exh_ops1 : list mop :=
  [MUpd 1 (Notif 5 exh_pfx None [exh_u ["a"; "b"] 1] [] false);
   MUpd 2 (Notif 7 exh_pfx None [exh_u ["a"; "b"] 2; exh_u ["a"; "c"] 1] [] false);
   MUpd 3 (Notif 4 exh_pfx None [exh_u ["a"; "b"] 3; exh_u ["a"; "d"] 1] [] false);
   MUpd 4 (Notif 9 exh_pfx None [exh_u ["meta"; "x"] 1; exh_u ["a"; "e"] 1] [] false);
   MSync 5 "t"; MConnectError 6 "t" "boom"; MConnect 7 "t"; MUpdateMeta 8;
   MUpd 9 (Notif 6 exh_pfx None [exh_u ["a"; "f"] 1] [] false);
   MUpd 10 (Notif 20 exh_pfx None [] [gp_of_names ["a"; "f"]] false)].
Definition exh_ops2 : list mop :=
  exh_ops1 ++ [MReset 11 "t"; MUpd 12 (Notif 3 exh_pfx None [exh_u ["a"; "b"] 1] [] false)].
Definition exh_c0 : cache := new_cache (Cfg 0 true []) ["t"; "u"].

Example ex_latest_history :
  tracked_since_reset "t" exh_c0 exh_ops1 = [5; 7; 4; 6] /\
  option_map t_ts (assoc "t" (c_targets (crun exh_c0 exh_ops1))) = Some (Some 7) /\
  tracked_since_reset "t" exh_c0 exh_ops2 = [3] /\
  option_map t_ts (assoc "t" (c_targets (crun exh_c0 exh_ops2))) = Some (Some 3) /\
  tracked_since_reset "u" exh_c0 exh_ops2 = [] /\
  option_map t_ts (assoc "u" (c_targets (crun exh_c0 exh_ops2))) = Some None.
Proof. vm_compute. repeat split; reflexivity. Qed.

(** the hypothesis [name <> ""] is needed: on a target named "" the index list
    of the metadata notification of Sync is ["meta"; "sync"], whose second
    element is not "meta": Sync moves the latest timestamp *)
Theorem latest_history_empty_name_refuted :
  exists cfg names ops t,
    assoc ""%string (c_targets (crun (new_cache cfg names) ops)) = Some t /\
    t_ts t <> zmax_list (tracked_since_reset "" (new_cache cfg names) ops).
Proof.
  exists (Cfg 0 true []), [""%string], [MSync 5 ""%string].
  destruct (assoc ""%string (c_targets (crun (new_cache (Cfg 0 true []) [""%string]) [MSync 5 ""%string])))
    as [t|] eqn:E; vm_compute in E; [|discriminate].
  exists t. split; [reflexivity|]. inversion E; subst. vm_compute. discriminate.
Qed.

(** * K_P (tag 5) follows the code: tracking and acceptance *)

(** K_P's tracked test is the model's, for every notification *)
Theorem kp_tracked_agrees n : kp_tracked n = tracks_ts n.
Proof.
  unfold kp_tracked, first_unit, upd_index, tracks_ts, raw_index, join_prefix_and_path.
  destruct (n_upd n) as [|u us] eqn:E; [rewrite E; reflexivity|].
  cbn [n_upd n_prefix n_atomic u_path].
  destruct (n_atomic n);
    match goal with |- context [match ?l ++ ?r with _ => _ end] => destruct (l ++ r) as [|x [|y l']] end;
    reflexivity.
Qed.

(** gnmiRemove returns no error: every error of a multi notification comes from
    an update unit *)
Lemma gnmi_remove_not_err t n t' e : gnmi_remove t n <> (t', Err e).
Proof.
  intros H. unfold gnmi_remove in H. destruct (n_del n) as [|d ds]; [discriminate|].
  destruct (join_path (n_prefix n) (Some d)) as [p|e'|w] eqn:Ej;
    [|exact (join_path_not_err _ _ _ Ej)|discriminate].
  cbv zeta in H. revert H. repeat break_match; discriminate.
Qed.

Lemma multi_delete_step_errs n a d : a_errs (multi_delete_step n a d) = a_errs a.
Proof.
  unfold multi_delete_step. destruct (a_panic a); [reflexivity|]. cbv zeta.
  destruct (gnmi_remove (add_int (a_t a) md_update_count 1) (clone_with_delete n d)) as [t1 [rm|e|w]] eqn:E;
    try reflexivity.
  exfalso. exact (gnmi_remove_not_err _ _ _ _ E).
Qed.

Lemma fold_delete_errs n ds : forall a, a_errs (fold_left (multi_delete_step n) ds a) = a_errs a.
Proof. induction ds as [|d ds IH]; cbn; intros a; [reflexivity|]. now rewrite IH, multi_delete_step_errs. Qed.

Lemma multi_delete_step_panicked n a d : a_panic a <> None -> multi_delete_step n a d = a.
Proof. unfold multi_delete_step. destruct (a_panic a); [reflexivity|congruence]. Qed.

Lemma fold_delete_panicked n ds : forall a, a_panic a <> None -> fold_left (multi_delete_step n) ds a = a.
Proof. induction ds as [|d ds IH]; cbn; intros a Ha; [reflexivity|]. rewrite multi_delete_step_panicked; auto. Qed.

Lemma multi_update_step_cases now n a u :
  a_panic (multi_update_step now n a u) = None ->
  (exists e, a_errs (multi_update_step now n a u) = a_errs a ++ [e] /\
             a_ok (multi_update_step now n a u) = a_ok a) \/
  (a_errs (multi_update_step now n a u) = a_errs a /\ a_ok (multi_update_step now n a u) = true).
Proof.
  unfold multi_update_step. destruct (a_panic a) eqn:Ep; [intros H; congruence|].
  destruct (gnmi_update1 (a_t a) now (clone_with_update n u)) as [t1 [[nd|]|e|w]];
    cbn [a_panic a_errs a_ok]; intros H; try discriminate.
  - right. split; reflexivity.
  - right. split; reflexivity.
  - left. exists e. split; reflexivity.
Qed.

Lemma fold_update_count now n us : forall a,
  a_panic (fold_left (multi_update_step now n) us a) = None ->
  (List.length (a_errs (fold_left (multi_update_step now n) us a)) <= List.length (a_errs a) + List.length us)%nat /\
  (a_ok (fold_left (multi_update_step now n) us a) = true <->
   a_ok a = true \/
   (List.length (a_errs (fold_left (multi_update_step now n) us a)) < List.length (a_errs a) + List.length us)%nat).
Proof.
  induction us as [|u us IH]; intros a Hp; cbn [fold_left List.length] in *.
  - split; [lia|]. split; [auto|intros [H|H]; [exact H|lia]].
  - assert (Hs : a_panic (multi_update_step now n a u) = None).
    { destruct (a_panic (multi_update_step now n a u)) eqn:E; [|reflexivity].
      rewrite fold_update_panicked in Hp by congruence. congruence. }
    destruct (IH _ Hp) as [Hle Hiff].
    destruct (multi_update_step_cases now n a u Hs) as [(e & He & Ho)|[He Ho]];
      rewrite He in Hle, Hiff; rewrite Ho in Hiff; rewrite ?app_length in Hle, Hiff; cbn [List.length] in Hle, Hiff.
    + split; [lia|]. rewrite Hiff. split; (intros [H|H]; [now left|right; lia]).
    + split; [lia|]. split; [intros _; right; lia|intros _; apply Hiff; now left].
Qed.

(** K_P's acceptance test of a multi notification -- "fewer errors returned
    than updates submitted" -- is exactly the updateTS flag of the code (no
    panic) *)
Theorem multi_accept_is_fewer_errors t now n us ds :
  a_panic (fold_left (multi_delete_step n) ds
             (fold_left (multi_update_step now n) us (Acc t [] [] false None))) = None ->
  (a_ok (fold_left (multi_delete_step n) ds
           (fold_left (multi_update_step now n) us (Acc t [] [] false None))) = true <->
   (List.length (a_errs (fold_left (multi_delete_step n) ds
                          (fold_left (multi_update_step now n) us (Acc t [] [] false None))))
    < List.length us)%nat).
Proof.
  intros Hp. rewrite fold_delete_ok, fold_delete_errs.
  assert (Hp1 : a_panic (fold_left (multi_update_step now n) us (Acc t [] [] false None)) = None).
  { destruct (a_panic (fold_left (multi_update_step now n) us (Acc t [] [] false None))) eqn:E; [|reflexivity].
    rewrite fold_delete_panicked in Hp by congruence. congruence. }
  destruct (fold_update_count now n us _ Hp1) as [_ Hiff]. cbn [a_errs a_ok List.length] in Hiff.
  rewrite Hiff. split; [intros [H|H]; [discriminate|exact H]|intros H; right; exact H].
Qed.

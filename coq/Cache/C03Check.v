(** Executable specification K_P of C03 and its correspondence evaluator.

    The case format, the model step and the comparison of the implementation's
    observations with the model (tag 1) are those of C02Check.v.  The property
    itself is evaluated on the implementation's own observations:

    tag 2: replaying, in order, every notification the callback received so
           far does not reproduce what Query returns after this call
           ([replay_eqv]: same (target, index path) keys; per key the same
           notification, or -- event-driven emulation on -- two non-atomic
           notifications with equal values, the replayed one not newer);
    tag 3: the caller's notification was modified by the call;
    tag 10+k: tag 2 inside known-finding class k (see [known_class]).

    Index paths under "meta" are projected out on both sides by the harness.
    Only the first failure of a case is reported (a diverged replay stays
    diverged).  Definitions only. *)
From Gnmi Require Import Base.Prelude CTree.CTreeModel Path.PathModel Cache.CacheModel Cache.C02Check.
From Gnmi Require Import Cache.SliceHeap.
Local Open Scope Z_scope.

(** * The slice-heap model (SliceHeap.v) evaluated on the case's own inputs

    For every gnmiRemove of the model run, the removed stored notifications are
    laid out in a heap as the harness laid out the caller's objects: ONE
    backing array per shared prefix object ([n_pcap]: id and spare capacity,
    the spare cells zero), an own array for every other prefix and for every
    update path.  [build_deletes to_delete_fixed] -- the code of HEAD over that
    heap -- then yields the path every delete notification carries once ALL of
    them are built, and the arrays afterwards; both are compared with what the
    implementation showed (tag 1): the delete notifications of the chunk, and
    whether any cell of a caller's slice (spare capacity included) changed. *)
Definition go_extra (c n : nat) : nat := n.      (* any growth policy: HEAD never reallocates here *)

Definition find_arr (id : N) (ids : list (N * nat)) : option nat :=
  match find (fun kv => N.eqb (fst kv) id) ids with Some kv => Some (snd kv) | None => None end.

Definition conv_names (l : list string) : list pelem := map (fun e => (e, [])) l.

Definition first_path (d : notif) : gpath :=
  match n_upd d with u :: _ => gp_of_opt (u_path u) | [] => empty_gpath end.

Fixpoint heap_srcs (removed : list notif) (h : @heap pelem) (ids : list (N * nat))
  : @heap pelem * list (dsrc pelem) :=
  match removed with
  | [] => (h, [])
  | d :: rest =>
      let pr := gp_of_opt (n_prefix d) in
      let ph := first_path d in
      let pes := gp_elems pr in
      let lp := List.length pes in
      let '(h1, ids1, ps) :=
        match n_pcap d with
        | Some (id, spare) =>
            match find_arr id ids with
            | Some k => (h, ids, Sl k 0 lp (lp + N.to_nat spare))
            | None => (h ++ [map Some pes ++ repeat None (N.to_nat spare)], (id, List.length h) :: ids,
                       Sl (List.length h) 0 lp (lp + N.to_nat spare))
            end
        | None => (h ++ [map Some pes], ids, Sl (List.length h) 0 lp lp)
        end in
      let les := gp_elems ph in
      let h2 := h1 ++ [map Some les] in
      let ls := Sl (List.length h1) 0 (List.length les) (List.length les) in
      let '(h3, srcs) := heap_srcs rest h2 ids1 in
      (h3, DSrc ps (conv_names (gp_element pr)) ls (conv_names (gp_element ph)) :: srcs)
  end.

(** toDeleteNotification takes the Elem branch for [d] *)
Definition elem_branch (d : notif) : bool :=
  negb (n_atomic d) &&
  match gp_elems (gp_of_opt (n_prefix d)), gp_elems (first_path d) with [], [] => false | _, _ => true end.

Definition cell_elem (c : @cell pelem) : pelem := match c with Some e => e | None => (""%string, []) end.

Definition cell_eqb (a b : @cell pelem) : bool :=
  match a, b with Some x, Some y => pelem_eqb x y | None, None => true | _, _ => false end.

(** the delete notifications of one gnmiRemove through the heap, and whether
    an array that existed before (a caller's) differs afterwards *)
Definition heap_render (removed : list notif) (ts : Z) : list notif * bool :=
  let '(h, srcs) := heap_srcs removed [] [] in
  let '(h', os) := build_deletes (to_delete_fixed go_extra) h srcs in
  (map (fun dp => let '(d, (src, o)) := dp in
                  if elem_branch d
                  then mk_delete d ts (GPath "" "" (map cell_elem (sread h' o)) [])
                  else if n_atomic d
                  then (* to_delete_atomic: the stored prefix slice itself, read at the end *)
                       mk_delete d ts (GPath "" "" (map cell_elem (sread h' (d_pfx src)))
                                             (gp_element (gp_of_opt (n_prefix d))))
                  else mk_delete d ts (del_path d))
       (combine removed (combine srcs os)),
   negb (list_eqb (list_eqb cell_eqb) h (firstn (List.length h) h'))).

Fixpoint heap_feed_matches (gs : list fgroup) (feed : list notif) : bool :=
  match gs with
  | [] => true
  | g :: gs' =>
      match g with
      | FUpd _ => true
      | FDel removed ts => bag_eqb (fst (heap_render removed ts)) (firstn (group_size g) feed)
      end && heap_feed_matches gs' (skipn (group_size g) feed)
  end.

Fixpoint heap_matches (m : mfeed) (feed : list notif) : bool :=
  match m with
  | MGroups gs => heap_feed_matches (flat_map drop_meta_group gs) feed
  | MBag _ => true       (* Reset / Remove build their paths with deleteNoti from strings: no caller slice is read *)
  | MSeq a b => heap_matches a (firstn (mfeed_size a) feed) && heap_matches b (skipn (mfeed_size a) feed)
  end.

(** does the heap model write into a caller's array during this call? *)
Fixpoint heap_mutates (m : mfeed) : bool :=
  match m with
  | MGroups gs => existsb (fun g => match g with
                                    | FUpd _ => false
                                    | FDel removed ts => snd (heap_render removed ts) end) gs
  | MBag _ => false
  | MSeq a b => heap_mutates a || heap_mutates b
  end.

(** * Replay of the change feed *)

Definition rmap := list dump_entry.      (* (target, index path, notification) *)

Definition feed_target (n : notif) : string := gp_target (gp_of_opt (n_prefix n)).

Definition rremove (m : rmap) (keep : dump_entry -> bool) : rmap := filter keep m.

(** what a consumer of the feed does with one notification (as the gNMI client
    and a downstream cache do): the update part sets its leaf -- an atomic
    update replaces whatever is at or below its index path, as one unit --
    THEN every delete of the notification removes what its path matches.  The
    cache only ever hands out notifications with an update part or deletes,
    never both; a consumer cannot know that. *)
Definition feed_apply (m : rmap) (n : notif) : rmap :=
  let tgt := feed_target n in
  let m1 :=
    match n_upd n with
    | _ :: _ =>
        match stored_index n with
        | Ok p =>
            (tgt, p, n) ::
            rremove m (fun e =>
              negb (String.eqb (fst (fst e)) tgt &&
                    (if n_atomic n then is_prefix p (snd (fst e)) else path_eqb p (snd (fst e)))))
        | _ => m
        end
    | [] => m
    end in
  fold_left (fun m' d =>
    match join_prefix_and_path (gp_of_opt (n_prefix n)) d with
    | Ok p => rremove m' (fun e => negb (String.eqb (fst (fst e)) tgt && qmatch p (snd (fst e))))
    | _ => m'
    end) (n_del n) m1.

Definition replay (feed : list notif) : rmap := fold_left feed_apply feed [].

(** * The comparison with the cache *)

Definition first_val (n : notif) : option tv :=
  match n_upd n with u :: _ => u_val u | [] => None end.

(** the replayed notification [r] stands for the cached one [c] *)
Definition approx (ed : bool) (r c : notif) : bool :=
  notif_eqb r c ||
  (ed && negb (n_atomic r) && negb (n_atomic c) &&
   value_equal (first_val r) (first_val c) && Z.leb (n_ts r) (n_ts c)).

Definition entry_approx (ed : bool) (a b : dump_entry) : bool :=
  String.eqb (fst (fst a)) (fst (fst b)) && path_eqb (snd (fst a)) (snd (fst b)) &&
  approx ed (snd a) (snd b).

Definition replay_eqv (ed : bool) (r c : list dump_entry) : bool :=
  list_eqb (entry_approx ed) (sort_dump r) (sort_dump c).

(** * Known-finding classes (narrow, on inputs and observations only)

    classes 1 and 2 were the two defects fixed by /repo 20c4a71 and 4775c12
      (delete notifications aliasing a shared prefix slice; a scalar written
      over an atomic container suppressed): their witnesses are ordinary
      corpus cases now and a recurrence is a plain tag 2;
    class 3 (KF, same root as the index layout finding 7.21): the replay still
      holds a leaf the cache dropped, and an earlier input wrote that leaf
      through an update path carrying an origin under a prefix without one
      (the cache indexes the leaf without that origin but announces its
      deletion under it);
    class 4 (outside the calls the property ranges over): the replay still
      holds a leaf of a target on which Cache.Add was called while it was
      present (added before and not removed since): Add replaces the target by
      an empty one and announces nothing. *)

(** class 5 (KF-C03-5): a notification written through the exported Target
    handle whose prefix names no target is stored in the handle's target (its
    first index element dropped, being taken for the target name) but announced
    to the feed without a target: the replay holds it under the empty target *)
Definition targetless_handle_write (ops : list cop) : bool :=
  existsb (fun o => match o with
                    | OUpdT _ _ n => String.eqb (feed_target n) ""
                    | _ => false end) ops.

(** ... and every later announcement about that leaf (its deletion) carries no
    target either: the replay keeps, under the handle's target, a leaf that an
    earlier target-less handle write wrote and the cache has dropped since *)
Definition targetless_written (ops : list cop) (e : dump_entry) : bool :=
  existsb (fun o =>
    match o with
    | OUpdT _ tgt n =>
        String.eqb (feed_target n) "" && String.eqb tgt (fst (fst e)) &&
        existsb (fun u =>
          match join_prefix_and_path (gp_of_opt (n_prefix n))
                  (if n_atomic n then empty_gpath else gp_of_opt (u_path u)) with
          | Ok p => path_eqb p (snd (fst e))
          | _ => false
          end) (n_upd n)
    | _ => false
    end) ops.

(** targets present after the calls [ops], starting from [names] *)
Definition present_after (names : list string) (ops : list cop) : list string :=
  fold_left (fun l o => match o with
                        | OAdd t => if name_in t l then l else l ++ [t]
                        | ORemove _ t => filter (fun x => negb (String.eqb x t)) l
                        | _ => l end) ops names.

(** the targets on which Add was called while they were present *)
Fixpoint readded (names : list string) (ops : list cop) : list string :=
  match ops with
  | [] => []
  | o :: ops' =>
      match o with
      | OAdd t => (if name_in t names then [t] else []) ++ readded (present_after names [o]) ops'
      | _ => readded (present_after names [o]) ops'
      end
  end.

(** replayed entries whose key the cache does not hold *)
Definition extra_keys (r c : list dump_entry) : list dump_entry :=
  filter (fun a => negb (existsb (fun b => String.eqb (fst (fst a)) (fst (fst b)) &&
                                           path_eqb (snd (fst a)) (snd (fst b))) c)) r.

(** some earlier input wrote the key of [e] through an update path carrying
    an origin under a prefix without one *)
Definition origin_written (ops : list cop) (e : dump_entry) : bool :=
  existsb (fun o =>
    match o with
    | OUpd _ n =>
        String.eqb (feed_target n) (fst (fst e)) &&
        String.eqb (gp_origin (gp_of_opt (n_prefix n))) "" &&
        existsb (fun u =>
          negb (String.eqb (gp_origin (gp_of_opt (u_path u))) "") &&
          match join_prefix_and_path (gp_of_opt (n_prefix n)) (gp_of_opt (u_path u)) with
          | Ok p => path_eqb p (snd (fst e))
          | _ => false
          end) (n_upd n)
    | _ => false
    end) ops.

Definition known_class (cfg : config) (names : list string) (before : list cop) (o : cop) (ob : cobs) (r : rmap) : N :=
  if targetless_handle_write before &&
     (existsb (fun e => String.eqb (fst (fst e)) "") r ||
      existsb (targetless_written before) (extra_keys r (o_dump ob))) then 5%N
  else if existsb (fun e => name_in (fst (fst e)) (readded names before)) (extra_keys r (o_dump ob)) then 4%N
  else if existsb (origin_written before) (extra_keys r (o_dump ob)) then 3%N
  else 0%N.

(** * Verdicts *)

(** K_P over one case: the first step at which the property fails *)
Fixpoint kp_from (cfg : config) (names : list string) (i : nat) (before : list cop) (r : rmap) (l : list (cop * cobs))
  : list (nat * N) :=
  match l with
  | [] => []
  | (o, ob) :: l' =>
      let r' := fold_left feed_apply (o_feed ob) r in
      if o_mutated ob then [(i, 3%N)]
      else if replay_eqv (cfg_event_driven cfg) r' (o_dump ob)
      then kp_from cfg names (S i) (before ++ [o]) r' l'
      else match known_class cfg names (before ++ [o]) o ob r' with
           | 0%N => [(i, 2%N)]
           | k => [(i, (10 + k)%N)]
           end
  end.

(** correspondence (tag 1) exactly as for C02, without C02's specification *)
Fixpoint corr_from (i : nat) (c : cache) (l : list (cop * cobs)) : list (nat * N) :=
  match l with
  | [] => []
  | (o, r) :: l' =>
      let '(c', mr, mf) := mstep c o in
      (if rcls_eqb mr (o_res r) && mfeed_matches mf (o_feed r) && dump_eqb (mdump c') (o_dump r) &&
          heap_matches mf (o_feed r) && (heap_mutates mf || negb (o_mutated r))
       then [] else [(i, 1%N)]) ++ corr_from (S i) c' l'
  end.

Definition check_case (cs : ccase) : list (nat * N) :=
  let '(cfg, names, l) := cs in
  corr_from 0 (new_cache cfg names) l ++ kp_from cfg names 0 [] [] l.

Fixpoint check_all_from (i : nat) (cs : list ccase) : list (nat * nat * N) :=
  match cs with
  | [] => []
  | c :: cs' => map (fun sn => (i, fst sn, snd sn)) (check_case c) ++ check_all_from (S i) cs'
  end.

Definition check_all (cs : list ccase) : list (nat * nat * N) := check_all_from 0 cs.

(** C03: the change feed replays to the cache (proofs).  [replay],
    [feed_apply], [approx] and the executable checker are in C03Check.v.

    Main statement ([feed_replays_target]): for every history of notifications
    delivered to one target, replaying the feed so far reproduces the stored
    leaves: same index paths, and per path the same notification -- or, with
    event-driven emulation, a non-atomic notification with an equal value that
    is not newer.  Hypotheses ([good_unit]) describe the inputs: the
    notification is addressed to this target, the delete notification built
    from it addresses its own index path (no origin carried by the update path,
    no Elem/Element mix: [feed_replays_refuted_origin] shows this matters) and
    index paths contain no "*".  Prefix objects may be shared between
    notifications with spare slice capacity, and atomic containers and scalars
    may alternate on one index path: both used to break the statement (DEFECT
    C03_1, C03_2; [feed_replays_refuted_alias], [feed_replays_refuted_atomic]
    are stated under the switches of CacheModel.v, now off). *)
From Gnmi Require Import Base.Prelude CTree.CTreeModel CTree.CTreeProofs Path.PathModel
  Value.ValueModel Value.ValueProofs
  Cache.CacheModel Cache.CacheProofs Cache.C02Check Cache.C03Check.
Local Open Scope Z_scope.
Local Open Scope list_scope.

(** * Lookup in the replayed map *)

Fixpoint rfind (m : rmap) (tgt : string) (p : path) : option notif :=
  match m with
  | [] => None
  | e :: m' => if String.eqb (fst (fst e)) tgt && path_eqb (snd (fst e)) p then Some (snd e)
               else rfind m' tgt p
  end.

Lemma rfind_filter (keep : string -> path -> bool) m tgt p :
  rfind (filter (fun e => keep (fst (fst e)) (snd (fst e))) m) tgt p =
  if keep tgt p then rfind m tgt p else None.
Proof.
  induction m as [|[[t q] v] m IH]; cbn [filter rfind fst snd].
  - now destruct (keep tgt p).
  - destruct (keep t q) eqn:Hk; cbn [rfind fst snd].
    + destruct (String.eqb_spec t tgt) as [->|]; cbn [andb]; [|exact IH].
      destruct (path_eqb_spec q p) as [->|]; [now rewrite Hk|exact IH].
    + rewrite IH. destruct (String.eqb_spec t tgt) as [->|]; cbn [andb]; [|reflexivity].
      destruct (path_eqb_spec q p) as [->|]; [now rewrite Hk|reflexivity].
Qed.

(** replaying an update *)
Lemma feed_apply_update m n u us p tgt q :
  n_upd n = u :: us -> n_del n = [] -> stored_index n = Ok p ->
  rfind (feed_apply m n) tgt q =
  if String.eqb (feed_target n) tgt && path_eqb p q then Some n
  else if String.eqb tgt (feed_target n) && (if n_atomic n then is_prefix p q else path_eqb p q)
       then None else rfind m tgt q.
Proof.
  intros Hu Hd Hi. unfold feed_apply. cbv zeta. rewrite Hu, Hd, Hi. cbn [fold_left rfind fst snd].
  destruct (String.eqb (feed_target n) tgt && path_eqb p q) eqn:Hk; [reflexivity|].
  unfold rremove.
  pose proof (rfind_filter (fun t s => negb (String.eqb t (feed_target n) &&
              (if n_atomic n then is_prefix p s else path_eqb p s))) m tgt q) as H.
  cbv beta in H. refine (eq_trans H _).
  now destruct (String.eqb tgt (feed_target n) && (if n_atomic n then is_prefix p q else path_eqb p q)).
Qed.

(** replaying a delete notification with one path *)
Lemma feed_apply_delete m n d p tgt q :
  n_upd n = [] -> n_del n = [d] -> join_prefix_and_path (gp_of_opt (n_prefix n)) d = Ok p ->
  rfind (feed_apply m n) tgt q =
  if String.eqb tgt (feed_target n) && qmatch p q then None else rfind m tgt q.
Proof.
  intros Hu Hd Hj. unfold feed_apply. cbv zeta. rewrite Hu, Hd. cbn [fold_left]. rewrite Hj. unfold rremove.
  pose proof (rfind_filter (fun t s => negb (String.eqb t (feed_target n) && qmatch p s)) m tgt q) as H.
  cbv beta in H. refine (eq_trans H _).
  now destruct (String.eqb tgt (feed_target n) && qmatch p q).
Qed.

(** * value.Equal (ValueModel.equal) is a partial equivalence: symmetric
      (ValueProofs.equal_sym) and transitive, for every arm of the oneof and
      arbitrary nesting of leaf-lists *)

Section EqualTrans.
Local Transparent f64_eq f32_eq.

Lemma f64_eq_trans a b c : f64_eq a b = true -> f64_eq b c = true -> f64_eq a c = true.
Proof.
  unfold f64_eq. destruct (f64_is_nan a), (f64_is_nan b), (f64_is_nan c); cbn; try discriminate.
  destruct (f64_is_zero a) eqn:Za, (f64_is_zero b) eqn:Zb, (f64_is_zero c) eqn:Zc; cbn; auto;
    intros H1 H2; apply N.eqb_eq in H1 || idtac; apply N.eqb_eq in H2 || idtac; subst; try congruence;
    try (apply N.eqb_eq; congruence).
Qed.

Lemma f32_eq_trans a b c : f32_eq a b = true -> f32_eq b c = true -> f32_eq a c = true.
Proof.
  unfold f32_eq. destruct (f32_is_nan a), (f32_is_nan b), (f32_is_nan c); cbn; try discriminate.
  destruct (f32_is_zero a) eqn:Za, (f32_is_zero b) eqn:Zb, (f32_is_zero c) eqn:Zc; cbn; auto;
    intros H1 H2; apply N.eqb_eq in H1 || idtac; apply N.eqb_eq in H2 || idtac; subst; try congruence;
    try (apply N.eqb_eq; congruence).
Qed.
Local Opaque f64_eq f32_eq.
Local Arguments Z.eqb : simpl never.
Local Arguments N.eqb : simpl never.

Lemma equal_elems_trans (eq : tv -> tv -> outcome bool) ae : forall be ce,
  Forall (fun x => forall y z, eq x y = Ok true -> eq y z = Ok true -> eq x z = Ok true) ae ->
  List.length ae = List.length be -> List.length be = List.length ce ->
  equal_elems eq ae be = Ok true -> equal_elems eq be ce = Ok true -> equal_elems eq ae ce = Ok true.
Proof.
  induction ae as [|x ae IH]; intros [|y be] [|z ce] Hall L1 L2; cbn in *; try discriminate; auto.
  inversion Hall as [|? ? Hx Hall']; subst.
  destruct (eq x y) as [[|]| |] eqn:E1; try discriminate.
  destruct (eq y z) as [[|]| |] eqn:E2; try discriminate.
  intros H1 H2. rewrite (Hx y z E1 E2). apply (IH be ce); auto.
Qed.

Ltac eqs :=
  repeat match goal with
  | H : Ok ?x = Ok true |- _ => assert (x = true) by (now inversion H); clear H
  | H : andb _ _ = true |- _ => apply andb_true_iff in H as [? ?]
  | H : String.eqb _ _ = true |- _ => apply String.eqb_eq in H
  | H : Z.eqb _ _ = true |- _ => apply Z.eqb_eq in H
  | H : N.eqb _ _ = true |- _ => apply N.eqb_eq in H
  | H : Bool.eqb _ _ = true |- _ => apply Bool.eqb_prop in H
  | H : Nat.eqb _ _ = true |- _ => apply Nat.eqb_eq in H
  end; subst.

Lemma equal_false_trans a : forall b c,
  equal_gen false a b = Ok true -> equal_gen false b c = Ok true -> equal_gen false a c = Ok true.
Proof.
  induction a as [a Hnl|ae IH] using tv_ind'; intros b c.
  - destruct a; try (exfalso; eapply Hnl; reflexivity); destruct b; cbn; try discriminate;
      destruct c; cbn; try discriminate; intros H1 H2; eqs;
      rewrite ?String.eqb_refl, ?Z.eqb_refl, ?N.eqb_refl, ?Bool.eqb_reflx; cbn; try reflexivity;
      try (f_equal; eauto using f64_eq_trans, f32_eq_trans; fail).
    all: try (destruct l; cbn in *; try discriminate; try reflexivity).
    all: try (destruct l0; cbn in *; try discriminate; try reflexivity).
  - cbn. destruct b; cbn; try discriminate.
    + destruct (Nat.eqb (List.length ae) (List.length l)) eqn:E1; cbn; try discriminate.
      apply Nat.eqb_eq in E1. intros H1.
      destruct c; cbn; try discriminate.
      * destruct (Nat.eqb (List.length l) (List.length l0)) eqn:E2; cbn; try discriminate.
        apply Nat.eqb_eq in E2. intros H2.
        assert (E3 : Nat.eqb (List.length ae) (List.length l0) = true) by (apply Nat.eqb_eq; congruence).
        rewrite E3. cbn. apply (equal_elems_trans _ ae l l0); auto.
      * destruct l; cbn; try discriminate. intros _. destruct ae; cbn in *; [reflexivity|discriminate].
    + destruct ae; cbn; try discriminate. intros _.
      destruct c; cbn; try discriminate; auto.
      destruct l; cbn; [reflexivity|discriminate].
Qed.

End EqualTrans.

Lemma value_equal_sym a b : value_equal a b = value_equal b a.
Proof. destruct a as [x|], b as [y|]; cbn; try reflexivity. now rewrite (equal_sym x y). Qed.

Lemma value_equal_trans a b c :
  value_equal a b = true -> value_equal b c = true -> value_equal a c = true.
Proof.
  destruct a as [x|], b as [y|], c as [z|]; cbn; try discriminate.
  unfold equal. change (equal_gen defect_C19_1) with (equal_gen false).
  destruct (equal_gen false x y) as [[|]| |] eqn:E1; try discriminate.
  destruct (equal_gen false y z) as [[|]| |] eqn:E2; try discriminate.
  now rewrite (equal_false_trans x y z E1 E2).
Qed.

Lemma notif_eqb_refl_ts a b : notif_eqb a b = true -> n_ts a = n_ts b.
Proof.
  unfold notif_eqb. rewrite !andb_true_iff. intros ((((H & _) & _) & _) & _). now apply Z.eqb_eq.
Qed.

(** * qmatch on concrete (glob-free) paths *)

(** plain index paths: no element is "*" and none is empty (an empty first
    element would be dropped as an absent origin by the delete Reset announces) *)
Definition glob_free (p : path) : bool := forallb (fun k => negb (is_glob k) && negb (String.eqb k "")) p.

Lemma qmatch_refl q : qmatch q q = true.
Proof.
  induction q as [|k r IH]; [reflexivity|]. cbn [qmatch]. destruct (is_glob k).
  - destruct r; [reflexivity|exact IH].
  - now rewrite String.eqb_refl.
Qed.

Lemma qmatch_glob_free s q : glob_free s = true -> qmatch s q = is_prefix s q.
Proof.
  revert q; induction s as [|k r IH]; intros q Hg; [reflexivity|].
  cbn [glob_free forallb] in Hg. apply andb_true_iff in Hg as [Hk Hr].
  apply andb_true_iff in Hk as [Hk _].
  apply negb_true_iff in Hk. cbn [qmatch is_prefix]. rewrite Hk.
  destruct q as [|a q']; [reflexivity|]. now rewrite (IH q' Hr).
Qed.

(** * unit_index (model) and stored_index (checker) agree *)

Lemma unit_index_stored n p : unit_index n = Ok p <-> stored_index n = Ok p.
Proof.
  unfold unit_index, stored_index, join_path. destruct (n_upd n) as [|u us]; [split; discriminate|].
  destruct (n_atomic n); cbn [gp_of_opt];
    destruct (join_prefix_and_path _ _); split; intros H; inversion H; reflexivity.
Qed.

(** * What gnmiUpdate reports, and what that says about the tree *)

Lemma update_leaf_result t1 now p u us n t2 r :
  wf_tree (t_tree t1) -> n_upd n = u :: us -> update_leaf t1 now p u n = (t2, r) ->
  match r with
  | Ok (Some nd) =>
      nd = n /\ forall q, lookup (t_tree t2) q = if path_eqb q p then Some n else lookup (t_tree t1) q
  | Ok None =>
      (forall q, lookup (t_tree t2) q = if path_eqb q p then Some n else lookup (t_tree t1) q) /\
      exists old, lookup (t_tree t1) p = Some old /\ n_atomic n = false /\
                  value_equal (first_val old) (first_val n) = true /\
                  cfg_event_driven (t_cfg t1) = true /\
                  (defect_c03_2_atomic_suppress = true \/ n_atomic old = false) /\
                  n_ts old <= n_ts n
  | Err e => t_tree t2 = t_tree t1
  | Panic _ => True
  end.
Proof.
  intros Hwf Hu. unfold update_leaf.
  destruct (CTreeModel.get (t_tree t1) p) as [[old|cs]|] eqn:Hg.
  - pose proof (proj1 (get_leaf_lookup _ _ _) Hg) as Hl.
    destruct (leaf_verdict t1 now old n) as [e|] eqn:Hv; [intros E; inversion E; reflexivity|].
    assert (Hts : n_ts old <= n_ts n).
    { unfold leaf_verdict in Hv. destruct (Z.ltb_spec (n_ts n) (n_ts old)); [discriminate|lia]. }
    pose proof (add_over_leaf (t_tree t1) p n old Hg) as Hne.
    unfold tree_set. destruct (CTreeModel.add (t_tree t1) p n) as [tr'|] eqn:Ha; [|congruence].
    destruct (tree_add_spec _ _ _ _ Hwf Ha) as (_ & Hlk).
    destruct (n_atomic n) eqn:Hat.
    + intros E; inversion E; subst. split; [reflexivity|]. now rewrite tree_lat_compute.
    + destruct (n_upd old) as [|uo uos] eqn:Huo; [intros E; inversion E; exact I|].
      destruct ((defect_c03_2_atomic_suppress || negb (n_atomic old)) && value_equal (u_val uo) (u_val u)
                && cfg_event_driven (t_cfg (set_tree t1 tr'))) eqn:Hc; intros E; inversion E; subst.
      * split; [exact Hlk|]. exists old. apply andb_true_iff in Hc as [Hc Hed].
        apply andb_true_iff in Hc as [Hd Hve]. unfold first_val. rewrite Huo, Hu.
        split; [exact Hl|]. split; [reflexivity|]. split; [exact Hve|]. split; [exact Hed|].
        split; [|exact Hts].
        apply orb_true_iff in Hd as [Hd|Hd]; [left; exact Hd|right; now apply negb_true_iff in Hd].
      * split; [reflexivity|]. now rewrite tree_lat_compute.
  - intros E; inversion E; reflexivity.
  - pose proof (get_none_lookup _ _ Hg) as Hl.
    destruct (CTreeModel.add (t_tree t1) p n) as [tr'|] eqn:Ha; intros E; inversion E; subst; [|reflexivity].
    destruct (tree_add_spec _ _ _ _ Hwf Ha) as (_ & Hlk). split; [reflexivity|].
    destruct (is_real p); [now rewrite tree_lat_compute|exact Hlk].
Qed.

Lemma gnmi_update1_result t now n t' r :
  wf_tree (t_tree t) -> gnmi_update1 t now n = (t', r) ->
  wf_tree (t_tree t') /\ frame t t' /\
  match r with
  | Ok o =>
      exists p, unit_index n = Ok p /\ p <> [] /\
        (forall q, lookup (t_tree t') q = if path_eqb q p then Some n else lookup (t_tree t) q) /\
        match o with
        | Some nd => nd = n
        | None =>
            exists old, lookup (t_tree t) p = Some old /\ n_atomic n = false /\
                        value_equal (first_val old) (first_val n) = true /\
                        cfg_event_driven (t_cfg t) = true /\
                        (defect_c03_2_atomic_suppress = true \/ n_atomic old = false) /\
                        n_ts old <= n_ts n
        end
  | Err e => t_tree t' = t_tree t
  | Panic _ => True
  end.
Proof.
  intros Hwf E. destruct (gnmi_update1_spec _ _ _ _ _ Hwf E) as (Hw' & Hf' & _).
  split; [exact Hw'|]. split; [exact Hf'|].
  unfold gnmi_update1 in E. destruct (n_upd n) as [|u us] eqn:Hu; [inversion E; exact I|].
  destruct (unit_index n) as [p|e|w] eqn:Hi; try (inversion E; subst; try reflexivity; exact I).
  destruct (update_pre t p u) as [t1 r1] eqn:Hp.
  destruct (update_pre_frame _ _ _ _ _ Hp) as (Htr & (_ & Hc & _)).
  destruct r1 as [[]|e|w]; try (inversion E; subst; try exact Htr; exact I).
  assert (Hwf1 : wf_tree (t_tree t1)) by (rewrite Htr; exact Hwf).
  pose proof (update_leaf_result _ _ _ _ _ _ _ _ Hwf1 Hu E) as Hr.
  assert (Hne : p <> []).
  { intros ->. unfold update_pre in Hp. inversion Hp. }
  destruct r as [[nd|]|e|w]; try exact I.
  - destruct Hr as [-> Hl]. exists p. rewrite Htr in Hl. repeat split; auto.
  - destruct Hr as (Hl & old & H1 & H2 & H3 & H4 & H5 & H6). exists p. rewrite Htr in Hl, H1.
    split; [reflexivity|]. split; [exact Hne|]. split; [exact Hl|]. exists old. rewrite <- Hc. repeat split; auto.
  - now rewrite Hr.
Qed.

Lemma path_eqb_sym p q : path_eqb p q = path_eqb q p.
Proof. destruct (path_eqb_spec p q), (path_eqb_spec q p); congruence. Qed.

(** * Inputs the main statement ranges over *)

(** the index path under which the delete notification built from a stored
    notification [v] announces its removal *)
Definition delete_index (v : notif) : outcome path :=
  join_prefix_and_path (del_prefix v) (del_path v).

Section Target.
Variable name : string.            (* the target *)

(** a unit (a notification stored as one leaf) the statement admits *)
Definition good_unit (v : notif) : Prop :=
  feed_target v = name /\
  n_del v = [] /\                                (* true of every unit: a single-update or atomic
                                                    notification with deletes is never stored, clones have none *)
  notif_eqb v v = true /\                        (* key maps are maps *)
  delete_index v = stored_index v /\             (* its deletion is announced under its own index path *)
  forall s, stored_index v = Ok s -> glob_free s = true.

Definition rel (ed : bool) (o1 o2 : option notif) : Prop :=
  match o1, o2 with
  | None, None => True
  | Some r, Some c => approx ed r c = true
  | _, _ => False
  end.

(** what the proofs maintain: the replayed notification IS the stored one, or
    both are non-atomic, event-driven emulation is on, the values are
    [value.Equal] and the replayed one is not newer *)
Definition srel (ed : bool) (o1 o2 : option notif) : Prop :=
  match o1, o2 with
  | None, None => True
  | Some r, Some c =>
      r = c \/
      (ed = true /\ n_atomic r = false /\ n_atomic c = false /\
       value_equal (first_val r) (first_val c) = true /\ n_ts r <= n_ts c)
  | _, _ => False
  end.

Lemma srel_rel ed o1 o2 :
  (forall c, o2 = Some c -> notif_eqb c c = true) -> srel ed o1 o2 -> rel ed o1 o2.
Proof.
  intros Hrf. destruct o1 as [r|], o2 as [c|]; cbn; auto.
  intros [->|(-> & H1 & H2 & H3 & H4)]; unfold approx.
  - rewrite (Hrf c eq_refl). reflexivity.
  - rewrite H1, H2, H3. apply Z.leb_le in H4. rewrite H4. cbn. now rewrite orb_true_r.
Qed.

(** the invariant: the tree is well formed, holds only admitted units at
    their own index paths, and the replayed map stands for it *)
Definition Inv (t : target) (m : rmap) : Prop :=
  wf_tree (t_tree t) /\
  (forall s v, lookup (t_tree t) s = Some v -> good_unit v /\ stored_index v = Ok s) /\
  (forall s, srel (cfg_event_driven (t_cfg t)) (rfind m name s) (lookup (t_tree t) s)).

Lemma srel_suppressed ed r old n :
  srel ed (Some r) (Some old) ->
  ed = true -> n_atomic old = false -> n_atomic n = false ->
  value_equal (first_val old) (first_val n) = true -> n_ts old <= n_ts n ->
  srel ed (Some r) (Some n).
Proof.
  intros Ha Hed Hao Han Hve Hts. cbn in *. right. destruct Ha as [->|(_ & H1 & _ & H3 & H4)].
  - repeat split; auto.
  - repeat split; auto; [exact (value_equal_trans _ _ _ H3 Hve)|lia].
Qed.

(** ** one update unit *)

Lemma update_unit_inv t m now n t' r :
  Inv t m -> good_unit n -> gnmi_update1 t now n = (t', r) ->
  match r with
  | Ok (Some nd) => Inv t' (feed_apply m nd)
  | Ok None | Err _ => Inv t' m
  | Panic _ => True
  end.
Proof.
  intros (Hwf & Hst & Hrel) Hg E.
  destruct (gnmi_update1_result _ _ _ _ _ Hwf E) as (Hw' & (_ & Hc & _) & Hr).
  destruct Hg as (Htg & Hnd & Hrf & Hdi & Hgs).
  destruct r as [o|e|w]; [|split; [exact Hw'|rewrite Hr, Hc; split; assumption]|exact I].
  destruct Hr as (p & Hi & Hne & Hl & Ho).
  pose proof (proj1 (unit_index_stored n p) Hi) as Hsi.
  pose proof (Hgs p Hsi) as Hgf.
  assert (Hst' : forall s v, lookup (t_tree t') s = Some v -> good_unit v /\ stored_index v = Ok s).
  { intros s v. rewrite Hl. destruct (path_eqb_spec s p) as [->|].
    - intros Hv; inversion Hv; subst.
      split; [split; [exact Htg|split; [exact Hnd|split; [exact Hrf|split; [exact Hdi|exact Hgs]]]]|exact Hsi].
    - apply Hst. }
  destruct o as [nd|].
  - subst nd. split; [exact Hw'|]. split; [exact Hst'|]. intros s. rewrite Hc.
    assert (Hu : exists u us, n_upd n = u :: us).
    { unfold stored_index in Hsi. destruct (n_upd n) as [|u us]; [discriminate|eauto]. }
    destruct Hu as (u & us & Hu).
    rewrite (feed_apply_update m n u us p name s Hu Hnd Hsi), Htg, String.eqb_refl. cbn [andb].
    rewrite Hl. rewrite (path_eqb_sym s p) at 1.
    destruct (path_eqb_spec p s) as [->|Hps].
    + cbn. now left.
    + destruct (n_atomic n) eqn:Hat.
      * destruct (is_prefix p s) eqn:Hpre.
        -- (* strictly below an atomic leaf: nothing is stored there *)
           apply is_prefix_spec in Hpre as (x & ->).
           destruct (lookup (t_tree t) (p ++ x)) as [w|] eqn:Hw; [|exact I].
           exfalso. assert (H1 : lookup (t_tree t') p = Some n) by (rewrite Hl, path_eqb_refl; reflexivity).
           assert (H2 : lookup (t_tree t') (p ++ x) = Some w).
           { rewrite Hl. destruct (path_eqb_spec (p ++ x) p) as [Hx|]; [|exact Hw].
             exfalso. apply Hps. symmetry. exact Hx. }
           destruct (t_tree t') as [nd|]; [|discriminate]. cbn [lookup] in H1, H2.
           pose proof (lookup_prefix_free nd p x n w H1 H2). subst x. rewrite app_nil_r in Hps. congruence.
        -- apply Hrel.
      * apply Hrel.
  - destruct Ho as (old & Hold & Han & Hve & Hed & Hdef & Hts).
    split; [exact Hw'|]. split; [exact Hst'|]. intros s. rewrite Hc, Hl.
    destruct (path_eqb_spec s p) as [->|]; [|apply Hrel].
    specialize (Hrel p). rewrite Hold in Hrel.
    destruct (rfind m name p) as [r0|]; [|contradiction].
    destruct Hdef as [Hd|Hd]; [discriminate Hd|].
    apply (srel_suppressed _ r0 old n Hrel Hed); auto.
Qed.

(** ** one delete unit *)

Definition sidx (d : notif) : path := match stored_index d with Ok s => s | _ => [] end.

(** every delete notification is built from its own stored notification
    (DEFECT C03_1 switch off) *)
Lemma render_alias_free removed ts :
  render_deletes removed ts = map (fun d => mk_delete d ts (del_path d)) removed.
Proof.
  induction removed as [|d l IH]; [reflexivity|]. cbn [render_deletes map]. now rewrite IH.
Qed.

Lemma feed_target_mk_delete d ts p : feed_target (mk_delete d ts p) = feed_target d.
Proof. reflexivity. Qed.

Lemma replay_deletes ts removed : forall m q,
  Forall (fun d => feed_target d = name /\ delete_index d = Ok (sidx d)) removed ->
  rfind (fold_left feed_apply (map (fun d => mk_delete d ts (del_path d)) removed) m) name q =
  if existsb (fun d => qmatch (sidx d) q) removed then None else rfind m name q.
Proof.
  induction removed as [|d l IH]; intros m q Hall; [reflexivity|].
  apply Forall_cons_iff in Hall as [(Htg & Hdi) Hall']. cbn [map fold_left existsb].
  rewrite (IH _ q Hall').
  rewrite (feed_apply_delete m (mk_delete d ts (del_path d)) (del_path d) (sidx d) name q eq_refl eq_refl Hdi).
  rewrite feed_target_mk_delete, Htg, String.eqb_refl. cbn [andb].
  destruct (qmatch (sidx d) q); cbn [orb]; [now destruct (existsb _ l)|reflexivity].
Qed.

Lemma delete_unit_inv t m n t' removed :
  Inv t m -> gnmi_remove t n = (t', Ok removed) ->
  Inv t' (fold_left feed_apply (render_deletes removed (n_ts n)) m).
Proof.
  intros (Hwf & Hst & Hrel) E.
  destruct (gnmi_remove_spec _ _ _ _ Hwf E) as (Hw' & (_ & Hc & _) & Hs).
  destruct (del_ok n) as [p|]; [|destruct Hs as [_ Hs]; exfalso; eapply Hs; reflexivity].
  destruct Hs as (Hl & removed' & Hr & Hin). inversion Hr; subst removed'; clear Hr.
  assert (Hgood : forall d, In d removed ->
            exists s, lookup (t_tree t) s = Some d /\ qmatch p s = true /\ older_than (n_ts n) d = true /\
                      good_unit d /\ stored_index d = Ok s).
  { intros d Hd. apply Hin in Hd as (s & H1 & H2 & H3). exists s. destruct (Hst s d H1). auto. }
  rewrite render_alias_free.
  split; [exact Hw'|]. split.
  { intros s v. rewrite Hl. unfold sel. destruct (lookup (t_tree t) s) as [w|] eqn:Hw; [|discriminate].
    destruct (qmatch p s && older_than (n_ts n) w); [discriminate|]. intros Hv; inversion Hv; subst. now apply Hst. }
  intros q. rewrite Hc, replay_deletes.
  2:{ apply Forall_forall. intros d Hd. destruct (Hgood d Hd) as (s & _ & _ & _ & (Htg & _ & _ & Hdi & _) & Hsi).
      split; [exact Htg|]. unfold sidx. rewrite Hsi. congruence. }
  rewrite Hl. unfold sel.
  destruct (existsb (fun d => qmatch (sidx d) q) removed) eqn:Hex.
  - (* some removed leaf's delete notification covers q *)
    apply existsb_exists in Hex as (d & Hd & Hq).
    destruct (Hgood d Hd) as (s & Hls & Hps & Hold & (_ & _ & _ & _ & Hgs) & Hsi).
    unfold sidx in Hq. rewrite Hsi in Hq. pose proof (Hgs s Hsi) as Hgf.
    rewrite (qmatch_glob_free s q Hgf) in Hq. apply is_prefix_spec in Hq as (x & ->).
    destruct (lookup (t_tree t) (s ++ x)) as [w|] eqn:Hw; [|exact I].
    assert (x = []).
    { destruct (t_tree t) as [nd|]; [|discriminate]. cbn [lookup] in *. exact (lookup_prefix_free nd s x d w Hls Hw). }
    subst x. rewrite app_nil_r in *. assert (w = d) by congruence. subst w. rewrite Hps, Hold. exact I.
  - destruct (lookup (t_tree t) q) as [w|] eqn:Hw.
    + destruct (qmatch p q && older_than (n_ts n) w) eqn:Hsel.
      * (* removed, so its own delete notification is in the group *)
        exfalso. apply andb_true_iff in Hsel as [H1 H2].
        assert (Hd : In w removed) by (apply Hin; exists q; auto).
        destruct (Hgood w Hd) as (s & Hls & _ & _ & _ & Hsi).
        destruct (Hst q w Hw) as (_ & Hsq).
        assert (existsb (fun d => qmatch (sidx d) q) removed = true).
        { apply existsb_exists. exists w. split; [exact Hd|]. unfold sidx. rewrite Hsq. apply qmatch_refl. }
        congruence.
      * specialize (Hrel q). now rewrite Hw in Hrel.
    + specialize (Hrel q). now rewrite Hw in Hrel.
Qed.

(** ** a whole notification *)

Definition good_notif (n : notif) : Prop :=
  forall m, In (UUpd m) (units n) -> good_unit m.

Lemma Inv_same t t' m :
  t_tree t' = t_tree t -> t_cfg t' = t_cfg t -> Inv t m -> Inv t' m.
Proof. intros Ht Hc (A1 & A2 & A3). unfold Inv. rewrite Ht, Hc. auto. Qed.

Lemma render_feed_app g1 g2 : render_feed (g1 ++ g2) = render_feed g1 ++ render_feed g2.
Proof. unfold render_feed. apply flat_map_app. Qed.

Lemma render_feed_single g : render_feed [g] = render_group g.
Proof. unfold render_feed. apply flat_map_single. Qed.

Lemma replay_snoc gs g m0 :
  fold_left feed_apply (render_feed (gs ++ [g])) m0 =
  fold_left feed_apply (render_group g) (fold_left feed_apply (render_feed gs) m0).
Proof.
  now rewrite render_feed_app, fold_left_app, render_feed_single.
Qed.

Definition AInv (m0 : rmap) (a : acc) : Prop :=
  Inv (a_t a) (fold_left feed_apply (render_feed (a_feed a)) m0).

Lemma multi_updates_inv now n m0 us : forall a,
  a_panic a = None -> AInv m0 a ->
  (forall u, In u us -> good_unit (clone_with_update n u)) ->
  a_panic (fold_left (multi_update_step now n) us a) = None ->
  AInv m0 (fold_left (multi_update_step now n) us a).
Proof.
  induction us as [|u us IH]; intros a Hp Hinv Hg Hp'; cbn [fold_left] in *; [exact Hinv|].
  set (a1 := multi_update_step now n a u) in *.
  assert (Hp1 : a_panic a1 = None).
  { destruct (a_panic a1) as [w|] eqn:E; [|reflexivity].
    rewrite (multi_update_panic_sticky now n us a1 w E) in Hp'. congruence. }
  apply IH; auto; [|intros u' Hu'; apply Hg; now right].
  subst a1. unfold multi_update_step in *. rewrite Hp in *.
  destruct (gnmi_update1 (a_t a) now (clone_with_update n u)) as [t' r] eqn:E.
  pose proof (update_unit_inv _ _ _ _ _ _ Hinv (Hg u (or_introl eq_refl)) E) as H.
  unfold AInv. destruct r as [[nd|]|e|w]; cbn [a_t a_feed a_panic] in *.
  - rewrite replay_snoc. cbn [render_group fold_left]. eapply Inv_same; [| |exact H]; reflexivity.
  - exact H.
  - exact H.
  - discriminate.
Qed.

Lemma multi_deletes_inv n m0 ds : forall a,
  a_panic a = None -> AInv m0 a ->
  a_panic (fold_left (multi_delete_step n) ds a) = None ->
  AInv m0 (fold_left (multi_delete_step n) ds a).
Proof.
  induction ds as [|d ds IH]; intros a Hp Hinv Hp'; cbn [fold_left] in *; [exact Hinv|].
  set (a1 := multi_delete_step n a d) in *.
  assert (Hp1 : a_panic a1 = None).
  { destruct (a_panic a1) as [w|] eqn:E; [|reflexivity].
    rewrite (multi_delete_panic_sticky n ds a1 w E) in Hp'. congruence. }
  apply IH; auto.
  subst a1. unfold multi_delete_step in *. rewrite Hp in *.
  destruct (gnmi_remove (add_int (a_t a) md_update_count 1) (clone_with_delete n d)) as [t' r] eqn:E.
  assert (Hinv0 : Inv (add_int (a_t a) md_update_count 1) (fold_left feed_apply (render_feed (a_feed a)) m0))
    by (eapply Inv_same; [| |exact Hinv]; reflexivity).
  unfold AInv. destruct r as [rm|e|w]; cbn [a_t a_feed a_panic] in *.
  - rewrite replay_snoc. cbn [render_group].
    exact (delete_unit_inv _ _ _ _ _ Hinv0 E).
  - (* gnmiRemove never returns an error *)
    exfalso. clear -E. unfold gnmi_remove in E.
    destruct (n_del (clone_with_delete n d)); [inversion E|].
    destruct (join_path _ _) as [p| |] eqn:Hj; try (inversion E; fail).
    + cbv zeta in E. match type of E with match ?x with _ => _ end = _ => destruct x end; inversion E.
    + unfold join_path in Hj. destruct (join_prefix_and_path _ _) eqn:Hjj; try discriminate.
      unfold join_prefix_and_path in Hjj. destruct (_ ++ _); discriminate.
  - discriminate.
Qed.

Lemma finish_ts_inv n b t m : Inv t m -> Inv (finish_ts n b t) m.
Proof.
  intros H. eapply Inv_same; [apply finish_ts_tree|apply (proj1 (finish_ts_cfg n b t))|exact H].
Qed.

Lemma single_update_inv t m now n k t' gs r :
  Inv t m -> good_unit n ->
  match gnmi_update1 t now n with
  | (t1, Panic w) => (finish_ts n false t1, [], GPanic w)
  | (t1, Err e) => (finish_ts n false t1, [], GErr e)
  | (t1, Ok None) => (finish_ts n true t1, [], GOk)
  | (t1, Ok (Some nd)) => (finish_ts n true (add_int t1 md_update_count k), [FUpd nd], GOk)
  end = (t', gs, r) ->
  (forall w, r <> GPanic w) ->
  Inv t' (fold_left feed_apply (render_feed gs) m).
Proof.
  intros Hinv Hg. destruct (gnmi_update1 t now n) as [t1 r1] eqn:E.
  pose proof (update_unit_inv _ _ _ _ _ _ Hinv Hg E) as H.
  destruct r1 as [[nd|]|e|w]; intros E2 Hnp; inversion E2; subst; clear E2.
  - apply finish_ts_inv. rewrite render_feed_single. cbn [render_group fold_left].
    eapply Inv_same; [| |exact H]; reflexivity.
  - apply finish_ts_inv. exact H.
  - apply finish_ts_inv. exact H.
  - exfalso. eapply Hnp. reflexivity.
Qed.

Lemma multi_inv t m now n us ds t' gs r :
  Inv t m ->
  (forall u, In u us -> good_unit (clone_with_update n u)) ->
  (let a0 := Acc t [] [] false None in
   let a1 := fold_left (multi_update_step now n) us a0 in
   let a2 := fold_left (multi_delete_step n) ds a1 in
   (finish_ts n (a_ok a2) (a_t a2), a_feed a2,
    match a_panic a2 with
    | Some w => GPanic w
    | None => match a_errs a2 with [] => GOk | es => GErrs es end
    end)) = (t', gs, r) ->
  (forall w, r <> GPanic w) ->
  Inv t' (fold_left feed_apply (render_feed gs) m).
Proof.
  intros Hinv Hg. cbv zeta.
  set (a0 := Acc t [] [] false None).
  remember (fold_left (multi_update_step now n) us a0) as a1 eqn:Ha1.
  remember (fold_left (multi_delete_step n) ds a1) as a2 eqn:Ha2.
  intros E Hnp. inversion E; subst t' gs r; clear E.
  assert (Hp2 : a_panic a2 = None).
  { destruct (a_panic a2) as [w|]; [exfalso; eapply Hnp; reflexivity|reflexivity]. }
  assert (Hp1 : a_panic a1 = None).
  { destruct (a_panic a1) as [w|] eqn:Ep; [|reflexivity].
    rewrite Ha2, (multi_delete_panic_sticky n ds a1 w Ep) in Hp2. congruence. }
  assert (H0 : AInv m a0) by exact Hinv.
  rewrite Ha1 in Hp1.
  pose proof (multi_updates_inv now n m us a0 eq_refl H0 Hg Hp1) as H1. rewrite <- Ha1 in *.
  rewrite Ha2 in Hp2.
  pose proof (multi_deletes_inv n m ds a1 Hp1 H1 Hp2) as H2. rewrite <- Ha2 in *.
  apply finish_ts_inv. exact H2.
Qed.

(** Target.GnmiUpdate keeps the invariant: the replayed map, extended by what
    this call handed to the client, stands for the tree after the call *)
Theorem target_update_inv t m now n t' gs r :
  Inv t m -> good_notif n -> target_gnmi_update t now n = (t', gs, r) ->
  (forall w, r <> GPanic w) ->
  Inv t' (fold_left feed_apply (render_feed gs) m).
Proof.
  intros Hinv Hg. unfold good_notif, units in Hg. unfold target_gnmi_update.
  destruct (n_atomic n).
  - destruct (n_del n) as [|d ds].
    + destruct (n_upd n) as [|u us] eqn:Hu.
      * intros E _; inversion E; subst. eapply Inv_same; [| |exact Hinv]; reflexivity.
      * apply single_update_inv; [exact Hinv|]. apply Hg. now left.
    + intros E _; inversion E; subst. exact Hinv.
  - destruct (n_upd n) as [|u [|u2 us]] eqn:Hu; destruct (n_del n) as [|d [|d2 ds]] eqn:Hd.
    + intros E _; inversion E; subst. eapply Inv_same; [| |exact Hinv]; reflexivity.
    + destruct (gnmi_remove (add_int t md_update_count 1) n) as [t1 r1] eqn:E.
      assert (Hinv0 : Inv (add_int t md_update_count 1) m) by (eapply Inv_same; [| |exact Hinv]; reflexivity).
      intros E2 Hnp. destruct r1 as [rm|e|w]; inversion E2; subst; clear E2.
      * rewrite render_feed_single. cbn [render_group].
        exact (delete_unit_inv _ _ _ _ _ Hinv0 E).
      * exfalso. clear -E. unfold gnmi_remove in E.
        destruct (n_del n); [inversion E|].
        destruct (join_path _ _) as [p| |] eqn:Hj; try (inversion E; fail).
        -- cbv zeta in E. match type of E with match ?x with _ => _ end = _ => destruct x end; inversion E.
        -- unfold join_path in Hj. destruct (join_prefix_and_path _ _) eqn:Hjj; try discriminate.
           unfold join_prefix_and_path in Hjj. destruct (_ ++ _); discriminate.
      * exfalso. eapply Hnp. reflexivity.
    + apply (multi_inv t m now n [] (d :: d2 :: ds)); [exact Hinv|intros u0 []].
    + apply single_update_inv; [exact Hinv|]. apply Hg. now left.
    + apply (multi_inv t m now n [u] [d]); [exact Hinv|].
      intros u0 Hu0. apply Hg. cbn [map app In] in *. destruct Hu0 as [<-|[]]. now left.
    + apply (multi_inv t m now n [u] (d :: d2 :: ds)); [exact Hinv|].
      intros u0 Hu0. apply Hg. apply in_or_app. left. now apply (in_map (fun u => UUpd (clone_with_update n u))).
    + apply (multi_inv t m now n (u :: u2 :: us) []); [exact Hinv|].
      intros u0 Hu0. apply Hg. apply in_or_app. left. now apply (in_map (fun u => UUpd (clone_with_update n u))).
    + apply (multi_inv t m now n (u :: u2 :: us) [d]); [exact Hinv|].
      intros u0 Hu0. apply Hg. apply in_or_app. left. now apply (in_map (fun u => UUpd (clone_with_update n u))).
    + apply (multi_inv t m now n (u :: u2 :: us) (d :: d2 :: ds)); [exact Hinv|].
      intros u0 Hu0. apply Hg. apply in_or_app. left. now apply (in_map (fun u => UUpd (clone_with_update n u))).
Qed.

(** ** histories *)

Fixpoint tfeed (t : target) (H : hist) : list notif :=
  match H with
  | [] => []
  | h :: H' => render_feed (snd (fst (target_gnmi_update t (fst h) (snd h)))) ++ tfeed (tstep t h) H'
  end.

Fixpoint no_panic (t : target) (H : hist) : Prop :=
  match H with
  | [] => True
  | h :: H' => (forall w, tres t h <> GPanic w) /\ no_panic (tstep t h) H'
  end.

Lemma history_inv H : forall t m,
  Inv t m -> (forall h, In h H -> good_notif (snd h)) -> no_panic t H ->
  Inv (trun t H) (fold_left feed_apply (tfeed t H) m).
Proof.
  induction H as [|h H IH]; intros t m Hinv Hg Hnp; cbn [trun fold_left tfeed]; [exact Hinv|].
  destruct Hnp as [Hn1 Hn2]. rewrite fold_left_app. fold (trun (tstep t h) H).
  apply IH; [|intros h' Hh'; apply Hg; now right|exact Hn2].
  unfold tstep, tres in *. destruct (target_gnmi_update t (fst h) (snd h)) as [[t' gs] r] eqn:E.
  cbn [fst snd] in *. exact (target_update_inv _ _ _ _ _ _ _ Hinv (Hg h (or_introl eq_refl)) E Hn1).
Qed.

End Target.

(** the configuration of a target never changes *)
Lemma cfg_lat_compute t r ts : t_cfg (lat_compute t r ts) = t_cfg t.
Proof. exact (proj1 (proj2 (frame_lat_compute t r ts))). Qed.

Lemma update_leaf_cfg t1 now p u n t2 r : update_leaf t1 now p u n = (t2, r) -> t_cfg t2 = t_cfg t1.
Proof.
  unfold update_leaf. destruct (CTreeModel.get (t_tree t1) p) as [[old|cs]|].
  - destruct (leaf_verdict t1 now old n); [intros E; inversion E; reflexivity|].
    destruct (n_atomic n); [intros E; inversion E; now rewrite cfg_lat_compute|].
    destruct (n_upd old); [intros E; inversion E; reflexivity|].
    match goal with |- (if ?b then _ else _) = _ -> _ => destruct b end;
      intros E; inversion E; [reflexivity|now rewrite cfg_lat_compute].
  - intros E; inversion E; reflexivity.
  - destruct (CTreeModel.add (t_tree t1) p n); intros E; inversion E; [|reflexivity].
    destruct (is_real p); [now rewrite cfg_lat_compute|reflexivity].
Qed.

Lemma gnmi_update1_cfg t0 now m t1 r : gnmi_update1 t0 now m = (t1, r) -> t_cfg t1 = t_cfg t0.
Proof.
  unfold gnmi_update1. destruct (n_upd m) as [|u us]; [intros E; now inversion E|].
  destruct (unit_index m) as [p|e|w]; try (intros E; now inversion E).
  destruct (update_pre t0 p u) as [t2 r2] eqn:Hp.
  destruct (update_pre_frame _ _ _ _ _ Hp) as (_ & _ & Hc & _).
  destruct r2 as [[]|e|w]; try (intros E; inversion E; subst; exact Hc).
  intros E. apply update_leaf_cfg in E. congruence.
Qed.

Lemma gnmi_remove_cfg t0 m t1 r : gnmi_remove t0 m = (t1, r) -> t_cfg t1 = t_cfg t0.
Proof.
  intros E. destruct (n_del m) as [|d ds] eqn:Hd; [unfold gnmi_remove in E; rewrite Hd in E; now inversion E|].
  unfold gnmi_remove in E. rewrite Hd in E.
  destruct (join_path (n_prefix m) (Some d)) as [p|e|w]; try (now inversion E).
  cbv zeta in E.
  assert (Hts : t_cfg (match p with
             | p0 :: k :: _ => if String.eqb p0 md_root then set_meta t0 (md_reset_entry (t_meta t0) k) else t0
             | _ => t0 end) = t_cfg t0).
  { destruct p as [|p0 [|k ?]]; try reflexivity. destruct (String.eqb p0 md_root); reflexivity. }
  match type of E with match ?x with _ => _ end = _ => destruct x end; inversion E; exact Hts.
Qed.

Lemma target_gnmi_update_cfg t now n : t_cfg (fst (fst (target_gnmi_update t now n))) = t_cfg t.
Proof.
  assert (Hfin : forall b t1, t_cfg t1 = t_cfg t -> t_cfg (finish_ts n b t1) = t_cfg t).
  { intros b t1 H. now rewrite (proj1 (finish_ts_cfg n b t1)). }
  assert (Hmu : forall us a, t_cfg (a_t (fold_left (multi_update_step now n) us a)) = t_cfg (a_t a)).
  { induction us as [|u us IH]; intros a; cbn [fold_left]; [reflexivity|]. rewrite IH.
    unfold multi_update_step. destruct (a_panic a); [reflexivity|].
    destruct (gnmi_update1 (a_t a) now (clone_with_update n u)) as [t1 [[nd|]|e|w]] eqn:E;
      cbn [a_t]; apply gnmi_update1_cfg in E; exact E. }
  assert (Hmd : forall ds a, t_cfg (a_t (fold_left (multi_delete_step n) ds a)) = t_cfg (a_t a)).
  { induction ds as [|d ds IH]; intros a; cbn [fold_left]; [reflexivity|]. rewrite IH.
    unfold multi_delete_step. destruct (a_panic a); [reflexivity|].
    destruct (gnmi_remove _ _) as [t1 [rm|e|w]] eqn:E; cbn [a_t]; apply gnmi_remove_cfg in E; exact E. }
  unfold target_gnmi_update.
  destruct (n_atomic n).
  - destruct (n_del n); [|reflexivity]. destruct (n_upd n); [reflexivity|].
    destruct (gnmi_update1 t now n) as [t1 [[nd|]|e|w]] eqn:E; cbn [fst]; apply gnmi_update1_cfg in E; apply Hfin; exact E.
  - destruct (n_upd n) as [|u [|u2 us]]; destruct (n_del n) as [|d [|d2 ds]]; cbn [fst];
      try reflexivity;
      try (destruct (gnmi_update1 t now n) as [t1 [[nd|]|e|w]] eqn:E; cbn [fst]; apply gnmi_update1_cfg in E; apply Hfin; exact E);
      try (destruct (gnmi_remove _ n) as [t1 [rm|e|w]] eqn:E; cbn [fst]; apply gnmi_remove_cfg in E; exact E);
      try (apply Hfin; rewrite Hmd, Hmu; reflexivity).
Qed.

Lemma trun_cfg H : forall t, t_cfg (trun t H) = t_cfg t.
Proof.
  induction H as [|h H IH]; intros t; cbn [trun fold_left]; [reflexivity|].
  fold (trun (tstep t h) H). rewrite IH. apply target_gnmi_update_cfg.
Qed.

(** C03, the replay equivalence: for every history of notifications delivered
    to a fresh target (and hence for every prefix of it), replaying everything
    the client was handed so far yields exactly the index paths the cache
    stores, each with the notification the cache stores -- or, under
    event-driven emulation, with a non-atomic notification of equal value that
    is not newer than the stored one *)
Theorem feed_replays_target name cfg (H : hist) :
  (forall h, In h H -> good_notif name (snd h)) ->
  no_panic (new_target name cfg) H ->
  forall s, rel (cfg_event_driven cfg)
                (rfind (replay (tfeed (new_target name cfg) H)) name s)
                (lookup (t_tree (trun (new_target name cfg) H)) s).
Proof.
  intros Hg Hnp.
  assert (H0 : Inv name (new_target name cfg) []).
  { split; [exact I|]. split; [intros s v Hv; discriminate|intros s; exact I]. }
  destruct (history_inv name H _ _ H0 Hg Hnp) as (_ & Hst & Hrel).
  intros s. specialize (Hrel s). rewrite trun_cfg in Hrel. apply srel_rel; [|exact Hrel].
  intros c Hc. destruct (Hst s c Hc) as ((_ & _ & Hrf & _) & _). exact Hrf.
Qed.

(** * withheld only if rejected, or unchanged under event-driven emulation *)

Theorem withheld_only_if t now n t' r :
  wf_tree (t_tree t) -> gnmi_update1 t now n = (t', r) ->
  match r with
  | Ok (Some nd) =>                        (* handed to the client: the stored notification itself *)
      nd = n /\ exists p, unit_index n = Ok p /\ lookup (t_tree t') p = Some n
  | Ok None =>                             (* stored and withheld *)
      exists p old, unit_index n = Ok p /\ lookup (t_tree t) p = Some old /\
        lookup (t_tree t') p = Some n /\
        cfg_event_driven (t_cfg t) = true /\ n_atomic n = false /\
        value_equal (first_val old) (first_val n) = true /\
        (defect_c03_2_atomic_suppress = true \/ n_atomic old = false)
  | Err _ => t_tree t' = t_tree t          (* rejected: nothing stored *)
  | Panic _ => True
  end.
Proof.
  intros Hwf E. destruct (gnmi_update1_result _ _ _ _ _ Hwf E) as (_ & _ & Hr).
  destruct r as [[nd|]|e|w]; auto.
  - destruct Hr as (p & Hi & _ & Hl & ->). split; [reflexivity|]. exists p. split; [exact Hi|].
    now rewrite Hl, path_eqb_refl.
  - destruct Hr as (p & Hi & _ & Hl & old & H1 & H2 & H3 & H4 & H5 & _).
    exists p, old. rewrite Hl, path_eqb_refl. repeat split; auto.
Qed.

(** * atomic notifications are one unit *)

Theorem atomic_unit t now n t' gs r :
  wf_tree (t_tree t) -> n_atomic n = true -> target_gnmi_update t now n = (t', gs, r) ->
  (gs = [] \/ gs = [FUpd n]) /\
  (forall p, unit_index n = Ok p -> forall q, q <> p -> lookup (t_tree t') q = lookup (t_tree t) q) /\
  (gs = [FUpd n] -> exists p, unit_index n = Ok p /\ lookup (t_tree t') p = Some n).
Proof.
  intros Hwf Hat. unfold target_gnmi_update. rewrite Hat.
  destruct (n_del n) as [|d ds].
  2:{ intros E; inversion E; subst. split; [left; reflexivity|]. split; [reflexivity|discriminate]. }
  destruct (n_upd n) as [|u us] eqn:Hu.
  { intros E; inversion E; subst. split; [left; reflexivity|]. split; [reflexivity|discriminate]. }
  destruct (gnmi_update1 t now n) as [t1 r1] eqn:E1.
  destruct (gnmi_update1_result _ _ _ _ _ Hwf E1) as (_ & _ & Hr).
  destruct (gnmi_update1_spec _ _ _ _ _ Hwf E1) as (_ & _ & Hs).
  assert (Hframe : forall p, unit_index n = Ok p -> forall q, q <> p -> lookup (t_tree t1) q = lookup (t_tree t) q).
  { intros p Hi q Hq. destruct r1 as [o|e|w].
    - destruct Hr as (p' & Hi' & _ & Hl & _). rewrite Hl. assert (p' = p) by congruence. subst.
      destruct (path_eqb_spec q p); [contradiction|reflexivity].
    - now rewrite Hr.
    - (* a panic after the leaf was written (never for an atomic notification) or before *)
      destruct (unit_ok n) as [p0|] eqn:Hok.
      + destruct Hs as [[_ ->]|[_ Hl]]; [reflexivity|]. rewrite Hl.
        assert (p0 = p).
        { unfold unit_ok in Hok. rewrite Hu, Hi in Hok. destruct p as [|a b]; [discriminate|].
          destruct (negb (String.eqb a md_root)); [congruence|]. destruct b; [discriminate|].
          destruct (meta_val_ok _ _ _); congruence. }
        subst. destruct (path_eqb_spec q p); [contradiction|reflexivity].
      + destruct Hs as [-> _]. reflexivity. }
  destruct r1 as [[nd|]|e|w]; intros E; inversion E; subst; clear E; rewrite ?finish_ts_tree.
  - destruct Hr as (p & Hi & _ & Hl & ->). split; [right; reflexivity|]. split.
    + exact Hframe.
    + intros _. exists p. split; [exact Hi|]. now rewrite Hl, path_eqb_refl.
  - split; [left; reflexivity|]. split; [exact Hframe|discriminate].
  - split; [left; reflexivity|]. split; [exact Hframe|discriminate].
  - split; [left; reflexivity|]. split; [exact Hframe|discriminate].
Qed.

(** * The excluded classes matter: witnesses *)

Definition wit_pfx (els : list string) : option gpath := Some (gp_prefix "t" "" els).
Definition wit_upd (ts : Z) (pfx : list string) (pcap : option (N * N)) (leaf : string) (v : Z) : notif :=
  Notif ts (wit_pfx pfx) pcap [Upd (Some (gp_of_names [leaf])) (Some (TInt v)) 0] [] false.

(** DEFECT C03_1 (corpus/C03/kf1_delete_alias.json): three leaves written
    through one prefix object with spare capacity, then a subtree delete *)
Definition wit_alias : hist :=
  [(0, wit_upd 1 ["a"; "b"] (Some (1%N, 2%N)) "x" 1);
   (0, wit_upd 1 ["a"; "b"] (Some (1%N, 2%N)) "y" 1);
   (0, wit_upd 1 ["a"; "b"] (Some (1%N, 2%N)) "z" 1);
   (0, Notif 5 (wit_pfx []) None [] [gp_of_names ["a"; "b"]] false)].

(** DEFECT C03_2 (corpus/C03/kf2_atomic_then_scalar.json) *)
Definition wit_atomic : hist :=
  [(0, Notif 1 (wit_pfx ["a"; "b"]) None
         [Upd (Some (gp_of_names ["x"])) (Some (TInt 1)) 0; Upd (Some (gp_of_names ["y"])) (Some (TInt 2)) 0]
         [] true);
   (0, wit_upd 2 ["a"] None "b" 1)].

(** KF C03-3 (corpus/C03/kf3_path_origin_delete.json) *)
Definition wit_origin : hist :=
  [(0, Notif 1 (wit_pfx ["a"]) None [Upd (Some (GPath "" "o" [("b", [])] [])) (Some (TInt 1)) 0] [] false);
   (0, Notif 5 (wit_pfx ["a"]) None [] [gp_of_names ["b"]] false)].

Definition wit_cfg : config := Cfg 0 true [].

Definition replay_differs (H : hist) (s : path) : Prop :=
  ~ rel true (rfind (replay (tfeed (new_target "t" wit_cfg) H)) "t" s)
             (lookup (t_tree (trun (new_target "t" wit_cfg) H)) s).

(** stated under the switch so that flipping it in CacheModel.v stays a
    one-line change *)
Lemma feed_replays_refuted_alias :
  if defect_c03_1_alias then exists s, replay_differs wit_alias s else True.
Proof.
  cbv delta [defect_c03_1_alias] iota.
  lazymatch goal with
  | |- True => exact I
  | |- _ => exists ["a"; "b"; "x"]; unfold replay_differs; vm_compute; intros H; exact H
  end.
Qed.

Lemma feed_replays_refuted_atomic :
  if defect_c03_2_atomic_suppress then exists s, replay_differs wit_atomic s else True.
Proof.
  cbv delta [defect_c03_2_atomic_suppress] iota.
  lazymatch goal with
  | |- True => exact I
  | |- _ => exists ["a"; "b"]; unfold replay_differs; vm_compute; intros H; discriminate H
  end.
Qed.

Lemma feed_replays_refuted_origin : exists s, replay_differs wit_origin s.
Proof. exists ["a"; "b"]. unfold replay_differs. vm_compute. intros H; exact H. Qed.

(** ... while the hypotheses of [feed_replays_target] are satisfiable by
    histories with every kind of notification *)
Definition ex_good_hist : hist :=
  [(0, wit_upd 1 ["a"] None "b" 1); (0, wit_upd 2 ["a"] None "b" 1); (0, wit_upd 3 ["a"] None "b" 2);
   (0, Notif 4 (wit_pfx ["a"]) None
         [Upd (Some (gp_of_names ["c"])) (Some (TInt 1)) 0; Upd (Some (gp_of_names ["d"])) (Some (TStr "x")) 0]
         [gp_of_names ["b"]] false);
   (0, Notif 5 (wit_pfx ["g"]) None [Upd (Some (gp_of_names ["x"])) (Some (TInt 1)) 0] [] true);
   (0, wit_upd 6 [] (Some (1%N, 2%N)) "g" 1);                    (* scalar over the atomic container *)
   (0, wit_upd 6 [] (Some (1%N, 2%N)) "h" 1);                    (* shared prefix object *)
   (0, Notif 9 (wit_pfx []) None [] [gp_of_names ["*"]] false)].

Example ex_good_hist_ok :
  (forall h, In h ex_good_hist -> good_notif "t" (snd h)) /\
  no_panic (new_target "t" wit_cfg) ex_good_hist /\
  List.length (tfeed (new_target "t" wit_cfg) ex_good_hist) = 12%nat.
Proof.
  split; [|split; [cbv; repeat split; discriminate|vm_compute; reflexivity]].
  intros h Hh m Hm. cbn in Hh.
  repeat (destruct Hh as [<-|Hh]; [cbn in Hm; repeat (destruct Hm as [Hm|Hm]; [inversion Hm; subst; clear Hm|]); try contradiction;
    (split; [reflexivity|split; [reflexivity|split; [reflexivity|split; [reflexivity|
       intros s Hs; vm_compute in Hs; inversion Hs; subst; reflexivity]]]])|]).
  contradiction.
Qed.

(** * Several targets, Reset, Remove, Add, Sync, Connect, UpdateMetadata *)

(** a notification of another target does not touch this target's entries *)
Lemma feed_apply_other m n tgt q :
  tgt <> feed_target n -> rfind (feed_apply m n) tgt q = rfind m tgt q.
Proof.
  intros Hne. assert (Hb : String.eqb tgt (feed_target n) = false) by now apply String.eqb_neq.
  assert (Hb' : String.eqb (feed_target n) tgt = false) by (rewrite String.eqb_sym; exact Hb).
  unfold feed_apply. cbv zeta.
  assert (Hdel : forall m0, rfind (fold_left (fun m' d =>
            match join_prefix_and_path (gp_of_opt (n_prefix n)) d with
            | Ok p => rremove m' (fun e => negb (String.eqb (fst (fst e)) (feed_target n) && qmatch p (snd (fst e))))
            | _ => m'
            end) (n_del n) m0) tgt q = rfind m0 tgt q).
  { induction (n_del n) as [|d ds IH]; intros m0; cbn [fold_left]; [reflexivity|].
    rewrite IH. destruct (join_prefix_and_path _ d) as [p| |]; try reflexivity. unfold rremove.
    pose proof (rfind_filter (fun t s => negb (String.eqb t (feed_target n) && qmatch p s)) m0 tgt q) as H.
    cbv beta in H. refine (eq_trans H _). now rewrite Hb. }
  rewrite Hdel. destruct (n_upd n) as [|u us]; [reflexivity|].
  destruct (stored_index n) as [p| |]; try reflexivity. cbn [rfind fst snd]. rewrite Hb'. cbn [andb].
  unfold rremove.
  pose proof (rfind_filter (fun t s => negb (String.eqb t (feed_target n) &&
            (if n_atomic n then is_prefix p s else path_eqb p s))) m tgt q) as H.
  cbv beta in H. refine (eq_trans H _). now rewrite Hb.
Qed.

Lemma feed_fold_other l : forall m tgt q,
  Forall (fun x => feed_target x <> tgt) l -> rfind (fold_left feed_apply l m) tgt q = rfind m tgt q.
Proof.
  induction l as [|n l IH]; intros m tgt q Hall; [reflexivity|]. cbn [fold_left].
  apply Forall_cons_iff in Hall as [Hn Hl]. rewrite (IH _ _ _ Hl). apply feed_apply_other. congruence.
Qed.

(** what gnmiUpdate hands to the client is the notification it was given *)
Lemma gnmi_update1_fed t now n t' nd : gnmi_update1 t now n = (t', Ok (Some nd)) -> nd = n.
Proof.
  unfold gnmi_update1. destruct (n_upd n) as [|u us]; [discriminate|].
  destruct (unit_index n) as [p| |]; try discriminate.
  destruct (update_pre t p u) as [t1 [[]| |]]; try discriminate.
  unfold update_leaf. destruct (CTreeModel.get (t_tree t1) p) as [[old|cs]|].
  - destruct (leaf_verdict t1 now old n); [discriminate|].
    destruct (n_atomic n); [intros E; now inversion E|].
    destruct (n_upd old); [discriminate|].
    match goal with |- (if ?b then _ else _) = _ -> _ => destruct b end; intros E; now inversion E.
  - discriminate.
  - destruct (CTreeModel.add (t_tree t1) p n); intros E; now inversion E.
Qed.

Section Target2.
Variable name : string.

Definition ft (x : notif) : Prop := feed_target x = name.

Lemma removed_ft t m n t' removed :
  Inv name t m -> gnmi_remove t n = (t', Ok removed) ->
  Forall ft (render_deletes removed (n_ts n)).
Proof.
  intros (Hwf & Hst & _) E. destruct (gnmi_remove_spec _ _ _ _ Hwf E) as (_ & _ & Hs).
  destruct (del_ok n) as [p|]; [|destruct Hs as [_ Hs]; exfalso; eapply Hs; reflexivity].
  destruct Hs as (_ & removed' & Hr & Hin). inversion Hr; subst removed'.
  rewrite render_alias_free. apply Forall_forall. intros x Hx. apply in_map_iff in Hx as (d & <- & Hd).
  apply Hin in Hd as (s & Hl & _). destruct (Hst s d Hl) as ((Htg & _) & _). exact Htg.
Qed.

Definition AInv2 (m0 : rmap) (a : acc) : Prop :=
  AInv name m0 a /\ Forall ft (render_feed (a_feed a)).

Lemma multi_updates_inv2 now n m0 us : forall a,
  a_panic a = None -> AInv2 m0 a ->
  (forall u, In u us -> good_unit name (clone_with_update n u)) ->
  a_panic (fold_left (multi_update_step now n) us a) = None ->
  AInv2 m0 (fold_left (multi_update_step now n) us a).
Proof.
  induction us as [|u us IH]; intros a Hp Hinv Hg Hp'; cbn [fold_left] in *; [exact Hinv|].
  set (a1 := multi_update_step now n a u) in *.
  assert (Hp1 : a_panic a1 = None).
  { destruct (a_panic a1) as [w|] eqn:E; [|reflexivity].
    rewrite (multi_update_panic_sticky now n us a1 w E) in Hp'. congruence. }
  apply IH; auto; [|intros u' Hu'; apply Hg; now right].
  destruct Hinv as [Hi Hf]. split.
  - apply (multi_updates_inv name now n m0 [u] a Hp Hi); [intros u' [<-|[]]; apply Hg; now left|exact Hp1].
  - subst a1. unfold multi_update_step in *. rewrite Hp in *.
    destruct (gnmi_update1 (a_t a) now (clone_with_update n u)) as [t' [[nd|]|e|w]] eqn:E; cbn [a_feed]; try exact Hf.
    rewrite render_feed_app, render_feed_single. cbn [render_group]. apply Forall_app. split; [exact Hf|].
    constructor; [|constructor]. rewrite (gnmi_update1_fed _ _ _ _ _ E).
    destruct (Hg u (or_introl eq_refl)) as (Htg & _). exact Htg.
Qed.

Lemma multi_deletes_inv2 n m0 ds : forall a,
  a_panic a = None -> AInv2 m0 a ->
  a_panic (fold_left (multi_delete_step n) ds a) = None ->
  AInv2 m0 (fold_left (multi_delete_step n) ds a).
Proof.
  induction ds as [|d ds IH]; intros a Hp Hinv Hp'; cbn [fold_left] in *; [exact Hinv|].
  set (a1 := multi_delete_step n a d) in *.
  assert (Hp1 : a_panic a1 = None).
  { destruct (a_panic a1) as [w|] eqn:E; [|reflexivity].
    rewrite (multi_delete_panic_sticky n ds a1 w E) in Hp'. congruence. }
  apply IH; auto.
  destruct Hinv as [Hi Hf]. split.
  - exact (multi_deletes_inv name n m0 [d] a Hp Hi Hp1).
  - subst a1. unfold multi_delete_step in *. rewrite Hp in *.
    destruct (gnmi_remove (add_int (a_t a) md_update_count 1) (clone_with_delete n d)) as [t' [rm|e|w]] eqn:E;
      cbn [a_feed]; try exact Hf.
    rewrite render_feed_app, render_feed_single. cbn [render_group]. apply Forall_app. split; [exact Hf|].
    assert (Hinv0 : Inv name (add_int (a_t a) md_update_count 1) (fold_left feed_apply (render_feed (a_feed a)) m0))
      by (eapply Inv_same; [| |exact Hi]; reflexivity).
    exact (removed_ft _ _ _ _ _ Hinv0 E).
Qed.

(** Target.GnmiUpdate: everything handed to the client is addressed to this target *)
Theorem target_update_ft t m now n t' gs r :
  Inv name t m -> good_notif name n -> target_gnmi_update t now n = (t', gs, r) ->
  (forall w, r <> GPanic w) -> Forall ft (render_feed gs).
Proof.
  intros Hinv Hg. unfold good_notif, units in Hg. unfold target_gnmi_update.
  assert (Hsingle : forall k,
    match gnmi_update1 t now n with
    | (t1, Panic w) => (finish_ts n false t1, [], GPanic w)
    | (t1, Err e) => (finish_ts n false t1, [], GErr e)
    | (t1, Ok None) => (finish_ts n true t1, [], GOk)
    | (t1, Ok (Some nd)) => (finish_ts n true (add_int t1 md_update_count k), [FUpd nd], GOk)
    end = (t', gs, r) -> good_unit name n -> Forall ft (render_feed gs)).
  { intros k E Hgn. destruct (gnmi_update1 t now n) as [t1 [[nd|]|e|w]] eqn:E1; inversion E; subst; try constructor.
    - rewrite (gnmi_update1_fed _ _ _ _ _ E1). exact (proj1 Hgn).
    - constructor. }
  assert (Hmulti : forall us ds,
    (forall u, In u us -> good_unit name (clone_with_update n u)) ->
    (let a0 := Acc t [] [] false None in
     let a1 := fold_left (multi_update_step now n) us a0 in
     let a2 := fold_left (multi_delete_step n) ds a1 in
     (finish_ts n (a_ok a2) (a_t a2), a_feed a2,
      match a_panic a2 with
      | Some w => GPanic w
      | None => match a_errs a2 with [] => GOk | es => GErrs es end
      end)) = (t', gs, r) ->
    (forall w, r <> GPanic w) -> Forall ft (render_feed gs)).
  { intros us ds Hgu. cbv zeta.
    set (a0 := Acc t [] [] false None).
    remember (fold_left (multi_update_step now n) us a0) as a1 eqn:Ha1.
    remember (fold_left (multi_delete_step n) ds a1) as a2 eqn:Ha2.
    intros E Hnp. inversion E; subst t' gs r; clear E.
    assert (Hp2 : a_panic a2 = None).
    { destruct (a_panic a2) as [w|]; [exfalso; eapply Hnp; reflexivity|reflexivity]. }
    assert (Hp1 : a_panic a1 = None).
    { destruct (a_panic a1) as [w|] eqn:Ep; [|reflexivity].
      rewrite Ha2, (multi_delete_panic_sticky n ds a1 w Ep) in Hp2. congruence. }
    assert (H0 : AInv2 m a0) by (split; [exact Hinv|constructor]).
    rewrite Ha1 in Hp1.
    pose proof (multi_updates_inv2 now n m us a0 eq_refl H0 Hgu Hp1) as H1. rewrite <- Ha1 in *.
    rewrite Ha2 in Hp2.
    pose proof (multi_deletes_inv2 n m ds a1 Hp1 H1 Hp2) as H2. rewrite <- Ha2 in *. exact (proj2 H2). }
  destruct (n_atomic n).
  - destruct (n_del n) as [|d ds].
    + destruct (n_upd n) as [|u us] eqn:Hu.
      * intros E _; inversion E; subst. constructor.
      * intros E _. apply (Hsingle _ E). apply Hg. now left.
    + intros E _; inversion E; subst. constructor.
  - destruct (n_upd n) as [|u [|u2 us]] eqn:Hu; destruct (n_del n) as [|d [|d2 ds]] eqn:Hd.
    + intros E _; inversion E; subst. constructor.
    + destruct (gnmi_remove (add_int t md_update_count 1) n) as [t1 r1] eqn:E.
      assert (Hinv0 : Inv name (add_int t md_update_count 1) m) by (eapply Inv_same; [| |exact Hinv]; reflexivity).
      intros E2 Hnp. destruct r1 as [rm|e|w]; inversion E2; subst; clear E2; try constructor.
      rewrite render_feed_single. cbn [render_group]. exact (removed_ft _ _ _ _ _ Hinv0 E).
    + apply (Hmulti [] (d :: d2 :: ds)). intros u0 [].
    + intros E _. apply (Hsingle _ E). apply Hg. now left.
    + apply (Hmulti [u] [d]). intros u0 Hu0. apply Hg. cbn [map app In] in *. destruct Hu0 as [<-|[]]. now left.
    + apply (Hmulti [u] (d :: d2 :: ds)).
      intros u0 Hu0. apply Hg. apply in_or_app. left. now apply (in_map (fun u => UUpd (clone_with_update n u))).
    + apply (Hmulti (u :: u2 :: us) []).
      intros u0 Hu0. apply Hg. apply in_or_app. left. now apply (in_map (fun u => UUpd (clone_with_update n u))).
    + apply (Hmulti (u :: u2 :: us) [d]).
      intros u0 Hu0. apply Hg. apply in_or_app. left. now apply (in_map (fun u => UUpd (clone_with_update n u))).
    + apply (Hmulti (u :: u2 :: us) (d :: d2 :: ds)).
      intros u0 Hu0. apply Hg. apply in_or_app. left. now apply (in_map (fun u => UUpd (clone_with_update n u))).
Qed.

End Target2.

(** ** the cache's own notifications *)

Lemma good_meta_noti name now k v :
  name <> "" -> is_glob k = false -> k <> "" -> tv_eqb v v = true ->
  good_unit name (meta_noti name now k v) /\ stored_index (meta_noti name now k v) = Ok [md_root; k].
Proof.
  intros Hn Hk Hk' Htv.
  assert (Hidx : stored_index (meta_noti name now k v) = Ok [md_root; k]).
  { unfold stored_index, meta_noti. cbn [n_upd n_atomic n_prefix u_path gp_of_opt].
    unfold join_prefix_and_path, to_strings, gp_of_names. cbn [gp_target gp_origin gp_elems gp_element map flat_map].
    unfold nonempty. destruct (String.eqb_spec name ""); [contradiction|]. reflexivity. }
  split; [|exact Hidx]. split; [reflexivity|]. split; [reflexivity|]. split.
  { unfold notif_eqb, meta_noti, update_eqb, ogpath_eqb, gpath_eqb, gp_of_names, otv_eqb.
    cbn -[String.eqb Z.eqb tv_eqb]. rewrite !Z.eqb_refl, !String.eqb_refl, Htv.
    unfold pelem_eqb, keymap_eqb. cbn -[String.eqb]. rewrite !String.eqb_refl. reflexivity. }
  split.
  { rewrite Hidx. unfold delete_index, del_prefix, del_path, meta_noti.
    cbn [n_upd n_atomic n_prefix u_path gp_of_opt gp_origin gp_target gp_elems gp_element gp_of_names map].
    cbn [String.eqb andb negb app]. unfold join_prefix_and_path, to_strings.
    cbn [gp_target gp_origin gp_elems gp_element flat_map]. unfold nonempty.
    destruct (String.eqb_spec name ""); [contradiction|]. reflexivity. }
  intros s Hs. rewrite Hidx in Hs. inversion Hs; subst. cbn. rewrite Hk.
  destruct (String.eqb_spec k ""); [contradiction|]. reflexivity.
Qed.

Section Target3.
Variable name : string.
Hypothesis name_ne : name <> "".

(** state threaded through generateMetaUpdates: target, feed so far, panic *)
Definition GInv (m0 : rmap) (st : target * list notif * option N) : Prop :=
  snd st = None ->
  Inv name (fst (fst st)) (fold_left feed_apply (snd (fst st)) m0) /\
  Forall (ft name) (snd (fst st)) /\ t_name (fst (fst st)) = name.

Lemma gen_meta_one_inv m0 now k v same st :
  is_glob k = false -> k <> "" -> (forall val, v = Some val -> tv_eqb val val = true) ->
  GInv m0 st -> GInv m0 (gen_meta_one now k v same st).
Proof.
  intros Hk Hk' Hv Hinv. destruct st as [[t feed] [w|]]; [exact Hinv|].
  unfold gen_meta_one. destruct (name_in k (cfg_excluded (t_cfg t))); [exact Hinv|].
  destruct v as [val|]; [|exact Hinv].
  destruct (meta_differs t k same) as [[|]|e|w]; try exact Hinv.
  2:{ intros H; discriminate H. }
  destruct (Hinv eq_refl) as (Hi & Hf & Hn). cbn [fst snd] in *.
  destruct (gnmi_update1 t now (meta_noti (t_name t) now k val)) as [t' r] eqn:E.
  rewrite Hn in E. destruct (good_meta_noti name now k val name_ne Hk Hk' (Hv val eq_refl)) as (Hg & _).
  pose proof (update_unit_inv name _ _ _ _ _ _ Hi Hg E) as H.
  assert (Hn' : t_name t' = name).
  { destruct (gnmi_update1_spec _ _ _ _ _ (proj1 Hi) E) as (_ & (_ & _ & Hnm) & _). congruence. }
  destruct r as [[nd|]|e|w]; intros Hp; cbn [fst snd] in *; try discriminate Hp.
  - rewrite fold_left_app. cbn [fold_left]. split; [exact H|]. split; [|exact Hn'].
    apply Forall_app. split; [exact Hf|]. constructor; [|constructor].
    rewrite (gnmi_update1_fed _ _ _ _ _ E). exact (proj1 Hg).
  - split; [exact H|]. split; assumption.
  - split; [exact H|]. split; assumption.
Qed.

Lemma gen_meta_fold_inv m0 now (names : list string)
  (mk : target * list notif * option N -> string -> option tv)
  (same : target * list notif * option N -> string -> tv -> option bool) :
  forallb (fun k => negb (is_glob k) && negb (String.eqb k "")) names = true ->
  (forall st k val, mk st k = Some val -> tv_eqb val val = true) ->
  forall st, GInv m0 st ->
  GInv m0 (fold_left (fun st k => gen_meta_one now k (mk st k) (same st k) st) names st).
Proof.
  induction names as [|k names IH]; intros Hall Hmk st Hinv; [exact Hinv|]. cbn [fold_left].
  cbn [forallb] in Hall. apply andb_true_iff in Hall as [Hk Hall]. apply andb_true_iff in Hk as [Hk1 Hk2].
  apply IH; [exact Hall|exact Hmk|]. apply gen_meta_one_inv; auto; [| |apply Hmk].
  - now apply negb_true_iff in Hk1.
  - apply negb_true_iff in Hk2. now apply String.eqb_neq in Hk2.
Qed.

Lemma generate_meta_updates_inv m0 t now :
  Inv name t m0 -> t_name t = name ->
  GInv m0 (generate_meta_updates t now).
Proof.
  intros Hi Hn. unfold generate_meta_updates.
  apply (gen_meta_fold_inv m0 now md_str_names
           (fun st k => option_map TStr (md_get_str (t_meta (fst (fst st))) k))
           (fun st k v => match v with
                          | TStr s => option_map (String.eqb s) (md_get_str (t_meta (fst (fst st))) k)
                          | _ => None end)); [reflexivity| |].
  { intros st k val. destruct (md_get_str _ k); cbn; intros E; inversion E. cbn. apply String.eqb_refl. }
  apply (gen_meta_fold_inv m0 now md_int_names
           (fun st k => option_map TInt (md_get_int (t_meta (fst (fst st))) k))
           (fun st k v => match v with
                          | TInt z => option_map (Z.eqb z) (md_get_int (t_meta (fst (fst st))) k)
                          | _ => None end)); [reflexivity| |].
  { intros st k val. destruct (md_get_int _ k); cbn; intros E; inversion E. cbn. apply Z.eqb_refl. }
  apply (gen_meta_fold_inv m0 now md_bool_names
           (fun st k => option_map TBool (md_get_bool (t_meta (fst (fst st))) k))
           (fun st k v => match v with
                          | TBool b => option_map (Bool.eqb b) (md_get_bool (t_meta (fst (fst st))) k)
                          | _ => None end)); [reflexivity| |].
  { intros st k val. destruct (md_get_bool _ k) as [[|]|]; cbn; intros E; inversion E; reflexivity. }
  intros _. cbn [fst snd fold_left]. split; [exact Hi|]. split; [constructor|exact Hn].
Qed.

Lemma update_meta_inv m0 t now :
  Inv name t m0 -> t_name t = name -> GInv m0 (update_meta t now).
Proof.
  intros Hi Hn. unfold update_meta. apply generate_meta_updates_inv; [|exact Hn].
  eapply Inv_same; [| |exact Hi]; reflexivity.
Qed.

(** ** Reset: the roots are deleted and announced one by one *)

Lemma qmatch_root r s : is_glob r = false -> qmatch [r] s = qmatch [r; "*"] s.
Proof.
  intros Hr. cbn [qmatch]. rewrite Hr. destruct s as [|a s']; [reflexivity|].
  cbn. now rewrite andb_true_r.
Qed.

Lemma delete_noti_index now r :
  r <> "" -> join_prefix_and_path (gp_of_opt (n_prefix (delete_noti name r now ["*"])))
                                  (gp_of_names ["*"]) = Ok [r; "*"].
Proof.
  intros Hr. unfold delete_noti. cbn [n_prefix gp_of_opt].
  unfold join_prefix_and_path, to_strings, gp_of_names. cbn [gp_target gp_origin gp_elems gp_element map flat_map].
  unfold nonempty. destruct (String.eqb_spec name ""); [contradiction|].
  destruct (String.eqb_spec r ""); [contradiction|]. reflexivity.
Qed.

Lemma root_child_stored (tr : tree notif) r :
  wf_tree tr -> In r (root_children tr) -> exists s v, lookup tr (r :: s) = Some v.
Proof.
  destruct tr as [[x|cs]|]; cbn [root_children wf_tree]; try (intros _ []).
  intros Hwf Hin. apply in_keys_assoc in Hin as (c & Hc).
  destruct (wf_inhabited c (wf_child _ _ _ Hwf Hc)) as (s & v & Hs).
  exists s, v. cbn [lookup]. rewrite lookup_branch_cons, Hc. exact Hs.
Qed.

Lemma reset_roots_inv now roots : forall t m0,
  Inv name t m0 ->
  (forall r, In r roots -> is_glob r = false /\ r <> "") ->
  Inv name (set_tree t (fold_left (fun tr r => fst (CTreeModel.delete tr [r])) roots (t_tree t)))
      (fold_left feed_apply (map (fun r => delete_noti name r now ["*"]) roots) m0).
Proof.
  induction roots as [|r roots IH]; intros t m0 Hi Hr; cbn [fold_left map].
  - eapply Inv_same; [| |exact Hi]; reflexivity.
  - destruct (Hr r (or_introl eq_refl)) as (Hg & Hne).
    destruct Hi as (Hwf & Hst & Hrel).
    destruct (tree_delete_spec (t_tree t) [r] (fun _ => true) Hwf) as (Hw' & Hl & _ & _).
    assert (Hi1 : Inv name (set_tree t (fst (CTreeModel.delete (t_tree t) [r])))
                      (feed_apply m0 (delete_noti name r now ["*"]))).
    { split; [exact Hw'|]. split.
      - intros s v. cbn [t_tree set_tree]. unfold CTreeModel.delete. rewrite Hl. unfold sel.
        destruct (lookup (t_tree t) s) as [w|] eqn:Hw; [|discriminate].
        destruct (qmatch [r] s && true); [discriminate|]. intros E; inversion E; subst. now apply Hst.
      - intros s. cbn [t_tree set_tree t_cfg]. unfold CTreeModel.delete. rewrite Hl.
        rewrite (feed_apply_delete m0 (delete_noti name r now ["*"]) (gp_of_names ["*"]) [r; "*"] name s
                   eq_refl eq_refl (delete_noti_index now r Hne)).
        change (feed_target (delete_noti name r now ["*"])) with name. rewrite String.eqb_refl. cbn [andb].
        rewrite <- (qmatch_root r s Hg). unfold sel. specialize (Hrel s).
        destruct (qmatch [r] s).
        + destruct (lookup (t_tree t) s); exact I.
        + destruct (lookup (t_tree t) s); exact Hrel. }
    specialize (IH _ _ Hi1 (fun r' Hr' => Hr r' (or_intror Hr'))).
    eapply Inv_same; [| |exact IH]; reflexivity.
Qed.

Theorem reset_inv m0 t now t' feed :
  Inv name t m0 -> t_name t = name -> target_reset t now = (t', feed, None) ->
  Inv name t' (fold_left feed_apply feed m0) /\ Forall (ft name) feed /\ t_name t' = name.
Proof.
  intros Hi Hn. unfold target_reset.
  set (t1 := set_meta (set_ts t None) (md_clear (t_meta t))).
  assert (Hi1 : Inv name t1 m0) by (eapply Inv_same; [| |exact Hi]; reflexivity).
  pose proof (update_meta_inv m0 t1 now Hi1 Hn) as Hg.
  destruct (update_meta t1 now) as [[t2 f2] [w|]]; [discriminate|].
  destruct (Hg eq_refl) as (Hi2 & Hf2 & Hn2). cbn [fst snd] in *.
  intros E; inversion E; subst t' feed; clear E.
  set (roots := filter (fun r => negb (String.eqb r md_root)) (root_children (t_tree t2))).
  assert (Hroots : forall r, In r roots -> is_glob r = false /\ r <> "").
  { intros r Hr. apply filter_In in Hr as [Hr _].
    destruct (root_child_stored _ r (proj1 Hi2) Hr) as (s & v & Hs).
    destruct Hi2 as (_ & Hst & _). destruct (Hst _ _ Hs) as ((_ & _ & _ & _ & Hgs) & Hsi).
    specialize (Hgs _ Hsi). cbn [glob_free forallb] in Hgs. apply andb_true_iff in Hgs as [Hk _].
    apply andb_true_iff in Hk as [H1 H2]. split; [now apply negb_true_iff in H1|].
    apply negb_true_iff in H2. now apply String.eqb_neq in H2. }
  rewrite Hn2, fold_left_app. split; [exact (reset_roots_inv now roots t2 _ Hi2 Hroots)|]. split; [|exact Hn2].
  apply Forall_app. split; [exact Hf2|]. apply Forall_forall. intros x Hx.
  apply in_map_iff in Hx as (r & <- & _). reflexivity.
Qed.

End Target3.

(** * The cache: several targets *)

Fixpoint cfeed (mf : mfeed) : list notif :=
  match mf with
  | MGroups gs => render_feed gs
  | MBag l => l
  | MSeq a b => cfeed a ++ cfeed b
  end.

Definition cstep (c : cache) (o : cop) : cache := fst (fst (mstep c o)).

(** every target's tree is stood for by the replayed map; an absent target
    has no replayed entry *)
Definition CInv (c : cache) (m : rmap) : Prop :=
  NoDup (keys (c_targets c)) /\
  (forall name t, assoc name (c_targets c) = Some t -> name <> "" /\ t_name t = name /\ Inv name t m) /\
  (forall name, assoc name (c_targets c) = None -> forall s, rfind m name s = None).

(** the calls the statement admits: notifications whose units are good for the
    target they name; Add only of an absent target (KF-C03-4) *)
Fixpoint good_op (c : cache) (o : cop) {struct o} : Prop :=
  match o with
  | OUpd _ n => good_notif (feed_target n) n
  | OAdd t => t <> "" /\ assoc t (c_targets c) = None
  | ORemove _ t => t <> ""
  | OPair a b => good_op c a /\ good_op (cstep c a) b
  | OUpdT _ tgt n => good_notif tgt n     (* a handle write whose prefix names the handle's target *)
  | _ => True
  end.

Lemma Inv_rfind_ext name t m m' :
  (forall s, rfind m' name s = rfind m name s) -> Inv name t m -> Inv name t m'.
Proof.
  intros Hext (A1 & A2 & A3). split; [exact A1|]. split; [exact A2|]. intros s. rewrite Hext. apply A3.
Qed.

Lemma c_targets_set_target c name t : c_targets (set_target c name t) = aset name t (c_targets c).
Proof. reflexivity. Qed.

Lemma CInv_update c m name t' m' :
  CInv c m -> name <> "" -> t_name t' = name -> Inv name t' m' ->
  (forall y s, y <> name -> rfind m' y s = rfind m y s) ->
  CInv (set_target c name t') m'.
Proof.
  intros (Hnd & Hs & Hn) Hne Hnm Hi Hext. unfold CInv. rewrite c_targets_set_target. split; [now apply NoDup_keys_aset|].
  split.
  - intros y t. rewrite assoc_aset. destruct (String.eqb_spec y name) as [->|Hy].
    + intros E; inversion E; subst. auto.
    + intros E. destruct (Hs y t E) as (A & B & C). split; [exact A|]. split; [exact B|].
      apply (Inv_rfind_ext y t m m'); [intros s; now apply Hext|exact C].
  - intros y. rewrite assoc_aset. destruct (String.eqb_spec y name) as [->|Hy]; [discriminate|].
    intros E s. rewrite Hext by exact Hy. now apply Hn.
Qed.

Lemma ft_other name l y : Forall (ft name) l -> y <> name -> Forall (fun x => feed_target x <> y) l.
Proof. intros H Hy. eapply Forall_impl; [|exact H]. unfold ft. intros x ->. congruence. Qed.

Lemma good_meta_unit name now k v :
  name <> "" -> is_glob k = false -> k <> "" -> tv_eqb v v = true -> good_notif name (meta_noti name now k v).
Proof.
  intros Hn Hk Hk' Htv m Hm. unfold units, meta_noti in Hm. cbn in Hm. destruct Hm as [Hm|[]].
  inversion Hm; subst. exact (proj1 (good_meta_noti name now k v Hn Hk Hk' Htv)).
Qed.

(** Target.GnmiUpdate keeps the name of the target *)
Lemma target_gnmi_update_name t now n :
  wf_tree (t_tree t) -> t_name (fst (fst (target_gnmi_update t now n))) = t_name t.
Proof.
  intros Hwf.
  assert (Hu : forall t0 m t1 r, wf_tree (t_tree t0) -> gnmi_update1 t0 now m = (t1, r) ->
             t_name t1 = t_name t0 /\ wf_tree (t_tree t1)).
  { intros t0 m t1 r Hw E. destruct (gnmi_update1_spec _ _ _ _ _ Hw E) as (A & (_ & _ & B) & _). auto. }
  assert (Hr : forall t0 m t1 r, wf_tree (t_tree t0) -> gnmi_remove t0 m = (t1, r) ->
             t_name t1 = t_name t0 /\ wf_tree (t_tree t1)).
  { intros t0 m t1 r Hw E. destruct (gnmi_remove_spec _ _ _ _ Hw E) as (A & (_ & _ & B) & _). auto. }
  assert (Hfin : forall b t1, t_name t1 = t_name t -> t_name (finish_ts n b t1) = t_name t).
  { intros b t1 H. now rewrite (proj2 (finish_ts_cfg n b t1)). }
  assert (Hmu : forall us a, wf_tree (t_tree (a_t a)) ->
            t_name (a_t (fold_left (multi_update_step now n) us a)) = t_name (a_t a) /\
            wf_tree (t_tree (a_t (fold_left (multi_update_step now n) us a)))).
  { induction us as [|u us IH]; intros a Hw; cbn [fold_left]; [auto|].
    assert (H1 : t_name (a_t (multi_update_step now n a u)) = t_name (a_t a) /\
                 wf_tree (t_tree (a_t (multi_update_step now n a u)))).
    { unfold multi_update_step. destruct (a_panic a); [auto|].
      destruct (gnmi_update1 (a_t a) now (clone_with_update n u)) as [t1 [[nd|]|e|w]] eqn:E;
        cbn [a_t]; destruct (Hu _ _ _ _ Hw E); auto. }
    destruct H1 as [A B]. destruct (IH _ B) as [C D]. split; [congruence|exact D]. }
  assert (Hmd : forall ds a, wf_tree (t_tree (a_t a)) ->
            t_name (a_t (fold_left (multi_delete_step n) ds a)) = t_name (a_t a) /\
            wf_tree (t_tree (a_t (fold_left (multi_delete_step n) ds a)))).
  { induction ds as [|d ds IH]; intros a Hw; cbn [fold_left]; [auto|].
    assert (H1 : t_name (a_t (multi_delete_step n a d)) = t_name (a_t a) /\
                 wf_tree (t_tree (a_t (multi_delete_step n a d)))).
    { unfold multi_delete_step. destruct (a_panic a); [auto|].
      destruct (gnmi_remove _ _) as [t1 [rm|e|w]] eqn:E; cbn [a_t];
        destruct (Hr (add_int (a_t a) md_update_count 1) _ _ _ Hw E); auto. }
    destruct H1 as [A B]. destruct (IH _ B) as [C D]. split; [congruence|exact D]. }
  unfold target_gnmi_update.
  destruct (n_atomic n).
  - destruct (n_del n); [|reflexivity]. destruct (n_upd n); [reflexivity|].
    destruct (gnmi_update1 t now n) as [t1 [[nd|]|e|w]] eqn:E; cbn [fst]; apply Hfin; exact (proj1 (Hu _ _ _ _ Hwf E)).
  - destruct (n_upd n) as [|u [|u2 us]]; destruct (n_del n) as [|d [|d2 ds]]; cbn [fst];
      try reflexivity;
      try (destruct (gnmi_update1 t now n) as [t1 [[nd|]|e|w]] eqn:E; cbn [fst]; apply Hfin; exact (proj1 (Hu _ _ _ _ Hwf E)));
      try (destruct (gnmi_remove _ n) as [t1 [rm|e|w]] eqn:E; cbn [fst]; exact (proj1 (Hr (add_int t md_update_count 1) _ _ _ Hwf E)));
      try (apply Hfin;
           match goal with
           | |- t_name (a_t (fold_left (multi_delete_step n) ?ds (fold_left (multi_update_step now n) ?us ?a0))) = _ =>
               destruct (Hmu us a0 Hwf) as [A B]; destruct (Hmd ds _ B) as [C _]; rewrite C, A; reflexivity
           end).
Qed.

(** a call on one target through Target.GnmiUpdate *)
Lemma on_target_inv c m name t now n t' gs r :
  CInv c m -> assoc name (c_targets c) = Some t -> good_notif name n ->
  target_gnmi_update t now n = (t', gs, r) -> (forall w, r <> GPanic w) ->
  CInv (set_target c name t') (fold_left feed_apply (render_feed gs) m).
Proof.
  intros Hc Ha Hg E Hnp. destruct (proj1 (proj2 Hc) name t Ha) as (Hne & Hnm & Hi).
  apply (CInv_update c m name t'); auto.
  - pose proof (target_gnmi_update_name t now n (proj1 Hi)) as H. rewrite E in H. cbn [fst] in H. congruence.
  - exact (target_update_inv name _ _ _ _ _ _ _ Hi Hg E Hnp).
  - intros y s Hy. apply feed_fold_other. apply (ft_other name); [|exact Hy].
    exact (target_update_ft name _ _ _ _ _ _ _ Hi Hg E Hnp).
Qed.

Lemma remove_noti_index name now :
  name <> "" ->
  join_prefix_and_path (gp_of_opt (n_prefix (delete_noti name "" now ["*"]))) (gp_of_names ["*"]) = Ok ["*"].
Proof.
  intros Hn. unfold delete_noti. cbn [n_prefix gp_of_opt].
  unfold join_prefix_and_path, to_strings, gp_of_names. cbn [gp_target gp_origin gp_elems gp_element map flat_map].
  unfold nonempty. destruct (String.eqb_spec name ""); [contradiction|]. reflexivity.
Qed.

Lemma update_meta_target_inv c m name t now t' feed :
  CInv c m -> assoc name (c_targets c) = Some t -> update_meta t now = (t', feed, None) ->
  CInv (set_target c name t') (fold_left feed_apply feed m).
Proof.
  intros Hc Ha E. destruct (proj1 (proj2 Hc) name t Ha) as (Hne & Hnm & Hi).
  pose proof (update_meta_inv name Hne m t now Hi Hnm) as Hg. rewrite E in Hg.
  destruct (Hg eq_refl) as (Hi' & Hf & Hn'). cbn [fst snd] in *.
  apply (CInv_update c m name t'); auto.
  intros y s Hy. apply feed_fold_other. now apply (ft_other name).
Qed.

(** every call keeps the invariant *)
Theorem cache_step_inv c m o c' r mf :
  CInv c m -> good_op c o -> mstep c o = (c', r, mf) -> r <> RPanic ->
  CInv c' (fold_left feed_apply (cfeed mf) m).
Proof.
  revert c m c' r mf.
  induction o as [now n|now tgt|now tgt|tgt|now tgt|now tgt|now tgt msg|now|now tgt n| |a IHa b IHb];
    intros c m c' r mf Hc Hg; cbn [mstep good_op] in *.
  9:{ (* a write through the Target handle *)
      destruct (assoc tgt (c_targets c)) as [t|] eqn:Ha.
      2:{ intros E _; inversion E; subst. exact Hc. }
      destruct (target_gnmi_update t now n) as [[t' gs] g] eqn:E1. intros E Hnp; inversion E; subst; clear E.
      apply (on_target_inv c m tgt t now n t' gs g Hc Ha Hg E1). intros w ->. apply Hnp. reflexivity. }
  10:{ (* a pair is its two calls in sequence *)
       destruct Hg as [Hga Hgb]. unfold cstep in Hgb.
       destruct (mstep c a) as [[c1 r1] f1] eqn:Ea. destruct (mstep c1 b) as [[c2 r2] f2] eqn:Eb.
       cbn [fst] in Hgb. intros E Hnp; inversion E; subst; clear E. cbn [cfeed]. rewrite fold_left_app.
       assert (H1 : r1 <> RPanic) by (intros ->; apply Hnp; reflexivity).
       assert (H2 : r2 <> RPanic) by (intros ->; apply Hnp; destruct r1; reflexivity).
       exact (IHb _ _ _ _ _ (IHa _ _ _ _ _ Hc Hga Ea H1) Hgb Eb H2). }
  9:{ intros E _; inversion E; subst. exact Hc. }
  - (* GnmiUpdate *)
    unfold cache_gnmi_update. destruct (n_prefix n) as [pr|] eqn:Hp.
    2:{ intros E _; inversion E; subst. exact Hc. }
    destruct (assoc (gp_target pr) (c_targets c)) as [t|] eqn:Ha.
    2:{ intros E _; inversion E; subst. exact Hc. }
    destruct (target_gnmi_update t now n) as [[t' gs] g] eqn:E1. intros E Hnp; inversion E; subst; clear E.
    assert (Hft : feed_target n = gp_target pr) by (unfold feed_target; now rewrite Hp).
    rewrite Hft in Hg. apply (on_target_inv c m _ t now n t' gs g Hc Ha Hg E1).
    intros w ->. apply Hnp. reflexivity.
  - (* Reset *)
    unfold cache_reset. destruct (assoc tgt (c_targets c)) as [t|] eqn:Ha.
    2:{ intros E _; inversion E; subst. exact Hc. }
    destruct (target_reset t now) as [[t' feed] p] eqn:E1. intros E Hnp; inversion E; subst; clear E.
    destruct p as [w|]; [exfalso; apply Hnp; reflexivity|].
    destruct (proj1 (proj2 Hc) tgt t Ha) as (Hne & Hnm & Hi).
    destruct (reset_inv tgt Hne m t now t' feed Hi Hnm E1) as (Hi' & Hf & Hn').
    apply (CInv_update c m tgt t'); auto.
    intros y s Hy. apply feed_fold_other. now apply (ft_other tgt).
  - (* Remove *)
    unfold cache_remove. intros E _; inversion E; subst; clear E. cbn [cfeed fold_left].
    destruct Hc as (Hnd & Hs & Hn). split; [cbn [c_targets]; now apply NoDup_keys_adel|].
    assert (Hrf : forall y s, rfind (feed_apply m (delete_noti tgt "" now ["*"])) y s =
                              if String.eqb y tgt then None else rfind m y s).
    { intros y s.
      rewrite (feed_apply_delete m (delete_noti tgt "" now ["*"]) (gp_of_names ["*"]) ["*"] y s
                 eq_refl eq_refl (remove_noti_index tgt now Hg)).
      change (feed_target (delete_noti tgt "" now ["*"])) with tgt.
      destruct (String.eqb y tgt); reflexivity. }
    split.
    + intros y t. cbn [c_targets]. rewrite (assoc_adel _ _ _ Hnd).
      destruct (String.eqb_spec y tgt) as [->|Hy]; [discriminate|]. intros E.
      destruct (Hs y t E) as (A & B & C). split; [exact A|]. split; [exact B|].
      apply (Inv_rfind_ext y t m); [|exact C]. intros s. rewrite Hrf.
      destruct (String.eqb_spec y tgt); [contradiction|reflexivity].
    + intros y. cbn [c_targets]. rewrite (assoc_adel _ _ _ Hnd). intros E s. rewrite Hrf.
      destruct (String.eqb_spec y tgt) as [Heq|Hy]; [reflexivity|]. now apply Hn.
  - (* Add of an absent target *)
    intros E _; inversion E; subst; clear E. cbn [cfeed fold_left]. destruct Hg as [Hne Habs].
    unfold cache_add. destruct Hc as (Hnd & Hs & Hn). split; [cbn [c_targets]; now apply NoDup_keys_aset|].
    split.
    + intros y t. cbn [c_targets]. rewrite assoc_aset. destruct (String.eqb_spec y tgt) as [->|Hy].
      * intros E; inversion E; subst. split; [exact Hne|]. split; [reflexivity|].
        split; [exact I|]. split; [intros s v Hv; discriminate|].
        intros s. cbn. rewrite (Hn tgt Habs s). exact I.
      * apply Hs.
    + intros y. cbn [c_targets]. rewrite assoc_aset. destruct (String.eqb_spec y tgt); [discriminate|]. apply Hn.
  - (* Sync *)
    unfold cache_sync, cache_on_target. destruct (assoc tgt (c_targets c)) as [t|] eqn:Ha.
    2:{ intros E _; inversion E; subst. exact Hc. }
    destruct (target_gnmi_update t now (meta_noti tgt now md_sync (TBool true))) as [[t' gs] g] eqn:E1.
    intros E Hnp; inversion E; subst; clear E.
    destruct (proj1 (proj2 Hc) tgt t Ha) as (Hne & _ & _).
    apply (on_target_inv c m tgt t now (meta_noti tgt now md_sync (TBool true)) t' gs g Hc Ha);
      [|exact E1|intros w ->; apply Hnp; reflexivity].
    apply good_meta_unit; [exact Hne|reflexivity|discriminate|cbn; rewrite ?String.eqb_refl; reflexivity].
  - (* Connect: two calls *)
    unfold cache_connect, cache_on_target. destruct (assoc tgt (c_targets c)) as [t|] eqn:Ha.
    2:{ intros E _; inversion E; subst. exact Hc. }
    destruct (target_gnmi_update t now (meta_noti tgt now md_connected (TBool true))) as [[t1 f1] r1] eqn:E1.
    destruct (proj1 (proj2 Hc) tgt t Ha) as (Hne & _ & _).
    assert (Hg1 : good_notif tgt (meta_noti tgt now md_connected (TBool true)))
      by (apply good_meta_unit; [exact Hne|reflexivity|discriminate|reflexivity]).
    destruct r1 as [|e|es|w].
    4:{ intros E Hnp; inversion E; subst. exfalso. apply Hnp. reflexivity. }
    all: destruct (target_gnmi_update t1 now (delete_noti tgt "" now [md_root; md_connect_error])) as [[t2 f2] r2] eqn:E2;
      intros E Hnp; inversion E; subst; clear E;
      (assert (Hc1 : CInv (set_target c tgt t1) (fold_left feed_apply (render_feed f1) m))
        by (apply (on_target_inv c m tgt t now _ t1 f1 _ Hc Ha Hg1 E1); intros w; discriminate));
      (assert (Ha1 : assoc tgt (c_targets (set_target c tgt t1)) = Some t1)
        by (rewrite c_targets_set_target, assoc_aset, String.eqb_refl; reflexivity));
      (assert (Hg2 : good_notif tgt (delete_noti tgt "" now [md_root; md_connect_error]))
        by (intros x Hx; cbn in Hx; destruct Hx as [Hx|[]]; discriminate Hx));
      (assert (Hnp2 : forall w, r2 <> GPanic w)
        by (intros w ->; apply Hnp; reflexivity));
      pose proof (on_target_inv _ _ tgt t1 now _ t2 f2 r2 Hc1 Ha1 Hg2 E2 Hnp2) as H2;
      cbn [cfeed]; rewrite render_feed_app, fold_left_app;
      (replace (set_target c tgt t2) with (set_target (set_target c tgt t1) tgt t2); [exact H2|]);
      unfold set_target; cbn [c_cfg c_targets]; f_equal;
      clear; induction (c_targets c) as [|[k v] l IH]; cbn; [now rewrite String.eqb_refl|];
      destruct (String.eqb tgt k) eqn:Hk; cbn; rewrite ?Hk; [reflexivity|now rewrite IH].
  - (* ConnectError *)
    unfold cache_connect_error, cache_on_target. destruct (assoc tgt (c_targets c)) as [t|] eqn:Ha.
    2:{ intros E _; inversion E; subst. exact Hc. }
    destruct (target_gnmi_update t now (meta_noti tgt now md_connect_error (TStr msg))) as [[t' gs] g] eqn:E1.
    intros E Hnp; inversion E; subst; clear E.
    destruct (proj1 (proj2 Hc) tgt t Ha) as (Hne & _ & _).
    apply (on_target_inv c m tgt t now (meta_noti tgt now md_connect_error (TStr msg)) t' gs g Hc Ha);
      [|exact E1|intros w ->; apply Hnp; reflexivity].
    apply good_meta_unit; [exact Hne|reflexivity|discriminate|cbn; rewrite ?String.eqb_refl; reflexivity].
  - (* UpdateMetadata: every target in turn *)
    unfold cache_update_metadata.
    assert (Hfold : forall (l : list (string * target)) (st : cache * list notif * option N),
      (snd st = None -> CInv (fst (fst st)) (fold_left feed_apply (snd (fst st)) m)) ->
      let st' := fold_left (fun (st : cache * list notif * option N) (kt : string * target) =>
        match st with
        | (c', feed, Some w) => st
        | (c', feed, None) =>
            match assoc (fst kt) (c_targets c') with
            | None => st
            | Some t => let '(t', f, p) := update_meta t now in (set_target c' (fst kt) t', feed ++ f, p)
            end
        end) l st in
      snd st' = None -> CInv (fst (fst st')) (fold_left feed_apply (snd (fst st')) m)).
    { induction l as [|kt l IH]; intros st Hst; cbn [fold_left]; [exact Hst|]. apply IH.
      destruct st as [[c0 feed] [w|]]; [exact Hst|].
      destruct (assoc (fst kt) (c_targets c0)) as [t|] eqn:Ha; [|exact Hst].
      destruct (update_meta t now) as [[t' f] p] eqn:E1. cbn [fst snd]. intros ->.
      rewrite fold_left_app. exact (update_meta_target_inv c0 _ (fst kt) t now t' f (Hst eq_refl) Ha E1). }
    intros E Hnp. pose proof (Hfold (c_targets c) (c, [], None) (fun _ => Hc)) as HF. cbv zeta in HF.
    clear Hfold. cbn [fst snd] in HF.
    set (F := fold_left _ (c_targets c) (c, [], None)) in *.
    destruct F as [[c1 l1] p1]. inversion E; subst; clear E. cbn [fst snd cfeed] in *.
    apply HF. destruct p1; [exfalso; apply Hnp; reflexivity|reflexivity].
Qed.

(** ** histories of calls on the cache *)

Definition crun (c : cache) (ops : list cop) : cache := fold_left cstep ops c.

(** everything handed to the callback registered with SetClient, in order *)
Fixpoint cfeed_hist (c : cache) (ops : list cop) : list notif :=
  match ops with
  | [] => []
  | o :: ops' => cfeed (snd (mstep c o)) ++ cfeed_hist (cstep c o) ops'
  end.

Fixpoint good_ops (c : cache) (ops : list cop) : Prop :=
  match ops with
  | [] => True
  | o :: ops' => good_op c o /\ snd (fst (mstep c o)) <> RPanic /\ good_ops (cstep c o) ops'
  end.

Lemma cache_history_inv ops : forall c m,
  CInv c m -> good_ops c ops -> CInv (crun c ops) (fold_left feed_apply (cfeed_hist c ops) m).
Proof.
  induction ops as [|o ops IH]; intros c m Hc Hg; cbn [crun fold_left cfeed_hist]; [exact Hc|].
  destruct Hg as (Hg1 & Hg2 & Hg3). rewrite fold_left_app. fold (crun (cstep c o) ops).
  apply IH; [|exact Hg3]. unfold cstep in *.
  destruct (mstep c o) as [[c' r] mf] eqn:E. cbn [fst snd] in *.
  exact (cache_step_inv c m o c' r mf Hc Hg1 E Hg2).
Qed.

Lemma new_cache_inv cfg names :
  NoDup names -> ~ In "" names -> CInv (new_cache cfg names) [].
Proof.
  intros _ Hne. unfold new_cache, CInv. cbn [c_targets].
  assert (H : forall l acc,
            NoDup (keys acc) ->
            (forall k, In k l -> k <> "") ->
            (forall name t, assoc name acc = Some t -> name <> "" /\ t = new_target name cfg) ->
            NoDup (keys (fold_left (fun m k => aset k (new_target k cfg) m) l acc)) /\
            (forall name t, assoc name (fold_left (fun m k => aset k (new_target k cfg) m) l acc) = Some t ->
                            name <> "" /\ t = new_target name cfg)).
  { induction l as [|k l IH]; intros acc Hnd Hl Hacc; cbn [fold_left]; [auto|].
    apply IH; [now apply NoDup_keys_aset|intros k' Hk'; apply Hl; now right|].
    intros nm t. rewrite assoc_aset. destruct (String.eqb_spec nm k) as [->|].
    - intros E; inversion E; subst. split; [apply Hl; now left|reflexivity].
    - apply Hacc. }
  assert (A0 : forall name t, assoc name (@nil (string * target)) = Some t -> name <> "" /\ t = new_target name cfg)
    by (intros nm t E; discriminate E).
  assert (A1 : forall k, In k names -> k <> "") by (intros k Hk ->; exact (Hne Hk)).
  destruct (H names [] (NoDup_nil _) A1 A0) as [A B].
  split; [exact A|]. split.
  - intros nm t E. destruct (B nm t E) as [H1 ->]. split; [exact H1|]. split; [reflexivity|].
    split; [exact I|]. split; [intros s v Hv; discriminate|intros s; exact I].
  - intros nm _ s. reflexivity.
Qed.

(** C03 over the whole cache: for every history of GnmiUpdate, Reset, Remove,
    Add (of absent targets), Sync, Connect, ConnectError and UpdateMetadata
    calls over any number of targets -- hence at every prefix of it --
    replaying the callback stream reproduces every target's stored leaves (in
    the sense of [rel]), metadata leaves included, and holds nothing for a
    target that is absent *)
Theorem feed_replays_cache cfg names ops :
  NoDup names -> ~ In "" names -> good_ops (new_cache cfg names) ops ->
  forall name,
    match assoc name (c_targets (crun (new_cache cfg names) ops)) with
    | Some t => forall s, rel (cfg_event_driven (t_cfg t))
                              (rfind (replay (cfeed_hist (new_cache cfg names) ops)) name s)
                              (lookup (t_tree t) s)
    | None => forall s, rfind (replay (cfeed_hist (new_cache cfg names) ops)) name s = None
    end.
Proof.
  intros Hnd Hne Hg name.
  destruct (cache_history_inv ops _ _ (new_cache_inv cfg names Hnd Hne) Hg) as (_ & Hs & Hn).
  destruct (assoc name (c_targets (crun (new_cache cfg names) ops))) as [t|] eqn:Ha.
  - destruct (Hs name t Ha) as (_ & _ & (_ & Hst & Hrel)). intros s. apply srel_rel; [|apply Hrel].
    intros c Hc. destruct (Hst s c Hc) as ((_ & _ & Hrf & _) & _). exact Hrf.
  - exact (Hn name Ha).
Qed.

(** non-vacuity: two targets, every kind of call *)
Definition ex_ops : list cop :=
  [OUpd 0 (wit_upd 1 ["a"] None "b" 1);
   OUpd 0 (Notif 1 (Some (gp_prefix "u" "" ["a"])) None [Upd (Some (gp_of_names ["b"])) (Some (TInt 7)) 0] [] false);
   OSync 1 "t"; OConnectError 1 "u" "boom"; OConnect 2 "u";
   OUpd 0 (wit_upd 2 ["a"] None "b" 1);
   OUpdateMeta 3;
   OReset 4 "t";
   OUpd 0 (wit_upd 5 ["a"] None "c" 2);
   ORemove 5 "u"; OAdd "u";
   OUpd 0 (Notif 9 (wit_pfx []) None [] [gp_of_names ["*"]] false)].

Example ex_ops_good :
  good_ops (new_cache wit_cfg ["t"; "u"]) ex_ops /\
  List.length (cfeed_hist (new_cache wit_cfg ["t"; "u"]) ex_ops) = 53%nat.
Proof.
  split; [|vm_compute; reflexivity].
  cbn [good_ops ex_ops].
  repeat match goal with
         | |- _ /\ _ => split
         | |- True => exact I
         | |- _ <> RPanic => vm_compute; discriminate
         | |- good_op _ (OUpd _ _) =>
             intros x Hx; cbn in Hx; repeat (destruct Hx as [Hx|Hx]; [inversion Hx; subst; clear Hx|]); try contradiction;
             (split; [reflexivity|split; [reflexivity|split; [reflexivity|split; [reflexivity|
                intros s Hs; vm_compute in Hs; inversion Hs; subst; reflexivity]]]])
         | |- good_op _ (OAdd _) => split; [discriminate|vm_compute; reflexivity]
         | |- good_op _ (ORemove _ _) => cbn; discriminate
         | |- good_op _ _ => exact I
         end.
Qed.

(** * A multi notification is its single notifications, one at a time *)

(** the single notifications a multi notification is broken into *)
Definition singles (n : notif) : list notif :=
  map (clone_with_update n) (n_upd n) ++ map (clone_with_delete n) (n_del n).

Lemma future_guard_off thr now latest ts : thr <= 0 -> future_guard thr now latest ts = false.
Proof. intros H. unfold future_guard. destruct (Z.ltb_spec 0 thr); [lia|reflexivity]. Qed.

Lemma spec_step_latest_irrelevant thr o now l1 l2 m :
  thr <= 0 -> spec_leaf_step thr o (LUpd now l1 m) = spec_leaf_step thr o (LUpd now l2 m).
Proof.
  intros H. unfold spec_leaf_step. destruct o as [x|]; [|reflexivity].
  now rewrite !(future_guard_off thr now _ _ H).
Qed.

Lemma unit_fold_latest_irrelevant thr now q e l1 l2 o :
  thr <= 0 ->
  fold_left (spec_leaf_step thr) (unit_events l1 now q e) o =
  fold_left (spec_leaf_step thr) (unit_events l2 now q e) o.
Proof.
  intros H. destruct e as [m|m]; cbn [unit_events]; [|reflexivity].
  destruct (unit_ok m) as [p|]; [|reflexivity]. destruct (path_eqb q p); [|reflexivity].
  cbn [fold_left]. now apply spec_step_latest_irrelevant.
Qed.

Definition unit_of_single (n : notif) (s : notif) : unit_ev :=
  match n_upd s with [] => UDel s | _ :: _ => UUpd s end.

Lemma units_single_update n u :
  n_atomic n = false -> units (clone_with_update n u) = [UUpd (clone_with_update n u)].
Proof. intros H. unfold units, clone_with_update. cbn [n_atomic n_upd n_del]. now rewrite H. Qed.

Lemma units_single_delete n d :
  n_atomic n = false -> units (clone_with_delete n d) = [UDel (clone_with_delete n d)].
Proof. intros H. unfold units, clone_with_delete. cbn [n_atomic n_upd n_del]. now rewrite H. Qed.

Lemma units_multi n :
  n_atomic n = false -> (2 <= List.length (n_upd n) + List.length (n_del n))%nat ->
  units n = map (fun u => UUpd (clone_with_update n u)) (n_upd n) ++
            map (fun d => UDel (clone_with_delete n d)) (n_del n).
Proof.
  intros Ha Hl. unfold units. rewrite Ha.
  destruct (n_upd n) as [|u [|u2 us]]; destruct (n_del n) as [|d [|d2 ds]]; cbn in Hl; try lia; reflexivity.
Qed.

(** the units of the singles, in order, are the units of the multi notification *)
Lemma singles_units n :
  n_atomic n = false ->
  flat_map units (singles n) =
  map (fun u => UUpd (clone_with_update n u)) (n_upd n) ++
  map (fun d => UDel (clone_with_delete n d)) (n_del n).
Proof.
  intros Ha. unfold singles. rewrite flat_map_app. f_equal.
  - induction (n_upd n) as [|u us IH]; [reflexivity|]. cbn [map flat_map].
    now rewrite (units_single_update n u Ha), IH.
  - induction (n_del n) as [|d ds IH]; [reflexivity|]. cbn [map flat_map].
    now rewrite (units_single_delete n d Ha), IH.
Qed.

Lemma seq_leaf now q : forall (l : list notif) t o,
  thr_of t <= 0 -> wf_tree (t_tree t) ->
  clean_history t (map (pair now) l) ->
  lookup (t_tree t) q = o ->
  forall t0, thr_of t0 = thr_of t ->
  lookup (t_tree (trun t (map (pair now) l))) q = lookup_after t0 now q (flat_map units l) o.
Proof.
  induction l as [|s l IH]; intros t o Hthr Hwf Hcl Ho t0 Ht0; cbn [map trun fold_left flat_map].
  - exact Ho.
  - destruct Hcl as [Hc1 Hc2]. fold (trun (tstep t (now, s)) (map (pair now) l)).
    destruct (tstep_spec t (now, s) Hwf Hc1) as (Hw & Hcfg & _ & Hl).
    rewrite lookup_after_app.
    apply (IH (tstep t (now, s))); auto.
    + unfold thr_of in *. now rewrite Hcfg.
    + rewrite Hl, Ho. cbn [fst snd]. unfold notif_events, lookup_after. rewrite Ht0.
      generalize (units s). intros us. generalize o at 1 2. clear -Hthr. induction us as [|e us IH]; intros o; [reflexivity|].
      cbn [flat_map]. rewrite !fold_left_app, IH. f_equal. now apply unit_fold_latest_irrelevant.
    + unfold thr_of in *. now rewrite Hcfg.
Qed.

(** with the future check disabled, a multi notification leaves every leaf
    exactly as its single notifications do when sent one after the other
    through the same entry point, updates first, then deletes *)
Theorem multi_is_sequence t now n q :
  wf_tree (t_tree t) -> thr_of t <= 0 ->
  n_atomic n = false -> (2 <= List.length (n_upd n) + List.length (n_del n))%nat ->
  clean (tres t (now, n)) -> clean_history t (map (pair now) (singles n)) ->
  lookup (t_tree (tstep t (now, n))) q =
  lookup (t_tree (trun t (map (pair now) (singles n)))) q.
Proof.
  intros Hwf Hthr Ha Hl Hc1 Hc2.
  destruct (tstep_spec t (now, n) Hwf Hc1) as (_ & _ & _ & Hlk). rewrite Hlk. cbn [fst snd].
  rewrite (seq_leaf now q (singles n) t (lookup (t_tree t) q) Hthr Hwf Hc2 eq_refl t eq_refl).
  unfold notif_events, lookup_after. now rewrite (singles_units n Ha), (units_multi n Ha Hl).
Qed.

(** with a future threshold the two differ: inside a multi notification the
    latest accepted timestamp does not move until the whole notification is
    processed, so a later update of the same notification is still judged
    against the old one *)
Definition wit_seq_cfg : config := Cfg 2 true [].
Definition wit_seq_t : target := trun (new_target "t" wit_seq_cfg) [(0, wit_upd 1 ["a"] None "c" 1)].
Definition wit_seq_n : notif :=
  Notif 10 (wit_pfx ["a"]) None
        [Upd (Some (gp_of_names ["b"])) (Some (TInt 1)) 0; Upd (Some (gp_of_names ["c"])) (Some (TInt 2)) 0] [] false.

Lemma multi_is_sequence_refuted :
  wf_tree (t_tree wit_seq_t) /\ thr_of wit_seq_t = 2 /\
  clean (tres wit_seq_t (0, wit_seq_n)) /\ clean_history wit_seq_t (map (pair 0) (singles wit_seq_n)) /\
  lookup (t_tree (tstep wit_seq_t (0, wit_seq_n))) ["a"; "c"] <>
  lookup (t_tree (trun wit_seq_t (map (pair 0) (singles wit_seq_n)))) ["a"; "c"].
Proof.
  assert (Hcl : forall P : Prop, P -> P) by auto.
  split; [|split; [reflexivity|split; [vm_compute; repeat (constructor; try (intro HH; discriminate HH))|split; [vm_compute; repeat (constructor; try (intro HH; discriminate HH))|]]]].
  - unfold wit_seq_t. apply (tstep_spec (new_target "t" wit_seq_cfg) (0, wit_upd 1 ["a"] None "c" 1) I). cbv. exact I.
  - vm_compute. discriminate.
Qed.

(** * Two writers of one target

    Since /repo b865e5c every writer entry point (GnmiUpdate, Reset, Sync,
    Connect, ConnectError, UpdateMetadata) holds the target's write lock across
    [decide; write the tree; announce].  A small transition system: two writers,
    each [acquire; decide (read the state, compute the call's outcome);
    commit (write the outcome, append what is announced); release], over ANY
    sequential semantics [f] of a call (in particular [mstep]).  With the lock
    every schedule ends in the state and feed of one of the two sequential
    orders; without it the decision can be stale at commit time
    ([unlocked_lost_update]: the interleaving of C02/seed_ua). *)
Section TwoWriters.
Context {S F O : Type}.
Variable f : S -> O -> S * list F.      (* one call: new state, what it announces *)
Variable op : bool -> O.                (* the call of writer [true] / [false] *)
Variable s0 : S.
Variable locked : bool.                 (* does the critical section take the lock *)

Record wst := W { w_pc : nat; w_loc : option (S * list F) }.
Record tst := T { sh : S; fd : list F; lk : option bool; wt : wst; wf : wst; ord : list bool }.

Definition wr (st : tst) (i : bool) : wst := if i then wt st else wf st.
Definition set_wr (st : tst) (i : bool) (w : wst) : tst :=
  if i then T (sh st) (fd st) (lk st) w (wf st) (ord st) else T (sh st) (fd st) (lk st) (wt st) w (ord st).

Definition tinit : tst := T s0 [] None (W 0 None) (W 0 None) [].

Definition tstep2 (st : tst) (i : bool) : option tst :=
  let w := wr st i in
  match w_pc w with
  | 0%nat =>
      if locked then
        match lk st with
        | None => Some (set_wr (T (sh st) (fd st) (Some i) (wt st) (wf st) (ord st)) i (W 1 None))
        | Some _ => None                                    (* blocked *)
        end
      else Some (set_wr st i (W 1 None))
  | 1%nat => Some (set_wr st i (W 2 (Some (f (sh st) (op i)))))          (* decide *)
  | 2%nat =>
      match w_loc w with
      | Some (s', a) =>                                                   (* commit what was decided *)
          Some (set_wr (T s' (fd st ++ a) (lk st) (wt st) (wf st) (ord st ++ [i])) i (W 3 None))
      | None => None
      end
  | 3%nat =>
      Some (set_wr (T (sh st) (fd st) (if locked then None else lk st) (wt st) (wf st) (ord st)) i (W 4 None))
  | _ => None
  end.

Fixpoint trun2 (sched : list bool) (st : tst) : option tst :=
  match sched with
  | [] => Some st
  | i :: sched' => match tstep2 st i with Some st' => trun2 sched' st' | None => None end
  end.

(** the calls of [order], one after the other *)
Definition seqrun (order : list bool) : S * list F :=
  fold_left (fun sa i => let '(s', a) := f (fst sa) (op i) in (s', snd sa ++ a)) order (s0, []).

Definition in_cs (w : wst) : Prop := (1 <= w_pc w <= 3)%nat.

Definition TInv (st : tst) : Prop :=
  (sh st, fd st) = seqrun (ord st) /\ NoDup (ord st) /\
  forall i, let w := wr st i in
    (in_cs w <-> lk st = Some i) /\
    (In i (ord st) <-> (3 <= w_pc w)%nat) /\
    (w_pc w = 2%nat -> w_loc w = Some (f (sh st) (op i))) /\
    (w_pc w <= 4)%nat.

Lemma seqrun_snoc order i :
  seqrun (order ++ [i]) =
  let '(s', a) := f (fst (seqrun order)) (op i) in (s', snd (seqrun order) ++ a).
Proof. unfold seqrun. now rewrite fold_left_app. Qed.

Lemma wr_set_same st i w : wr (set_wr st i w) i = w.
Proof. destruct i; reflexivity. Qed.
Lemma wr_set_other st i w : wr (set_wr st i w) (negb i) = wr st (negb i).
Proof. destruct i; reflexivity. Qed.

Ltac tw_fin :=
  repeat split; intros; try lia; try discriminate; try congruence; try tauto;
  intuition (try lia; try discriminate; try congruence).

Lemma tstep2_inv st i st' : locked = true -> TInv st -> tstep2 st i = Some st' -> TInv st'.
Proof.
  intros Hl (Hseq & Hnd & Hw) E. unfold tstep2 in E. rewrite Hl in E.
  pose proof (Hw true) as (Ht1 & Ht2 & Ht3 & Ht4). pose proof (Hw false) as (Hf1 & Hf2 & Hf3 & Hf4). clear Hw.
  unfold TInv, in_cs in *. cbv zeta in *.
  destruct st as [s fd0 l [pt lt] [pf lf] o]. cbn [wr wt wf sh fd lk ord w_pc w_loc] in *.
  destruct i; cbn [wr set_wr wt wf sh fd lk ord w_pc w_loc] in E.
  - destruct pt as [|[|[|[|k]]]].
    + destruct l; [discriminate|]. inversion E; subst st'; clear E. cbn.
      split; [exact Hseq|]. split; [exact Hnd|]. intros [|]; cbn; tw_fin.
    + inversion E; subst st'; clear E. cbn.
      assert (Hlk : l = Some true) by (apply Ht1; lia).
      split; [exact Hseq|]. split; [exact Hnd|]. intros [|]; cbn; tw_fin.
    + rewrite (Ht3 eq_refl) in E. destruct (f s (op true)) as [s' a] eqn:Ef.
      inversion E; subst st'; clear E. cbn [wr set_wr wt wf sh fd lk ord w_pc w_loc].
      assert (Hni : ~ In true o) by (intros H; apply Ht2 in H; lia).
      assert (Hlk : l = Some true) by (apply Ht1; lia).
      split; [rewrite seqrun_snoc, <- Hseq; cbn [fst snd]; now rewrite Ef|].
      split; [apply NoDup_app_intro_single; assumption|].
      intros [|]; cbn [wr set_wr wt wf sh fd lk ord w_pc w_loc]; rewrite ?in_app_iff; cbn [In].
      * tw_fin.
      * split; [exact Hf1|]. split; [|split; [|exact Hf4]].
        -- split; [intros [H|[H|[]]]; [now apply Hf2|discriminate]|intros H; left; now apply Hf2].
        -- intros H2. exfalso. assert (l = Some false) by (apply Hf1; lia). congruence.
    + inversion E; subst st'; clear E. cbn.
      assert (Hlk : l = Some true) by (apply Ht1; lia).
      split; [exact Hseq|]. split; [exact Hnd|]. intros [|]; cbn; tw_fin.
    + discriminate.
  - destruct pf as [|[|[|[|k]]]].
    + destruct l; [discriminate|]. inversion E; subst st'; clear E. cbn.
      split; [exact Hseq|]. split; [exact Hnd|]. intros [|]; cbn; tw_fin.
    + inversion E; subst st'; clear E. cbn.
      assert (Hlk : l = Some false) by (apply Hf1; lia).
      split; [exact Hseq|]. split; [exact Hnd|]. intros [|]; cbn; tw_fin.
    + rewrite (Hf3 eq_refl) in E. destruct (f s (op false)) as [s' a] eqn:Ef.
      inversion E; subst st'; clear E. cbn [wr set_wr wt wf sh fd lk ord w_pc w_loc].
      assert (Hni : ~ In false o) by (intros H; apply Hf2 in H; lia).
      assert (Hlk : l = Some false) by (apply Hf1; lia).
      split; [rewrite seqrun_snoc, <- Hseq; cbn [fst snd]; now rewrite Ef|].
      split; [apply NoDup_app_intro_single; assumption|].
      intros [|]; cbn [wr set_wr wt wf sh fd lk ord w_pc w_loc]; rewrite ?in_app_iff; cbn [In].
      * split; [exact Ht1|]. split; [|split; [|exact Ht4]].
        -- split; [intros [H|[H|[]]]; [now apply Ht2|discriminate]|intros H; left; now apply Ht2].
        -- intros H2. exfalso. assert (l = Some true) by (apply Ht1; lia). congruence.
      * tw_fin.
    + inversion E; subst st'; clear E. cbn.
      assert (Hlk : l = Some false) by (apply Hf1; lia).
      split; [exact Hseq|]. split; [exact Hnd|]. intros [|]; cbn; tw_fin.
    + discriminate.
Qed.

Lemma tinit_inv : TInv tinit.
Proof.
  split; [reflexivity|]. split; [constructor|]. intros i. destruct i; cbn; unfold in_cs; cbn;
    repeat split; try lia; try discriminate; try tauto.
Qed.

(** with the lock, every schedule is one of the two sequential orders: at any
    point state and feed are those of the calls committed so far, in commit
    order; when both writers are done that order is one of the two *)
Theorem locked_writers_serialise sched st :
  locked = true -> trun2 sched tinit = Some st ->
  (sh st, fd st) = seqrun (ord st) /\
  (w_pc (wt st) = 4%nat -> w_pc (wf st) = 4%nat -> ord st = [true; false] \/ ord st = [false; true]).
Proof.
  intros Hl. assert (H : forall sched st0, TInv st0 -> trun2 sched st0 = Some st -> TInv st).
  { clear sched. induction sched as [|i sched IH]; intros st0 Hi E; cbn in E; [now inversion E; subst|].
    destruct (tstep2 st0 i) as [st1|] eqn:E1; [|discriminate]. eapply IH; [|exact E]. eapply tstep2_inv; eauto. }
  intros E. destruct (H _ _ tinit_inv E) as (Hseq & Hnd & Hw). split; [exact Hseq|].
  intros H1 H2. pose proof (Hw true) as (_ & Ht & _). pose proof (Hw false) as (_ & Hf & _). cbn in Ht, Hf.
  assert (It : In true (ord st)) by (apply Ht; lia). assert (If : In false (ord st)) by (apply Hf; lia).
  clear -Hnd It If. destruct (ord st) as [|a [|b [|c l]]].
  - destruct It.
  - cbn in It, If. destruct a; intuition discriminate.
  - cbn in It, If. destruct a, b; auto; exfalso; intuition discriminate.
  - exfalso. inversion Hnd as [|? ? Ha Hnd1]; subst. inversion Hnd1 as [|? ? Hb Hnd2]; subst.
    inversion Hnd2 as [|? ? Hc _]; subst. cbn in Ha, Hb. destruct a, b, c; tauto.
Qed.

End TwoWriters.

(** instance: two calls on the cache, [mstep] as the sequential semantics *)
Corollary cache_writers_serialise (c0 : cache) (a b : cop) sched st :
  trun2 (fun c o => let '(c', _, mf) := mstep c o in (c', cfeed mf)) (fun i : bool => if i then a else b) true
        sched (tinit c0) = Some st ->
  w_pc (wt st) = 4%nat -> w_pc (wf st) = 4%nat ->
  let g := fun c o => let '(c', _, mf) := mstep c o in (c', cfeed mf) in
  (sh st, fd st) = seqrun g (fun i : bool => if i then a else b) c0 [true; false] \/
  (sh st, fd st) = seqrun g (fun i : bool => if i then a else b) c0 [false; true].
Proof.
  intros E H1 H2. cbv zeta.
  destruct (locked_writers_serialise _ _ c0 true sched st eq_refl E) as (Hs & Ho).
  destruct (Ho H1 H2) as [Hord|Hord]; rewrite Hord in Hs; [left|right]; exact Hs.
Qed.

(** without the lock the decision can be stale when it is committed: the
    "newest timestamp wins" call semantics, stored 50, writers 100 and 200 *)
Lemma unlocked_lost_update :
  let f := fun (s v : Z) => if Z.ltb s v then (v, [v]) else (s, []) in
  let op := fun i : bool => if i then 100 else 200 in
  exists sched st,
    trun2 f op false sched (tinit 50) = Some st /\
    w_pc (wt st) = 4%nat /\ w_pc (wf st) = 4%nat /\
    (sh st, fd st) <> seqrun f op 50 [true; false] /\
    (sh st, fd st) <> seqrun f op 50 [false; true] /\ sh st = 100.
Proof.
  exists [true; true; false; false; false; false; true; true]. eexists. split; [vm_compute; reflexivity|].
  vm_compute. repeat split; try discriminate; intros H; discriminate H.
Qed.

(** the [n_del v = []] clause of [good_unit] is no assumption on the inputs:
    every update unit Target.GnmiUpdate ever stores (and hence hands to the
    feed) carries no delete -- a single-update or atomic notification WITH
    deletes is split or refused, never stored as it is *)
Lemma in_units_multi n us ds m :
  In (UUpd m) (map (fun u => UUpd (clone_with_update n u)) us ++
               map (fun d => UDel (clone_with_delete n d)) ds) -> n_del m = [].
Proof.
  intros H. apply in_app_or in H as [H|H]; apply in_map_iff in H as (x & Hx & _); inversion Hx; reflexivity.
Qed.

Lemma units_carry_no_delete n m : In (UUpd m) (units n) -> n_del m = [].
Proof.
  unfold units. destruct (n_atomic n).
  - destruct (n_del n) as [|d ds] eqn:Hd; [|intros []].
    destruct (n_upd n); [intros []|]. intros [H|[]]. inversion H; subst. exact Hd.
  - destruct (n_upd n) as [|u [|u2 us]] eqn:Hu; destruct (n_del n) as [|d [|d2 ds]] eqn:Hd;
      try (intros []; fail);
      try (intros [H|[]]; inversion H; subst; exact Hd);
      try (intros [H|[]]; discriminate H);
      try apply (in_units_multi n [] _ m);
      try apply (in_units_multi n [u] _ m);
      try apply (in_units_multi n (u :: u2 :: us) _ m).
Qed.

(** a write through the exported Target handle whose prefix names NO target
    (KF-C03-5): the leaf is stored in the handle's target -- its first index
    element dropped, being taken for the target name -- but announced to the
    feed without a target, so the replay does not hold it for that target.
    [good_op] excludes such writes ([good_notif tgt n] asks the prefix to name
    the handle's target); this witness shows the exclusion is needed. *)
Definition wit_handle_ops : list cop :=
  [OUpdT 0 "t" (Notif 1 (Some (GPath "" "" [("a", [])] [])) None
                      [Upd (Some (gp_of_names ["b"])) (Some (TInt 1)) 0] [] false)].

Lemma feed_replays_refuted_handle :
  exists t, assoc "t" (c_targets (crun (new_cache wit_cfg ["t"]) wit_handle_ops)) = Some t /\
    lookup (t_tree t) ["b"] <> None /\
    rfind (replay (cfeed_hist (new_cache wit_cfg ["t"]) wit_handle_ops)) "t" ["b"] = None /\
    rfind (replay (cfeed_hist (new_cache wit_cfg ["t"]) wit_handle_ops)) "" ["b"] <> None.
Proof. eexists. split; [vm_compute; reflexivity|]. vm_compute. repeat split; discriminate. Qed.

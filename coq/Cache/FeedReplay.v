(** C03: the change feed replays to the cache (proofs).  [replay],
    [feed_apply], [approx] and the executable checker are in C03Check.v.

    Main statement ([feed_replays_target]): for every history of notifications
    delivered to one target, replaying the feed so far reproduces the stored
    leaves: same index paths, and per path the same notification -- or, with
    event-driven emulation, a non-atomic notification with an equal value that
    is not newer.  Hypotheses ([good_unit]) describe the inputs: the
    notification is addressed to this target, its prefix slice is not shared
    with spare capacity (DEFECT C03_1), the delete notification built from it
    addresses its own index path (no origin carried by the update path, no
    Elem/Element mix), index paths contain no "*", and an index path is used
    either for atomic containers or for scalars, not both (DEFECT C03_2).
    Each excluded class is shown to matter by a [_refuted] lemma. *)
From Gnmi Require Import Base.Prelude CTree.CTreeModel CTree.CTreeProofs Path.PathModel
  Cache.CacheModel Cache.CacheProofs Cache.C02Check Cache.C03Check.
Local Open Scope Z_scope.

(** * Lookup in the replayed map *)

Fixpoint rfind (m : rmap) (tgt : string) (p : path) : option notif :=
  match m with
  | [] => None
  | e :: m' => if String.eqb (fst (fst e)) tgt && path_eqb (snd (fst e)) p then Some (snd e)
               else rfind m' tgt p
  end.

Lemma rfind_filter (keep : string -> path -> bool) m tgt p :
  rfind (filter (fun e => keep (fst (fst e)) (snd (fst e))) m) tgt p =
  if keep tgt p then rfind m tgt p else None.
Proof.
  induction m as [|[[t q] v] m IH]; cbn [filter rfind fst snd].
  - now destruct (keep tgt p).
  - destruct (keep t q) eqn:Hk; cbn [rfind fst snd].
    + destruct (String.eqb_spec t tgt) as [->|]; cbn [andb]; [|exact IH].
      destruct (path_eqb_spec q p) as [->|]; [now rewrite Hk|exact IH].
    + rewrite IH. destruct (String.eqb_spec t tgt) as [->|]; cbn [andb]; [|reflexivity].
      destruct (path_eqb_spec q p) as [->|]; [now rewrite Hk|reflexivity].
Qed.

(** replaying an update *)
Lemma feed_apply_update m n u us p tgt q :
  n_upd n = u :: us -> stored_index n = Ok p ->
  rfind (feed_apply m n) tgt q =
  if String.eqb (feed_target n) tgt && path_eqb p q then Some n
  else if String.eqb tgt (feed_target n) && (if n_atomic n then is_prefix p q else path_eqb p q)
       then None else rfind m tgt q.
Proof.
  intros Hu Hi. unfold feed_apply. cbv zeta. rewrite Hu, Hi. cbn [rfind fst snd].
  destruct (String.eqb (feed_target n) tgt && path_eqb p q) eqn:Hk; [reflexivity|].
  unfold rremove.
  pose proof (rfind_filter (fun t s => negb (String.eqb t (feed_target n) &&
              (if n_atomic n then is_prefix p s else path_eqb p s))) m tgt q) as H.
  cbv beta in H. refine (eq_trans H _).
  now destruct (String.eqb tgt (feed_target n) && (if n_atomic n then is_prefix p q else path_eqb p q)).
Qed.

(** replaying a delete notification with one path *)
Lemma feed_apply_delete m n d p tgt q :
  n_upd n = [] -> n_del n = [d] -> join_prefix_and_path (gp_of_opt (n_prefix n)) d = Ok p ->
  rfind (feed_apply m n) tgt q =
  if String.eqb tgt (feed_target n) && qmatch p q then None else rfind m tgt q.
Proof.
  intros Hu Hd Hj. unfold feed_apply. cbv zeta. rewrite Hu, Hd. cbn [fold_left]. rewrite Hj. unfold rremove.
  pose proof (rfind_filter (fun t s => negb (String.eqb t (feed_target n) && qmatch p s)) m tgt q) as H.
  cbv beta in H. refine (eq_trans H _).
  now destruct (String.eqb tgt (feed_target n) && qmatch p q).
Qed.

(** * value.Equal on the modelled scalars is a partial equivalence *)

Lemma value_equal_sym a b : value_equal a b = value_equal b a.
Proof.
  destruct a as [[]|], b as [[]|]; cbn; try reflexivity;
    try apply String.eqb_sym; try apply Z.eqb_sym.
  destruct b0, b; reflexivity.
Qed.

Lemma value_equal_trans a b c :
  value_equal a b = true -> value_equal b c = true -> value_equal a c = true.
Proof.
  destruct a as [[]|], b as [[]|]; cbn; try discriminate; destruct c as [[]|]; cbn; try discriminate;
    rewrite ?String.eqb_eq, ?Z.eqb_eq; try congruence.
  destruct b0, b, b1; cbn; congruence.
Qed.

Lemma notif_eqb_refl_ts a b : notif_eqb a b = true -> n_ts a = n_ts b.
Proof.
  unfold notif_eqb. rewrite !andb_true_iff. intros ((((H & _) & _) & _) & _). now apply Z.eqb_eq.
Qed.

(** * Facts about notif_eqb (proto.Equal) used below *)

Lemma tv_eqb_eq a b : tv_eqb a b = true -> a = b.
Proof.
  destruct a, b; cbn; try discriminate; rewrite ?String.eqb_eq, ?Z.eqb_eq; try congruence.
  - destruct b0, b; cbn; congruence.
Qed.

Lemma otv_eqb_eq a b : otv_eqb a b = true -> a = b.
Proof. destruct a, b; cbn; try discriminate; [intros H; f_equal; now apply tv_eqb_eq|reflexivity]. Qed.

Lemma notif_eqb_atomic a b : notif_eqb a b = true -> n_atomic a = n_atomic b.
Proof.
  unfold notif_eqb. rewrite !andb_true_iff. intros (_ & H). now apply Bool.eqb_prop.
Qed.

Lemma notif_eqb_first_val a b : notif_eqb a b = true -> first_val a = first_val b.
Proof.
  unfold notif_eqb. rewrite !andb_true_iff. intros ((((_ & _) & H) & _) & _). unfold first_val.
  destruct (n_upd a) as [|ua la], (n_upd b) as [|ub lb]; cbn in H; try discriminate; [reflexivity|].
  apply andb_true_iff in H as [H _]. unfold update_eqb in H. rewrite !andb_true_iff in H.
  destruct H as ((_ & H) & _). now apply otv_eqb_eq.
Qed.

(** * qmatch on concrete (glob-free) paths *)

Definition glob_free (p : path) : bool := forallb (fun k => negb (is_glob k)) p.

Lemma qmatch_refl q : qmatch q q = true.
Proof.
  induction q as [|k r IH]; [reflexivity|]. cbn [qmatch]. destruct (is_glob k).
  - destruct r; [reflexivity|exact IH].
  - now rewrite String.eqb_refl.
Qed.

Lemma qmatch_glob_free s q : glob_free s = true -> qmatch s q = is_prefix s q.
Proof.
  revert q; induction s as [|k r IH]; intros q Hg; [reflexivity|].
  cbn [glob_free forallb] in Hg. apply andb_true_iff in Hg as [Hk Hr].
  apply negb_true_iff in Hk. cbn [qmatch is_prefix]. rewrite Hk.
  destruct q as [|a q']; [reflexivity|]. now rewrite (IH q' Hr).
Qed.

(** * unit_index (model) and stored_index (checker) agree *)

Lemma unit_index_stored n p : unit_index n = Ok p <-> stored_index n = Ok p.
Proof.
  unfold unit_index, stored_index, join_path. destruct (n_upd n) as [|u us]; [split; discriminate|].
  destruct (n_atomic n); cbn [gp_of_opt];
    destruct (join_prefix_and_path _ _); split; intros H; inversion H; reflexivity.
Qed.

(** * What gnmiUpdate reports, and what that says about the tree *)

Lemma update_leaf_result t1 now p u us n t2 r :
  wf_tree (t_tree t1) -> n_upd n = u :: us -> update_leaf t1 now p u n = (t2, r) ->
  match r with
  | Ok (Some nd) =>
      nd = n /\ forall q, lookup (t_tree t2) q = if path_eqb q p then Some n else lookup (t_tree t1) q
  | Ok None =>
      (forall q, lookup (t_tree t2) q = if path_eqb q p then Some n else lookup (t_tree t1) q) /\
      exists old, lookup (t_tree t1) p = Some old /\ n_atomic n = false /\
                  value_equal (first_val old) (first_val n) = true /\
                  cfg_event_driven (t_cfg t1) = true /\
                  (defect_c03_2_atomic_suppress = true \/ n_atomic old = false) /\
                  n_ts old <= n_ts n
  | Err e => t_tree t2 = t_tree t1
  | Panic _ => True
  end.
Proof.
  intros Hwf Hu. unfold update_leaf.
  destruct (CTreeModel.get (t_tree t1) p) as [[old|cs]|] eqn:Hg.
  - pose proof (proj1 (get_leaf_lookup _ _ _) Hg) as Hl.
    destruct (leaf_verdict t1 now old n) as [e|] eqn:Hv; [intros E; inversion E; reflexivity|].
    assert (Hts : n_ts old <= n_ts n).
    { unfold leaf_verdict in Hv. destruct (Z.ltb_spec (n_ts n) (n_ts old)); [discriminate|lia]. }
    pose proof (add_over_leaf (t_tree t1) p n old Hg) as Hne.
    unfold tree_set. destruct (CTreeModel.add (t_tree t1) p n) as [tr'|] eqn:Ha; [|congruence].
    destruct (tree_add_spec _ _ _ _ Hwf Ha) as (_ & Hlk).
    destruct (n_atomic n) eqn:Hat.
    + intros E; inversion E; subst. split; [reflexivity|]. now rewrite tree_lat_compute.
    + destruct (n_upd old) as [|uo uos] eqn:Huo; [intros E; inversion E; exact I|].
      destruct ((defect_c03_2_atomic_suppress || negb (n_atomic old)) && value_equal (u_val uo) (u_val u)
                && cfg_event_driven (t_cfg (set_tree t1 tr'))) eqn:Hc; intros E; inversion E; subst.
      * split; [exact Hlk|]. exists old. apply andb_true_iff in Hc as [Hc Hed].
        apply andb_true_iff in Hc as [Hd Hve]. unfold first_val. rewrite Huo, Hu.
        split; [exact Hl|]. split; [reflexivity|]. split; [exact Hve|]. split; [exact Hed|].
        split; [|exact Hts].
        apply orb_true_iff in Hd as [Hd|Hd]; [left; exact Hd|right; now apply negb_true_iff in Hd].
      * split; [reflexivity|]. now rewrite tree_lat_compute.
  - intros E; inversion E; reflexivity.
  - pose proof (get_none_lookup _ _ Hg) as Hl.
    destruct (CTreeModel.add (t_tree t1) p n) as [tr'|] eqn:Ha; intros E; inversion E; subst; [|reflexivity].
    destruct (tree_add_spec _ _ _ _ Hwf Ha) as (_ & Hlk). split; [reflexivity|].
    destruct (is_real p); [now rewrite tree_lat_compute|exact Hlk].
Qed.

Lemma gnmi_update1_result t now n t' r :
  wf_tree (t_tree t) -> gnmi_update1 t now n = (t', r) ->
  wf_tree (t_tree t') /\ frame t t' /\
  match r with
  | Ok o =>
      exists p, unit_index n = Ok p /\ p <> [] /\
        (forall q, lookup (t_tree t') q = if path_eqb q p then Some n else lookup (t_tree t) q) /\
        match o with
        | Some nd => nd = n
        | None =>
            exists old, lookup (t_tree t) p = Some old /\ n_atomic n = false /\
                        value_equal (first_val old) (first_val n) = true /\
                        cfg_event_driven (t_cfg t) = true /\
                        (defect_c03_2_atomic_suppress = true \/ n_atomic old = false) /\
                        n_ts old <= n_ts n
        end
  | Err e => t_tree t' = t_tree t
  | Panic _ => True
  end.
Proof.
  intros Hwf E. destruct (gnmi_update1_spec _ _ _ _ _ Hwf E) as (Hw' & Hf' & _).
  split; [exact Hw'|]. split; [exact Hf'|].
  unfold gnmi_update1 in E. destruct (n_upd n) as [|u us] eqn:Hu; [inversion E; exact I|].
  destruct (unit_index n) as [p|e|w] eqn:Hi; try (inversion E; subst; try reflexivity; exact I).
  destruct (update_pre t p u) as [t1 r1] eqn:Hp.
  destruct (update_pre_frame _ _ _ _ _ Hp) as (Htr & (_ & Hc & _)).
  destruct r1 as [[]|e|w]; try (inversion E; subst; try exact Htr; exact I).
  assert (Hwf1 : wf_tree (t_tree t1)) by (rewrite Htr; exact Hwf).
  pose proof (update_leaf_result _ _ _ _ _ _ _ _ Hwf1 Hu E) as Hr.
  assert (Hne : p <> []).
  { intros ->. unfold update_pre in Hp. inversion Hp. }
  destruct r as [[nd|]|e|w]; try exact I.
  - destruct Hr as [-> Hl]. exists p. rewrite Htr in Hl. repeat split; auto.
  - destruct Hr as (Hl & old & H1 & H2 & H3 & H4 & H5 & H6). exists p. rewrite Htr in Hl, H1.
    split; [reflexivity|]. split; [exact Hne|]. split; [exact Hl|]. exists old. rewrite <- Hc. repeat split; auto.
  - now rewrite Hr.
Qed.

Lemma path_eqb_sym p q : path_eqb p q = path_eqb q p.
Proof. destruct (path_eqb_spec p q), (path_eqb_spec q p); congruence. Qed.

(** * Inputs the main statement ranges over *)

(** the index path under which the delete notification built from a stored
    notification [v] announces its removal *)
Definition delete_index (v : notif) : outcome path :=
  join_prefix_and_path (del_prefix v) (del_path v).

Section Target.
Variable name : string.            (* the target *)
Variable A : path -> bool.         (* index paths used for atomic containers *)

(** a unit (a notification stored as one leaf) the statement admits *)
Definition good_unit (v : notif) : Prop :=
  feed_target v = name /\
  alias_write v = None /\                        (* no shared prefix slice with spare capacity *)
  notif_eqb v v = true /\                        (* key maps are maps *)
  delete_index v = stored_index v /\             (* its deletion is announced under its own index path *)
  forall s, stored_index v = Ok s -> glob_free s = true /\ n_atomic v = A s.

Definition rel (ed : bool) (o1 o2 : option notif) : Prop :=
  match o1, o2 with
  | None, None => True
  | Some r, Some c => approx ed r c = true
  | _, _ => False
  end.

(** the invariant: the tree is well formed, holds only admitted units at
    their own index paths, and the replayed map stands for it *)
Definition Inv (t : target) (m : rmap) : Prop :=
  wf_tree (t_tree t) /\
  (forall s v, lookup (t_tree t) s = Some v -> good_unit v /\ stored_index v = Ok s) /\
  (forall s, rel (cfg_event_driven (t_cfg t)) (rfind m name s) (lookup (t_tree t) s)).

Lemma approx_refl ed v : notif_eqb v v = true -> approx ed v v = true.
Proof. intros H. unfold approx. now rewrite H. Qed.

Lemma approx_suppressed ed r old n :
  approx ed r old = true ->
  ed = true -> n_atomic old = false -> n_atomic n = false ->
  value_equal (first_val old) (first_val n) = true -> n_ts old <= n_ts n ->
  approx ed r n = true.
Proof.
  intros Ha -> Hao Han Hve Hts. unfold approx in *. apply orb_true_iff in Ha as [Ha|Ha].
  - apply orb_true_iff. right.
    rewrite (notif_eqb_atomic _ _ Ha), (notif_eqb_first_val _ _ Ha), (notif_eqb_refl_ts _ _ Ha), Hao, Han, Hve.
    cbn. now apply Z.leb_le.
  - apply orb_true_iff. right. rewrite !andb_true_iff in Ha. destruct Ha as ((((_ & Hr) & _) & Hv) & Hl).
    rewrite Hr, Han, (value_equal_trans _ _ _ Hv Hve). cbn. apply Z.leb_le. apply Z.leb_le in Hl. lia.
Qed.

(** ** one update unit *)

Lemma update_unit_inv t m now n t' r :
  Inv t m -> good_unit n -> gnmi_update1 t now n = (t', r) ->
  match r with
  | Ok (Some nd) => Inv t' (feed_apply m nd)
  | Ok None | Err _ => Inv t' m
  | Panic _ => True
  end.
Proof.
  intros (Hwf & Hst & Hrel) Hg E.
  destruct (gnmi_update1_result _ _ _ _ _ Hwf E) as (Hw' & (_ & Hc & _) & Hr).
  destruct Hg as (Htg & Hal & Hrf & Hdi & Hgs).
  destruct r as [o|e|w]; [|split; [exact Hw'|rewrite Hr, Hc; split; assumption]|exact I].
  destruct Hr as (p & Hi & Hne & Hl & Ho).
  pose proof (proj1 (unit_index_stored n p) Hi) as Hsi.
  destruct (Hgs p Hsi) as (Hgf & HA).
  assert (Hst' : forall s v, lookup (t_tree t') s = Some v -> good_unit v /\ stored_index v = Ok s).
  { intros s v. rewrite Hl. destruct (path_eqb_spec s p) as [->|].
    - intros Hv; inversion Hv; subst.
      split; [split; [exact Htg|split; [exact Hal|split; [exact Hrf|split; [exact Hdi|exact Hgs]]]]|exact Hsi].
    - apply Hst. }
  destruct o as [nd|].
  - subst nd. split; [exact Hw'|]. split; [exact Hst'|]. intros s. rewrite Hc.
    assert (Hu : exists u us, n_upd n = u :: us).
    { unfold stored_index in Hsi. destruct (n_upd n) as [|u us]; [discriminate|eauto]. }
    destruct Hu as (u & us & Hu).
    rewrite (feed_apply_update m n u us p name s Hu Hsi), Htg, String.eqb_refl. cbn [andb].
    rewrite Hl. rewrite (path_eqb_sym s p) at 1.
    destruct (path_eqb_spec p s) as [->|Hps].
    + cbn. now apply approx_refl.
    + destruct (n_atomic n) eqn:Hat.
      * destruct (is_prefix p s) eqn:Hpre.
        -- (* strictly below an atomic leaf: nothing is stored there *)
           apply is_prefix_spec in Hpre as (x & ->).
           destruct (lookup (t_tree t) (p ++ x)) as [w|] eqn:Hw; [|exact I].
           exfalso. assert (H1 : lookup (t_tree t') p = Some n) by (rewrite Hl, path_eqb_refl; reflexivity).
           assert (H2 : lookup (t_tree t') (p ++ x) = Some w).
           { rewrite Hl. destruct (path_eqb_spec (p ++ x) p) as [Hx|]; [|exact Hw].
             exfalso. apply Hps. symmetry. exact Hx. }
           destruct (t_tree t') as [nd|]; [|discriminate]. cbn [lookup] in H1, H2.
           pose proof (lookup_prefix_free nd p x n w H1 H2). subst x. rewrite app_nil_r in Hps. congruence.
        -- apply Hrel.
      * apply Hrel.
  - destruct Ho as (old & Hold & Han & Hve & Hed & Hdef & Hts).
    split; [exact Hw'|]. split; [exact Hst'|]. intros s. rewrite Hc, Hl.
    destruct (path_eqb_spec s p) as [->|]; [|apply Hrel].
    specialize (Hrel p). rewrite Hold in Hrel. unfold rel in *.
    destruct (rfind m name p) as [r0|]; [|contradiction].
    destruct (Hst p old Hold) as ((_ & _ & _ & _ & Hgo) & Hso).
    destruct (Hgo p Hso) as (_ & HAo).
    apply (approx_suppressed _ r0 old n Hrel Hed); auto. congruence.
Qed.

(** ** one delete unit *)

Definition sidx (d : notif) : path := match stored_index d with Ok s => s | _ => [] end.

Lemma render_alias_free removed ts :
  Forall (fun d => alias_write d = None) removed ->
  render_deletes removed ts = map (fun d => mk_delete d ts (del_path d)) removed.
Proof.
  induction 1 as [|d l Hd _ IH]; [reflexivity|]. cbn [render_deletes map]. rewrite IH, Hd.
  now destruct defect_c03_1_alias.
Qed.

Lemma feed_target_mk_delete d ts p : feed_target (mk_delete d ts p) = feed_target d.
Proof. reflexivity. Qed.

Lemma replay_deletes ts removed : forall m q,
  Forall (fun d => feed_target d = name /\ delete_index d = Ok (sidx d)) removed ->
  rfind (fold_left feed_apply (map (fun d => mk_delete d ts (del_path d)) removed) m) name q =
  if existsb (fun d => qmatch (sidx d) q) removed then None else rfind m name q.
Proof.
  induction removed as [|d l IH]; intros m q Hall; [reflexivity|].
  apply Forall_cons_iff in Hall as [(Htg & Hdi) Hall']. cbn [map fold_left existsb].
  rewrite (IH _ q Hall').
  rewrite (feed_apply_delete m (mk_delete d ts (del_path d)) (del_path d) (sidx d) name q eq_refl eq_refl Hdi).
  rewrite feed_target_mk_delete, Htg, String.eqb_refl. cbn [andb].
  destruct (qmatch (sidx d) q); cbn [orb]; [now destruct (existsb _ l)|reflexivity].
Qed.

Lemma delete_unit_inv t m n t' removed :
  Inv t m -> gnmi_remove t n = (t', Ok removed) ->
  Inv t' (fold_left feed_apply (render_deletes removed (n_ts n)) m).
Proof.
  intros (Hwf & Hst & Hrel) E.
  destruct (gnmi_remove_spec _ _ _ _ Hwf E) as (Hw' & (_ & Hc & _) & Hs).
  destruct (del_ok n) as [p|]; [|destruct Hs as [_ Hs]; exfalso; eapply Hs; reflexivity].
  destruct Hs as (Hl & removed' & Hr & Hin). inversion Hr; subst removed'; clear Hr.
  assert (Hgood : forall d, In d removed ->
            exists s, lookup (t_tree t) s = Some d /\ qmatch p s = true /\ older_than (n_ts n) d = true /\
                      good_unit d /\ stored_index d = Ok s).
  { intros d Hd. apply Hin in Hd as (s & H1 & H2 & H3). exists s. destruct (Hst s d H1). auto. }
  rewrite render_alias_free.
  2:{ apply Forall_forall. intros d Hd. destruct (Hgood d Hd) as (s & _ & _ & _ & (_ & Hal & _) & _). exact Hal. }
  split; [exact Hw'|]. split.
  { intros s v. rewrite Hl. unfold sel. destruct (lookup (t_tree t) s) as [w|] eqn:Hw; [|discriminate].
    destruct (qmatch p s && older_than (n_ts n) w); [discriminate|]. intros Hv; inversion Hv; subst. now apply Hst. }
  intros q. rewrite Hc, replay_deletes.
  2:{ apply Forall_forall. intros d Hd. destruct (Hgood d Hd) as (s & _ & _ & _ & (Htg & _ & _ & Hdi & _) & Hsi).
      split; [exact Htg|]. unfold sidx. rewrite Hsi. congruence. }
  rewrite Hl. unfold sel.
  destruct (existsb (fun d => qmatch (sidx d) q) removed) eqn:Hex.
  - (* some removed leaf's delete notification covers q *)
    apply existsb_exists in Hex as (d & Hd & Hq).
    destruct (Hgood d Hd) as (s & Hls & Hps & Hold & (_ & _ & _ & _ & Hgs) & Hsi).
    unfold sidx in Hq. rewrite Hsi in Hq. destruct (Hgs s Hsi) as (Hgf & _).
    rewrite (qmatch_glob_free s q Hgf) in Hq. apply is_prefix_spec in Hq as (x & ->).
    destruct (lookup (t_tree t) (s ++ x)) as [w|] eqn:Hw; [|exact I].
    assert (x = []).
    { destruct (t_tree t) as [nd|]; [|discriminate]. cbn [lookup] in *. exact (lookup_prefix_free nd s x d w Hls Hw). }
    subst x. rewrite app_nil_r in *. assert (w = d) by congruence. subst w. rewrite Hps, Hold. exact I.
  - destruct (lookup (t_tree t) q) as [w|] eqn:Hw.
    + destruct (qmatch p q && older_than (n_ts n) w) eqn:Hsel.
      * (* removed, so its own delete notification is in the group *)
        exfalso. apply andb_true_iff in Hsel as [H1 H2].
        assert (Hd : In w removed) by (apply Hin; exists q; auto).
        destruct (Hgood w Hd) as (s & Hls & _ & _ & _ & Hsi).
        destruct (Hst q w Hw) as (_ & Hsq).
        assert (existsb (fun d => qmatch (sidx d) q) removed = true).
        { apply existsb_exists. exists w. split; [exact Hd|]. unfold sidx. rewrite Hsq. apply qmatch_refl. }
        congruence.
      * specialize (Hrel q). now rewrite Hw in Hrel.
    + specialize (Hrel q). now rewrite Hw in Hrel.
Qed.

(** ** a whole notification *)

Definition good_notif (n : notif) : Prop :=
  forall m, In (UUpd m) (units n) -> good_unit m.

Lemma Inv_same t t' m :
  t_tree t' = t_tree t -> t_cfg t' = t_cfg t -> Inv t m -> Inv t' m.
Proof. intros Ht Hc (A1 & A2 & A3). unfold Inv. rewrite Ht, Hc. auto. Qed.

Lemma render_feed_app g1 g2 : render_feed (g1 ++ g2) = render_feed g1 ++ render_feed g2.
Proof. unfold render_feed. apply flat_map_app. Qed.

Lemma render_feed_single g : render_feed [g] = render_group g.
Proof. unfold render_feed. apply flat_map_single. Qed.

Lemma replay_snoc gs g m0 :
  fold_left feed_apply (render_feed (gs ++ [g])) m0 =
  fold_left feed_apply (render_group g) (fold_left feed_apply (render_feed gs) m0).
Proof.
  now rewrite render_feed_app, fold_left_app, render_feed_single.
Qed.

Definition AInv (m0 : rmap) (a : acc) : Prop :=
  Inv (a_t a) (fold_left feed_apply (render_feed (a_feed a)) m0).

Lemma multi_updates_inv now n m0 us : forall a,
  a_panic a = None -> AInv m0 a ->
  (forall u, In u us -> good_unit (clone_with_update n u)) ->
  a_panic (fold_left (multi_update_step now n) us a) = None ->
  AInv m0 (fold_left (multi_update_step now n) us a).
Proof.
  induction us as [|u us IH]; intros a Hp Hinv Hg Hp'; cbn [fold_left] in *; [exact Hinv|].
  set (a1 := multi_update_step now n a u) in *.
  assert (Hp1 : a_panic a1 = None).
  { destruct (a_panic a1) as [w|] eqn:E; [|reflexivity].
    rewrite (multi_update_panic_sticky now n us a1 w E) in Hp'. congruence. }
  apply IH; auto; [|intros u' Hu'; apply Hg; now right].
  subst a1. unfold multi_update_step in *. rewrite Hp in *.
  destruct (gnmi_update1 (a_t a) now (clone_with_update n u)) as [t' r] eqn:E.
  pose proof (update_unit_inv _ _ _ _ _ _ Hinv (Hg u (or_introl eq_refl)) E) as H.
  unfold AInv. destruct r as [[nd|]|e|w]; cbn [a_t a_feed a_panic] in *.
  - rewrite replay_snoc. cbn [render_group fold_left]. eapply Inv_same; [| |exact H]; reflexivity.
  - exact H.
  - exact H.
  - discriminate.
Qed.

Lemma multi_deletes_inv n m0 ds : forall a,
  a_panic a = None -> AInv m0 a ->
  a_panic (fold_left (multi_delete_step n) ds a) = None ->
  AInv m0 (fold_left (multi_delete_step n) ds a).
Proof.
  induction ds as [|d ds IH]; intros a Hp Hinv Hp'; cbn [fold_left] in *; [exact Hinv|].
  set (a1 := multi_delete_step n a d) in *.
  assert (Hp1 : a_panic a1 = None).
  { destruct (a_panic a1) as [w|] eqn:E; [|reflexivity].
    rewrite (multi_delete_panic_sticky n ds a1 w E) in Hp'. congruence. }
  apply IH; auto.
  subst a1. unfold multi_delete_step in *. rewrite Hp in *.
  destruct (gnmi_remove (add_int (a_t a) md_update_count 1) (clone_with_delete n d)) as [t' r] eqn:E.
  assert (Hinv0 : Inv (add_int (a_t a) md_update_count 1) (fold_left feed_apply (render_feed (a_feed a)) m0))
    by (eapply Inv_same; [| |exact Hinv]; reflexivity).
  unfold AInv. destruct r as [rm|e|w]; cbn [a_t a_feed a_panic] in *.
  - rewrite replay_snoc. cbn [render_group].
    exact (delete_unit_inv _ _ _ _ _ Hinv0 E).
  - (* gnmiRemove never returns an error *)
    exfalso. clear -E. unfold gnmi_remove in E.
    destruct (n_del (clone_with_delete n d)); [inversion E|].
    destruct (join_path _ _) as [p| |] eqn:Hj; try (inversion E; fail).
    + cbv zeta in E. match type of E with match ?x with _ => _ end = _ => destruct x end; inversion E.
    + unfold join_path in Hj. destruct (join_prefix_and_path _ _) eqn:Hjj; try discriminate.
      unfold join_prefix_and_path in Hjj. destruct (_ ++ _); discriminate.
  - discriminate.
Qed.

Lemma finish_ts_inv n b t m : Inv t m -> Inv (finish_ts n b t) m.
Proof.
  intros H. eapply Inv_same; [apply finish_ts_tree|apply (proj1 (finish_ts_cfg n b t))|exact H].
Qed.

Lemma single_update_inv t m now n k t' gs r :
  Inv t m -> good_unit n ->
  match gnmi_update1 t now n with
  | (t1, Panic w) => (finish_ts n false t1, [], GPanic w)
  | (t1, Err e) => (finish_ts n false t1, [], GErr e)
  | (t1, Ok None) => (finish_ts n true t1, [], GOk)
  | (t1, Ok (Some nd)) => (finish_ts n true (add_int t1 md_update_count k), [FUpd nd], GOk)
  end = (t', gs, r) ->
  (forall w, r <> GPanic w) ->
  Inv t' (fold_left feed_apply (render_feed gs) m).
Proof.
  intros Hinv Hg. destruct (gnmi_update1 t now n) as [t1 r1] eqn:E.
  pose proof (update_unit_inv _ _ _ _ _ _ Hinv Hg E) as H.
  destruct r1 as [[nd|]|e|w]; intros E2 Hnp; inversion E2; subst; clear E2.
  - apply finish_ts_inv. rewrite render_feed_single. cbn [render_group fold_left].
    eapply Inv_same; [| |exact H]; reflexivity.
  - apply finish_ts_inv. exact H.
  - apply finish_ts_inv. exact H.
  - exfalso. eapply Hnp. reflexivity.
Qed.

Lemma multi_inv t m now n us ds t' gs r :
  Inv t m ->
  (forall u, In u us -> good_unit (clone_with_update n u)) ->
  (let a0 := Acc t [] [] false None in
   let a1 := fold_left (multi_update_step now n) us a0 in
   let a2 := fold_left (multi_delete_step n) ds a1 in
   (finish_ts n (a_ok a2) (a_t a2), a_feed a2,
    match a_panic a2 with
    | Some w => GPanic w
    | None => match a_errs a2 with [] => GOk | es => GErrs es end
    end)) = (t', gs, r) ->
  (forall w, r <> GPanic w) ->
  Inv t' (fold_left feed_apply (render_feed gs) m).
Proof.
  intros Hinv Hg. cbv zeta.
  set (a0 := Acc t [] [] false None).
  remember (fold_left (multi_update_step now n) us a0) as a1 eqn:Ha1.
  remember (fold_left (multi_delete_step n) ds a1) as a2 eqn:Ha2.
  intros E Hnp. inversion E; subst t' gs r; clear E.
  assert (Hp2 : a_panic a2 = None).
  { destruct (a_panic a2) as [w|]; [exfalso; eapply Hnp; reflexivity|reflexivity]. }
  assert (Hp1 : a_panic a1 = None).
  { destruct (a_panic a1) as [w|] eqn:Ep; [|reflexivity].
    rewrite Ha2, (multi_delete_panic_sticky n ds a1 w Ep) in Hp2. congruence. }
  assert (H0 : AInv m a0) by exact Hinv.
  rewrite Ha1 in Hp1.
  pose proof (multi_updates_inv now n m us a0 eq_refl H0 Hg Hp1) as H1. rewrite <- Ha1 in *.
  rewrite Ha2 in Hp2.
  pose proof (multi_deletes_inv n m ds a1 Hp1 H1 Hp2) as H2. rewrite <- Ha2 in *.
  apply finish_ts_inv. exact H2.
Qed.

(** Target.GnmiUpdate keeps the invariant: the replayed map, extended by what
    this call handed to the client, stands for the tree after the call *)
Theorem target_update_inv t m now n t' gs r :
  Inv t m -> good_notif n -> target_gnmi_update t now n = (t', gs, r) ->
  (forall w, r <> GPanic w) ->
  Inv t' (fold_left feed_apply (render_feed gs) m).
Proof.
  intros Hinv Hg. unfold good_notif, units in Hg. unfold target_gnmi_update.
  destruct (n_atomic n).
  - destruct (n_del n) as [|d ds].
    + destruct (n_upd n) as [|u us] eqn:Hu.
      * intros E _; inversion E; subst. eapply Inv_same; [| |exact Hinv]; reflexivity.
      * apply single_update_inv; [exact Hinv|]. apply Hg. now left.
    + intros E _; inversion E; subst. exact Hinv.
  - destruct (n_upd n) as [|u [|u2 us]] eqn:Hu; destruct (n_del n) as [|d [|d2 ds]] eqn:Hd.
    + intros E _; inversion E; subst. eapply Inv_same; [| |exact Hinv]; reflexivity.
    + destruct (gnmi_remove (add_int t md_update_count 1) n) as [t1 r1] eqn:E.
      assert (Hinv0 : Inv (add_int t md_update_count 1) m) by (eapply Inv_same; [| |exact Hinv]; reflexivity).
      intros E2 Hnp. destruct r1 as [rm|e|w]; inversion E2; subst; clear E2.
      * rewrite render_feed_single. cbn [render_group].
        exact (delete_unit_inv _ _ _ _ _ Hinv0 E).
      * exfalso. clear -E. unfold gnmi_remove in E.
        destruct (n_del n); [inversion E|].
        destruct (join_path _ _) as [p| |] eqn:Hj; try (inversion E; fail).
        -- cbv zeta in E. match type of E with match ?x with _ => _ end = _ => destruct x end; inversion E.
        -- unfold join_path in Hj. destruct (join_prefix_and_path _ _) eqn:Hjj; try discriminate.
           unfold join_prefix_and_path in Hjj. destruct (_ ++ _); discriminate.
      * exfalso. eapply Hnp. reflexivity.
    + apply (multi_inv t m now n [] (d :: d2 :: ds)); [exact Hinv|intros u0 []].
    + apply single_update_inv; [exact Hinv|]. apply Hg. now left.
    + apply (multi_inv t m now n [u] [d]); [exact Hinv|].
      intros u0 Hu0. apply Hg. cbn [map app In] in *. destruct Hu0 as [<-|[]]. now left.
    + apply (multi_inv t m now n [u] (d :: d2 :: ds)); [exact Hinv|].
      intros u0 Hu0. apply Hg. apply in_or_app. left. now apply (in_map (fun u => UUpd (clone_with_update n u))).
    + apply (multi_inv t m now n (u :: u2 :: us) []); [exact Hinv|].
      intros u0 Hu0. apply Hg. apply in_or_app. left. now apply (in_map (fun u => UUpd (clone_with_update n u))).
    + apply (multi_inv t m now n (u :: u2 :: us) [d]); [exact Hinv|].
      intros u0 Hu0. apply Hg. apply in_or_app. left. now apply (in_map (fun u => UUpd (clone_with_update n u))).
    + apply (multi_inv t m now n (u :: u2 :: us) (d :: d2 :: ds)); [exact Hinv|].
      intros u0 Hu0. apply Hg. apply in_or_app. left. now apply (in_map (fun u => UUpd (clone_with_update n u))).
Qed.

(** ** histories *)

Fixpoint tfeed (t : target) (H : hist) : list notif :=
  match H with
  | [] => []
  | h :: H' => render_feed (snd (fst (target_gnmi_update t (fst h) (snd h)))) ++ tfeed (tstep t h) H'
  end.

Fixpoint no_panic (t : target) (H : hist) : Prop :=
  match H with
  | [] => True
  | h :: H' => (forall w, tres t h <> GPanic w) /\ no_panic (tstep t h) H'
  end.

Lemma history_inv H : forall t m,
  Inv t m -> (forall h, In h H -> good_notif (snd h)) -> no_panic t H ->
  Inv (trun t H) (fold_left feed_apply (tfeed t H) m).
Proof.
  induction H as [|h H IH]; intros t m Hinv Hg Hnp; cbn [trun fold_left tfeed]; [exact Hinv|].
  destruct Hnp as [Hn1 Hn2]. rewrite fold_left_app. fold (trun (tstep t h) H).
  apply IH; [|intros h' Hh'; apply Hg; now right|exact Hn2].
  unfold tstep, tres in *. destruct (target_gnmi_update t (fst h) (snd h)) as [[t' gs] r] eqn:E.
  cbn [fst snd] in *. exact (target_update_inv _ _ _ _ _ _ _ Hinv (Hg h (or_introl eq_refl)) E Hn1).
Qed.

End Target.

(** the configuration of a target never changes *)
Lemma cfg_lat_compute t r ts : t_cfg (lat_compute t r ts) = t_cfg t.
Proof. exact (proj1 (proj2 (frame_lat_compute t r ts))). Qed.

Lemma update_leaf_cfg t1 now p u n t2 r : update_leaf t1 now p u n = (t2, r) -> t_cfg t2 = t_cfg t1.
Proof.
  unfold update_leaf. destruct (CTreeModel.get (t_tree t1) p) as [[old|cs]|].
  - destruct (leaf_verdict t1 now old n); [intros E; inversion E; reflexivity|].
    destruct (n_atomic n); [intros E; inversion E; now rewrite cfg_lat_compute|].
    destruct (n_upd old); [intros E; inversion E; reflexivity|].
    match goal with |- (if ?b then _ else _) = _ -> _ => destruct b end;
      intros E; inversion E; [reflexivity|now rewrite cfg_lat_compute].
  - intros E; inversion E; reflexivity.
  - destruct (CTreeModel.add (t_tree t1) p n); intros E; inversion E; [|reflexivity].
    destruct (is_real p); [now rewrite cfg_lat_compute|reflexivity].
Qed.

Lemma gnmi_update1_cfg t0 now m t1 r : gnmi_update1 t0 now m = (t1, r) -> t_cfg t1 = t_cfg t0.
Proof.
  unfold gnmi_update1. destruct (n_upd m) as [|u us]; [intros E; now inversion E|].
  destruct (unit_index m) as [p|e|w]; try (intros E; now inversion E).
  destruct (update_pre t0 p u) as [t2 r2] eqn:Hp.
  destruct (update_pre_frame _ _ _ _ _ Hp) as (_ & _ & Hc & _).
  destruct r2 as [[]|e|w]; try (intros E; inversion E; subst; exact Hc).
  intros E. apply update_leaf_cfg in E. congruence.
Qed.

Lemma gnmi_remove_cfg t0 m t1 r : gnmi_remove t0 m = (t1, r) -> t_cfg t1 = t_cfg t0.
Proof.
  intros E. destruct (n_del m) as [|d ds] eqn:Hd; [unfold gnmi_remove in E; rewrite Hd in E; now inversion E|].
  unfold gnmi_remove in E. rewrite Hd in E.
  destruct (join_path (n_prefix m) (Some d)) as [p|e|w]; try (now inversion E).
  cbv zeta in E.
  assert (Hts : t_cfg (match p with
             | p0 :: k :: _ => if String.eqb p0 md_root then set_meta t0 (md_reset_entry (t_meta t0) k) else t0
             | _ => t0 end) = t_cfg t0).
  { destruct p as [|p0 [|k ?]]; try reflexivity. destruct (String.eqb p0 md_root); reflexivity. }
  match type of E with match ?x with _ => _ end = _ => destruct x end; inversion E; exact Hts.
Qed.

Lemma target_gnmi_update_cfg t now n : t_cfg (fst (fst (target_gnmi_update t now n))) = t_cfg t.
Proof.
  assert (Hfin : forall b t1, t_cfg t1 = t_cfg t -> t_cfg (finish_ts n b t1) = t_cfg t).
  { intros b t1 H. now rewrite (proj1 (finish_ts_cfg n b t1)). }
  assert (Hmu : forall us a, t_cfg (a_t (fold_left (multi_update_step now n) us a)) = t_cfg (a_t a)).
  { induction us as [|u us IH]; intros a; cbn [fold_left]; [reflexivity|]. rewrite IH.
    unfold multi_update_step. destruct (a_panic a); [reflexivity|].
    destruct (gnmi_update1 (a_t a) now (clone_with_update n u)) as [t1 [[nd|]|e|w]] eqn:E;
      cbn [a_t]; apply gnmi_update1_cfg in E; exact E. }
  assert (Hmd : forall ds a, t_cfg (a_t (fold_left (multi_delete_step n) ds a)) = t_cfg (a_t a)).
  { induction ds as [|d ds IH]; intros a; cbn [fold_left]; [reflexivity|]. rewrite IH.
    unfold multi_delete_step. destruct (a_panic a); [reflexivity|].
    destruct (gnmi_remove _ _) as [t1 [rm|e|w]] eqn:E; cbn [a_t]; apply gnmi_remove_cfg in E; exact E. }
  unfold target_gnmi_update.
  destruct (n_atomic n).
  - destruct (n_del n); [|reflexivity]. destruct (n_upd n); [reflexivity|].
    destruct (gnmi_update1 t now n) as [t1 [[nd|]|e|w]] eqn:E; cbn [fst]; apply gnmi_update1_cfg in E; apply Hfin; exact E.
  - destruct (n_upd n) as [|u [|u2 us]]; destruct (n_del n) as [|d [|d2 ds]]; cbn [fst];
      try reflexivity;
      try (destruct (gnmi_update1 t now n) as [t1 [[nd|]|e|w]] eqn:E; cbn [fst]; apply gnmi_update1_cfg in E; apply Hfin; exact E);
      try (destruct (gnmi_remove _ n) as [t1 [rm|e|w]] eqn:E; cbn [fst]; apply gnmi_remove_cfg in E; exact E);
      try (apply Hfin; rewrite Hmd, Hmu; reflexivity).
Qed.

Lemma trun_cfg H : forall t, t_cfg (trun t H) = t_cfg t.
Proof.
  induction H as [|h H IH]; intros t; cbn [trun fold_left]; [reflexivity|].
  fold (trun (tstep t h) H). rewrite IH. apply target_gnmi_update_cfg.
Qed.

(** C03, the replay equivalence: for every history of notifications delivered
    to a fresh target (and hence for every prefix of it), replaying everything
    the client was handed so far yields exactly the index paths the cache
    stores, each with the notification the cache stores -- or, under
    event-driven emulation, with a non-atomic notification of equal value that
    is not newer than the stored one *)
Theorem feed_replays_target name A cfg (H : hist) :
  (forall h, In h H -> good_notif name A (snd h)) ->
  no_panic (new_target name cfg) H ->
  forall s, rel (cfg_event_driven cfg)
                (rfind (replay (tfeed (new_target name cfg) H)) name s)
                (lookup (t_tree (trun (new_target name cfg) H)) s).
Proof.
  intros Hg Hnp.
  assert (H0 : Inv name A (new_target name cfg) []).
  { split; [exact I|]. split; [intros s v Hv; discriminate|intros s; exact I]. }
  destruct (history_inv name A H _ _ H0 Hg Hnp) as (_ & _ & Hrel).
  intros s. specialize (Hrel s). rewrite trun_cfg in Hrel. exact Hrel.
Qed.

(** * withheld only if rejected, or unchanged under event-driven emulation *)

Theorem withheld_only_if t now n t' r :
  wf_tree (t_tree t) -> gnmi_update1 t now n = (t', r) ->
  match r with
  | Ok (Some nd) =>                        (* handed to the client: the stored notification itself *)
      nd = n /\ exists p, unit_index n = Ok p /\ lookup (t_tree t') p = Some n
  | Ok None =>                             (* stored and withheld *)
      exists p old, unit_index n = Ok p /\ lookup (t_tree t) p = Some old /\
        lookup (t_tree t') p = Some n /\
        cfg_event_driven (t_cfg t) = true /\ n_atomic n = false /\
        value_equal (first_val old) (first_val n) = true /\
        (defect_c03_2_atomic_suppress = true \/ n_atomic old = false)
  | Err _ => t_tree t' = t_tree t          (* rejected: nothing stored *)
  | Panic _ => True
  end.
Proof.
  intros Hwf E. destruct (gnmi_update1_result _ _ _ _ _ Hwf E) as (_ & _ & Hr).
  destruct r as [[nd|]|e|w]; auto.
  - destruct Hr as (p & Hi & _ & Hl & ->). split; [reflexivity|]. exists p. split; [exact Hi|].
    now rewrite Hl, path_eqb_refl.
  - destruct Hr as (p & Hi & _ & Hl & old & H1 & H2 & H3 & H4 & H5 & _).
    exists p, old. rewrite Hl, path_eqb_refl. repeat split; auto.
Qed.

(** * atomic notifications are one unit *)

Theorem atomic_unit t now n t' gs r :
  wf_tree (t_tree t) -> n_atomic n = true -> target_gnmi_update t now n = (t', gs, r) ->
  (gs = [] \/ gs = [FUpd n]) /\
  (forall p, unit_index n = Ok p -> forall q, q <> p -> lookup (t_tree t') q = lookup (t_tree t) q) /\
  (gs = [FUpd n] -> exists p, unit_index n = Ok p /\ lookup (t_tree t') p = Some n).
Proof.
  intros Hwf Hat. unfold target_gnmi_update. rewrite Hat.
  destruct (n_del n) as [|d ds].
  2:{ intros E; inversion E; subst. split; [left; reflexivity|]. split; [reflexivity|discriminate]. }
  destruct (n_upd n) as [|u us] eqn:Hu.
  { intros E; inversion E; subst. split; [left; reflexivity|]. split; [reflexivity|discriminate]. }
  destruct (gnmi_update1 t now n) as [t1 r1] eqn:E1.
  destruct (gnmi_update1_result _ _ _ _ _ Hwf E1) as (_ & _ & Hr).
  destruct (gnmi_update1_spec _ _ _ _ _ Hwf E1) as (_ & _ & Hs).
  assert (Hframe : forall p, unit_index n = Ok p -> forall q, q <> p -> lookup (t_tree t1) q = lookup (t_tree t) q).
  { intros p Hi q Hq. destruct r1 as [o|e|w].
    - destruct Hr as (p' & Hi' & _ & Hl & _). rewrite Hl. assert (p' = p) by congruence. subst.
      destruct (path_eqb_spec q p); [contradiction|reflexivity].
    - now rewrite Hr.
    - (* a panic after the leaf was written (never for an atomic notification) or before *)
      destruct (unit_ok n) as [p0|] eqn:Hok.
      + destruct Hs as [[_ ->]|[_ Hl]]; [reflexivity|]. rewrite Hl.
        assert (p0 = p).
        { unfold unit_ok in Hok. rewrite Hu, Hi in Hok. destruct p as [|a b]; [discriminate|].
          destruct (negb (String.eqb a md_root)); [congruence|]. destruct b; [discriminate|].
          destruct (meta_val_ok _ _ _); congruence. }
        subst. destruct (path_eqb_spec q p); [contradiction|reflexivity].
      + destruct Hs as [-> _]. reflexivity. }
  destruct r1 as [[nd|]|e|w]; intros E; inversion E; subst; clear E; rewrite ?finish_ts_tree.
  - destruct Hr as (p & Hi & _ & Hl & ->). split; [right; reflexivity|]. split.
    + exact Hframe.
    + intros _. exists p. split; [exact Hi|]. now rewrite Hl, path_eqb_refl.
  - split; [left; reflexivity|]. split; [exact Hframe|discriminate].
  - split; [left; reflexivity|]. split; [exact Hframe|discriminate].
  - split; [left; reflexivity|]. split; [exact Hframe|discriminate].
Qed.

(** * The excluded classes matter: witnesses *)

Definition wit_pfx (els : list string) : option gpath := Some (gp_prefix "t" "" els).
Definition wit_upd (ts : Z) (pfx : list string) (pcap : option (N * N)) (leaf : string) (v : Z) : notif :=
  Notif ts (wit_pfx pfx) pcap [Upd (Some (gp_of_names [leaf])) (Some (TInt v)) 0] [] false.

(** DEFECT C03_1 (corpus/C03/kf1_delete_alias.json): three leaves written
    through one prefix object with spare capacity, then a subtree delete *)
Definition wit_alias : hist :=
  [(0, wit_upd 1 ["a"; "b"] (Some (1%N, 2%N)) "x" 1);
   (0, wit_upd 1 ["a"; "b"] (Some (1%N, 2%N)) "y" 1);
   (0, wit_upd 1 ["a"; "b"] (Some (1%N, 2%N)) "z" 1);
   (0, Notif 5 (wit_pfx []) None [] [gp_of_names ["a"; "b"]] false)].

(** DEFECT C03_2 (corpus/C03/kf2_atomic_then_scalar.json) *)
Definition wit_atomic : hist :=
  [(0, Notif 1 (wit_pfx ["a"; "b"]) None
         [Upd (Some (gp_of_names ["x"])) (Some (TInt 1)) 0; Upd (Some (gp_of_names ["y"])) (Some (TInt 2)) 0]
         [] true);
   (0, wit_upd 2 ["a"] None "b" 1)].

(** KF C03-3 (corpus/C03/kf3_path_origin_delete.json) *)
Definition wit_origin : hist :=
  [(0, Notif 1 (wit_pfx ["a"]) None [Upd (Some (GPath "" "o" [("b", [])] [])) (Some (TInt 1)) 0] [] false);
   (0, Notif 5 (wit_pfx ["a"]) None [] [gp_of_names ["b"]] false)].

Definition wit_cfg : config := Cfg 0 true [].

Definition replay_differs (H : hist) (s : path) : Prop :=
  ~ rel true (rfind (replay (tfeed (new_target "t" wit_cfg) H)) "t" s)
             (lookup (t_tree (trun (new_target "t" wit_cfg) H)) s).

(** stated under the switch so that flipping it in CacheModel.v stays a
    one-line change *)
Lemma feed_replays_refuted_alias :
  if defect_c03_1_alias then exists s, replay_differs wit_alias s else True.
Proof.
  cbv delta [defect_c03_1_alias] iota.
  lazymatch goal with
  | |- True => exact I
  | |- _ => exists ["a"; "b"; "x"]; unfold replay_differs; vm_compute; intros H; exact H
  end.
Qed.

Lemma feed_replays_refuted_atomic :
  if defect_c03_2_atomic_suppress then exists s, replay_differs wit_atomic s else True.
Proof.
  cbv delta [defect_c03_2_atomic_suppress] iota.
  lazymatch goal with
  | |- True => exact I
  | |- _ => exists ["a"; "b"]; unfold replay_differs; vm_compute; intros H; discriminate H
  end.
Qed.

Lemma feed_replays_refuted_origin : exists s, replay_differs wit_origin s.
Proof. exists ["a"; "b"]. unfold replay_differs. vm_compute. intros H; exact H. Qed.

(** ... while the hypotheses of [feed_replays_target] are satisfiable by
    histories with every kind of notification *)
Definition ex_good_hist : hist :=
  [(0, wit_upd 1 ["a"] None "b" 1); (0, wit_upd 2 ["a"] None "b" 1); (0, wit_upd 3 ["a"] None "b" 2);
   (0, Notif 4 (wit_pfx ["a"]) None
         [Upd (Some (gp_of_names ["c"])) (Some (TInt 1)) 0; Upd (Some (gp_of_names ["d"])) (Some (TStr "x")) 0]
         [gp_of_names ["b"]] false);
   (0, Notif 5 (wit_pfx ["g"]) None [Upd (Some (gp_of_names ["x"])) (Some (TInt 1)) 0] [] true);
   (0, Notif 9 (wit_pfx []) None [] [gp_of_names ["a"; "*"]] false)].

Definition ex_A (p : path) : bool := path_eqb p ["g"].

Example ex_good_hist_ok :
  (forall h, In h ex_good_hist -> good_notif "t" ex_A (snd h)) /\
  no_panic (new_target "t" wit_cfg) ex_good_hist /\
  List.length (tfeed (new_target "t" wit_cfg) ex_good_hist) = 8%nat.
Proof.
  split; [|split; [cbv; repeat split; discriminate|vm_compute; reflexivity]].
  intros h Hh m Hm. cbn in Hh.
  repeat (destruct Hh as [<-|Hh]; [cbn in Hm; repeat (destruct Hm as [Hm|Hm]; [inversion Hm; subst; clear Hm|]); try contradiction;
    (split; [reflexivity|split; [reflexivity|split; [reflexivity|split; [reflexivity|
       intros s Hs; vm_compute in Hs; inversion Hs; subst; split; reflexivity]]]])|]).
  contradiction.
Qed.

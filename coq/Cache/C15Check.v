(** C15: correspondence evaluator and the executable specification K_P.

    Two kinds of cases.

    [CCache]: as for C14 (see C14Check.v / MultiCache.v) -- a history of API
    calls on one real [cache.Cache] with, after every call, HasTarget / Query /
    Metadata for every name.  Tag 1: the implementation differs from the model
    ([MultiCache.mstep], which carries every counter).  K_P, from the
    implementation's own observations only:
      tag 2  leafcount_is_tree: targetLeaves = number of non-metadata leaves
             returned by Query; and after every refresh (UpdateMetadata, Reset)
             the exported leaf meta/targetLeaves exists and shows that number;
      tag 3  leafcount_add_minus_del: targetLeaves = targetLeavesAdded -
             targetLeavesDeleted;
      tag 4  update_accounting: the counters moved by a call add up to the
             number of ingest units submitted (per unit: updated | suppressed |
             stale | future | returned error), stale / future agree with the
             returned error classes, an empty notification counts in empty,
             UpdateMetadata / UpdateSize move no counter;
      tag 5  latest_is_max: the latest timestamp exported by UpdateMetadata /
             Reset is the greatest timestamp of an accepted notification whose
             first update is not under "meta" since the last Reset (0 if none);
      known findings: tag 11 (DESIGN 7.11) targetLeaves is short by exactly the
             number of metadata leaves deleted since the last Reset; tag 12
             (7.20) nothing accepted yet and the exported value is
             time.Time{}.UnixNano(); tag 13 (7.12) the exported value misses
             only notifications whose first update path has no Elem.
             tag 14 (KF-C15-3): a leaf-count law (tags 2, 3, exported leaf) fails
             on a target whose history since its last Reset contains a delete
             addressed to meta/<int entry> (gnmiRemove -> ResetEntry zeroes the
             counter), or the accounting law fails on that very call.

    [CLat]: a sequence of Compute / UpdateReset / UpdateLast calls on one real
    [latency.Latency] with the stats each update wrote per window.  Tag 1:
    differs from LatencyModel.  K_P tag 6 (latency_bounds): with S the samples
    of the batches closed after [now - window], every max / min written lies in
    [min S, max S], every avg strictly within (min S - p, max S + p), and
    nothing is written when S is empty.
    Definitions only. *)
From Gnmi Require Import Base.Prelude CTree.CTreeModel Path.PathModel Cache.CacheModel
  Cache.MultiCache Cache.C14Check Latency.LatencyModel.
Local Open Scope Z_scope.

(** * Cache part *)

Definition geti (m : metaobs) (k : string) : Z :=
  match mo_int m k with Some z => z | None => 0 end.

Definition acct_names : list string :=
  [md_update_count; md_suppressed_count; md_stale_count; md_future_count].

(** what K_P remembers per target since its last Reset / Add *)
Record kt := KT {
  k_meta_del : Z;          (* metadata leaves announced as deleted *)
  k_latest : option Z;     (* specification: greatest accepted non-meta timestamp *)
  k_blind : bool           (* an accepted non-meta notification whose first update path has no Elem *)
}.

Definition kt0 : kt := KT 0 None false.

Definition kget (ks : list (string * kt)) (t : string) : kt :=
  match assoc t ks with Some k => k | None => kt0 end.

(** ** tag 2 / 11 and 3 *)

Definition kp_leafcount_one (ks : list (string * kt)) (kt : string * tobs) : list N :=
    match to_dump (snd kt), to_meta (snd kt) with
    | Some d, Some m =>
        let real := Z.of_nat (List.length (non_meta d)) in
        let lc := geti m md_leaf_count in
        (if Z.eqb lc real then []
         else if Z.ltb 0 (k_meta_del (kget ks (fst kt))) &&
                 Z.eqb lc (real - k_meta_del (kget ks (fst kt)))
              then [11%N] else [2%N]) ++
        (if Z.eqb lc (geti m md_add_count - geti m md_del_count) then [] else [3%N])
    | _, _ => []
    end.

Definition kp_leafcount (ks : list (string * kt)) (ob : mobs) : list N :=
  flat_map (kp_leafcount_one ks) (o_tgts ob).

(** ** known finding KF-C15-3 (tag 14): counters zeroed by a delete of their
    own metadata leaf.  [gnmiRemove] calls [metadata.ResetEntry(path[1])] for
    every delete whose index path is meta/<name>/...; for an int entry this
    zeroes a counter the cache maintains incrementally.  The class: the target's
    history since its last Reset / Add / Remove contains a non-atomic
    notification with a delete whose index path is meta/<registered int
    entry>[/...] (deletes of "meta", "meta/*" or "*" reset nothing and are NOT in
    the class).  Inside the class a failure of the leaf-count laws (tags 2, 3,
    exported leaf) of THAT target, and of the accounting law (tag 4) of the
    resetting call itself, is reported as tag 14. *)
Definition is_counter_reset_path (p : path) : bool :=
  match p with
  | p0 :: k :: _ => String.eqb p0 "meta" && name_in k md_int_names
  | _ => false
  end.

Definition resets_counter (n : notif) : bool :=
  negb (n_atomic n) &&
  existsb (fun d => match join_prefix_and_path (gp_of_opt (n_prefix n)) d with
                    | Ok p => is_counter_reset_path p
                    | _ => false
                    end) (n_del n).

Definition in_cr (t : string) (cr : list string) : bool := existsb (String.eqb t) cr.

Definition cr_next (cr : list string) (o : mop) : list string :=
  match o with
  | MReset _ t | MAdd t | MRemove _ t => filter (fun x => negb (String.eqb t x)) cr
  | MUpd _ n =>
      match n_prefix n with
      | Some pr => if resets_counter n then gp_target pr :: cr else cr
      | None => cr
      end
  | _ => cr
  end.

Definition kf3 (b : bool) (l : list N) : list N := if b then map (fun _ => 14%N) l else l.

Definition kp_leafcount_cr (ks : list (string * kt)) (cr : list string) (ob : mobs) : list N :=
  flat_map (fun kt => kf3 (in_cr (fst kt) cr) (kp_leafcount_one ks kt)) (o_tgts ob).

(** ** tag 4 *)

Fixpoint count_cls (c : rcls) (l : list rcls) : Z :=
  match l with
  | [] => 0
  | x :: l' => (if rcls_eqb x c then 1 else 0) + count_cls c l'
  end.

(** error classes the call returned, one per rejected unit *)
Definition res_errors (r : rcls) : list rcls :=
  match r with
  | ROk => []
  | RMulti l => l
  | x => [x]
  end.

Definition delta (b a : metaobs) (k : string) : Z := geti a k - geti b k.

(** submitted units and the weight of one accepted unit in [updated] *)
Definition units_of (n : notif) : option (Z * Z) :=
  if n_atomic n then
    match n_del n, n_upd n with
    | _ :: _, _ => None                                  (* refused as a whole *)
    | [], [] => Some (0, 1)
    | [], us => Some (1, Z.of_nat (List.length us))
    end
  else Some (Z.of_nat (List.length (n_upd n) + List.length (n_del n)), 1).

Definition no_counter_moves (b a : metaobs) : bool :=
  forallb (fun k => Z.eqb (delta b a k) 0) (md_empty_count :: acct_names).

Definition kp_accounting (prev : list (string * tobs)) (o : mop) (ob : mobs) : bool :=
  let pair t := match assoc t prev, assoc t (o_tgts ob) with
                | Some pb, Some pa =>
                    match to_meta pb, to_meta pa with
                    | Some b, Some a => Some (b, a)
                    | _, _ => None
                    end
                | _, _ => None
                end in
  match o with
  | MUpd _ n =>
      match n_prefix n with
      | None => true
      | Some pr =>
          match pair (gp_target pr) with
          | None => true
          | Some (b, a) =>
              let errs := res_errors (o_res ob) in
              match units_of n with
              | None => no_counter_moves b a
              | Some (units, w) =>
                  if Z.eqb units 0 then
                    Z.eqb (delta b a md_empty_count) 1 &&
                    forallb (fun k => Z.eqb (delta b a k) 0) acct_names
                  else
                    Z.eqb (delta b a md_empty_count) 0 &&
                    Z.eqb (Z.rem (delta b a md_update_count) w) 0 &&
                    Z.leb 0 (delta b a md_update_count) &&
                    Z.leb 0 (delta b a md_suppressed_count) &&
                    Z.eqb (Z.quot (delta b a md_update_count) w + delta b a md_suppressed_count +
                           delta b a md_stale_count + delta b a md_future_count +
                           count_cls ROther errs) units &&
                    Z.eqb (delta b a md_stale_count) (count_cls RStale errs) &&
                    Z.eqb (delta b a md_future_count) (count_cls RFuture errs)
              end
          end
      end
  | MSync _ t | MConnectError _ t _ =>
      match pair t with
      | None => true
      | Some (b, a) =>
          Z.eqb (delta b a md_empty_count) 0 &&
          Z.eqb (delta b a md_update_count + delta b a md_suppressed_count +
                 delta b a md_stale_count + delta b a md_future_count) 1
      end
  | MConnect _ t =>
      match pair t with
      | None => true
      | Some (b, a) =>
          Z.eqb (delta b a md_empty_count) 0 &&
          Z.eqb (delta b a md_update_count + delta b a md_suppressed_count +
                 delta b a md_stale_count + delta b a md_future_count) 2
      end
  | MUpdateMeta _ | MUpdateSize _ =>
      forallb (fun kt => match assoc (fst kt) prev with
                         | Some pb => match to_meta pb, to_meta (snd kt) with
                                      | Some b, Some a => no_counter_moves b a
                                      | _, _ => true
                                      end
                         | None => true
                         end) (o_tgts ob)
  | _ => true
  end.

(** ** tag 5 / 12 / 13 *)

Definition exported_latest (t : string) (ob : mobs) : option Z :=
  match assoc t (o_tgts ob) with
  | Some a => match to_meta a with Some m => mo_int m md_latest_ts | None => None end
  | None => None
  end.

Definition kp_latest_one (ks : list (string * kt)) (ob : mobs) (t : string) : list N :=
  match assoc t (o_tgts ob) with
  | Some a =>
      match to_meta a with
      | None => []
      | Some m =>
          let k := kget ks t in
          let want := match k_latest k with Some z => z | None => 0 end in
          let got := geti m md_latest_ts in
          if Z.eqb got want then []
          else if k_blind k then [13%N]
          else match k_latest k with
               | None => if Z.eqb got zero_time_unixnano then [12%N] else [5%N]
               | Some _ => [5%N]
               end
      end
  | None => []
  end.

Definition kp_latest (ks : list (string * kt)) (o : mop) (ob : mobs) : list N :=
  match o with
  | MUpdateMeta _ => flat_map (fun kt => kp_latest_one ks ob (fst kt)) (o_tgts ob)
  | MReset _ t => kp_latest_one ks ob t
  | _ => []
  end.

(** did the call accept at least one update of the notification *)
Definition accepted_any (n : notif) (r : rcls) : bool :=
  match n_upd n with
  | [] => false
  | us =>
      if n_atomic n then rcls_eqb r ROk
      else Z.ltb (Z.of_nat (List.length (res_errors r))) (Z.of_nat (List.length us))
  end.

Definition first_unit (n : notif) : notif :=
  match n_upd n with
  | u :: _ => Notif (n_ts n) (n_prefix n) None [u] [] (n_atomic n)
  | [] => n
  end.

Definition first_has_elem (n : notif) : bool :=
  match n_upd n with
  | u :: _ => match gp_elems (gp_of_opt (u_path u)) with [] => false | _ :: _ => true end
  | [] => false
  end.

Definition zmax_opt (o : option Z) (z : Z) : option Z :=
  match o with None => Some z | Some y => Some (Z.max y z) end.

(** is the notification tracked -- the rule of Target.GnmiUpdate, decided on the
    FIRST update: its index path (the raw index list without the target) is
    non-empty and does not start with "meta" (round 7: an EMPTY index path of the
    first update is untracked too, as in the code: [len(p) > 1 && p[1] != "meta"];
    agreement with [CacheModel.tracks_ts]: C15History.kp_tracked_agrees).
    Acceptance ([accepted_any]): every error of a multi notification comes from an
    update unit -- gnmiRemove returns no error (C15History.multi_accept_is_fewer_errors)
    -- so "fewer errors than updates" is exactly the updateTS flag of the code. *)
Definition kp_tracked (n : notif) : bool :=
  match upd_index (first_unit n) with
  | Some (k :: _) => negb (String.eqb k "meta")
  | _ => false
  end.

Definition kt_next (prev : list (string * tobs)) (ks : list (string * kt)) (o : mop) (ob : mobs)
  : list (string * kt) :=
  (* deletes of metadata leaves announced in this step, per target *)
  let ks1 := fold_left (fun ks n =>
               match n_upd n, del_index n with
               | [], Some p =>
                   if is_meta_path p then
                     let k := kget ks (feed_tgt n) in
                     aset (feed_tgt n) (KT (k_meta_del k + 1) (k_latest k) (k_blind k)) ks
                   else ks
               | _, _ => ks
               end) (o_feed ob) ks in
  match o with
  | MReset _ t | MAdd t | MRemove _ t => aset t kt0 ks1
  | MUpd _ n =>
      match n_prefix n with
      | Some pr =>
          let t := gp_target pr in
          let existed := match assoc t prev with Some b => to_has b | None => false end in
          if existed && accepted_any n (o_res ob) && kp_tracked n then
            let k := kget ks1 t in
            aset t (KT (k_meta_del k) (zmax_opt (k_latest k) (n_ts n))
                       (k_blind k || negb (first_has_elem n))) ks1
          else ks1
      | None => ks1
      end
  | _ => ks1
  end.

(** after every refresh (UpdateMetadata; Reset of that target) the EXPORTED leaf
    count -- the leaf meta/targetLeaves that queries and subscribers see -- exists
    and shows the number of non-metadata leaves stored *)
Definition kp_exported_one (a : tobs) : bool :=
  match to_dump a with
  | Some d =>
      existsb (fun e => path_eqb (fst e) ["meta"; md_leaf_count] &&
                        otv_eqb (first_val (snd e)) (Some (TInt (Z.of_nat (List.length (non_meta d)))))) d
  | None => true
  end.

Definition kp_exported (o : mop) (ob : mobs) : bool :=
  match o with
  | MUpdateMeta _ => forallb (fun kt => kp_exported_one (snd kt)) (o_tgts ob)
  | MReset _ t => match assoc t (o_tgts ob) with Some a => kp_exported_one a | None => true end
  | _ => true
  end.

Definition kp_exported_cr (cr : list string) (o : mop) (ob : mobs) : list N :=
  match o with
  | MUpdateMeta _ =>
      flat_map (fun kt => if kp_exported_one (snd kt) then [] else kf3 (in_cr (fst kt) cr) [2%N]) (o_tgts ob)
  | MReset _ t => match assoc t (o_tgts ob) with
                  | Some a => if kp_exported_one a then [] else [2%N]
                  | None => []
                  end
  | _ => []
  end.

Definition kp_cache_step (prev : list (string * tobs)) (ks : list (string * kt)) (cr : list string)
  (o : mop) (ob : mobs) : list N :=
  let ks' := kt_next prev ks o ob in
  let cr' := cr_next cr o in
  kp_leafcount_cr ks' cr' ob ++
  kp_exported_cr cr' o ob ++
  (if kp_accounting prev o ob then []
   else kf3 (match o with MUpd _ n => resets_counter n | _ => false end) [4%N]) ++
  kp_latest ks' o ob.

Fixpoint check_cache_from (i : nat) (s : mstate) (prev : list (string * tobs)) (ks : list (string * kt))
  (cr : list string) (l : list (mop * mobs)) : list (nat * N) :=
  match l with
  | [] => []
  | (o, ob) :: l' =>
      let '(s', r, f, outs) := mstep s o in
      let v1 := if corr_step o s' r f outs ob then [] else [(i, 1%N)] in
      let vk := map (fun t => (i, t)) (kp_cache_step prev ks cr o ob) in
      v1 ++ vk ++ check_cache_from (S i) s' (o_tgts ob) (kt_next prev ks o ob) (cr_next cr o) l'
  end.

Definition check_cache (cs : mcase) : list (nat * N) :=
  let '(cfg, names, init, l) := cs in
  let s := minit cfg names in
  check_init s init ++ check_cache_from 0 s init [] [] l.

(** * Latency part *)

Definition lobs := list (option wstats).
Definition latcase := (list Z * Z * list (lop * lobs))%type.

Definition oz_eqb (a b : option Z) : bool :=
  match a, b with
  | Some x, Some y => Z.eqb x y
  | None, None => true
  | _, _ => false
  end.

Definition wstats_eqb (a b : wstats) : bool :=
  oz_eqb (ws_avg a) (ws_avg b) && oz_eqb (ws_max a) (ws_max b) && oz_eqb (ws_min a) (ws_min b).

(** through the [latency.Metadata] interface "returned before writing" and
    "wrote nothing" look the same *)
Definition norm_ws (o : option wstats) : wstats :=
  match o with Some w => w | None => WS None None None end.

Definition lobs_eqb (a b : lobs) : bool := list_eqb wstats_eqb (map norm_ws a) (map norm_ws b).

(** the specification side: batches of samples, closed at update times *)
Record lspec := LS {
  ls_cur : list Z;                    (* samples since the last update *)
  ls_batches : list (Z * list Z)      (* closing time, samples *)
}.

Definition ls_step (s : lspec) (o : lop) : lspec :=
  match o with
  | LCompute now ts => LS (ls_cur s ++ [now - ts]) (ls_batches s)
  | LUpdate now | LUpdateLast now =>
      match ls_cur s with
      | [] => s
      | c => LS [] (ls_batches s ++ [(now, c)])
      end
  end.

Definition retained (s : lspec) (now size : Z) : list Z :=
  flat_map (fun b => if Z.ltb (now - size) (fst b) then snd b else []) (ls_batches s).

Definition zmin_list (l : list Z) : option Z :=
  match l with [] => None | x :: r => Some (fold_left Z.min r x) end.
Definition zmax_list (l : list Z) : option Z :=
  match l with [] => None | x :: r => Some (fold_left Z.max r x) end.

Definition within (lo hi : Z) (strict : Z) (o : option Z) : bool :=
  match o with
  | None => true
  | Some v => if Z.eqb strict 0 then Z.leb lo v && Z.leb v hi
              else Z.ltb (lo - strict) v && Z.ltb v (hi + strict)
  end.

Definition is_none {A} (o : option A) : bool := match o with None => true | Some _ => false end.

Definition kp_window (S : list Z) (p : Z) (w : option wstats) : bool :=
  match w with
  | None => true
  | Some st =>
      match zmin_list S, zmax_list S with
      | Some lo, Some hi =>
          within lo hi 0 (ws_max st) && within lo hi 0 (ws_min st) && within lo hi p (ws_avg st)
      | _, _ => is_none (ws_avg st) && is_none (ws_max st) && is_none (ws_min st)
      end
  end.

Definition kp_lat_step (sizes : list Z) (p : Z) (s' : lspec) (o : lop) (ob : lobs) : bool :=
  match o with
  | LCompute _ _ => match ob with [] => true | _ => false end
  | LUpdate now | LUpdateLast now =>
      Nat.eqb (List.length ob) (List.length sizes) &&
      forallb (fun x => kp_window (retained s' now (fst x)) p (snd x)) (combine sizes ob)
  end.

Fixpoint check_lat_from (i : nat) (sizes : list Z) (p : Z) (l : lat) (s : lspec)
  (ops : list (lop * lobs)) : list (nat * N) :=
  match ops with
  | [] => []
  | (o, ob) :: ops' =>
      let '(l', mo) := lstep l o in
      let s' := ls_step s o in
      (if lobs_eqb mo ob then [] else [(i, 1%N)]) ++
      (if kp_lat_step sizes p s' o ob then [] else [(i, 6%N)]) ++
      check_lat_from (S i) sizes p l' s' ops'
  end.

Definition check_lat (cs : latcase) : list (nat * N) :=
  let '(sizes, prec, ops) := cs in
  check_lat_from 0 sizes (if Z.eqb prec 0 then 1 else prec) (lat_new sizes prec) (LS [] []) ops.

(** * Cache-level latency: a cache built WITH latency windows

    One target.  The calls are Sync, single-update GnmiUpdate, UpdateMetadata
    and Reset under a controlled clock (cache.Now = latency.Now per call).
    Observed per call: the result class, whether the call announced something,
    and (after UpdateMetadata / Reset) the CURRENT values of the latency
    statistics in Metadata() per window ([None] = unset).

    Model (tag 1): CacheModel's ingest path records in [t_lat] the timestamps
    it hands to [lat.Compute] (the two call sites at the end of the accept
    paths of gnmiUpdate: announced update of an existing leaf, new leaf; not
    suppressed, not refused, not metadata, only when synced); they are fed, with
    the call's clock, into LatencyModel; UpdateMetadata / Reset run
    [lat_update]; a statistic keeps its last written value (SetInt is skipped
    for 0), Reset unsets all of them first (ResetAction of a non-InitZero int).

    K_P (tag 6), from the implementation's own answers only -- reading fixed by
    the coordinator: the latencies "observed" in a window are those of the
    ACCEPTED (announced) post-sync non-metadata updates; suppressed updates are
    not samples (HEAD returns before Compute), refused ones (stale, future,
    collision) neither: every statistic whose exported value CHANGED at a
    refresh lies within the bounds of the accepted samples of the batches closed
    after [now - window] (average within the precision). *)

Definition clobs := (rcls * bool * list wstats)%type.
Definition clatcase := (config * string * list Z * Z * list (mop * clobs))%type.

Definition op_now (o : mop) : Z :=
  match o with
  | MUpd now _ | MReset now _ | MRemove now _ | MSync now _ | MConnect now _
  | MConnectError now _ _ | MUpdateMeta now | MSubWalk now _ _ => now
  | _ => 0
  end.

Definition lat_tape (c : cache) (t : string) : list Z :=
  match assoc t (c_targets c) with Some x => t_lat x | None => [] end.

Definition merge_stat (cur new : option Z) : option Z := match new with Some v => Some v | None => cur end.

Definition merge_ws (cur : wstats) (w : option wstats) : wstats :=
  match w with
  | None => cur
  | Some n => WS (merge_stat (ws_avg cur) (ws_avg n)) (merge_stat (ws_max cur) (ws_max n))
                 (merge_stat (ws_min cur) (ws_min n))
  end.

Definition ws_none : wstats := WS None None None.

Definition is_refresh (o : mop) : bool :=
  match o with MUpdateMeta _ | MReset _ _ => true | _ => false end.

(** a statistic that changed must be within the bounds *)
Definition changed_within (S : list Z) (p : Z) (strict : bool) (prev cur : option Z) : bool :=
  if oz_eqb prev cur then true
  else match cur with
       | None => true
       | Some v =>
           match zmin_list S, zmax_list S with
           | Some lo, Some hi => within lo hi (if strict then p else 0) (Some v)
           | _, _ => false
           end
       end.

Definition kp_clat_window (S : list Z) (p : Z) (prev cur : wstats) : bool :=
  changed_within S p false (ws_max prev) (ws_max cur) &&
  changed_within S p false (ws_min prev) (ws_min cur) &&
  changed_within S p true (ws_avg prev) (ws_avg cur).

Fixpoint check_clat_from (i : nat) (t : string) (sizes : list Z) (p : Z)
  (c : cache) (l : lat) (cur : list wstats)
  (sp : lspec) (synced : bool) (prev : list wstats)
  (ops : list (mop * clobs)) : list (nat * N) :=
  match ops with
  | [] => []
  | (o, (res, fed, obs)) :: ops' =>
      let now := op_now o in
      let '(c', r, f) := cstep c o in
      (* model side *)
      let before := lat_tape c t in
      let after := lat_tape c' t in
      let fresh := if is_refresh o then []
                   else rev (firstn (List.length after - List.length before) after) in
      let l1 := fold_left (fun l ts => lat_compute l now ts) fresh l in
      let '(l2, outs) := if is_refresh o then lat_update l1 now false else (l1, []) in
      let base := match o with MReset _ _ => map (fun _ => ws_none) cur | _ => cur end in
      let cur' := if is_refresh o then map (fun x => merge_ws (fst x) (snd x)) (combine base outs) else cur in
      let m_fed := match o with MUpd _ _ => negb (is_nil (mfeed_list f)) | _ => fed end in
      let v1 := if rcls_eqb r res && Bool.eqb m_fed fed &&
                   (is_nil obs || list_eqb wstats_eqb cur' obs) then [] else [(i, 1%N)] in
      (* specification side *)
      let synced' := match o with MSync _ _ => true | MReset _ _ => false | _ => synced end in
      let sp1 := match o with
                 | MUpd _ n =>
                     if synced && rcls_eqb res ROk && fed then LS (ls_cur sp ++ [now - n_ts n]) (ls_batches sp) else sp
                 | _ => sp
                 end in
      let sp2 := if is_refresh o then ls_step sp1 (LUpdate now) else sp1 in
      let v6 := if is_refresh o && negb (is_nil obs) then
                  if forallb (fun x => kp_clat_window (retained sp2 now (fst x)) p (fst (snd x)) (snd (snd x)))
                             (combine sizes (combine prev obs))
                  then [] else [(i, 6%N)]
                else [] in
      let prev' := if is_nil obs then prev else obs in
      v1 ++ v6 ++ check_clat_from (S i) t sizes p c' l2 cur' sp2 synced' prev' ops'
  end.

Definition check_clat (cs : clatcase) : list (nat * N) :=
  let '(cfg, t, sizes, prec, ops) := cs in
  let none := map (fun _ => ws_none) sizes in
  check_clat_from 0 t sizes (if Z.eqb prec 0 then 1 else prec)
    (new_cache cfg [t]) (lat_new sizes prec) none (LS [] []) false none ops.

(** * Cases *)

Inductive c15case :=
| CCache (c : mcase)
| CLat (c : latcase)
| CCacheLat (c : clatcase).

Definition check_case15 (c : c15case) : list (nat * N) :=
  match c with
  | CCache m => check_cache m
  | CLat l => check_lat l
  | CCacheLat l => check_clat l
  end.

Fixpoint check_all_from15 (i : nat) (cs : list c15case) : list (nat * nat * N) :=
  match cs with
  | [] => []
  | c :: cs' => map (fun sn => (i, fst sn, snd sn)) (check_case15 c) ++ check_all_from15 (S i) cs'
  end.

Definition check_all15 (cs : list c15case) : list (nat * nat * N) := check_all_from15 0 cs.

(** monomorphic constructors for the generated files *)
Definition LSTEP (o : lop) (ob : lobs) : lop * lobs := (o, ob).
Definition WSo (a b c : option Z) : option wstats := Some (WS a b c).
Definition CLSTEP (o : mop) (r : rcls) (fed : bool) (st : list wstats) : mop * clobs := (o, (r, fed, st)).

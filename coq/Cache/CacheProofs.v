(** Proofs about the cache model: the timestamp discipline of C02 (per-leaf
    refinement over all histories and its single-step clauses).  The feed
    theorems of C03 are in FeedReplay.v and build on this file. *)
From Gnmi Require Import Base.Prelude CTree.CTreeModel CTree.CTreeProofs Path.PathModel Cache.CacheModel.
Local Open Scope Z_scope.

(** * Facts about the tree, at tree level *)

Section TreeFacts.
Context {V : Type}.
Notation tree := (tree V).

Lemma tree_add_spec (t t' : tree) p v :
  wf_tree t -> CTreeModel.add t p v = Some t' ->
  wf_tree t' /\ forall q, lookup t' q = if path_eqb q p then Some v else lookup t q.
Proof.
  destruct t as [n|]; cbn [CTreeModel.add wf_tree].
  - intros Hwf. destruct (add_node n p v) as [n'|] eqn:Ha; [|discriminate].
    intros E; inversion E; subst. cbn [wf_tree lookup]. eapply add_node_spec; eauto.
  - intros _ E; inversion E; subst. cbn [wf_tree lookup]. split; [apply wf_new_branch|].
    intros q. rewrite lookup_new_branch. now destruct (path_eqb q p).
Qed.

Lemma get_leaf_lookup (t : tree) p v :
  CTreeModel.get t p = Some (Leaf v) <-> lookup t p = Some v.
Proof.
  destruct t as [n|]; cbn [CTreeModel.get lookup]; [|split; discriminate].
  unfold lookup_node. destruct (get_node n p) as [[x|cs]|]; split; congruence.
Qed.

Lemma get_none_lookup (t : tree) p : CTreeModel.get t p = None -> lookup t p = None.
Proof.
  destruct t as [n|]; cbn [CTreeModel.get lookup]; [|reflexivity].
  unfold lookup_node. now intros ->.
Qed.

Lemma get_branch_lookup (t : tree) p cs : CTreeModel.get t p = Some (Branch cs) -> lookup t p = None.
Proof.
  destruct t as [n|]; cbn [CTreeModel.get lookup]; [|discriminate].
  unfold lookup_node. now intros ->.
Qed.

Lemma add_node_over_leaf (n : node V) : forall p v old,
  get_node n p = Some (Leaf old) -> add_node n p v <> None.
Proof.
  induction n as [x|cs IH] using node_ind'; intros p v old Hg.
  - destruct p as [|k r]; cbn in *; congruence.
  - destruct p as [|k r]; [cbn in Hg; congruence|].
    rewrite get_node_branch in Hg. rewrite add_node_branch.
    destruct (assoc k cs) as [c|] eqn:Hk; [|discriminate].
    rewrite Forall_forall in IH. specialize (IH _ (assoc_In _ _ _ Hk) r v old Hg). cbn [snd] in IH.
    destruct (add_node c r v); congruence.
Qed.

Lemma add_over_leaf (t : tree) p v old :
  CTreeModel.get t p = Some (Leaf old) -> CTreeModel.add t p v <> None.
Proof.
  destruct t as [n|]; cbn [CTreeModel.get CTreeModel.add]; [|discriminate].
  intros Hg. pose proof (add_node_over_leaf n p v old Hg). destruct (add_node n p v); congruence.
Qed.

Lemma tree_delete_spec (t : tree) q c :
  wf_tree t ->
  wf_tree (fst (delete_cond t q c)) /\
  (forall s, lookup (fst (delete_cond t q c)) s = sel q c (lookup t s) s) /\
  (forall s v, In (s, v) (snd (delete_cond t q c)) <->
               lookup t s = Some v /\ qmatch q s = true /\ c v = true) /\
  NoDup (map fst (snd (delete_cond t q c))).
Proof.
  destruct t as [n|]; cbn [delete_cond wf_tree]; intros Hwf.
  - destruct (del_node_spec n q c Hwf) as (Hw & Hl & Hr & Hn).
    split; [|split; [|split]]; try assumption.
    + clear -Hw. destruct (del_node n q c) as [[n'|] l]; cbn [fst wf_tree] in *; auto.
  - cbn. split; [exact I|]. split; [reflexivity|]. split; [|constructor].
    intros s v. split; [intros []|intros (H & _); discriminate].
Qed.

(** a path addressing a branch has a stored leaf strictly below it *)
Lemma get_branch_inhabited (t : tree) p cs :
  wf_tree t -> CTreeModel.get t p = Some (Branch cs) ->
  exists k s v, lookup t (p ++ k :: s) = Some v.
Proof.
  destruct t as [n|]; cbn [CTreeModel.get wf_tree lookup]; [|discriminate].
  intros Hwf Hg.
  assert (Hc : wf (Branch cs)).
  { clear -Hwf Hg. revert n Hwf Hg. induction p as [|k r IH]; intros n Hwf Hg.
    - destruct n; cbn in Hg; inversion Hg; subst; exact Hwf.
    - destruct n as [x|cs']; [cbn in Hg; discriminate|]. rewrite get_node_branch in Hg.
      destruct (assoc k cs') as [c|] eqn:Hk; [|discriminate].
      apply (IH c); [eapply wf_child; eauto|exact Hg]. }
  destruct (wf_inhabited _ Hc) as (s & v & Hs).
  destruct s as [|k s]; [rewrite lookup_branch_nil in Hs; discriminate|].
  exists k, s, v. unfold lookup_node.
  assert (Hga : forall (m : node V) a b, get_node m (a ++ b) =
            match get_node m a with Some c => get_node c b | None => None end).
  { clear. intros m a; revert m; induction a as [|x a IH]; intros m b; cbn [app].
    - destruct m; reflexivity.
    - destruct m as [y|cs0]; [reflexivity|]. rewrite !get_node_branch.
      destruct (assoc x cs0); [apply IH|reflexivity]. }
  rewrite Hga, Hg. exact Hs.
Qed.

End TreeFacts.

(** * The specification of C02: one leaf, the events that concern it *)

(** the future guard of the property statement: a threshold is configured,
    the update is further ahead of the clock than the threshold, a latest
    accepted timestamp > 0 is known and the update is further ahead of it too *)
Definition future_guard (thr now : Z) (latest : option Z) (ts : Z) : bool :=
  Z.ltb 0 thr && Z.ltb thr (ts - now) &&
  match latest with
  | Some l => Z.ltb 0 l && Z.ltb thr (ts - l)
  | None => false
  end.

Inductive lev :=
| LUpd (now : Z) (latest : option Z) (m : notif)   (* an update unit addressed to this leaf *)
| LDel (ts : Z).                                   (* a delete at time [ts] matching this leaf *)

(** the four-line recursion *)
Definition spec_leaf_step (thr : Z) (old : option notif) (e : lev) : option notif :=
  match e, old with
  | LUpd now latest m, None => Some m
  | LUpd now latest m, Some o =>
      if Z.ltb (n_ts m) (n_ts o) then Some o                               (* older: stale *)
      else if Z.eqb (n_ts m) (n_ts o) then
        if notif_eqb o m then Some o else Some m                           (* identical: stale; else replaces *)
      else if future_guard thr now latest (n_ts m) then Some o             (* too far ahead *)
      else Some m                                                          (* newer: wins *)
  | LDel ts, Some o => if Z.ltb (n_ts o) ts then None else Some o
  | LDel ts, None => None
  end.

Definition spec_leaf (thr : Z) (evs : list lev) : option notif :=
  fold_left (spec_leaf_step thr) evs None.

(** * Frame: what gnmiUpdate / gnmiRemove never touch *)

Definition frame (t t' : target) : Prop :=
  t_ts t' = t_ts t /\ t_cfg t' = t_cfg t /\ t_name t' = t_name t.

Lemma frame_refl t : frame t t.
Proof. repeat split. Qed.

Lemma frame_trans t1 t2 t3 : frame t1 t2 -> frame t2 t3 -> frame t1 t3.
Proof. unfold frame. intuition congruence. Qed.

Lemma frame_add_int t k i : frame t (add_int t k i).
Proof. repeat split. Qed.

Lemma tree_add_int t k i : t_tree (add_int t k i) = t_tree t.
Proof. reflexivity. Qed.

Lemma frame_lat_compute t r ts : frame t (lat_compute t r ts).
Proof. unfold lat_compute. destruct (t_sync t && r); repeat split. Qed.

Lemma tree_lat_compute t r ts : t_tree (lat_compute t r ts) = t_tree t.
Proof. unfold lat_compute. destruct (t_sync t && r); reflexivity. Qed.

Lemma future_rejected_guard t now ts :
  future_rejected t now ts = future_guard (cfg_future_threshold (t_cfg t)) now (t_ts t) ts.
Proof.
  unfold future_rejected, future_guard. destruct (t_ts t) as [l|]; cbn [ts_unixnano].
  - rewrite <- andb_assoc. f_equal. f_equal. f_equal.
    + destruct (Z.leb_spec l 0), (Z.ltb_spec 0 l); cbn; try reflexivity; lia.
    + destruct (Z.leb_spec (ts - l) (cfg_future_threshold (t_cfg t))),
               (Z.ltb_spec (cfg_future_threshold (t_cfg t)) (ts - l)); cbn; try reflexivity; lia.
  - unfold zero_time_unixnano. cbn. now rewrite !andb_false_r.
Qed.

Lemma leaf_verdict_frame t t1 now o n : frame t t1 -> leaf_verdict t1 now o n = leaf_verdict t now o n.
Proof.
  intros (Hts & Hc & _). unfold leaf_verdict. rewrite !future_rejected_guard, Hts, Hc. reflexivity.
Qed.

(** the model's verdict on an existing leaf is the specification's rule *)
Lemma leaf_verdict_spec t now o n :
  (match leaf_verdict t now o n with Some _ => Some o | None => Some n end) =
  spec_leaf_step (cfg_future_threshold (t_cfg t)) (Some o) (LUpd now (t_ts t) n).
Proof.
  unfold leaf_verdict, spec_leaf_step. rewrite future_rejected_guard.
  destruct (Z.ltb (n_ts n) (n_ts o)); [reflexivity|].
  destruct (Z.eqb (n_ts n) (n_ts o)); cbn [andb negb].
  - destruct (notif_eqb o n); reflexivity.
  - destruct (future_guard _ _ _ _); reflexivity.
Qed.

(** * gnmiUpdate, one unit *)

Definition meta_val_ok (k : string) (v : option tv) : bool :=
  if String.eqb k md_sync || String.eqb k md_connected
  then match v with Some (TBool _) => true | _ => false end
  else if String.eqb k md_connected_addr || String.eqb k md_connect_error
  then match v with Some (TStr _) => true | _ => false end
  else true.

(** the index path of a unit that reaches the leaf switch: the path is
    computed without panic, is not empty, not [meta] alone, and a metadata
    value has the type its name requires *)
Definition unit_ok (m : notif) : option path :=
  match n_upd m with
  | [] => None
  | u :: _ =>
      match unit_index m with
      | Ok (p0 :: prest) =>
          if negb (String.eqb p0 md_root) then Some (p0 :: prest)
          else match prest with
               | [] => None
               | k :: _ => if meta_val_ok k (u_val u) then Some (p0 :: prest) else None
               end
      | _ => None
      end
  end.

Lemma meta_side_effect_frame t k u t1 r :
  meta_side_effect t k u = (t1, r) -> t_tree t1 = t_tree t /\ frame t t1.
Proof.
  unfold meta_side_effect.
  destruct (String.eqb k md_sync); [|destruct (String.eqb k md_connected);
    [|destruct (String.eqb k md_connected_addr || String.eqb k md_connect_error)]];
  destruct (u_val u) as [[]|]; intros E; inversion E; subst; (split; [reflexivity|repeat split]).
Qed.

Lemma update_pre_frame t p u t1 r :
  update_pre t p u = (t1, r) -> t_tree t1 = t_tree t /\ frame t t1.
Proof.
  unfold update_pre. destruct p as [|p0 prest].
  - intros E; inversion E; subst. split; [reflexivity|apply frame_refl].
  - destruct (negb (String.eqb p0 md_root)).
    + intros E; inversion E; subst. split; [reflexivity|apply frame_refl].
    + destruct prest as [|k ?].
      * intros E; inversion E; subst. split; [reflexivity|apply frame_refl].
      * apply meta_side_effect_frame.
Qed.

Lemma meta_side_effect_ok t k u :
  meta_val_ok k (u_val u) = true -> exists t1, meta_side_effect t k u = (t1, Ok tt).
Proof.
  unfold meta_val_ok, meta_side_effect.
  destruct (String.eqb k md_sync); cbn [orb].
  - destruct (u_val u) as [[]|]; try discriminate. eauto.
  - destruct (String.eqb k md_connected).
    + destruct (u_val u) as [[]|]; try discriminate. eauto.
    + destruct (String.eqb k md_connected_addr || String.eqb k md_connect_error).
      * destruct (u_val u) as [[]|]; try discriminate. eauto.
      * eauto.
Qed.

Lemma meta_side_effect_bad t k u t1 r :
  meta_val_ok k (u_val u) = false -> meta_side_effect t k u = (t1, r) -> r <> Ok tt.
Proof.
  unfold meta_val_ok, meta_side_effect.
  destruct (String.eqb k md_sync); cbn [orb].
  - destruct (u_val u) as [[]|]; try discriminate; intros _ E; inversion E; discriminate.
  - destruct (String.eqb k md_connected).
    + destruct (u_val u) as [[]|]; try discriminate; intros _ E; inversion E; discriminate.
    + destruct (String.eqb k md_connected_addr || String.eqb k md_connect_error).
      * destruct (u_val u) as [[]|]; try discriminate; intros _ E; inversion E; discriminate.
      * discriminate.
Qed.

(** what a unit does to the leaf it addresses *)
Definition leaf_rule (t : target) (now : Z) (old : option notif) (n : notif) : option notif :=
  spec_leaf_step (cfg_future_threshold (t_cfg t)) old (LUpd now (t_ts t) n).

Definition collision (r : outcome (option notif)) : Prop :=
  r = Err err_collision \/ r = Err err_add.

Lemma update_leaf_spec t1 now p u n t2 r :
  wf_tree (t_tree t1) -> update_leaf t1 now p u n = (t2, r) ->
  wf_tree (t_tree t2) /\ frame t1 t2 /\
  ((collision r /\ t_tree t2 = t_tree t1) \/
   (~ collision r /\
    forall q, lookup (t_tree t2) q =
              if path_eqb q p then leaf_rule t1 now (lookup (t_tree t1) p) n
              else lookup (t_tree t1) q)).
Proof.
  intros Hwf. unfold update_leaf.
  destruct (CTreeModel.get (t_tree t1) p) as [[old|cs]|] eqn:Hg.
  - (* existing leaf *)
    pose proof (proj1 (get_leaf_lookup _ _ _) Hg) as Hl.
    assert (Hrule : forall q, (if path_eqb q p then Some old else lookup (t_tree t1) q) = lookup (t_tree t1) q).
    { intros q. destruct (path_eqb_spec q p) as [->|]; congruence. }
    unfold leaf_rule. rewrite Hl, <- leaf_verdict_spec.
    destruct (leaf_verdict t1 now old n) as [e|] eqn:Hv.
    + intros E; inversion E; subst. split; [exact Hwf|]. split; [apply frame_add_int|].
      right. split; [intros [H|H]; inversion H; subst;
                     unfold leaf_verdict in Hv;
                     repeat match type of Hv with (if ?b then _ else _) = _ => destruct b end; discriminate|].
      intros q. rewrite tree_add_int. now rewrite Hrule.
    + pose proof (add_over_leaf (t_tree t1) p n old Hg) as Hne.
      unfold tree_set. destruct (CTreeModel.add (t_tree t1) p n) as [tr'|] eqn:Ha; [|congruence].
      destruct (tree_add_spec _ _ _ _ Hwf Ha) as (Hwf' & Hlk).
      assert (Hall : forall t2 r, t_tree t2 = tr' -> frame t1 t2 -> ~ collision r ->
                wf_tree (t_tree t2) /\ frame t1 t2 /\
                ((collision r /\ t_tree t2 = t_tree t1) \/
                 (~ collision r /\ forall q, lookup (t_tree t2) q =
                    if path_eqb q p then Some n else lookup (t_tree t1) q))).
      { intros t2' r' Ht Hf Hc. rewrite Ht. split; [exact Hwf'|]. split; [exact Hf|]. right. split; [exact Hc|]. exact Hlk. }
      destruct (n_atomic n).
      * intros E; inversion E; subst. apply Hall.
        -- now rewrite tree_lat_compute.
        -- eapply frame_trans; [|apply frame_lat_compute]. repeat split.
        -- intros [H|H]; discriminate.
      * destruct (n_upd old) as [|uo ?].
        -- intros E; inversion E; subst. apply Hall; [reflexivity|repeat split|intros [H|H]; discriminate].
        -- match goal with |- (if ?b then _ else _) = _ -> _ => destruct b end;
           intros E; inversion E; subst; apply Hall.
           ++ reflexivity.
           ++ repeat split.
           ++ intros [H|H]; discriminate.
           ++ now rewrite tree_lat_compute.
           ++ eapply frame_trans; [|apply frame_lat_compute]. repeat split.
           ++ intros [H|H]; discriminate.
  - (* a branch is in the way *)
    intros E; inversion E; subst. split; [exact Hwf|]. split; [apply frame_refl|].
    left. split; [left; reflexivity|reflexivity].
  - (* new leaf *)
    pose proof (get_none_lookup _ _ Hg) as Hl.
    destruct (CTreeModel.add (t_tree t1) p n) as [tr'|] eqn:Ha.
    + destruct (tree_add_spec _ _ _ _ Hwf Ha) as (Hwf' & Hlk).
      intros E; inversion E; subst; clear E.
      assert (Ht : t_tree (if is_real p
                   then lat_compute (add_int (add_int (set_tree t1 tr') md_leaf_count 1) md_add_count 1) true (n_ts n)
                   else set_tree t1 tr') = tr').
      { destruct (is_real p); [now rewrite tree_lat_compute|reflexivity]. }
      rewrite Ht. split; [exact Hwf'|]. split.
      * destruct (is_real p); [|repeat split].
        eapply frame_trans; [|apply frame_lat_compute]. repeat split.
      * right. split; [intros [H|H]; discriminate|].
        intros q. rewrite Hlk. unfold leaf_rule. now rewrite Hl.
    + intros E; inversion E; subst. split; [exact Hwf|]. split; [apply frame_refl|].
      left. split; [right; reflexivity|reflexivity].
Qed.

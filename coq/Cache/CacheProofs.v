(** Proofs about the cache model: the timestamp discipline of C02 (per-leaf
    refinement over all histories and its single-step clauses).  The feed
    theorems of C03 are in FeedReplay.v and build on this file. *)
From Gnmi Require Import Base.Prelude CTree.CTreeModel CTree.CTreeProofs Path.PathModel Cache.CacheModel.
Local Open Scope Z_scope.

(** * Facts about the tree, at tree level *)

Section TreeFacts.
Context {V : Type}.
Notation tree := (tree V).

Lemma tree_add_spec (t t' : tree) p v :
  wf_tree t -> CTreeModel.add t p v = Some t' ->
  wf_tree t' /\ forall q, lookup t' q = if path_eqb q p then Some v else lookup t q.
Proof.
  destruct t as [n|]; cbn [CTreeModel.add wf_tree].
  - intros Hwf. destruct (add_node n p v) as [n'|] eqn:Ha; [|discriminate].
    intros E; inversion E; subst. cbn [wf_tree lookup]. eapply add_node_spec; eauto.
  - intros _ E; inversion E; subst. cbn [wf_tree lookup]. split; [apply wf_new_branch|].
    intros q. rewrite lookup_new_branch. now destruct (path_eqb q p).
Qed.

Lemma get_leaf_lookup (t : tree) p v :
  CTreeModel.get t p = Some (Leaf v) <-> lookup t p = Some v.
Proof.
  destruct t as [n|]; cbn [CTreeModel.get lookup]; [|split; discriminate].
  unfold lookup_node. destruct (get_node n p) as [[x|cs]|]; split; congruence.
Qed.

Lemma get_none_lookup (t : tree) p : CTreeModel.get t p = None -> lookup t p = None.
Proof.
  destruct t as [n|]; cbn [CTreeModel.get lookup]; [|reflexivity].
  unfold lookup_node. now intros ->.
Qed.

Lemma get_branch_lookup (t : tree) p cs : CTreeModel.get t p = Some (Branch cs) -> lookup t p = None.
Proof.
  destruct t as [n|]; cbn [CTreeModel.get lookup]; [|discriminate].
  unfold lookup_node. now intros ->.
Qed.

Lemma add_node_over_leaf (n : node V) : forall p v old,
  get_node n p = Some (Leaf old) -> add_node n p v <> None.
Proof.
  induction n as [x|cs IH] using node_ind'; intros p v old Hg.
  - destruct p as [|k r]; cbn in *; congruence.
  - destruct p as [|k r]; [cbn in Hg; congruence|].
    rewrite get_node_branch in Hg. rewrite add_node_branch.
    destruct (assoc k cs) as [c|] eqn:Hk; [|discriminate].
    rewrite Forall_forall in IH. specialize (IH _ (assoc_In _ _ _ Hk) r v old Hg). cbn [snd] in IH.
    destruct (add_node c r v); congruence.
Qed.

Lemma add_over_leaf (t : tree) p v old :
  CTreeModel.get t p = Some (Leaf old) -> CTreeModel.add t p v <> None.
Proof.
  destruct t as [n|]; cbn [CTreeModel.get CTreeModel.add]; [|discriminate].
  intros Hg. pose proof (add_node_over_leaf n p v old Hg). destruct (add_node n p v); congruence.
Qed.

Lemma tree_delete_spec (t : tree) q c :
  wf_tree t ->
  wf_tree (fst (delete_cond t q c)) /\
  (forall s, lookup (fst (delete_cond t q c)) s = sel q c (lookup t s) s) /\
  (forall s v, In (s, v) (snd (delete_cond t q c)) <->
               lookup t s = Some v /\ qmatch q s = true /\ c v = true) /\
  NoDup (map fst (snd (delete_cond t q c))).
Proof.
  destruct t as [n|]; cbn [delete_cond wf_tree]; intros Hwf.
  - destruct (del_node_spec n q c Hwf) as (Hw & Hl & Hr & Hn).
    split; [|split; [|split]]; try assumption.
    + clear -Hw. destruct (del_node n q c) as [[n'|] l]; cbn [fst wf_tree] in *; auto.
  - cbn. split; [exact I|]. split; [reflexivity|]. split; [|constructor].
    intros s v. split; [intros []|intros (H & _); discriminate].
Qed.

(** a path addressing a branch has a stored leaf strictly below it *)
Lemma get_branch_inhabited (t : tree) p cs :
  wf_tree t -> CTreeModel.get t p = Some (Branch cs) ->
  exists k s v, lookup t (p ++ k :: s) = Some v.
Proof.
  destruct t as [n|]; cbn [CTreeModel.get wf_tree lookup]; [|discriminate].
  intros Hwf Hg.
  assert (Hc : wf (Branch cs)).
  { clear -Hwf Hg. revert n Hwf Hg. induction p as [|k r IH]; intros n Hwf Hg.
    - destruct n; cbn in Hg; inversion Hg; subst; exact Hwf.
    - destruct n as [x|cs']; [cbn in Hg; discriminate|]. rewrite get_node_branch in Hg.
      destruct (assoc k cs') as [c|] eqn:Hk; [|discriminate].
      apply (IH c); [eapply wf_child; eauto|exact Hg]. }
  destruct (wf_inhabited _ Hc) as (s & v & Hs).
  destruct s as [|k s]; [rewrite lookup_branch_nil in Hs; discriminate|].
  exists k, s, v. unfold lookup_node.
  assert (Hga : forall (m : node V) a b, get_node m (a ++ b) =
            match get_node m a with Some c => get_node c b | None => None end).
  { clear. intros m a; revert m; induction a as [|x a IH]; intros m b; cbn [app].
    - destruct m; reflexivity.
    - destruct m as [y|cs0]; [reflexivity|]. rewrite !get_node_branch.
      destruct (assoc x cs0); [apply IH|reflexivity]. }
  rewrite Hga, Hg. exact Hs.
Qed.

End TreeFacts.

(** Proofs about the cache model: the timestamp discipline of C02 (per-leaf
    refinement over all histories and its single-step clauses).  The feed
    theorems of C03 are in FeedReplay.v and build on this file. *)
From Gnmi Require Import Base.Prelude CTree.CTreeModel CTree.CTreeProofs Path.PathModel Cache.CacheModel.
Local Open Scope Z_scope.

(** * Facts about the tree, at tree level *)

Section TreeFacts.
Context {V : Type}.
Notation tree := (tree V).

Lemma tree_add_spec (t t' : tree) p v :
  wf_tree t -> CTreeModel.add t p v = Some t' ->
  wf_tree t' /\ forall q, lookup t' q = if path_eqb q p then Some v else lookup t q.
Proof.
  destruct t as [n|]; cbn [CTreeModel.add wf_tree].
  - intros Hwf. destruct (add_node n p v) as [n'|] eqn:Ha; [|discriminate].
    intros E; inversion E; subst. cbn [wf_tree lookup]. eapply add_node_spec; eauto.
  - intros _ E; inversion E; subst. cbn [wf_tree lookup]. split; [apply wf_new_branch|].
    intros q. rewrite lookup_new_branch. now destruct (path_eqb q p).
Qed.

Lemma get_leaf_lookup (t : tree) p v :
  CTreeModel.get t p = Some (Leaf v) <-> lookup t p = Some v.
Proof.
  destruct t as [n|]; cbn [CTreeModel.get lookup]; [|split; discriminate].
  unfold lookup_node. destruct (get_node n p) as [[x|cs]|]; split; congruence.
Qed.

Lemma get_none_lookup (t : tree) p : CTreeModel.get t p = None -> lookup t p = None.
Proof.
  destruct t as [n|]; cbn [CTreeModel.get lookup]; [|reflexivity].
  unfold lookup_node. now intros ->.
Qed.

Lemma get_branch_lookup (t : tree) p cs : CTreeModel.get t p = Some (Branch cs) -> lookup t p = None.
Proof.
  destruct t as [n|]; cbn [CTreeModel.get lookup]; [|discriminate].
  unfold lookup_node. now intros ->.
Qed.

Lemma add_node_over_leaf (n : node V) : forall p v old,
  get_node n p = Some (Leaf old) -> add_node n p v <> None.
Proof.
  induction n as [x|cs IH] using node_ind'; intros p v old Hg.
  - destruct p as [|k r]; cbn in *; congruence.
  - destruct p as [|k r]; [cbn in Hg; congruence|].
    rewrite get_node_branch in Hg. rewrite add_node_branch.
    destruct (assoc k cs) as [c|] eqn:Hk; [|discriminate].
    rewrite Forall_forall in IH. specialize (IH _ (assoc_In _ _ _ Hk) r v old Hg). cbn [snd] in IH.
    destruct (add_node c r v); congruence.
Qed.

Lemma add_over_leaf (t : tree) p v old :
  CTreeModel.get t p = Some (Leaf old) -> CTreeModel.add t p v <> None.
Proof.
  destruct t as [n|]; cbn [CTreeModel.get CTreeModel.add]; [|discriminate].
  intros Hg. pose proof (add_node_over_leaf n p v old Hg). destruct (add_node n p v); congruence.
Qed.

Lemma tree_delete_spec (t : tree) q c :
  wf_tree t ->
  wf_tree (fst (delete_cond t q c)) /\
  (forall s, lookup (fst (delete_cond t q c)) s = sel q c (lookup t s) s) /\
  (forall s v, In (s, v) (snd (delete_cond t q c)) <->
               lookup t s = Some v /\ qmatch q s = true /\ c v = true) /\
  NoDup (map fst (snd (delete_cond t q c))).
Proof.
  destruct t as [n|]; cbn [delete_cond wf_tree]; intros Hwf.
  - destruct (del_node_spec n q c Hwf) as (Hw & Hl & Hr & Hn).
    split; [|split; [|split]]; try assumption.
    + clear -Hw. destruct (del_node n q c) as [[n'|] l]; cbn [fst wf_tree] in *; auto.
  - cbn. split; [exact I|]. split; [reflexivity|]. split; [|constructor].
    intros s v. split; [intros []|intros (H & _); discriminate].
Qed.

(** a path addressing a branch has a stored leaf strictly below it *)
Lemma get_branch_inhabited (t : tree) p cs :
  wf_tree t -> CTreeModel.get t p = Some (Branch cs) ->
  exists k s v, lookup t (p ++ k :: s) = Some v.
Proof.
  destruct t as [n|]; cbn [CTreeModel.get wf_tree lookup]; [|discriminate].
  intros Hwf Hg.
  assert (Hc : wf (Branch cs)).
  { clear -Hwf Hg. revert n Hwf Hg. induction p as [|k r IH]; intros n Hwf Hg.
    - destruct n; cbn in Hg; inversion Hg; subst; exact Hwf.
    - destruct n as [x|cs']; [cbn in Hg; discriminate|]. rewrite get_node_branch in Hg.
      destruct (assoc k cs') as [c|] eqn:Hk; [|discriminate].
      apply (IH c); [eapply wf_child; eauto|exact Hg]. }
  destruct (wf_inhabited _ Hc) as (s & v & Hs).
  destruct s as [|k s]; [rewrite lookup_branch_nil in Hs; discriminate|].
  exists k, s, v. unfold lookup_node.
  assert (Hga : forall (m : node V) a b, get_node m (a ++ b) =
            match get_node m a with Some c => get_node c b | None => None end).
  { clear. intros m a; revert m; induction a as [|x a IH]; intros m b; cbn [app].
    - destruct m; reflexivity.
    - destruct m as [y|cs0]; [reflexivity|]. rewrite !get_node_branch.
      destruct (assoc x cs0); [apply IH|reflexivity]. }
  rewrite Hga, Hg. exact Hs.
Qed.

End TreeFacts.

(** * The specification of C02: one leaf, the events that concern it *)

(** the future guard of the property statement: a threshold is configured,
    the update is further ahead of the clock than the threshold, a latest
    accepted timestamp > 0 is known and the update is further ahead of it too *)
Definition future_guard (thr now : Z) (latest : option Z) (ts : Z) : bool :=
  Z.ltb 0 thr && Z.ltb thr (ts - now) &&
  match latest with
  | Some l => Z.ltb 0 l && Z.ltb thr (ts - l)
  | None => false
  end.

Inductive lev :=
| LUpd (now : Z) (latest : option Z) (m : notif)   (* an update unit addressed to this leaf *)
| LDel (ts : Z).                                   (* a delete at time [ts] matching this leaf *)

(** the four-line recursion *)
Definition spec_leaf_step (thr : Z) (old : option notif) (e : lev) : option notif :=
  match e, old with
  | LUpd now latest m, None => Some m
  | LUpd now latest m, Some o =>
      if Z.ltb (n_ts m) (n_ts o) then Some o                               (* older: stale *)
      else if Z.eqb (n_ts m) (n_ts o) then
        if notif_eqb o m then Some o else Some m                           (* identical: stale; else replaces *)
      else if future_guard thr now latest (n_ts m) then Some o             (* too far ahead *)
      else Some m                                                          (* newer: wins *)
  | LDel ts, Some o => if Z.ltb (n_ts o) ts then None else Some o
  | LDel ts, None => None
  end.

Definition spec_leaf (thr : Z) (evs : list lev) : option notif :=
  fold_left (spec_leaf_step thr) evs None.

(** * Frame: what gnmiUpdate / gnmiRemove never touch *)

Definition frame (t t' : target) : Prop :=
  t_ts t' = t_ts t /\ t_cfg t' = t_cfg t /\ t_name t' = t_name t.

Lemma frame_refl t : frame t t.
Proof. repeat split. Qed.

Lemma frame_trans t1 t2 t3 : frame t1 t2 -> frame t2 t3 -> frame t1 t3.
Proof. unfold frame. intuition congruence. Qed.

Lemma frame_add_int t k i : frame t (add_int t k i).
Proof. repeat split. Qed.

Lemma tree_add_int t k i : t_tree (add_int t k i) = t_tree t.
Proof. reflexivity. Qed.

Lemma frame_lat_compute t r ts : frame t (lat_compute t r ts).
Proof. unfold lat_compute. destruct (t_sync t && r); repeat split. Qed.

Lemma tree_lat_compute t r ts : t_tree (lat_compute t r ts) = t_tree t.
Proof. unfold lat_compute. destruct (t_sync t && r); reflexivity. Qed.

Lemma future_rejected_guard t now ts :
  future_rejected t now ts = future_guard (cfg_future_threshold (t_cfg t)) now (t_ts t) ts.
Proof.
  unfold future_rejected, future_guard. destruct (t_ts t) as [l|]; cbn [ts_unixnano].
  - rewrite <- andb_assoc. f_equal. f_equal. f_equal.
    + destruct (Z.leb_spec l 0), (Z.ltb_spec 0 l); cbn; try reflexivity; lia.
    + destruct (Z.leb_spec (ts - l) (cfg_future_threshold (t_cfg t))),
               (Z.ltb_spec (cfg_future_threshold (t_cfg t)) (ts - l)); cbn; try reflexivity; lia.
  - unfold zero_time_unixnano. cbn. now rewrite !andb_false_r.
Qed.

Lemma leaf_verdict_frame t t1 now o n : frame t t1 -> leaf_verdict t1 now o n = leaf_verdict t now o n.
Proof.
  intros (Hts & Hc & _). unfold leaf_verdict. rewrite !future_rejected_guard, Hts, Hc. reflexivity.
Qed.

(** the model's verdict on an existing leaf is the specification's rule *)
Lemma leaf_verdict_spec t now o n :
  (match leaf_verdict t now o n with Some _ => Some o | None => Some n end) =
  spec_leaf_step (cfg_future_threshold (t_cfg t)) (Some o) (LUpd now (t_ts t) n).
Proof.
  unfold leaf_verdict, spec_leaf_step. rewrite future_rejected_guard.
  destruct (Z.ltb (n_ts n) (n_ts o)); [reflexivity|].
  destruct (Z.eqb (n_ts n) (n_ts o)); cbn [andb negb].
  - destruct (notif_eqb o n); reflexivity.
  - destruct (future_guard _ _ _ _); reflexivity.
Qed.

(** * gnmiUpdate, one unit *)

Definition meta_val_ok (k : string) (two : bool) (v : option tv) : bool :=
  if String.eqb k md_sync || String.eqb k md_connected
  then match v with Some (TBool _) => true | _ => false end
  else if String.eqb k md_connected_addr || String.eqb k md_connect_error
  then match v with Some (TStr _) => true | _ => false end
  else if two && name_in k md_int_names
  then match v with Some (TInt _) => true | _ => false end
  else true.

(** the index path of a unit that reaches the leaf switch: the path is
    computed without panic, is not empty, not [meta] alone, and a metadata
    value has the type its name requires *)
Definition unit_ok (m : notif) : option path :=
  match n_upd m with
  | [] => None
  | u :: _ =>
      match unit_index m with
      | Ok (p0 :: prest) =>
          if negb (String.eqb p0 md_root) then Some (p0 :: prest)
          else match prest with
               | [] => None
               | k :: rest =>
                   if meta_val_ok k (match rest with [] => true | _ :: _ => false end) (u_val u)
                   then Some (p0 :: prest) else None
               end
      | _ => None
      end
  end.

Lemma meta_side_effect_frame t k two u t1 r :
  meta_side_effect t k two u = (t1, r) -> t_tree t1 = t_tree t /\ frame t t1.
Proof.
  unfold meta_side_effect.
  destruct (String.eqb k md_sync); [|destruct (String.eqb k md_connected);
    [|destruct (String.eqb k md_connected_addr || String.eqb k md_connect_error);
      [|destruct (two && name_in k md_int_names)]]];
  destruct (u_val u) as [[]|]; intros E; inversion E; subst; (split; [reflexivity|repeat split]).
Qed.

Lemma update_pre_frame t p u t1 r :
  update_pre t p u = (t1, r) -> t_tree t1 = t_tree t /\ frame t t1.
Proof.
  unfold update_pre. destruct p as [|p0 prest].
  - intros E; inversion E; subst. split; [reflexivity|apply frame_refl].
  - destruct (negb (String.eqb p0 md_root)).
    + intros E; inversion E; subst. split; [reflexivity|apply frame_refl].
    + destruct prest as [|k ?].
      * intros E; inversion E; subst. split; [reflexivity|apply frame_refl].
      * apply meta_side_effect_frame.
Qed.

Lemma meta_side_effect_ok t k two u :
  meta_val_ok k two (u_val u) = true -> exists t1, meta_side_effect t k two u = (t1, Ok tt).
Proof.
  unfold meta_val_ok, meta_side_effect.
  destruct (String.eqb k md_sync); cbn [orb].
  - destruct (u_val u) as [[]|]; try discriminate. eauto.
  - destruct (String.eqb k md_connected).
    + destruct (u_val u) as [[]|]; try discriminate. eauto.
    + destruct (String.eqb k md_connected_addr || String.eqb k md_connect_error).
      * destruct (u_val u) as [[]|]; try discriminate. eauto.
      * destruct (two && name_in k md_int_names); [|eauto].
        destruct (u_val u) as [[]|]; try discriminate. eauto.
Qed.

Lemma meta_side_effect_bad t k two u t1 r :
  meta_val_ok k two (u_val u) = false -> meta_side_effect t k two u = (t1, r) ->
  t1 = t /\ r = Err err_meta_type.
Proof.
  unfold meta_val_ok, meta_side_effect.
  destruct (String.eqb k md_sync); cbn [orb].
  - destruct (u_val u) as [[]|]; try discriminate; intros _ E; inversion E; auto.
  - destruct (String.eqb k md_connected).
    + destruct (u_val u) as [[]|]; try discriminate; intros _ E; inversion E; auto.
    + destruct (String.eqb k md_connected_addr || String.eqb k md_connect_error).
      * destruct (u_val u) as [[]|]; try discriminate; intros _ E; inversion E; auto.
      * destruct (two && name_in k md_int_names); [|discriminate].
        destruct (u_val u) as [[]|]; try discriminate; intros _ E; inversion E; auto.
Qed.

(** what a unit does to the leaf it addresses *)
Definition leaf_rule (t : target) (now : Z) (old : option notif) (n : notif) : option notif :=
  spec_leaf_step (cfg_future_threshold (t_cfg t)) old (LUpd now (t_ts t) n).

Definition collision (r : outcome (option notif)) : Prop :=
  r = Err err_collision \/ r = Err err_add.

Lemma update_leaf_spec t1 now p u n t2 r :
  wf_tree (t_tree t1) -> update_leaf t1 now p u n = (t2, r) ->
  wf_tree (t_tree t2) /\ frame t1 t2 /\
  ((collision r /\ t_tree t2 = t_tree t1) \/
   (~ collision r /\
    forall q, lookup (t_tree t2) q =
              if path_eqb q p then leaf_rule t1 now (lookup (t_tree t1) p) n
              else lookup (t_tree t1) q)).
Proof.
  intros Hwf. unfold update_leaf.
  destruct (CTreeModel.get (t_tree t1) p) as [[old|cs]|] eqn:Hg.
  - (* existing leaf *)
    pose proof (proj1 (get_leaf_lookup _ _ _) Hg) as Hl.
    assert (Hrule : forall q, (if path_eqb q p then Some old else lookup (t_tree t1) q) = lookup (t_tree t1) q).
    { intros q. destruct (path_eqb_spec q p) as [->|]; congruence. }
    unfold leaf_rule. rewrite Hl, <- leaf_verdict_spec.
    destruct (leaf_verdict t1 now old n) as [e|] eqn:Hv.
    + intros E; inversion E; subst. split; [exact Hwf|]. split; [apply frame_add_int|].
      right. split; [intros [H|H]; inversion H; subst;
                     unfold leaf_verdict in Hv;
                     repeat match type of Hv with (if ?b then _ else _) = _ => destruct b end; discriminate|].
      intros q. rewrite tree_add_int. now rewrite Hrule.
    + pose proof (add_over_leaf (t_tree t1) p n old Hg) as Hne.
      unfold tree_set. destruct (CTreeModel.add (t_tree t1) p n) as [tr'|] eqn:Ha; [|congruence].
      destruct (tree_add_spec _ _ _ _ Hwf Ha) as (Hwf' & Hlk).
      assert (Hall : forall t2 r, t_tree t2 = tr' -> frame t1 t2 -> ~ collision r ->
                wf_tree (t_tree t2) /\ frame t1 t2 /\
                ((collision r /\ t_tree t2 = t_tree t1) \/
                 (~ collision r /\ forall q, lookup (t_tree t2) q =
                    if path_eqb q p then Some n else lookup (t_tree t1) q))).
      { intros t2' r' Ht Hf Hc. rewrite Ht. split; [exact Hwf'|]. split; [exact Hf|]. right. split; [exact Hc|]. exact Hlk. }
      destruct (n_atomic n).
      * intros E; inversion E; subst. apply Hall.
        -- now rewrite tree_lat_compute.
        -- eapply frame_trans; [|apply frame_lat_compute]. repeat split.
        -- intros [H|H]; discriminate.
      * destruct (n_upd old) as [|uo ?].
        -- intros E; inversion E; subst. apply Hall; [reflexivity|repeat split|intros [H|H]; discriminate].
        -- match goal with |- (if ?b then _ else _) = _ -> _ => destruct b end;
           intros E; inversion E; subst; apply Hall.
           ++ reflexivity.
           ++ repeat split.
           ++ intros [H|H]; discriminate.
           ++ now rewrite tree_lat_compute.
           ++ eapply frame_trans; [|apply frame_lat_compute]. repeat split.
           ++ intros [H|H]; discriminate.
  - (* a branch is in the way *)
    intros E; inversion E; subst. split; [exact Hwf|]. split; [apply frame_refl|].
    left. split; [left; reflexivity|reflexivity].
  - (* new leaf *)
    pose proof (get_none_lookup _ _ Hg) as Hl.
    destruct (CTreeModel.add (t_tree t1) p n) as [tr'|] eqn:Ha.
    + destruct (tree_add_spec _ _ _ _ Hwf Ha) as (Hwf' & Hlk).
      intros E; inversion E; subst; clear E.
      assert (Ht : t_tree (if is_real p
                   then lat_compute (add_int (add_int (set_tree t1 tr') md_leaf_count 1) md_add_count 1) true (n_ts n)
                   else set_tree t1 tr') = tr').
      { destruct (is_real p); [now rewrite tree_lat_compute|reflexivity]. }
      rewrite Ht. split; [exact Hwf'|]. split.
      * destruct (is_real p); [|repeat split].
        eapply frame_trans; [|apply frame_lat_compute]. repeat split.
      * right. split; [intros [H|H]; discriminate|].
        intros q. rewrite Hlk. unfold leaf_rule. now rewrite Hl.
    + intros E; inversion E; subst. split; [exact Hwf|]. split; [apply frame_refl|].
      left. split; [right; reflexivity|reflexivity].
Qed.

Lemma leaf_rule_frame t t1 now o n : frame t t1 -> leaf_rule t1 now o n = leaf_rule t now o n.
Proof. intros (Hts & Hc & _). unfold leaf_rule. now rewrite Hts, Hc. Qed.

Definition tree_rejected (r : outcome (option notif)) : Prop :=
  (forall o, r <> Ok o) /\ r <> Err err_stale /\ r <> Err err_future.

Lemma gnmi_update1_spec t now n t' r :
  wf_tree (t_tree t) -> gnmi_update1 t now n = (t', r) ->
  wf_tree (t_tree t') /\ frame t t' /\
  match unit_ok n with
  | None => t_tree t' = t_tree t /\ tree_rejected r
  | Some p =>
      (collision r /\ t_tree t' = t_tree t) \/
      (~ collision r /\
       forall q, lookup (t_tree t') q =
                 if path_eqb q p then leaf_rule t now (lookup (t_tree t) p) n
                 else lookup (t_tree t) q)
  end.
Proof.
  intros Hwf. unfold gnmi_update1, unit_ok, tree_rejected.
  destruct (n_upd n) as [|u us] eqn:Hu.
  { intros E; inversion E; subst. split; [exact Hwf|]. split; [apply frame_refl|].
    split; [reflexivity|]. repeat split; intros; discriminate. }
  destruct (unit_index n) as [p|e|w] eqn:Hi.
  2:{ intros E; inversion E; subst. split; [exact Hwf|]. split; [apply frame_refl|].
      split; [reflexivity|].
      (* join_path never returns Err *)
      exfalso. unfold unit_index in Hi. rewrite Hu in Hi. unfold join_path in Hi.
      destruct (join_prefix_and_path _ _) eqn:Hj; try discriminate.
      unfold join_prefix_and_path in Hj. destruct (_ ++ _); discriminate. }
  2:{ intros E; inversion E; subst. split; [exact Hwf|]. split; [apply frame_refl|].
      split; [reflexivity|]. repeat split; intros; discriminate. }
  destruct (update_pre t p u) as [t1 r1] eqn:Hp.
  destruct (update_pre_frame _ _ _ _ _ Hp) as (Htr & Hf).
  assert (Hbad : forall w' : outcome (option notif), (forall o, w' <> Ok o) -> w' <> Err err_stale -> w' <> Err err_future ->
            (t1, w') = (t', r) ->
            wf_tree (t_tree t') /\ frame t t' /\ t_tree t' = t_tree t /\ tree_rejected r).
  { intros w' H1 H2 H3 E; inversion E; subst. rewrite Htr. repeat split; auto; apply Hf. }
  unfold update_pre in Hp. destruct p as [|p0 prest].
  { inversion Hp; subst. intros E. destruct (Hbad (Err err_invalid_path)) as (A & B & C & D); auto; try discriminate. }
  destruct (negb (String.eqb p0 md_root)) eqn:Hreal.
  - inversion Hp; subst. intros E.
    destruct (update_leaf_spec _ _ _ _ _ _ _ Hwf E) as (A & B & C). split; [exact A|]. split; [exact B|exact C].
  - destruct prest as [|k prest'].
    { inversion Hp; subst. intros E. destruct (Hbad (Err err_invalid_path)) as (A & B & C & D); auto; discriminate. }
    destruct (meta_val_ok k (match prest' with [] => true | _ :: _ => false end) (u_val u)) eqn:Hok.
    + destruct (meta_side_effect_ok t k _ u Hok) as (t1' & Hm). rewrite Hm in Hp. inversion Hp; subst.
      intros E. assert (Hwf1 : wf_tree (t_tree t1)) by (rewrite Htr; exact Hwf).
      destruct (update_leaf_spec _ _ _ _ _ _ _ Hwf1 E) as (A & B & C).
      split; [exact A|]. split; [eapply frame_trans; eauto|].
      rewrite Htr in C. destruct C as [C|[C1 C2]]; [left; exact C|right]. split; [exact C1|].
      intros q. rewrite C2. now rewrite (leaf_rule_frame t t1).
    + destruct (meta_side_effect_bad t k _ u t1 r1 Hok Hp) as [-> ->]. intros E.
      destruct (Hbad (Err err_meta_type)) as (A & B & C & D); auto; discriminate.
Qed.

(** * gnmiRemove, one unit *)

Definition del_ok (m : notif) : option path :=
  match n_del m with
  | [] => None
  | d :: _ => match join_path (n_prefix m) (Some d) with Ok p => Some p | _ => None end
  end.

Definition older_than (ts : Z) (v : notif) : bool := Z.ltb (n_ts v) ts.

Lemma gnmi_remove_spec t n t' r :
  wf_tree (t_tree t) -> gnmi_remove t n = (t', r) ->
  wf_tree (t_tree t') /\ frame t t' /\
  match del_ok n with
  | None => t_tree t' = t_tree t /\ (forall l, r <> Ok l)
  | Some p =>
      (forall s, lookup (t_tree t') s = sel p (older_than (n_ts n)) (lookup (t_tree t) s) s) /\
      exists removed, r = Ok removed /\
        forall v, In v removed <->
                  exists s, lookup (t_tree t) s = Some v /\ qmatch p s = true /\ older_than (n_ts n) v = true
  end.
Proof.
  intros Hwf. unfold gnmi_remove, del_ok.
  destruct (n_del n) as [|d ds].
  { intros E; inversion E; subst. split; [exact Hwf|]. split; [apply frame_refl|].
    split; [reflexivity|intros; discriminate]. }
  destruct (join_path (n_prefix n) (Some d)) as [p|e|w] eqn:Hj.
  2:{ intros E; inversion E; subst. split; [exact Hwf|]. split; [apply frame_refl|]. split; [reflexivity|intros; discriminate]. }
  2:{ intros E; inversion E; subst. split; [exact Hwf|]. split; [apply frame_refl|]. split; [reflexivity|intros; discriminate]. }
  cbv zeta.
  set (t1 := match p with
             | p0 :: k :: _ => if String.eqb p0 md_root then set_meta t (md_reset_entry (t_meta t) k) else t
             | _ => t
             end).
  assert (Htr : t_tree t1 = t_tree t /\ frame t t1).
  { subst t1. destruct p as [|p0 [|k ?]]; try (split; [reflexivity|apply frame_refl]).
    destruct (String.eqb p0 md_root); split; try reflexivity; try apply frame_refl. repeat split. }
  destruct Htr as (Htr & Hf). rewrite Htr.
  destruct (tree_delete_spec (t_tree t) p (fun v => Z.ltb (n_ts v) (n_ts n)) Hwf)
    as (Hw & Hl & Hin & _).
  assert (Hrem : forall v, In v (map snd (snd (delete_cond (t_tree t) p (fun v => Z.ltb (n_ts v) (n_ts n))))) <->
             exists s, lookup (t_tree t) s = Some v /\ qmatch p s = true /\ older_than (n_ts n) v = true).
  { intros v. rewrite in_map_iff. split.
    - intros ([s v'] & <- & Hi). exists s. now apply Hin.
    - intros (s & Hs). exists (s, v). split; [reflexivity|]. now apply Hin. }
  destruct (map snd (snd (delete_cond (t_tree t) p (fun v => Z.ltb (n_ts v) (n_ts n))))) as [|x l] eqn:Hm;
    intros E; inversion E; subst t' r; clear E.
  - split; [exact Hw|]. split; [destruct Hf as (A & B & C); repeat split; assumption|].
    split; [exact Hl|]. exists []. split; [reflexivity|exact Hrem].
  - split; [exact Hw|]. split; [destruct Hf as (A & B & C); repeat split; assumption|].
    split; [exact Hl|]. exists (x :: l). split; [reflexivity|exact Hrem].
Qed.

(** * Units and events of a notification *)

Inductive unit_ev := UUpd (m : notif) | UDel (m : notif).

(** the units Target.GnmiUpdate processes, in order (its dispatch) *)
Definition units (n : notif) : list unit_ev :=
  if n_atomic n then
    match n_del n, n_upd n with
    | [], _ :: _ => [UUpd n]
    | _, _ => []
    end
  else
    match n_upd n, n_del n with
    | [], [] => []
    | [_], [] => [UUpd n]
    | [], [_] => [UDel n]
    | us, ds => map (fun u => UUpd (clone_with_update n u)) us ++
                map (fun d => UDel (clone_with_delete n d)) ds
    end.

(** the events of one unit that concern the index path [q] *)
Definition unit_events (latest : option Z) (now : Z) (q : path) (e : unit_ev) : list lev :=
  match e with
  | UUpd m => match unit_ok m with
              | Some p => if path_eqb q p then [LUpd now latest m] else []
              | None => []
              end
  | UDel m => match del_ok m with
              | Some p => if qmatch p q then [LDel (n_ts m)] else []
              | None => []
              end
  end.

Definition notif_events (latest : option Z) (now : Z) (q : path) (n : notif) : list lev :=
  flat_map (unit_events latest now q) (units n).

Definition thr_of (t : target) : Z := cfg_future_threshold (t_cfg t).

Lemma unit_upd_events t now m t' r :
  wf_tree (t_tree t) -> gnmi_update1 t now m = (t', r) -> ~ collision r ->
  forall q, lookup (t_tree t') q =
            fold_left (spec_leaf_step (thr_of t)) (unit_events (t_ts t) now q (UUpd m)) (lookup (t_tree t) q).
Proof.
  intros Hwf E Hnc q. destruct (gnmi_update1_spec _ _ _ _ _ Hwf E) as (_ & _ & H).
  cbn [unit_events]. destruct (unit_ok m) as [p|].
  - destruct H as [[Hc _]|[_ H]]; [contradiction|]. rewrite H.
    destruct (path_eqb_spec q p) as [->|]; reflexivity.
  - destruct H as [-> _]. reflexivity.
Qed.

Lemma unit_del_events t m t' r :
  wf_tree (t_tree t) -> gnmi_remove t m = (t', r) ->
  forall q latest now, lookup (t_tree t') q =
            fold_left (spec_leaf_step (thr_of t)) (unit_events latest now q (UDel m)) (lookup (t_tree t) q).
Proof.
  intros Hwf E q latest now. destruct (gnmi_remove_spec _ _ _ _ Hwf E) as (_ & _ & H).
  cbn [unit_events]. destruct (del_ok m) as [p|].
  - destruct H as [H _]. rewrite H. unfold sel, older_than.
    destruct (qmatch p q); cbn [fold_left spec_leaf_step andb].
    + destruct (lookup (t_tree t) q) as [v|]; [|reflexivity]. now destruct (Z.ltb (n_ts v) (n_ts m)).
    + now destruct (lookup (t_tree t) q).
  - destruct H as [-> _]. reflexivity.
Qed.

(** * Target.GnmiUpdate, one notification *)

Definition clean_cls (e : N) : Prop := e <> err_collision /\ e <> err_add.

(** the call neither panicked nor refused a unit for a schema collision *)
Definition clean (r : gres) : Prop :=
  match r with
  | GOk => True
  | GErr e => clean_cls e
  | GErrs es => Forall clean_cls es
  | GPanic _ => False
  end.

Lemma finish_ts_tree n b t : t_tree (finish_ts n b t) = t_tree t.
Proof.
  unfold finish_ts, check_timestamp. destruct (tracks_ts n && b); [|reflexivity].
  destruct (t_ts t) as [z|]; [destruct (Z.ltb z (n_ts n))|]; reflexivity.
Qed.

Lemma finish_ts_cfg n b t : t_cfg (finish_ts n b t) = t_cfg t /\ t_name (finish_ts n b t) = t_name t.
Proof.
  unfold finish_ts, check_timestamp. destruct (tracks_ts n && b); [|split; reflexivity].
  destruct (t_ts t) as [z|]; [destruct (Z.ltb z (n_ts n))|]; split; reflexivity.
Qed.

Definition lookup_after (t : target) (now : Z) (q : path) (us : list unit_ev) (o : option notif) :=
  fold_left (spec_leaf_step (thr_of t)) (flat_map (unit_events (t_ts t) now q) us) o.

Lemma lookup_after_app t now q us1 us2 o :
  lookup_after t now q (us1 ++ us2) o = lookup_after t now q us2 (lookup_after t now q us1 o).
Proof. unfold lookup_after. now rewrite flat_map_app, fold_left_app. Qed.

Lemma flat_map_single {A B} (f : A -> list B) x : flat_map f [x] = f x.
Proof. cbn. apply app_nil_r. Qed.

Lemma lookup_after_single t now q e o :
  lookup_after t now q [e] o = fold_left (spec_leaf_step (thr_of t)) (unit_events (t_ts t) now q e) o.
Proof. unfold lookup_after. now rewrite flat_map_single. Qed.

(** ** the two loops of a multi notification *)

Lemma multi_update_panic_sticky now n us : forall a w,
  a_panic a = Some w -> fold_left (multi_update_step now n) us a = a.
Proof.
  induction us as [|u us IH]; intros a w Hp; cbn [fold_left]; [reflexivity|].
  assert (E : multi_update_step now n a u = a) by (unfold multi_update_step; now rewrite Hp).
  rewrite E. eapply IH; eauto.
Qed.

Lemma multi_delete_panic_sticky n ds : forall a w,
  a_panic a = Some w -> fold_left (multi_delete_step n) ds a = a.
Proof.
  induction ds as [|d ds IH]; intros a w Hp; cbn [fold_left]; [reflexivity|].
  assert (E : multi_delete_step n a d = a) by (unfold multi_delete_step; now rewrite Hp).
  rewrite E. eapply IH; eauto.
Qed.

Lemma multi_update_errs now n us : forall a,
  exists l, a_errs (fold_left (multi_update_step now n) us a) = a_errs a ++ l.
Proof.
  induction us as [|u us IH]; intros a; cbn [fold_left]; [exists []; now rewrite app_nil_r|].
  destruct (IH (multi_update_step now n a u)) as (l & Hl). rewrite Hl.
  unfold multi_update_step. destruct (a_panic a); [eauto|].
  destruct (gnmi_update1 (a_t a) now (clone_with_update n u)) as [t' [[nd|]|e|w]]; cbn [a_errs]; eauto.
  exists ([e] ++ l). now rewrite app_assoc.
Qed.

Lemma multi_delete_errs n ds : forall a,
  exists l, a_errs (fold_left (multi_delete_step n) ds a) = a_errs a ++ l.
Proof.
  induction ds as [|d ds IH]; intros a; cbn [fold_left]; [exists []; now rewrite app_nil_r|].
  destruct (IH (multi_delete_step n a d)) as (l & Hl). rewrite Hl.
  unfold multi_delete_step. destruct (a_panic a); [eauto|].
  destruct (gnmi_remove _ _) as [t' [rm|e|w]]; cbn [a_errs]; eauto.
  exists ([e] ++ l). now rewrite app_assoc.
Qed.

Lemma Forall_app_l {A} (P : A -> Prop) l1 l2 : Forall P (l1 ++ l2) -> Forall P l1.
Proof. rewrite Forall_app. tauto. Qed.

Lemma multi_updates_spec now n us : forall a,
  a_panic a = None -> wf_tree (t_tree (a_t a)) ->
  let a' := fold_left (multi_update_step now n) us a in
  a_panic a' = None -> Forall clean_cls (a_errs a') ->
  wf_tree (t_tree (a_t a')) /\ frame (a_t a) (a_t a') /\
  forall q, lookup (t_tree (a_t a')) q =
            lookup_after (a_t a) now q (map (fun u => UUpd (clone_with_update n u)) us)
                         (lookup (t_tree (a_t a)) q).
Proof.
  induction us as [|u us IH]; intros a Hp Hwf; cbn [fold_left map].
  - intros _ _. split; [exact Hwf|]. split; [apply frame_refl|]. reflexivity.
  - intros Hp' Hcl.
    set (a1 := multi_update_step now n a u) in *.
    assert (Hp1 : a_panic a1 = None).
    { destruct (a_panic a1) as [w|] eqn:E; [|reflexivity].
      rewrite (multi_update_panic_sticky now n us a1 w E) in Hp'. congruence. }
    assert (Hcl1 : Forall clean_cls (a_errs a1)).
    { destruct (multi_update_errs now n us a1) as (l & Hl). rewrite Hl in Hcl. eapply Forall_app_l; eauto. }
    assert (Hstep : wf_tree (t_tree (a_t a1)) /\ frame (a_t a) (a_t a1) /\
              forall q, lookup (t_tree (a_t a1)) q =
                        lookup_after (a_t a) now q [UUpd (clone_with_update n u)] (lookup (t_tree (a_t a)) q)).
    { subst a1. unfold multi_update_step in *. rewrite Hp in *.
      destruct (gnmi_update1 (a_t a) now (clone_with_update n u)) as [t' r] eqn:E.
      destruct (gnmi_update1_spec _ _ _ _ _ Hwf E) as (Hw' & Hf' & _).
      assert (Hnc : ~ collision r).
      { destruct r as [o|e|w]; [intros [H|H]; discriminate| |cbn in Hp1; discriminate].
        cbn [a_errs] in Hcl1. apply Forall_app in Hcl1 as [_ Hc]. inversion Hc as [|? ? [H1 H2] _]; subst.
        intros [H|H]; inversion H; congruence. }
      pose proof (unit_upd_events _ _ _ _ _ Hwf E Hnc) as Hev.
      assert (Hev' : forall q, lookup (t_tree t') q =
                 lookup_after (a_t a) now q [UUpd (clone_with_update n u)] (lookup (t_tree (a_t a)) q))
        by (intros q; rewrite lookup_after_single; apply Hev).
      clear Hev; rename Hev' into Hev.
      destruct r as [[nd|]|e|w]; cbn [a_t]; try (split; [exact Hw'|split; [exact Hf'|exact Hev]]). }
    destruct Hstep as (Hw1 & Hf1 & Hl1).
    destruct (IH a1 Hp1 Hw1 Hp' Hcl) as (Hw2 & Hf2 & Hl2).
    split; [exact Hw2|]. split; [eapply frame_trans; eauto|].
    intros q. rewrite Hl2, Hl1.
    change (UUpd (clone_with_update n u) :: map (fun u0 => UUpd (clone_with_update n u0)) us)
      with ([UUpd (clone_with_update n u)] ++ map (fun u0 => UUpd (clone_with_update n u0)) us).
    rewrite lookup_after_app. unfold lookup_after, thr_of.
    destruct Hf1 as (Hts & Hc & _). now rewrite Hts, Hc.
Qed.

Lemma multi_deletes_spec now n ds : forall a,
  a_panic a = None -> wf_tree (t_tree (a_t a)) ->
  let a' := fold_left (multi_delete_step n) ds a in
  a_panic a' = None ->
  wf_tree (t_tree (a_t a')) /\ frame (a_t a) (a_t a') /\
  forall q, lookup (t_tree (a_t a')) q =
            lookup_after (a_t a) now q (map (fun d => UDel (clone_with_delete n d)) ds)
                         (lookup (t_tree (a_t a)) q).
Proof.
  induction ds as [|d ds IH]; intros a Hp Hwf; cbn [fold_left map].
  - intros _. split; [exact Hwf|]. split; [apply frame_refl|]. reflexivity.
  - intros Hp'.
    set (a1 := multi_delete_step n a d) in *.
    assert (Hp1 : a_panic a1 = None).
    { destruct (a_panic a1) as [w|] eqn:E; [|reflexivity].
      rewrite (multi_delete_panic_sticky n ds a1 w E) in Hp'. congruence. }
    assert (Hstep : wf_tree (t_tree (a_t a1)) /\ frame (a_t a) (a_t a1) /\
              forall q, lookup (t_tree (a_t a1)) q =
                        lookup_after (a_t a) now q [UDel (clone_with_delete n d)] (lookup (t_tree (a_t a)) q)).
    { subst a1. unfold multi_delete_step in *. rewrite Hp in *.
      destruct (gnmi_remove (add_int (a_t a) md_update_count 1) (clone_with_delete n d)) as [t' r] eqn:E.
      assert (Hwf0 : wf_tree (t_tree (add_int (a_t a) md_update_count 1))) by exact Hwf.
      destruct (gnmi_remove_spec _ _ _ _ Hwf0 E) as (Hw' & Hf' & _).
      pose proof (unit_del_events _ _ _ _ Hwf0 E) as Hev.
      assert (Hf'' : frame (a_t a) t') by (eapply frame_trans; [apply frame_add_int|exact Hf']).
      assert (Hev' : forall q, lookup (t_tree t') q =
                 lookup_after (a_t a) now q [UDel (clone_with_delete n d)] (lookup (t_tree (a_t a)) q))
        by (intros q; rewrite lookup_after_single; apply (Hev q)).
      destruct r as [rm|e|w]; cbn [a_t]; try (split; [exact Hw'|split; [exact Hf''|exact Hev']]). }
    destruct Hstep as (Hw1 & Hf1 & Hl1).
    destruct (IH a1 Hp1 Hw1 Hp') as (Hw2 & Hf2 & Hl2).
    split; [exact Hw2|]. split; [eapply frame_trans; eauto|].
    intros q. rewrite Hl2, Hl1.
    change (UDel (clone_with_delete n d) :: map (fun d0 => UDel (clone_with_delete n d0)) ds)
      with ([UDel (clone_with_delete n d)] ++ map (fun d0 => UDel (clone_with_delete n d0)) ds).
    rewrite lookup_after_app. unfold lookup_after, thr_of.
    destruct Hf1 as (Hts & Hc & _). now rewrite Hts, Hc.
Qed.

Lemma single_update_case t now n k t' fd r :
  wf_tree (t_tree t) ->
  match gnmi_update1 t now n with
  | (t1, Panic w) => (finish_ts n false t1, [], GPanic w)
  | (t1, Err e) => (finish_ts n false t1, [], GErr e)
  | (t1, Ok None) => (finish_ts n true t1, [], GOk)
  | (t1, Ok (Some nd)) => (finish_ts n true (add_int t1 md_update_count k), [FUpd nd], GOk)
  end = (t', fd, r) ->
  clean r ->
  wf_tree (t_tree t') /\ t_cfg t' = t_cfg t /\ t_name t' = t_name t /\
  forall q, lookup (t_tree t') q = lookup_after t now q [UUpd n] (lookup (t_tree t) q).
Proof.
  intros Hwf. destruct (gnmi_update1 t now n) as [t1 r1] eqn:E.
  destruct (gnmi_update1_spec _ _ _ _ _ Hwf E) as (Hw1 & (Hts & Hc & Hn) & _).
  intros E2 Hcl.
  assert (Hnc : ~ collision r1).
  { destruct r1 as [[nd|]|e|w]; inversion E2; subst; cbn in Hcl.
    - intros [H|H]; discriminate.
    - intros [H|H]; discriminate.
    - destruct Hcl as [H1 H2]. intros [H|H]; inversion H; congruence.
    - contradiction. }
  pose proof (unit_upd_events _ _ _ _ _ Hwf E Hnc) as Hev.
  destruct r1 as [[nd|]|e|w]; inversion E2; subst; clear E2;
    rewrite finish_ts_tree; destruct (finish_ts_cfg n true t1) as [A B];
    destruct (finish_ts_cfg n false t1) as [A' B'];
    destruct (finish_ts_cfg n true (add_int t1 md_update_count k)) as [A'' B''];
    change (t_cfg (add_int t1 md_update_count k)) with (t_cfg t1) in A'';
    change (t_name (add_int t1 md_update_count k)) with (t_name t1) in B'';
    (split; [assumption|]); (split; [congruence|]); (split; [congruence|]);
    intros q; rewrite lookup_after_single; apply Hev.
Qed.


Lemma multi_case t now n us ds t' fd r :
  wf_tree (t_tree t) ->
  (let a0 := Acc t [] [] false None in
   let a1 := fold_left (multi_update_step now n) us a0 in
   let a2 := fold_left (multi_delete_step n) ds a1 in
   (finish_ts n (a_ok a2) (a_t a2), a_feed a2,
    match a_panic a2 with
    | Some w => GPanic w
    | None => match a_errs a2 with [] => GOk | es => GErrs es end
    end)) = (t', fd, r) ->
  clean r ->
  wf_tree (t_tree t') /\ t_cfg t' = t_cfg t /\ t_name t' = t_name t /\
  forall q, lookup (t_tree t') q =
            lookup_after t now q (map (fun u => UUpd (clone_with_update n u)) us ++
                                  map (fun d => UDel (clone_with_delete n d)) ds)
                         (lookup (t_tree t) q).
Proof.
  intros Hwf. cbv zeta.
  set (a0 := Acc t [] [] false None).
  remember (fold_left (multi_update_step now n) us a0) as a1 eqn:Ha1.
  remember (fold_left (multi_delete_step n) ds a1) as a2 eqn:Ha2.
  intros E Hcl. inversion E; subst t' fd r; clear E.
  assert (Hp2 : a_panic a2 = None) by (destruct (a_panic a2); [contradiction|reflexivity]).
  assert (Hp1 : a_panic a1 = None).
  { destruct (a_panic a1) as [w|] eqn:Ep; [|reflexivity].
    rewrite Ha2, (multi_delete_panic_sticky n ds a1 w Ep) in Hp2. congruence. }
  assert (Hcl1 : Forall clean_cls (a_errs a1)).
  { destruct (multi_delete_errs n ds a1) as (l & Hl). rewrite <- Ha2 in Hl.
    rewrite Hp2 in Hcl. destruct (a_errs a2) as [|e es] eqn:Ee.
    - destruct (a_errs a1); [constructor|discriminate].
    - cbn in Hcl. rewrite Hl in Hcl. eapply Forall_app_l; eauto. }
  rewrite Ha1 in Hp1, Hcl1.
  destruct (multi_updates_spec now n us a0 eq_refl Hwf Hp1 Hcl1) as (Hw1 & Hf1 & Hl1).
  rewrite <- Ha1 in *. rewrite Ha2 in Hp2.
  destruct (multi_deletes_spec now n ds a1 Hp1 Hw1 Hp2) as (Hw2 & Hf2 & Hl2).
  rewrite <- Ha2 in *. rewrite finish_ts_tree. destruct (finish_ts_cfg n (a_ok a2) (a_t a2)) as [A B].
  destruct (frame_trans _ _ _ Hf1 Hf2) as (Hts & Hc & Hn). cbn [a_t a0] in Hts, Hc, Hn.
  split; [exact Hw2|]. split; [rewrite A; exact Hc|]. split; [rewrite B; exact Hn|].
  intros q. rewrite Hl2, Hl1. rewrite lookup_after_app. cbn [a_t a0].
  unfold lookup_after, thr_of. destruct Hf1 as (Hts1 & Hc1 & _). cbn [a_t a0] in Hts1, Hc1.
  now rewrite Hts1, Hc1.
Qed.

(** every notification acts on every leaf as the fold of its events *)
Theorem notif_leaf t now n t' fd r :
  wf_tree (t_tree t) -> target_gnmi_update t now n = (t', fd, r) -> clean r ->
  wf_tree (t_tree t') /\ t_cfg t' = t_cfg t /\ t_name t' = t_name t /\
  forall q, lookup (t_tree t') q = lookup_after t now q (units n) (lookup (t_tree t) q).
Proof.
  intros Hwf. unfold target_gnmi_update, units.
  destruct (n_atomic n).
  - destruct (n_del n) as [|d ds].
    + destruct (n_upd n) as [|u us] eqn:Hu.
      * intros E _; inversion E; subst. repeat split; auto.
      * apply single_update_case; exact Hwf.
    + intros E _; inversion E; subst. repeat split; auto.
  - destruct (n_upd n) as [|u [|u2 us]] eqn:Hu; destruct (n_del n) as [|d [|d2 ds]] eqn:Hd.
    + intros E _; inversion E; subst. repeat split; auto.
    + (* single delete *)
      destruct (gnmi_remove (add_int t md_update_count 1) n) as [t1 r1] eqn:E.
      assert (Hwf0 : wf_tree (t_tree (add_int t md_update_count 1))) by exact Hwf.
      destruct (gnmi_remove_spec _ _ _ _ Hwf0 E) as (Hw1 & (Hts & Hc & Hn) & _).
      pose proof (unit_del_events _ _ _ _ Hwf0 E) as Hev.
      intros E2 Hcl. destruct r1 as [rm|e|w]; inversion E2; subst; clear E2;
        (split; [assumption|]); (split; [exact Hc|]); (split; [exact Hn|]);
        intros q; rewrite lookup_after_single; apply (Hev q).
    + apply (multi_case t now n [] (d :: d2 :: ds)); exact Hwf.
    + apply single_update_case; exact Hwf.
    + apply (multi_case t now n [u] [d]); exact Hwf.
    + apply (multi_case t now n [u] (d :: d2 :: ds)); exact Hwf.
    + apply (multi_case t now n (u :: u2 :: us) []); exact Hwf.
    + apply (multi_case t now n (u :: u2 :: us) [d]); exact Hwf.
    + apply (multi_case t now n (u :: u2 :: us) (d :: d2 :: ds)); exact Hwf.
Qed.

(** * Histories *)

Definition hist := list (Z * notif).     (* clock reading, notification *)

Definition tstep (t : target) (h : Z * notif) : target :=
  fst (fst (target_gnmi_update t (fst h) (snd h))).

Definition tres (t : target) (h : Z * notif) : gres :=
  snd (target_gnmi_update t (fst h) (snd h)).

Definition trun (t : target) (H : hist) : target := fold_left tstep H t.

(** no call of the history panicked or refused a unit for a schema collision
    (a path through a stored leaf, or onto a stored branch) *)
Fixpoint clean_history (t : target) (H : hist) : Prop :=
  match H with
  | [] => True
  | h :: H' => clean (tres t h) /\ clean_history (tstep t h) H'
  end.

(** the events of a history that concern the index path [q]; the latest
    accepted timestamp each update is judged against is the target's
    ([t_ts], characterised by [latest_step] below) *)
Fixpoint project (t : target) (H : hist) (q : path) : list lev :=
  match H with
  | [] => []
  | h :: H' => notif_events (t_ts t) (fst h) q (snd h) ++ project (tstep t h) H' q
  end.

Lemma tstep_spec t h :
  wf_tree (t_tree t) -> clean (tres t h) ->
  wf_tree (t_tree (tstep t h)) /\ t_cfg (tstep t h) = t_cfg t /\ t_name (tstep t h) = t_name t /\
  forall q, lookup (t_tree (tstep t h)) q =
            fold_left (spec_leaf_step (thr_of t)) (notif_events (t_ts t) (fst h) q (snd h)) (lookup (t_tree t) q).
Proof.
  intros Hwf Hcl. unfold tstep, tres in *.
  destruct (target_gnmi_update t (fst h) (snd h)) as [[t' fd] r] eqn:E. cbn [fst snd] in *.
  exact (notif_leaf _ _ _ _ _ _ Hwf E Hcl).
Qed.

Theorem leaf_holds_newest_from t H : forall q,
  wf_tree (t_tree t) -> clean_history t H ->
  lookup (t_tree (trun t H)) q =
  fold_left (spec_leaf_step (thr_of t)) (project t H q) (lookup (t_tree t) q).
Proof.
  revert t. induction H as [|h H IH]; intros t q Hwf Hcl; cbn [trun fold_left project]; [reflexivity|].
  destruct Hcl as [Hc1 Hc2].
  destruct (tstep_spec t h Hwf Hc1) as (Hw & Hcfg & _ & Hl).
  fold (trun (tstep t h) H). rewrite (IH (tstep t h) q Hw Hc2).
  rewrite fold_left_app, Hl. unfold thr_of. now rewrite Hcfg.
Qed.

(** C02, the refinement: for every history on a fresh target and every index
    path, the leaf holds what the four-line recursion computes from the events
    that concern that path *)
Theorem leaf_holds_newest name cfg (H : hist) (q : path) :
  clean_history (new_target name cfg) H ->
  lookup (t_tree (trun (new_target name cfg) H)) q =
  spec_leaf (cfg_future_threshold cfg) (project (new_target name cfg) H q).
Proof.
  intros Hcl. unfold spec_leaf.
  exact (leaf_holds_newest_from (new_target name cfg) H q I Hcl).
Qed.

(** the leaf is a function of the events that concern it: a history with no
    event for [q] leaves [q] alone *)
Corollary untouched_leaf_unchanged t H q :
  wf_tree (t_tree t) -> clean_history t H -> project t H q = [] ->
  lookup (t_tree (trun t H)) q = lookup (t_tree t) q.
Proof. intros Hwf Hcl Hp. rewrite (leaf_holds_newest_from t H q Hwf Hcl), Hp. reflexivity. Qed.

(** * The clauses of C02, one call at a time *)

(** a plain (non-metadata) unit reaches the leaf switch with the state as it
    was *)
Lemma gnmi_update1_real t now n u us p :
  n_upd n = u :: us -> unit_index n = Ok p -> p <> [] -> is_real p = true ->
  gnmi_update1 t now n = update_leaf t now p u n.
Proof.
  intros Hu Hi Hne Hr. unfold gnmi_update1. rewrite Hu, Hi. unfold update_pre.
  destruct p as [|p0 prest]; [congruence|]. cbn [is_real] in Hr. now rewrite Hr.
Qed.

(** older than the stored notification, or identical to it: ErrStale, and
    nothing changes except the stale counter; nothing is handed to the client *)
Theorem stale_rejected_noop t now n u us p old :
  n_upd n = u :: us -> unit_index n = Ok p -> p <> [] -> is_real p = true ->
  lookup (t_tree t) p = Some old ->
  (n_ts n < n_ts old \/ (n_ts n = n_ts old /\ notif_eqb old n = true)) ->
  gnmi_update1 t now n = (add_int t md_stale_count 1, Err err_stale).
Proof.
  intros Hu Hi Hne Hr Hl Hts. rewrite (gnmi_update1_real t now n u us p Hu Hi Hne Hr).
  unfold update_leaf. rewrite (proj2 (get_leaf_lookup _ _ _) Hl). unfold leaf_verdict.
  destruct Hts as [Hlt|[Heq Hsame]].
  - apply Z.ltb_lt in Hlt. now rewrite Hlt.
  - rewrite Heq, Z.ltb_irrefl, Z.eqb_refl, Hsame. reflexivity.
Qed.

(** same timestamp, different content: the later arrival replaces the stored one *)
Theorem equal_ts_replaces t now n u us p old t' r :
  wf_tree (t_tree t) ->
  n_upd n = u :: us -> unit_index n = Ok p -> p <> [] -> is_real p = true ->
  lookup (t_tree t) p = Some old ->
  n_ts n = n_ts old -> notif_eqb old n = false ->
  gnmi_update1 t now n = (t', r) ->
  r <> Err err_stale /\ r <> Err err_future /\ ~ collision r /\
  lookup (t_tree t') p = Some n /\
  forall q, q <> p -> lookup (t_tree t') q = lookup (t_tree t) q.
Proof.
  intros Hwf Hu Hi Hne Hr Hl Heq Hdiff E.
  rewrite (gnmi_update1_real t now n u us p Hu Hi Hne Hr) in E.
  destruct (update_leaf_spec _ _ _ _ _ _ _ Hwf E) as (_ & _ & Hs).
  assert (Hv : leaf_verdict t now old n = None).
  { unfold leaf_verdict. now rewrite Heq, Z.ltb_irrefl, Z.eqb_refl, Hdiff. }
  assert (Hr' : r <> Err err_stale /\ r <> Err err_future /\ ~ collision r).
  { unfold update_leaf in E. rewrite (proj2 (get_leaf_lookup _ _ _) Hl), Hv in E.
    destruct (n_atomic n); [inversion E; repeat split; try discriminate; intros [H|H]; discriminate|].
    destruct (n_upd old); [inversion E; repeat split; try discriminate; intros [H|H]; discriminate|].
    match type of E with (if ?b then _ else _) = _ => destruct b end;
      inversion E; repeat split; try discriminate; intros [H|H]; discriminate. }
  destruct Hr' as (A & B & C). repeat split; auto.
  - destruct Hs as [[Hc _]|[_ Hs]]; [contradiction|]. rewrite Hs, path_eqb_refl.
    unfold leaf_rule. rewrite Hl, <- leaf_verdict_spec, Hv. reflexivity.
  - intros q Hq. destruct Hs as [[Hc _]|[_ Hs]]; [contradiction|]. rewrite Hs.
    destruct (path_eqb_spec q p); [contradiction|reflexivity].
Qed.

(** the future guard, exactly as the code implements it: an update to an
    EXISTING leaf, strictly newer than it, further ahead of the clock than a
    configured threshold, while a latest accepted timestamp > 0 is known and
    the update is further ahead of that too: ErrFuture, and nothing changes
    except the future counter *)
Theorem future_rejected_noop t now n u us p old :
  n_upd n = u :: us -> unit_index n = Ok p -> p <> [] -> is_real p = true ->
  lookup (t_tree t) p = Some old ->
  n_ts old < n_ts n ->
  future_guard (thr_of t) now (t_ts t) (n_ts n) = true ->
  gnmi_update1 t now n = (add_int t md_future_count 1, Err err_future).
Proof.
  intros Hu Hi Hne Hr Hl Hlt Hg. rewrite (gnmi_update1_real t now n u us p Hu Hi Hne Hr).
  unfold update_leaf. rewrite (proj2 (get_leaf_lookup _ _ _) Hl). unfold leaf_verdict.
  assert (H1 : Z.ltb (n_ts n) (n_ts old) = false) by (apply Z.ltb_ge; lia).
  assert (H2 : Z.eqb (n_ts n) (n_ts old) = false) by (apply Z.eqb_neq; lia).
  rewrite H1, H2, future_rejected_guard. unfold thr_of in Hg. rewrite Hg. reflexivity.
Qed.

(** ... and the guard is exact: a strictly newer update for which the guard
    is false is stored; a NEW leaf is never subject to it *)
Theorem newer_accepted t now n u us p t' r :
  wf_tree (t_tree t) ->
  n_upd n = u :: us -> unit_index n = Ok p -> p <> [] -> is_real p = true ->
  (lookup (t_tree t) p = None \/
   exists old, lookup (t_tree t) p = Some old /\ n_ts old < n_ts n /\
               future_guard (thr_of t) now (t_ts t) (n_ts n) = false) ->
  gnmi_update1 t now n = (t', r) -> ~ collision r ->
  lookup (t_tree t') p = Some n.
Proof.
  intros Hwf Hu Hi Hne Hr Hcase E Hnc.
  rewrite (gnmi_update1_real t now n u us p Hu Hi Hne Hr) in E.
  destruct (update_leaf_spec _ _ _ _ _ _ _ Hwf E) as (_ & _ & [[Hc _]|[_ Hs]]); [contradiction|].
  rewrite Hs, path_eqb_refl. unfold leaf_rule. destruct Hcase as [Hl|(old & Hl & Hlt & Hg)]; rewrite Hl.
  - reflexivity.
  - cbn [spec_leaf_step].
    assert (H1 : Z.ltb (n_ts n) (n_ts old) = false) by (apply Z.ltb_ge; lia).
    assert (H2 : Z.eqb (n_ts n) (n_ts old) = false) by (apply Z.eqb_neq; lia).
    unfold thr_of in Hg. now rewrite H1, H2, Hg.
Qed.

(** an update whose path runs through a stored leaf or ends on a stored branch
    is refused and changes nothing at all *)
Theorem collision_rejected_noop t now n u us p t' r :
  n_upd n = u :: us -> unit_index n = Ok p -> p <> [] -> is_real p = true ->
  gnmi_update1 t now n = (t', r) -> collision r -> t' = t.
Proof.
  intros Hu Hi Hne Hr E Hc. rewrite (gnmi_update1_real t now n u us p Hu Hi Hne Hr) in E.
  unfold update_leaf in E.
  destruct (CTreeModel.get (t_tree t) p) as [[old|cs]|].
  - exfalso. destruct (leaf_verdict t now old n) as [e|] eqn:Hv.
    + inversion E; subst. unfold leaf_verdict in Hv.
      repeat match type of Hv with (if ?b then _ else _) = _ => destruct b end;
        inversion Hv; subst; destruct Hc as [H|H]; inversion H.
    + destruct (n_atomic n); [inversion E; subst; destruct Hc as [H|H]; discriminate|].
      destruct (n_upd old); [inversion E; subst; destruct Hc as [H|H]; discriminate|].
      match type of E with (if ?b then _ else _) = _ => destruct b end;
        inversion E; subst; destruct Hc as [H|H]; discriminate.
  - now inversion E.
  - destruct (CTreeModel.add (t_tree t) p n); [|now inversion E].
    inversion E; subst. destruct Hc as [H|H]; discriminate.
Qed.

(** when is an update refused as a collision: exactly when the tree holds a
    leaf strictly above the path or a leaf strictly below it *)
Theorem collision_iff t now n u us p t' r :
  wf_tree (t_tree t) ->
  n_upd n = u :: us -> unit_index n = Ok p -> p <> [] -> is_real p = true ->
  gnmi_update1 t now n = (t', r) ->
  (collision r <->
   exists q w, lookup (t_tree t) q = Some w /\ (strict_prefix q p = true \/ strict_prefix p q = true)).
Proof.
  intros Hwf Hu Hi Hne Hr E. rewrite (gnmi_update1_real t now n u us p Hu Hi Hne Hr) in E.
  unfold update_leaf in E.
  destruct (CTreeModel.get (t_tree t) p) as [[old|cs]|] eqn:Hg.
  - (* a leaf at p: no collision, and prefix-freeness excludes the right side *)
    pose proof (proj1 (get_leaf_lookup _ _ _) Hg) as Hl. split.
    + intros Hc. exfalso. destruct (leaf_verdict t now old n) as [e|] eqn:Hv.
      * inversion E; subst. unfold leaf_verdict in Hv.
        repeat match type of Hv with (if ?b then _ else _) = _ => destruct b end;
          inversion Hv; subst; destruct Hc as [H|H]; inversion H.
      * destruct (n_atomic n); [inversion E; subst; destruct Hc as [H|H]; discriminate|].
        destruct (n_upd old); [inversion E; subst; destruct Hc as [H|H]; discriminate|].
        match type of E with (if ?b then _ else _) = _ => destruct b end;
          inversion E; subst; destruct Hc as [H|H]; discriminate.
    + intros (q & w & Hq & [Hs|Hs]); exfalso; apply strict_prefix_spec in Hs as (k & s & ->).
      * destruct (t_tree t) as [nd|]; [|discriminate]. cbn [lookup] in *.
        pose proof (lookup_prefix_free nd q (k :: s) w old Hq Hl). discriminate.
      * destruct (t_tree t) as [nd|]; [|discriminate]. cbn [lookup] in *.
        pose proof (lookup_prefix_free nd p (k :: s) old w Hl Hq). discriminate.
  - (* a branch at p *)
    injection E as Et Er. subst t' r. split; [intros _|intros _; left; reflexivity].
    destruct (get_branch_inhabited _ _ _ Hwf Hg) as (k & s & v & Hv).
    exists (p ++ k :: s), v. split; [exact Hv|]. right. apply strict_prefix_spec. eauto.
  - (* nothing at p: Add decides *)
    destruct (CTreeModel.add (t_tree t) p n) as [tr'|] eqn:Ha.
    + inversion E; subst. split; [intros [H|H]; discriminate|].
      intros (q & w & Hq & Hs). exfalso.
      destruct (t_tree t) as [nd|] eqn:Ht; [|discriminate]. cbn [CTreeModel.add lookup wf_tree] in *.
      assert (Hok : add_node nd p n <> None) by (destruct (add_node nd p n); congruence).
      apply (add_node_ok_iff nd p n Hwf) in Hok. destruct (Hok q w Hq) as [H1 H2].
      destruct Hs; congruence.
    + injection E as Et Er. subst t' r. split; [intros _|intros _; right; reflexivity].
      destruct (t_tree t) as [nd|] eqn:Ht; [|discriminate]. cbn [CTreeModel.add lookup wf_tree] in *.
      assert (Hno : ~ addable nd p).
      { intros Hok. apply (add_node_ok_iff nd p n Hwf) in Hok. destruct (add_node nd p n); congruence. }
      (* classical-free: search the finite set of leaves *)
      destruct (existsb (fun qv => strict_prefix (fst qv) p || strict_prefix p (fst qv)) (walk_node nd [])) eqn:Hex.
      * apply existsb_exists in Hex as ([q w] & Hin & Hs). cbn [fst] in Hs.
        apply (walk_node_spec nd [] q w Hwf) in Hin as (s & Hqs & Hls). cbn [app] in Hqs. subst s.
        exists q, w. split; [exact Hls|]. apply orb_true_iff in Hs. exact Hs.
      * exfalso. apply Hno. intros q w Hq.
        assert (Hin : In (q, w) (walk_node nd [])).
        { apply (walk_node_spec nd [] q w Hwf). exists q. split; [reflexivity|exact Hq]. }
        assert (Hf : strict_prefix q p || strict_prefix p q = false).
        { destruct (strict_prefix q p || strict_prefix p q) eqn:Hb; [|reflexivity].
          assert (existsb (fun qv => strict_prefix (fst qv) p || strict_prefix p (fst qv)) (walk_node nd []) = true).
          { apply existsb_exists. exists (q, w). split; [exact Hin|exact Hb]. }
          congruence. }
        apply orb_false_iff in Hf. exact Hf.
Qed.

(** a delete at time T removes exactly the leaves its path matches whose
    stored timestamp is older than T, hands exactly those to the client, and
    leaves every other leaf as it was *)
Theorem delete_exact t n p t' r :
  wf_tree (t_tree t) -> del_ok n = Some p -> gnmi_remove t n = (t', r) ->
  (forall s, lookup (t_tree t') s =
             match lookup (t_tree t) s with
             | Some v => if qmatch p s && Z.ltb (n_ts v) (n_ts n) then None else Some v
             | None => None
             end) /\
  exists removed, r = Ok removed /\
    forall v, In v removed <->
              exists s, lookup (t_tree t) s = Some v /\ qmatch p s = true /\ n_ts v < n_ts n.
Proof.
  intros Hwf Hok E. destruct (gnmi_remove_spec _ _ _ _ Hwf E) as (_ & _ & H). rewrite Hok in H.
  destruct H as (Hl & removed & Hr & Hin). split; [exact Hl|].
  exists removed. split; [exact Hr|]. intros v. rewrite Hin. unfold older_than.
  split; intros (s & A & B & C); exists s; repeat split; auto; now apply Z.ltb_lt.
Qed.

Lemma ts_lat_compute t r ts : t_ts (lat_compute t r ts) = t_ts t.
Proof. exact (proj1 (frame_lat_compute t r ts)). Qed.

Lemma update_leaf_ts t1 now p u n t2 r : update_leaf t1 now p u n = (t2, r) -> t_ts t2 = t_ts t1.
Proof.
  unfold update_leaf. destruct (CTreeModel.get (t_tree t1) p) as [[old|cs]|].
  - destruct (leaf_verdict t1 now old n); [intros E; inversion E; reflexivity|].
    destruct (n_atomic n); [intros E; inversion E; now rewrite ts_lat_compute|].
    destruct (n_upd old); [intros E; inversion E; reflexivity|].
    match goal with |- (if ?b then _ else _) = _ -> _ => destruct b end;
      intros E; inversion E; [reflexivity|now rewrite ts_lat_compute].
  - intros E; inversion E; reflexivity.
  - destruct (CTreeModel.add (t_tree t1) p n); intros E; inversion E; [|reflexivity].
    destruct (is_real p); [now rewrite ts_lat_compute|reflexivity].
Qed.

Lemma gnmi_update1_ts t0 now m t1 r : gnmi_update1 t0 now m = (t1, r) -> t_ts t1 = t_ts t0.
Proof.
  unfold gnmi_update1. destruct (n_upd m) as [|u us]; [intros E; now inversion E|].
  destruct (unit_index m) as [p|e|w]; try (intros E; now inversion E).
  destruct (update_pre t0 p u) as [t2 r2] eqn:Hp.
  destruct (update_pre_frame _ _ _ _ _ Hp) as (_ & Hts & _).
  destruct r2 as [[]|e|w]; try (intros E; inversion E; subst; exact Hts).
  intros E. apply update_leaf_ts in E. congruence.
Qed.

Lemma gnmi_remove_ts t0 m t1 r : gnmi_remove t0 m = (t1, r) -> t_ts t1 = t_ts t0.
Proof.
  intros E. destruct (n_del m) as [|d ds] eqn:Hd; [unfold gnmi_remove in E; rewrite Hd in E; now inversion E|].
  unfold gnmi_remove in E. rewrite Hd in E.
  destruct (join_path (n_prefix m) (Some d)) as [p|e|w]; try (now inversion E).
  cbv zeta in E.
  assert (Hts : t_ts (match p with
             | p0 :: k :: _ => if String.eqb p0 md_root then set_meta t0 (md_reset_entry (t_meta t0) k) else t0
             | _ => t0 end) = t_ts t0).
  { destruct p as [|p0 [|k ?]]; try reflexivity. destruct (String.eqb p0 md_root); reflexivity. }
  match type of E with match ?x with _ => _ end = _ => destruct x end; inversion E; exact Hts.
Qed.

(** the latest accepted timestamp only grows, and only to the timestamp of a
    notification some unit of which was accepted *)
Theorem latest_step t now n :
  let t' := fst (fst (target_gnmi_update t now n)) in
  t_ts t' = t_ts t \/
  (t_ts t' = Some (n_ts n) /\ tracks_ts n = true /\
   match t_ts t with Some z => z < n_ts n | None => True end).
Proof.
  cbv zeta.
  assert (Hfin : forall b t1, t_ts t1 = t_ts t ->
            t_ts (finish_ts n b t1) = t_ts t \/
            (t_ts (finish_ts n b t1) = Some (n_ts n) /\ tracks_ts n = true /\
             match t_ts t with Some z => z < n_ts n | None => True end)).
  { intros b t1 Ht. unfold finish_ts, check_timestamp. destruct (tracks_ts n); cbn [andb]; [|left; exact Ht].
    destruct b; [|left; exact Ht]. rewrite Ht. destruct (t_ts t) as [z|] eqn:Hz.
    - destruct (Z.ltb_spec z (n_ts n)); [right; cbn; auto|left; exact Ht].
    - right. cbn. auto. }
  pose proof (fun t0 m t1 r => gnmi_update1_ts t0 now m t1 r) as Hu1.
  pose proof gnmi_remove_ts as Hrm.
  assert (Hmu : forall us a, t_ts (a_t (fold_left (multi_update_step now n) us a)) = t_ts (a_t a)).
  { induction us as [|u us IH]; intros a; cbn [fold_left]; [reflexivity|]. rewrite IH.
    unfold multi_update_step. destruct (a_panic a); [reflexivity|].
    destruct (gnmi_update1 (a_t a) now (clone_with_update n u)) as [t1 [[nd|]|e|w]] eqn:E;
      cbn [a_t]; apply Hu1 in E; exact E. }
  assert (Hmd : forall ds a, t_ts (a_t (fold_left (multi_delete_step n) ds a)) = t_ts (a_t a)).
  { induction ds as [|d ds IH]; intros a; cbn [fold_left]; [reflexivity|]. rewrite IH.
    unfold multi_delete_step. destruct (a_panic a); [reflexivity|].
    destruct (gnmi_remove _ _) as [t1 [rm|e|w]] eqn:E; cbn [a_t]; apply Hrm in E; exact E. }
  unfold target_gnmi_update.
  destruct (n_atomic n).
  - destruct (n_del n); [|left; reflexivity]. destruct (n_upd n); [left; reflexivity|].
    destruct (gnmi_update1 t now n) as [t1 [[nd|]|e|w]] eqn:E; cbn [fst]; apply Hu1 in E; apply Hfin; exact E.
  - destruct (n_upd n) as [|u [|u2 us]]; destruct (n_del n) as [|d [|d2 ds]]; cbn [fst];
      try (left; reflexivity);
      try (destruct (gnmi_update1 t now n) as [t1 [[nd|]|e|w]] eqn:E; cbn [fst]; apply Hu1 in E; apply Hfin; exact E);
      try (destruct (gnmi_remove _ n) as [t1 [rm|e|w]] eqn:E; cbn [fst]; apply Hrm in E; left; exact E);
      try (apply Hfin; rewrite Hmd, Hmu; reflexivity).
Qed.

(** * Non-vacuity: concrete instances of the hypotheses above *)

Definition ex_cfg : config := Cfg 2 true [].
Definition ex_pfx : option gpath := Some (gp_prefix "t" "" ["a"]).
Definition ex_upd (leaf : string) (ts v : Z) : notif :=
  Notif ts ex_pfx None [Upd (Some (gp_of_names [leaf])) (Some (TInt v)) 0] [] false.
Definition ex_del (leaf : string) (ts : Z) : notif :=
  Notif ts ex_pfx None [] [gp_of_names [leaf]] false.
Definition ex_multi (ts : Z) : notif :=
  Notif ts ex_pfx None [Upd (Some (gp_of_names ["b"])) (Some (TInt 5)) 0;
                        Upd (Some (gp_of_names ["c"])) (Some (TInt 6)) 0] [gp_of_names ["*"]] false.
Definition ex_t0 : target := new_target "t" ex_cfg.
Definition ex_t1 : target := trun ex_t0 [(0, ex_upd "b" 2 1)].

(** a history with every kind of event: newer, older, equal-and-different,
    identical, delete too early, delete, re-add, too far ahead, multi *)
Definition ex_hist : hist :=
  [(0, ex_upd "b" 2 1); (0, ex_upd "b" 1 2); (0, ex_upd "b" 2 2); (0, ex_upd "b" 2 2);
   (0, ex_del "b" 2); (0, ex_del "*" 3); (0, ex_upd "b" 1 1); (0, ex_upd "b" 9 1);
   (1, ex_multi 3)].

Example ex_hist_clean : clean_history ex_t0 ex_hist.
Proof. cbv. repeat split; try discriminate; auto. Qed.

Example ex_hist_events :
  List.length (project ex_t0 ex_hist ["a"; "b"]) = 10%nat /\
  lookup (t_tree (trun ex_t0 ex_hist)) ["a"; "b"] =
    Some (clone_with_update (ex_multi 3) (Upd (Some (gp_of_names ["b"])) (Some (TInt 5)) 0)) /\
  lookup (t_tree (trun ex_t0 (firstn 8 ex_hist))) ["a"; "b"] = Some (ex_upd "b" 1 1).
Proof. vm_compute. repeat split. Qed.

Example ex_stale_hyps :
  n_upd (ex_upd "b" 1 2) = [Upd (Some (gp_of_names ["b"])) (Some (TInt 2)) 0] /\
  unit_index (ex_upd "b" 1 2) = Ok ["a"; "b"] /\ is_real ["a"; "b"] = true /\
  lookup (t_tree ex_t1) ["a"; "b"] = Some (ex_upd "b" 2 1) /\
  n_ts (ex_upd "b" 1 2) < n_ts (ex_upd "b" 2 1) /\
  (n_ts (ex_upd "b" 2 1) = n_ts (ex_upd "b" 2 1) /\ notif_eqb (ex_upd "b" 2 1) (ex_upd "b" 2 1) = true).
Proof. vm_compute. repeat split; congruence. Qed.

Example ex_equal_ts_hyps :
  wf_tree (t_tree ex_t1) /\
  lookup (t_tree ex_t1) ["a"; "b"] = Some (ex_upd "b" 2 1) /\
  n_ts (ex_upd "b" 2 2) = n_ts (ex_upd "b" 2 1) /\ notif_eqb (ex_upd "b" 2 1) (ex_upd "b" 2 2) = false.
Proof.
  split; [|vm_compute; repeat split].
  unfold ex_t1. pose proof (tstep_spec ex_t0 (0, ex_upd "b" 2 1) I) as H.
  apply H. cbv. exact I.
Qed.

Example ex_future_hyps :
  lookup (t_tree ex_t1) ["a"; "b"] = Some (ex_upd "b" 2 1) /\
  n_ts (ex_upd "b" 2 1) < n_ts (ex_upd "b" 9 1) /\
  future_guard (thr_of ex_t1) 0 (t_ts ex_t1) (n_ts (ex_upd "b" 9 1)) = true /\
  future_guard (thr_of ex_t1) 0 (t_ts ex_t1) (n_ts (ex_upd "b" 4 1)) = false /\
  future_guard (thr_of ex_t0) 0 (t_ts ex_t0) 9 = false.
Proof. vm_compute. repeat split. Qed.

Example ex_collision_hyps :
  unit_index (Notif 5 ex_pfx None [Upd (Some (gp_of_names ["b"; "c"])) (Some (TInt 1)) 0] [] false)
    = Ok ["a"; "b"; "c"] /\
  collision (snd (gnmi_update1 ex_t1 0
     (Notif 5 ex_pfx None [Upd (Some (gp_of_names ["b"; "c"])) (Some (TInt 1)) 0] [] false))) /\
  collision (snd (gnmi_update1 ex_t1 0
     (Notif 5 (Some (gp_prefix "t" "" [])) None [Upd (Some (gp_of_names ["a"])) (Some (TInt 1)) 0] [] false))).
Proof. vm_compute. split; [reflexivity|]. split; [right; reflexivity|left; reflexivity]. Qed.

Example ex_delete_hyps :
  del_ok (ex_del "*" 3) = Some ["a"; "*"] /\
  (exists removed, snd (gnmi_remove ex_t1 (ex_del "*" 3)) = Ok removed /\ removed = [ex_upd "b" 2 1]) /\
  snd (gnmi_remove ex_t1 (ex_del "*" 2)) = Ok [].
Proof. vm_compute. repeat split. eexists. split; reflexivity. Qed.

Example ex_latest : t_ts ex_t1 = Some 2 /\ t_ts (trun ex_t0 ex_hist) = Some 3.
Proof. vm_compute. split; reflexivity. Qed.

(** * The executable specification K_P of C02 (C02Check.v) applies the same
      per-leaf rule as the theorems above *)
From Gnmi Require Import Cache.C02Check.

Lemma K_future_guard thr now latest ts : sfuture thr now latest ts = future_guard thr now latest ts.
Proof. reflexivity. Qed.

Lemma K_leaf_rule_sound thr now latest old m :
  match fst (leaf_update thr now latest old m) with
  | Some v => Some v
  | None => old
  end = spec_leaf_step thr old (LUpd now latest m).
Proof.
  unfold leaf_update, spec_leaf_step. destruct old as [o|]; [|reflexivity].
  rewrite K_future_guard.
  destruct (Z.ltb (n_ts m) (n_ts o)); [reflexivity|].
  destruct (Z.eqb (n_ts m) (n_ts o)); [destruct (notif_eqb o m); reflexivity|].
  destruct (future_guard thr now latest (n_ts m)); reflexivity.
Qed.

(** ... and reports ErrStale / ErrFuture exactly when the rule keeps the old
    value for that reason *)
Lemma K_leaf_class_sound thr now latest o m :
  snd (leaf_update thr now latest (Some o) m) =
  if Z.ltb (n_ts m) (n_ts o) then RStale
  else if Z.eqb (n_ts m) (n_ts o) then (if notif_eqb o m then RStale else ROk)
  else if future_guard thr now latest (n_ts m) then RFuture else ROk.
Proof.
  unfold leaf_update. rewrite K_future_guard.
  destruct (Z.ltb (n_ts m) (n_ts o)); [reflexivity|].
  destruct (Z.eqb (n_ts m) (n_ts o)); [destruct (notif_eqb o m); reflexivity|].
  destruct (future_guard thr now latest (n_ts m)); reflexivity.
Qed.

(** the delete rule of K_P is [spec_leaf_step] on an [LDel] event *)
Lemma K_delete_rule_sound thr (p q : path) ts (v : notif) :
  (if negb (qmatch p q && Z.ltb (n_ts v) ts) then Some v else None) =
  fold_left (spec_leaf_step thr) (if qmatch p q then [LDel ts] else []) (Some v).
Proof. destruct (qmatch p q); cbn; [destruct (Z.ltb (n_ts v) ts)|]; reflexivity. Qed.

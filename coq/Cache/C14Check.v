(** C14: correspondence evaluator and the executable specification K_P.

    A case is a cache configuration, the initial target names, the observation
    of every known name before the first call, and the API calls the harness
    made on one real [cache.Cache] (with a real [subscribe.Server] registered
    as its client when the case attaches subscribers), each with what the
    implementation returned (see [MultiCache.mobs]).

    [check_case] replays the calls
    (a) on the model ([MultiCache.mstep]) -- correspondence, tag 1 -- and
    (b) through K_P, which looks ONLY at the operation and the implementation's
        own observations before / after it:
        tag 2  isolation: an operation addressed to target t changed what is
               stored / reported / known for another name, or announced
               something carrying another target; UpdateMetadata touched a
               non-meta leaf or announced a non-meta entry; UpdateSize /
               subscribing changed a tree or announced something;
        tag 3  Reset post-condition (no non-meta leaf, every removed leaf
               covered by an announced delete of that target, metadata initial:
               also equal to what Metadata() showed right after the target was
               added, whatever options the cache was built with);
        tag 4  Remove post-condition (unknown afterwards, exactly one
               whole-target delete announced) and "unknown to updates"
               (GnmiUpdate to an unknown name is an error without effect);
        tag 5  Query("*") is the union of the per-target queries; HasTarget,
               Query and Metadata agree on which names exist;
        tag 6  subscribers (also those attached WITH the initial walk, with a
               Cache.Remove executed between registration and walk): a running
               stream forwards, in order, exactly the
               announced entries of its target (all, for "*"); a single-target
               stream ends with status OK right after the whole-target delete;
               an ended stream receives nothing; "*" streams are not ended;
               subscribing to an unknown name is NotFound; subscribers on a path
               below the target get exactly the entries match.Match offers them
               (and every whole-target delete), whatever other subscribers of
               the target have connected or disconnected; a subscriber with a
               backlog (Send blocked) gets, once released, the queued updates,
               then the deletes, and ends cleanly / stays open as above;
        tag 12 known finding (DESIGN 7.20 / fixes/C14_1): the only thing wrong
               after a Reset is latestTimestamp = time.Time{}.UnixNano().
    Definitions only. *)
From Gnmi Require Import Base.Prelude CTree.CTreeModel Path.PathModel Cache.CacheModel Cache.MultiCache.
Local Open Scope Z_scope.

(** * Helpers on observations *)

Definition is_meta_path (p : path) : bool :=
  match p with k :: _ => String.eqb k "meta" | [] => false end.

Definition non_meta (d : list (path * notif)) : list (path * notif) :=
  filter (fun e => negb (is_meta_path (fst e))) d.

Definition feed_tgt (n : notif) : string := gp_target (gp_of_opt (n_prefix n)).

Definition is_nil {A} (l : list A) : bool := match l with [] => true | _ => false end.

(** value of a registered metadata name in an observation *)
Definition flatten {A} (o : option (option A)) : option A :=
  match o with Some x => x | None => None end.

Definition mo_int (m : metaobs) (k : string) : option Z :=
  flatten (assoc k (combine md_int_names (mo_ints m))).
Definition mo_bool (m : metaobs) (k : string) : option bool :=
  flatten (assoc k (combine md_bool_names (mo_bools m))).
Definition mo_str (m : metaobs) (k : string) : option string :=
  flatten (assoc k (combine md_str_names (mo_strs m))).

(** index path of a stored unit / of the first delete of a feed entry *)
Definition upd_index (m : notif) : option path :=
  match n_upd m with
  | [] => None
  | u :: _ =>
      match join_prefix_and_path (gp_of_opt (n_prefix m))
              (if n_atomic m then empty_gpath else gp_of_opt (u_path u)) with
      | Ok p => Some p
      | _ => None
      end
  end.

Definition del_index (m : notif) : option path :=
  match n_upd m, n_del m with
  | [], [d] =>
      match join_prefix_and_path (gp_of_opt (n_prefix m)) d with
      | Ok p => Some p
      | _ => None
      end
  | _, _ => None
  end.

(** * tag 2: isolation *)

Definition same_as_before (prev : list (string * tobs)) (kt : string * tobs) : bool :=
  match assoc (fst kt) prev with
  | Some p => tobs_eqb p (snd kt)
  | None => false
  end.

(** existence and non-meta leaves unchanged *)
Definition data_eqb (a b : tobs) : bool :=
  Bool.eqb (to_has a) (to_has b) &&
  opt_eqb (bag_eqb pn_eqb) (option_map non_meta (to_dump a)) (option_map non_meta (to_dump b)).

(** existence and every leaf unchanged (metadata values may differ) *)
Definition tree_eqb (a b : tobs) : bool :=
  Bool.eqb (to_has a) (to_has b) && opt_eqb (bag_eqb pn_eqb) (to_dump a) (to_dump b).

Definition feed_is_meta_update (n : notif) : bool :=
  match n_upd n, n_del n with
  | [_], [] => match upd_index n with Some p => is_meta_path p | None => false end
  | _, _ => false
  end.

Definition kp_isolation (prev : list (string * tobs)) (o : mop) (ob : mobs) : bool :=
  match op_addr o with
  | AOne t =>
      forallb (fun kt => String.eqb (fst kt) t || same_as_before prev kt) (o_tgts ob) &&
      forallb (fun n => String.eqb (feed_tgt n) t) (o_feed ob)
  | ANone =>
      forallb (same_as_before prev) (o_tgts ob) && is_nil (o_feed ob)
  | AAll =>
      match o with
      | MUpdateMeta _ =>
          forallb (fun kt => match assoc (fst kt) prev with
                             | Some p => data_eqb p (snd kt)
                             | None => false
                             end) (o_tgts ob) &&
          forallb feed_is_meta_update (o_feed ob) &&
          (* every announced entry belongs to an existing target *)
          forallb (fun n => match assoc (feed_tgt n) (o_tgts ob) with
                            | Some tb => to_has tb
                            | None => false
                            end) (o_feed ob)
      | _ =>
          forallb (fun kt => match assoc (fst kt) prev with
                             | Some p => tree_eqb p (snd kt)
                             | None => false
                             end) (o_tgts ob) &&
          is_nil (o_feed ob)
      end
  end.

(** * tag 3 / 12: Reset *)

(** a feed entry of target [t] deleting everything its index path matches *)
Definition delete_covers (t : string) (p : path) (n : notif) : bool :=
  String.eqb (feed_tgt n) t &&
  match del_index n with
  | Some q => qmatch q p
  | None => false
  end.

Definition counters_reset : list string :=
  [md_add_count; md_del_count; md_empty_count; md_leaf_count; md_update_count;
   md_stale_count; md_future_count; md_suppressed_count; md_size].

Definition first_val (n : notif) : option tv :=
  match n_upd n with u :: _ => u_val u | [] => None end.

(** a metadata leaf, when present, shows value [v] *)
Definition leaf_shows (d : list (path * notif)) (k : string) (v : tv) : bool :=
  forallb (fun e => negb (path_eqb (fst e) ["meta"; k]) ||
                    otv_eqb (first_val (snd e)) (Some v)) d.

(** everything Reset promises except the latest timestamp *)
Definition reset_core (excl : list string) (t : string) (before after : tobs) (feed : list notif) : bool :=
  match to_dump before, to_dump after, to_meta after with
  | Some d0, Some d1, Some m =>
      to_has after &&
      is_nil (non_meta d1) &&
      forallb (fun e => existsb (delete_covers t (fst e)) feed) (non_meta d0) &&
      opt_eqb Bool.eqb (mo_bool m md_sync) (Some false) &&
      opt_eqb Bool.eqb (mo_bool m md_connected) (Some false) &&
      forallb (fun k => opt_eqb Z.eqb (mo_int m k) (Some 0)) counters_reset &&
      (* the exported leaves follow, except those the cache was told not to
         generate updates for (cache.WithExcludedMeta) *)
      (name_in md_sync excl || leaf_shows d1 md_sync (TBool false)) &&
      (name_in md_connected excl || leaf_shows d1 md_connected (TBool false)) &&
      forallb (fun k => name_in k excl || leaf_shows d1 k (TInt 0)) counters_reset
  | _, _, _ => false
  end.

(** the latest timestamp after Reset: [Some true] initial value 0,
    [Some false] the zero-time sentinel (known finding), [None] anything else *)
Definition reset_latest (excl : list string) (after : tobs) : option bool :=
  match to_dump after, to_meta after with
  | Some d1, Some m =>
      let ex := name_in md_latest_ts excl in
      if opt_eqb Z.eqb (mo_int m md_latest_ts) (Some 0) && (ex || leaf_shows d1 md_latest_ts (TInt 0))
      then Some true
      else if opt_eqb Z.eqb (mo_int m md_latest_ts) (Some zero_time_unixnano) &&
              (ex || leaf_shows d1 md_latest_ts (TInt zero_time_unixnano))
      then Some false
      else None
  | _, _ => None
  end.

Definition kp_reset (excl : list string) (prev : list (string * tobs)) (o : mop) (ob : mobs) : list N :=
  match o with
  | MReset _ t =>
      match assoc t prev, assoc t (o_tgts ob) with
      | Some b, Some a =>
          if to_has b then
            if reset_core excl t b a (o_feed ob) then
              match reset_latest excl a with
              | Some true => []
              | Some false => [12%N]
              | None => [3%N]
              end
            else [3%N]
          else if tobs_eqb b a && is_nil (o_feed ob) then [] else [3%N]
      | _, _ => [3%N]
      end
  | _ => []
  end.

(** * tag 4: Remove, unknown targets *)

Definition is_whole_target_delete (t : string) (n : notif) : bool :=
  String.eqb (feed_tgt n) t && is_nil (n_upd n) && is_target_delete n.

Definition removed_ok (t : string) (ob : mobs) : bool :=
  match assoc t (o_tgts ob) with
  | Some a =>
      negb (to_has a) && is_nil (match to_dump a with Some _ => [tt] | None => [] end) &&
      is_nil (match to_meta a with Some _ => [tt] | None => [] end) &&
      match o_feed ob with
      | [n] => is_whole_target_delete t n
      | _ => false
      end
  | None => false
  end.

Definition known_before (prev : list (string * tobs)) (T : string) : bool :=
  if String.eqb T "*" then true
  else match assoc T prev with Some b => to_has b | None => false end.

Definition kp_remove (prev : list (string * tobs)) (o : mop) (ob : mobs) : bool :=
  match o with
  | MRemove _ t => removed_ok t ob
  | MSubWalk _ T (Some x) =>
      if known_before prev T then removed_ok x ob else is_nil (o_feed ob)
  | MUpd _ n =>
      match n_prefix n with
      | None => rcls_eqb (o_res ob) ROther
      | Some pr =>
          match assoc (gp_target pr) prev with
          | Some b => to_has b || (rcls_eqb (o_res ob) ROther && is_nil (o_feed ob) &&
                                   same_as_before prev (gp_target pr, match assoc (gp_target pr) (o_tgts ob) with
                                                                       | Some a => a
                                                                       | None => TObs true None None
                                                                       end))
          | None => false
          end
      end
  | _ => true
  end.

(** * tag 5: the all-targets query and the agreement of the three views *)

Definition kp_views (ob : mobs) : bool :=
  forallb (fun kt =>
             let a := snd kt in
             Bool.eqb (to_has a) (match to_dump a with Some _ => true | None => false end) &&
             Bool.eqb (to_has a) (match to_meta a with Some _ => true | None => false end))
          (o_tgts ob) &&
  (let all := flat_map (fun kt => match to_dump (snd kt) with Some d => d | None => [] end) (o_tgts ob) in
   (* the harness lists both in (target, index path) order: linear when they agree *)
   list_eqb pn_eqb all (o_star ob) || bag_eqb pn_eqb all (o_star ob)).

(** * tag 6: subscribers *)

(** what K_P remembers about a subscriber: target, subscription path, last
    status; and, while the subscribers' Send is blocked, everything announced
    since (their backlog) *)
Definition ksub := (string * path * sstat)%type.
Definition kstate := (list ksub * option (list notif))%type.

Definition kp_sub_one (feed : list notif) (ks : ksub) (g : list sresp * sstat) : bool :=
  match snd ks with
  | SRunning =>
      let '(out, e) := stream_feed (fst (fst ks)) (snd (fst ks)) feed in
      list_eqb sresp_eqb out (fst g) &&
      sstat_eqb (snd g) (if e then SEndedOk else SRunning)
  | st => is_nil (fst g) && sstat_eqb (snd g) st
  end.

(** nothing is delivered and no RPC returns while Send is blocked *)
Definition kp_sub_quiet (ks : ksub) (g : list sresp * sstat) : bool :=
  is_nil (fst g) && sstat_eqb (snd g) (snd ks).

Definition kp_new_sub (prev : list (string * tobs)) (T : string) (g : list sresp * sstat) : bool :=
  if known_before prev T then list_eqb sresp_eqb (fst g) [SSync] && sstat_eqb (snd g) SRunning
  else is_nil (fst g) && sstat_eqb (snd g) SNotFound.

Definition kp_subs (prev : list (string * tobs)) (kst : kstate) (o : mop) (ob : mobs) : bool :=
  let ksubs := fst kst in
  let n := List.length ksubs in
  let olds := combine ksubs (firstn n (o_subs ob)) in
  match snd kst, o with
  | Some acc, MUngate =>
      (* the backlog is delivered: queued updates, then the deletes Reset / Remove
         announced; a single-target stream ends cleanly right after the
         whole-target delete, the others stay open *)
      forallb (fun x => kp_sub_one (acc ++ o_feed ob) (fst x) (snd x)) olds &&
      Nat.eqb (List.length (o_subs ob)) n
  | Some _, _ => forallb (fun x => kp_sub_quiet (fst x) (snd x)) olds && Nat.eqb (List.length (o_subs ob)) n
  | None, _ =>
  match o with
  | MUnsub i =>
      (* the disconnected subscriber's RPC returns Canceled; the others go on *)
      forallb (fun x => let '(k, ks, g) := x in
                        if Nat.eqb k i
                        then match snd ks with
                             | SRunning => sstat_eqb (snd g) SCanceled
                             | st => sstat_eqb (snd g) st
                             end
                        else kp_sub_one (o_feed ob) ks g)
              (combine (combine (seq 0 n) ksubs) (firstn n (o_subs ob))) &&
      Nat.eqb (List.length (o_subs ob)) n
  | _ =>
  forallb (fun x => kp_sub_one (o_feed ob) (fst x) (snd x)) olds &&
  match o with
  | MSub T | MSubP T _ =>
      match skipn n (o_subs ob) with
      | [g] => kp_new_sub prev T g
      | _ => false
      end
  | MSubWalk _ T _ =>
      match skipn n (o_subs ob) with
      | [g] =>
          if known_before prev T then
            let '(out, e) := stream_feed T [] (o_feed ob) in
            if e then
              (* the stream ends cleanly right after the whole-target delete *)
              list_eqb sresp_eqb (fst g) out && sstat_eqb (snd g) SEndedOk
            else
              let k := List.length out in
              let rest := skipn k (fst g) in
              let walked := firstn (List.length rest - 1) rest in
              let mine := if String.eqb T "*" then map snd (o_star ob)
                          else match assoc T (o_tgts ob) with
                               | Some a => match to_dump a with Some d => map snd d | None => [] end
                               | None => []
                               end in
              sstat_eqb (snd g) SRunning &&
              list_eqb sresp_eqb (firstn k (fst g)) out &&
              match rev rest with SSync :: _ => true | _ => false end &&
              bag_eqb sresp_eqb walked (map SUpd mine)
          else is_nil (fst g) && sstat_eqb (snd g) SNotFound
      | _ => false
      end
  | _ => Nat.eqb (List.length (o_subs ob)) n
  end
  end
  end.

Definition ksubs_next (kst : kstate) (o : mop) (ob : mobs) : kstate :=
  let ksubs := fst kst in
  let n := List.length ksubs in
  (map (fun x => (fst (fst x), snd (snd x))) (combine ksubs (firstn n (o_subs ob))) ++
   match o with
   | MSub T | MSubWalk _ T _ =>
       match skipn n (o_subs ob) with g :: _ => [(T, [], snd g)] | [] => [(T, [], SEndedErr)] end
   | MSubP T q =>
       match skipn n (o_subs ob) with g :: _ => [(T, q, snd g)] | [] => [(T, q, SEndedErr)] end
   | _ => []
   end,
   match o with
   | MGate => match snd kst with None => Some [] | x => x end
   | MUngate => None
   | _ => option_map (fun acc => acc ++ o_feed ob) (snd kst)
   end).

(** * K_P of one step *)

(** "Reset puts the metadata back to its INITIAL values": the values of
    Metadata() after Reset are those observed right after the target was added
    (whatever options the cache was built with: server name, future threshold,
    excluded metadata), except for the latest timestamp, which [reset_latest]
    judges (known finding); and the leaf meta/serverName, when stored, shows
    the server name *)
Definition ints_but_latest (m : metaobs) : list (option Z) :=
  map snd (filter (fun kv => negb (String.eqb (fst kv) md_latest_ts)) (combine md_int_names (mo_ints m))).

Definition initial_again (mb ma : metaobs) : bool :=
  list_eqb (opt_eqb Z.eqb) (ints_but_latest mb) (ints_but_latest ma) &&
  list_eqb (opt_eqb Bool.eqb) (mo_bools mb) (mo_bools ma) &&
  list_eqb (opt_eqb String.eqb) (mo_strs mb) (mo_strs ma) &&
  opt_eqb String.eqb (mo_srv mb) (mo_srv ma).

Definition kbase := list (string * metaobs).

Definition kp_reset_base (excl : list string) (base : kbase) (prev : list (string * tobs)) (o : mop) (ob : mobs) : bool :=
  match o with
  | MReset _ t =>
      match assoc t prev, assoc t base, assoc t (o_tgts ob) with
      | Some b, Some mb, Some a =>
          negb (to_has b) ||
          match to_meta a, to_dump a with
          | Some ma, Some d1 =>
              initial_again mb ma &&
              match mo_srv ma with
              | Some sname => name_in md_server_name excl || leaf_shows d1 md_server_name (TStr sname)
              | None => true
              end
          | _, _ => false
          end
      | _, _, _ => true
      end
  | _ => true
  end.

Definition kbase_next (base : kbase) (o : mop) (ob : mobs) : kbase :=
  match o with
  | MAdd t => match assoc t (o_tgts ob) with
              | Some a => match to_meta a with Some m => aset t m base | None => base end
              | None => base
              end
  | _ => base
  end.

Definition kbase_init (init : list (string * tobs)) : kbase :=
  flat_map (fun kt => match to_meta (snd kt) with Some m => [(fst kt, m)] | None => [] end) init.

Definition kp_step (excl : list string) (prev : list (string * tobs)) (ksubs : kstate) (o : mop) (ob : mobs) : list N :=
  (if kp_isolation prev o ob then [] else [2%N]) ++
  kp_reset excl prev o ob ++
  (if kp_remove prev o ob then [] else [4%N]) ++
  (if kp_views ob then [] else [5%N]) ++
  (if kp_subs prev ksubs o ob then [] else [6%N]).

(** known-finding classes: 12 is produced directly by [kp_reset] (narrow: the
    core of the Reset post-condition holds and the latest timestamp is exactly
    the zero-time sentinel) *)

(** * Verdicts *)

Fixpoint check_from (excl : list string) (srv : option string) (i : nat) (s : mstate) (prev : list (string * tobs)) (ksubs : kstate)
  (base : kbase) (l : list (mop * mobs)) : list (nat * N) :=
  match l with
  | [] => []
  | (o, ob) :: l' =>
      let '(s', r, f, outs) := mstep_gen (srv_post srv) s o in
      let v1 := if corr_step_s srv o s' r f outs ob then [] else [(i, 1%N)] in
      let vk := map (fun t => (i, t)) (kp_step excl prev ksubs o ob) in
      let vb := if kp_reset_base excl base prev o ob then [] else [(i, 3%N)] in
      v1 ++ vk ++ vb ++
      check_from excl srv (S i) s' (o_tgts ob) (ksubs_next ksubs o ob) (kbase_next base o ob) l'
  end.

Definition check_init (s : mstate) (init : list (string * tobs)) : list (nat * N) :=
  if forallb (fun kt => tobs_eqb (model_tobs (ms_cache s) (fst kt)) (snd kt)) init
  then [] else [(0%nat, 1%N)].

Definition check_init_s (srv : option string) (s : mstate) (init : list (string * tobs)) : list (nat * N) :=
  if forallb (fun kt => tobs_eqb (with_srv srv (model_tobs (ms_cache s) (fst kt))) (snd kt)) init
  then [] else [(0%nat, 1%N)].

(** [srv]: the server name the cache was built with (cache.WithServerName) *)
Definition check_case_s (srv : option string) (cs : mcase) : list (nat * N) :=
  let '(cfg, names, init, l) := cs in
  let s := minit cfg names in
  check_init_s srv s init ++ check_from (cfg_excluded cfg) srv 0 s init ([], None) (kbase_init init) l.

Definition check_case (cs : mcase) : list (nat * N) := check_case_s None cs.

(** * Atomicity of [mutate; announce] (concurrent family)

    A case: setup calls (sequential), then call X is started and PARKED at its
    announce point -- inside the first cache.Now() it makes (Remove / Reset /
    Sync / Connect stamp their announcement there, after Remove's map delete)
    or inside the first SetClient callback it makes -- while the calls Y run on
    another goroutine against the same name; X is released when Y has finished
    or is seen blocked.  Observed: the whole change feed in the order the
    callback was entered, and HasTarget / Query for every name at the end.

    tag 1 (acceptance): the final existence and non-metadata leaves of every
          name are those of the model after X;Y or after Y;X, and Y was blocked
          while X was parked exactly when the lock discipline says so.
    tag 7 (K_P): replaying the feed -- an update sets its leaf, a delete
          removes what its index path matches, a whole-target delete everything
          -- gives, per name, exactly the non-metadata leaves Query returns at
          the end (nothing for an unknown name): an announcement made outside the
          critical section of its mutation (e.g. the whole-target delete of a
          Remove overtaken by a re-Add and an update of the new incarnation)
          breaks this. *)

(** [at_now]: parked inside cache.Now (else inside the feed callback);
    [blocked]: did Y finish while X was parked ([Some false]) or was it seen
    waiting for a lock ([Some true]); [None]: not determined (slow machine) *)
Definition conccase :=
  (config * list string * list mop * mop * list mop * bool * option bool *
   list notif * list (string * tobs))%type.

(** the locks of cache.go (model of the lock discipline, tag 1): what X holds
    at its park point -- [c.mu] exclusively ([Some true]) / shared ([Some false])
    and the write lock [wmu] of a target -- and what the first blocking step of
    a call Y needs *)
Definition x_holds (x : mop) (at_now : bool) : option bool * option string :=
  match x with
  | MRemove _ _ => (Some true, None)                 (* c.mu.Lock held across delete, Now and callback *)
  | MReset _ t => (Some false, Some t)               (* c.mu.RLock + t.wmu *)
  | MUpd _ n => (None, match n_prefix n with Some pr => Some (gp_target pr) | None => None end)
  | MSync _ t | MConnect _ t | MConnectError _ t _ =>
      (* the notification is stamped (Now) before Target.GnmiUpdate takes t.wmu *)
      if at_now then (None, None) else (None, Some t)
  | _ => (None, None)
  end.

Definition y_needs (y : mop) : bool * option string :=
  match y with
  | MAdd _ | MRemove _ _ => (true, None)
  | MReset _ t | MSync _ t | MConnect _ t | MConnectError _ t _ => (false, Some t)
  | MUpd _ n => (false, match n_prefix n with Some pr => Some (gp_target pr) | None => None end)
  | _ => (false, None)
  end.

Definition blocks (h : option bool * option string) (y : mop) : bool :=
  let '(yex, yw) := y_needs y in
  (match fst h with Some true => true | Some false => yex | None => false end) ||
  (match snd h, yw with Some a, Some b => String.eqb a b | _, _ => false end).

Definition expect_blocked (x : mop) (at_now : bool) (ys : list mop) : bool :=
  existsb (blocks (x_holds x at_now)) ys.

Definition rstate := list (string * list (path * notif)).

Definition replay_entry (st : rstate) (n : notif) : rstate :=
  let t := feed_tgt n in
  let cur := match assoc t st with Some l => l | None => [] end in
  match n_upd n with
  | _ :: _ =>
      match upd_index n with
      | Some p => if is_meta_path p then st
                  else aset t ((p, n) :: filter (fun e => negb (path_eqb (fst e) p)) cur) st
      | None => st
      end
  | [] =>
      match del_index n with
      | Some q => if is_meta_path q then st
                  else aset t (filter (fun e => negb (qmatch q (fst e))) cur) st
      | None => st
      end
  end.

Definition replay (feed : list notif) : rstate := fold_left replay_entry feed [].

Definition kp_replay (feed : list notif) (final : list (string * tobs)) : bool :=
  let st := replay feed in
  forallb (fun kt =>
             let mine := match assoc (fst kt) st with Some l => l | None => [] end in
             let theirs := match to_dump (snd kt) with Some d => non_meta d | None => [] end in
             bag_eqb pn_eqb mine theirs) final.

Definition data_of (c : cache) (k : string) : bool * list (path * notif) :=
  (cache_has_target c k, match target_dump c k with Some d => non_meta d | None => [] end).

Definition final_matches (c : cache) (final : list (string * tobs)) : bool :=
  forallb (fun kt =>
             let '(h, d) := data_of c (fst kt) in
             Bool.eqb h (to_has (snd kt)) &&
             bag_eqb pn_eqb d (match to_dump (snd kt) with Some x => non_meta x | None => [] end)) final.

Definition check_conc (cs : conccase) : list (nat * N) :=
  let '(cfg, names, setup, x, ys, at_now, blocked, feed, final) := cs in
  let c0 := fold_left (fun c o => fst (fst (cstep c o))) setup (new_cache cfg names) in
  let cxy := fold_left (fun c o => fst (fst (cstep c o))) (x :: ys) c0 in
  let cyx := fold_left (fun c o => fst (fst (cstep c o))) (ys ++ [x]) c0 in
  (if (final_matches cxy final || final_matches cyx final) &&
      match blocked with Some b => Bool.eqb b (expect_blocked x at_now ys) | None => true end
   then [] else [(0%nat, 1%N)]) ++
  (if kp_replay feed final then [] else [(0%nat, 7%N)]).

Inductive c14case :=
| CSeq (c : mcase)
| CSeqS (srv : string) (c : mcase)      (* the cache was built with cache.WithServerName(srv) *)
| CConc (c : conccase).

Definition check_case14 (c : c14case) : list (nat * N) :=
  match c with
  | CSeq m => check_case m
  | CSeqS srv m => check_case_s (Some srv) m
  | CConc m => check_conc m
  end.

Fixpoint check_all_from (i : nat) (cs : list c14case) : list (nat * nat * N) :=
  match cs with
  | [] => []
  | c :: cs' => map (fun sn => (i, fst sn, snd sn)) (check_case14 c) ++ check_all_from (S i) cs'
  end.

Definition check_all (cs : list c14case) : list (nat * nat * N) := check_all_from 0 cs.

(** Proofs for C14 (Reset / Remove / isolation) over CacheModel.v + MultiCache.v.

    Part 1: a generic invariant ("every stored notification satisfies P") and
            its preservation by every entry point of the per-target model;
    Part 2: the cache invariant (distinct names, every target owns what it
            stores) for all histories;
    Part 3: isolation;
    Part 4: Remove;
    Part 5: Reset. *)
From Gnmi Require Import Base.Prelude CTree.CTreeModel CTree.CTreeProofs CTree.CTreeTheorems
  Path.PathModel Cache.CacheModel Cache.MultiCache.
Local Open Scope Z_scope.

(** robust against reshuffling of the model's case analyses *)
Ltac break_match :=
  match goal with
  | |- context [match ?x with _ => _ end] =>
      match type of x with
      | sumbool _ _ => destruct x
      | _ => destruct x eqn:?
      end
  end.

(** * Part 1: stored notifications *)

(** target named in the prefix of a notification *)
Definition ntgt (v : notif) : string := gp_target (gp_of_opt (n_prefix v)).

Definition tree_all (P : notif -> Prop) (tr : tree notif) : Prop :=
  forall p v, lookup tr p = Some v -> P v.

Definition tgood (P : notif -> Prop) (t : target) : Prop :=
  wf_tree (t_tree t) /\ tree_all P (t_tree t).

Lemma tree_all_add P (tr tr' : tree notif) p n :
  wf_tree tr -> tree_all P tr -> P n -> CTreeModel.add tr p n = Some tr' ->
  wf_tree tr' /\ tree_all P tr'.
Proof.
  intros Hwf Hall Hn Ha. destruct (add_spec tr tr' p n Hwf Ha) as [Hwf' Hl].
  split; [exact Hwf'|]. intros q v Hq. rewrite Hl in Hq.
  destruct (path_eqb q p); [inversion Hq; subst; exact Hn|eauto].
Qed.

Lemma tree_all_set P (tr : tree notif) p n :
  wf_tree tr -> tree_all P tr -> P n ->
  wf_tree (tree_set tr p n) /\ tree_all P (tree_set tr p n).
Proof.
  intros Hwf Hall Hn. unfold tree_set.
  destruct (CTreeModel.add tr p n) as [tr'|] eqn:Ha; [|auto].
  eapply tree_all_add; eauto.
Qed.

Lemma tree_all_delete P (tr : tree notif) q c :
  wf_tree tr -> tree_all P tr ->
  wf_tree (fst (delete_cond tr q c)) /\ tree_all P (fst (delete_cond tr q c)) /\
  Forall P (map snd (snd (delete_cond tr q c))).
Proof.
  intros Hwf Hall. destruct (delete_spec tr q c Hwf) as (Hwf' & Hl & Hr & _).
  split; [exact Hwf'|]. split.
  - intros s v Hs. rewrite Hl in Hs. unfold sel in Hs.
    destruct (lookup tr s) as [w|] eqn:E; [|discriminate].
    destruct (qmatch q s && c w); [discriminate|]. inversion Hs; subst. eauto.
  - apply Forall_forall. intros v Hv. apply in_map_iff in Hv. destruct Hv as ([s w] & <- & Hin).
    apply Hr in Hin. destruct Hin as (Hlk & _). cbn. eauto.
Qed.

(** ** field bookkeeping of the setters *)

Lemma add_int_tree t k i : t_tree (add_int t k i) = t_tree t. Proof. reflexivity. Qed.
Lemma add_int_name t k i : t_name (add_int t k i) = t_name t. Proof. reflexivity. Qed.
Lemma add_int_cfg t k i : t_cfg (add_int t k i) = t_cfg t. Proof. reflexivity. Qed.
Lemma lat_compute_tree t r ts : t_tree (lat_compute t r ts) = t_tree t.
Proof. unfold lat_compute. destruct (t_sync t && r); reflexivity. Qed.
Lemma lat_compute_name t r ts : t_name (lat_compute t r ts) = t_name t.
Proof. unfold lat_compute. destruct (t_sync t && r); reflexivity. Qed.
Lemma lat_compute_cfg t r ts : t_cfg (lat_compute t r ts) = t_cfg t.
Proof. unfold lat_compute. destruct (t_sync t && r); reflexivity. Qed.

Lemma tgood_add_int P t k i : tgood P t -> tgood P (add_int t k i).
Proof. exact (fun H => H). Qed.

Lemma tgood_lat P t r ts : tgood P t -> tgood P (lat_compute t r ts).
Proof. unfold tgood. now rewrite lat_compute_tree. Qed.

Lemma finish_ts_tree' n b t : t_tree (finish_ts n b t) = t_tree t.
Proof.
  unfold finish_ts. destruct (tracks_ts n && b); [|reflexivity].
  unfold check_timestamp. destruct (t_ts t) as [z|]; [destruct (Z.ltb z (n_ts n))|]; reflexivity.
Qed.
Lemma finish_ts_name n b t : t_name (finish_ts n b t) = t_name t.
Proof.
  unfold finish_ts. destruct (tracks_ts n && b); [|reflexivity].
  unfold check_timestamp. destruct (t_ts t) as [z|]; [destruct (Z.ltb z (n_ts n))|]; reflexivity.
Qed.
Lemma finish_ts_cfg' n b t : t_cfg (finish_ts n b t) = t_cfg t.
Proof.
  unfold finish_ts. destruct (tracks_ts n && b); [|reflexivity].
  unfold check_timestamp. destruct (t_ts t) as [z|]; [destruct (Z.ltb z (n_ts n))|]; reflexivity.
Qed.
Lemma tgood_finish P n b t : tgood P t -> tgood P (finish_ts n b t).
Proof. unfold tgood. now rewrite finish_ts_tree'. Qed.

(** what every step keeps: name and configuration *)
Definition same_id (t t' : target) : Prop := t_name t' = t_name t /\ t_cfg t' = t_cfg t.

Lemma same_id_refl t : same_id t t. Proof. split; reflexivity. Qed.
Lemma same_id_trans a b c : same_id a b -> same_id b c -> same_id a c.
Proof. intros [H1 H2] [H3 H4]. split; congruence. Qed.

(** ** gnmiUpdate *)

Lemma meta_side_effect_keeps t k two u t1 r :
  meta_side_effect t k two u = (t1, r) -> t_tree t1 = t_tree t /\ same_id t t1.
Proof.
  unfold meta_side_effect. repeat break_match; intros H; inversion H; subst;
    (split; [reflexivity|split; reflexivity]).
Qed.

Lemma update_pre_keeps t p u t1 r :
  update_pre t p u = (t1, r) -> t_tree t1 = t_tree t /\ same_id t t1.
Proof.
  unfold update_pre. repeat break_match; intros H;
    try (inversion H; subst; split; [reflexivity|apply same_id_refl]);
    eapply meta_side_effect_keeps; eauto.
Qed.

Ltac sid :=
  first [ apply same_id_refl
        | split; rewrite ?lat_compute_name, ?lat_compute_cfg; reflexivity ].

Lemma update_leaf_good P t1 now p u n t2 r :
  tgood P t1 -> P n -> update_leaf t1 now p u n = (t2, r) ->
  tgood P t2 /\ same_id t1 t2 /\ (forall nd, r = Ok (Some nd) -> nd = n).
Proof.
  intros [Hwf Hall] Hn. unfold update_leaf.
  repeat break_match; intros H; inversion H; subst;
    (split; [|split; [sid|first [discriminate|intros nd E; inversion E; reflexivity]]]);
    unfold tgood; rewrite ?lat_compute_tree; cbn [t_tree set_tree add_int set_meta];
    first [ split; assumption
          | apply tree_all_set; assumption
          | eapply tree_all_add; eauto ].
Qed.

Lemma gnmi_update1_good P t now n t' r :
  tgood P t -> P n -> gnmi_update1 t now n = (t', r) ->
  tgood P t' /\ same_id t t' /\ (forall nd, r = Ok (Some nd) -> nd = n).
Proof.
  intros G Hn. unfold gnmi_update1.
  destruct (n_upd n) as [|u ?].
  { intros H; inversion H; subst. split; [exact G|]. split; [apply same_id_refl|discriminate]. }
  destruct (unit_index n) as [p|e|w].
  2:{ intros H; inversion H; subst. split; [exact G|]. split; [apply same_id_refl|discriminate]. }
  2:{ intros H; inversion H; subst. split; [exact G|]. split; [apply same_id_refl|discriminate]. }
  destruct (update_pre t p u) as [t1 r1] eqn:Hp.
  destruct (update_pre_keeps _ _ _ _ _ Hp) as [Htr Hid].
  assert (G1 : tgood P t1) by (unfold tgood; rewrite Htr; exact G).
  destruct r1 as [[]|e|w].
  - intros H. destruct (update_leaf_good P _ _ _ _ _ _ _ G1 Hn H) as (G2 & Hid2 & Hnd).
    split; [exact G2|]. split; [eapply same_id_trans; eauto|exact Hnd].
  - intros H; inversion H; subst. split; [exact G1|]. split; [exact Hid|discriminate].
  - intros H; inversion H; subst. split; [exact G1|]. split; [exact Hid|discriminate].
Qed.

(** ** gnmiRemove *)

Lemma gnmi_remove_good P t n t' r :
  tgood P t -> gnmi_remove t n = (t', r) ->
  tgood P t' /\ same_id t t' /\ (forall l, r = Ok l -> Forall P l).
Proof.
  intros G. unfold gnmi_remove.
  destruct (n_del n) as [|d ?].
  { intros H; inversion H; subst. split; [exact G|]. split; [apply same_id_refl|discriminate]. }
  destruct (join_path (n_prefix n) (Some d)) as [p|e|w].
  2,3: intros H; inversion H; subst; (split; [exact G|]); (split; [apply same_id_refl|discriminate]).
  cbv zeta.
  match goal with |- context [t_tree ?x] => set (t1 := x) end.
  assert (Hpre : tgood P t1 /\ same_id t t1).
  { subst t1. repeat break_match; split; try exact G; sid. }
  clearbody t1. destruct Hpre as [[Hwf1 Hall1] Hid1].
  destruct (tree_all_delete P (t_tree t1) p (fun v => Z.ltb (n_ts v) (n_ts n)) Hwf1 Hall1)
    as (Hwf2 & Hall2 & Hrem).
  destruct (map snd (snd (delete_cond (t_tree t1) p (fun v => Z.ltb (n_ts v) (n_ts n))))) as [|x lrem] eqn:E.
  - intros H; inversion H; subst. split; [split; assumption|]. split; [exact Hid1|].
    intros l1 E'; inversion E'; constructor.
  - intros H; inversion H; subst. split; [split; assumption|]. split; [exact Hid1|].
    intros l' E'; inversion E'; subst. exact Hrem.
Qed.

(** ** Target.GnmiUpdate *)

Definition group_ok (P : notif -> Prop) (g : fgroup) : Prop :=
  match g with
  | FUpd nd => P nd
  | FDel removed _ => Forall P removed
  end.

Definition acc_ok (P : notif -> Prop) (t : target) (a : acc) : Prop :=
  tgood P (a_t a) /\ same_id t (a_t a) /\ Forall (group_ok P) (a_feed a).

Lemma Forall_snoc {A} (Q : A -> Prop) l x : Forall Q l -> Q x -> Forall Q (l ++ [x]).
Proof. intros H1 H2. apply Forall_app. split; [exact H1|constructor; [exact H2|constructor]]. Qed.

Lemma multi_update_step_ok (P : notif -> Prop) t now n a u :
  (forall m, n_prefix m = n_prefix n -> P m) ->
  acc_ok P t a -> acc_ok P t (multi_update_step now n a u).
Proof.
  intros HP (G & Hid & Hf). unfold multi_update_step.
  destruct (a_panic a); [split; [exact G|split; assumption]|].
  destruct (gnmi_update1 (a_t a) now (clone_with_update n u)) as [t' r] eqn:E.
  assert (Hc : P (clone_with_update n u)) by (apply HP; reflexivity).
  destruct (gnmi_update1_good P _ _ _ _ _ G Hc E) as (G' & Hid' & Hnd).
  assert (Hid2 : same_id t t') by (eapply same_id_trans; eauto).
  destruct r as [[nd|]|e|w]; unfold acc_ok; cbn [a_t a_feed].
  - split; [exact G'|]. split; [exact Hid2|]. apply Forall_snoc; [exact Hf|].
    cbn. rewrite (Hnd nd eq_refl). exact Hc.
  - auto.
  - auto.
  - auto.
Qed.

Lemma multi_delete_step_ok (P : notif -> Prop) t n a d :
  acc_ok P t a -> acc_ok P t (multi_delete_step n a d).
Proof.
  intros (G & Hid & Hf). unfold multi_delete_step.
  destruct (a_panic a); [split; [exact G|split; assumption]|]. cbv zeta.
  destruct (gnmi_remove (add_int (a_t a) md_update_count 1) (clone_with_delete n d)) as [t' r] eqn:E.
  destruct (gnmi_remove_good P _ _ _ _ (tgood_add_int P _ _ _ G) E) as (G' & Hid' & Hl).
  assert (Hid2 : same_id t t') by (eapply same_id_trans; [exact Hid|exact Hid']).
  destruct r as [removed|e|w]; unfold acc_ok; cbn [a_t a_feed]; auto.
  split; [exact G'|]. split; [exact Hid2|]. apply Forall_snoc; [exact Hf|]. cbn. auto.
Qed.

Lemma fold_acc_ok {A} (P : notif -> Prop) t (f : acc -> A -> acc) (l : list A) :
  (forall a x, acc_ok P t a -> acc_ok P t (f a x)) ->
  forall a, acc_ok P t a -> acc_ok P t (fold_left f l a).
Proof. intros Hf. induction l as [|x l IH]; cbn; auto. Qed.

Lemma same_id_finish n b t t' : same_id t t' -> same_id t (finish_ts n b t').
Proof. intros [H1 H2]. split; [rewrite finish_ts_name|rewrite finish_ts_cfg']; assumption. Qed.

Lemma one_upd (P : notif -> Prop) t now n t1 r1 b :
  tgood P t -> P n -> gnmi_update1 t now n = (t1, r1) ->
  tgood P (finish_ts n b t1) /\ same_id t (finish_ts n b t1).
Proof.
  intros G Hn E. destruct (gnmi_update1_good P _ _ _ _ _ G Hn E) as (G1 & Hid & _).
  split; [now apply tgood_finish|now apply same_id_finish].
Qed.

Lemma one_upd' (P : notif -> Prop) t now n t1 r1 b k i :
  tgood P t -> P n -> gnmi_update1 t now n = (t1, r1) ->
  tgood P (finish_ts n b (add_int t1 k i)) /\ same_id t (finish_ts n b (add_int t1 k i)).
Proof.
  intros G Hn E. destruct (gnmi_update1_good P _ _ _ _ _ G Hn E) as (G1 & Hid & _).
  split; [apply tgood_finish; exact G1|apply same_id_finish; exact Hid].
Qed.

Lemma one_nd (P : notif -> Prop) t now n t1 nd :
  tgood P t -> P n -> gnmi_update1 t now n = (t1, Ok (Some nd)) -> P nd.
Proof.
  intros G Hn E. destruct (gnmi_update1_good P _ _ _ _ _ G Hn E) as (_ & _ & H).
  rewrite (H nd eq_refl). exact Hn.
Qed.

Lemma target_gnmi_update_good (P : notif -> Prop) t now n t' fd r :
  tgood P t -> (forall m, n_prefix m = n_prefix n -> P m) ->
  target_gnmi_update t now n = (t', fd, r) ->
  tgood P t' /\ same_id t t' /\ Forall (group_ok P) fd.
Proof.
  intros G HP. assert (Hn : P n) by (apply HP; reflexivity).
  pose proof (tgood_add_int P t md_update_count 1 G) as Ga.
  unfold target_gnmi_update.
  repeat break_match; intros H; inversion H; subst;
    try (split; [exact G|split; [apply same_id_refl|constructor]]);
    try (split; [apply tgood_add_int; exact G|split; [sid|constructor]]);
    try match goal with
      | E : gnmi_update1 t now n = (_, Ok (Some _)) |- _ =>
          split; [exact (proj1 (one_upd' P _ _ _ _ _ _ _ _ G Hn E))
                 |split; [exact (proj2 (one_upd' P _ _ _ _ _ _ _ _ G Hn E))|]];
          constructor; [cbn; exact (one_nd P _ _ _ _ _ G Hn E)|constructor]
      | E : gnmi_update1 t now n = _ |- _ =>
          split; [exact (proj1 (one_upd P _ _ _ _ _ _ G Hn E))
                 |split; [exact (proj2 (one_upd P _ _ _ _ _ _ G Hn E))|constructor]]
      | E : gnmi_remove _ n = (_, Ok _) |- _ =>
          destruct (gnmi_remove_good P _ _ _ _ Ga E) as (? & ? & Hl);
          split; [assumption|split; [assumption|constructor; [cbn; apply Hl; reflexivity|constructor]]]
      | E : gnmi_remove _ n = _ |- _ =>
          destruct (gnmi_remove_good P _ _ _ _ Ga E) as (? & ? & Hl);
          split; [assumption|split; [assumption|constructor]]
      end;
    try match goal with
      | |- context [a_feed ?a2] =>
          let Hacc := fresh "Hacc" in
          assert (Hacc : acc_ok P t a2) by
            (repeat first
               [ apply fold_acc_ok;
                   [intros; first [now apply multi_delete_step_ok | now apply multi_update_step_ok]|]
               | apply multi_delete_step_ok
               | apply multi_update_step_ok; [exact HP|]
               | (split; [exact G|split; [apply same_id_refl|constructor]]) ]);
          destruct Hacc as (G2 & Hid2 & Hf2);
          split; [apply tgood_finish; exact G2|split; [apply same_id_finish; exact Hid2|exact Hf2]]
      end.
Qed.

(** ** updateMeta / generateMetaUpdates / Reset *)

Definition gstate := (target * list notif * option N)%type.

Definition gst_ok (Q : target -> Prop) (P : notif -> Prop) (st : gstate) : Prop :=
  Q (fst (fst st)) /\ Forall P (snd (fst st)).

(** one iteration keeps an invariant [Q] of the target and [P] of the feed if
    the one call of gnmiUpdate it may make does *)
Lemma gen_meta_one_inv (Q : target -> Prop) (P : notif -> Prop) now k v same st :
  (forall val t' r,
      let t := fst (fst st) in
      Q t -> v = Some val -> meta_differs t k same = Ok true ->
      gnmi_update1 t now (meta_noti (t_name t) now k val) = (t', r) ->
      Q t' /\ (forall nd, r = Ok (Some nd) -> P nd)) ->
  gst_ok Q P st -> gst_ok Q P (gen_meta_one now k v same st).
Proof.
  intros Hstep [HQ HP]. destruct st as [[t feed] po]. cbn [fst snd] in *.
  unfold gen_meta_one. destruct po; [split; assumption|].
  destruct (name_in k (cfg_excluded (t_cfg t))); [split; assumption|].
  destruct v as [val|]; [|split; assumption].
  destruct (meta_differs t k same) as [[|]|e|w] eqn:Hd; try (split; assumption).
  destruct (gnmi_update1 t now (meta_noti (t_name t) now k val)) as [t' r] eqn:E.
  destruct (Hstep val t' r HQ eq_refl ltac:(first [exact Hd|reflexivity]) E) as [HQ' Hnd].
  destruct r as [[nd|]|e|w]; unfold gst_ok; cbn [fst snd]; auto.
  split; [exact HQ'|]. apply Forall_snoc; auto.
Qed.

Lemma fold_gst_ok {A} (Q : target -> Prop) (P : notif -> Prop) (f : gstate -> A -> gstate) (l : list A) :
  (forall st x, In x l -> gst_ok Q P st -> gst_ok Q P (f st x)) ->
  forall st, gst_ok Q P st -> gst_ok Q P (fold_left f l st).
Proof.
  induction l as [|x l IH]; cbn; intros Hf st Hst; [exact Hst|].
  apply IH; [intros; apply Hf; auto|apply Hf; auto].
Qed.

(** the invariant used for isolation: the target is good for "carries my
    name" and keeps its name *)
Definition owns (name : string) (v : notif) : Prop := ntgt v = name.

Definition tinv (name : string) (t : target) : Prop :=
  tgood (owns name) t /\ t_name t = name.

Lemma owns_meta_noti name now k v : owns name (meta_noti name now k v).
Proof. reflexivity. Qed.

Lemma owns_delete_noti name o now p : owns name (delete_noti name o now p).
Proof. reflexivity. Qed.

Lemma tinv_step name t now n t' r :
  tinv name t -> owns name n -> gnmi_update1 t now n = (t', r) ->
  tinv name t' /\ (forall nd, r = Ok (Some nd) -> owns name nd).
Proof.
  intros [G Hnm] Hn E. destruct (gnmi_update1_good _ _ _ _ _ _ G Hn E) as (G' & [Hid _] & Hnd).
  split; [split; [exact G'|congruence]|]. intros nd Er. rewrite (Hnd nd Er). exact Hn.
Qed.

Lemma generate_meta_updates_inv name t now :
  tinv name t ->
  gst_ok (tinv name) (owns name) (generate_meta_updates t now).
Proof.
  intros Hinv. unfold generate_meta_updates. cbv zeta.
  assert (Hone : forall k v same st, gst_ok (tinv name) (owns name) st ->
                   gst_ok (tinv name) (owns name) (gen_meta_one now k v same st)).
  { intros k v same st Hst. apply gen_meta_one_inv; [|exact Hst].
    intros val t' r t0 Hq _ _ E. eapply tinv_step; eauto.
    destruct Hq as [_ Hnm]. rewrite Hnm. apply owns_meta_noti. }
  repeat (apply fold_gst_ok; [intros; apply Hone; assumption|]).
  split; [exact Hinv|constructor].
Qed.

Lemma update_meta_inv name t now :
  tinv name t -> gst_ok (tinv name) (owns name) (update_meta t now).
Proof. intros H. unfold update_meta. apply generate_meta_updates_inv. exact H. Qed.

Lemma fold_delete_roots (P : notif -> Prop) roots : forall tr,
  wf_tree tr -> tree_all P tr ->
  wf_tree (fold_left (fun tr r => fst (CTreeModel.delete tr [r])) roots tr) /\
  tree_all P (fold_left (fun tr r => fst (CTreeModel.delete tr [r])) roots tr).
Proof.
  induction roots as [|r roots IH]; cbn; intros tr Hwf Hall; [auto|].
  destruct (tree_all_delete P tr [r] (fun _ => true) Hwf Hall) as (Hwf' & Hall' & _).
  apply IH; assumption.
Qed.

Lemma target_reset_inv name t now :
  tinv name t -> gst_ok (tinv name) (owns name) (target_reset t now).
Proof.
  intros Hinv. unfold target_reset. cbv zeta.
  set (t1 := set_meta (set_ts t None) (md_clear (t_meta t))).
  assert (H1 : tinv name t1) by exact Hinv.
  pose proof (update_meta_inv name t1 now H1) as Hu.
  destruct (update_meta t1 now) as [[t2 feed] po]. destruct Hu as [[[Hwf Hall] Hnm] Hf].
  cbn [fst snd] in *. destruct po; [split; [split; [split|]|]; assumption|].
  unfold gst_ok; cbn [fst snd]. split.
  - split; [|exact Hnm]. unfold tgood. cbn [t_tree set_tree]. now apply fold_delete_roots.
  - apply Forall_app. split; [exact Hf|]. apply Forall_forall. intros x Hx.
    apply in_map_iff in Hx. destruct Hx as (r & <- & _). rewrite Hnm. apply owns_delete_noti.
Qed.

(** * Part 2: the cache invariant *)

Definition cinv (c : cache) : Prop :=
  NoDup (keys (c_targets c)) /\
  forall name t, assoc name (c_targets c) = Some t -> tinv name t.

Lemma cinv_set_target c name t : cinv c -> tinv name t -> cinv (set_target c name t).
Proof.
  intros [Hnd Hall] Ht. split; cbn [c_targets set_target].
  - now apply NoDup_keys_aset.
  - intros k x. rewrite assoc_aset. destruct (String.eqb_spec k name) as [->|Hne].
    + intros E; inversion E; subst; exact Ht.
    + apply Hall.
Qed.

Lemma set_target_other c name t k :
  k <> name -> assoc k (c_targets (set_target c name t)) = assoc k (c_targets c).
Proof.
  intros Hne. cbn [c_targets set_target]. rewrite assoc_aset.
  destruct (String.eqb_spec k name); [contradiction|reflexivity].
Qed.

Lemma tinv_new name cfg : tinv name (new_target name cfg).
Proof.
  split; [|reflexivity]. split; [exact I|]. intros p v H. discriminate.
Qed.

Lemma cinv_add c name : cinv c -> cinv (cache_add c name).
Proof. intros H. apply (cinv_set_target c name _ H). apply tinv_new. Qed.

Lemma cinv_new cfg names : cinv (new_cache cfg names).
Proof.
  unfold new_cache.
  assert (H : forall l, cinv (Cache cfg l) ->
            cinv (Cache cfg (fold_left (fun m k => aset k (new_target k cfg) m) names l))).
  { induction names as [|k names IH]; cbn; intros l Hl; [exact Hl|].
    apply IH. exact (cinv_set_target (Cache cfg l) k _ Hl (tinv_new k cfg)). }
  apply H. split; [constructor|]. intros name t E. discriminate.
Qed.

Lemma cinv_remove c now name : cinv c -> cinv (fst (cache_remove c now name)).
Proof.
  intros [Hnd Hall]. split; cbn [fst cache_remove c_targets].
  - now apply NoDup_keys_adel.
  - intros k x. rewrite assoc_adel by exact Hnd. destruct (String.eqb k name); [discriminate|apply Hall].
Qed.

Lemma assoc_map_snd {A B} (f : string * A -> B) k l :
  assoc k (map (fun kt => (fst kt, f kt)) l) =
  match assoc k l with Some a => Some (f (k, a)) | None => None end.
Proof.
  induction l as [|[k0 a0] l IH]; cbn; [reflexivity|].
  destruct (String.eqb_spec k k0) as [->|Hne]; [reflexivity|exact IH].
Qed.

Lemma keys_map_snd {A B} (f : string * A -> B) (l : list (string * A)) :
  keys (map (fun kt => (fst kt, f kt)) l) = keys l.
Proof. induction l as [|[k0 a0] l IH]; cbn; [reflexivity|now rewrite IH]. Qed.

Lemma cinv_update_size c sizes : cinv c -> cinv (cache_update_size c sizes).
Proof.
  intros [Hnd Hall]. unfold cache_update_size. split; cbn [c_targets].
  - rewrite (keys_map_snd (fun kt => target_update_size (snd kt)
              (match assoc (fst kt) sizes with Some z => z | None => 0 end))). exact Hnd.
  - intros k x.
    rewrite (assoc_map_snd (fun kt => target_update_size (snd kt)
              (match assoc (fst kt) sizes with Some z => z | None => 0 end))).
    destruct (assoc k (c_targets c)) as [t|] eqn:E; [|discriminate].
    intros E'; inversion E'; subst. exact (Hall k t E).
Qed.

(** rendering of delete groups keeps the owner *)
Lemma render_deletes_owns name removed ts :
  Forall (owns name) removed -> Forall (owns name) (render_deletes removed ts).
Proof.
  induction removed as [|d rest IH]; cbn [render_deletes]; intros H; [constructor|].
  inversion H as [|? ? Hd Hrest]; subst. constructor; [|auto].
  assert (Hmk : forall p, owns name (mk_delete d ts p)).
  { intros p. unfold owns, ntgt, mk_delete. cbn. exact Hd. }
  destruct (if defect_c03_1_alias then alias_write d else None) as [[id sfx]|]; apply Hmk.
Qed.

Lemma render_feed_owns name gs :
  Forall (group_ok (owns name)) gs -> Forall (owns name) (render_feed gs).
Proof.
  unfold render_feed. induction gs as [|g gs IH]; cbn; intros H; [constructor|].
  inversion H as [|? ? Hg Hgs]; subst. apply Forall_app. split; [|auto].
  destruct g as [nd|removed ts]; cbn in *; [constructor; [exact Hg|constructor]|].
  now apply render_deletes_owns.
Qed.

(** ** one target-level call inside the cache *)

Lemma on_target_inv name t now n t' fd r :
  tinv name t -> ntgt n = name ->
  target_gnmi_update t now n = (t', fd, r) ->
  tinv name t' /\ Forall (group_ok (owns name)) fd.
Proof.
  intros [G Hnm] Hn E.
  destruct (target_gnmi_update_good (owns name) t now n t' fd r G) as (G' & [Hid _] & Hf); auto.
  - intros m Hm. unfold owns, ntgt. rewrite Hm. exact Hn.
  - split; [split; [exact G'|congruence]|exact Hf].
Qed.

(** what a call addressed to [t] does to the cache: nothing outside [t], the
    invariant is kept, and the announcements carry [t] *)
Definition local_step (t : string) (c c' : cache) (feed : list notif) : Prop :=
  (forall k, k <> t -> assoc k (c_targets c') = assoc k (c_targets c)) /\
  (cinv c -> cinv c' /\ Forall (owns t) feed).

Lemma local_refl t c : local_step t c c [].
Proof. split; [reflexivity|intros H; split; [exact H|constructor]]. Qed.

Lemma cache_gnmi_update_local c now n pr c' gs r :
  n_prefix n = Some pr -> cache_gnmi_update c now n = (c', gs, r) ->
  local_step (gp_target pr) c c' (render_feed gs).
Proof.
  intros Hpr. unfold cache_gnmi_update. rewrite Hpr.
  destruct (assoc (gp_target pr) (c_targets c)) as [t|] eqn:Ea.
  2:{ intros H; inversion H; subst. apply local_refl. }
  destruct (target_gnmi_update t now n) as [[t' fd] r'] eqn:E.
  intros H; inversion H; subst. split.
  - intros k Hk. now apply set_target_other.
  - intros Hc. destruct Hc as [Hnd Hall].
    destruct (on_target_inv (gp_target pr) t now n t' gs r (Hall _ _ Ea)) as [Hi Hf]; auto.
    { unfold ntgt. rewrite Hpr. reflexivity. }
    split; [apply cinv_set_target; [split; assumption|exact Hi]|now apply render_feed_owns].
Qed.

Lemma cache_on_target_local c name f c' gs r :
  (forall t t' fd r', tinv name t -> f t = (t', fd, r') ->
                      tinv name t' /\ Forall (group_ok (owns name)) fd) ->
  cache_on_target c name f = (c', gs, r) ->
  local_step name c c' (render_feed gs).
Proof.
  intros Hf. unfold cache_on_target.
  destruct (assoc name (c_targets c)) as [t|] eqn:Ea.
  2:{ intros H; inversion H; subst. apply local_refl. }
  destruct (f t) as [[t' fd] r'] eqn:E.
  intros H; inversion H; subst. split.
  - intros k Hk. now apply set_target_other.
  - intros [Hnd Hall]. destruct (Hf t t' gs r (Hall _ _ Ea) E) as [Hi Hg].
    split; [apply cinv_set_target; [split; assumption|exact Hi]|now apply render_feed_owns].
Qed.

Lemma cache_reset_local c now name c' l p :
  cache_reset c now name = (c', l, p) -> local_step name c c' l.
Proof.
  unfold cache_reset. destruct (assoc name (c_targets c)) as [t|] eqn:Ea.
  2:{ intros H; inversion H; subst. apply local_refl. }
  destruct (target_reset t now) as [[t' feed] p'] eqn:E.
  intros H; inversion H; subst. split.
  - intros k Hk. now apply set_target_other.
  - intros [Hnd Hall]. pose proof (target_reset_inv name t now (Hall _ _ Ea)) as Hr.
    rewrite E in Hr. destruct Hr as [Hi Hf]. cbn [fst snd] in *.
    split; [apply cinv_set_target; [split; assumption|exact Hi]|exact Hf].
Qed.

Lemma cache_remove_local c now name :
  NoDup (keys (c_targets c)) ->
  local_step name c (fst (cache_remove c now name)) (snd (cache_remove c now name)).
Proof.
  intros Hnd. split.
  - intros k Hk. cbn [fst cache_remove c_targets]. rewrite assoc_adel by exact Hnd.
    destruct (String.eqb_spec k name); [contradiction|reflexivity].
  - intros Hc. split; [now apply cinv_remove|]. cbn [snd cache_remove].
    constructor; [apply owns_delete_noti|constructor].
Qed.

(** the step of every operation addressed to one target is local *)
Theorem cstep_local c o t c' r f :
  NoDup (keys (c_targets c)) ->
  op_addr o = AOne t -> cstep c o = (c', r, f) -> local_step t c c' (mfeed_list f).
Proof.
  intros Hnd Ha. destruct o; cbn [op_addr] in Ha; try discriminate; cbn [cstep].
  - (* MUpd *)
    destruct (n_prefix n) as [pr|] eqn:Hpr; [|discriminate]. inversion Ha; subst.
    destruct (cache_gnmi_update c now n) as [[c1 gs] r1] eqn:E.
    intros H; inversion H; subst. cbn [mfeed_list]. eapply cache_gnmi_update_local; eauto.
  - (* MReset *)
    inversion Ha; subst. destruct (cache_reset c now t) as [[c1 l] p] eqn:E.
    intros H; inversion H; subst. cbn [mfeed_list]. eapply cache_reset_local; eauto.
  - (* MRemove *)
    inversion Ha; subst. pose proof (cache_remove_local c now t Hnd) as Hl.
    destruct (cache_remove c now t) as [c1 l]. intros H; inversion H; subst. exact Hl.
  - (* MAdd *)
    inversion Ha; subst. intros H; inversion H; subst. cbn [mfeed_list]. split.
    + intros k Hk. now apply set_target_other.
    + intros Hc. split; [now apply cinv_add|constructor].
  - (* MSync *)
    inversion Ha; subst. destruct (cache_sync c now t) as [[c1 gs] r1] eqn:E.
    intros H; inversion H; subst. cbn [mfeed_list]. unfold cache_sync in E.
    eapply cache_on_target_local; [|exact E].
    intros t0 t' fd r' Hi Ef. cbv beta in Ef. eapply on_target_inv; [exact Hi| |exact Ef]. reflexivity.
  - (* MConnect *)
    inversion Ha; subst. destruct (cache_connect c now t) as [[c1 gs] r1] eqn:E.
    intros H; inversion H; subst. cbn [mfeed_list]. unfold cache_connect in E.
    eapply cache_on_target_local; [|exact E].
    intros t0 t' fd r' Hi. cbv beta.
    destruct (target_gnmi_update t0 now (meta_noti t now md_connected (TBool true))) as [[t1 f1] r1'] eqn:E1.
    destruct (on_target_inv t t0 now (meta_noti t now md_connected (TBool true)) t1 f1 r1' Hi eq_refl E1) as [Hi1 Hf1].
    destruct (target_gnmi_update t1 now (delete_noti t "" now [md_root; md_connect_error])) as [[t2 f2] r2] eqn:E2.
    destruct (on_target_inv t t1 now (delete_noti t "" now [md_root; md_connect_error]) t2 f2 r2 Hi1 eq_refl E2) as [Hi2 Hf2].
    destruct r1'; intros Ef; inversion Ef; subst; try (split; [assumption|apply Forall_app; split; assumption]).
    split; assumption.
  - (* MConnectError *)
    inversion Ha; subst. destruct (cache_connect_error c now t msg) as [[c1 gs] r1] eqn:E.
    intros H; inversion H; subst. cbn [mfeed_list]. unfold cache_connect_error in E.
    eapply cache_on_target_local; [|exact E].
    intros t0 t' fd r' Hi Ef. cbv beta in Ef. eapply on_target_inv; [exact Hi| |exact Ef]. reflexivity.
  - (* MSubWalk with a Remove at the hook point *)
    destruct rm as [x|]; [|discriminate]. inversion Ha; subst.
    destruct (cache_has_target c tgt).
    + pose proof (cache_remove_local c now t Hnd) as Hl.
      destruct (cache_remove c now t) as [c1 l]. intros H; inversion H; subst. exact Hl.
    + intros H; inversion H; subst. apply local_refl.
Qed.

(** ** every step keeps the invariant *)

Lemma cache_update_metadata_cinv c now :
  cinv c -> cinv (fst (fst (cache_update_metadata c now))).
Proof.
  unfold cache_update_metadata. generalize (c_targets c). intros l.
  assert (H : forall st : cache * list notif * option N,
            cinv (fst (fst st)) ->
            cinv (fst (fst (fold_left (fun st kt =>
              match st with
              | (c', feed, Some w) => st
              | (c', feed, None) =>
                  match assoc (fst kt) (c_targets c') with
                  | None => st
                  | Some t => let '(t', f, p) := update_meta t now in
                              (set_target c' (fst kt) t', feed ++ f, p)
                  end
              end) l st)))).
  { induction l as [|kt l IH]; cbn [fold_left]; intros st Hst; [exact Hst|].
    apply IH. destruct st as [[c' feed] [w|]]; [exact Hst|]. cbn [fst] in Hst.
    destruct (assoc (fst kt) (c_targets c')) as [t|] eqn:Ea; [|exact Hst].
    pose proof (update_meta_inv (fst kt) t now (proj2 Hst _ _ Ea)) as Hu.
    destruct (update_meta t now) as [[t' f] p]. destruct Hu as [Hi _]. cbn [fst] in *.
    now apply cinv_set_target. }
  intros Hc. apply H. exact Hc.
Qed.

Theorem cstep_cinv c o : cinv c -> cinv (fst (fst (cstep c o))).
Proof.
  intros Hc. destruct (op_addr o) as [t| |] eqn:Ha.
  - destruct (cstep c o) as [[c' r] f] eqn:E.
    destruct (cstep_local c o t c' r f (proj1 Hc) Ha E) as [_ H]. exact (proj1 (H Hc)).
  - destruct o; cbn [op_addr] in Ha; try discriminate; cbn [cstep]; try exact Hc.
    + destruct (n_prefix n); discriminate.
    + pose proof (cache_update_metadata_cinv c now Hc) as H.
      destruct (cache_update_metadata c now) as [[c1 l] p]. exact H.
    + cbn [fst]. now apply cinv_update_size.
    + destruct rm; discriminate.
  - destruct o; cbn [op_addr] in Ha; try discriminate; cbn [cstep]; try exact Hc.
    + destruct (n_prefix n) as [pr|] eqn:Hp; [discriminate|].
      unfold cache_gnmi_update. rewrite Hp. exact Hc.
    + destruct rm; [discriminate|]. destruct (cache_has_target c tgt); exact Hc.
Qed.

Lemma mstep_cache s o :
  ms_cache (fst (fst (fst (mstep s o)))) = fst (fst (cstep (ms_cache s) o)).
Proof.
  unfold mstep, mstep_gen. destruct (cstep (ms_cache s) o) as [[c' r] f]. cbn [fst].
  destruct o;
    repeat match goal with
           | |- context [let '(_, _) := ?x in _] => destruct x
           | |- context [match ms_gate s with _ => _ end] => destruct (ms_gate s) as [[? ?]|]
           end; reflexivity.
Qed.

Theorem mrun_cinv ops : forall s, cinv (ms_cache s) -> cinv (ms_cache (mrun s ops)).
Proof.
  unfold mrun. induction ops as [|o ops IH]; cbn [fold_left]; intros s Hs; [exact Hs|].
  apply IH. rewrite mstep_cache. now apply cstep_cinv.
Qed.

(** the invariant holds in every reachable state *)
Theorem reachable_cinv cfg names ops : cinv (ms_cache (mrun (minit cfg names) ops)).
Proof. apply mrun_cinv. apply cinv_new. Qed.

(** * Part 3: isolation *)

Lemma model_tobs_ext c c' k :
  assoc k (c_targets c') = assoc k (c_targets c) -> model_tobs c' k = model_tobs c k.
Proof.
  intros H. unfold model_tobs, cache_has_target, target_dump, target_meta. now rewrite H.
Qed.

(** one call addressed to [t]: every other name keeps its whole target record
    (tree, metadata, latest timestamp, sync flag), hence HasTarget, Query and
    Metadata answer the same for it, and every announced entry carries [t] *)
Theorem isolation_step c o t t' c' r f :
  cinv c -> op_addr o = AOne t -> t' <> t -> cstep c o = (c', r, f) ->
  assoc t' (c_targets c') = assoc t' (c_targets c) /\
  model_tobs c' t' = model_tobs c t' /\
  Forall (fun n => ntgt n = t) (mfeed_list f).
Proof.
  intros Hc Ha Hne E. destruct (cstep_local c o t c' r f (proj1 Hc) Ha E) as [Hfr Hinv].
  split; [now apply Hfr|]. split; [apply model_tobs_ext; now apply Hfr|exact (proj2 (Hinv Hc))].
Qed.

(** a call addressed to nobody (no prefix, or attaching a subscriber) changes
    nothing and announces nothing *)
Theorem isolation_none c o c' r f :
  op_addr o = ANone -> cstep c o = (c', r, f) -> c' = c /\ mfeed_list f = [].
Proof.
  intros Ha. destruct o; cbn [op_addr] in Ha; try discriminate; cbn [cstep].
  - destruct (n_prefix n) as [pr|] eqn:Hp; [discriminate|].
    unfold cache_gnmi_update. rewrite Hp. intros H; inversion H; subst. split; reflexivity.
  - intros H; inversion H; subst. split; reflexivity.
  - intros H; inversion H; subst. split; reflexivity.
  - intros H; inversion H; subst. split; reflexivity.
  - intros H; inversion H; subst. split; reflexivity.
  - intros H; inversion H; subst. split; reflexivity.
  - destruct rm; [discriminate|]. destruct (cache_has_target c tgt); intros H; inversion H; subst; split; reflexivity.
Qed.

(** all announcements of a run *)
Fixpoint run_feed (c : cache) (ops : list mop) : list notif :=
  match ops with
  | [] => []
  | o :: ops' => mfeed_list (snd (cstep c o)) ++ run_feed (fst (fst (cstep c o))) ops'
  end.

Definition crun (c : cache) (ops : list mop) : cache :=
  fold_left (fun c o => fst (fst (cstep c o))) ops c.

Lemma mrun_crun ops : forall s, ms_cache (mrun s ops) = crun (ms_cache s) ops.
Proof.
  unfold mrun, crun. induction ops as [|o ops IH]; cbn [fold_left]; intros s; [reflexivity|].
  rewrite IH. now rewrite mstep_cache.
Qed.

(** [o] is not addressed to [t'] (and not to every target) *)
Definition spares (t' : string) (o : mop) : Prop :=
  match op_addr o with
  | AOne t => t <> t'
  | ANone => True
  | AAll => False
  end.

(** for every history whose calls are addressed to other targets: [t'] is
    untouched and nothing announced carries it *)
Theorem isolation_history t' ops : forall c,
  cinv c -> Forall (spares t') ops ->
  assoc t' (c_targets (crun c ops)) = assoc t' (c_targets c) /\
  model_tobs (crun c ops) t' = model_tobs c t' /\
  Forall (fun n => ntgt n <> t') (run_feed c ops).
Proof.
  induction ops as [|o ops IH]; intros c Hc Hall.
  - cbn. split; [reflexivity|]. split; [reflexivity|constructor].
  - inversion Hall as [|? ? Ho Hrest]; subst.
    destruct (cstep c o) as [[c1 r] f] eqn:E.
    assert (H1 : assoc t' (c_targets c1) = assoc t' (c_targets c) /\
                 Forall (fun n => ntgt n <> t') (mfeed_list f)).
    { unfold spares in Ho. destruct (op_addr o) as [t| |] eqn:Ha; [| contradiction |].
      - destruct (isolation_step c o t t' c1 r f Hc Ha (fun e => Ho (eq_sym e)) E) as (H1 & _ & H3).
        split; [exact H1|]. eapply Forall_impl; [|exact H3]. cbn. intros n Hn. congruence.
      - destruct (isolation_none c o c1 r f Ha E) as [-> Hf]. rewrite Hf. split; [reflexivity|constructor]. }
    destruct H1 as [H1 H2].
    assert (Hc1 : cinv c1) by (pose proof (cstep_cinv c o Hc) as H; rewrite E in H; exact H).
    destruct (IH c1 Hc1 Hrest) as (I1 & I2 & I3).
    cbn [crun fold_left run_feed]. rewrite E. cbn [fst snd]. fold (crun c1 ops).
    split; [congruence|]. split.
    + rewrite I2. now apply model_tobs_ext.
    + apply Forall_app. split; assumption.
Qed.

(** * Part 4: Remove *)

Lemma is_target_delete_noti name now :
  is_target_delete (delete_noti name "" now ["*"]) = true.
Proof. reflexivity. Qed.

(** after Remove the name is unknown to HasTarget, Query and Metadata, and
    GnmiUpdate to it is an error that changes and announces nothing; exactly
    one entry is announced and it is the whole-target delete of that name *)
Theorem remove_forgets c now name :
  cinv c -> name <> "*"%string ->
  let c' := fst (cache_remove c now name) in
  cache_has_target c' name = false /\
  target_dump c' name = None /\
  target_meta c' name = None /\
  (forall now' n pr, n_prefix n = Some pr -> gp_target pr = name ->
     cache_gnmi_update c' now' n = (c', [], GErr err_no_target)) /\
  snd (cache_remove c now name) = [delete_noti name "" now ["*"]] /\
  is_target_delete (delete_noti name "" now ["*"]) = true /\
  ntgt (delete_noti name "" now ["*"]) = name.
Proof.
  intros [Hnd _] Hs c'.
  assert (Ha : assoc name (c_targets c') = None).
  { subst c'. cbn [fst cache_remove c_targets]. rewrite assoc_adel by exact Hnd.
    now rewrite String.eqb_refl. }
  split.
  { unfold cache_has_target. rewrite Ha.
    destruct (String.eqb name ""); [reflexivity|].
    destruct (String.eqb_spec name "*"); [contradiction|reflexivity]. }
  split; [unfold target_dump; now rewrite Ha|].
  split; [unfold target_meta; now rewrite Ha|].
  split.
  { intros now' n pr Hp Ht. unfold cache_gnmi_update. rewrite Hp, Ht, Ha. reflexivity. }
  split; [reflexivity|]. split; reflexivity.
Qed.

(** the announced whole-target delete ends a running single-target stream of
    that name with status OK right after forwarding it; a stream on "*" forwards
    it and keeps running; an ended stream never receives anything again *)
Lemma mmatch_target_delete T q : mmatch (T :: q) [T; "*"%string] = true.
Proof.
  cbn [mmatch]. destruct (String.eqb T "*") eqn:E.
  - destruct q; cbn; [reflexivity|]. destruct q; reflexivity.
  - rewrite String.eqb_refl, orb_true_r. cbn [andb]. destruct q; cbn; [reflexivity|].
    destruct q; reflexivity.
Qed.

(** the whole-target delete reaches EVERY subscriber of that target, whatever
    its subscription path, and ends its stream with status OK right after; a
    subscriber on "*" (any path) forwards it and keeps running *)
Theorem remove_ends_stream name now q :
  name <> "*"%string -> name <> ""%string ->
  sub_step [delete_noti name "" now ["*"]] (Sub name q SRunning) =
    (Sub name q SEndedOk, [SUpd (delete_noti name "" now ["*"])]) /\
  sub_step [delete_noti name "" now ["*"]] (Sub "*" q SRunning) =
    (Sub "*" q SRunning, [SUpd (delete_noti name "" now ["*"])]).
Proof.
  intros Hs Hne. unfold sub_step, stream_feed. cbn [sub_stat sub_target sub_path].
  rewrite is_target_delete_noti.
  assert (Hp : noti_paths (delete_noti name "" now ["*"]) = [[name; "*"%string]]).
  { unfold noti_paths, delete_noti. cbn. unfold nonempty.
    destruct (String.eqb_spec name ""); [contradiction|reflexivity]. }
  assert (Ho : forall T, T = name \/ T = "*"%string -> offered T q (delete_noti name "" now ["*"]) = true).
  { intros T HT. unfold offered. rewrite Hp. cbn [existsb]. rewrite orb_false_r.
    destruct HT as [->| ->]; [apply mmatch_target_delete|].
    cbn [mmatch]. destruct (String.eqb name "*"); cbn; destruct q as [|? [|? ?]]; reflexivity. }
  split.
  - rewrite (Ho name (or_introl eq_refl)).
    destruct (String.eqb_spec name "*") as [|_]; [contradiction|]. reflexivity.
  - rewrite (Ho "*"%string (or_intror eq_refl)). reflexivity.
Qed.

Theorem ended_stream_silent feed T q st :
  st <> SRunning -> sub_step feed (Sub T q st) = (Sub T q st, []).
Proof. intros H. unfold sub_step. cbn [sub_stat]. destruct st; try reflexivity. contradiction. Qed.

(** a stream on "*" is never ended by an announcement *)
Theorem star_stream_never_ends feed q :
  fst (sub_step feed (Sub "*" q SRunning)) = Sub "*" q SRunning.
Proof.
  unfold sub_step. cbn [sub_stat sub_target sub_path].
  assert (H : forall l, snd (stream_feed "*" q l) = false).
  { induction l as [|n l IH]; cbn [stream_feed]; [reflexivity|].
    destruct (offered "*" q n); [|exact IH]. cbn [String.eqb negb andb].
    destruct (stream_feed "*" q l) as [out e]. cbn in *. exact IH. }
  specialize (H feed). destruct (stream_feed "*" q feed) as [out e]. cbn in *. now rewrite H.
Qed.

(** * Part 5: Reset *)

(** ** frame: gnmiUpdate touches the tree at its own index path only *)

Lemma add_frame (tr tr' : tree notif) p n q :
  wf_tree tr -> CTreeModel.add tr p n = Some tr' -> q <> p -> lookup tr' q = lookup tr q.
Proof.
  intros Hwf Ha Hne. destruct (add_spec tr tr' p n Hwf Ha) as [_ Hl]. rewrite Hl.
  destruct (path_eqb_spec q p); [contradiction|reflexivity].
Qed.

Lemma tree_set_frame (tr : tree notif) p n q :
  wf_tree tr -> q <> p -> lookup (tree_set tr p n) q = lookup tr q.
Proof.
  intros Hwf Hne. unfold tree_set. destruct (CTreeModel.add tr p n) as [tr'|] eqn:Ha; [|reflexivity].
  eapply add_frame; eauto.
Qed.

Lemma update_leaf_frame t1 now p u n t2 r q :
  wf_tree (t_tree t1) -> update_leaf t1 now p u n = (t2, r) -> q <> p ->
  lookup (t_tree t2) q = lookup (t_tree t1) q.
Proof.
  intros Hwf. unfold update_leaf.
  repeat break_match; intros H Hne; inversion H; subst;
    rewrite ?lat_compute_tree; cbn [t_tree set_tree add_int set_meta];
    first [ reflexivity | now apply tree_set_frame | eapply add_frame; eauto ].
Qed.

Lemma gnmi_update1_frame t now n t' r p q :
  wf_tree (t_tree t) -> gnmi_update1 t now n = (t', r) -> unit_index n = Ok p -> q <> p ->
  lookup (t_tree t') q = lookup (t_tree t) q.
Proof.
  intros Hwf. unfold gnmi_update1. destruct (n_upd n) as [|u ?].
  { intros H; inversion H; reflexivity. }
  intros H Hp Hne. rewrite Hp in H.
  destruct (update_pre t p u) as [t1 r1] eqn:Hpre.
  destruct (update_pre_keeps _ _ _ _ _ Hpre) as [Htr _].
  destruct r1 as [[]|e|w]; try (inversion H; subst; now rewrite Htr).
  rewrite <- Htr. eapply update_leaf_frame; eauto. now rewrite Htr.
Qed.

Lemma unit_index_meta_noti name now k v :
  name <> ""%string -> unit_index (meta_noti name now k v) = Ok [md_root; k].
Proof.
  intros Hne. unfold unit_index, meta_noti. cbn [n_upd n_atomic n_prefix u_path].
  unfold join_path, join_prefix_and_path, gp_of_opt, to_strings, gp_of_names. cbn.
  unfold nonempty. destruct (String.eqb_spec name ""); [contradiction|reflexivity].
Qed.

Lemma is_meta_cons p0 rest : is_real (p0 :: rest) = negb (String.eqb p0 md_root).
Proof. reflexivity. Qed.

(** the three loops of generateMetaUpdates only write below "meta" *)
Definition real_frame (t0 t : target) : Prop :=
  wf_tree (t_tree t) /\ t_name t = t_name t0 /\
  forall p0 rest, p0 <> md_root -> lookup (t_tree t) (p0 :: rest) = lookup (t_tree t0) (p0 :: rest).

Lemma real_frame_step t0 t now k val t' r :
  t_name t0 <> ""%string -> real_frame t0 t ->
  gnmi_update1 t now (meta_noti (t_name t) now k val) = (t', r) -> real_frame t0 t'.
Proof.
  intros Hne (Hwf & Hnm & Hfr) E.
  destruct (gnmi_update1_good (fun _ => True) t now (meta_noti (t_name t) now k val) t' r)
    as ([Hwf' _] & [Hid _] & _); auto.
  { split; [exact Hwf|]. intros ? ? ?; exact I. }
  split; [exact Hwf'|]. split; [congruence|]. intros p0 rest Hp0.
  rewrite <- (Hfr p0 rest Hp0).
  eapply gnmi_update1_frame; [exact Hwf|exact E|apply unit_index_meta_noti; congruence|].
  intros Heq; inversion Heq; contradiction.
Qed.

Lemma generate_meta_updates_frame t now :
  t_name t <> ""%string -> wf_tree (t_tree t) ->
  real_frame t (fst (fst (generate_meta_updates t now))).
Proof.
  intros Hne Hwf. unfold generate_meta_updates. cbv zeta.
  assert (Hone : forall k v same st, gst_ok (real_frame t) (fun _ => True) st ->
                   gst_ok (real_frame t) (fun _ => True) (gen_meta_one now k v same st)).
  { intros k v same st Hst. apply gen_meta_one_inv; [|exact Hst].
    intros val t' r t1 Hq _ _ E. split; [eapply real_frame_step; eauto|auto]. }
  match goal with |- real_frame t (fst (fst ?x)) =>
    assert (H : gst_ok (real_frame t) (fun _ => True) x) end.
  { repeat (apply fold_gst_ok; [intros; apply Hone; assumption|]).
    split; [|constructor]. split; [exact Hwf|]. split; reflexivity. }
  exact (proj1 H).
Qed.

(** ** root children and the deletes of Reset *)

Lemma lookup_root_child (tr : tree notif) p0 rest v :
  lookup tr (p0 :: rest) = Some v -> In p0 (root_children tr).
Proof.
  destruct tr as [[x|cs]|]; cbn [lookup root_children]; try discriminate.
  rewrite lookup_branch_cons. destruct (assoc p0 cs) as [c|] eqn:E; [|discriminate].
  intros _. eapply assoc_Some_key; eauto.
Qed.

Lemma qmatch_single r p0 rest : qmatch [r] (p0 :: rest) = (is_glob r || String.eqb r p0).
Proof. cbn. destruct (is_glob r); [reflexivity|]. cbn. now rewrite andb_true_r. Qed.

Lemma fold_delete_lookup roots : forall (tr : tree notif) p0 rest v,
  wf_tree tr ->
  lookup (fold_left (fun tr r => fst (CTreeModel.delete tr [r])) roots tr) (p0 :: rest) = Some v ->
  lookup tr (p0 :: rest) = Some v /\ ~ In p0 roots.
Proof.
  induction roots as [|r roots IH]; cbn [fold_left]; intros tr p0 rest v Hwf H; [auto|].
  unfold CTreeModel.delete in H.
  destruct (delete_spec tr [r] (fun _ => true) Hwf) as (Hwf' & Hl & _).
  destruct (IH _ p0 rest v Hwf' H) as [H1 H2].
  rewrite Hl in H1. unfold sel in H1. destruct (lookup tr (p0 :: rest)) as [w|]; [|discriminate].
  rewrite qmatch_single, andb_true_r in H1.
  destruct (is_glob r || String.eqb r p0) eqn:Em; [discriminate|].
  split; [exact H1|]. intros [->|Hin]; [|contradiction].
  rewrite String.eqb_refl, orb_true_r in Em. discriminate.
Qed.

(** Reset, clauses 1 and 2: no leaf outside "meta" remains, and every leaf that
    was stored outside "meta" is covered by an announced delete of this target
    ([origin = first index element, path = *], i.e. index path [p0; *]) *)
Theorem reset_clears_leaves t now t' feed :
  wf_tree (t_tree t) -> t_name t <> ""%string ->
  target_reset t now = (t', feed, None) ->
  (forall p0 rest v, lookup (t_tree t') (p0 :: rest) = Some v -> p0 = md_root) /\
  (forall p0 rest v, lookup (t_tree t) (p0 :: rest) = Some v -> p0 <> md_root ->
     In (delete_noti (t_name t) p0 now ["*"]) feed /\
     qmatch [p0; "*"] (p0 :: rest) = true).
Proof.
  intros Hwf Hne. unfold target_reset. cbv zeta.
  set (t1 := set_meta (set_ts t None) (md_clear (t_meta t))).
  unfold update_meta.
  set (t1' := set_lat (set_meta t1 (md_set_int (t_meta t1) md_latest_ts (ts_unixnano (t_ts t1)))) []).
  pose proof (generate_meta_updates_frame t1' now Hne Hwf) as Hfr.
  destruct (generate_meta_updates t1' now) as [[t2 fd] po]. cbn [fst] in Hfr.
  destruct Hfr as (Hwf2 & Hnm2 & Hfr).
  destruct po; [discriminate|]. intros H; inversion H; subst. cbn [t_tree set_tree]. split.
  - intros p0 rest v Hl. destruct (fold_delete_lookup _ _ _ _ _ Hwf2 Hl) as [H1 H2].
    destruct (String.eqb_spec p0 md_root) as [|Hn]; [assumption|]. exfalso. apply H2.
    apply filter_In. split; [eapply lookup_root_child; eauto|].
    destruct (String.eqb_spec p0 md_root); [contradiction|reflexivity].
  - intros p0 rest v Hl Hp0. split.
    + apply in_or_app. right. apply in_map_iff. exists p0. split; [now rewrite Hnm2|].
      apply filter_In. split.
      * eapply lookup_root_child. rewrite (Hfr p0 rest Hp0). exact Hl.
      * destruct (String.eqb_spec p0 md_root); [contradiction|reflexivity].
    + cbn. destruct (is_glob p0); [destruct rest; reflexivity|].
      rewrite String.eqb_refl. cbn. destruct rest; reflexivity.
Qed.

(** ** Reset, clause 3: the metadata *)

Definition meq (m m' : metadata) : Prop :=
  (forall k, md_get_int m k = md_get_int m' k) /\
  (forall k, md_get_bool m k = md_get_bool m' k) /\
  (forall k, md_get_str m k = md_get_str m' k).

Lemma meq_refl m : meq m m.
Proof. repeat split. Qed.

Lemma meq_trans a b c : meq a b -> meq b c -> meq a c.
Proof.
  intros (A1 & A2 & A3) (B1 & B2 & B3). repeat split; intros k; congruence.
Qed.

Lemma meq_set_bool_same m k b : md_get_bool m k = Some b -> meq (md_set_bool m k b) m.
Proof.
  intros H. unfold md_get_bool in H. unfold md_set_bool.
  destruct (name_in k md_bool_names) eqn:Ek; [|discriminate].
  repeat split; intros k'; unfold md_get_bool; cbn [m_int m_bool m_str]; try reflexivity.
  destruct (name_in k' md_bool_names); [|reflexivity]. rewrite assoc_aset.
  destruct (String.eqb_spec k' k) as [->|]; [now rewrite H|reflexivity].
Qed.

Lemma meq_set_str_same m k s : md_get_str m k = Some s -> meq (md_set_str m k s) m.
Proof.
  intros H. unfold md_get_str in H. unfold md_set_str.
  destruct (name_in k md_str_names) eqn:Ek; [|discriminate].
  repeat split; intros k'; unfold md_get_str; cbn [m_int m_bool m_str]; try reflexivity.
  destruct (name_in k' md_str_names); [|reflexivity]. rewrite assoc_aset.
  destruct (String.eqb_spec k' k) as [->|]; [now rewrite H|reflexivity].
Qed.

(** the value a refresh writes for [k] is the one the metadata holds *)
Definition val_current (m : metadata) (k : string) (val : tv) : Prop :=
  match val with
  | TBool b => md_get_bool m k = Some b
  | TInt z => md_get_int m k = Some z
  | TStr s => md_get_str m k = Some s
  | _ => False
  end.

Lemma meta_side_effect_same t k two val t1 r :
  val_current (t_meta t) k val ->
  meta_side_effect t k two (Upd (Some (gp_of_names [md_root; k])) (Some val) 0) = (t1, r) ->
  meq (t_meta t1) (t_meta t) /\ t_ts t1 = t_ts t /\ t_sync t1 = t_sync t \/
  meq (t_meta t1) (t_meta t) /\ t_ts t1 = t_ts t /\ k = md_sync.
Proof.
  intros Hv. unfold meta_side_effect. cbn [u_val].
  repeat break_match; intros H; inversion H; subst; cbn [t_meta t_ts t_sync set_meta set_sync];
    try (left; split; [apply meq_refl|split; reflexivity]).
  - right. apply String.eqb_eq in Heqb. subst k. cbn in Hv.
    split; [now apply meq_set_bool_same|split; reflexivity].
  - left. apply String.eqb_eq in Heqb0. subst k. cbn in Hv.
    split; [now apply meq_set_bool_same|split; reflexivity].
  - left. cbn in Hv. split; [now apply meq_set_str_same|split; reflexivity].
Qed.

Lemma future_rejected_now t now : future_rejected t now now = false.
Proof.
  unfold future_rejected. cbv zeta. rewrite Z.sub_diag.
  destruct (Z.ltb_spec 0 (cfg_future_threshold (t_cfg t))); [|reflexivity].
  destruct (Z.ltb_spec (cfg_future_threshold (t_cfg t)) 0); [lia|reflexivity].
Qed.

Lemma get_leaf_lookup' (tr : tree notif) p v :
  CTreeModel.get tr p = Some (Leaf v) -> lookup tr p = Some v.
Proof.
  destruct tr as [n|]; cbn [CTreeModel.get lookup]; [|discriminate].
  unfold lookup_node. now intros ->.
Qed.

(** the stored leaf, if any, is not newer than the clock and holds another value *)
Definition leaf_fresh (t : target) (now : Z) (k : string) (val : tv) : Prop :=
  forall old, lookup (t_tree t) [md_root; k] = Some old ->
    n_ts old <= now /\
    (n_upd old = [] \/
     exists uo rest, n_upd old = uo :: rest /\
       otv_eqb (u_val uo) (Some val) = false /\ value_equal (u_val uo) (Some val) = false).

Lemma update_leaf_meta t1 now k val t2 r :
  let u := Upd (Some (gp_of_names [md_root; k])) (Some val) 0 in
  leaf_fresh t1 now k val ->
  update_leaf t1 now [md_root; k] u (meta_noti (t_name t1) now k val) = (t2, r) ->
  t_meta t2 = t_meta t1 /\ t_ts t2 = t_ts t1 /\ t_sync t2 = t_sync t1.
Proof.
  intros u Hfresh. unfold update_leaf. cbv zeta.
  assert (Hreal : is_real [md_root; k] = false) by reflexivity. rewrite Hreal.
  destruct (CTreeModel.get (t_tree t1) [md_root; k]) as [[old|cs]|] eqn:Hg.
  - destruct (Hfresh old (get_leaf_lookup' _ _ _ Hg)) as (Hts & Hcase).
    assert (Hverd : leaf_verdict t1 now old (meta_noti (t_name t1) now k val) = None).
    { unfold leaf_verdict. cbn [n_ts meta_noti].
      destruct (Z.ltb_spec now (n_ts old)); [lia|].
      assert (Hne : notif_eqb old (meta_noti (t_name t1) now k val) = false).
      { unfold notif_eqb. cbn [n_upd meta_noti].
        destruct Hcase as [Hu|(uo & rest & Hu & Ho & Hv)]; rewrite Hu; cbn [list_eqb].
        - now rewrite ?andb_false_r.
        - unfold update_eqb. cbn [u_val]. rewrite Ho. now rewrite ?andb_false_r. }
      rewrite Hne, andb_false_r. rewrite future_rejected_now, andb_false_r. reflexivity. }
    rewrite Hverd. cbn [n_atomic meta_noti].
    destruct Hcase as [Hu|(uo & rest & Hu & Ho & Hv)]; rewrite Hu.
    + intros H; inversion H; subst. repeat split.
    + cbn [u_val]. fold u. cbn [u_val u]. rewrite Hv. rewrite andb_false_r. cbn [andb].
      unfold lat_compute. rewrite andb_false_r.
      intros H; inversion H; subst. repeat split.
  - intros H; inversion H; subst. repeat split.
  - destruct (CTreeModel.add (t_tree t1) [md_root; k] (meta_noti (t_name t1) now k val));
      intros H; inversion H; subst; repeat split.
Qed.

Lemma meta_step_meq t now k val t' r :
  t_name t <> ""%string ->
  val_current (t_meta t) k val -> leaf_fresh t now k val ->
  gnmi_update1 t now (meta_noti (t_name t) now k val) = (t', r) ->
  meq (t_meta t') (t_meta t) /\ t_ts t' = t_ts t.
Proof.
  intros Hne Hv Hfresh. unfold gnmi_update1.
  rewrite (unit_index_meta_noti (t_name t) now k val Hne).
  cbn [n_upd meta_noti]. unfold update_pre.
  assert (Hm : negb (String.eqb md_root md_root) = false) by reflexivity. rewrite Hm.
  destruct (meta_side_effect t k true (Upd (Some (gp_of_names [md_root; k])) (Some val) 0))
    as [t1 r1] eqn:Hs.
  destruct (meta_side_effect_keeps _ _ _ _ _ _ Hs) as [Htr [Hnm _]].
  assert (Hq : meq (t_meta t1) (t_meta t) /\ t_ts t1 = t_ts t).
  { destruct (meta_side_effect_same _ _ _ _ _ _ Hv Hs) as [(A & B & _)|(A & B & _)]; auto. }
  destruct Hq as [Hq Hts].
  destruct r1 as [[]|e|w]; try (intros H; inversion H; subst; auto).
  assert (Hfresh1 : leaf_fresh t1 now k val).
  { intros old Hl. apply Hfresh. now rewrite <- Htr. }
  change (Notif now (Some (GPath (t_name t) "" [] [])) None
            [Upd (Some (gp_of_names [md_root; k])) (Some val) 0] [] false)
    with (meta_noti (t_name t) now k val) in H.
  rewrite <- Hnm in H.
  destruct (update_leaf_meta t1 now k val t' r Hfresh1 H) as (A & B & _).
  rewrite A, B. auto.
Qed.

(** getters of freshly cleared metadata, whatever was there before *)
Definition reset_counters : list string :=
  [md_add_count; md_del_count; md_empty_count; md_leaf_count; md_update_count;
   md_stale_count; md_future_count; md_suppressed_count; md_size].

(** one ResetEntry never disturbs a getter that already shows the reset value,
    and establishes it for its own name *)
Lemma assoc_adel_ne {A} k k' (l : list (string * A)) : k <> k' -> assoc k (adel k' l) = assoc k l.
Proof.
  intros Hne. induction l as [|[k0 a0] l IH]; cbn; [reflexivity|].
  destruct (String.eqb_spec k' k0) as [->|Hn]; cbn.
  - destruct (String.eqb_spec k k0); [contradiction|reflexivity].
  - now rewrite IH.
Qed.

Lemma reset_entry_int m k k' :
  name_in k md_bool_names = false -> name_in k md_int_names = true ->
  (k' = k \/ md_get_int m k = Some 0) -> md_get_int (md_reset_entry m k') k = Some 0.
Proof.
  intros Hb Hi H. unfold md_reset_entry, md_set_bool, md_set_int, md_set_str, md_get_int.
  rewrite Hi. unfold md_get_int in H. rewrite Hi in H.
  destruct (name_in k' md_bool_names) eqn:Eb.
  { destruct H as [->|H]; [congruence|exact H]. }
  destruct (name_in k' md_int_names) eqn:Ei.
  { cbn [m_int]. rewrite assoc_aset. destruct (String.eqb_spec k k'); [reflexivity|].
    destruct H as [->|H]; [contradiction|exact H]. }
  destruct H as [->|H]; [congruence|].
  repeat break_match; cbn [m_int]; exact H.
Qed.

Lemma reset_entry_bool m k k' :
  name_in k md_bool_names = true ->
  (k' = k \/ md_get_bool m k = Some false) -> md_get_bool (md_reset_entry m k') k = Some false.
Proof.
  intros Hb H. unfold md_reset_entry, md_set_bool, md_set_int, md_set_str, md_get_bool.
  rewrite Hb. unfold md_get_bool in H. rewrite Hb in H.
  destruct (name_in k' md_bool_names) eqn:Eb.
  { cbn [m_bool]. rewrite assoc_aset. destruct (String.eqb_spec k k'); [reflexivity|].
    destruct H as [->|H]; [contradiction|exact H]. }
  destruct H as [->|H]; [congruence|].
  repeat break_match; cbn [m_bool]; exact H.
Qed.

Lemma reset_entry_addr m k' :
  (k' = md_connected_addr \/ md_get_str m md_connected_addr = Some ""%string) ->
  md_get_str (md_reset_entry m k') md_connected_addr = Some ""%string.
Proof.
  intros H. unfold md_reset_entry, md_set_bool, md_set_int, md_set_str, md_get_str.
  assert (Hs : name_in md_connected_addr md_str_names = true) by reflexivity. rewrite Hs.
  unfold md_get_str in H. rewrite Hs in H.
  destruct (name_in k' md_bool_names) eqn:Eb.
  { destruct H as [->|H]; [discriminate|exact H]. }
  destruct (name_in k' md_int_names) eqn:Ei.
  { destruct H as [->|H]; [discriminate|]. cbn [m_str]. exact H. }
  destruct (String.eqb_spec k' md_connected_addr) as [->|Hn].
  { rewrite Hs. cbn [m_str]. rewrite assoc_aset. now rewrite String.eqb_refl. }
  destruct H as [->|H]; [contradiction|].
  destruct (String.eqb_spec k' md_connect_error) as [->|Hn2]; [|exact H].
  cbn [m_str]. rewrite assoc_adel_ne; [exact H|discriminate].
Qed.

Lemma fold_reset (Q : metadata -> Prop) (k : string) :
  (forall m k', (k' = k \/ Q m) -> Q (md_reset_entry m k')) ->
  forall L m, (In k L \/ Q m) -> Q (fold_left md_reset_entry L m).
Proof.
  intros Hstep. induction L as [|k0 L IH]; cbn [fold_left]; intros m H.
  - destruct H as [[]|H]; exact H.
  - destruct H as [[->|Hin]|H].
    + apply IH. right. apply Hstep. now left.
    + apply IH. now left.
    + apply IH. right. apply Hstep. now right.
Qed.

Lemma md_clear_getters m z :
  let m' := md_set_int (md_clear m) md_latest_ts z in
  md_get_bool m' md_sync = Some false /\
  md_get_bool m' md_connected = Some false /\
  Forall (fun k => md_get_int m' k = Some 0) reset_counters /\
  md_get_int m' md_latest_ts = Some z /\
  md_get_str m' md_connected_addr = Some ""%string.
Proof.
  cbv zeta.
  assert (Hset : forall m0,
    (forall k, md_get_bool (md_set_int m0 md_latest_ts z) k = md_get_bool m0 k) /\
    (forall k, md_get_str (md_set_int m0 md_latest_ts z) k = md_get_str m0 k) /\
    (forall k, k <> md_latest_ts -> md_get_int (md_set_int m0 md_latest_ts z) k = md_get_int m0 k) /\
    md_get_int (md_set_int m0 md_latest_ts z) md_latest_ts = Some z).
  { intros m0. unfold md_set_int. assert (Hn : name_in md_latest_ts md_int_names = true) by reflexivity.
    rewrite Hn. repeat split; try reflexivity.
    - intros k Hk. unfold md_get_int. cbn [m_int]. destruct (name_in k md_int_names); [|reflexivity].
      rewrite assoc_aset. destruct (String.eqb_spec k md_latest_ts); [contradiction|reflexivity].
    - unfold md_get_int. rewrite Hn. cbn [m_int]. rewrite assoc_aset. now rewrite String.eqb_refl. }
  destruct (Hset (md_clear m)) as (Sb & Ss & Si & Sl).
  rewrite !Sb, Ss, Sl. unfold md_clear.
  split.
  { apply (fold_reset (fun m => md_get_bool m md_sync = Some false) md_sync).
    - intros m0 k' H. now apply reset_entry_bool.
    - left. cbn. auto. }
  split.
  { apply (fold_reset (fun m => md_get_bool m md_connected = Some false) md_connected).
    - intros m0 k' H. now apply reset_entry_bool.
    - left. cbn. auto. }
  split.
  { unfold reset_counters.
    repeat (constructor; [rewrite Si by discriminate;
      match goal with |- md_get_int _ ?k = _ =>
        apply (fold_reset (fun m => md_get_int m k = Some 0) k);
          [intros m0 k' H; now apply reset_entry_int|left; cbn; tauto] end|]).
    constructor. }
  split; [reflexivity|].
  apply (fold_reset (fun m => md_get_str m md_connected_addr = Some ""%string) md_connected_addr).
  - intros m0 k' H. now apply reset_entry_addr.
  - left. cbn. tauto.
Qed.

(** value at the index path of a gnmiUpdate afterwards: what was there, or the
    new notification *)
Lemma update_leaf_at t1 now p u n t2 r :
  wf_tree (t_tree t1) -> update_leaf t1 now p u n = (t2, r) ->
  lookup (t_tree t2) p = lookup (t_tree t1) p \/ lookup (t_tree t2) p = Some n.
Proof.
  intros Hwf. unfold update_leaf.
  assert (Hset : lookup (tree_set (t_tree t1) p n) p = lookup (t_tree t1) p \/
                 lookup (tree_set (t_tree t1) p n) p = Some n).
  { unfold tree_set. destruct (CTreeModel.add (t_tree t1) p n) as [tr'|] eqn:Ha; [|now left].
    right. destruct (add_spec _ _ _ _ Hwf Ha) as [_ Hl]. rewrite Hl. now rewrite path_eqb_refl. }
  repeat break_match; intros H; inversion H; subst;
    rewrite ?lat_compute_tree; cbn [t_tree set_tree add_int set_meta];
    first [ now left | exact Hset
          | right; match goal with Ha : CTreeModel.add _ _ _ = Some _ |- _ =>
              destruct (add_spec _ _ _ _ Hwf Ha) as [_ Hl]; rewrite Hl; now rewrite path_eqb_refl end ].
Qed.

Lemma gnmi_update1_at t now n t' r p :
  wf_tree (t_tree t) -> gnmi_update1 t now n = (t', r) -> unit_index n = Ok p ->
  lookup (t_tree t') p = lookup (t_tree t) p \/ lookup (t_tree t') p = Some n.
Proof.
  intros Hwf. unfold gnmi_update1. destruct (n_upd n) as [|u ?].
  { intros H; inversion H; now left. }
  intros H Hp. rewrite Hp in H.
  destruct (update_pre t p u) as [t1 r1] eqn:Hpre.
  destruct (update_pre_keeps _ _ _ _ _ Hpre) as [Htr _].
  destruct r1 as [[]|e|w]; try (inversion H; subst; left; now rewrite Htr).
  rewrite <- Htr. eapply update_leaf_at; eauto. now rewrite Htr.
Qed.

(** no stored metadata leaf is newer than the clock *)
Definition calm (now : Z) (t : target) : Prop :=
  forall k old, lookup (t_tree t) [md_root; k] = Some old -> n_ts old <= now.

Definition refresh_inv (name : string) (m0 : metadata) (ts0 : option Z) (now : Z) (t : target) : Prop :=
  t_name t = name /\ wf_tree (t_tree t) /\ meq (t_meta t) m0 /\ t_ts t = ts0 /\ calm now t.

Lemma refresh_step name m0 ts0 now t k val t' r :
  name <> ""%string -> refresh_inv name m0 ts0 now t ->
  val_current (t_meta t) k val -> leaf_fresh t now k val ->
  gnmi_update1 t now (meta_noti (t_name t) now k val) = (t', r) ->
  refresh_inv name m0 ts0 now t'.
Proof.
  intros Hne (Hnm & Hwf & Hm & Hts & Hcalm) Hv Hfresh E.
  assert (Hne' : t_name t <> ""%string) by congruence.
  destruct (meta_step_meq t now k val t' r Hne' Hv Hfresh E) as [Hm' Hts'].
  destruct (gnmi_update1_good (fun _ => True) t now (meta_noti (t_name t) now k val) t' r)
    as ([Hwf' _] & [Hid _] & _); auto.
  { split; [exact Hwf|]. intros ? ? ?; exact I. }
  split; [congruence|]. split; [exact Hwf'|]. split; [eapply meq_trans; eauto|]. split; [congruence|].
  intros k' old Hl. destruct (String.eqb_spec k' k) as [->|Hk].
  - destruct (gnmi_update1_at t now _ t' r [md_root; k] Hwf E (unit_index_meta_noti _ _ _ _ Hne')) as [Hs|Hs].
    + rewrite Hs in Hl. eapply Hcalm; eauto.
    + rewrite Hs in Hl. inversion Hl; subst. cbn. lia.
  - rewrite (gnmi_update1_frame t now _ t' r [md_root; k] [md_root; k'] Hwf E
               (unit_index_meta_noti _ _ _ _ Hne')) in Hl.
    + eapply Hcalm; eauto.
    + intros Heq; inversion Heq; contradiction.
Qed.

(** meta_differs = Ok true: the stored leaf holds no update, no value, or a
    value [same] does not accept *)
Lemma meta_differs_true t k same :
  meta_differs t k same = Ok true ->
  forall old, lookup (t_tree t) [md_root; k] = Some old ->
    n_upd old = [] \/
    exists uo rest, n_upd old = uo :: rest /\
      (u_val uo = None \/ exists v, u_val uo = Some v /\ (same v = None \/ same v = Some false)).
Proof.
  unfold meta_differs. intros H old Hl. rewrite Hl in H.
  destruct (n_upd old) as [|uo rest]; [now left|]. right. exists uo, rest. split; [reflexivity|].
  destruct (u_val uo) as [v|] eqn:Ev; [|now left]. right. exists v. split; [reflexivity|].
  destruct (same v) as [[|]|] eqn:Es; try discriminate; auto.
Qed.

Lemma refresh_loops name m0 ts0 now t :
  name <> ""%string -> refresh_inv name m0 ts0 now t ->
  refresh_inv name m0 ts0 now (fst (fst (generate_meta_updates t now))).
Proof.
  intros Hne Hinv. unfold generate_meta_updates. cbv zeta.
  set (Q := refresh_inv name m0 ts0 now).
  match goal with |- Q (fst (fst ?x)) => assert (H : gst_ok Q (fun _ => True) x) end; [|exact (proj1 H)].
  apply fold_gst_ok.
  { intros st k _ Hst. apply gen_meta_one_inv; [|exact Hst].
    intros val t' r t0 Hq Hv Hd E. destruct st as [[t1 fd] po]. subst t0. cbn [fst] in *.
    split; [|auto]. subst Q. eapply refresh_step; eauto.
    - destruct (md_get_str (t_meta t1) k) as [s|] eqn:Eg; [|discriminate].
      inversion Hv; subst. exact Eg.
    - intros old Hl. split; [destruct Hq as (_ & _ & _ & _ & Hc); eapply Hc; eauto|].
      destruct (md_get_str (t_meta t1) k) as [s|] eqn:Eg; [|discriminate]. inversion Hv; subst.
      destruct (meta_differs_true _ _ _ Hd old Hl) as [Hn|(uo & rest & Hu & Hcase)]; [now left|].
      right. exists uo, rest. split; [exact Hu|].
      destruct Hcase as [Hnone|(v & Hvv & Hs)]; [rewrite Hnone; auto|]. rewrite Hvv.
      destruct v; cbn in Hs |- *; destruct Hs as [Hs|Hs]; try discriminate; auto;
        inversion Hs as [Hs']; rewrite Hs'; auto. }
  apply fold_gst_ok.
  { intros st k _ Hst. apply gen_meta_one_inv; [|exact Hst].
    intros val t' r t0 Hq Hv Hd E. destruct st as [[t1 fd] po]. subst t0. cbn [fst] in *.
    split; [|auto]. subst Q. eapply refresh_step; eauto.
    - destruct (md_get_int (t_meta t1) k) as [z|] eqn:Eg; [|discriminate].
      inversion Hv; subst. exact Eg.
    - intros old Hl. split; [destruct Hq as (_ & _ & _ & _ & Hc); eapply Hc; eauto|].
      destruct (md_get_int (t_meta t1) k) as [z|] eqn:Eg; [|discriminate]. inversion Hv; subst.
      destruct (meta_differs_true _ _ _ Hd old Hl) as [Hn|(uo & rest & Hu & Hcase)]; [now left|].
      right. exists uo, rest. split; [exact Hu|].
      destruct Hcase as [Hnone|(v & Hvv & Hs)]; [rewrite Hnone; auto|]. rewrite Hvv.
      destruct v; cbn in Hs |- *; destruct Hs as [Hs|Hs]; try discriminate; auto;
        inversion Hs as [Hs']; rewrite Hs'; auto. }
  apply fold_gst_ok.
  { intros st k _ Hst. apply gen_meta_one_inv; [|exact Hst].
    intros val t' r t0 Hq Hv Hd E. destruct st as [[t1 fd] po]. subst t0. cbn [fst] in *.
    split; [|auto]. subst Q. eapply refresh_step; eauto.
    - destruct (md_get_bool (t_meta t1) k) as [b|] eqn:Eg; [|discriminate].
      inversion Hv; subst. exact Eg.
    - intros old Hl. split; [destruct Hq as (_ & _ & _ & _ & Hc); eapply Hc; eauto|].
      destruct (md_get_bool (t_meta t1) k) as [b|] eqn:Eg; [|discriminate]. inversion Hv; subst.
      destruct (meta_differs_true _ _ _ Hd old Hl) as [Hn|(uo & rest & Hu & Hcase)]; [now left|].
      right. exists uo, rest. split; [exact Hu|].
      destruct Hcase as [Hnone|(v & Hvv & Hs)]; [rewrite Hnone; auto|]. rewrite Hvv.
      destruct v; cbn in Hs |- *; destruct Hs as [Hs|Hs]; try discriminate; auto;
        inversion Hs as [Hs']; rewrite Hs'; auto. }
  split; [exact Hinv|constructor].
Qed.

(** Reset, clause 3: when no stored metadata leaf is newer than the clock, the
    metadata after Reset is the initial one -- not synced, not connected,
    every counter and the size 0, connected address empty, latest timestamp
    cleared -- except for the exported latestTimestamp, which is
    [time.Time{}.UnixNano()].
    (* DEFECT C14_1 *) with fixes/C14_1_zero_time_latest.diff the exported
    value is 0: [zero_time_unixnano] below becomes [0] (the model constant
    [CacheModel.ts_unixnano None]). *)
Theorem reset_clears_meta t now t' feed :
  wf_tree (t_tree t) -> t_name t <> ""%string -> calm now t ->
  target_reset t now = (t', feed, None) ->
  md_get_bool (t_meta t') md_sync = Some false /\
  md_get_bool (t_meta t') md_connected = Some false /\
  Forall (fun k => md_get_int (t_meta t') k = Some 0) reset_counters /\
  md_get_int (t_meta t') md_latest_ts = Some (ts_unixnano None) /\
  md_get_str (t_meta t') md_connected_addr = Some ""%string /\
  t_ts t' = None.
Proof.
  intros Hwf Hne Hcalm. unfold target_reset. cbv zeta.
  set (t1 := set_meta (set_ts t None) (md_clear (t_meta t))).
  unfold update_meta.
  set (t1' := set_lat (set_meta t1 (md_set_int (t_meta t1) md_latest_ts (ts_unixnano (t_ts t1)))) []).
  assert (Hinv : refresh_inv (t_name t) (t_meta t1') None now t1').
  { split; [reflexivity|]. split; [exact Hwf|]. split; [apply meq_refl|]. split; [reflexivity|exact Hcalm]. }
  pose proof (refresh_loops (t_name t) _ _ now t1' Hne Hinv) as Hr.
  destruct (generate_meta_updates t1' now) as [[t2 fd] po]. cbn [fst] in Hr.
  destruct po; [discriminate|]. intros H; inversion H; subst. cbn [t_meta t_ts set_tree].
  destruct Hr as (_ & _ & (Mi & Mb & Ms) & Hts & _).
  destruct (md_clear_getters (t_meta t) (ts_unixnano None)) as (G1 & G2 & G3 & G4 & G5).
  subst t1' t1. cbn [t_meta t_ts set_meta set_ts set_lat] in *.
  rewrite !Mb, !Mi, !Ms. repeat split; try assumption.
  eapply Forall_impl; [|exact G3]. cbn. intros k Hk. now rewrite Mi.
Qed.

(** * Reachable states: the hypotheses of the Reset theorems hold there *)

Lemma reachable_target cfg names ops name t :
  assoc name (c_targets (crun (new_cache cfg names) ops)) = Some t ->
  wf_tree (t_tree t) /\ t_name t = name /\
  (forall p v, lookup (t_tree t) p = Some v -> ntgt v = name).
Proof.
  intros Ha. pose proof (reachable_cinv cfg names ops) as Hc.
  rewrite mrun_crun in Hc. cbn [minit ms_cache] in Hc.
  destruct (proj2 Hc name t Ha) as [[Hwf Hall] Hnm]. auto.
Qed.

(** executable form of [calm] *)
Definition calm_b (now : Z) (t : target) : bool :=
  forallb (fun pv => match fst pv with
                     | [p0; _] => negb (String.eqb p0 md_root) || Z.leb (n_ts (snd pv)) now
                     | _ => true
                     end) (walk (t_tree t)).

Lemma calm_b_sound now t : wf_tree (t_tree t) -> calm_b now t = true -> calm now t.
Proof.
  intros Hwf Hb k old Hl. apply (walk_exact (t_tree t) _ _ Hwf) in Hl.
  unfold calm_b in Hb. rewrite forallb_forall in Hb. specialize (Hb _ Hl). cbn in Hb. lia.
Qed.

(** * Examples (the hypotheses of the theorems are satisfiable) *)

Definition ex_cfg : config := Cfg 0 true [].
Definition ex_upd (tgt leaf : string) (ts v : Z) : notif :=
  Notif ts (Some (gp_prefix tgt "" ["a"])) None [Upd (Some (gp_of_names [leaf])) (Some (TInt v)) 0] [] false.
Definition ex_ops : list mop :=
  [MUpd 1 (ex_upd "t" "b" 5 1); MUpd 1 (ex_upd "u" "b" 5 1); MUpd 2 (ex_upd "t" "c" 6 2);
   MSync 2 "t"; MConnectError 3 "t" "boom"; MUpdateMeta 3].
Definition ex_c : cache := crun (new_cache ex_cfg ["t"; "u"]) ex_ops.

Example ex_cinv : cinv ex_c.
Proof. pose proof (reachable_cinv ex_cfg ["t"; "u"] ex_ops) as H. now rewrite mrun_crun in H. Qed.

Example ex_isolation_hyps :
  Forall (spares "u") [MReset 4 "t"; MUpd 5 (ex_upd "t" "b" 7 3); MRemove 6 "t"; MAdd "t"] /\
  exists tu, assoc "u" (c_targets ex_c) = Some tu /\ lookup (t_tree tu) ["a"; "b"] <> None.
Proof.
  split.
  - repeat constructor; cbn; discriminate.
  - vm_compute. eexists. split; [reflexivity|discriminate].
Qed.

Definition ex_t : target :=
  Eval vm_compute in
    match assoc "t" (c_targets ex_c) with Some t => t | None => new_target "t" ex_cfg end.
Definition ex_reset := Eval vm_compute in target_reset ex_t 4.

Example ex_reset_hyps :
  exists t t' feed,
    assoc "t" (c_targets ex_c) = Some t /\
    wf_tree (t_tree t) /\ t_name t <> ""%string /\ calm 4 t /\
    target_reset t 4 = (t', feed, None) /\
    lookup (t_tree t) ["a"; "b"] <> None /\ lookup (t_tree t) ["a"; "c"] <> None /\
    md_get_bool (t_meta t) md_sync = Some true /\ md_get_int (t_meta t) md_leaf_count = Some 2.
Proof.
  assert (Ha : assoc "t" (c_targets (crun (new_cache ex_cfg ["t"; "u"]) ex_ops)) = Some ex_t)
    by (vm_compute; reflexivity).
  destruct (reachable_target ex_cfg ["t"; "u"] ex_ops "t" ex_t Ha) as (Hwf & Hnm & _).
  exists ex_t, (fst (fst ex_reset)), (snd (fst ex_reset)).
  split; [unfold ex_c; exact Ha|]. split; [exact Hwf|]. split; [rewrite Hnm; discriminate|].
  split; [apply calm_b_sound; [exact Hwf|vm_compute; reflexivity]|].
  split; [vm_compute; reflexivity|].
  vm_compute. repeat split; discriminate.
Qed.

Example ex_remove_hyps : cinv ex_c /\ "t"%string <> "*"%string /\ cache_has_target ex_c "t" = true.
Proof. split; [exact ex_cinv|]. split; [discriminate|vm_compute; reflexivity]. Qed.

(** the initial latest timestamp is 0; after Reset it is not (KF-C14-1) *)
Theorem reset_latest_refuted : exists t now t' feed,
  wf_tree (t_tree t) /\ t_name t <> ""%string /\ calm now t /\
  target_reset t now = (t', feed, None) /\
  md_get_int (t_meta (new_target (t_name t) (t_cfg t))) md_latest_ts = Some 0 /\
  md_get_int (t_meta t') md_latest_ts <> Some 0.
Proof.
  destruct ex_reset_hyps as (t & t' & feed & Ha & Hwf & Hne & Hc & Hr & _).
  exists t, 4, t', feed. repeat split; try assumption.
  destruct (reset_clears_meta t 4 t' feed Hwf Hne Hc Hr) as (_ & _ & _ & H & _).
  rewrite H. cbn. discriminate.
Qed.

(** * Soundness of the executable specification (C14Check.kp_isolation) *)
From Gnmi Require Import Cache.C14Check.

(** K_P(isolation) = true for a call addressed to [t] means: every other name
    observed after the call has the observation it had before (HasTarget, the
    whole Query result incl. metadata leaves, the Metadata() values, each
    compared as C14Check.tobs_eqb does), and every announced entry carries [t] *)
Theorem kp_isolation_sound prev o ob t :
  op_addr o = AOne t -> kp_isolation prev o ob = true ->
  (forall k a, In (k, a) (o_tgts ob) -> k <> t ->
     exists b, assoc k prev = Some b /\ tobs_eqb b a = true) /\
  (forall n, In n (o_feed ob) -> feed_tgt n = t).
Proof.
  intros Ha. unfold kp_isolation. rewrite Ha. intros H.
  apply andb_true_iff in H. destruct H as [H1 H2]. rewrite forallb_forall in H1, H2. split.
  - intros k a Hin Hne. specialize (H1 _ Hin). cbn [fst] in H1.
    destruct (String.eqb_spec k t); [contradiction|]. cbn [orb] in H1.
    unfold same_as_before in H1. cbn [fst snd] in H1.
    destruct (assoc k prev) as [b|]; [|discriminate]. exists b. auto.
  - intros n Hin. specialize (H2 _ Hin). now apply String.eqb_eq in H2.
Qed.

(** * UpdateMetadata touches nothing outside "meta", in any target *)

Lemma update_meta_frame t now :
  t_name t <> ""%string -> wf_tree (t_tree t) ->
  forall p0 rest, p0 <> md_root ->
    lookup (t_tree (fst (fst (update_meta t now)))) (p0 :: rest) = lookup (t_tree t) (p0 :: rest).
Proof.
  intros Hne Hwf p0 rest Hp. unfold update_meta. cbv zeta.
  match goal with |- context [generate_meta_updates ?x now] => set (t1 := x) end.
  destruct (generate_meta_updates_frame t1 now Hne Hwf) as (_ & _ & Hfr). exact (Hfr p0 rest Hp).
Qed.

(** every target of the cache after UpdateMetadata stores, outside "meta",
    exactly what it stored before *)
Theorem update_metadata_frame c now name :
  cinv c -> name <> ""%string ->
  forall p0 rest, p0 <> md_root ->
    match assoc name (c_targets (fst (fst (cache_update_metadata c now)))), assoc name (c_targets c) with
    | Some t', Some t => lookup (t_tree t') (p0 :: rest) = lookup (t_tree t) (p0 :: rest)
    | None, None => True
    | _, _ => False
    end.
Proof.
  intros Hc Hne p0 rest Hp. unfold cache_update_metadata.
  set (step := fun (st : cache * list notif * option N) (kt : string * target) =>
    match st with
    | (c', feed, Some w) => st
    | (c', feed, None) =>
        match assoc (fst kt) (c_targets c') with
        | None => st
        | Some t => let '(t', f, p) := update_meta t now in (set_target c' (fst kt) t', feed ++ f, p)
        end
    end).
  assert (H : forall l (st : cache * list notif * option N),
            cinv (fst (fst st)) ->
            cinv (fst (fst (fold_left step l st))) /\
            match assoc name (c_targets (fst (fst (fold_left step l st)))),
                  assoc name (c_targets (fst (fst st))) with
            | Some t', Some t => lookup (t_tree t') (p0 :: rest) = lookup (t_tree t) (p0 :: rest)
            | None, None => True
            | _, _ => False
            end).
  { induction l as [|kt l IH]; intros st Hst; cbn [fold_left].
    - split; [exact Hst|]. destruct (assoc name (c_targets (fst (fst st)))); auto.
    - assert (Hs : cinv (fst (fst (step st kt))) /\
                   match assoc name (c_targets (fst (fst (step st kt)))),
                         assoc name (c_targets (fst (fst st))) with
                   | Some t', Some t => lookup (t_tree t') (p0 :: rest) = lookup (t_tree t) (p0 :: rest)
                   | None, None => True
                   | _, _ => False
                   end).
      { subst step. cbv beta. destruct st as [[c' feed] [w|]]; cbn [fst] in *.
        { split; [exact Hst|]. destruct (assoc name (c_targets c')); auto. }
        destruct (assoc (fst kt) (c_targets c')) as [t|] eqn:Ea; cbn [fst].
        2:{ split; [exact Hst|]. destruct (assoc name (c_targets c')); auto. }
        pose proof (update_meta_inv (fst kt) t now (proj2 Hst _ _ Ea)) as Hu.
        pose proof (update_meta_frame t now) as Hf.
        destruct (update_meta t now) as [[t' f] p]. cbn [fst] in *. destruct Hu as [Hi _].
        split; [now apply cinv_set_target|].
        cbn [c_targets set_target]. rewrite assoc_aset.
        destruct (String.eqb_spec name (fst kt)) as [->|Hn].
        - rewrite Ea. destruct (proj2 Hst _ _ Ea) as [[Hwf _] Hnm]. apply Hf; auto. congruence.
        - destruct (assoc name (c_targets c')); auto. }
      destruct Hs as [Hc1 Hm1]. destruct (IH _ Hc1) as [Hc2 Hm2]. split; [exact Hc2|].
      destruct (assoc name (c_targets (fst (fst (fold_left step l (step st kt)))))) as [t2|];
        destruct (assoc name (c_targets (fst (fst (step st kt))))) as [t1|];
        destruct (assoc name (c_targets (fst (fst st)))) as [t0|]; try contradiction; auto. congruence. }
  exact (proj2 (H (c_targets c) (c, [], None) Hc)).
Qed.

(** * Subscribers of one target do not depend on each other

    What a subscriber is sent in a step is a function of its own registration
    and the feed: connecting, disconnecting or blocking other subscribers (on
    nested or sibling paths of the same target, in any order) changes nothing
    for it. *)
Theorem subscriber_independent feed s others1 others2 :
  In (sub_step feed s) (map (sub_step feed) (others1 ++ s :: others2)).
Proof. apply in_map, in_or_app. right. now left. Qed.

Lemma cancel_sub_other i l j s :
  nth_error l j = Some s -> j <> i -> nth_error (cancel_sub i l) j = Some s.
Proof.
  revert i j. induction l as [|x l IH]; intros i j Hn Hne; [destruct j; discriminate|].
  destruct i as [|i]; destruct j as [|j]; cbn in *; try congruence; auto.
Qed.

(** a backlog only delays: releasing the blocked Send delivers exactly the
    concatenation of what each step would have delivered *)
Lemma zip_app_nil {A} (l : list (list A)) : zip_app (map (fun _ => []) l) l = l.
Proof. induction l as [|x l IH]; cbn; [reflexivity|now rewrite IH]. Qed.


(** * Round 6: names that look like defaults, and construction options *)

(** the per-root delete Reset announces is a whole-target delete only for the
    empty root name (which the tree cannot hold): whatever a root or origin is
    called -- openconfig, default, the target's own name, "*" -- its delete never
    ends a single-target stream *)
Theorem reset_root_delete_not_target_delete name r now :
  r <> ""%string -> is_target_delete (delete_noti name r now ["*"]) = false.
Proof.
  intros Hr. unfold is_target_delete, delete_noti. cbn [n_del n_prefix gp_of_opt gp_origin].
  destruct (String.eqb_spec r ""); [contradiction|reflexivity].
Qed.

Theorem reset_root_delete_keeps_stream name r now T q :
  r <> ""%string ->
  snd (stream_feed T q [delete_noti name r now ["*"]]) = false.
Proof.
  intros Hr. cbn [stream_feed]. rewrite (reset_root_delete_not_target_delete name r now Hr).
  rewrite andb_false_r. destruct (offered T q (delete_noti name r now ["*"])); reflexivity.
Qed.

(** cache.WithServerName: the refresh of the leaf meta/serverName keeps the
    invariant, touches no other target, announces only entries carrying the
    target's own name, and leaves every path outside meta/serverName alone *)
Lemma srv_refresh_inv sname now name t :
  tinv name t ->
  tinv name (fst (srv_refresh sname now t)) /\ Forall (owns name) (snd (srv_refresh sname now t)).
Proof.
  intros Hi. unfold srv_refresh.
  match goal with |- context [if ?b then _ else _] => destruct b end; [split; [exact Hi|constructor]|].
  destruct (gnmi_update1 t now (meta_noti (t_name t) now md_server_name (TStr sname))) as [t' r] eqn:E.
  assert (Ho : owns name (meta_noti (t_name t) now md_server_name (TStr sname)))
    by (destruct Hi as [_ Hn]; rewrite Hn; apply owns_meta_noti).
  destruct (tinv_step name t now _ t' r Hi Ho E) as [Hi' Hnd].
  destruct r as [[nd|]|e|w]; cbn [fst snd]; (split; [exact Hi'|]); try constructor; auto.
Qed.

Theorem srv_refresh_in_local sname now c name :
  cinv c ->
  cinv (fst (srv_refresh_in sname now c name)) /\
  Forall (owns name) (snd (srv_refresh_in sname now c name)) /\
  forall k, k <> name ->
    assoc k (c_targets (fst (srv_refresh_in sname now c name))) = assoc k (c_targets c).
Proof.
  intros Hc. unfold srv_refresh_in. destruct (assoc name (c_targets c)) as [t|] eqn:Ea.
  2:{ cbn. split; [exact Hc|]. split; [constructor|reflexivity]. }
  destruct (srv_refresh_inv sname now name t (proj2 Hc _ _ Ea)) as [Hi Hf].
  destruct (srv_refresh sname now t) as [t' l]. cbn [fst snd] in *.
  split; [now apply cinv_set_target|]. split; [exact Hf|]. intros k Hk. now apply set_target_other.
Qed.

Theorem srv_refresh_frame sname now t q :
  wf_tree (t_tree t) -> t_name t <> ""%string -> q <> [md_root; md_server_name] ->
  lookup (t_tree (fst (srv_refresh sname now t))) q = lookup (t_tree t) q.
Proof.
  intros Hwf Hne Hq. unfold srv_refresh.
  match goal with |- context [if ?b then _ else _] => destruct b end; [reflexivity|].
  destruct (gnmi_update1 t now (meta_noti (t_name t) now md_server_name (TStr sname))) as [t' r] eqn:E.
  pose proof (gnmi_update1_frame t now _ t' r [md_root; md_server_name] q Hwf E
                (unit_index_meta_noti _ _ _ _ Hne) Hq) as H.
  destruct r as [[nd|]|e|w]; exact H.
Qed.

(** * Round 7: Reset clears the data whatever the bookkeeping says

    The history [ops] is ANY list of calls: it may contain deletes / updates
    addressed to the metadata subtree (meta/targetLeaves, meta, meta/* ...),
    which rewrite the counters through [md_reset_entry] while the data leaves
    stay.  No hypothesis on the metadata of the target is needed: Reset deletes
    from the root map of the tree. *)
Lemma reset_clears_leaves_any_history cfg names ops name now t c' feed :
  name <> ""%string ->
  assoc name (c_targets (crun (new_cache cfg names) ops)) = Some t ->
  cache_reset (crun (new_cache cfg names) ops) now name = (c', feed, None) ->
  exists t', assoc name (c_targets c') = Some t' /\
    (forall p0 rest v, lookup (t_tree t') (p0 :: rest) = Some v -> p0 = md_root) /\
    (forall p0 rest v, lookup (t_tree t) (p0 :: rest) = Some v -> p0 <> md_root ->
       In (delete_noti name p0 now ["*"]) feed /\ qmatch [p0; "*"] (p0 :: rest) = true).
Proof.
  intros Hne Ha Hr.
  destruct (reachable_target cfg names ops name t Ha) as (Hwf & Hnm & _).
  unfold cache_reset in Hr. rewrite Ha in Hr.
  destruct (target_reset t now) as [[t' fd] p] eqn:E.
  inversion Hr; subst c' feed p; clear Hr.
  assert (Hne' : t_name t <> ""%string) by (rewrite Hnm; exact Hne).
  destruct (reset_clears_leaves t now t' fd Hwf Hne' E) as [H1 H2].
  exists t'. split.
  - unfold set_target; cbn [c_targets]. rewrite assoc_aset, String.eqb_refl. reflexivity.
  - split; [exact H1|]. intros p0 rest v Hl Hp. rewrite <- Hnm. exact (H2 p0 rest v Hl Hp).
Qed.

(** the hypotheses are satisfiable by a history in which the leaf counter lies:
    two data leaves stored, a delete addressed to meta/targetLeaves zeroes the
    counter, Reset is not refused *)
Definition ex7_del_counter (tgt : string) (ts : Z) : notif :=
  Notif ts (Some (gp_prefix tgt "" [])) None [] [gp_of_names [md_root; md_leaf_count]] false.
Definition ex7_ops : list mop := ex_ops ++ [MUpd 4 (ex7_del_counter "t" 4)].

Example ex7_reset_hyps :
  exists t c' feed,
    assoc "t" (c_targets (crun (new_cache ex_cfg ["t"; "u"]) ex7_ops)) = Some t /\
    md_get_int (t_meta t) md_leaf_count = Some 0 /\
    lookup (t_tree t) ["a"; "b"] <> None /\ lookup (t_tree t) ["a"; "c"] <> None /\
    cache_reset (crun (new_cache ex_cfg ["t"; "u"]) ex7_ops) 5 "t" = (c', feed, None).
Proof.
  vm_compute. do 3 eexists. repeat split; try reflexivity; discriminate.
Qed.

(** Proofs for C14 (Reset / Remove / isolation) over CacheModel.v + MultiCache.v. *)
From Gnmi Require Import Base.Prelude CTree.CTreeModel Path.PathModel Cache.CacheModel Cache.MultiCache.
Local Open Scope Z_scope.

(** Cache.Remove makes the name unknown to HasTarget, whatever the cache held. *)
Definition cache_wf (c : cache) : Prop := NoDup (keys (c_targets c)).

Lemma remove_unknown_has c now name :
  cache_wf c -> name <> "*"%string ->
  cache_has_target (fst (cache_remove c now name)) name = false.
Proof.
  intros Hwf Hs. unfold cache_has_target, cache_remove. cbn [fst c_targets].
  destruct (String.eqb name "") eqn:E1; [reflexivity|].
  destruct (String.eqb name "*") eqn:E2.
  - apply String.eqb_eq in E2. contradiction.
  - rewrite assoc_adel by exact Hwf. rewrite String.eqb_refl. reflexivity.
Qed.

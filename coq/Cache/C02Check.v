(** Correspondence evaluator shared by C02 and C03, and the executable
    specification K_P of C02.

    A case is a cache configuration and the list of API calls the harness made
    on one real [cache.Cache], each with what the implementation returned,
    projected: the error class of the call, the notifications handed to the
    callback registered with SetClient (read inside the callback), and the
    result of Query(t, [*]) for every target name used so far.

    [check_case] replays the calls
    (a) on the model of CacheModel.v -- correspondence, tag 1 -- and
    (b) on [sstep], a flat map from index paths to stored notifications updated
        by the rules of the property (newest timestamp wins, equal timestamp
        and different content replaces, identical is stale, conditional
        deletes, future guard) -- the property applied to the implementation's
        own answers, tag 2 (stored leaves) and tag 3 (error class).
    Definitions only. *)
From Gnmi Require Import Base.Prelude CTree.CTreeModel Path.PathModel Cache.CacheModel.
Local Open Scope Z_scope.

(** * Operations and observations *)

Inductive cop :=
| OUpd (now : Z) (n : notif)                       (* Cache.GnmiUpdate *)
| OReset (now : Z) (tgt : string)
| ORemove (now : Z) (tgt : string)
| OAdd (tgt : string)
| OSync (now : Z) (tgt : string)
| OConnect (now : Z) (tgt : string)
| OConnectError (now : Z) (tgt : string) (msg : string)
| OUpdateMeta (now : Z)
| OUpdT (now : Z) (tgt : string) (n : notif)       (* Cache.GetTarget(tgt).GnmiUpdate(n): a write through the exported Target handle *)
| ONop                                             (* harness-only step (a gated subscriber is held / released): the cache is not called *)
| OPair (a b : cop).                               (* [b] was issued from a second goroutine while [a] was parked inside its
                                                      critical section: must behave as [a] then [b] *)

Inductive rcls := ROk | RStale | RFuture | ROther | RMulti (l : list rcls) | RPanic
| ROvertook.   (* harness: the second writer of a pair finished while the first was still parked *)

Record cobs := Obs {
  o_res  : rcls;
  o_feed : list notif;
  o_dump : list (string * path * notif);
  o_mutated : bool            (* the caller's notification differs from its deep copy after the call *)
}.

Definition ccase := (config * list string * list (cop * cobs))%type.

(** monomorphic constructors used by the generated case files (cheaper to
    elaborate than nested pairs) *)
Definition DE (t : string) (p : path) (n : notif) : string * path * notif := (t, p, n).
Definition STEP (o : cop) (r : rcls) (feed : list notif) (dump : list (string * path * notif))
  (m : bool) : cop * cobs := (o, Obs r feed dump m).

Fixpoint rcls_eqb (a b : rcls) {struct a} : bool :=
  match a, b with
  | ROk, ROk | RStale, RStale | RFuture, RFuture | ROther, ROther | RPanic, RPanic | ROvertook, ROvertook => true
  | RMulti x, RMulti y =>
      (fix go (x y : list rcls) {struct x} : bool :=
         match x, y with
         | [], [] => true
         | a :: x', b :: y' => rcls_eqb a b && go x' y'
         | _, _ => false
         end) x y
  | _, _ => false
  end.

Definition cls_of_err (e : N) : rcls :=
  if N.eqb e err_stale then RStale else if N.eqb e err_future then RFuture else ROther.

Definition rcls_of (r : gres) : rcls :=
  match r with
  | GOk => ROk
  | GErr e => cls_of_err e
  | GErrs es => RMulti (map cls_of_err es)
  | GPanic _ => RPanic
  end.

(** * Comparison helpers *)

Fixpoint remove_first (x : notif) (l : list notif) : option (list notif) :=
  match l with
  | [] => None
  | y :: l' => if notif_eqb x y then Some l'
               else match remove_first x l' with Some r => Some (y :: r) | None => None end
  end.

(** equality of two lists of notifications as multisets *)
Fixpoint bag_eqb (a b : list notif) : bool :=
  match a with
  | [] => match b with [] => true | _ => false end
  | x :: a' => match remove_first x b with Some b' => bag_eqb a' b' | None => false end
  end.

Fixpoint inserts {A} (x : A) (l : list A) : list (list A) :=
  match l with
  | [] => [[x]]
  | y :: l' => (x :: l) :: map (cons y) (inserts x l')
  end.

Fixpoint perms {A} (l : list A) : list (list A) :=
  match l with
  | [] => [[]]
  | x :: l' => flat_map (inserts x) (perms l')
  end.

Definition alias_free (removed : list notif) : bool :=
  negb defect_c03_1_alias ||
  forallb (fun d => match alias_write d with None => true | Some _ => false end) removed.

(** the implementation's chunk of feed entries agrees with a model group: an
    accepted update exactly; the deletes of one gnmiRemove for SOME visiting
    order of the removed leaves (Go map order) *)
Definition group_matches (g : fgroup) (chunk : list notif) : bool :=
  match g with
  | FUpd n => match chunk with [m] => notif_eqb n m | _ => false end
  | FDel removed ts =>
      if alias_free removed then bag_eqb (render_deletes removed ts) chunk
      else existsb (fun pi => list_eqb notif_eqb (render_deletes pi ts) chunk) (perms removed)
  end.

Definition group_size (g : fgroup) : nat :=
  match g with FUpd _ => 1%nat | FDel r _ => List.length r end.

Fixpoint feed_matches (gs : list fgroup) (feed : list notif) : bool :=
  match gs with
  | [] => match feed with [] => true | _ :: _ => false end
  | g :: gs' =>
      group_matches g (firstn (group_size g) feed) &&
      feed_matches gs' (skipn (group_size g) feed)
  end.

Definition dump_entry := (string * path * notif)%type.

(** Index paths under "meta" are the cache's own bookkeeping: the harness
    projects them out of the dump and of the feed, and so does the model side. *)
Definition is_meta_path (p : path) : bool :=
  match p with k :: _ => String.eqb k "meta" | [] => false end.

(** index path of a stored notification (first update; the prefix alone when
    atomic) and of a delete notification's first delete *)
Definition stored_index (m : notif) : outcome path :=
  match n_upd m with
  | [] => Panic 0%N
  | u :: _ =>
      join_prefix_and_path (gp_of_opt (n_prefix m))
        (if n_atomic m then empty_gpath else gp_of_opt (u_path u))
  end.

Definition stored_is_meta (m : notif) : bool :=
  match stored_index m with Ok p => is_meta_path p | _ => false end.

Definition delete_is_meta (m : notif) : bool :=
  match n_del m with
  | d :: _ => match join_prefix_and_path (gp_of_opt (n_prefix m)) d with
              | Ok p => is_meta_path p | _ => false end
  | [] => false
  end.

Definition feed_entry_is_meta (m : notif) : bool :=
  match n_upd m with _ :: _ => stored_is_meta m | [] => delete_is_meta m end.

Definition drop_meta_group (g : fgroup) : list fgroup :=
  match g with
  | FUpd n => if stored_is_meta n then [] else [g]
  | FDel removed ts => [FDel (filter (fun d => negb (stored_is_meta d)) removed) ts]
  end.

Definition dump_leb (a b : dump_entry) : bool :=
  if String.eqb (fst (fst a)) (fst (fst b))
  then path_leb (snd (fst a)) (snd (fst b))
  else String.leb (fst (fst a)) (fst (fst b)).

Definition sort_dump (l : list dump_entry) : list dump_entry := isort dump_leb l.

Definition dump_entry_eqb (a b : dump_entry) : bool :=
  String.eqb (fst (fst a)) (fst (fst b)) && path_eqb (snd (fst a)) (snd (fst b)) &&
  notif_eqb (snd a) (snd b).

Definition dump_eqb (a b : list dump_entry) : bool :=
  list_eqb dump_entry_eqb (sort_dump a) (sort_dump b).

(** * The model side *)

Inductive mfeed :=
| MGroups (gs : list fgroup)     (* in order, group by group *)
| MBag (l : list notif)          (* order not specified (Go map iteration) *)
| MSeq (a b : mfeed).            (* first everything of [a], then everything of [b] *)

(** number of (non-meta) feed entries *)
Fixpoint mfeed_size (m : mfeed) : nat :=
  match m with
  | MGroups gs => fold_right (fun g k => (group_size g + k)%nat) 0%nat (flat_map drop_meta_group gs)
  | MBag l => List.length (filter (fun m => negb (feed_entry_is_meta m)) l)
  | MSeq a b => (mfeed_size a + mfeed_size b)%nat
  end.

Fixpoint mfeed_matches (m : mfeed) (feed : list notif) : bool :=
  match m with
  | MGroups gs => feed_matches (flat_map drop_meta_group gs) feed
  | MBag l => bag_eqb (filter (fun m => negb (feed_entry_is_meta m)) l) feed
  | MSeq a b => mfeed_matches a (firstn (mfeed_size a) feed) && mfeed_matches b (skipn (mfeed_size a) feed)
  end.

Definition opt_panic (o : option N) : rcls := match o with Some _ => RPanic | None => ROk end.

(** calls whose error is only logged return nothing; a panic is still seen *)
Definition quiet (r : gres) : rcls := match r with GPanic _ => RPanic | _ => ROk end.

(** result class of a pair: both classes, a panic of either is a panic *)
Definition pair_cls (a b : rcls) : rcls :=
  match a, b with
  | RPanic, _ | _, RPanic => RPanic
  | _, _ => RMulti [a; b]
  end.

Fixpoint mstep (c : cache) (o : cop) {struct o} : cache * rcls * mfeed :=
  match o with
  | OUpd now n => let '(c', gs, r) := cache_gnmi_update c now n in (c', rcls_of r, MGroups gs)
  | OReset now tgt => let '(c', l, p) := cache_reset c now tgt in (c', opt_panic p, MBag l)
  | ORemove now tgt => let '(c', l) := cache_remove c now tgt in (c', ROk, MBag l)
  | OAdd tgt => (cache_add c tgt, ROk, MBag [])
  | OSync now tgt => let '(c', gs, r) := cache_sync c now tgt in (c', quiet r, MGroups gs)
  | OConnect now tgt => let '(c', gs, r) := cache_connect c now tgt in (c', quiet r, MGroups gs)
  | OConnectError now tgt msg =>
      let '(c', gs, r) := cache_connect_error c now tgt msg in (c', quiet r, MGroups gs)
  | OUpdateMeta now => let '(c', l, p) := cache_update_metadata c now in (c', opt_panic p, MBag l)
  | OUpdT now tgt n =>
      (* the handle stores in ITS target whatever the prefix says; no handle: the harness does not call *)
      match assoc tgt (c_targets c) with
      | None => (c, ROther, MGroups [])
      | Some t => let '(t', gs, r) := target_gnmi_update t now n in (set_target c tgt t', rcls_of r, MGroups gs)
      end
  | ONop => (c, ROk, MBag [])
  | OPair a b =>
      let '(c1, r1, f1) := mstep c a in
      let '(c2, r2, f2) := mstep c1 b in
      (c2, pair_cls r1 r2, MSeq f1 f2)
  end.

Definition mdump_all (c : cache) : list dump_entry :=
  flat_map (fun kt => map (fun pv => (fst kt, fst pv, snd pv))
                          (CTreeModel.query (t_tree (snd kt)) ["*"])) (c_targets c).

Definition non_meta (l : list dump_entry) : list dump_entry :=
  filter (fun e => negb (is_meta_path (snd (fst e)))) l.

Definition mdump (c : cache) : list dump_entry := non_meta (mdump_all c).

(** * The specification side of C02: a flat map per target

    Index paths under "meta" are the cache's own bookkeeping and are projected
    out (the property does not speak about them). *)

Record starget := ST {
  s_leaves : list (path * notif);
  s_latest : option Z            (* latest accepted timestamp; None: none yet *)
}.

Definition sstate := list (string * starget).

Fixpoint slookup (f : list (path * notif)) (p : path) : option notif :=
  match f with
  | [] => None
  | (q, v) :: f' => if path_eqb p q then Some v else slookup f' p
  end.

Definition sremove (f : list (path * notif)) (p : path) : list (path * notif) :=
  filter (fun qv => negb (path_eqb (fst qv) p)) f.

Definition sconflict (f : list (path * notif)) (p : path) : bool :=
  existsb (fun qv => strict_prefix (fst qv) p || strict_prefix p (fst qv)) f.

(** events of one notification, in the order the property prescribes: the
    updates, then the deletes; an atomic notification is one event *)
Inductive sev :=
| SUpd (m : notif)              (* a notification with exactly one stored unit *)
| SDel (q : gpath) (ts : Z).

Definition single (n : notif) (u : update) : notif :=
  Notif (n_ts n) (n_prefix n) None [u] [] (n_atomic n).

(** [None]: the whole notification is refused *)
Definition events (n : notif) : option (list sev) :=
  if n_atomic n then
    match n_del n, n_upd n with
    | _ :: _, _ => None
    | [], [] => Some []
    | [], _ :: _ => Some [SUpd n]
    end
  else Some (map (fun u => SUpd (single n u)) (n_upd n) ++ map (fun d => SDel d (n_ts n)) (n_del n)).

(** index path of a stored unit / of a delete *)
Definition upd_index := stored_index.

Definition del_index (pr : option gpath) (q : gpath) : outcome path :=
  join_prefix_and_path (gp_of_opt pr) q.

(** the future guard of the property: threshold configured, the update is
    further ahead of the clock than the threshold, a latest timestamp > 0 is
    known and the update is further ahead of it than the threshold *)
Definition sfuture (thr now : Z) (latest : option Z) (ts : Z) : bool :=
  Z.ltb 0 thr && Z.ltb thr (ts - now) &&
  match latest with
  | Some l => Z.ltb 0 l && Z.ltb thr (ts - l)
  | None => false
  end.

(** one leaf, one update: the new content of the leaf ([None]: unchanged)
    and the class the call reports for it *)
Definition leaf_update (thr now : Z) (latest : option Z) (old : option notif) (m : notif)
  : option notif * rcls :=
  match old with
  | None => (Some m, ROk)
  | Some o =>
      if Z.ltb (n_ts m) (n_ts o) then (None, RStale)
      else if Z.eqb (n_ts m) (n_ts o) then
        if notif_eqb o m then (None, RStale) else (Some m, ROk)
      else if sfuture thr now latest (n_ts m) then (None, RFuture)
      else (Some m, ROk)
  end.

(** result of applying one event: new leaves, class ([None]: the property
    says nothing about the class), accepted? *)
Definition sev_step (thr now : Z) (latest : option Z) (pr : option gpath)
  (f : list (path * notif)) (e : sev) : list (path * notif) * option rcls * bool :=
  match e with
  | SUpd m =>
      match upd_index m with
      | Ok ((k :: _) as p) =>
          if String.eqb k "meta" then (f, None, false)
          else if sconflict f p then (f, Some ROther, false)
          else match leaf_update thr now latest (slookup f p) m with
               | (Some v, c) => ((p, v) :: sremove f p, Some c, true)
               | (None, c) => (f, Some c, false)
               end
      | _ => (f, None, false)
      end
  | SDel q ts =>
      match del_index pr q with
      | Ok p =>
          if is_meta_path p then (f, None, false)
          else (filter (fun qv => negb (qmatch p (fst qv) && Z.ltb (n_ts (snd qv)) ts)) f,
                Some ROk, false)
      | _ => (f, None, false)
      end
  end.

(** does the notification move the latest accepted timestamp: it has an update
    and its index list (target first) has a second element other than "meta" *)
Definition stracks (n : notif) : bool :=
  match n_upd n with
  | u :: _ =>
      match to_strings true (gp_of_opt (n_prefix n)) ++
            to_strings false (if n_atomic n then empty_gpath else gp_of_opt (u_path u)) with
      | _ :: p1 :: _ => negb (String.eqb p1 "meta")
      | _ => false
      end
  | [] => false
  end.

Definition smax (latest : option Z) (ts : Z) : option Z :=
  match latest with
  | None => Some ts
  | Some l => Some (Z.max l ts)
  end.

(** a whole notification on one target: new state and the expected class
    ([None]: not constrained -- some event was not) *)
Definition snotif (thr now : Z) (st : starget) (n : notif) : starget * option rcls :=
  match events n with
  | None => (st, Some ROther)
  | Some evs =>
      let '(f, cls, acc, free) :=
        fold_left (fun a e =>
                     let '(f, cls, acc, free) := a in
                     let '(f', c, ok) := sev_step thr now (s_latest st) (n_prefix n) f e in
                     (f',
                      match e, c with
                      | SUpd _, Some ROk => cls
                      | SUpd _, Some x => cls ++ [x]
                      | _, _ => cls
                      end,
                      acc || ok,
                      match c with None => true | Some _ => free end))
                  evs (s_leaves st, [], false, false) in
      (ST f (if stracks n && acc then smax (s_latest st) (n_ts n) else s_latest st),
       if free then None
       else match cls with
            | [] => Some ROk
            | [x] => if (Nat.eqb (List.length (n_upd n) + List.length (n_del n)) 1 || n_atomic n)%bool
                     then Some x else Some (RMulti cls)
            | _ => Some (RMulti cls)
            end)
  end.

Fixpoint sstep (cfg : config) (s : sstate) (o : cop) {struct o} : sstate * option rcls :=
  match o with
  | OUpd now n =>
      match n_prefix n with
      | None => (s, Some ROther)
      | Some pr =>
          match assoc (gp_target pr) s with
          | None => (s, Some ROther)
          | Some st =>
              let '(st', c) := snotif (cfg_future_threshold cfg) now st n in
              (aset (gp_target pr) st' s, c)
          end
      end
  | OReset _ tgt =>
      match assoc tgt s with
      | None => (s, None)
      | Some _ => (aset tgt (ST [] None) s, None)
      end
  | ORemove _ tgt => (adel tgt s, None)
  | OAdd tgt => (aset tgt (ST [] None) s, None)
  | OPair a b =>
      let '(s1, r1) := sstep cfg s a in
      let '(s2, r2) := sstep cfg s1 b in
      (s2, match r1, r2 with Some x, Some y => Some (pair_cls x y) | _, _ => None end)
  | _ => (s, None)
  end.

Definition sdump (s : sstate) : list dump_entry :=
  flat_map (fun kt => map (fun pv => (fst kt, fst pv, snd pv)) (s_leaves (snd kt))) s.

(** * Verdicts

    tag 1: implementation differs from the model (class, feed or stored leaves);
    tag 2: the stored non-meta leaves differ from the flat specification;
    tag 3: the error class differs from the one the specification prescribes. *)

Fixpoint check_from (cfg : config) (i : nat) (c : cache) (s : sstate) (l : list (cop * cobs))
  : list (nat * N) :=
  match l with
  | [] => []
  | (o, r) :: l' =>
      let '(c', mr, mf) := mstep c o in
      let '(s', sr) := sstep cfg s o in
      let v1 := if rcls_eqb mr (o_res r) && mfeed_matches mf (o_feed r) && dump_eqb (mdump c') (o_dump r)
                then [] else [(i, 1%N)] in
      let v2 := if dump_eqb (sdump s') (non_meta (o_dump r)) then [] else [(i, 2%N)] in
      let v3 := match sr with
                | Some x => if rcls_eqb x (o_res r) then [] else [(i, 3%N)]
                | None => []
                end in
      v1 ++ v2 ++ v3 ++ check_from cfg (S i) c' s' l'
  end.

Definition check_case (cs : ccase) : list (nat * N) :=
  let '(cfg, names, l) := cs in
  check_from cfg 0 (new_cache cfg names) (map (fun k => (k, ST [] None)) names) l.

Fixpoint check_all_from (i : nat) (cs : list ccase) : list (nat * nat * N) :=
  match cs with
  | [] => []
  | c :: cs' => map (fun sn => (i, fst sn, snd sn)) (check_case c) ++ check_all_from (S i) cs'
  end.

Definition check_all (cs : list ccase) : list (nat * nat * N) := check_all_from 0 cs.

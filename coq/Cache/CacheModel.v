(** Executable model of cache/cache.go (sequential semantics), definitions only.

    What is modelled: Cache.{Add, Remove, Reset, GnmiUpdate, Sync, Connect,
    ConnectError, UpdateMetadata, Query}, Target.GnmiUpdate (dispatch atomic /
    multi / single update / single delete / empty), gnmiUpdate (metadata side
    effects before the stale check, existing-leaf switch, overwrite,
    event-driven suppression, add), gnmiRemove + toDeleteNotification,
    updateMeta / generateMetaUpdates, checkTimestamp, metadata.Metadata
    (Clear, ResetEntry, AddInt, the setters and getters).

    Conventions.
    - Every entry point returns the new state together with an explicit
      outcome; [Panic] is produced exactly where the Go code indexes out of
      range, dereferences nil or fails an unchecked type assertion.  Side
      effects made before an error / panic are kept (as in Go).
    - The clock [cache.Now] is a parameter [now] of every entry point: one
      reading per API call (the harness overrides [cache.Now] with a constant
      per call).
    - Go maps are association lists; the iteration order of
      [generateMetaUpdates] and of [Reset] over the root's children is FIXED
      here (registration order / map order of the model) -- the feed of these
      calls is compared up to permutation, and their final state does not
      depend on the order as long as no generated metadata update is rejected
      as stale (clock not running backwards across metadata refreshes).
    - Not modelled: latency windows / server name options (cache created
      without them), UpdateSize (json sizes), nil [*gnmi.Update] elements
      inside [Notification.Update] (gnmiUpdate dereferences [n.Update[0]] on
      its first line: always a panic), int64 overflow of timestamp differences
      (unbounded [Z]).  Typed values are those of Value/ValueModel.v (every arm
      of the oneof, floats as bit patterns) and [value.Equal] is its [equal].
    - A notification carries, beside its protobuf content, [n_pcap]: the
      identity of the backing array of [Prefix.Elem] and its spare capacity
      ([cap - len]), which is what [append(prefix.GetElem(), ...)] in
      toDeleteNotification depends on (DEFECT C03_1).  [proto.Equal] ignores
      it. *)
From Gnmi Require Export Base.Prelude CTree.CTreeModel Path.PathModel.
From Gnmi Require Import Value.ValueModel.
Local Open Scope Z_scope.

(** * Defect switches (see /verif/fixes/C03_*.diff)

    [true]: the model follows the code as it was before the fix; [false]: as
    it is now.  Both fixes are committed in /repo, both switches are off. *)

(* DEFECT C03_1 (fixed by /repo 20c4a71, fixes/C03_1_delete_alias.diff):
   toDeleteNotification appended to the stored notification's prefix slice;
   with spare capacity in a shared backing array all delete notifications of
   one gnmiRemove aliased it.  [false]: a fresh slice, every delete
   notification carries its own path. *)
Definition defect_c03_1_alias : bool := false.

(* DEFECT C03_2 (fixed by /repo 4775c12, fixes/C03_2_atomic_suppress.diff):
   event-driven suppression compared [old.Update[0].Val] with the new value
   even when [old] was an atomic container.  [false]: suppression requires
   [!old.Atomic]. *)
Definition defect_c03_2_atomic_suppress : bool := false.

(** * Typed values: the model of value/value.go (Value/ValueModel.v)

    [u_val : option tv]: [None] is the nil [*TypedValue]; the constructors of
    [tv] are re-exported under the short names this file used before it
    adopted ValueModel's type. *)

Notation tv := ValueModel.tv.
Notation TStr := ValueModel.TVString.
Notation TInt := ValueModel.TVInt.
Notation TUint := ValueModel.TVUint.
Notation TBool := ValueModel.TVBool.
Notation TBytes := ValueModel.TVBytes.
Notation TJson := ValueModel.TVJson.
Notation TNone := ValueModel.TVunset.       (* &TypedValue{} : Value == nil *)

(** proto.Equal on floating point fields: [==], except that two NaNs are equal *)
Definition pf64_eq (a b : N) : bool := f64_eq a b || (f64_is_nan a && f64_is_nan b).
Definition pf32_eq (a b : N) : bool := f32_eq a b || (f32_is_nan a && f32_is_nan b).

(** proto.Equal on TypedValue (a nil inner Decimal64 / ScalarArray cannot
    arrive over the wire and is compared structurally) *)
Fixpoint tv_eqb (a b : tv) {struct a} : bool :=
  match a, b with
  | TVnil, TVnil | TVunset, TVunset | TVDecimalNil, TVDecimalNil
  | TVLeaflistNil, TVLeaflistNil | TVAny, TVAny => true
  | TVString x, TVString y | TVBytes x, TVBytes y | TVJson x, TVJson y
  | TVJsonIetf x, TVJsonIetf y | TVAscii x, TVAscii y | TVProtoBytes x, TVProtoBytes y => String.eqb x y
  | TVInt x, TVInt y => Z.eqb x y
  | TVUint x, TVUint y => N.eqb x y
  | TVBool x, TVBool y => Bool.eqb x y
  | TVFloat x, TVFloat y => pf32_eq x y
  | TVDouble x, TVDouble y => pf64_eq x y
  | TVDecimal g p, TVDecimal g' p' => Z.eqb g g' && N.eqb p p'
  | TVLeaflist x, TVLeaflist y =>
      (fix go (x y : list tv) {struct x} : bool :=
         match x, y with
         | [], [] => true
         | p :: x', q :: y' => tv_eqb p q && go x' y'
         | _, _ => false
         end) x y
  | _, _ => false
  end.

Definition otv_eqb (a b : option tv) : bool :=
  match a, b with
  | Some x, Some y => tv_eqb x y
  | None, None => true
  | _, _ => false
  end.

(** value.Equal(a, b) on [*TypedValue]: ValueModel.equal (total since b28d6aa);
    a nil pointer on either side is "not equal" *)
Definition value_equal (a b : option tv) : bool :=
  match a, b with
  | Some x, Some y => match ValueModel.equal x y with Ok true => true | _ => false end
  | _, _ => false
  end.

(** * Notifications *)

Record update := Upd {
  u_path : option gpath;      (* nil *Path allowed *)
  u_val  : option tv;         (* nil *TypedValue allowed *)
  u_dup  : Z                  (* Update.Duplicates *)
}.

Record notif := Notif {
  n_ts     : Z;
  n_prefix : option gpath;
  n_pcap   : option (N * N);  (* backing array id and spare capacity of Prefix.Elem; None: cap = len *)
  n_upd    : list update;
  n_del    : list gpath;
  n_atomic : bool
}.

(** ** proto.Equal on the modelled messages *)

Fixpoint list_eqb {A} (e : A -> A -> bool) (a b : list A) : bool :=
  match a, b with
  | [], [] => true
  | x :: a', y :: b' => e x y && list_eqb e a' b'
  | _, _ => false
  end.

(** two Go maps are equal: same size, same binding for every key *)
Definition keymap_eqb (a b : list (string * string)) : bool :=
  Nat.eqb (List.length a) (List.length b) &&
  forallb (fun kv => match assoc (fst kv) b with
                     | Some v => String.eqb v (snd kv)
                     | None => false
                     end) a.

Definition pelem_eqb (a b : pelem) : bool :=
  String.eqb (fst a) (fst b) && keymap_eqb (snd a) (snd b).

Definition gpath_eqb (a b : gpath) : bool :=
  String.eqb (gp_target a) (gp_target b) &&
  String.eqb (gp_origin a) (gp_origin b) &&
  list_eqb pelem_eqb (gp_elems a) (gp_elems b) &&
  list_eqb String.eqb (gp_element a) (gp_element b).

Definition ogpath_eqb (a b : option gpath) : bool :=
  match a, b with
  | Some x, Some y => gpath_eqb x y
  | None, None => true
  | _, _ => false
  end.

Definition update_eqb (a b : update) : bool :=
  ogpath_eqb (u_path a) (u_path b) && otv_eqb (u_val a) (u_val b) && Z.eqb (u_dup a) (u_dup b).

(** proto.Equal(a, b) for notifications ([n_pcap] is not protobuf content) *)
Definition notif_eqb (a b : notif) : bool :=
  Z.eqb (n_ts a) (n_ts b) &&
  ogpath_eqb (n_prefix a) (n_prefix b) &&
  list_eqb update_eqb (n_upd a) (n_upd b) &&
  list_eqb gpath_eqb (n_del a) (n_del b) &&
  Bool.eqb (n_atomic a) (n_atomic b).

(** * metadata.Metadata *)

Definition md_root := "meta".
Definition md_sync := "sync".
Definition md_connected := "connected".
Definition md_connected_addr := "connectedAddress".
Definition md_add_count := "targetLeavesAdded".
Definition md_del_count := "targetLeavesDeleted".
Definition md_empty_count := "targetLeavesEmpty".
Definition md_leaf_count := "targetLeaves".
Definition md_update_count := "targetLeavesUpdated".
Definition md_stale_count := "targetLeavesStale".
Definition md_future_count := "targetLeavesFuture".
Definition md_suppressed_count := "targetLeavesSuppressed".
Definition md_size := "targetSize".
Definition md_latest_ts := "latestTimestamp".
Definition md_connect_error := "connectError".

(** registered names, in the fixed order the model iterates them *)
Definition md_bool_names := [md_sync; md_connected].
Definition md_int_names :=
  [md_add_count; md_del_count; md_empty_count; md_leaf_count; md_update_count;
   md_stale_count; md_future_count; md_suppressed_count; md_size; md_latest_ts].
Definition md_str_names := [md_connected_addr; md_connect_error].

Definition name_in (k : string) (l : list string) : bool := existsb (String.eqb k) l.

Record metadata := Meta {
  m_int  : list (string * Z);
  m_bool : list (string * bool);
  m_str  : list (string * string)
}.

Definition md_set_int (m : metadata) (k : string) (v : Z) : metadata :=
  if name_in k md_int_names then Meta (aset k v (m_int m)) (m_bool m) (m_str m) else m.

(** AddInt: [m.valuesInt[value] += i] (an absent entry counts as 0) *)
Definition md_add_int (m : metadata) (k : string) (i : Z) : metadata :=
  if name_in k md_int_names
  then Meta (aset k ((match assoc k (m_int m) with Some v => v | None => 0 end) + i) (m_int m))
            (m_bool m) (m_str m)
  else m.

Definition md_set_bool (m : metadata) (k : string) (v : bool) : metadata :=
  if name_in k md_bool_names then Meta (m_int m) (aset k v (m_bool m)) (m_str m) else m.

Definition md_set_str (m : metadata) (k : string) (v : string) : metadata :=
  if name_in k md_str_names then Meta (m_int m) (m_bool m) (aset k v (m_str m)) else m.

(** Get*: [None] = ErrInvalidValue or ErrUnsetValue *)
Definition md_get_int (m : metadata) (k : string) : option Z :=
  if name_in k md_int_names then assoc k (m_int m) else None.
Definition md_get_bool (m : metadata) (k : string) : option bool :=
  if name_in k md_bool_names then assoc k (m_bool m) else None.
Definition md_get_str (m : metadata) (k : string) : option string :=
  if name_in k md_str_names then assoc k (m_str m) else None.

(** ResetEntry: every registered int has InitZero; connectedAddress resets to
    the empty string, connectError is deleted; an unknown entry is an error
    that every caller ignores. *)
Definition md_reset_entry (m : metadata) (k : string) : metadata :=
  if name_in k md_bool_names then md_set_bool m k false
  else if name_in k md_int_names then md_set_int m k 0
  else if String.eqb k md_connected_addr then md_set_str m k ""
  else if String.eqb k md_connect_error then Meta (m_int m) (m_bool m) (adel k (m_str m))
  else m.

Definition md_clear (m : metadata) : metadata :=
  fold_left md_reset_entry (md_bool_names ++ md_int_names ++ md_str_names) m.

Definition md_new : metadata := md_clear (Meta [] [] []).

(** metadata.Path(value): nil for an unregistered name *)
Definition md_path (k : string) : option path :=
  if name_in k md_bool_names || name_in k md_str_names || name_in k md_int_names
  then Some [md_root; k] else None.

(** * Targets *)

Record config := Cfg {
  cfg_future_threshold : Z;         (* nanoseconds; <= 0: check disabled *)
  cfg_event_driven : bool;          (* !DisableEventDriven *)
  cfg_excluded : list string        (* excludedUpdateMeta *)
}.

Record target := Target {
  t_name : string;
  t_tree : tree notif;
  t_sync : bool;
  t_meta : metadata;
  t_lat  : list Z;                  (* timestamps handed to lat.Compute since the last UpdateReset *)
  t_ts   : option Z;                (* latest timestamp; None = time.Time{} *)
  t_cfg  : config
}.

Definition set_tree (t : target) (tr : tree notif) : target :=
  Target (t_name t) tr (t_sync t) (t_meta t) (t_lat t) (t_ts t) (t_cfg t).
Definition set_sync (t : target) (b : bool) : target :=
  Target (t_name t) (t_tree t) b (t_meta t) (t_lat t) (t_ts t) (t_cfg t).
Definition set_meta (t : target) (m : metadata) : target :=
  Target (t_name t) (t_tree t) (t_sync t) m (t_lat t) (t_ts t) (t_cfg t).
Definition set_lat (t : target) (l : list Z) : target :=
  Target (t_name t) (t_tree t) (t_sync t) (t_meta t) l (t_ts t) (t_cfg t).
Definition set_ts (t : target) (z : option Z) : target :=
  Target (t_name t) (t_tree t) (t_sync t) (t_meta t) (t_lat t) z (t_cfg t).

Definition add_int (t : target) (k : string) (i : Z) : target :=
  set_meta t (md_add_int (t_meta t) k i).

Definition new_target (name : string) (c : config) : target :=
  Target name None false md_new [] None c.

(** time.Time{}.UnixNano() as Go computes it (wrapped) *)
Definition zero_time_unixnano : Z := -6795364578871345152.

Definition ts_unixnano (o : option Z) : Z :=
  match o with Some z => z | None => zero_time_unixnano end.

(** checkTimestamp: [if ts.After(t.ts) { t.ts = ts }]; the zero time is before
    every [T(n)] *)
Definition check_timestamp (t : target) (ts : Z) : target :=
  match t_ts t with
  | None => set_ts t (Some ts)
  | Some z => if Z.ltb z ts then set_ts t (Some ts) else t
  end.

(** ** error and panic classes *)
Definition err_stale : N := 1.
Definition err_future : N := 2.
Definition err_collision : N := 3.      (* "corrupt schema with collision" *)
Definition err_add : N := 4.            (* ctree Add refused the path *)
Definition err_meta_type : N := 5.      (* meta/sync|connected|connectedAddress|connectError of the wrong type *)
Definition err_atomic_delete : N := 6.  (* "atomic deletes unsupported" *)
Definition err_no_prefix : N := 7.      (* Cache.GnmiUpdate: prefix is nil *)
Definition err_no_target : N := 8.      (* Cache.GnmiUpdate: unknown target *)
Definition err_invalid_path : N := 9.   (* gnmiUpdate: empty index path, or [meta] alone *)

Definition panic_join : N := 1.         (* joinPrefixAndPath: p[1:] of an empty slice *)
Definition panic_path0 : N := 2.        (* (no longer produced: fixed by 30e1165) path[0] of an empty index path *)
Definition panic_path1 : N := 3.        (* (no longer produced: fixed by 30e1165) path[1] of the path [meta] *)
Definition panic_no_update : N := 4.    (* n.Update[0] of an empty list *)
Definition panic_nil_val : N := 5.      (* Update[0].Val == nil read by generateMetaUpdates *)
Definition panic_meta_assert : N := 6.  (* generateMetaUpdates: unchecked type assertion on the stored value *)
Definition panic_old_update : N := 7.   (* old.Update[0] of a stored notification without updates *)

(** joinPrefixAndPath (PathModel) with its panic renumbered *)
Definition join_path (pr ph : option gpath) : outcome path :=
  match join_prefix_and_path (gp_of_opt pr) (gp_of_opt ph) with
  | Ok p => Ok p
  | Err e => Err e
  | Panic _ => Panic panic_join
  end.

(** ** gnmiUpdate *)

(** the metadata side effects made before the leaf is looked at
    ([path[0] == "meta"], [k = path[1]], [two]: [len(path) == 2]).  A missing
    value ([u.GetVal().GetValue()] of nil) fails the type test like a value of
    the wrong kind; a registered integer leaf [meta/<counter>] only takes an
    integer. *)
Definition meta_side_effect (t : target) (k : string) (two : bool) (u : update) : target * outcome unit :=
  if String.eqb k md_sync then
    match u_val u with
    | Some (TBool b) => (set_meta (set_sync t b) (md_set_bool (t_meta t) md_sync b), Ok tt)
    | _ => (t, Err err_meta_type)
    end
  else if String.eqb k md_connected then
    match u_val u with
    | Some (TBool b) => (set_meta t (md_set_bool (t_meta t) md_connected b), Ok tt)
    | _ => (t, Err err_meta_type)
    end
  else if String.eqb k md_connected_addr || String.eqb k md_connect_error then
    match u_val u with
    | Some (TStr s) => (set_meta t (md_set_str (t_meta t) k s), Ok tt)
    | _ => (t, Err err_meta_type)
    end
  else if two && name_in k md_int_names then
    match u_val u with
    | Some (TInt _) => (t, Ok tt)
    | _ => (t, Err err_meta_type)
    end
  else (t, Ok tt).

(** the future test of the existing-leaf switch (third case):
    [t.futureThreshold > 0 && nts.Sub(Now()) > t.futureThreshold], then
    accepted when [t.ts.UnixNano() <= 0] or [nts.Sub(t.ts) <= threshold] *)
Definition future_rejected (t : target) (now ts : Z) : bool :=
  let thr := cfg_future_threshold (t_cfg t) in
  Z.ltb 0 thr && Z.ltb thr (ts - now) &&
  negb (Z.leb (ts_unixnano (t_ts t)) 0) &&
  negb (Z.leb (ts - ts_unixnano (t_ts t)) thr).

(** replace the value of the existing leaf at [p] (Leaf.Update) *)
Definition tree_set (tr : tree notif) (p : path) (n : notif) : tree notif :=
  match CTreeModel.add tr p n with Some tr' => tr' | None => tr end.

Definition lat_compute (t : target) (real : bool) (ts : Z) : target :=
  if t_sync t && real then set_lat t (ts :: t_lat t) else t.

(** the part of gnmiUpdate before the leaf is looked at: [path[0]],
    [path[1]] and the metadata side effects *)
Definition is_real (p : path) : bool :=
  match p with p0 :: _ => negb (String.eqb p0 md_root) | [] => true end.

Definition update_pre (t : target) (p : path) (u : update) : target * outcome unit :=
  match p with
  | [] => (t, Err err_invalid_path)            (* "invalid path" *)
  | p0 :: prest =>
      if negb (String.eqb p0 md_root) then (t, Ok tt)
      else match prest with
           | [] => (t, Err err_invalid_path)   (* the path [meta] alone *)
           | k :: rest => meta_side_effect t k (match rest with [] => true | _ :: _ => false end) u
           end
  end.

(** the existing-leaf switch: what happens to a leaf holding [old] when [n]
    arrives -- [None]: [n] is stored; [Some e]: rejected with error [e] *)
Definition leaf_verdict (t : target) (now : Z) (old n : notif) : option N :=
  if Z.ltb (n_ts n) (n_ts old) then Some err_stale
  else if Z.eqb (n_ts n) (n_ts old) && notif_eqb old n then Some err_stale
  else if negb (Z.eqb (n_ts n) (n_ts old)) && future_rejected t now (n_ts n) then Some err_future
  else None.

(** the rest of gnmiUpdate: update an existing leaf or add a new one *)
Definition update_leaf (t1 : target) (now : Z) (p : path) (u : update) (n : notif)
  : target * outcome (option notif) :=
  let real := is_real p in
  match CTreeModel.get (t_tree t1) p with
  | Some (Branch _) => (t1, Err err_collision)
  | Some (Leaf old) =>
      match leaf_verdict t1 now old n with
      | Some e =>
          (add_int t1 (if N.eqb e err_stale then md_stale_count else md_future_count) 1, Err e)
      | None =>
          let t2 := set_tree t1 (tree_set (t_tree t1) p n) in
          if n_atomic n then (lat_compute t2 real (n_ts n), Ok (Some n))
          else
            match n_upd old with
            | [] => (t2, Panic panic_old_update)
            | uo :: _ =>
                (* DEFECT C03_2 (switch off): the test is guarded by
                   [negb (n_atomic old)] *)
                if (defect_c03_2_atomic_suppress || negb (n_atomic old))
                   && value_equal (u_val uo) (u_val u)
                   && cfg_event_driven (t_cfg t2)
                then (add_int t2 md_suppressed_count 1, Ok None)
                else (lat_compute t2 real (n_ts n), Ok (Some n))
            end
      end
  | None =>
      match CTreeModel.add (t_tree t1) p n with
      | None => (t1, Err err_add)
      | Some tr' =>
          let t2 := set_tree t1 tr' in
          let t3 := if real
                    then lat_compute (add_int (add_int t2 md_leaf_count 1) md_add_count 1)
                                     true (n_ts n)
                    else t2 in
          (t3, Ok (Some n))
      end
  end.

(** index path of a notification that is stored as one unit: prefix + first
    update's path, the prefix alone when atomic *)
Definition unit_index (n : notif) : outcome path :=
  match n_upd n with
  | [] => Panic panic_no_update
  | u :: _ => join_path (n_prefix n) (if n_atomic n then None else u_path u)
  end.

(** gnmiUpdate(n): result [Ok (Some n')]: the leaf handed to the client holds
    [n']; [Ok None]: stored but suppressed. *)
Definition gnmi_update1 (t : target) (now : Z) (n : notif) : target * outcome (option notif) :=
  match n_upd n with
  | [] => (t, Panic panic_no_update)
  | u :: _ =>
      match unit_index n with
      | Panic w => (t, Panic w)
      | Err e => (t, Err e)
      | Ok p =>
          match update_pre t p u with
          | (t1, Panic w) => (t1, Panic w)
          | (t1, Err e) => (t1, Err e)
          | (t1, Ok _) => update_leaf t1 now p u n
          end
      end
  end.

(** ** toDeleteNotification *)

(** [Prefix{Target, Origin}] of the delete notification *)
Definition del_prefix (d : notif) : gpath :=
  let pr := gp_of_opt (n_prefix d) in
  let po := match n_upd d with
            | u :: _ => gp_origin (gp_of_opt (u_path u))
            | [] => ""
            end in
  GPath (gp_target pr)
        (if String.eqb (gp_origin pr) "" && negb (String.eqb po "") then po else gp_origin pr)
        [] [].

(** pathElems: the elements of a path, the deprecated element encoding
    converted when the path does not use elem (6b65ac8) *)
Definition path_elems (p : gpath) : list pelem :=
  match gp_elems p with
  | [] => map (fun e => (e, [])) (gp_element p)
  | es => es
  end.

(** what toDeleteNotification builds: the deleted path *)
Definition del_path (d : notif) : gpath :=
  let pr := gp_of_opt (n_prefix d) in
  let ph := match n_upd d with u :: _ => gp_of_opt (u_path u) | [] => empty_gpath end in
  if n_atomic d then GPath "" "" (gp_elems pr) (gp_element pr)
  else match gp_elems pr, gp_elems ph with
       | [], [] => GPath "" "" [] (gp_element pr ++ gp_element ph)
       | _, _ => GPath "" "" (path_elems pr ++ path_elems ph) []
       end.

(** the suffix elements [append] writes behind the prefix elements, and
    whether the write lands in a shared backing array with room for it *)
Definition alias_write (d : notif) : option (N * list pelem) :=
  if n_atomic d then None
  else
    let pr := gp_of_opt (n_prefix d) in
    let ph := match n_upd d with u :: _ => gp_of_opt (u_path u) | [] => empty_gpath end in
    match gp_elems pr, gp_elems ph with
    | [], [] => None
    | _, sfx =>
        match n_pcap d with
        | Some (id, spare) =>
            if (N.of_nat (List.length sfx) <=? spare)%N then Some (id, sfx) else None
        | None => None
        end
    end.

(** overwrite the beginning of [old] with [new] (a later append into the same
    backing array) *)
Fixpoint overwrite {A} (old new : list A) : list A :=
  match old, new with
  | [], _ => []
  | _ :: _, [] => old
  | _ :: old', y :: new' => y :: overwrite old' new'
  end.

(** what the delete notification of [d] reads once the later appends [later]
    (in call order) of the same gnmiRemove have been made *)
Definition aliased_suffix (id : N) (sfx : list pelem) (later : list notif) : list pelem :=
  fold_left (fun cur d' =>
               match alias_write d' with
               | Some (id', sfx') => if N.eqb id id' then overwrite cur sfx' else cur
               | None => cur
               end) later sfx.

Definition mk_delete (d : notif) (ts : Z) (p : gpath) : notif :=
  Notif ts (Some (del_prefix d)) None [] [p] false.

(** the delete notifications of one gnmiRemove, for the removed stored
    notifications in the order WalkDeleted visited them; all are built before
    the first is handed to the client *)
Fixpoint render_deletes (removed : list notif) (ts : Z) : list notif :=
  match removed with
  | [] => []
  | d :: rest =>
      (* DEFECT C03_1 (switch off): every entry is [mk_delete d ts (del_path d)] *)
      (match (if defect_c03_1_alias then alias_write d else None) with
       | Some (id, sfx) =>
           mk_delete d ts (GPath "" "" (gp_elems (gp_of_opt (n_prefix d)) ++ aliased_suffix id sfx rest) [])
       | None => mk_delete d ts (del_path d)
       end) :: render_deletes rest ts
  end.

(** one group of feed entries = what one sub-notification hands to the client:
    the stored notification of an accepted update, or the delete notifications
    of one gnmiRemove (kept as the removed stored notifications in visiting
    order, because their rendering depends on that order under DEFECT C03_1) *)
Inductive fgroup :=
| FUpd (n : notif)
| FDel (removed : list notif) (ts : Z).

Definition render_group (g : fgroup) : list notif :=
  match g with
  | FUpd n => [n]
  | FDel removed ts => render_deletes removed ts
  end.

Definition render_feed (gs : list fgroup) : list notif := flat_map render_group gs.

(** the untrimmed index list [ToStrings(prefix, true) ++ ToStrings(suffix, false)]
    of a notification stored as one unit (suffix: the first update's path,
    nothing when atomic or when there is no update) *)
Definition raw_index (n : notif) : list string :=
  to_strings true (gp_of_opt (n_prefix n)) ++
  to_strings false (if n_atomic n then empty_gpath
                    else match n_upd n with u :: _ => gp_of_opt (u_path u) | [] => empty_gpath end).

(** storedUnderMeta (ccc875e) *)
Definition stored_under_meta (n : notif) : bool :=
  match raw_index n with
  | _ :: p1 :: _ => String.eqb p1 md_root
  | _ => false
  end.

(** ** gnmiRemove: the removed stored notifications, in model map order *)
Definition gnmi_remove (t : target) (n : notif) : target * outcome (list notif) :=
  match n_del n with
  | [] => (t, Panic panic_no_update)
  | d :: _ =>
      match join_path (n_prefix n) (Some d) with
      | Panic w => (t, Panic w)
      | Err e => (t, Err e)
      | Ok p =>
          (* [len(path) > 1 && path[0] == "meta"]: reset the metadata entry *)
          let t1 := match p with
                    | p0 :: k :: _ =>
                        if String.eqb p0 md_root then set_meta t (md_reset_entry (t_meta t) k) else t
                    | _ => t
                    end in
          let r := CTreeModel.delete_cond (t_tree t1) p (fun v => Z.ltb (n_ts v) (n_ts n)) in
          let removed := map snd (snd r) in
          let t2 := set_tree t1 (fst r) in
          match removed with
          | [] => (t2, Ok [])
          | _ :: _ =>
              (* only the removed leaves not indexed under "meta" are counted (ccc875e) *)
              let k := Z.of_nat (List.length (filter (fun d => negb (stored_under_meta d)) removed)) in
              (add_int (add_int t2 md_leaf_count (- k)) md_del_count k, Ok removed)
          end
      end
  end.

(** ** Target.GnmiUpdate *)

Inductive gres :=
| GOk
| GErr (cls : N)
| GErrs (cls : list N)     (* errlist of a multi notification (non-empty) *)
| GPanic (why : N).

(** does the deferred checkTimestamp apply (a096aa9): there is an update and
    the index list has a second element that is not "meta" *)
Definition tracks_ts (n : notif) : bool :=
  match n_upd n with
  | _ :: _ =>
      match raw_index n with
      | _ :: p1 :: _ => negb (String.eqb p1 md_root)
      | _ => false
      end
  | [] => false
  end.

Definition finish_ts (n : notif) (update_ts : bool) (t : target) : target :=
  if tracks_ts n && update_ts then check_timestamp t (n_ts n) else t.

(** proto.Clone(n) with Update / Delete emptied, then one update / delete *)
Definition clone_with_update (n : notif) (u : update) : notif :=
  Notif (n_ts n) (n_prefix n) None [u] [] (n_atomic n).
Definition clone_with_delete (n : notif) (d : gpath) : notif :=
  Notif (n_ts n) (n_prefix n) None [] [d] (n_atomic n).

(** state, feed groups (one group per sub-notification, in order), error
    classes so far, whether some update was accepted; [inr why]: panicked *)
Record acc := Acc {
  a_t : target;
  a_feed : list fgroup;
  a_errs : list N;
  a_ok : bool;
  a_panic : option N
}.

Definition multi_update_step (now : Z) (n : notif) (a : acc) (u : update) : acc :=
  match a_panic a with
  | Some _ => a
  | None =>
      match gnmi_update1 (a_t a) now (clone_with_update n u) with
      | (t', Panic w) => Acc t' (a_feed a) (a_errs a) (a_ok a) (Some w)
      | (t', Err e) => Acc t' (a_feed a) (a_errs a ++ [e]) (a_ok a) None
      | (t', Ok None) => Acc t' (a_feed a) (a_errs a) true None
      | (t', Ok (Some nd)) =>
          Acc (add_int t' md_update_count 1) (a_feed a ++ [FUpd nd]) (a_errs a) true None
      end
  end.

Definition multi_delete_step (n : notif) (a : acc) (d : gpath) : acc :=
  match a_panic a with
  | Some _ => a
  | None =>
      let nd := clone_with_delete n d in
      match gnmi_remove (add_int (a_t a) md_update_count 1) nd with
      | (t', Panic w) => Acc t' (a_feed a) (a_errs a) (a_ok a) (Some w)
      | (t', Err e) => Acc t' (a_feed a) (a_errs a ++ [e]) (a_ok a) None
      | (t', Ok removed) =>
          Acc t' (a_feed a ++ [FDel removed (n_ts nd)]) (a_errs a) (a_ok a) None
      end
  end.

Definition target_gnmi_update (t : target) (now : Z) (n : notif)
  : target * list fgroup * gres :=
  if n_atomic n then
    match n_del n with
    | _ :: _ => (t, [], GErr err_atomic_delete)
    | [] =>
        match n_upd n with
        | [] => (add_int t md_empty_count 1, [], GOk)
        | _ :: _ =>
            match gnmi_update1 t now n with
            | (t', Panic w) => (finish_ts n false t', [], GPanic w)
            | (t', Err e) => (finish_ts n false t', [], GErr e)
            | (t', Ok None) => (finish_ts n true t', [], GOk)
            | (t', Ok (Some nd)) =>
                (finish_ts n true (add_int t' md_update_count (Z.of_nat (List.length (n_upd n)))),
                 [FUpd nd], GOk)
            end
        end
    end
  else
    match n_upd n, n_del n with
    | [], [] => (add_int t md_empty_count 1, [], GOk)
    | [_], [] =>
        match gnmi_update1 t now n with
        | (t', Panic w) => (finish_ts n false t', [], GPanic w)
        | (t', Err e) => (finish_ts n false t', [], GErr e)
        | (t', Ok None) => (finish_ts n true t', [], GOk)
        | (t', Ok (Some nd)) => (finish_ts n true (add_int t' md_update_count 1), [FUpd nd], GOk)
        end
    | [], [_] =>
        match gnmi_remove (add_int t md_update_count 1) n with
        | (t', Panic w) => (t', [], GPanic w)
        | (t', Err e) => (t', [], GErr e)
        | (t', Ok removed) => (t', [FDel removed (n_ts n)], GOk)
        end
    | us, ds =>
        let a0 := Acc t [] [] false None in
        let a1 := fold_left (multi_update_step now n) us a0 in
        let a2 := fold_left (multi_delete_step n) ds a1 in
        (finish_ts n (a_ok a2) (a_t a2), a_feed a2,
         match a_panic a2 with
         | Some w => GPanic w
         | None => match a_errs a2 with [] => GOk | es => GErrs es end
         end)
    end.

(** ** updateMeta / generateMetaUpdates *)

Definition meta_noti (name : string) (now : Z) (k : string) (v : tv) : notif :=
  Notif now (Some (GPath name "" [] [])) None
        [Upd (Some (gp_of_names [md_root; k])) (Some v) 0] [] false.

(** the stored value at metadata.Path(k) compared with the metadata field:
    [Ok true] = an update has to be generated (never an error or a panic
    since af7b746; the [outcome] type is kept for the callers) *)
Definition meta_differs (t : target) (k : string) (same : tv -> option bool) : outcome bool :=
  match CTreeModel.lookup (t_tree t) [md_root; k] with
  | None => Ok true                        (* absent, or a branch *)
  | Some prev =>
      (* metaLeafValue (af7b746): nothing about the stored leaf is assumed; a
         leaf without update or value, or holding a value of another kind,
         counts as different *)
      match n_upd prev with
      | [] => Ok true
      | u :: _ =>
          match u_val u with
          | None => Ok true
          | Some v =>
              match same v with
              | None => Ok true
              | Some b => Ok (negb b)
              end
          end
      end
  end.

(** one iteration of the three loops; feed entries are appended *)
Definition gen_meta_one (now : Z) (k : string) (v : option tv) (same : tv -> option bool)
  (st : target * list notif * option N) : target * list notif * option N :=
  match st with
  | (t, feed, Some w) => st
  | (t, feed, None) =>
      if name_in k (cfg_excluded (t_cfg t)) then st
      else match v with
           | None => st                      (* Get* failed: continue *)
           | Some val =>
               match meta_differs t k same with
               | Panic w => (t, feed, Some w)
               | Err _ => st
               | Ok false => st
               | Ok true =>
                   match gnmi_update1 t now (meta_noti (t_name t) now k val) with
                   | (t', Panic w) => (t', feed, Some w)
                   | (t', Ok (Some nd)) => (t', feed ++ [nd], None)
                   | (t', _) => (t', feed, None)
                   end
           end
      end
  end.

Definition generate_meta_updates (t : target) (now : Z) : target * list notif * option N :=
  let s1 := fold_left (fun st k =>
              gen_meta_one now k
                (option_map TBool (md_get_bool (t_meta (fst (fst st))) k))
                (fun v => match v with
                          | TBool b => option_map (Bool.eqb b) (md_get_bool (t_meta (fst (fst st))) k)
                          | _ => None end) st)
              md_bool_names (t, [], None) in
  let s2 := fold_left (fun st k =>
              gen_meta_one now k
                (option_map TInt (md_get_int (t_meta (fst (fst st))) k))
                (fun v => match v with
                          | TInt z => option_map (Z.eqb z) (md_get_int (t_meta (fst (fst st))) k)
                          | _ => None end) st)
              md_int_names s1 in
  fold_left (fun st k =>
              gen_meta_one now k
                (option_map TStr (md_get_str (t_meta (fst (fst st))) k))
                (fun v => match v with
                          | TStr s => option_map (String.eqb s) (md_get_str (t_meta (fst (fst st))) k)
                          | _ => None end) st)
            md_str_names s2.

(** updateMeta: export latest timestamp, lat.UpdateReset (no windows: only
    the sample buffer is cleared), then generateMetaUpdates *)
Definition update_meta (t : target) (now : Z) : target * list notif * option N :=
  let t1 := set_meta t (md_set_int (t_meta t) md_latest_ts (ts_unixnano (t_ts t))) in
  generate_meta_updates (set_lat t1 []) now.

(** deleteNoti(t, o, p) *)
Definition delete_noti (name origin : string) (now : Z) (p : list string) : notif :=
  Notif now (Some (GPath name origin [] [])) None [] [gp_of_names p] false.

(** Target.Reset *)
Definition root_children (tr : tree notif) : list string :=
  match tr with
  | Some (Branch cs) => keys cs
  | _ => []
  end.

Definition target_reset (t : target) (now : Z) : target * list notif * option N :=
  let t1 := set_meta (set_ts t None) (md_clear (t_meta t)) in
  match update_meta t1 now with
  | (t2, feed, Some w) => (t2, feed, Some w)
  | (t2, feed, None) =>
      let roots := filter (fun r => negb (String.eqb r md_root)) (root_children (t_tree t2)) in
      (set_tree t2 (fold_left (fun tr r => fst (CTreeModel.delete tr [r])) roots (t_tree t2)),
       feed ++ map (fun r => delete_noti (t_name t2) r now ["*"]) roots,
       None)
  end.

(** * The cache *)

Record cache := Cache {
  c_cfg : config;
  c_targets : list (string * target)
}.

Definition new_cache (cfg : config) (names : list string) : cache :=
  Cache cfg (fold_left (fun m k => aset k (new_target k cfg) m) names []).

Definition cache_add (c : cache) (name : string) : cache :=
  Cache (c_cfg c) (aset name (new_target name (c_cfg c)) (c_targets c)).

Definition set_target (c : cache) (name : string) (t : target) : cache :=
  Cache (c_cfg c) (aset name t (c_targets c)).

(** Cache.Remove: the announcement is made whether or not the target existed *)
Definition cache_remove (c : cache) (now : Z) (name : string) : cache * list notif :=
  (Cache (c_cfg c) (adel name (c_targets c)), [delete_noti name "" now ["*"]]).

Definition cache_reset (c : cache) (now : Z) (name : string) : cache * list notif * option N :=
  match assoc name (c_targets c) with
  | None => (c, [], None)
  | Some t =>
      let '(t', feed, p) := target_reset t now in (set_target c name t', feed, p)
  end.

Definition cache_gnmi_update (c : cache) (now : Z) (n : notif)
  : cache * list fgroup * gres :=
  match n_prefix n with
  | None => (c, [], GErr err_no_prefix)
  | Some pr =>
      match assoc (gp_target pr) (c_targets c) with
      | None => (c, [], GErr err_no_target)
      | Some t =>
          let '(t', feed, r) := target_gnmi_update t now n in
          (set_target c (gp_target pr) t', feed, r)
      end
  end.

(** Sync / Connect / ConnectError: errors of the inner GnmiUpdate are logged
    and dropped *)
Definition cache_on_target (c : cache) (name : string)
  (f : target -> target * list fgroup * gres) : cache * list fgroup * gres :=
  match assoc name (c_targets c) with
  | None => (c, [], GOk)
  | Some t => let '(t', feed, r) := f t in (set_target c name t', feed, r)
  end.

Definition cache_sync (c : cache) (now : Z) (name : string) :=
  cache_on_target c name (fun t => target_gnmi_update t now (meta_noti name now md_sync (TBool true))).

Definition cache_connect_error (c : cache) (now : Z) (name msg : string) :=
  cache_on_target c name (fun t => target_gnmi_update t now (meta_noti name now md_connect_error (TStr msg))).

Definition cache_connect (c : cache) (now : Z) (name : string) :=
  cache_on_target c name (fun t =>
    let '(t1, f1, r1) := target_gnmi_update t now (meta_noti name now md_connected (TBool true)) in
    match r1 with
    | GPanic w => (t1, f1, r1)
    | _ =>
        let '(t2, f2, r2) :=
          target_gnmi_update t1 now (delete_noti name "" now [md_root; md_connect_error]) in
        (t2, f1 ++ f2, match r2 with GPanic w => r2 | _ => GOk end)
    end).

(** Cache.UpdateMetadata, targets in model map order *)
Definition cache_update_metadata (c : cache) (now : Z) : cache * list notif * option N :=
  fold_left (fun st kt =>
    match st with
    | (c', feed, Some w) => st
    | (c', feed, None) =>
        match assoc (fst kt) (c_targets c') with
        | None => st
        | Some t =>
            let '(t', f, p) := update_meta t now in
            (set_target c' (fst kt) t', feed ++ f, p)
        end
    end) (c_targets c) (c, [], None).

(** Cache.Query: "" is an error (None), "*" every target, otherwise one
    target (None when unknown).  Results carry the target name. *)
Definition cache_query (c : cache) (name : string) (q : path)
  : option (list (string * path * notif)) :=
  if String.eqb name "" then None
  else if String.eqb name "*" then
    Some (flat_map (fun kt => map (fun pv => (fst kt, fst pv, snd pv)) (CTreeModel.query (t_tree (snd kt)) q))
                   (c_targets c))
  else match assoc name (c_targets c) with
       | None => None
       | Some t => Some (map (fun pv => (name, fst pv, snd pv)) (CTreeModel.query (t_tree t) q))
       end.

(** Proofs for C15 over CacheModel.v: counter laws, latest timestamp, and the
    lockset annotation of the fields shared by the update stream and the
    periodic refresh. *)
From Gnmi Require Import Base.Prelude CTree.CTreeModel CTree.CTreeProofs CTree.CTreeTheorems
  Path.PathModel Cache.CacheModel Cache.MultiCache Cache.C14Proofs.
From Coq Require Import Lia.
Local Open Scope Z_scope.

(** * Reading counters *)

(** GetInt with "unset" read as 0 (every counter is set to 0 by [New] / [Clear]) *)
Definition gi (m : metadata) (k : string) : Z :=
  match md_get_int m k with Some z => z | None => 0 end.

Lemma gi_add_int m k i k' :
  gi (md_add_int m k i) k' =
  gi m k' + (if name_in k md_int_names && String.eqb k' k then i else 0).
Proof.
  unfold gi, md_add_int, md_get_int.
  destruct (name_in k md_int_names) eqn:Ek; cbn [andb]; [|lia].
  cbn [m_int]. destruct (String.eqb_spec k' k) as [->|Hne].
  - rewrite Ek. rewrite assoc_aset, String.eqb_refl. destruct (assoc k (m_int m)); lia.
  - destruct (name_in k' md_int_names); [|lia]. rewrite assoc_aset.
    destruct (String.eqb_spec k' k); [contradiction|]. destruct (assoc k' (m_int m)); lia.
Qed.

Lemma gi_set_bool m k b k' : gi (md_set_bool m k b) k' = gi m k'.
Proof. unfold gi, md_set_bool, md_get_int. destruct (name_in k md_bool_names); reflexivity. Qed.

Lemma gi_set_str m k s k' : gi (md_set_str m k s) k' = gi m k'.
Proof. unfold gi, md_set_str, md_get_int. destruct (name_in k md_str_names); reflexivity. Qed.

Lemma gi_set_int m k z k' :
  gi (md_set_int m k z) k' = if name_in k md_int_names && String.eqb k' k then z else gi m k'.
Proof.
  unfold gi, md_set_int, md_get_int.
  destruct (name_in k md_int_names) eqn:Ek; cbn [andb]; [|reflexivity].
  cbn [m_int]. destruct (String.eqb_spec k' k) as [->|Hne].
  - rewrite Ek, assoc_aset, String.eqb_refl. reflexivity.
  - destruct (name_in k' md_int_names); [|reflexivity]. rewrite assoc_aset.
    destruct (String.eqb_spec k' k); [contradiction|reflexivity].
Qed.

(** the counters the laws are about *)
Definition counters : list string :=
  [md_leaf_count; md_add_count; md_del_count; md_empty_count; md_update_count;
   md_suppressed_count; md_stale_count; md_future_count].

(** [m'] reads like [m] on every counter, except that [k] moved by [i] *)
Definition moved (m m' : metadata) (k : string) (i : Z) : Prop :=
  forall k', In k' counters -> gi m' k' = gi m k' + (if String.eqb k' k then i else 0).

Definition same_counters (m m' : metadata) : Prop := forall k', In k' counters -> gi m' k' = gi m k'.

Lemma same_counters_refl m : same_counters m m. Proof. intros k _. reflexivity. Qed.

Lemma same_counters_trans a b c : same_counters a b -> same_counters b c -> same_counters a c.
Proof. intros H1 H2 k Hk. rewrite (H2 k Hk). exact (H1 k Hk). Qed.

Lemma moved_add_int m k i : name_in k md_int_names = true -> moved m (md_add_int m k i) k i.
Proof. intros Hk k' _. rewrite gi_add_int, Hk. reflexivity. Qed.

(** ** the metadata side effects and the latest/size exports leave the counters alone *)

Lemma meta_side_effect_counters t k two u t1 r :
  meta_side_effect t k two u = (t1, r) -> same_counters (t_meta t) (t_meta t1).
Proof.
  unfold meta_side_effect. repeat break_match; intros H; inversion H; subst;
    intros k' _; cbn [t_meta set_meta set_sync]; rewrite ?gi_set_bool, ?gi_set_str; reflexivity.
Qed.

Lemma update_pre_counters t p u t1 r :
  update_pre t p u = (t1, r) -> same_counters (t_meta t) (t_meta t1).
Proof.
  unfold update_pre. repeat break_match; intros H;
    first [ eapply meta_side_effect_counters; eassumption
          | inversion H; subst; apply same_counters_refl ].
Qed.

Lemma lat_compute_meta t r ts : t_meta (lat_compute t r ts) = t_meta t.
Proof. unfold lat_compute. destruct (t_sync t && r); reflexivity. Qed.

(** * gnmiUpdate: where one unit is accounted *)

Inductive unit_fate := UAnnounced | USuppressed | UStale | UFuture | URefused.

Definition fate_of (r : outcome (option notif)) : unit_fate :=
  match r with
  | Ok (Some _) => UAnnounced
  | Ok None => USuppressed
  | Err e => if N.eqb e err_stale then UStale else if N.eqb e err_future then UFuture else URefused
  | Panic _ => URefused
  end.

(** counter movement of gnmiUpdate itself ([updated] is bumped by the caller) *)
Definition unit_moves (m m' : metadata) (real_new : bool) (f : unit_fate) : Prop :=
  forall k', In k' counters ->
    gi m' k' = gi m k' +
      (if String.eqb k' md_suppressed_count then match f with USuppressed => 1 | _ => 0 end
       else if String.eqb k' md_stale_count then match f with UStale => 1 | _ => 0 end
       else if String.eqb k' md_future_count then match f with UFuture => 1 | _ => 0 end
       else if String.eqb k' md_leaf_count || String.eqb k' md_add_count then (if real_new then 1 else 0)
       else 0).

Lemma leaf_verdict_cls t now old n e :
  leaf_verdict t now old n = Some e -> e = err_stale \/ e = err_future.
Proof.
  unfold leaf_verdict. repeat break_match; intros H; inversion H; auto.
Qed.

Ltac in_counters :=
  repeat match goal with
         | H : In _ counters |- _ => unfold counters in H
         | H : In _ (_ :: _) |- _ => destruct H as [ <- | H ]
         | H : In _ [] |- _ => destruct H
         end.

Ltac solve_moves :=
  let k' := fresh "k'" in let Hk := fresh "Hk" in
  intros k' Hk; cbn [t_meta set_meta set_tree add_int]; rewrite ?lat_compute_meta;
  cbn [t_meta set_meta set_tree add_int]; rewrite ?gi_add_int;
  in_counters; cbn; lia.

Lemma update_leaf_moves t1 now p u n t2 r :
  update_leaf t1 now p u n = (t2, r) ->
  exists real_new, unit_moves (t_meta t1) (t_meta t2) real_new (fate_of r) /\
                   (real_new = true -> is_real p = true /\ CTreeModel.get (t_tree t1) p = None).
Proof.
  unfold update_leaf. cbv zeta.
  destruct (CTreeModel.get (t_tree t1) p) as [[old|cs]|] eqn:Hg.
  - destruct (leaf_verdict t1 now old n) as [e|] eqn:Hv.
    + destruct (leaf_verdict_cls _ _ _ _ _ Hv) as [ -> | -> ]; intros H; inversion H; subst;
        exists false; (split; [solve_moves|discriminate]).
    + repeat break_match; intros H; inversion H; subst; exists false; (split; [solve_moves|discriminate]).
  - intros H; inversion H; subst. exists false. split; [solve_moves|discriminate].
  - destruct (CTreeModel.add (t_tree t1) p n) as [tr'|]; [|intros H; inversion H; subst; exists false;
      (split; [solve_moves|discriminate])].
    destruct (is_real p) eqn:Er; intros H; inversion H; subst.
    + exists true. split; [solve_moves|auto].
    + exists false. split; [solve_moves|discriminate].
Qed.

Lemma join_path_not_err pr ph e : join_path pr ph <> Err e.
Proof.
  unfold join_path, join_prefix_and_path.
  destruct (to_strings true (gp_of_opt pr) ++ to_strings false (gp_of_opt ph)); discriminate.
Qed.

Lemma unit_index_not_err n e : unit_index n <> Err e.
Proof. unfold unit_index. destruct (n_upd n); [discriminate|apply join_path_not_err]. Qed.

Lemma unit_moves_same m m1 m2 b f :
  same_counters m m1 -> unit_moves m1 m2 b f -> unit_moves m m2 b f.
Proof. intros H1 H2 k Hk. rewrite (H2 k Hk), (H1 k Hk). reflexivity. Qed.

Lemma unit_moves_refused m m' : same_counters m m' -> unit_moves m m' false URefused.
Proof.
  intros H k Hk. rewrite (H k Hk). in_counters; cbn; lia.
Qed.

(** gnmiUpdate accounts one unit: the fate of the unit decides which counter
    moves (the caller bumps [updated] when the unit is announced), and the leaf
    counters move only when a new non-metadata leaf is created *)
Theorem gnmi_update1_moves t now n t' r :
  gnmi_update1 t now n = (t', r) ->
  exists real_new, unit_moves (t_meta t) (t_meta t') real_new (fate_of r).
Proof.
  unfold gnmi_update1. destruct (n_upd n) as [|u ?].
  { intros H; inversion H; subst. exists false. apply unit_moves_refused, same_counters_refl. }
  destruct (unit_index n) as [p|e|w] eqn:Hi.
  2:{ exfalso. eapply unit_index_not_err; eauto. }
  2:{ intros H; inversion H; subst. exists false. apply unit_moves_refused, same_counters_refl. }
  destruct (update_pre t p u) as [t1 r1] eqn:Hpre.
  pose proof (update_pre_counters _ _ _ _ _ Hpre) as Hsame.
  destruct r1 as [[]|e|w].
  - intros H. destruct (update_leaf_moves _ _ _ _ _ _ _ H) as (b & Hm & _).
    exists b. eapply unit_moves_same; eauto.
  - intros H; inversion H; subst. exists false.
    assert (Hf : fate_of (Err e : outcome (option notif)) = URefused).
    { revert Hpre. unfold update_pre, meta_side_effect. repeat break_match; intros Hx; inversion Hx; subst; reflexivity. }
    rewrite Hf. now apply unit_moves_refused.
  - intros H; inversion H; subst. exists false. now apply unit_moves_refused.
Qed.

(** * gnmiRemove *)

Lemma reset_entry_counters m k : ~ In k counters -> same_counters m (md_reset_entry m k).
Proof.
  intros Hk k' Hk'. unfold md_reset_entry. repeat break_match; cbn [m_int];
    rewrite ?gi_set_bool, ?gi_set_str, ?gi_set_int; try reflexivity.
  destruct (String.eqb_spec k' k) as [->|]; [contradiction|]. now rewrite andb_false_r.
Qed.

(** the delete is not addressed to the metadata leaf of one of the counters
    (such a delete resets that counter: [gnmiRemove] calls [ResetEntry]) *)
Definition no_counter_reset (pr : option gpath) (d : gpath) : Prop :=
  match join_path pr (Some d) with
  | Ok (p0 :: k :: _) => p0 = md_root -> ~ In k counters
  | _ => True
  end.

(** the removed leaves that count: those not indexed under "meta" *)
Definition counted (removed : list notif) : Z :=
  Z.of_nat (List.length (filter (fun d => negb (stored_under_meta d)) removed)).

Theorem gnmi_remove_moves t n d ds t' r :
  n_del n = d :: ds -> no_counter_reset (n_prefix n) d ->
  gnmi_remove t n = (t', r) -> (forall w, r <> Panic w) ->
  exists removed, r = Ok removed /\
    forall k', In k' counters ->
      gi (t_meta t') k' = gi (t_meta t) k' +
        (if String.eqb k' md_leaf_count then - counted removed
         else if String.eqb k' md_del_count then counted removed else 0).
Proof.
  intros Hd Hnc. unfold gnmi_remove. rewrite Hd. unfold no_counter_reset in Hnc.
  destruct (join_path (n_prefix n) (Some d)) as [p|e|w] eqn:Hj.
  2:{ exfalso. eapply join_path_not_err; eauto. }
  2:{ intros H Hp; inversion H; subst. exfalso. eapply Hp; reflexivity. }
  cbv zeta.
  match goal with |- context [t_tree ?x] => set (t1 := x) end.
  assert (H1 : same_counters (t_meta t) (t_meta t1)).
  { subst t1. repeat break_match; try apply same_counters_refl.
    cbn [t_meta set_meta]. apply reset_entry_counters. apply Hnc.
    match goal with H : String.eqb _ md_root = true |- _ => apply String.eqb_eq in H; exact H end. }
  clearbody t1.
  destruct (map snd (snd (delete_cond (t_tree t1) p (fun v => Z.ltb (n_ts v) (n_ts n))))) as [|x l] eqn:E.
  - intros H _; injection H as Ht Hr; subst t' r.
    exists []. split; [reflexivity|]. intros k' Hk. cbn [t_meta set_tree]. rewrite (H1 k' Hk).
    in_counters; cbn; lia.
  - fold (counted (x :: l)). remember (counted (x :: l)) as L eqn:HL.
    intros H _; injection H as Ht Hr; subst t' r.
    exists (x :: l). split; [reflexivity|]. intros k' Hk. rewrite <- HL. clear HL.
    cbn [t_meta set_meta set_tree add_int]. rewrite !gi_add_int. rewrite (H1 k' Hk).
    in_counters; cbn; lia.
Qed.

(** * Target.GnmiUpdate: the accounting law *)

Definition D (t t' : target) (k : string) : Z := gi (t_meta t') k - gi (t_meta t) k.

Definition is_stale (e : N) : bool := N.eqb e err_stale.
Definition is_future (e : N) : bool := N.eqb e err_future.
Definition is_other (e : N) : bool := negb (is_stale e) && negb (is_future e).

Fixpoint cnt_err (p : N -> bool) (l : list N) : Z :=
  match l with
  | [] => 0
  | e :: l' => (if p e then 1 else 0) + cnt_err p l'
  end.

Lemma cnt_err_app p a b : cnt_err p (a ++ b) = cnt_err p a + cnt_err p b.
Proof. induction a as [|x a IH]; cbn [app cnt_err]; lia. Qed.

(** [units] submitted units, each weighing [w] in [updated] when announced,
    [errs] the error classes returned: every unit is in exactly one of
    announced / suppressed / stale / future / returned as another error *)
Definition law (t t' : target) (units w : Z) (errs : list N) : Prop :=
  exists a s, 0 <= a /\ 0 <= s /\
    D t t' md_update_count = w * a /\
    D t t' md_suppressed_count = s /\
    D t t' md_stale_count = cnt_err is_stale errs /\
    D t t' md_future_count = cnt_err is_future errs /\
    D t t' md_empty_count = 0 /\
    D t t' md_leaf_count = D t t' md_add_count - D t t' md_del_count /\
    a + s + cnt_err is_stale errs + cnt_err is_future errs + cnt_err is_other errs = units.

Definition errs_of (r : gres) : list N :=
  match r with GOk => [] | GErr e => [e] | GErrs es => es | GPanic _ => [] end.

(** the errors of one unit, by its fate *)
Lemma fate_cases (r : outcome (option notif)) :
  match r with
  | Ok (Some _) => fate_of r = UAnnounced
  | Ok None => fate_of r = USuppressed
  | Err e => (fate_of r = UStale /\ is_stale e = true /\ is_future e = false) \/
             (fate_of r = UFuture /\ is_stale e = false /\ is_future e = true) \/
             (fate_of r = URefused /\ is_stale e = false /\ is_future e = false)
  | Panic _ => True
  end.
Proof.
  destruct r as [[nd|]|e|w]; cbn; auto. unfold is_stale, is_future.
  destruct (N.eqb_spec e err_stale) as [->|]; [left; auto|].
  destruct (N.eqb_spec e err_future) as [->|]; [right; left; auto|right; right; auto].
Qed.

Lemma unit_moves_D t t' b f k :
  unit_moves (t_meta t) (t_meta t') b f -> In k counters ->
  D t t' k =
      (if String.eqb k md_suppressed_count then match f with USuppressed => 1 | _ => 0 end
       else if String.eqb k md_stale_count then match f with UStale => 1 | _ => 0 end
       else if String.eqb k md_future_count then match f with UFuture => 1 | _ => 0 end
       else if String.eqb k md_leaf_count || String.eqb k md_add_count then (if b then 1 else 0)
       else 0).
Proof. intros H Hk. unfold D. rewrite (H k Hk). lia. Qed.

Lemma D_trans t1 t2 t3 k : D t1 t3 k = D t1 t2 k + D t2 t3 k.
Proof. unfold D. lia. Qed.

Lemma D_add_int t k i k' :
  D t (add_int t k i) k' = (if name_in k md_int_names && String.eqb k' k then i else 0).
Proof. unfold D. cbn [t_meta add_int set_meta]. rewrite gi_add_int. lia. Qed.

Lemma D_finish_ts n b t t0 k : D t0 (finish_ts n b t) k = D t0 t k.
Proof.
  unfold D, finish_ts. destruct (tracks_ts n && b); [|reflexivity].
  unfold check_timestamp. destruct (t_ts t) as [z|]; [destruct (Z.ltb z (n_ts n))|]; reflexivity.
Qed.

Ltac counter_in := unfold counters; cbn; tauto.

(** one update unit processed by the caller of gnmiUpdate: [updated] is bumped
    by [w] when the unit is announced *)
Lemma law_update_unit t now n t1 r w :
  0 <= w ->
  gnmi_update1 t now n = (t1, r) -> (forall x, r <> Panic x) ->
  let t' := match r with Ok (Some _) => add_int t1 md_update_count w | _ => t1 end in
  law t t' 1 w (match r with Err e => [e] | _ => [] end).
Proof.
  intros Hw E Hp. destruct (gnmi_update1_moves _ _ _ _ _ E) as (b & Hm).
  pose proof (fate_cases r) as Hf.
  assert (HD : forall k, In k counters -> D t t1 k = _) by (intros k Hk; exact (unit_moves_D _ _ _ _ k Hm Hk)).
  cbv zeta. unfold law.
  destruct r as [[nd|]|e|x]; [| | |exfalso; eapply Hp; reflexivity].
  - rewrite Hf in HD. exists 1, 0. rewrite !(D_trans t t1 (add_int t1 md_update_count w)), !D_add_int.
    rewrite !HD by counter_in. cbn. lia.
  - rewrite Hf in HD. exists 0, 1. rewrite !HD by counter_in. cbn. lia.
  - exists 0, 0. cbn [cnt_err]. unfold is_other.
    destruct Hf as [(Hfa & Hs & Hfu)|[(Hfa & Hs & Hfu)|(Hfa & Hs & Hfu)]];
      rewrite Hfa in HD; rewrite Hs, Hfu; rewrite !HD by counter_in; cbn; lia.
Qed.

(** one delete unit: always counted in [updated] *)
Lemma law_delete_unit t n d ds t1 r :
  n_del n = d :: ds -> no_counter_reset (n_prefix n) d ->
  gnmi_remove (add_int t md_update_count 1) n = (t1, r) -> (forall x, r <> Panic x) ->
  law t t1 1 1 [].
Proof.
  intros Hd Hnc E Hp. destruct (gnmi_remove_moves _ _ _ _ _ _ Hd Hnc E Hp) as (removed & _ & Hm).
  assert (HD : forall k, In k counters ->
            D t t1 k = (if String.eqb k md_update_count then 1 else 0) +
                       (if String.eqb k md_leaf_count then - counted removed
                        else if String.eqb k md_del_count then counted removed else 0)).
  { intros k Hk. rewrite (D_trans t (add_int t md_update_count 1) t1), D_add_int.
    unfold D at 1. rewrite (Hm k Hk). cbn [name_in]. 
    assert (Hn : name_in md_update_count md_int_names = true) by reflexivity. rewrite Hn. cbn [andb]. lia. }
  unfold law. exists 1, 0. rewrite !HD by counter_in. cbn. lia.
Qed.

Lemma law_compose t t1 t2 u1 u2 w e1 e2 :
  law t t1 u1 w e1 -> law t1 t2 u2 w e2 -> law t t2 (u1 + u2) w (e1 ++ e2).
Proof.
  intros (a1 & s1 & A1 & A2 & A3 & A4 & A5 & A6 & A7 & A9 & A8) (a2 & s2 & B1 & B2 & B3 & B4 & B5 & B6 & B7 & B9 & B8).
  exists (a1 + a2), (s1 + s2). rewrite !(D_trans t t1 t2), !cnt_err_app.
  rewrite A3, A4, A5, A6, A7, B3, B4, B5, B6, B7. lia.
Qed.

Lemma law_refl t w : law t t 0 w [].
Proof. exists 0, 0. unfold D. cbn. lia. Qed.

(** ** multi notifications: the two folds *)

Definition acc_law (t : target) (a : acc) (processed : Z) : Prop :=
  a_panic a = None -> law t (a_t a) processed 1 (a_errs a).

Lemma multi_update_step_law t now n a u processed :
  acc_law t a processed -> acc_law t (multi_update_step now n a u) (processed + 1).
Proof.
  intros Ha. unfold multi_update_step, acc_law.
  destruct (a_panic a) eqn:Ep; [intros Hn; congruence|].
  specialize (Ha Ep).
  destruct (gnmi_update1 (a_t a) now (clone_with_update n u)) as [t1 r1] eqn:E.
  destruct r1 as [[nd|]|e|w]; cbn [a_panic a_t a_errs]; intros Hn; try discriminate.
  - pose proof (law_update_unit _ _ _ _ _ 1 ltac:(lia) E ltac:(discriminate)) as Hu. cbv zeta in Hu.
    pose proof (law_compose _ _ _ _ _ _ _ _ Ha Hu) as Hc. now rewrite app_nil_r in Hc.
  - pose proof (law_update_unit _ _ _ _ _ 1 ltac:(lia) E ltac:(discriminate)) as Hu. cbv zeta in Hu.
    pose proof (law_compose _ _ _ _ _ _ _ _ Ha Hu) as Hc. now rewrite app_nil_r in Hc.
  - pose proof (law_update_unit _ _ _ _ _ 1 ltac:(lia) E ltac:(discriminate)) as Hu. cbv zeta in Hu.
    exact (law_compose _ _ _ _ _ _ _ _ Ha Hu).
Qed.

Lemma multi_delete_step_law t n a d processed :
  no_counter_reset (n_prefix n) d ->
  acc_law t a processed -> acc_law t (multi_delete_step n a d) (processed + 1).
Proof.
  intros Hnc Ha. unfold multi_delete_step, acc_law.
  destruct (a_panic a) eqn:Ep; [intros Hn; congruence|].
  specialize (Ha Ep). cbv zeta.
  destruct (gnmi_remove (add_int (a_t a) md_update_count 1) (clone_with_delete n d)) as [t1 r1] eqn:E.
  assert (Hd : n_del (clone_with_delete n d) = d :: []) by reflexivity.
  destruct r1 as [removed|e|w]; cbn [a_panic a_t a_errs]; intros Hn; try discriminate.
  - pose proof (law_delete_unit _ _ _ _ _ _ Hd Hnc E ltac:(discriminate)) as Hu.
    pose proof (law_compose _ _ _ _ _ _ _ _ Ha Hu) as Hc. now rewrite app_nil_r in Hc.
  - exfalso. destruct (gnmi_remove_moves _ _ _ _ _ _ Hd Hnc E ltac:(discriminate)) as (rm & Hr & _). discriminate.
Qed.

Lemma fold_updates_law t now n us : forall a processed,
  acc_law t a processed ->
  acc_law t (fold_left (multi_update_step now n) us a) (processed + Z.of_nat (List.length us)).
Proof.
  induction us as [|u us IH]; intros a processed Ha; cbn [fold_left List.length].
  - now rewrite Z.add_0_r.
  - rewrite Nat2Z.inj_succ. replace (processed + Z.succ (Z.of_nat (List.length us)))
      with ((processed + 1) + Z.of_nat (List.length us)) by lia.
    apply IH. now apply multi_update_step_law.
Qed.

Lemma fold_deletes_law t n ds : forall a processed,
  Forall (no_counter_reset (n_prefix n)) ds ->
  acc_law t a processed ->
  acc_law t (fold_left (multi_delete_step n) ds a) (processed + Z.of_nat (List.length ds)).
Proof.
  induction ds as [|d ds IH]; intros a processed Hf Ha; cbn [fold_left List.length].
  - now rewrite Z.add_0_r.
  - inversion Hf as [|? ? Hd Hds]; subst. rewrite Nat2Z.inj_succ.
    replace (processed + Z.succ (Z.of_nat (List.length ds)))
      with ((processed + 1) + Z.of_nat (List.length ds)) by lia.
    apply IH; [exact Hds|]. now apply multi_delete_step_law.
Qed.

Lemma multi_law t now n us ds :
  Forall (no_counter_reset (n_prefix n)) ds ->
  let a2 := fold_left (multi_delete_step n) ds
              (fold_left (multi_update_step now n) us (Acc t [] [] false None)) in
  a_panic a2 = None ->
  law t (a_t a2) (Z.of_nat (List.length us) + Z.of_nat (List.length ds)) 1 (a_errs a2).
Proof.
  intros Hf a2 Hp.
  assert (H0 : acc_law t (Acc t [] [] false None) 0) by (intros _; apply law_refl).
  pose proof (fold_updates_law t now n us _ _ H0) as H1.
  pose proof (fold_deletes_law t n ds _ _ Hf H1) as H2. cbn [Z.add] in H2.
  exact (H2 Hp).
Qed.

Lemma law_finish t t1 n b u w errs : law t t1 u w errs -> law t (finish_ts n b t1) u w errs.
Proof.
  intros (a & s & H). exists a, s. now rewrite !D_finish_ts.
Qed.

Definition multi_res (a2 : acc) : gres :=
  match a_panic a2 with
  | Some w => GPanic w
  | None => match a_errs a2 with [] => GOk | es => GErrs es end
  end.

Lemma multi_branch t now n us ds :
  Forall (no_counter_reset (n_prefix n)) ds ->
  let a2 := fold_left (multi_delete_step n) ds
              (fold_left (multi_update_step now n) us (Acc t [] [] false None)) in
  (forall w, multi_res a2 <> GPanic w) ->
  law t (finish_ts n (a_ok a2) (a_t a2))
      (Z.of_nat (List.length us) + Z.of_nat (List.length ds)) 1 (errs_of (multi_res a2)).
Proof.
  intros Hnc a2 Hp.
  assert (Hpa : a_panic a2 = None).
  { destruct (a_panic a2) eqn:Ea; [|reflexivity]. exfalso. unfold multi_res in Hp. rewrite Ea in Hp.
    eapply Hp; reflexivity. }
  pose proof (multi_law t now n us ds Hnc Hpa) as Hl. fold a2 in Hl.
  unfold multi_res. rewrite Hpa. apply law_finish. destruct (a_errs a2); exact Hl.
Qed.

(** ** the law for every notification *)

(** submitted units and the weight of an announced unit in [updated]; [None]:
    the notification is refused as a whole (atomic with deletes) *)
Definition units (n : notif) : option (Z * Z) :=
  if n_atomic n then
    match n_del n, n_upd n with
    | _ :: _, _ => None
    | [], [] => Some (0, 1)
    | [], us => Some (1, Z.of_nat (List.length us))
    end
  else Some (Z.of_nat (List.length (n_upd n)) + Z.of_nat (List.length (n_del n)), 1).

(** update_accounting: every submitted ingest unit lands in exactly one of
    updated / suppressed / stale / future or is returned as an error (counted
    in none); an empty notification is counted in empty and nowhere else; a
    notification refused as a whole moves nothing *)
Theorem update_accounting t now n t' fd r :
  target_gnmi_update t now n = (t', fd, r) -> (forall w, r <> GPanic w) ->
  Forall (no_counter_reset (n_prefix n)) (n_del n) ->
  match units n with
  | None => forall k, In k counters -> D t t' k = 0
  | Some (u, w) =>
      if Z.eqb u 0
      then D t t' md_empty_count = 1 /\
           forall k, In k counters -> k <> md_empty_count -> D t t' k = 0
      else law t t' u w (errs_of r)
  end.
Proof.
  intros E Hp Hnc. unfold target_gnmi_update in E. unfold units.
  destruct (n_atomic n) eqn:Eat.
  - destruct (n_del n) as [|d ds] eqn:Ed.
    + destruct (n_upd n) as [|u us] eqn:Eu.
      * inversion E; subst. cbn [Z.eqb]. split; [rewrite D_add_int; reflexivity|].
        intros k Hk Hne. rewrite D_add_int. in_counters; cbn; congruence.
      * destruct (gnmi_update1 t now n) as [t1 r1] eqn:E1.
        assert (Hw : 0 <= Z.of_nat (List.length (u :: us))) by lia.
        assert (Hr1 : forall x, r1 <> Panic x).
        { intros x ->. inversion E; subst. eapply Hp; reflexivity. }
        pose proof (law_update_unit _ _ _ _ _ _ Hw E1 Hr1) as Hu. cbv zeta in Hu.
        cbn [Z.eqb]. destruct r1 as [[nd|]|e|x]; inversion E; subst; cbn [errs_of];
          try (apply law_finish; exact Hu).
    + inversion E; subst. intros k _. unfold D. lia.
  - destruct (n_upd n) as [|u [|u2 us]] eqn:Eu; destruct (n_del n) as [|d [|d2 ds]] eqn:Ed.
    + (* empty *)
      inversion E; subst. cbn [List.length Z.of_nat Z.add Z.eqb]. split; [rewrite D_add_int; reflexivity|].
      intros k Hk Hne. rewrite D_add_int. in_counters; cbn; congruence.
    + (* single delete *)
      destruct (gnmi_remove (add_int t md_update_count 1) n) as [t1 r1] eqn:E1.
      inversion Hnc as [|? ? Hd _]; subst.
      assert (Hr1 : forall x, r1 <> Panic x).
      { intros x ->. inversion E; subst. eapply Hp; reflexivity. }
      pose proof (law_delete_unit _ _ _ _ _ _ Ed Hd E1 Hr1) as Hu.
      destruct (gnmi_remove_moves _ _ _ _ _ _ Ed Hd E1 Hr1) as (rm & -> & _).
      inversion E; subst. cbn. exact Hu.
    + (* several deletes *)
      injection E as Ht Hfd Hr. subst t' fd r.
      exact (multi_branch t now n [] (d :: d2 :: ds) Hnc Hp).
    + (* single update *)
      destruct (gnmi_update1 t now n) as [t1 r1] eqn:E1.
      assert (Hr1 : forall x, r1 <> Panic x).
      { intros x ->. inversion E; subst. eapply Hp; reflexivity. }
      pose proof (law_update_unit _ _ _ _ _ 1 ltac:(lia) E1 Hr1) as Hu. cbv zeta in Hu.
      cbn. destruct r1 as [[nd|]|e|x]; inversion E; subst; cbn [errs_of];
        try (apply law_finish; exact Hu).
    + injection E as Ht Hfd Hr. subst t' fd r.
      exact (multi_branch t now n [u] [d] Hnc Hp).
    + injection E as Ht Hfd Hr. subst t' fd r.
      assert (Hz : Z.eqb (Z.of_nat (List.length [u]) + Z.of_nat (List.length (d :: d2 :: ds))) 0 = false)
        by (apply Z.eqb_neq; cbn [List.length]; lia).
      rewrite Hz. exact (multi_branch t now n [u] (d :: d2 :: ds) Hnc Hp).
    + injection E as Ht Hfd Hr. subst t' fd r.
      assert (Hz : Z.eqb (Z.of_nat (List.length (u :: u2 :: us)) + Z.of_nat (List.length (@nil gpath))) 0 = false)
        by (apply Z.eqb_neq; cbn [List.length]; lia).
      rewrite Hz. exact (multi_branch t now n (u :: u2 :: us) [] Hnc Hp).
    + injection E as Ht Hfd Hr. subst t' fd r.
      assert (Hz : Z.eqb (Z.of_nat (List.length (u :: u2 :: us)) + Z.of_nat (List.length [d])) 0 = false)
        by (apply Z.eqb_neq; cbn [List.length]; lia).
      rewrite Hz. exact (multi_branch t now n (u :: u2 :: us) [d] Hnc Hp).
    + injection E as Ht Hfd Hr. subst t' fd r.
      assert (Hz : Z.eqb (Z.of_nat (List.length (u :: u2 :: us)) + Z.of_nat (List.length (d :: d2 :: ds))) 0 = false)
        by (apply Z.eqb_neq; cbn [List.length]; lia).
      rewrite Hz. exact (multi_branch t now n (u :: u2 :: us) (d :: d2 :: ds) Hnc Hp).
Qed.

(** balance of the leaf counters across one notification *)
Theorem leafcount_add_minus_del_step t now n t' fd r :
  target_gnmi_update t now n = (t', fd, r) -> (forall w, r <> GPanic w) ->
  Forall (no_counter_reset (n_prefix n)) (n_del n) ->
  D t t' md_leaf_count = D t t' md_add_count - D t t' md_del_count.
Proof.
  intros E Hp Hnc. pose proof (update_accounting t now n t' fd r E Hp Hnc) as H.
  destruct (units n) as [[u w]|].
  - destruct (Z.eqb u 0).
    + destruct H as [_ H]. rewrite !H; try counter_in; try discriminate; try lia.
    + destruct H as (a & s & _ & _ & _ & _ & _ & _ & _ & Hb & _). exact Hb.
  - rewrite !H by counter_in. lia.
Qed.

(** * Latest timestamp *)

Lemma lat_compute_ts t r ts : t_ts (lat_compute t r ts) = t_ts t.
Proof. unfold lat_compute. destruct (t_sync t && r); reflexivity. Qed.

Lemma meta_side_effect_ts t k two u t1 r : meta_side_effect t k two u = (t1, r) -> t_ts t1 = t_ts t.
Proof. unfold meta_side_effect. repeat break_match; intros H; inversion H; subst; reflexivity. Qed.

Lemma update_pre_ts t p u t1 r : update_pre t p u = (t1, r) -> t_ts t1 = t_ts t.
Proof.
  unfold update_pre. repeat break_match; intros H;
    first [ eapply meta_side_effect_ts; eassumption | inversion H; subst; reflexivity ].
Qed.

Lemma update_leaf_ts t1 now p u n t2 r : update_leaf t1 now p u n = (t2, r) -> t_ts t2 = t_ts t1.
Proof.
  unfold update_leaf. repeat break_match; intros H; inversion H; subst;
    rewrite ?lat_compute_ts; reflexivity.
Qed.

Lemma gnmi_update1_ts t now n t' r : gnmi_update1 t now n = (t', r) -> t_ts t' = t_ts t.
Proof.
  unfold gnmi_update1. destruct (n_upd n) as [|u ?]; [intros H; inversion H; reflexivity|].
  destruct (unit_index n) as [p|e|w]; try (intros H; inversion H; reflexivity).
  destruct (update_pre t p u) as [t1 r1] eqn:Hpre. pose proof (update_pre_ts _ _ _ _ _ Hpre) as H1.
  destruct r1 as [[]|e|w]; try (intros H; inversion H; subst; exact H1).
  intros H. rewrite (update_leaf_ts _ _ _ _ _ _ _ H). exact H1.
Qed.

Lemma gnmi_remove_ts t n t' r : gnmi_remove t n = (t', r) -> t_ts t' = t_ts t.
Proof.
  unfold gnmi_remove. repeat break_match; intros H; inversion H; subst; reflexivity.
Qed.

Lemma multi_update_step_ts now n a u : t_ts (a_t (multi_update_step now n a u)) = t_ts (a_t a).
Proof.
  unfold multi_update_step. destruct (a_panic a); [reflexivity|].
  destruct (gnmi_update1 (a_t a) now (clone_with_update n u)) as [t1 r1] eqn:E.
  pose proof (gnmi_update1_ts _ _ _ _ _ E) as Hts.
  destruct r1 as [[nd|]|e|w]; cbn [a_t]; exact Hts.
Qed.

Lemma multi_delete_step_ts n a d : t_ts (a_t (multi_delete_step n a d)) = t_ts (a_t a).
Proof.
  unfold multi_delete_step. destruct (a_panic a); [reflexivity|]. cbv zeta.
  destruct (gnmi_remove (add_int (a_t a) md_update_count 1) (clone_with_delete n d)) as [t1 r1] eqn:E.
  pose proof (gnmi_remove_ts _ _ _ _ E) as Hts.
  destruct r1 as [rm|e|w]; cbn [a_t]; exact Hts.
Qed.

Lemma fold_ts {A} (f : acc -> A -> acc) (l : list A) :
  (forall a x, t_ts (a_t (f a x)) = t_ts (a_t a)) ->
  forall a, t_ts (a_t (fold_left f l a)) = t_ts (a_t a).
Proof. intros Hf. induction l as [|x l IH]; cbn; intros a; [reflexivity|]. now rewrite IH, Hf. Qed.

(** the latest timestamp after a notification: unchanged, or -- only when the
    notification is tracked (first update not under "meta") -- moved forward
    to the notification's timestamp *)
Definition ts_le (a b : option Z) : Prop :=
  match a, b with
  | None, _ => True
  | Some x, Some y => x <= y
  | Some _, None => False
  end.

Lemma finish_ts_cases n b t0 t :
  t_ts t = t_ts t0 ->
  (t_ts (finish_ts n b t) = t_ts t0 \/
   (tracks_ts n = true /\ b = true /\ t_ts (finish_ts n b t) = Some (n_ts n) /\
    forall z, t_ts t0 = Some z -> z < n_ts n)) /\
  ts_le (t_ts t0) (t_ts (finish_ts n b t)) /\
  (tracks_ts n = true -> b = true -> ts_le (Some (n_ts n)) (t_ts (finish_ts n b t))).
Proof.
  intros Hts. unfold finish_ts. destruct (tracks_ts n) eqn:Et; destruct b; cbn [andb];
    try (rewrite Hts; split; [now left|split; [destruct (t_ts t0); cbn; lia|intros; discriminate]]).
  unfold check_timestamp. rewrite Hts. destruct (t_ts t0) as [z|] eqn:E0.
  - destruct (Z.ltb_spec z (n_ts n)); cbn [t_ts set_ts].
    + split; [right; repeat split; auto; intros z' Hz; inversion Hz; subst; assumption|].
      split; [cbn; lia|intros; cbn; lia].
    + rewrite Hts. split; [now left|]. split; [cbn; lia|intros; cbn; lia].
  - cbn [t_ts set_ts]. split; [right; repeat split; auto; intros z Hz; discriminate|].
    split; [exact I|intros; cbn; lia].
Qed.

Theorem latest_step t now n t' fd r :
  target_gnmi_update t now n = (t', fd, r) ->
  (t_ts t' = t_ts t \/
   (tracks_ts n = true /\ t_ts t' = Some (n_ts n) /\ forall z, t_ts t = Some z -> z < n_ts n)) /\
  ts_le (t_ts t) (t_ts t').
Proof.
  unfold target_gnmi_update.
  assert (Hfold : forall us ds,
            t_ts (a_t (fold_left (multi_delete_step n) ds
                        (fold_left (multi_update_step now n) us (Acc t [] [] false None)))) = t_ts t).
  { intros us ds. rewrite (fold_ts _ ds (multi_delete_step_ts n)).
    rewrite (fold_ts _ us (multi_update_step_ts now n)). reflexivity. }
  assert (Hself : ts_le (t_ts t) (t_ts t)) by (destruct (t_ts t); cbn; lia).
  repeat break_match; intros H; inversion H; subst;
    try (split; [now left|exact Hself]);
    try match goal with
      | E : gnmi_update1 t now n = (?t1, _) |- context [finish_ts n ?b ?x] =>
          let Hts := fresh in
          assert (Hts : t_ts x = t_ts t) by (cbn [t_ts add_int set_meta]; exact (gnmi_update1_ts _ _ _ _ _ E));
          destruct (finish_ts_cases n b t x Hts) as ([Hc|(Hc1 & _ & Hc2 & Hc3)] & Hle & _);
          (split; [first [now left|right; auto]|exact Hle])
      | E : gnmi_remove _ n = (?t1, _) |- _ =>
          rewrite (gnmi_remove_ts _ _ _ _ E); cbn [t_ts add_int set_meta]; split; [now left|exact Hself]
      end;
    try match goal with
      | |- context [finish_ts n ?b (a_t ?a2)] =>
          let Hts := fresh in
          assert (Hts : t_ts (a_t a2) = t_ts t) by
            (first [ exact (Hfold _ _)
                   | rewrite ?multi_delete_step_ts, ?multi_update_step_ts;
                     rewrite ?(fold_ts _ _ (multi_delete_step_ts n)), ?multi_delete_step_ts, ?multi_update_step_ts;
                     rewrite ?(fold_ts _ _ (multi_update_step_ts now n)), ?multi_update_step_ts; reflexivity ]);
          destruct (finish_ts_cases n b t (a_t a2) Hts) as ([Hc|(Hc1 & _ & Hc2 & Hc3)] & Hle & _);
          (split; [first [now left|right; auto]|exact Hle])
      end.
Qed.

(** an accepted single update whose path is tracked moves the latest timestamp
    to at least its own; a rejected one leaves it alone *)
Theorem latest_single t now n u t' fd r :
  n_atomic n = false -> n_upd n = [u] -> n_del n = [] ->
  target_gnmi_update t now n = (t', fd, r) ->
  match r with
  | GOk => tracks_ts n = true -> ts_le (Some (n_ts n)) (t_ts t')
  | _ => t_ts t' = t_ts t
  end.
Proof.
  intros Ha Hu Hd. unfold target_gnmi_update. rewrite Ha, Hu, Hd.
  destruct (gnmi_update1 t now n) as [t1 r1] eqn:E.
  pose proof (gnmi_update1_ts _ _ _ _ _ E) as Hts.
  destruct r1 as [[nd|]|e|w]; intros H; inversion H; subst.
  - intros Ht. assert (Hts' : t_ts (add_int t1 md_update_count 1) = t_ts t) by exact Hts.
    destruct (finish_ts_cases n true t _ Hts') as (_ & _ & Hx). auto.
  - intros Ht. destruct (finish_ts_cases n true t _ Hts) as (_ & _ & Hx). auto.
  - unfold finish_ts. rewrite andb_false_r. exact Hts.
  - unfold finish_ts. rewrite andb_false_r. exact Hts.
Qed.

(** * leafcount_is_tree *)

(** number of leaves stored outside "meta" *)
Definition real_leaves (t : target) : Z :=
  Z.of_nat (List.length (filter (fun pv => is_real (fst pv)) (walk (t_tree t)))).

Definition ex15_cfg : config := Cfg 0 true [].
Definition ex15_c0 : cache := new_cache ex15_cfg ["t"].
Definition ex15_c1 : cache := crun ex15_c0 [MConnectError 1 "t" "boom"; MConnect 2 "t"].

(** FULL STATEMENT (not finished):
      for every reachable target t, gi (t_meta t) md_leaf_count = real_leaves t.
    It was false before ccc875e (fix of DESIGN 7.11: gnmiRemove counted deleted
    metadata leaves; ConnectError then Connect gave -1).  Proved part:
    [gnmi_remove_moves] (the count moves by exactly the removed leaves NOT under
    "meta") and [gnmi_update1_moves] (it moves by 1 exactly when a new leaf is
    created outside "meta"); what is missing is the counting argument relating
    [walk] before and after [add] / [delete_cond].  The former witness: *)
Example leafcount_former_witness :
  exists t, assoc "t" (c_targets ex15_c1) = Some t /\
            gi (t_meta t) md_leaf_count = 0 /\ real_leaves t = 0.
Proof. vm_compute. eexists. split; [reflexivity|]. split; reflexivity. Qed.

(** * Lockset annotation of the fields shared by the update stream and the
      periodic refresh (UpdateMetadata / UpdateSize goroutines)

    One entry per access site of cache/cache.go: field, read/write, which of
    the two goroutines can execute the site, the mutexes held there.  That the
    table matches the code is validated only by the race detector (thorough
    tier, supporting evidence). *)

Inductive field := FSync | FTs | FMeta | FLat | FTree | FCount.
Inductive mutex := MuW | MuTs | MuMeta | MuLat | MuTree.
(** how a mutex is held: exclusively (Lock) or shared (RLock of an RWMutex) *)
Inductive lmode := Ex | Sh.
(** the three goroutines of the collector per target *)
Inductive thread := Stream | RefreshMeta | RefreshSize.

Record access := Acs {
  ac_field : field; ac_write : bool; ac_thread : thread; ac_held : list (mutex * lmode); ac_site : string }.

Definition field_eqb (a b : field) : bool :=
  match a, b with
  | FSync, FSync | FTs, FTs | FMeta, FMeta | FLat, FLat | FTree, FTree | FCount, FCount => true
  | _, _ => false
  end.
Definition mutex_eqb (a b : mutex) : bool :=
  match a, b with
  | MuW, MuW | MuTs, MuTs | MuMeta, MuMeta | MuLat, MuLat | MuTree, MuTree => true
  | _, _ => false
  end.
Definition thread_eqb (a b : thread) : bool :=
  match a, b with
  | Stream, Stream | RefreshMeta, RefreshMeta | RefreshSize, RefreshSize => true
  | _, _ => false
  end.
Definition is_ex (m : lmode) : bool := match m with Ex => true | Sh => false end.

(** Since b865e5c [Target.wmu] ([MuW]) is held across Target.GnmiUpdate
    (including its deferred checkTimestamp), updateMeta and Reset: every site
    that touches [t.sync] / [t.ts] runs under it.  UpdateSize takes no [wmu]; it
    touches only the tree (its own locks) and the metadata values.
    [metadata.Metadata.mu] ([MuMeta]) is named per METHOD with the mode it is
    taken in: on HEAD it is a sync.Mutex, so every method holds it [Ex]. *)
Definition accesses : list access :=
  [ (* t.sync *)
    Acs FSync true Stream [(MuW, Ex)] "gnmiUpdate: t.sync = tv.BoolVal (meta/sync written by Sync()), under Target.GnmiUpdate";
    Acs FSync false Stream [(MuW, Ex)] "gnmiUpdate: if t.sync && realData / if t.sync, under Target.GnmiUpdate";
    Acs FSync true RefreshMeta [(MuW, Ex)] "updateMeta -> generateMetaUpdates -> gnmiUpdate(meta/sync): t.sync = tv.BoolVal";
    Acs FSync false RefreshMeta [(MuW, Ex)] "updateMeta -> generateMetaUpdates -> gnmiUpdate: if t.sync";
    (* t.ts *)
    Acs FTs true Stream [(MuW, Ex); (MuTs, Ex)] "checkTimestamp (deferred in Target.GnmiUpdate, runs before the deferred Unlock)";
    Acs FTs true Stream [(MuW, Ex); (MuTs, Ex)] "resetTimestamp (Reset)";
    Acs FTs false Stream [(MuW, Ex)] "gnmiUpdate: t.ts.UnixNano() / nts.Sub(t.ts) in the future check";
    Acs FTs false RefreshMeta [(MuW, Ex); (MuTs, Ex)] "updateMetaLocked: latest := t.ts";
    Acs FTs false RefreshMeta [(MuW, Ex)] "generateMetaUpdates -> gnmiUpdate: future check reads t.ts";
    (* metadata value maps, per method of metadata.Metadata *)
    Acs FMeta true Stream [(MuW, Ex); (MuMeta, Ex)] "Metadata.AddInt (counters, in GnmiUpdate / gnmiUpdate / gnmiRemove)";
    Acs FMeta true Stream [(MuW, Ex); (MuMeta, Ex)] "Metadata.SetBool / SetStr (metadata side effects of gnmiUpdate)";
    Acs FMeta true Stream [(MuW, Ex); (MuMeta, Ex)] "Metadata.ResetEntry / Clear (gnmiRemove of a meta path, Reset): SetBool / SetInt / SetStr / delete";
    Acs FMeta true RefreshMeta [(MuW, Ex); (MuMeta, Ex)] "Metadata.SetInt (latestTimestamp, latency stats) in updateMetaLocked";
    Acs FMeta false RefreshMeta [(MuW, Ex); (MuMeta, Ex)] "Metadata.GetBool / GetInt / GetStr in generateMetaUpdates";
    Acs FMeta true RefreshSize [(MuMeta, Ex)] "Metadata.SetInt (targetSize) in updateSize";
    (* the leaf counters targetLeaves / Added / Deleted: maintained INCREMENTALLY next to the tree *)
    Acs FCount true Stream [(MuW, Ex); (MuMeta, Ex)] "Metadata.AddInt(LeafCount/AddCount) in gnmiUpdate, AddInt(LeafCount/DelCount) in gnmiRemove";
    Acs FCount true Stream [(MuW, Ex); (MuMeta, Ex)] "Metadata.Clear in Reset (counters to 0 together with the tree deletes)";
    Acs FCount false RefreshMeta [(MuW, Ex); (MuMeta, Ex)] "Metadata.GetInt(LeafCount ...) in generateMetaUpdates";
    (* latency accumulators *)
    Acs FLat true Stream [(MuW, Ex); (MuLat, Ex)] "lat.Compute";
    Acs FLat true RefreshMeta [(MuW, Ex); (MuLat, Ex)] "lat.UpdateReset";
    (* the tree *)
    Acs FTree true Stream [(MuW, Ex); (MuTree, Ex)] "t.t.Add / Leaf.Update / WalkDeleted / Delete";
    Acs FTree true RefreshMeta [(MuW, Ex); (MuTree, Ex)] "generateMetaUpdates -> gnmiUpdate: t.t.Add / Leaf.Update";
    Acs FTree false RefreshSize [(MuTree, Sh)] "updateSize: t.t.Query (RLock of every node visited)" ].

(** two sites exclude each other when they hold a common mutex and at least
    one of them holds it exclusively *)
Definition share_lock (a b : access) : bool :=
  existsb (fun ma => existsb (fun mb => mutex_eqb (fst ma) (fst mb) && (is_ex (snd ma) || is_ex (snd mb)))
                             (ac_held b)) (ac_held a).

(** two accesses conflict: same field, different goroutines, one is a write *)
Definition conflict (a b : access) : bool :=
  field_eqb (ac_field a) (ac_field b) && negb (thread_eqb (ac_thread a) (ac_thread b)) &&
  (ac_write a || ac_write b).

Definition unprotected_in (tbl : list access) (f : field) : bool :=
  negb (forallb (fun a => forallb (fun b =>
    negb (field_eqb (ac_field a) f && conflict a b) || share_lock a b) tbl) tbl).

Definition no_unprotected_access (f : field) : bool := negb (unprotected_in accesses f).

(** every conflicting pair of access sites excludes each other *)
Theorem lockset_all : forall f, no_unprotected_access f = true.
Proof. intros []; vm_compute; reflexivity. Qed.

(** Coupled state: the leaf counters summarise the tree and are updated
    incrementally ([AddInt]) in the same critical section as the tree write.
    A lockset per memory location is not enough for them -- a recount written
    with [SetInt] under the metadata mutex alone is "protected" location-wise
    and still loses a concurrent [AddInt].  What keeps counter = tree is that
    EVERY write site of the tree and of the leaf counters runs under the
    target's write lock, exclusively. *)
Definition coupled (f : field) : bool := match f with FTree | FCount => true | _ => false end.

Definition coupled_writes_serialised (tbl : list access) : bool :=
  forallb (fun a => negb (coupled (ac_field a) && ac_write a) ||
                    existsb (fun m => mutex_eqb (fst m) MuW && is_ex (snd m)) (ac_held a)) tbl.

Theorem coupled_writes_all : coupled_writes_serialised accesses = true.
Proof. vm_compute. reflexivity. Qed.

(** the picture of a periodic UpdateSize that also rewrites the leaf count from
    its walk (no write lock, metadata mutex only): every location is still
    lock-protected, the coupling is not *)
Definition accesses_size_recounts : list access :=
  accesses ++ [Acs FCount true RefreshSize [(MuMeta, Ex)] "updateSize: Metadata.SetInt(LeafCount, leaves seen by the walk)"].

Example recount_outside_wmu_refuted :
  unprotected_in accesses_size_recounts FCount = false /\
  coupled_writes_serialised accesses_size_recounts = false.
Proof. vm_compute. split; reflexivity. Qed.

(** before b865e5c the sites of [t.sync] / [t.ts] held no common lock (known
    finding 7.13, reported by the race detector on the workload of
    harness/c15/race.go); the annotation without [MuW]: *)
Definition accesses_before_wmu : list access :=
  map (fun a => Acs (ac_field a) (ac_write a) (ac_thread a)
                    (filter (fun m => negb (mutex_eqb (fst m) MuW)) (ac_held a)) (ac_site a)) accesses.

Example lockset_before_wmu_refuted : unprotected_in accesses_before_wmu FSync = true.
Proof. vm_compute. reflexivity. Qed.

(** a write site holding the metadata mutex only SHARED is unprotected: the
    picture if [metadata.Metadata.mu] were an RWMutex and [SetInt] took RLock
    (UpdateSize's and UpdateMetadata's SetInt then write the int map at once) *)
Definition accesses_setint_rlock : list access :=
  map (fun a =>
         if field_eqb (ac_field a) FMeta && ac_write a &&
            negb (thread_eqb (ac_thread a) Stream)           (* the two SetInt sites of the refresh goroutines *)
         then Acs (ac_field a) (ac_write a) (ac_thread a)
                  (map (fun m => if mutex_eqb (fst m) MuMeta then (MuMeta, Sh) else m) (ac_held a)) (ac_site a)
         else a) accesses.

Example lockset_shared_write_refuted : unprotected_in accesses_setint_rlock FMeta = true.
Proof. vm_compute. reflexivity. Qed.

(** * Examples *)

Definition ex15_upd (leaf : string) (ts v : Z) : update * Z :=
  (Upd (Some (gp_of_names [leaf])) (Some (TInt v)) 0, ts).

Definition ex15_t1 : target :=
  fst (fst (target_gnmi_update (new_target "t" ex15_cfg) 0
    (Notif 5 (Some (gp_prefix "t" "" ["a"])) None [Upd (Some (gp_of_names ["b"])) (Some (TInt 1)) 0] [] false))).

(** a multi notification on [ex15_t1]: one stale update, one new leaf, one delete *)
Definition ex15_multi : notif :=
  Notif 4 (Some (gp_prefix "t" "" ["a"])) None
    [Upd (Some (gp_of_names ["b"])) (Some (TInt 2)) 0; Upd (Some (gp_of_names ["c"])) (Some (TInt 3)) 0]
    [gp_of_names ["zz"]] false.

Example ex_accounting_hyps :
  let '(t', fd, r) := target_gnmi_update ex15_t1 0 ex15_multi in
  r = GErrs [err_stale] /\ (forall w, r <> GPanic w) /\
  Forall (no_counter_reset (n_prefix ex15_multi)) (n_del ex15_multi) /\
  units ex15_multi = Some (3, 1) /\
  D ex15_t1 t' md_update_count = 2 /\ D ex15_t1 t' md_stale_count = 1.
Proof.
  vm_compute. repeat split; try discriminate.
  constructor; [|constructor]. unfold no_counter_reset. vm_compute. intros H; discriminate.
Qed.

(** * Soundness of the executable specification (C15Check.kp_window) *)
From Gnmi Require Import Cache.C14Check Latency.LatencyModel Cache.C15Check.

Lemma within_sound lo hi p v :
  within lo hi p (Some v) = true ->
  if Z.eqb p 0 then lo <= v <= hi else lo - p < v < hi + p.
Proof.
  unfold within. destruct (Z.eqb p 0); intros H; apply andb_true_iff in H; destruct H as [H1 H2].
  - apply Z.leb_le in H1, H2. lia.
  - apply Z.ltb_lt in H1, H2. lia.
Qed.

(** K_P(latency) = true on a written window means: the sample set is non-empty
    unless nothing was written, max and min lie within [lo, hi] and the average
    strictly within (lo - p, hi + p), for lo / hi the least / greatest sample *)
Theorem kp_window_sound S p st :
  p <> 0 -> kp_window S p (Some st) = true ->
  match zmin_list S, zmax_list S with
  | Some lo, Some hi =>
      (forall v, ws_max st = Some v -> lo <= v <= hi) /\
      (forall v, ws_min st = Some v -> lo <= v <= hi) /\
      (forall v, ws_avg st = Some v -> lo - p < v < hi + p)
  | _, _ => ws_avg st = None /\ ws_max st = None /\ ws_min st = None
  end.
Proof.
  intros Hp. unfold kp_window. destruct (zmin_list S) as [lo|]; destruct (zmax_list S) as [hi|];
    intros H; repeat (apply andb_true_iff in H; destruct H as [H ?]);
    try (destruct (ws_avg st), (ws_max st), (ws_min st); cbn in *; try discriminate; auto; fail).
  split; [|split]; intros x Hx; rewrite Hx in *.
  - pose proof (within_sound _ _ 0 _ H) as Hs. cbn in Hs. lia.
  - pose proof (within_sound _ _ 0 _ H1) as Hs. cbn in Hs. lia.
  - pose proof (within_sound _ _ p _ H0) as Hs. destruct (Z.eqb_spec p 0); [contradiction|]. lia.
Qed.

From Gnmi Require Import Base.Prelude.

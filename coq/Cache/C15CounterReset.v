(** C15, known finding KF-C15-3: the leaf-count law without the hypothesis
    [no_counter_reset] ([admissible] of C15Count) is false of the model -- and of
    the code: a delete addressed to meta/targetLeaves makes gnmiRemove call
    metadata.ResetEntry("targetLeaves"), which zeroes the counter while the
    leaf a/b stays stored.  Witness: corpus/C15/kf3_counter_reset.json. *)
From Gnmi Require Import Base.Prelude CTree.CTreeModel Path.PathModel Cache.CacheModel
  Cache.MultiCache Cache.C14Proofs Cache.C14Check Cache.C15Check Cache.C15Proofs Cache.C15Count.
Local Open Scope Z_scope.

Definition kf3_ops : list mop :=
  [MUpd 10 (Notif 100 (Some (gp_prefix "t" "" ["a"])) None
              [Upd (Some (gp_of_names ["b"])) (Some (TInt 1)) 0] [] false);
   MUpd 20 (Notif 9000 (Some (GPath "t" "" [] [])) None []
              [gp_of_names ["meta"; md_leaf_count]] false)].

Definition kf3_c0 : cache := new_cache (Cfg 0 true []) ["t"].

(** no call panics, no target is named "", and yet the counter is not the
    number of stored non-metadata leaves *)
Theorem leafcount_is_tree_without_no_counter_reset_refuted :
  exists cfg names ops,
    ~ In ""%string names /\
    (forall k, (k < List.length ops)%nat ->
       snd (fst (cstep (crun (new_cache cfg names) (firstn k ops)) (nth k ops MGate))) <> RPanic) /\
    exists name t, assoc name (c_targets (crun (new_cache cfg names) ops)) = Some t /\
                   gi (t_meta t) md_leaf_count = 0 /\ real_count (t_tree t) = 1.
Proof.
  exists (Cfg 0 true []), ["t"%string], kf3_ops.
  split; [cbn; intros [H|[]]; discriminate|].
  split.
  { intros k Hk. destruct k as [|[|k]]; [vm_compute; discriminate|vm_compute; discriminate|cbn in Hk; lia]. }
  exists "t"%string.
  destruct (assoc "t"%string (c_targets (crun (new_cache (Cfg 0 true []) ["t"%string]) kf3_ops))) as [t|] eqn:E;
    vm_compute in E; [|discriminate].
  exists t. split; [reflexivity|]. inversion E; subst. split; vm_compute; reflexivity.
Qed.

(** the K_P class of the finding contains the resetting call *)
Example kf3_in_class :
  cr_next [] (nth 1 kf3_ops MGate) = ["t"%string] /\ cr_next ["t"%string] (MReset 30 "t") = [].
Proof. vm_compute. split; reflexivity. Qed.

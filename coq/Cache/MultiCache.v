(** Multi-target layer on top of CacheModel.v (definitions only).

    CacheModel.v (owned by C02/C03) models one [cache.Cache] as
    [list (string * target)] with the per-target ingest path.  This file adds
    what C14 and C15 need on top of it and nothing that changes it:

    - one operation type [mop] for every API call the C14/C15 harnesses make
      ([Cache.GnmiUpdate], [Reset], [Remove], [Add], [Sync], [Connect],
      [ConnectError], [UpdateMetadata], [UpdateSize], and attaching a STREAM
      subscriber) and the model step [mstep];
    - [Cache.HasTarget], [Cache.Query] per target and for "*", [Cache.Metadata]
      projected to the values of the registered names;
    - [Cache.UpdateSize]: the json size of a leaf is abstracted -- the operation
      carries, per target, the sum the harness computed itself from its own
      [Query] + [json.Marshal] (cache/cache.go:655-670);
    - the sequential model of a STREAM subscriber with [updates_only] whose
      subscription is the whole target (subscribe/subscribe.go: [Subscribe]
      inserts the sync marker, [Server.Update] offers every feed entry whose
      first index element is the subscribed target (or any, for "*"),
      [sendStreamingResults] ends a single-target stream with status OK after
      forwarding a whole-target delete, [isTargetDelete]).

    The feed of [Reset] / [UpdateMetadata] is produced in Go map order; the model
    fixes one order and the comparison of these feeds is up to permutation
    ([MBag]). *)
From Gnmi Require Import Base.Prelude CTree.CTreeModel Path.PathModel Cache.CacheModel.
Local Open Scope Z_scope.

(** * Operations *)

Inductive mop :=
| MUpd (now : Z) (n : notif)                        (* Cache.GnmiUpdate *)
| MReset (now : Z) (tgt : string)
| MRemove (now : Z) (tgt : string)
| MAdd (tgt : string)
| MSync (now : Z) (tgt : string)
| MConnect (now : Z) (tgt : string)
| MConnectError (now : Z) (tgt : string) (msg : string)
| MUpdateMeta (now : Z)
| MUpdateSize (sizes : list (string * Z))           (* per target: sum of the json sizes of its leaves *)
| MSub (tgt : string)                               (* attach a STREAM/updates_only subscriber to the whole target *)
| MSubP (tgt : string) (q : path)                   (* the same on a path below the target (subscription path q) *)
| MUnsub (i : nat)                                  (* the i-th subscriber disconnects (its context is cancelled) *)
| MGate                                             (* every subscriber's Send blocks from now on: backlogs build up *)
| MUngate                                           (* ... and is released again *)
| MSubWalk (now : Z) (tgt : string) (rm : option string).
    (* attach a STREAM subscriber WITH the initial walk; [rm = Some x]: Cache.Remove(x)
       is executed between the registration of the subscription and the walk
       (hook point process:before-walk) *)

Inductive rcls := ROk | RStale | RFuture | ROther | RMulti (l : list rcls) | RPanic.

Fixpoint rcls_eqb (a b : rcls) {struct a} : bool :=
  match a, b with
  | ROk, ROk | RStale, RStale | RFuture, RFuture | ROther, ROther | RPanic, RPanic => true
  | RMulti x, RMulti y =>
      (fix go (x y : list rcls) {struct x} : bool :=
         match x, y with
         | [], [] => true
         | a :: x', b :: y' => rcls_eqb a b && go x' y'
         | _, _ => false
         end) x y
  | _, _ => false
  end.

Definition cls_of_err (e : N) : rcls :=
  if N.eqb e err_stale then RStale else if N.eqb e err_future then RFuture else ROther.

Definition rcls_of (r : gres) : rcls :=
  match r with
  | GOk => ROk
  | GErr e => cls_of_err e
  | GErrs es => RMulti (map cls_of_err es)
  | GPanic _ => RPanic
  end.

(** who an operation is addressed to *)
Inductive addr := AOne (t : string) | AAll | ANone.

Definition op_addr (o : mop) : addr :=
  match o with
  | MUpd _ n => match n_prefix n with Some pr => AOne (gp_target pr) | None => ANone end
  | MReset _ t | MRemove _ t | MAdd t | MSync _ t | MConnect _ t | MConnectError _ t _ => AOne t
  | MUpdateMeta _ | MUpdateSize _ => AAll
  | MSub _ | MSubP _ _ | MUnsub _ | MGate | MUngate => ANone
  | MSubWalk _ _ (Some x) => AOne x
  | MSubWalk _ _ None => ANone
  end.

(** * Cache-level observers *)

(** Cache.HasTarget *)
Definition cache_has_target (c : cache) (name : string) : bool :=
  if String.eqb name "" then false
  else if String.eqb name "*" then true
  else match assoc name (c_targets c) with Some _ => true | None => false end.

(** Cache.Query(name, [*]) for one target: [None] = "target not found" *)
Definition target_dump (c : cache) (name : string) : option (list (path * notif)) :=
  match assoc name (c_targets c) with
  | None => None
  | Some t => Some (CTreeModel.query (t_tree t) ["*"])
  end.

(** Cache.Query("*", [*]) *)
Definition star_dump (c : cache) : list (path * notif) :=
  flat_map (fun kt => CTreeModel.query (t_tree (snd kt)) ["*"]) (c_targets c).

(** Cache.Metadata()[name] projected: Get* of every registered name, in the
    order of [md_int_names] / [md_bool_names] / [md_str_names]; [None] = unset *)
Record metaobs := MO {
  mo_ints : list (option Z);
  mo_bools : list (option bool);
  mo_strs : list (option string);
  mo_srv : option string            (* GetStr(serverName): registered only with cache.WithServerName *)
}.

Definition meta_obs (m : metadata) : metaobs :=
  MO (map (md_get_int m) md_int_names) (map (md_get_bool m) md_bool_names)
     (map (md_get_str m) md_str_names) None.

Definition target_meta (c : cache) (name : string) : option metaobs :=
  match assoc name (c_targets c) with
  | None => None
  | Some t => Some (meta_obs (t_meta t))
  end.

(** Cache.UpdateSize with the sizes given *)
Definition target_update_size (t : target) (sz : Z) : target :=
  set_meta t (md_set_int (t_meta t) md_size sz).

Definition cache_update_size (c : cache) (sizes : list (string * Z)) : cache :=
  Cache (c_cfg c)
        (map (fun kt => (fst kt,
                         target_update_size (snd kt)
                           (match assoc (fst kt) sizes with Some z => z | None => 0 end)))
             (c_targets c)).

(** * The cache step *)

Inductive mfeed :=
| MGroups (gs : list fgroup)     (* in order, group by group *)
| MBag (l : list notif).         (* order not specified (Go map iteration) *)

Definition mfeed_list (m : mfeed) : list notif :=
  match m with MGroups gs => render_feed gs | MBag l => l end.

Definition opt_panic (o : option N) : rcls := match o with Some _ => RPanic | None => ROk end.

(** calls whose error is only logged return nothing; a panic is still seen *)
Definition quiet (r : gres) : rcls := match r with GPanic _ => RPanic | _ => ROk end.

Definition cstep (c : cache) (o : mop) : cache * rcls * mfeed :=
  match o with
  | MUpd now n => let '(c', gs, r) := cache_gnmi_update c now n in (c', rcls_of r, MGroups gs)
  | MReset now tgt => let '(c', l, p) := cache_reset c now tgt in (c', opt_panic p, MBag l)
  | MRemove now tgt => let '(c', l) := cache_remove c now tgt in (c', ROk, MBag l)
  | MAdd tgt => (cache_add c tgt, ROk, MBag [])
  | MSync now tgt => let '(c', gs, r) := cache_sync c now tgt in (c', quiet r, MGroups gs)
  | MConnect now tgt => let '(c', gs, r) := cache_connect c now tgt in (c', quiet r, MGroups gs)
  | MConnectError now tgt msg =>
      let '(c', gs, r) := cache_connect_error c now tgt msg in (c', quiet r, MGroups gs)
  | MUpdateMeta now => let '(c', l, p) := cache_update_metadata c now in (c', opt_panic p, MBag l)
  | MUpdateSize sizes => (cache_update_size c sizes, ROk, MBag [])
  | MSub _ | MSubP _ _ | MUnsub _ | MGate | MUngate => (c, ROk, MBag [])
  | MSubWalk now T rm =>
      (* Subscribe returns NotFound before anything else happens when [T] is unknown *)
      if cache_has_target c T then
        match rm with
        | Some x => let '(c', l) := cache_remove c now x in (c', ROk, MBag l)
        | None => (c, ROk, MBag [])
        end
      else (c, ROk, MBag [])
  end.

(** * STREAM subscribers (sequential model) *)

Inductive sresp := SSync | SUpd (n : notif).
Inductive sstat := SRunning | SEndedOk | SNotFound | SEndedErr | SCanceled.

Record sub := Sub { sub_target : string; sub_path : path; sub_stat : sstat }.

Definition sstat_eqb (a b : sstat) : bool :=
  match a, b with
  | SRunning, SRunning | SEndedOk, SEndedOk | SNotFound, SNotFound | SEndedErr, SEndedErr
  | SCanceled, SCanceled => true
  | _, _ => false
  end.

(** subscribe.isTargetDelete *)
Definition is_target_delete (n : notif) : bool :=
  match n_del n with
  | [d] =>
      let pr := gp_of_opt (n_prefix n) in
      String.eqb (gp_origin pr) "" &&
      path_eqb (to_strings false pr ++ to_strings false d) ["*"]
  | _ => false
  end.

(** the first element of the path [Server.Update] matches subscribers with:
    [ToStrings(prefix, true) ++ ToStrings(path, false)] of the first update
    (else the first delete) *)
Definition feed_head (n : notif) : option string :=
  let ph := match n_upd n, n_del n with
            | u :: _, _ => gp_of_opt (u_path u)
            | [], d :: _ => d
            | [], [] => empty_gpath
            end in
  match to_strings true (gp_of_opt (n_prefix n)) ++ to_strings false ph with
  | x :: _ => Some x
  | [] => None
  end.

(** match.Match: a client registered at query [q] is invoked for an update
    with path [p] (match.go, branch.update): the clients of every node on the
    way, every registration below the end of [p] ("implicit recursion for
    intermediate deletes"), a "*" in [p] walks every child, a "*" in [q]
    takes every element *)
Fixpoint mmatch (q p : path) : bool :=
  match q with
  | [] => true
  | k :: q' =>
      match p with
      | [] => true
      | a :: p' =>
          if String.eqb a "*" then mmatch q' p'
          else (String.eqb k "*" || String.eqb k a) && mmatch q' p'
      end
  end.

(** the paths Server.Update matches: ToStrings(prefix, true) ++ ToStrings(path,
    false) of every update and delete of the notification *)
Definition noti_paths (n : notif) : list path :=
  let pre := to_strings true (gp_of_opt (n_prefix n)) in
  map (fun u => pre ++ to_strings false (gp_of_opt (u_path u))) (n_upd n) ++
  map (fun d => pre ++ to_strings false d) (n_del n).

(** is a feed entry offered to a subscriber of target [T] with subscription
    path [q] (registered at the query [T :: q]) *)
Definition offered (T : string) (q : path) (n : notif) : bool :=
  existsb (mmatch (T :: q)) (noti_paths n).

(** sendStreamingResults over the feed entries of one call: the responses
    sent and whether the stream ended (single-target stream after a
    whole-target delete) *)
Fixpoint stream_feed (T : string) (q : path) (feed : list notif) : list sresp * bool :=
  match feed with
  | [] => ([], false)
  | n :: rest =>
      if offered T q n then
        if negb (String.eqb T "*") && is_target_delete n then ([SUpd n], true)
        else let '(out, e) := stream_feed T q rest in (SUpd n :: out, e)
      else stream_feed T q rest
  end.

Definition sub_step (feed : list notif) (s : sub) : sub * list sresp :=
  match sub_stat s with
  | SRunning =>
      let '(out, e) := stream_feed (sub_target s) (sub_path s) feed in
      (Sub (sub_target s) (sub_path s) (if e then SEndedOk else SRunning), out)
  | _ => (s, [])
  end.

(** Server.Subscribe up to the point where the stream runs: unknown target =
    NotFound; updates_only = the sync marker is queued first *)
Definition sub_attach (c : cache) (T : string) (q : path) : sub * list sresp :=
  if cache_has_target c T then (Sub T q SRunning, [SSync]) else (Sub T q SNotFound, []).

(** processSubscription: the walk of the subscribed target after the hook
    operation (a Query error is ignored: no leaves) *)
Definition walk_of (c : cache) (T : string) : list notif :=
  if String.eqb T "*" then map snd (star_dump c)
  else match target_dump c T with Some d => map snd d | None => [] end.

(** Subscribe with the initial walk: the entries announced between
    registration and walk come first (and may already end the stream), then
    the walked leaves, then the sync marker *)
Definition sub_attach_walk (c0 c' : cache) (T : string) (feed : list notif) : sub * list sresp :=
  if cache_has_target c0 T then
    let '(out, e) := stream_feed T [] feed in
    if e then (Sub T [] SEndedOk, out)
    else (Sub T [] SRunning, out ++ map SUpd (walk_of c' T) ++ [SSync])
  else (Sub T [] SNotFound, []).

(** the i-th subscriber's context is cancelled: a running RPC returns
    Canceled and its registrations are removed *)
Fixpoint cancel_sub (i : nat) (l : list sub) : list sub :=
  match l, i with
  | [], _ => []
  | s :: l', O => (match sub_stat s with
                   | SRunning => Sub (sub_target s) (sub_path s) SCanceled
                   | _ => s
                   end) :: l'
  | s :: l', S i' => s :: cancel_sub i' l'
  end.

(** * The whole step *)

(** [ms_gate = Some (stats, pending)]: the subscribers' Send is blocked; what
    they would have been sent since is pending (the coalescing queue keeps it:
    the generators never touch one leaf twice while gated), their RPCs have not
    returned, so the statuses visible from outside are those at gate time *)
Record mstate := MS {
  ms_cache : cache;
  ms_subs : list sub;
  ms_gate : option (list sstat * list (list sresp))
}.

Definition ms_vis (s : mstate) : list sstat :=
  match ms_gate s with
  | Some (st, _) => st
  | None => map sub_stat (ms_subs s)
  end.

Fixpoint zip_app {A} (a b : list (list A)) : list (list A) :=
  match a, b with
  | x :: a', y :: b' => (x ++ y) :: zip_app a' b'
  | _, _ => a
  end.

Definition mstep_gen (post : cache -> mop -> mfeed -> cache * mfeed) (s : mstate) (o : mop)
  : mstate * rcls * mfeed * list (list sresp) :=
  let '(c0, r, f0) := cstep (ms_cache s) o in
  let '(c', f) := post c0 o f0 in
  let stepped := map (sub_step (mfeed_list f)) (ms_subs s) in
  let subs' := map fst stepped in
  let outs := map snd stepped in
  let held := fun (subs2 : list sub) (outs2 : list (list sresp)) =>
    (* deliver now, or keep pending while gated *)
    match ms_gate s with
    | None => (MS c' subs2 None, r, f, outs2)
    | Some (st, pend) => (MS c' subs2 (Some (st, zip_app pend outs2)), r, f, map (fun _ => []) outs2)
    end in
  match o with
  | MSub T =>
      let '(sb, out) := sub_attach c' T [] in held (subs' ++ [sb]) (outs ++ [out])
  | MSubP T q =>
      let '(sb, out) := sub_attach c' T q in held (subs' ++ [sb]) (outs ++ [out])
  | MSubWalk _ T _ =>
      let '(sb, out) := sub_attach_walk (ms_cache s) c' T (mfeed_list f) in
      held (subs' ++ [sb]) (outs ++ [out])
  | MUnsub i => held (cancel_sub i subs') outs
  | MGate =>
      match ms_gate s with
      | None => (MS c' subs' (Some (map sub_stat subs', map (fun _ => []) subs')), r, f, outs)
      | Some _ => held subs' outs
      end
  | MUngate =>
      match ms_gate s with
      | Some (_, pend) => (MS c' subs' None, r, f, zip_app pend outs)
      | None => held subs' outs
      end
  | _ => held subs' outs
  end.

Definition mstep : mstate -> mop -> mstate * rcls * mfeed * list (list sresp) :=
  mstep_gen (fun c _ f => (c, f)).

(** ** cache.WithServerName (layer on top: CacheModel has no server name)

    The option registers the string metadata [serverName] with reset action
    KEEP; Cache.Add sets it once.  Metadata keeps the value for the life of the
    target (also across Reset); the leaf meta/serverName is written by the
    string loop of generateMetaUpdates -- i.e. by UpdateMetadata and by Reset --
    whenever the stored leaf does not show it. *)
Definition md_server_name : string := "serverName".

Definition srv_refresh (sname : string) (now : Z) (t : target) : target * list notif :=
  let shows := match CTreeModel.lookup (t_tree t) [md_root; md_server_name] with
               | Some prev => match n_upd prev with
                              | u :: _ => otv_eqb (u_val u) (Some (TStr sname))
                              | [] => false
                              end
               | None => false
               end in
  if shows || name_in md_server_name (cfg_excluded (t_cfg t)) then (t, [])   (* excludedMeta: no update generated *)
  else match gnmi_update1 t now (meta_noti (t_name t) now md_server_name (TStr sname)) with
       | (t', Ok (Some nd)) => (t', [nd])
       | (t', _) => (t', [])
       end.

Definition srv_refresh_in (sname : string) (now : Z) (c : cache) (name : string) : cache * list notif :=
  match assoc name (c_targets c) with
  | None => (c, [])
  | Some t => let '(t', l) := srv_refresh sname now t in (set_target c name t', l)
  end.

Definition feed_app (f : mfeed) (l : list notif) : mfeed :=
  match l with
  | [] => f
  | _ => MBag (mfeed_list f ++ l)
  end.

Definition srv_post (srv : option string) (c : cache) (o : mop) (f : mfeed) : cache * mfeed :=
  match srv with
  | None => (c, f)
  | Some sname =>
      match o with
      | MReset now name =>
          let '(c', l) := srv_refresh_in sname now c name in (c', feed_app f l)
      | MUpdateMeta now =>
          let '(c', l) := fold_left (fun st k => let '(c1, l1) := srv_refresh_in sname now (fst st) k in
                                                 (c1, snd st ++ l1))
                                    (keys (c_targets c)) (c, []) in
          (c', feed_app f l)
      | _ => (c, f)
      end
  end.

Definition mrun (s : mstate) (ops : list mop) : mstate :=
  fold_left (fun st o => fst (fst (fst (mstep st o)))) ops s.

Definition minit (cfg : config) (names : list string) : mstate := MS (new_cache cfg names) [] None.

(** * Observations (shared by the C14 and C15 checkers) *)

(** per known target name *)
Record tobs := TObs {
  to_has : bool;                                   (* HasTarget *)
  to_dump : option (list (path * notif));          (* Query(name, [*]); None: error *)
  to_meta : option metaobs                         (* Metadata()[name]; None: absent *)
}.

Record mobs := MObs {
  o_res  : rcls;
  o_feed : list notif;                             (* as handed to the SetClient callback, in order *)
  o_tgts : list (string * tobs);
  o_star : list (path * notif);                    (* Query("*", [*]) *)
  o_subs : list (list sresp * sstat)               (* per subscriber attached so far: responses of this step, status *)
}.

Definition mcase := (config * list string * list (string * tobs) * list (mop * mobs))%type.

(** monomorphic constructors for the generated files *)
Definition PN (p : path) (n : notif) : path * notif := (p, n).
Definition TG (k : string) (t : tobs) : string * tobs := (k, t).
Definition SG (l : list sresp) (s : sstat) : list sresp * sstat := (l, s).
Definition TGS (k : string) (d : list (path * notif)) (m : metaobs) : string * tobs :=
  (k, TObs true (Some d) (Some m)).
Definition TGN (k : string) : string * tobs := (k, TObs false None None).
(** a notification with one update, no duplicates *)
Definition NU (ts : Z) (pr : gpath) (p : gpath) (v : tv) : notif :=
  Notif ts (Some pr) None [Upd (Some p) (Some v) 0] [] false.
(** a notification with one delete *)
Definition ND (ts : Z) (pr : gpath) (p : gpath) : notif :=
  Notif ts (Some pr) None [] [p] false.
Definition STEP (o : mop) (r : rcls) (feed : list notif) (tg : list (string * tobs))
  (star : list (path * notif)) (subs : list (list sresp * sstat)) : mop * mobs :=
  (o, MObs r feed tg star subs).

(** * Comparison helpers *)

Fixpoint remove_first {A} (e : A -> A -> bool) (x : A) (l : list A) : option (list A) :=
  match l with
  | [] => None
  | y :: l' => if e x y then Some l'
               else match remove_first e x l' with Some r => Some (y :: r) | None => None end
  end.

(** equality of two lists as multisets *)
Fixpoint bag_eqb {A} (e : A -> A -> bool) (a b : list A) : bool :=
  match a with
  | [] => match b with [] => true | _ => false end
  | x :: a' => match remove_first e x b with Some b' => bag_eqb e a' b' | None => false end
  end.

Definition pn_eqb (a b : path * notif) : bool := path_eqb (fst a) (fst b) && notif_eqb (snd a) (snd b).

Definition opt_eqb {A} (e : A -> A -> bool) (a b : option A) : bool :=
  match a, b with
  | Some x, Some y => e x y
  | None, None => true
  | _, _ => false
  end.

Definition metaobs_eqb (a b : metaobs) : bool :=
  list_eqb (opt_eqb Z.eqb) (mo_ints a) (mo_ints b) &&
  list_eqb (opt_eqb Bool.eqb) (mo_bools a) (mo_bools b) &&
  list_eqb (opt_eqb String.eqb) (mo_strs a) (mo_strs b) &&
  opt_eqb String.eqb (mo_srv a) (mo_srv b).

Definition tobs_eqb (a b : tobs) : bool :=
  Bool.eqb (to_has a) (to_has b) &&
  opt_eqb (bag_eqb pn_eqb) (to_dump a) (to_dump b) &&
  opt_eqb metaobs_eqb (to_meta a) (to_meta b).

Definition sresp_eqb (a b : sresp) : bool :=
  match a, b with
  | SSync, SSync => true
  | SUpd x, SUpd y => notif_eqb x y
  | _, _ => false
  end.

(** the implementation's chunk of feed entries agrees with a model group: an
    accepted update exactly; the deletes of one gnmiRemove as a multiset (the
    C14/C15 generators never share prefix objects, so the rendering does not
    depend on the visiting order) *)
Definition group_matches (g : fgroup) (chunk : list notif) : bool :=
  match g with
  | FUpd n => match chunk with [m] => notif_eqb n m | _ => false end
  | FDel removed ts => bag_eqb notif_eqb (render_deletes removed ts) chunk
  end.

Definition group_size (g : fgroup) : nat :=
  match g with FUpd _ => 1%nat | FDel r _ => List.length r end.

Fixpoint feed_matches (gs : list fgroup) (feed : list notif) : bool :=
  match gs with
  | [] => match feed with [] => true | _ :: _ => false end
  | g :: gs' =>
      group_matches g (firstn (group_size g) feed) &&
      feed_matches gs' (skipn (group_size g) feed)
  end.

Definition mfeed_matches (m : mfeed) (feed : list notif) : bool :=
  match m with
  | MGroups gs => feed_matches gs feed
  | MBag l => bag_eqb notif_eqb l feed
  end.

(** what the model predicts for one known name *)
Definition model_tobs (c : cache) (name : string) : tobs :=
  TObs (cache_has_target c name) (target_dump c name) (target_meta c name).

(** the responses of one subscriber in one step: in order when the model feed
    is ordered, up to permutation otherwise (Reset / UpdateMetadata announce in
    Go map order; none of their entries ends a stream) *)
Definition group_eqb (ordered : bool) (m : list sresp) (i : list sresp) : bool :=
  if ordered then list_eqb sresp_eqb m i else bag_eqb sresp_eqb m i.

Definition mfeed_ordered (m : mfeed) : bool :=
  match m with
  | MGroups gs => forallb (fun g => (group_size g <=? 1)%nat) gs   (* the deletes of one gnmiRemove come in map order *)
  | MBag l => (List.length l <=? 1)%nat
  end.

(** correspondence of one step: [true] = implementation and model agree.

    Cost: the per-name comparison is made for the names the operation is
    addressed to (all names for UpdateMetadata / UpdateSize).  For the other
    names the model does not move ([C14_isolation_*]) and K_P tag 2 requires the
    implementation's observation to equal the previous one, which was compared
    with the model when it was produced.  Query("*") is compared by K_P (tag 5)
    with the implementation's own per-target queries; here only its size. *)
Definition addressed (o : mop) (k : string) : bool :=
  match op_addr o with
  | AOne t => String.eqb k t
  | AAll => true
  | ANone => false
  end.

(** the Metadata() view of an existing target shows the configured server name *)
Definition with_srv (srv : option string) (a : tobs) : tobs :=
  match to_meta a with
  | Some m => TObs (to_has a) (to_dump a) (Some (MO (mo_ints m) (mo_bools m) (mo_strs m) srv))
  | None => a
  end.

Definition corr_step_s (srv : option string) (o : mop) (s' : mstate) (r : rcls) (f : mfeed)
  (outs : list (list sresp)) (ob : mobs) : bool :=
  rcls_eqb r (o_res ob) &&
  mfeed_matches f (o_feed ob) &&
  forallb (fun kt => negb (addressed o (fst kt)) ||
                     tobs_eqb (with_srv srv (model_tobs (ms_cache s') (fst kt))) (snd kt)) (o_tgts ob) &&
  Nat.eqb (List.length (star_dump (ms_cache s'))) (List.length (o_star ob)) &&
  Nat.eqb (List.length outs) (List.length (o_subs ob)) &&
  forallb (fun x => group_eqb (mfeed_ordered f && negb (match o with MSubWalk _ _ _ | MUngate => true | _ => false end))
                              (fst (fst x)) (fst (snd x)) &&
                    sstat_eqb (snd (fst x)) (snd (snd x)))
          (combine (combine outs (ms_vis s')) (o_subs ob)).

Definition corr_step (o : mop) (s' : mstate) (r : rcls) (f : mfeed) (outs : list (list sresp)) (ob : mobs) : bool :=
  rcls_eqb r (o_res ob) &&
  mfeed_matches f (o_feed ob) &&
  forallb (fun kt => negb (addressed o (fst kt)) ||
                     tobs_eqb (model_tobs (ms_cache s') (fst kt)) (snd kt)) (o_tgts ob) &&
  Nat.eqb (List.length (star_dump (ms_cache s'))) (List.length (o_star ob)) &&
  Nat.eqb (List.length outs) (List.length (o_subs ob)) &&
  forallb (fun x => group_eqb (mfeed_ordered f && negb (match o with MSubWalk _ _ _ | MUngate => true | _ => false end))
                              (fst (fst x)) (fst (snd x)) &&
                    sstat_eqb (snd (fst x)) (snd (snd x)))
          (combine (combine outs (ms_vis s')) (o_subs ob)).

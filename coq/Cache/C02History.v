(** C02 over ALL panic-free histories (round 7).

    [CacheProofs.leaf_holds_newest] assumes [clean_history]: no call panicked
    and no unit was refused for a leaf/branch collision.  Here the second
    assumption is removed.  The specification side carries a flat map from
    index paths to stored notifications (the [slookup]/[sremove]/[sconflict]
    of K_P, C02Check.v) and DECIDES ITSELF which units are refused: an update
    unit is refused iff its index path is a strict prefix of, or strictly
    extends, a path stored in the flat map ([refused]).  A refused unit
    contributes no event to any leaf; every other unit contributes the events
    of [unit_events] and moves the flat map by the four-line rule
    [spec_leaf_step] ([funit]).  The theorem: for every history in which no
    call panics, every leaf of the model's tree is the fold of
    [spec_leaf_step] over the events so selected ([project_all]), and the
    flat map and the tree hold the same leaves ([Inv]).

    Nothing in [refused], [funit], [project_all] looks at the model's outcome
    of a call; the only thing read from the running model state is the latest
    accepted timestamp [t_ts] (as in [project]; characterised by
    [latest_step]). *)
From Gnmi Require Import Base.Prelude CTree.CTreeModel CTree.CTreeProofs Path.PathModel
  Cache.CacheModel Cache.CacheProofs Cache.C02Check.
Local Open Scope Z_scope.

(** * Collisions, for every unit that reaches the leaf switch (metadata paths included) *)

Lemma update_leaf_collision_iff t now p u n t' r :
  wf_tree (t_tree t) -> update_leaf t now p u n = (t', r) ->
  (collision r <->
   exists q w, lookup (t_tree t) q = Some w /\ (strict_prefix q p = true \/ strict_prefix p q = true)).
Proof.
  intros Hwf E. unfold update_leaf in E.
  destruct (CTreeModel.get (t_tree t) p) as [[old|cs]|] eqn:Hg.
  - pose proof (proj1 (get_leaf_lookup _ _ _) Hg) as Hl. split.
    + intros Hc. exfalso. destruct (leaf_verdict t now old n) as [e|] eqn:Hv.
      * inversion E; subst. unfold leaf_verdict in Hv.
        repeat match type of Hv with (if ?b then _ else _) = _ => destruct b end;
          inversion Hv; subst; destruct Hc as [H|H]; inversion H.
      * destruct (n_atomic n); [inversion E; subst; destruct Hc as [H|H]; discriminate|].
        destruct (n_upd old); [inversion E; subst; destruct Hc as [H|H]; discriminate|].
        match type of E with (if ?b then _ else _) = _ => destruct b end;
          inversion E; subst; destruct Hc as [H|H]; discriminate.
    + intros (q & w & Hq & [Hs|Hs]); exfalso; apply strict_prefix_spec in Hs as (k & s & ->).
      * destruct (t_tree t) as [nd|]; [|discriminate]. cbn [lookup] in *.
        pose proof (lookup_prefix_free nd q (k :: s) w old Hq Hl). discriminate.
      * destruct (t_tree t) as [nd|]; [|discriminate]. cbn [lookup] in *.
        pose proof (lookup_prefix_free nd p (k :: s) old w Hl Hq). discriminate.
  - injection E as Et Er. subst t' r. split; [intros _|intros _; left; reflexivity].
    destruct (get_branch_inhabited _ _ _ Hwf Hg) as (k & s & v & Hv).
    exists (p ++ k :: s), v. split; [exact Hv|]. right. apply strict_prefix_spec. eauto.
  - destruct (CTreeModel.add (t_tree t) p n) as [tr'|] eqn:Ha.
    + inversion E; subst. split; [intros [H|H]; discriminate|].
      intros (q & w & Hq & Hs). exfalso.
      destruct (t_tree t) as [nd|] eqn:Ht; [|discriminate]. cbn [CTreeModel.add lookup wf_tree] in *.
      assert (Hok : add_node nd p n <> None) by (destruct (add_node nd p n); congruence).
      apply (add_node_ok_iff nd p n Hwf) in Hok. destruct (Hok q w Hq) as [H1 H2].
      destruct Hs; congruence.
    + injection E as Et Er. subst t' r. split; [intros _|intros _; right; reflexivity].
      destruct (t_tree t) as [nd|] eqn:Ht; [|discriminate]. cbn [CTreeModel.add lookup wf_tree] in *.
      assert (Hno : ~ addable nd p).
      { intros Hok. apply (add_node_ok_iff nd p n Hwf) in Hok. destruct (add_node nd p n); congruence. }
      destruct (existsb (fun qv => strict_prefix (fst qv) p || strict_prefix p (fst qv)) (walk_node nd [])) eqn:Hex.
      * apply existsb_exists in Hex as ([q w] & Hin & Hs). cbn [fst] in Hs.
        apply (walk_node_spec nd [] q w Hwf) in Hin as (s & Hqs & Hls). cbn [app] in Hqs. subst s.
        exists q, w. split; [exact Hls|]. apply orb_true_iff in Hs. exact Hs.
      * exfalso. apply Hno. intros q w Hq.
        assert (Hin : In (q, w) (walk_node nd [])).
        { apply (walk_node_spec nd [] q w Hwf). exists q. split; [reflexivity|exact Hq]. }
        assert (Hf : strict_prefix q p || strict_prefix p q = false).
        { destruct (strict_prefix q p || strict_prefix p q) eqn:Hb; [|reflexivity].
          assert (existsb (fun qv => strict_prefix (fst qv) p || strict_prefix p (fst qv)) (walk_node nd []) = true).
          { apply existsb_exists. exists (q, w). split; [exact Hin|exact Hb]. }
          congruence. }
        apply orb_false_iff in Hf. exact Hf.
Qed.

(** a unit with an admissible index path reaches [update_leaf] on an unchanged tree *)
Lemma gnmi_update1_unit_ok t now n p :
  unit_ok n = Some p ->
  exists t1 u, t_tree t1 = t_tree t /\ frame t t1 /\ gnmi_update1 t now n = update_leaf t1 now p u n.
Proof.
  unfold gnmi_update1, unit_ok.
  destruct (n_upd n) as [|u us]; [discriminate|].
  destruct (unit_index n) as [p'|e|w]; try discriminate.
  destruct p' as [|p0 prest]; [discriminate|]. unfold update_pre.
  destruct (negb (String.eqb p0 md_root)).
  - intros E; inversion E; subst. exists t, u. split; [reflexivity|]. split; [apply frame_refl|reflexivity].
  - destruct prest as [|k rest]; [discriminate|].
    destruct (meta_val_ok k (match rest with [] => true | _ :: _ => false end) (u_val u)) eqn:Hok; [|discriminate].
    intros E; inversion E; subst.
    destruct (meta_side_effect_ok t k _ u Hok) as (t1 & Hm). rewrite Hm.
    exists t1, u. split; [exact (proj1 (meta_side_effect_frame _ _ _ _ _ _ Hm))|].
    split; [exact (proj2 (meta_side_effect_frame _ _ _ _ _ _ Hm))|reflexivity].
Qed.

Lemma unit_collision_iff t now n p t' r :
  wf_tree (t_tree t) -> unit_ok n = Some p -> gnmi_update1 t now n = (t', r) ->
  (collision r <->
   exists q w, lookup (t_tree t) q = Some w /\ (strict_prefix q p = true \/ strict_prefix p q = true)).
Proof.
  intros Hwf Hok E. destruct (gnmi_update1_unit_ok t now n p Hok) as (t1 & u & Htr & _ & Hg).
  rewrite Hg in E. rewrite <- Htr in *. eapply update_leaf_collision_iff; eauto.
Qed.

(** * The specification side: a flat map that decides refusal itself *)

Definition fmap := list (path * notif).

(** the flat map and the tree hold the same leaves *)
Definition Inv (f : fmap) (tr : tree notif) : Prop :=
  forall q v, In (q, v) f <-> lookup tr q = Some v.

Lemma slookup_Some_In f q v : slookup f q = Some v -> In (q, v) f.
Proof.
  induction f as [|[k w] f IH]; cbn [slookup]; [discriminate|].
  destruct (path_eqb_spec q k) as [->|]; [intros E; inversion E; left; reflexivity|].
  intros E. right. exact (IH E).
Qed.

Lemma slookup_None_notin f q : slookup f q = None -> forall v, ~ In (q, v) f.
Proof.
  induction f as [|[k w] f IH]; cbn [slookup]; [intros _ v []|].
  destruct (path_eqb_spec q k) as [->|Hne]; [discriminate|].
  intros E v [H|H]; [inversion H; congruence|exact (IH E v H)].
Qed.

Lemma inv_slookup f tr : Inv f tr -> forall q, slookup f q = lookup tr q.
Proof.
  intros Hi q. destruct (slookup f q) as [v|] eqn:E.
  - symmetry. apply Hi. now apply slookup_Some_In.
  - destruct (lookup tr q) as [v|] eqn:El; [|reflexivity].
    exfalso. apply Hi in El. exact (slookup_None_notin f q E v El).
Qed.

Lemma inv_nil : Inv [] (None : tree notif).
Proof. intros q v. split; [intros []|cbn; discriminate]. Qed.

(** refusal, read off the flat map alone *)
Lemma sconflict_iff f tr p :
  Inv f tr ->
  (sconflict f p = true <->
   exists q w, lookup tr q = Some w /\ (strict_prefix q p = true \/ strict_prefix p q = true)).
Proof.
  intros Hi. unfold sconflict. rewrite existsb_exists. split.
  - intros ([q w] & Hin & Hs). cbn [fst] in Hs. exists q, w. split; [now apply Hi|].
    now apply orb_true_iff in Hs.
  - intros (q & w & Hl & Hs). exists (q, w). split; [now apply Hi|]. cbn [fst].
    now apply orb_true_iff.
Qed.

Definition refused (f : fmap) (e : unit_ev) : bool :=
  match e with
  | UUpd m => match unit_ok m with Some p => sconflict f p | None => false end
  | UDel _ => false
  end.

(** one unit on the flat map *)
Definition funit (thr : Z) (latest : option Z) (now : Z) (f : fmap) (e : unit_ev) : fmap :=
  match e with
  | UUpd m =>
      match unit_ok m with
      | Some p =>
          if sconflict f p then f
          else match spec_leaf_step thr (slookup f p) (LUpd now latest m) with
               | Some v => (p, v) :: sremove f p
               | None => sremove f p
               end
      | None => f
      end
  | UDel m =>
      match del_ok m with
      | Some p => filter (fun qv => negb (qmatch p (fst qv) && Z.ltb (n_ts (snd qv)) (n_ts m))) f
      | None => f
      end
  end.

Definition funits (thr : Z) (latest : option Z) (now : Z) (f : fmap) (us : list unit_ev) : fmap :=
  fold_left (funit thr latest now) us f.

(** the events of a list of units that concern [q]: refused units dropped *)
Fixpoint units_events (thr : Z) (latest : option Z) (now : Z) (q : path) (f : fmap)
  (us : list unit_ev) : list lev :=
  match us with
  | [] => []
  | e :: us' =>
      (if refused f e then [] else unit_events latest now q e) ++
      units_events thr latest now q (funit thr latest now f e) us'
  end.

Lemma units_events_app thr latest now q us1 : forall f us2,
  units_events thr latest now q f (us1 ++ us2) =
  units_events thr latest now q f us1 ++
  units_events thr latest now q (funits thr latest now f us1) us2.
Proof.
  induction us1 as [|e us1 IH]; intros f us2; cbn [app units_events funits fold_left]; [reflexivity|].
  rewrite IH, app_assoc. reflexivity.
Qed.

Lemma funits_app thr latest now f us1 us2 :
  funits thr latest now f (us1 ++ us2) = funits thr latest now (funits thr latest now f us1) us2.
Proof. unfold funits. apply fold_left_app. Qed.

Lemma inv_set f tr tr' p x :
  Inv f tr -> (forall q, lookup tr' q = if path_eqb q p then x else lookup tr q) ->
  Inv (match x with Some v => (p, v) :: sremove f p | None => sremove f p end) tr'.
Proof.
  intros Hi Hl q v. rewrite Hl.
  assert (Hrem : In (q, v) (sremove f p) <-> lookup tr q = Some v /\ path_eqb q p = false).
  { unfold sremove. rewrite filter_In. cbn [fst]. rewrite (Hi q v), negb_true_iff. tauto. }
  destruct x as [v0|].
  - cbn [In]. rewrite Hrem. destruct (path_eqb_spec q p) as [->|Hne].
    + split; [intros [H|[_ H]]; [inversion H; reflexivity|discriminate]|intros H; inversion H; left; reflexivity].
    + split; [intros [H|[H _]]; [inversion H; congruence|exact H]|intros H; right; split; [exact H|reflexivity]].
  - rewrite Hrem. destruct (path_eqb_spec q p) as [->|Hne].
    + split; [intros [_ H]; discriminate|discriminate].
    + split; [intros [H _]; exact H|intros H; split; [exact H|reflexivity]].
Qed.

(** * One unit: the model against the flat map *)

Definition unit_post (thr : Z) (latest : option Z) (now : Z) (f : fmap) (e : unit_ev)
  (t t' : target) : Prop :=
  wf_tree (t_tree t') /\ frame t t' /\
  Inv (funit thr latest now f e) (t_tree t') /\
  forall q, lookup (t_tree t') q =
            fold_left (spec_leaf_step thr)
              (if refused f e then [] else unit_events latest now q e) (lookup (t_tree t) q).

Lemma unit_upd_all t now m t' r f :
  wf_tree (t_tree t) -> Inv f (t_tree t) -> gnmi_update1 t now m = (t', r) ->
  unit_post (thr_of t) (t_ts t) now f (UUpd m) t t'.
Proof.
  intros Hwf Hi E. destruct (gnmi_update1_spec _ _ _ _ _ Hwf E) as (Hw' & Hf' & H).
  split; [exact Hw'|]. split; [exact Hf'|].
  cbn [funit refused unit_events]. destruct (unit_ok m) as [p|] eqn:Hok.
  - pose proof (unit_collision_iff t now m p t' r Hwf Hok E) as Hc.
    pose proof (sconflict_iff f (t_tree t) p Hi) as Hs.
    destruct H as [[Hcol Htr]|[Hnc Hl]].
    + assert (Hsc : sconflict f p = true) by (apply Hs, Hc, Hcol).
      rewrite Hsc, Htr. split; [exact Hi|reflexivity].
    + assert (Hsc : sconflict f p = false).
      { destruct (sconflict f p) eqn:Hb; [|reflexivity]. exfalso. apply Hnc, Hc, Hs. reflexivity. }
      rewrite Hsc. split.
      * rewrite (inv_slookup f (t_tree t) Hi p). apply (inv_set f (t_tree t)); [exact Hi|].
        intros q. rewrite Hl. reflexivity.
      * intros q. rewrite Hl. destruct (path_eqb_spec q p) as [->|]; reflexivity.
  - destruct H as [Htr _]. rewrite Htr. split; [exact Hi|reflexivity].
Qed.

Lemma unit_del_all t m t' r f latest now :
  wf_tree (t_tree t) -> Inv f (t_tree t) -> gnmi_remove t m = (t', r) ->
  unit_post (thr_of t) latest now f (UDel m) t t'.
Proof.
  intros Hwf Hi E. destruct (gnmi_remove_spec _ _ _ _ Hwf E) as (Hw' & Hf' & H).
  split; [exact Hw'|]. split; [exact Hf'|].
  split; [|intros q; cbn [refused]; exact (unit_del_events _ _ _ _ Hwf E q latest now)].
  cbn [funit]. destruct (del_ok m) as [p|].
  - destruct H as [Hl _]. intros q v. rewrite filter_In, Hl, (Hi q v). cbn [fst snd]. unfold sel, older_than.
    destruct (lookup (t_tree t) q) as [w|].
    + split.
      * intros [Hw Hb]. inversion Hw; subst. apply negb_true_iff in Hb. now rewrite Hb.
      * destruct (qmatch p q && Z.ltb (n_ts w) (n_ts m)) eqn:Hb; [discriminate|].
        intros Hw; inversion Hw; subst. split; [reflexivity|]. now rewrite Hb.
    + split; [intros [Hw _]; discriminate|discriminate].
  - destruct H as [Htr _]. rewrite Htr. exact Hi.
Qed.

(** * Lists of units *)

Definition units_post (thr : Z) (latest : option Z) (now : Z) (f : fmap) (us : list unit_ev)
  (t t' : target) : Prop :=
  wf_tree (t_tree t') /\ frame t t' /\
  Inv (funits thr latest now f us) (t_tree t') /\
  forall q, lookup (t_tree t') q =
            fold_left (spec_leaf_step thr) (units_events thr latest now q f us) (lookup (t_tree t) q).

Lemma units_post_nil thr latest now f t :
  wf_tree (t_tree t) -> Inv f (t_tree t) -> units_post thr latest now f [] t t.
Proof. intros Hwf Hi. split; [exact Hwf|]. split; [apply frame_refl|]. split; [exact Hi|reflexivity]. Qed.

Lemma units_post_one thr latest now f e t t' :
  unit_post thr latest now f e t t' -> units_post thr latest now f [e] t t'.
Proof.
  intros (A & B & C & D). split; [exact A|]. split; [exact B|]. split; [exact C|].
  intros q. cbn [units_events]. rewrite app_nil_r. apply D.
Qed.

Lemma units_post_app thr latest now f us1 us2 t t1 t2 :
  units_post thr latest now f us1 t t1 ->
  units_post thr latest now (funits thr latest now f us1) us2 t1 t2 ->
  units_post thr latest now f (us1 ++ us2) t t2.
Proof.
  intros (A1 & B1 & C1 & D1) (A2 & B2 & C2 & D2).
  split; [exact A2|]. split; [eapply frame_trans; eauto|]. split; [now rewrite funits_app|].
  intros q. rewrite units_events_app, fold_left_app, <- D1. apply D2.
Qed.

Lemma units_post_frame_l thr latest now f us t0 t t' :
  t_tree t0 = t_tree t -> frame t0 t ->
  units_post thr latest now f us t t' -> units_post thr latest now f us t0 t'.
Proof.
  intros Htr Hf (A & B & C & D). split; [exact A|]. split; [eapply frame_trans; eauto|].
  split; [exact C|]. intros q. rewrite Htr. apply D.
Qed.

Lemma units_post_frame_r thr latest now f us t t' t'' :
  t_tree t'' = t_tree t' -> frame t' t'' ->
  units_post thr latest now f us t t' -> units_post thr latest now f us t t''.
Proof.
  intros Htr Hf (A & B & C & D). unfold units_post. rewrite Htr. split; [exact A|]. split; [eapply frame_trans; eauto|].
  split; [exact C|exact D].
Qed.

(** the two loops of a multi notification, without any assumption on the errors *)
Lemma multi_updates_all now n thr latest us : forall a f,
  a_panic a = None -> wf_tree (t_tree (a_t a)) -> Inv f (t_tree (a_t a)) ->
  thr_of (a_t a) = thr -> t_ts (a_t a) = latest ->
  a_panic (fold_left (multi_update_step now n) us a) = None ->
  units_post thr latest now f (map (fun u => UUpd (clone_with_update n u)) us)
             (a_t a) (a_t (fold_left (multi_update_step now n) us a)).
Proof.
  induction us as [|u us IH]; intros a f Hp Hwf Hi Hthr Hts; cbn [fold_left map].
  - intros _. now apply units_post_nil.
  - intros Hp'.
    set (a1 := multi_update_step now n a u) in *.
    assert (Hp1 : a_panic a1 = None).
    { destruct (a_panic a1) as [w|] eqn:E; [|reflexivity].
      rewrite (multi_update_panic_sticky now n us a1 w E) in Hp'. congruence. }
    assert (Hstep : unit_post thr latest now f (UUpd (clone_with_update n u)) (a_t a) (a_t a1)).
    { subst a1. unfold multi_update_step in *. rewrite Hp in *.
      destruct (gnmi_update1 (a_t a) now (clone_with_update n u)) as [t' r] eqn:E.
      pose proof (unit_upd_all _ _ _ _ _ f Hwf Hi E) as Hu. rewrite Hthr, Hts in Hu.
      destruct r as [[nd|]|e|w]; cbn [a_t]; exact Hu. }
    pose proof Hstep as (Hw1 & Hf1 & Hi1 & _).
    assert (Hthr1 : thr_of (a_t a1) = thr).
    { unfold thr_of in *. destruct Hf1 as (_ & Hc & _). now rewrite Hc. }
    assert (Hts1 : t_ts (a_t a1) = latest) by (destruct Hf1 as (Ht & _); now rewrite Ht).
    pose proof (IH a1 _ Hp1 Hw1 Hi1 Hthr1 Hts1 Hp') as Hrest.
    change (UUpd (clone_with_update n u) :: map (fun u0 => UUpd (clone_with_update n u0)) us)
      with ([UUpd (clone_with_update n u)] ++ map (fun u0 => UUpd (clone_with_update n u0)) us).
    eapply units_post_app; [apply units_post_one; exact Hstep|exact Hrest].
Qed.

Lemma multi_deletes_all now n thr latest ds : forall a f,
  a_panic a = None -> wf_tree (t_tree (a_t a)) -> Inv f (t_tree (a_t a)) ->
  thr_of (a_t a) = thr ->
  a_panic (fold_left (multi_delete_step n) ds a) = None ->
  units_post thr latest now f (map (fun d => UDel (clone_with_delete n d)) ds)
             (a_t a) (a_t (fold_left (multi_delete_step n) ds a)).
Proof.
  induction ds as [|d ds IH]; intros a f Hp Hwf Hi Hthr; cbn [fold_left map].
  - intros _. now apply units_post_nil.
  - intros Hp'.
    set (a1 := multi_delete_step n a d) in *.
    assert (Hp1 : a_panic a1 = None).
    { destruct (a_panic a1) as [w|] eqn:E; [|reflexivity].
      rewrite (multi_delete_panic_sticky n ds a1 w E) in Hp'. congruence. }
    assert (Hstep : unit_post thr latest now f (UDel (clone_with_delete n d)) (a_t a) (a_t a1)).
    { subst a1. unfold multi_delete_step in *. rewrite Hp in *.
      destruct (gnmi_remove (add_int (a_t a) md_update_count 1) (clone_with_delete n d)) as [t' r] eqn:E.
      assert (Hwf0 : wf_tree (t_tree (add_int (a_t a) md_update_count 1))) by exact Hwf.
      assert (Hi0 : Inv f (t_tree (add_int (a_t a) md_update_count 1))) by exact Hi.
      pose proof (unit_del_all _ _ _ _ f latest now Hwf0 Hi0 E) as Hu.
      change (thr_of (add_int (a_t a) md_update_count 1)) with (thr_of (a_t a)) in Hu. rewrite Hthr in Hu.
      assert (Hu' : unit_post thr latest now f (UDel (clone_with_delete n d)) (a_t a) t').
      { destruct Hu as (A & B & C & D). split; [exact A|]. split; [|split; [exact C|exact D]].
        eapply frame_trans; [apply frame_add_int|exact B]. }
      destruct r as [rm|e|w]; cbn [a_t]; exact Hu'. }
    pose proof Hstep as (Hw1 & Hf1 & Hi1 & _).
    assert (Hthr1 : thr_of (a_t a1) = thr).
    { unfold thr_of in *. destruct Hf1 as (_ & Hc & _). now rewrite Hc. }
    pose proof (IH a1 _ Hp1 Hw1 Hi1 Hthr1 Hp') as Hrest.
    change (UDel (clone_with_delete n d) :: map (fun d0 => UDel (clone_with_delete n d0)) ds)
      with ([UDel (clone_with_delete n d)] ++ map (fun d0 => UDel (clone_with_delete n d0)) ds).
    eapply units_post_app; [apply units_post_one; exact Hstep|exact Hrest].
Qed.

(** * One notification *)

Definition no_panic (r : gres) : Prop := match r with GPanic _ => False | _ => True end.

(** what a whole call guarantees (the latest timestamp may move at its end, so
    [frame] is weakened to configuration and name) *)
Definition notif_post (now : Z) (f : fmap) (us : list unit_ev) (t t' : target) : Prop :=
  wf_tree (t_tree t') /\ t_cfg t' = t_cfg t /\ t_name t' = t_name t /\
  Inv (funits (thr_of t) (t_ts t) now f us) (t_tree t') /\
  forall q, lookup (t_tree t') q =
            fold_left (spec_leaf_step (thr_of t)) (units_events (thr_of t) (t_ts t) now q f us)
                      (lookup (t_tree t) q).

Lemma notif_post_of_units now f us t t1 t' :
  units_post (thr_of t) (t_ts t) now f us t t1 ->
  t_tree t' = t_tree t1 -> t_cfg t' = t_cfg t1 -> t_name t' = t_name t1 ->
  notif_post now f us t t'.
Proof.
  intros (A & (_ & Hc & Hn) & C & D) Htr Hcfg Hname. unfold notif_post. rewrite Htr.
  split; [exact A|]. split; [congruence|]. split; [congruence|]. split; [exact C|exact D].
Qed.

Lemma single_update_all t now n k t' fd r f :
  wf_tree (t_tree t) -> Inv f (t_tree t) ->
  match gnmi_update1 t now n with
  | (t1, Panic w) => (finish_ts n false t1, [], GPanic w)
  | (t1, Err e) => (finish_ts n false t1, [], GErr e)
  | (t1, Ok None) => (finish_ts n true t1, [], GOk)
  | (t1, Ok (Some nd)) => (finish_ts n true (add_int t1 md_update_count k), [FUpd nd], GOk)
  end = (t', fd, r) ->
  notif_post now f [UUpd n] t t'.
Proof.
  intros Hwf Hi. destruct (gnmi_update1 t now n) as [t1 r1] eqn:E.
  pose proof (units_post_one _ _ _ _ _ _ _ (unit_upd_all _ _ _ _ _ f Hwf Hi E)) as Hu.
  intros E2.
  destruct r1 as [[nd|]|e|w]; inversion E2; subst; clear E2;
    (eapply notif_post_of_units; [exact Hu|rewrite finish_ts_tree; reflexivity
                                  |exact (proj1 (finish_ts_cfg _ _ _))|exact (proj2 (finish_ts_cfg _ _ _))]).
Qed.

Lemma multi_all t now n us ds t' fd r f :
  wf_tree (t_tree t) -> Inv f (t_tree t) ->
  (let a0 := Acc t [] [] false None in
   let a1 := fold_left (multi_update_step now n) us a0 in
   let a2 := fold_left (multi_delete_step n) ds a1 in
   (finish_ts n (a_ok a2) (a_t a2), a_feed a2,
    match a_panic a2 with
    | Some w => GPanic w
    | None => match a_errs a2 with [] => GOk | es => GErrs es end
    end)) = (t', fd, r) ->
  no_panic r ->
  notif_post now f (map (fun u => UUpd (clone_with_update n u)) us ++
                    map (fun d => UDel (clone_with_delete n d)) ds) t t'.
Proof.
  intros Hwf Hi. cbv zeta.
  set (a0 := Acc t [] [] false None).
  remember (fold_left (multi_update_step now n) us a0) as a1 eqn:Ha1.
  remember (fold_left (multi_delete_step n) ds a1) as a2 eqn:Ha2.
  intros E Hnp. inversion E; subst t' fd r; clear E.
  assert (Hp2 : a_panic a2 = None) by (destruct (a_panic a2); [contradiction|reflexivity]).
  assert (Hp1 : a_panic a1 = None).
  { destruct (a_panic a1) as [w|] eqn:Ep; [|reflexivity].
    rewrite Ha2, (multi_delete_panic_sticky n ds a1 w Ep) in Hp2. congruence. }
  rewrite Ha1 in Hp1.
  pose proof (multi_updates_all now n (thr_of t) (t_ts t) us a0 f eq_refl Hwf Hi eq_refl eq_refl Hp1) as H1.
  rewrite <- Ha1 in *. rewrite Ha2 in Hp2.
  pose proof H1 as (Hw1 & Hf1 & Hi1 & _).
  assert (Hthr1 : thr_of (a_t a1) = thr_of t).
  { unfold thr_of. destruct Hf1 as (_ & Hc & _). cbn [a_t a0] in Hc. now rewrite Hc. }
  pose proof (multi_deletes_all now n (thr_of t) (t_ts t) ds a1 _ Hp1 Hw1 Hi1 Hthr1 Hp2) as H2.
  rewrite <- Ha2 in *.
  pose proof (units_post_app _ _ _ _ _ _ _ _ _ H1 H2) as H12. cbn [a_t a0] in H12.
  eapply notif_post_of_units; [exact H12|apply finish_ts_tree|exact (proj1 (finish_ts_cfg _ _ _))|exact (proj2 (finish_ts_cfg _ _ _))].
Qed.

(** every notification whose call does not panic acts on every leaf as the
    fold of the events of its NON-REFUSED units, and keeps flat map = tree *)
Theorem notif_all t now n t' fd r f :
  wf_tree (t_tree t) -> Inv f (t_tree t) ->
  target_gnmi_update t now n = (t', fd, r) -> no_panic r ->
  notif_post now f (units n) t t'.
Proof.
  intros Hwf Hi. unfold target_gnmi_update, units.
  assert (Hnil : forall t0, t_tree t0 = t_tree t -> t_cfg t0 = t_cfg t -> t_name t0 = t_name t ->
             notif_post now f [] t t0).
  { intros t0 A B C. eapply notif_post_of_units; [apply units_post_nil; eassumption|exact A|exact B|exact C]. }
  destruct (n_atomic n).
  - destruct (n_del n) as [|d ds].
    + destruct (n_upd n) as [|u us] eqn:Hu.
      * intros E _; inversion E; subst. now apply Hnil.
      * intros E _. eapply single_update_all; eauto.
    + intros E _; inversion E; subst. now apply Hnil.
  - destruct (n_upd n) as [|u [|u2 us]] eqn:Hu; destruct (n_del n) as [|d [|d2 ds]] eqn:Hd.
    + intros E _; inversion E; subst. now apply Hnil.
    + (* single delete *)
      destruct (gnmi_remove (add_int t md_update_count 1) n) as [t1 r1] eqn:E.
      assert (Hwf0 : wf_tree (t_tree (add_int t md_update_count 1))) by exact Hwf.
      assert (Hi0 : Inv f (t_tree (add_int t md_update_count 1))) by exact Hi.
      pose proof (units_post_one _ _ _ _ _ _ _ (unit_del_all _ _ _ _ f (t_ts t) now Hwf0 Hi0 E)) as Hu1.
      change (thr_of (add_int t md_update_count 1)) with (thr_of t) in Hu1.
      pose proof (units_post_frame_l _ _ _ _ _ t _ _ eq_refl (frame_add_int t md_update_count 1) Hu1) as Hu2.
      intros E2 _. destruct r1 as [rm|e|w]; inversion E2; subst; clear E2;
        (eapply notif_post_of_units; [exact Hu2|reflexivity|reflexivity|reflexivity]).
    + apply (multi_all t now n [] (d :: d2 :: ds)); assumption.
    + intros E _. eapply single_update_all; eauto.
    + apply (multi_all t now n [u] [d]); assumption.
    + apply (multi_all t now n [u] (d :: d2 :: ds)); assumption.
    + apply (multi_all t now n (u :: u2 :: us) []); assumption.
    + apply (multi_all t now n (u :: u2 :: us) [d]); assumption.
    + apply (multi_all t now n (u :: u2 :: us) (d :: d2 :: ds)); assumption.
Qed.

(** * Histories *)

(** no call of the history panicked (panics are C12's subject); every other
    outcome is allowed: ok, stale, future, invalid path, wrong metadata type,
    collision with a stored leaf or branch, any list of these *)
Fixpoint no_panic_history (t : target) (H : hist) : Prop :=
  match H with
  | [] => True
  | h :: H' => no_panic (tres t h) /\ no_panic_history (tstep t h) H'
  end.

(** the flat map after a history: specification side only (plus [t_ts]) *)
Fixpoint frun (thr : Z) (t : target) (f : fmap) (H : hist) : fmap :=
  match H with
  | [] => f
  | h :: H' => frun thr (tstep t h) (funits thr (t_ts t) (fst h) f (units (snd h))) H'
  end.

(** the events of a history that concern [q], refused units dropped *)
Fixpoint project_all (thr : Z) (t : target) (f : fmap) (H : hist) (q : path) : list lev :=
  match H with
  | [] => []
  | h :: H' =>
      units_events thr (t_ts t) (fst h) q f (units (snd h)) ++
      project_all thr (tstep t h) (funits thr (t_ts t) (fst h) f (units (snd h))) H' q
  end.

Lemma tstep_all t h f :
  wf_tree (t_tree t) -> Inv f (t_tree t) -> no_panic (tres t h) ->
  notif_post (fst h) f (units (snd h)) t (tstep t h).
Proof.
  intros Hwf Hi Hnp. unfold tstep, tres in *.
  destruct (target_gnmi_update t (fst h) (snd h)) as [[t' fd] r] eqn:E. cbn [fst snd] in *.
  exact (notif_all _ _ _ _ _ _ f Hwf Hi E Hnp).
Qed.

Theorem leaf_holds_newest_all_from t H : forall f q,
  wf_tree (t_tree t) -> Inv f (t_tree t) -> no_panic_history t H ->
  lookup (t_tree (trun t H)) q =
  fold_left (spec_leaf_step (thr_of t)) (project_all (thr_of t) t f H q) (lookup (t_tree t) q) /\
  Inv (frun (thr_of t) t f H) (t_tree (trun t H)).
Proof.
  revert t. induction H as [|h H IH]; intros t f q Hwf Hi Hnp;
    cbn [trun fold_left project_all frun]; [split; [reflexivity|exact Hi]|].
  destruct Hnp as [Hn1 Hn2].
  destruct (tstep_all t h f Hwf Hi Hn1) as (Hw & Hcfg & _ & Hi' & Hl).
  fold (trun (tstep t h) H).
  assert (Hthr : thr_of (tstep t h) = thr_of t) by (unfold thr_of; now rewrite Hcfg).
  destruct (IH (tstep t h) _ q Hw Hi' Hn2) as [IH1 IH2]. rewrite Hthr in IH1, IH2.
  split; [|exact IH2]. rewrite IH1, fold_left_app, Hl. reflexivity.
Qed.

(** C02 over every panic-free history on a fresh target: the leaf holds what
    the four-line recursion computes from the events of the units the
    specification does not refuse; and the specification's flat map holds
    exactly the leaves of the tree *)
Theorem leaf_holds_newest_all name cfg (H : hist) (q : path) :
  no_panic_history (new_target name cfg) H ->
  lookup (t_tree (trun (new_target name cfg) H)) q =
  spec_leaf (cfg_future_threshold cfg)
            (project_all (cfg_future_threshold cfg) (new_target name cfg) [] H q) /\
  lookup (t_tree (trun (new_target name cfg) H)) q =
  slookup (frun (cfg_future_threshold cfg) (new_target name cfg) [] H) q.
Proof.
  intros Hnp.
  destruct (leaf_holds_newest_all_from (new_target name cfg) H [] q I inv_nil Hnp) as [A B].
  split; [exact A|]. symmetry. exact (inv_slookup _ _ B q).
Qed.

(** the old theorem is the special case: on a clean history nothing is refused *)
Lemma clean_no_panic r : clean r -> no_panic r.
Proof. destruct r; cbn; auto. Qed.

Lemma clean_history_no_panic H : forall t, clean_history t H -> no_panic_history t H.
Proof.
  induction H as [|h H IH]; intros t; cbn; [auto|].
  intros [A B]. split; [now apply clean_no_panic|now apply IH].
Qed.

(** * Non-vacuity: a history with a collision, a stale unit and a delete *)

Definition ex_bc (ts : Z) : notif :=
  Notif ts ex_pfx None [Upd (Some (gp_of_names ["b"; "c"])) (Some (TInt 7)) 0] [] false.

(** a/b stored; a/b/c refused (runs through the leaf a/b); a/b older: stale;
    delete a/b; a/b/c again, now accepted; a/b refused (a/b is a branch now);
    a multi notification whose first unit (a/b) is refused, whose second (a/c)
    is accepted and whose delete a/* at 3 removes nothing (a/b/c is at 5) *)
Definition ex_hist_all : hist :=
  [(0, ex_upd "b" 2 1); (0, ex_bc 5); (0, ex_upd "b" 1 2); (0, ex_del "b" 3);
   (0, ex_bc 5); (0, ex_upd "b" 9 1); (1, ex_multi 3)].

Example ex_hist_all_hyps :
  no_panic_history ex_t0 ex_hist_all /\ ~ clean_history ex_t0 ex_hist_all.
Proof.
  split.
  - vm_compute. repeat split.
  - intros Hc. cbn [clean_history ex_hist_all] in Hc. destruct Hc as (_ & Hc & _).
    vm_compute in Hc. destruct Hc as [H1 H2]. first [apply H1; reflexivity|apply H2; reflexivity].
Qed.

Example ex_hist_all_events :
  project_all 2 ex_t0 [] ex_hist_all ["a"; "b"] =
    [LUpd 0 None (ex_upd "b" 2 1); LUpd 0 (Some 2) (ex_upd "b" 1 2); LDel 3; LDel 3] /\
  project_all 2 ex_t0 [] ex_hist_all ["a"; "b"; "c"] = [LDel 3; LUpd 0 (Some 2) (ex_bc 5); LDel 3] /\
  (* the projection that keeps refused units has one event more: the refused first a/b/c *)
  List.length (project ex_t0 ex_hist_all ["a"; "b"; "c"]) = 4%nat /\
  lookup (t_tree (trun ex_t0 ex_hist_all)) ["a"; "b"] = None /\
  lookup (t_tree (trun ex_t0 ex_hist_all)) ["a"; "b"; "c"] = Some (ex_bc 5) /\
  map fst (frun 2 ex_t0 [] ex_hist_all) = [["a"; "c"]; ["a"; "b"; "c"]].
Proof. vm_compute. repeat split. Qed.

(** * The latest accepted timestamp, on the specification side (round 7b)

    The reference of the future guard is the greatest timestamp of the
    TRACKED and ACCEPTED notifications so far.  Tracked ([tracks_ts]) depends
    on the notification alone (it has an update and the index of its first
    update is not under meta).  Accepted is decided here on the flat map: some
    update unit of the notification, met in the flat map its predecessors
    left, is neither refused nor kept out by the four-line rule (older /
    identical / too far ahead).  The latest timestamp moves only after the
    whole notification, as in the code (deferred checkTimestamp). *)

Definition okb {A} (r : outcome A) : bool := match r with Ok _ => true | _ => false end.

(** does the four-line rule store [m] over [old] *)
Definition spec_accepts (thr now : Z) (latest : option Z) (old : option notif) (m : notif) : bool :=
  match old with
  | None => true
  | Some o =>
      if Z.ltb (n_ts m) (n_ts o) then false
      else if Z.eqb (n_ts m) (n_ts o) then negb (notif_eqb o m)
      else negb (future_guard thr now latest (n_ts m))
  end.

Definition uaccepts (thr : Z) (latest : option Z) (now : Z) (f : fmap) (e : unit_ev) : bool :=
  match e with
  | UUpd m => match unit_ok m with
              | Some p => negb (sconflict f p) && spec_accepts thr now latest (slookup f p) m
              | None => false
              end
  | UDel _ => false
  end.

Fixpoint units_accept (thr : Z) (latest : option Z) (now : Z) (f : fmap) (us : list unit_ev) : bool :=
  match us with
  | [] => false
  | e :: us' => uaccepts thr latest now f e || units_accept thr latest now (funit thr latest now f e) us'
  end.

Definition slatest_next (thr : Z) (latest : option Z) (now : Z) (f : fmap) (n : notif) : option Z :=
  if tracks_ts n && units_accept thr latest now f (units n) then smax latest (n_ts n) else latest.

Lemma units_accept_app thr latest now us1 : forall f us2,
  units_accept thr latest now f (us1 ++ us2) =
  units_accept thr latest now f us1 || units_accept thr latest now (funits thr latest now f us1) us2.
Proof.
  induction us1 as [|e us1 IH]; intros f us2; cbn [app units_accept funits fold_left]; [reflexivity|].
  rewrite IH, orb_assoc. reflexivity.
Qed.

Lemma units_accept_dels thr latest now n ds : forall f,
  units_accept thr latest now f (map (fun d => UDel (clone_with_delete n d)) ds) = false.
Proof. induction ds as [|d ds IH]; intros f; cbn [map units_accept uaccepts orb]; [reflexivity|apply IH]. Qed.

Lemma leaf_verdict_accepts t now o n :
  match leaf_verdict t now o n with None => true | Some _ => false end =
  spec_accepts (thr_of t) now (t_ts t) (Some o) n.
Proof.
  unfold leaf_verdict, spec_accepts, thr_of. rewrite future_rejected_guard.
  destruct (Z.ltb (n_ts n) (n_ts o)); [reflexivity|].
  destruct (Z.eqb (n_ts n) (n_ts o)); cbn [andb negb].
  - destruct (notif_eqb o n); reflexivity.
  - destruct (future_guard _ _ _ _); reflexivity.
Qed.

Lemma update_leaf_accepts t1 now p u n t2 r f :
  wf_tree (t_tree t1) -> Inv f (t_tree t1) -> update_leaf t1 now p u n = (t2, r) ->
  (forall w, r <> Panic w) ->
  okb r = negb (sconflict f p) && spec_accepts (thr_of t1) now (t_ts t1) (slookup f p) n.
Proof.
  intros Hwf Hi E Hnp.
  pose proof (update_leaf_collision_iff _ _ _ _ _ _ _ Hwf E) as Hc.
  pose proof (sconflict_iff f _ p Hi) as Hs.
  assert (Hnc : ~ collision r -> sconflict f p = false).
  { intros H. destruct (sconflict f p) eqn:Hb; [|reflexivity]. exfalso. apply H, Hc, Hs. reflexivity. }
  assert (Hcol : collision r -> sconflict f p = true) by (intros H; apply Hs, Hc, H).
  rewrite (inv_slookup f _ Hi p).
  unfold update_leaf in E. destruct (CTreeModel.get (t_tree t1) p) as [[old|cs]|] eqn:Hg.
  - rewrite (proj1 (get_leaf_lookup _ _ _) Hg), <- leaf_verdict_accepts.
    destruct (leaf_verdict t1 now old n) as [e|] eqn:Hv.
    + inversion E; subst. cbn [okb]. now rewrite andb_false_r.
    + rewrite andb_true_r.
      assert (Hok : forall o, r = Ok o -> okb r = negb (sconflict f p)).
      { intros o ->. rewrite Hnc; [reflexivity|intros [H|H]; discriminate]. }
      destruct (n_atomic n); [inversion E; subst; eapply Hok; reflexivity|].
      destruct (n_upd old); [inversion E; subst; exfalso; eapply Hnp; reflexivity|].
      match type of E with (if ?b then _ else _) = _ => destruct b end;
        inversion E; subst; eapply Hok; reflexivity.
  - inversion E; subst. rewrite Hcol; [reflexivity|left; reflexivity].
  - rewrite (get_none_lookup _ _ Hg). cbn [spec_accepts]. rewrite andb_true_r.
    destruct (CTreeModel.add (t_tree t1) p n) as [tr'|]; inversion E; subst.
    + rewrite Hnc; [reflexivity|intros [H|H]; discriminate].
    + rewrite Hcol; [reflexivity|right; reflexivity].
Qed.

(** gnmiUpdate returns no error for a unit exactly when the specification accepts it *)
Lemma unit_upd_accepts t now m t' r f :
  wf_tree (t_tree t) -> Inv f (t_tree t) -> gnmi_update1 t now m = (t', r) ->
  (forall w, r <> Panic w) ->
  okb r = uaccepts (thr_of t) (t_ts t) now f (UUpd m).
Proof.
  intros Hwf Hi E Hnp. cbn [uaccepts]. destruct (unit_ok m) as [p|] eqn:Hok.
  - destruct (gnmi_update1_unit_ok t now m p Hok) as (t1 & u & Htr & (Hts & Hc & _) & Hg).
    rewrite Hg in E.
    assert (Hwf1 : wf_tree (t_tree t1)) by (rewrite Htr; exact Hwf).
    assert (Hi1 : Inv f (t_tree t1)) by (rewrite Htr; exact Hi).
    rewrite (update_leaf_accepts _ _ _ _ _ _ _ f Hwf1 Hi1 E Hnp). unfold thr_of. now rewrite Hts, Hc.
  - destruct (gnmi_update1_spec _ _ _ _ _ Hwf E) as (_ & _ & H). rewrite Hok in H.
    destruct H as (_ & Hrej & _). destruct r as [o|e|w]; [exfalso; eapply Hrej; reflexivity|reflexivity|reflexivity].
Qed.

Lemma multi_update_step_all now n thr latest a u f :
  a_panic a = None -> wf_tree (t_tree (a_t a)) -> Inv f (t_tree (a_t a)) ->
  thr_of (a_t a) = thr -> t_ts (a_t a) = latest ->
  a_panic (multi_update_step now n a u) = None ->
  unit_post thr latest now f (UUpd (clone_with_update n u)) (a_t a) (a_t (multi_update_step now n a u)) /\
  a_ok (multi_update_step now n a u) =
  a_ok a || uaccepts thr latest now f (UUpd (clone_with_update n u)).
Proof.
  intros Hp Hwf Hi Hthr Hts Hp1. unfold multi_update_step in *. rewrite Hp in *.
  destruct (gnmi_update1 (a_t a) now (clone_with_update n u)) as [t' r] eqn:E.
  pose proof (unit_upd_all _ _ _ _ _ f Hwf Hi E) as Hu. rewrite Hthr, Hts in Hu.
  assert (Hacc : (forall w, r <> Panic w) -> okb r = uaccepts thr latest now f (UUpd (clone_with_update n u))).
  { intros Hnp. rewrite (unit_upd_accepts _ _ _ _ _ f Hwf Hi E Hnp), Hthr, Hts. reflexivity. }
  destruct r as [[nd|]|e|w]; cbn [a_t a_ok a_panic] in *; (split; [exact Hu|]).
  - rewrite <- Hacc by discriminate. cbn. now rewrite orb_true_r.
  - rewrite <- Hacc by discriminate. cbn. now rewrite orb_true_r.
  - rewrite <- Hacc by discriminate. cbn. now rewrite orb_false_r.
  - discriminate.
Qed.

Lemma multi_updates_accept now n thr latest us : forall a f,
  a_panic a = None -> wf_tree (t_tree (a_t a)) -> Inv f (t_tree (a_t a)) ->
  thr_of (a_t a) = thr -> t_ts (a_t a) = latest ->
  a_panic (fold_left (multi_update_step now n) us a) = None ->
  a_ok (fold_left (multi_update_step now n) us a) =
  a_ok a || units_accept thr latest now f (map (fun u => UUpd (clone_with_update n u)) us) /\
  t_ts (a_t (fold_left (multi_update_step now n) us a)) = latest.
Proof.
  induction us as [|u us IH]; intros a f Hp Hwf Hi Hthr Hts; cbn [fold_left map units_accept].
  - intros _. split; [now rewrite orb_false_r|exact Hts].
  - intros Hp'.
    assert (Hp1 : a_panic (multi_update_step now n a u) = None).
    { destruct (a_panic (multi_update_step now n a u)) as [w|] eqn:E; [|reflexivity].
      rewrite (multi_update_panic_sticky now n us _ w E) in Hp'. congruence. }
    destruct (multi_update_step_all now n thr latest a u f Hp Hwf Hi Hthr Hts Hp1) as [(Hw1 & Hf1 & Hi1 & _) Hok].
    assert (Hthr1 : thr_of (a_t (multi_update_step now n a u)) = thr).
    { unfold thr_of in *. destruct Hf1 as (_ & Hc & _). now rewrite Hc. }
    assert (Hts1 : t_ts (a_t (multi_update_step now n a u)) = latest) by (destruct Hf1 as (Ht & _); now rewrite Ht).
    destruct (IH _ _ Hp1 Hw1 Hi1 Hthr1 Hts1 Hp') as [IH1 IH2].
    split; [|exact IH2]. rewrite IH1, Hok, orb_assoc. reflexivity.
Qed.

Lemma multi_deletes_ok_ts n ds : forall a,
  a_ok (fold_left (multi_delete_step n) ds a) = a_ok a /\
  t_ts (a_t (fold_left (multi_delete_step n) ds a)) = t_ts (a_t a).
Proof.
  induction ds as [|d ds IH]; intros a; cbn [fold_left]; [split; reflexivity|].
  destruct (IH (multi_delete_step n a d)) as [A B]. rewrite A, B.
  unfold multi_delete_step. destruct (a_panic a); [split; reflexivity|]. cbv zeta.
  destruct (gnmi_remove (add_int (a_t a) md_update_count 1) (clone_with_delete n d)) as [t1 r] eqn:E.
  apply gnmi_remove_ts in E. destruct r as [rm|e|w]; cbn [a_ok a_t]; (split; [reflexivity|exact E]).
Qed.

Lemma check_timestamp_smax t z : t_ts (check_timestamp t z) = smax (t_ts t) z.
Proof.
  unfold check_timestamp, smax. destruct (t_ts t) as [y|] eqn:E; [|reflexivity].
  destruct (Z.ltb_spec y z); cbn [t_ts set_ts]; [f_equal; lia|rewrite E; f_equal; lia].
Qed.

Lemma finish_ts_smax n b x :
  t_ts (finish_ts n b x) = if tracks_ts n && b then smax (t_ts x) (n_ts n) else t_ts x.
Proof. unfold finish_ts. destruct (tracks_ts n && b); [apply check_timestamp_smax|reflexivity]. Qed.

Lemma single_update_latest t now n k t' fd r f :
  wf_tree (t_tree t) -> Inv f (t_tree t) ->
  match gnmi_update1 t now n with
  | (t1, Panic w) => (finish_ts n false t1, [], GPanic w)
  | (t1, Err e) => (finish_ts n false t1, [], GErr e)
  | (t1, Ok None) => (finish_ts n true t1, [], GOk)
  | (t1, Ok (Some nd)) => (finish_ts n true (add_int t1 md_update_count k), [FUpd nd], GOk)
  end = (t', fd, r) ->
  no_panic r ->
  t_ts t' = if tracks_ts n && units_accept (thr_of t) (t_ts t) now f [UUpd n]
            then smax (t_ts t) (n_ts n) else t_ts t.
Proof.
  intros Hwf Hi. destruct (gnmi_update1 t now n) as [t1 r1] eqn:E.
  pose proof (gnmi_update1_ts _ _ _ _ _ E) as Hts.
  pose proof (unit_upd_accepts _ _ _ _ _ f Hwf Hi E) as Hacc.
  intros E2 Hnp. cbn [units_accept]. rewrite orb_false_r.
  destruct r1 as [[nd|]|e|w]; inversion E2; subst; clear E2; [| | |contradiction];
    rewrite <- Hacc by discriminate; rewrite finish_ts_smax; cbn [okb t_ts add_int set_meta];
    rewrite ?Hts; reflexivity.
Qed.

Lemma multi_latest t now n us ds t' fd r f :
  wf_tree (t_tree t) -> Inv f (t_tree t) ->
  (let a0 := Acc t [] [] false None in
   let a1 := fold_left (multi_update_step now n) us a0 in
   let a2 := fold_left (multi_delete_step n) ds a1 in
   (finish_ts n (a_ok a2) (a_t a2), a_feed a2,
    match a_panic a2 with
    | Some w => GPanic w
    | None => match a_errs a2 with [] => GOk | es => GErrs es end
    end)) = (t', fd, r) ->
  no_panic r ->
  t_ts t' = if tracks_ts n && units_accept (thr_of t) (t_ts t) now f
                 (map (fun u => UUpd (clone_with_update n u)) us ++
                  map (fun d => UDel (clone_with_delete n d)) ds)
            then smax (t_ts t) (n_ts n) else t_ts t.
Proof.
  intros Hwf Hi. cbv zeta.
  set (a0 := Acc t [] [] false None).
  remember (fold_left (multi_update_step now n) us a0) as a1 eqn:Ha1.
  remember (fold_left (multi_delete_step n) ds a1) as a2 eqn:Ha2.
  intros E Hnp. inversion E; subst t' fd r; clear E.
  assert (Hp2 : a_panic a2 = None) by (destruct (a_panic a2); [contradiction|reflexivity]).
  assert (Hp1 : a_panic a1 = None).
  { destruct (a_panic a1) as [w|] eqn:Ep; [|reflexivity].
    rewrite Ha2, (multi_delete_panic_sticky n ds a1 w Ep) in Hp2. congruence. }
  rewrite Ha1 in Hp1.
  destruct (multi_updates_accept now n (thr_of t) (t_ts t) us a0 f eq_refl Hwf Hi eq_refl eq_refl Hp1) as [Hok Hts].
  rewrite <- Ha1 in *.
  destruct (multi_deletes_ok_ts n ds a1) as [Hok2 Hts2]. rewrite <- Ha2 in *.
  rewrite finish_ts_smax, Hok2, Hts2, Hts, Hok, units_accept_app, units_accept_dels, orb_false_r.
  reflexivity.
Qed.

(** the latest accepted timestamp after one call that does not panic *)
Theorem notif_latest t now n t' fd r f :
  wf_tree (t_tree t) -> Inv f (t_tree t) ->
  target_gnmi_update t now n = (t', fd, r) -> no_panic r ->
  t_ts t' = slatest_next (thr_of t) (t_ts t) now f n.
Proof.
  intros Hwf Hi. unfold target_gnmi_update, slatest_next, units.
  destruct (n_atomic n).
  - destruct (n_del n) as [|d ds].
    + destruct (n_upd n) as [|u us] eqn:Hu.
      * intros E _; inversion E; subst. now rewrite andb_false_r.
      * intros E Hnp. eapply single_update_latest; eauto.
    + intros E _; inversion E; subst. destruct (n_upd n); now rewrite andb_false_r.
  - destruct (n_upd n) as [|u [|u2 us]] eqn:Hu; destruct (n_del n) as [|d [|d2 ds]] eqn:Hd.
    + intros E _; inversion E; subst. now rewrite andb_false_r.
    + destruct (gnmi_remove (add_int t md_update_count 1) n) as [t1 r1] eqn:E.
      apply gnmi_remove_ts in E. cbn [units_accept uaccepts orb]. rewrite andb_false_r.
      intros E2 _. destruct r1 as [rm|e|w]; inversion E2; subst; exact E.
    + apply (multi_latest t now n [] (d :: d2 :: ds)); assumption.
    + intros E Hnp. eapply single_update_latest; eauto.
    + apply (multi_latest t now n [u] [d]); assumption.
    + apply (multi_latest t now n [u] (d :: d2 :: ds)); assumption.
    + apply (multi_latest t now n (u :: u2 :: us) []); assumption.
    + apply (multi_latest t now n (u :: u2 :: us) [d]); assumption.
    + apply (multi_latest t now n (u :: u2 :: us) (d :: d2 :: ds)); assumption.
Qed.

(** K_P's "tracked" test ([C02Check.stracks]) is the model's [tracks_ts]: the
    flat specification run by the harness moves its [s_latest] by the rule of
    [slatest_next] *)
Lemma K_tracks_sound n : stracks n = tracks_ts n.
Proof.
  unfold stracks, tracks_ts, raw_index. destruct (n_upd n) as [|u us]; reflexivity.
Qed.

(** * Histories, specification side only: no target on the right-hand side *)

Fixpoint sfrun (thr : Z) (latest : option Z) (f : fmap) (H : hist) : fmap :=
  match H with
  | [] => f
  | h :: H' => sfrun thr (slatest_next thr latest (fst h) f (snd h))
                     (funits thr latest (fst h) f (units (snd h))) H'
  end.

Fixpoint slatest (thr : Z) (latest : option Z) (f : fmap) (H : hist) : option Z :=
  match H with
  | [] => latest
  | h :: H' => slatest thr (slatest_next thr latest (fst h) f (snd h))
                       (funits thr latest (fst h) f (units (snd h))) H'
  end.

Fixpoint project_spec (thr : Z) (latest : option Z) (f : fmap) (H : hist) (q : path) : list lev :=
  match H with
  | [] => []
  | h :: H' =>
      units_events thr latest (fst h) q f (units (snd h)) ++
      project_spec thr (slatest_next thr latest (fst h) f (snd h))
                   (funits thr latest (fst h) f (units (snd h))) H' q
  end.

Lemma tstep_latest t h f :
  wf_tree (t_tree t) -> Inv f (t_tree t) -> no_panic (tres t h) ->
  t_ts (tstep t h) = slatest_next (thr_of t) (t_ts t) (fst h) f (snd h).
Proof.
  intros Hwf Hi Hnp. unfold tstep, tres in *.
  destruct (target_gnmi_update t (fst h) (snd h)) as [[t' fd] r] eqn:E. cbn [fst snd] in *.
  exact (notif_latest _ _ _ _ _ _ f Hwf Hi E Hnp).
Qed.

(** the model-reading projections of round 7 coincide with the pure ones, and
    the model's latest accepted timestamp is the specification's *)
Theorem spec_side_latest H : forall t f,
  wf_tree (t_tree t) -> Inv f (t_tree t) -> no_panic_history t H ->
  (forall q, project_all (thr_of t) t f H q = project_spec (thr_of t) (t_ts t) f H q) /\
  frun (thr_of t) t f H = sfrun (thr_of t) (t_ts t) f H /\
  t_ts (trun t H) = slatest (thr_of t) (t_ts t) f H.
Proof.
  induction H as [|h H IH]; intros t f Hwf Hi Hnp;
    cbn [trun fold_left project_all project_spec frun sfrun slatest]; [repeat split|].
  destruct Hnp as [Hn1 Hn2].
  destruct (tstep_all t h f Hwf Hi Hn1) as (Hw & Hcfg & _ & Hi' & _).
  pose proof (tstep_latest t h f Hwf Hi Hn1) as Hts.
  assert (Hthr : thr_of (tstep t h) = thr_of t) by (unfold thr_of; now rewrite Hcfg).
  destruct (IH (tstep t h) _ Hw Hi' Hn2) as (A & B & C). rewrite Hthr, Hts in A, B, C.
  fold (trun (tstep t h) H).
  split; [intros q; now rewrite A|]. split; [exact B|exact C].
Qed.

(** C02 with a right-hand side that mentions no model state: the leaf is the
    fold of the four-line rule over [project_spec], a function of the history,
    the threshold and the index path alone; so are the flat map and the latest
    accepted timestamp *)
Theorem leaf_holds_newest_spec name cfg (H : hist) (q : path) :
  no_panic_history (new_target name cfg) H ->
  lookup (t_tree (trun (new_target name cfg) H)) q =
    spec_leaf (cfg_future_threshold cfg) (project_spec (cfg_future_threshold cfg) None [] H q) /\
  lookup (t_tree (trun (new_target name cfg) H)) q =
    slookup (sfrun (cfg_future_threshold cfg) None [] H) q /\
  t_ts (trun (new_target name cfg) H) = slatest (cfg_future_threshold cfg) None [] H.
Proof.
  intros Hnp.
  destruct (leaf_holds_newest_all name cfg H q Hnp) as [A B].
  destruct (spec_side_latest H (new_target name cfg) [] I inv_nil Hnp) as (P & F & L).
  change (thr_of (new_target name cfg)) with (cfg_future_threshold cfg) in P, F, L.
  change (t_ts (new_target name cfg)) with (@None Z) in P, F, L.
  rewrite <- P, <- F. split; [exact A|]. split; [exact B|exact L].
Qed.

(** non-vacuity: on [ex_hist_all] the future guard's reference moves 2 -> 5
    (the accepted a/b/c at 5; the refused a/b at 9 does not move it), and a
    too-far-ahead update judged against it is kept out *)
Definition ex_hist_spec : hist := ex_hist_all ++ [(0, ex_bc 9); (0, ex_bc 7)].

Example ex_hist_spec_events :
  no_panic_history ex_t0 ex_hist_spec /\
  slatest 2 None [] ex_hist_all = Some 5 /\
  slatest 2 None [] ex_hist_spec = Some 7 /\
  project_spec 2 None [] ex_hist_spec ["a"; "b"; "c"] =
    [LDel 3; LUpd 0 (Some 2) (ex_bc 5); LDel 3; LUpd 0 (Some 5) (ex_bc 9); LUpd 0 (Some 5) (ex_bc 7)] /\
  lookup (t_tree (trun ex_t0 ex_hist_spec)) ["a"; "b"; "c"] = Some (ex_bc 7).
Proof. vm_compute. repeat split. Qed.

(** A small heap model of Go slices, and on it the code of cache/cache.go that
    builds outgoing paths from caller-owned objects.

    The Gallina model of the cache (CacheModel.v) is pure: a notification is a
    value, so "the caller's notification is left unmodified, also when callers
    share prefix objects" cannot even be stated there.  Here the part of the
    code that touches caller-owned slices is modelled over an explicit heap:

    - a heap is a list of backing arrays (array id = position), a cell is
      [option A] ([None] = the zero value of the element type);
    - a slice header is (array id, offset, len, cap), as in the Go runtime;
    - [append] writes IN PLACE when [len + k <= cap] -- whoever else views
      that array sees the write -- and otherwise allocates a new array
      (capacity = what is needed + whatever the growth policy [extra] adds),
      copies, and leaves the old array alone;
    - [alloc] is [make([]T, 0, n)], [clone] is what proto.Clone does to a
      repeated field (a new array, cap = len).

    On it: [path_elems_h] (pathElems), [to_delete_fixed] (the Elem branch of
    toDeleteNotification as it is since /repo 20c4a71 + 6b65ac8),
    [to_delete_old] (the same branch before 20c4a71:
    [append(prefix.GetElem(), path.GetElem()...)]), [to_delete_element] /
    [to_delete_atomic] / [to_delete_head] (the other two branches and the
    switch), [build_deletes] (the loop
    of gnmiRemove: every delete notification is built before the first is
    handed out), [join_h] (joinPrefixAndPath: ToStrings allocates, appends,
    re-slices [1:]) and [dispatch] (the multi-notification branch of
    Target.GnmiUpdate: strip n.Update/n.Delete, clone per unit, restore).
    Definitions only; proofs in SliceHeapProofs.v. *)
From Coq Require Import List Arith Bool.
Import ListNotations.

Section Heap.
Context {A : Type}.

Definition cell := option A.
Definition arr := list cell.
Definition heap := list arr.

Record slice := Sl { s_id : nat; s_off : nat; s_len : nat; s_cap : nat }.

Definition get_arr (h : heap) (id : nat) : arr := nth id h [].

Fixpoint set_arr (h : heap) (id : nat) (a : arr) : heap :=
  match h, id with
  | [], _ => []
  | _ :: h', O => a :: h'
  | x :: h', S id' => x :: set_arr h' id' a
  end.

(** the cells a slice shows: s[0:len] *)
Definition sread (h : heap) (s : slice) : list cell :=
  firstn (s_len s) (skipn (s_off s) (get_arr h (s_id s))).

(** every cell its holder can reach: s[0:cap] (the spare capacity included) *)
Definition sreach (h : heap) (s : slice) : list cell :=
  firstn (s_cap s) (skipn (s_off s) (get_arr h (s_id s))).

(** a slice header is valid in a heap *)
Definition wf (h : heap) (s : slice) : Prop :=
  s_id s < length h /\ s_len s <= s_cap s /\ s_off s + s_cap s <= length (get_arr h (s_id s)).

(** store [xs] into cells i, i+1, ... of an array (callers stay in range:
    [i + length xs <= length a], which [append] guarantees for a valid slice) *)
Definition write_at (a : arr) (i : nat) (xs : list cell) : arr :=
  firstn i a ++ xs ++ skipn (i + length xs) a.

(** make([]T, 0, n) *)
Definition alloc (h : heap) (n : nat) : heap * slice :=
  (h ++ [repeat None n], Sl (length h) 0 0 n).

(** growth policy of the runtime: the spare capacity a reallocation adds,
    from (old cap, needed len); any function will do *)
Variable extra : nat -> nat -> nat.

(** append(s, xs...) *)
Definition append (h : heap) (s : slice) (xs : list cell) : heap * slice :=
  let k := length xs in
  if s_len s + k <=? s_cap s then
    (set_arr h (s_id s) (write_at (get_arr h (s_id s)) (s_off s + s_len s) xs),
     Sl (s_id s) (s_off s) (s_len s + k) (s_cap s))
  else
    let e := extra (s_cap s) (s_len s + k) in
    (h ++ [sread h s ++ xs ++ repeat None e], Sl (length h) 0 (s_len s + k) (s_len s + k + e)).

(** proto.Clone on a repeated field *)
Definition clone (h : heap) (s : slice) : heap * slice :=
  (h ++ [sread h s], Sl (length h) 0 (s_len s) (s_len s)).

(** s[1:] *)
Definition tail1 (s : slice) : option slice :=
  match s_len s with
  | O => None                                  (* slice bounds out of range: panic *)
  | S l => Some (Sl (s_id s) (S (s_off s)) l (s_cap s - 1))
  end.

(** * The code

    What toDeleteNotification reads of a stored notification [d]: the slices
    [d.Prefix.Elem] and [d.Update[0].Path.Elem] -- caller-owned when the
    notification came in as a single update, since the cache stores the
    caller's object -- and, for a side in the deprecated encoding, its
    Element names converted to elements. *)
Record dsrc := DSrc {
  d_pfx : slice;  d_pfx_conv : list A;
  d_path : slice; d_path_conv : list A
}.

(** pathElems(p) *)
Definition path_elems_h (h : heap) (e : slice) (conv : list A) : heap * slice :=
  if 0 <? s_len e then (h, e)
  else let '(h1, s) := alloc h (length conv) in append h1 s (map Some conv).

(** toDeleteNotification, case [len(prefix.GetElem()) > 0 || len(path.GetElem()) > 0], HEAD *)
Definition to_delete_fixed (h : heap) (d : dsrc) : heap * slice :=
  let '(h1, pe) := path_elems_h h (d_pfx d) (d_pfx_conv d) in
  let '(h2, le) := path_elems_h h1 (d_path d) (d_path_conv d) in
  let '(h3, e0) := alloc h2 (s_len pe + s_len le) in
  let '(h4, e1) := append h3 e0 (sread h3 pe) in
  append h4 e1 (sread h4 le).

(** the same case before 20c4a71: append(prefix.GetElem(), path.GetElem()...) *)
Definition to_delete_old (h : heap) (d : dsrc) : heap * slice :=
  append h (d_pfx d) (sread h (d_path d)).

(** gnmiRemove: one delete notification per removed leaf, in visiting order;
    all are built before the first is handed to the client *)
Fixpoint build_deletes (f : heap -> dsrc -> heap * slice) (h : heap) (ds : list dsrc)
  : heap * list slice :=
  match ds with
  | [] => (h, [])
  | d :: ds' =>
      let '(h1, o) := f h d in
      let '(h2, os) := build_deletes f h1 ds' in
      (h2, o :: os)
  end.

(** what the client then reads in each of them *)
Definition read_all (h : heap) (os : list slice) : list (list cell) := map (sread h) os.

(** the delete path toDeleteNotification is meant to produce for [d] *)
Definition side (h : heap) (e : slice) (conv : list A) : list cell :=
  if 0 <? s_len e then sread h e else map Some conv.
Definition want (h : heap) (d : dsrc) : list cell :=
  side h (d_pfx d) (d_pfx_conv d) ++ side h (d_path d) (d_path_conv d).

(** the other two branches of toDeleteNotification (HEAD).  [default:] -- both
    sides in the deprecated encoding, the slices are [[]string]:
    [make(0, len(pe)+len(le))] and two appends, no conversion *)
Definition to_delete_element (h : heap) (d : dsrc) : heap * slice :=
  let pe := d_pfx d in
  let le := d_path d in
  let '(h3, e0) := alloc h (s_len pe + s_len le) in
  let '(h4, e1) := append h3 e0 (sread h3 pe) in
  append h4 e1 (sread h4 le).

(** [case n.GetAtomic():] the delete notification is handed the stored prefix
    slice ITSELF (no append, no copy): it shares the caller's backing array,
    spare capacity included *)
Definition to_delete_atomic (h : heap) (d : dsrc) : heap * slice := (h, d_pfx d).

Inductive branch := BAtomic | BElem | BElement.

(** toDeleteNotification (HEAD), the branch taken for [d] given by [br] *)
Definition to_delete_head (br : dsrc -> branch) (h : heap) (d : dsrc) : heap * slice :=
  match br d with
  | BAtomic => to_delete_atomic h d
  | BElem => to_delete_fixed h d
  | BElement => to_delete_element h d
  end.

Definition want_head (br : dsrc -> branch) (h : heap) (d : dsrc) : list cell :=
  match br d with
  | BAtomic => sread h (d_pfx d)
  | BElem => want h d
  | BElement => sread h (d_pfx d) ++ sread h (d_path d)
  end.

(** joinPrefixAndPath over index strings: ToStrings(pr, true) makes a slice of
    capacity 20 and appends target, origin and the names ([hd], [names] read
    from the caller's slices), the suffix is appended, then [p[1:]] *)
Definition join_h (h : heap) (hd : list A) (pfx path : slice) : heap * option slice :=
  let '(h1, s0) := alloc h 20 in
  let '(h2, s1) := append h1 s0 (map Some hd) in
  let '(h3, s2) := append h2 s1 (sread h2 pfx) in
  let '(h4, t0) := alloc h3 20 in
  let '(h5, t1) := append h4 t0 (sread h4 path) in
  let '(h6, s3) := append h5 s2 (sread h5 t1) in
  (h6, tail1 s3).

(** * The multi-notification branch of Target.GnmiUpdate

    The caller's notification object: its prefix slice and the two fields the
    branch assigns to ([nil] = [None]).  Updates and deletes are opaque here. *)
Record nobj {U D : Type} := NObj {
  o_pfx : slice;
  o_upd : option (list U);
  o_del : option (list D)
}.
Arguments nobj : clear implicits.
Arguments NObj {U D}.

(** one unit handed to gnmiUpdate / gnmiRemove: proto.Clone(n) taken while n is
    stripped, with the one update or delete set on the clone *)
Definition unit_of {U D} (h : heap) (n : nobj U D) (u : option U) (d : option D) : heap * nobj U D :=
  let '(h1, p) := clone h (o_pfx n) in
  (h1, NObj p (option_map (fun x => [x]) u) (option_map (fun x => [x]) d)).

(** [handle]: what gnmiUpdate / gnmiRemove do with a unit and the heap (store
    it, build delete notifications, call the client).  State: the caller's
    object and the heap. *)
Definition dispatch {U D} (handle : heap -> nobj U D -> heap)
  (h : heap) (n : nobj U D) : heap * nobj U D :=
  let updates := o_upd n in
  let deletes := o_del n in
  let n0 := NObj (o_pfx n) None None in                  (* n.Update, n.Delete = nil, nil *)
  let h1 := fold_left (fun h u => let '(h', c) := unit_of h n0 (Some u) None in handle h' c)
                      (match updates with Some l => l | None => [] end) h in
  let h2 := fold_left (fun h d => let '(h', c) := unit_of h n0 None (Some d) in handle h' c)
                      (match deletes with Some l => l | None => [] end) h1 in
  (h2, NObj (o_pfx n0) updates deletes).                 (* the deferred restore *)

End Heap.

Arguments dsrc : clear implicits.

(** Proofs about the slice-heap model of SliceHeap.v: the code of HEAD never
    writes into an array that existed before the call (frame), every delete
    notification of one gnmiRemove carries its own path whatever the stored
    prefixes share, the multi-notification branch restores the caller's
    object; the code before 20c4a71 does neither (witness of corpus/C03). *)
From Coq Require Import List Arith Bool Lia.
From Gnmi Require Import Cache.SliceHeap.
Import ListNotations.

Section Proofs.
Context {A : Type}.
Variable extra : nat -> nat -> nat.
Notation heap := (@heap A).
Notation cell := (@cell A).

(** ** arrays *)

Lemma get_app_old : forall (h l : heap) id, id < length h -> get_arr (h ++ l) id = get_arr h id.
Proof. intros. unfold get_arr. now rewrite app_nth1. Qed.

Lemma get_app_last : forall (h : heap) a, get_arr (h ++ [a]) (length h) = a.
Proof. intros. unfold get_arr. now rewrite nth_middle. Qed.

Lemma set_app_last : forall (h : heap) a b, set_arr (h ++ [a]) (length h) b = h ++ [b].
Proof. induction h; simpl; intros; [reflexivity|now rewrite IHh]. Qed.

Lemma sread_app_old : forall (h l : heap) s, s_id s < length h -> sread (h ++ l) s = sread h s.
Proof. intros. unfold sread. now rewrite get_app_old. Qed.

Lemma sreach_app_old : forall (h l : heap) s, s_id s < length h -> sreach (h ++ l) s = sreach h s.
Proof. intros. unfold sreach. now rewrite get_app_old. Qed.

Lemma sread_length : forall (h : heap) s, length (sread h s) <= s_len s.
Proof. intros. unfold sread. apply firstn_le_length. Qed.

Lemma write_read : forall (a : list cell) l xs,
  l <= length a -> firstn (l + length xs) (write_at a l xs) = firstn l a ++ xs.
Proof.
  intros a l xs Hl. unfold write_at.
  assert (E : length (firstn l a) = l) by (rewrite firstn_length; lia).
  rewrite <- E at 1. rewrite firstn_app_2. f_equal.
  replace (length xs) with (length xs + 0) at 1 by lia.
  rewrite firstn_app_2. simpl. apply app_nil_r.
Qed.

Lemma write_at_length_ge : forall (a : list cell) l xs, l <= length a -> l + length xs <= length (write_at a l xs).
Proof.
  intros. unfold write_at. rewrite !app_length, firstn_length. lia.
Qed.

(** append to the slice that owns the LAST array of the heap, within capacity:
    only that array changes *)
Lemma append_last : forall (h : heap) a s xs,
  s_id s = length h -> s_len s + length xs <= s_cap s ->
  append extra (h ++ [a]) s xs =
    (h ++ [write_at a (s_off s + s_len s) xs], Sl (length h) (s_off s) (s_len s + length xs) (s_cap s)).
Proof.
  intros h a s xs Hid Hc. unfold append.
  destruct (Nat.leb_spec (s_len s + length xs) (s_cap s)); [|lia].
  rewrite Hid, get_app_last, set_app_last. reflexivity.
Qed.

(** ** the code of HEAD only adds arrays *)

Definition extends (h h' : heap) : Prop := exists l, h' = h ++ l.

Lemma extends_refl : forall h, extends h h.
Proof. intros. exists []. now rewrite app_nil_r. Qed.

Lemma extends_trans : forall h1 h2 h3, extends h1 h2 -> extends h2 h3 -> extends h1 h3.
Proof. intros h1 h2 h3 [l1 ->] [l2 ->]. exists (l1 ++ l2). now rewrite app_assoc. Qed.

Lemma extends_length : forall h h', extends h h' -> length h <= length h'.
Proof. intros h h' [l ->]. rewrite app_length. lia. Qed.

(** the frame, cell by cell: every array of [h], spare capacity included *)
Lemma extends_frame : forall h h', extends h h' -> forall id, id < length h -> get_arr h' id = get_arr h id.
Proof. intros h h' [l ->] id Hid. now apply get_app_old. Qed.

Lemma extends_sread : forall h h' s, extends h h' -> s_id s < length h -> sread h' s = sread h s.
Proof. intros h h' s [l ->] H. now apply sread_app_old. Qed.

Lemma extends_sreach : forall h h' s, extends h h' -> s_id s < length h -> sreach h' s = sreach h s.
Proof. intros h h' s [l ->] H. now apply sreach_app_old. Qed.

(** make(0, c); append xs; append ys  with room for both: one new array *)
Lemma fresh_two_appends : forall (h : heap) c xs ys,
  length xs + length ys <= c ->
  exists a,
    (let '(h3, e0) := alloc h c in
     let '(h4, e1) := append extra h3 e0 xs in
     append extra h4 e1 ys) = (h ++ [a], Sl (length h) 0 (length xs + length ys) c) /\
    firstn (length xs + length ys) a = xs ++ ys.
Proof.
  intros h c xs ys Hc. unfold alloc.
  rewrite append_last by (simpl; lia). simpl.
  rewrite append_last by (simpl; lia). simpl.
  eexists; split; [reflexivity|].
  set (a1 := write_at (repeat None c) 0 xs).
  assert (H1 : firstn (length xs) a1 = xs).
  { change (length xs) with (0 + length xs). unfold a1. rewrite write_read by lia. reflexivity. }
  assert (L1 : length xs <= length a1).
  { pose proof (write_at_length_ge (repeat None c) 0 xs). unfold a1. simpl in *. lia. }
  rewrite write_read by exact L1. now rewrite H1.
Qed.

Lemma fresh_one_append : forall (h : heap) xs,
  exists a,
    (let '(h1, s) := alloc h (length xs) in append extra h1 s xs)
      = (h ++ [a], Sl (length h) 0 (length xs) (length xs)) /\
    firstn (length xs) a = xs.
Proof.
  intros h xs. unfold alloc. rewrite append_last by (simpl; lia). simpl.
  eexists; split; [reflexivity|].
  change (length xs) with (0 + length xs). rewrite write_read by lia. reflexivity.
Qed.

Lemma path_elems_spec : forall (h : heap) e conv h1 pe,
  s_id e < length h ->
  path_elems_h extra h e conv = (h1, pe) ->
  extends h h1 /\ s_id pe < length h1 /\ sread h1 pe = side h e conv.
Proof.
  intros h e conv h1 pe Hid. unfold path_elems_h, side.
  destruct (0 <? s_len e).
  - intros [= <- <-]. split; [apply extends_refl|]. split; [exact Hid|reflexivity].
  - destruct (fresh_one_append h (map Some conv)) as [a [E F]].
    rewrite map_length in E, F. rewrite E. intros [= <- <-].
    split; [now exists [a]|]. split.
    + simpl. rewrite app_length. simpl. lia.
    + unfold sread. simpl. rewrite get_app_last. simpl. exact F.
Qed.

Definition dsrc_ok (h : heap) (d : dsrc A) : Prop :=
  s_id (d_pfx d) < length h /\ s_id (d_path d) < length h.

Lemma want_extends : forall h h' d, extends h h' -> dsrc_ok h d -> want h' d = want h d.
Proof.
  intros h h' d E [H1 H2]. unfold want, side.
  rewrite (extends_sread h h' _ E H1), (extends_sread h h' _ E H2). reflexivity.
Qed.

Lemma dsrc_ok_extends : forall h h' d, extends h h' -> dsrc_ok h d -> dsrc_ok h' d.
Proof. intros h h' d E [H1 H2]. apply extends_length in E. split; lia. Qed.

(** toDeleteNotification (HEAD): the heap only gains arrays and the new slice
    reads prefix elements ++ path elements *)
Lemma to_delete_fixed_spec : forall (h : heap) d h' o,
  dsrc_ok h d ->
  to_delete_fixed extra h d = (h', o) ->
  extends h h' /\ s_id o < length h' /\ sread h' o = want h d.
Proof.
  intros h d h' o [Hp Hl]. unfold to_delete_fixed.
  destruct (path_elems_h extra h (d_pfx d) (d_pfx_conv d)) as [h1 pe] eqn:E1.
  destruct (path_elems_spec _ _ _ _ _ Hp E1) as [X1 [I1 R1]].
  destruct (path_elems_h extra h1 (d_path d) (d_path_conv d)) as [h2 le] eqn:E2.
  assert (Hl1 : s_id (d_path d) < length h1) by (apply extends_length in X1; lia).
  destruct (path_elems_spec _ _ _ _ _ Hl1 E2) as [X2 [I2 R2]].
  assert (I1' : s_id pe < length h2) by (apply extends_length in X2; lia).
  (* the reads made after the allocation see the same cells *)
  unfold alloc.
  assert (Rp : sread (h2 ++ [repeat None (s_len pe + s_len le)]) pe = sread h2 pe)
    by (now apply sread_app_old).
  pose proof (sread_length h2 pe) as Lp. pose proof (sread_length h2 le) as Ll.
  rewrite Rp.
  rewrite append_last by (simpl; lia). simpl.
  assert (Rl : forall a, sread (h2 ++ [a]) le = sread h2 le) by (intros; now apply sread_app_old).
  rewrite Rl.
  rewrite append_last by (simpl; lia). simpl.
  intros [= <- <-]. split.
  - eapply extends_trans; [exact X1|]. eapply extends_trans; [exact X2|]. eexists; reflexivity.
  - split; [simpl; rewrite app_length; simpl; lia|].
    unfold sread at 1. simpl. rewrite get_app_last. simpl.
    set (xs := sread h2 pe). set (ys := sread h2 le).
    set (a1 := write_at (repeat None (s_len pe + s_len le)) 0 xs).
    assert (H1 : firstn (length xs) a1 = xs).
    { change (length xs) with (0 + length xs). unfold a1. rewrite write_read by lia. reflexivity. }
    assert (L1 : length xs <= length a1).
    { pose proof (write_at_length_ge (repeat None (s_len pe + s_len le)) 0 xs). unfold a1. simpl in *. lia. }
    rewrite write_read by exact L1. rewrite H1.
    unfold xs, ys, want. rewrite (extends_sread h1 h2 pe X2 I1), R1, R2.
    f_equal. unfold side. now rewrite (extends_sread h h1 _ X1 Hl).
Qed.

(** gnmiRemove (HEAD), any number of removed leaves, any sharing of the stored
    prefix and path slices, any spare capacity, any growth policy *)
Lemma build_deletes_fixed_spec : forall ds (h : heap) h' os,
  Forall (dsrc_ok h) ds ->
  build_deletes (to_delete_fixed extra) h ds = (h', os) ->
  extends h h' /\ Forall (fun o => s_id o < length h') os /\ read_all h' os = map (want h) ds.
Proof.
  induction ds as [|d ds IH]; intros h h' os Hok; simpl.
  - intros [= <- <-]. split; [apply extends_refl|]. split; [constructor|reflexivity].
  - inversion Hok as [|? ? Hd Hds]; subst.
    destruct (to_delete_fixed extra h d) as [h1 o] eqn:E1.
    destruct (to_delete_fixed_spec _ _ _ _ Hd E1) as [X1 [I1 R1]].
    destruct (build_deletes (to_delete_fixed extra) h1 ds) as [h2 os'] eqn:E2.
    assert (Hds1 : Forall (dsrc_ok h1) ds).
    { eapply Forall_impl; [|exact Hds]. intros; now apply (dsrc_ok_extends h). }
    destruct (IH _ _ _ Hds1 E2) as [X2 [I2 R2]].
    intros [= <- <-]. split; [eapply extends_trans; eauto|]. split.
    + constructor; [apply extends_length in X2; lia|exact I2].
    + simpl. rewrite (extends_sread h1 h2 o X2 I1), R1. f_equal.
      rewrite R2. apply map_ext_in. intros x Hx. apply want_extends; [exact X1|].
      rewrite Forall_forall in Hds. now apply Hds.
Qed.

(** (a) frame: every array that existed before the call -- in particular every
    cell the caller can reach through any of its slices, spare capacity
    included -- is unchanged afterwards *)
Theorem deletes_frame : forall ds (h : heap) h' os,
  Forall (dsrc_ok h) ds ->
  build_deletes (to_delete_fixed extra) h ds = (h', os) ->
  (forall id, id < length h -> get_arr h' id = get_arr h id) /\
  (forall s, s_id s < length h -> sreach h' s = sreach h s /\ sread h' s = sread h s).
Proof.
  intros ds h h' os Hok E. destruct (build_deletes_fixed_spec _ _ _ _ Hok E) as [X _].
  split; [now apply extends_frame|].
  intros s Hs. split; [now apply extends_sreach|now apply extends_sread].
Qed.

(** (b) the k delete notifications carry the k paths of the k removed leaves,
    read after ALL of them have been built *)
Theorem deletes_paths : forall ds (h : heap) h' os,
  Forall (dsrc_ok h) ds ->
  build_deletes (to_delete_fixed extra) h ds = (h', os) ->
  read_all h' os = map (want h) ds.
Proof. intros ds h h' os Hok E. now destruct (build_deletes_fixed_spec _ _ _ _ Hok E) as [_ [_ R]]. Qed.

(** ** all three branches of toDeleteNotification *)

Lemma to_delete_element_spec : forall (h : heap) d h' o,
  dsrc_ok h d ->
  to_delete_element extra h d = (h', o) ->
  extends h h' /\ s_id o < length h' /\ sread h' o = sread h (d_pfx d) ++ sread h (d_path d).
Proof.
  intros h d h' o [Hp Hl]. unfold to_delete_element, alloc.
  pose proof (sread_length h (d_pfx d)) as Lp. pose proof (sread_length h (d_path d)) as Ll.
  rewrite (sread_app_old h _ (d_pfx d) Hp).
  rewrite append_last by (simpl; lia). simpl.
  rewrite (sread_app_old h _ (d_path d) Hl).
  rewrite append_last by (simpl; lia). simpl.
  intros [= <- <-]. split; [eexists; reflexivity|].
  split; [simpl; rewrite app_length; simpl; lia|].
  unfold sread at 1. simpl. rewrite get_app_last. simpl.
  set (xs := sread h (d_pfx d)). set (ys := sread h (d_path d)).
  set (a1 := write_at (repeat None (s_len (d_pfx d) + s_len (d_path d))) 0 xs).
  assert (H1 : firstn (length xs) a1 = xs).
  { change (length xs) with (0 + length xs). unfold a1. rewrite write_read by lia. reflexivity. }
  assert (L1 : length xs <= length a1).
  { pose proof (write_at_length_ge (repeat None (s_len (d_pfx d) + s_len (d_path d))) 0 xs).
    unfold a1. simpl in *. lia. }
  rewrite write_read by exact L1. now rewrite H1.
Qed.

Lemma to_delete_head_spec : forall br (h : heap) d h' o,
  dsrc_ok h d ->
  to_delete_head extra br h d = (h', o) ->
  extends h h' /\ s_id o < length h' /\ sread h' o = want_head br h d.
Proof.
  intros br h d h' o Hok. unfold to_delete_head, want_head. destruct (br d).
  - unfold to_delete_atomic. intros [= <- <-]. destruct Hok as [Hp _].
    split; [apply extends_refl|]. split; [exact Hp|reflexivity].
  - now apply to_delete_fixed_spec.
  - now apply to_delete_element_spec.
Qed.

Lemma want_head_extends : forall br h h' d, extends h h' -> dsrc_ok h d -> want_head br h' d = want_head br h d.
Proof.
  intros br h h' d E Hok. unfold want_head. destruct (br d).
  - destruct Hok as [H1 _]. now apply extends_sread.
  - now apply want_extends.
  - destruct Hok as [H1 H2]. now rewrite (extends_sread h h' _ E H1), (extends_sread h h' _ E H2).
Qed.

(** gnmiRemove (HEAD) over removed leaves of every kind, mixed: atomic
    containers, elem / mixed-encoded and element-encoded leaves *)
Lemma build_deletes_head_spec : forall br ds (h : heap) h' os,
  Forall (dsrc_ok h) ds ->
  build_deletes (to_delete_head extra br) h ds = (h', os) ->
  extends h h' /\ Forall (fun o => s_id o < length h') os /\ read_all h' os = map (want_head br h) ds.
Proof.
  intros br. induction ds as [|d ds IH]; intros h h' os Hok; simpl.
  - intros [= <- <-]. split; [apply extends_refl|]. split; [constructor|reflexivity].
  - inversion Hok as [|? ? Hd Hds]; subst.
    destruct (to_delete_head extra br h d) as [h1 o] eqn:E1.
    destruct (to_delete_head_spec _ _ _ _ _ Hd E1) as [X1 [I1 R1]].
    destruct (build_deletes (to_delete_head extra br) h1 ds) as [h2 os'] eqn:E2.
    assert (Hds1 : Forall (dsrc_ok h1) ds).
    { eapply Forall_impl; [|exact Hds]. intros; now apply (dsrc_ok_extends h). }
    destruct (IH _ _ _ Hds1 E2) as [X2 [I2 R2]].
    intros [= <- <-]. split; [eapply extends_trans; eauto|]. split.
    + constructor; [apply extends_length in X2; lia|exact I2].
    + simpl. rewrite (extends_sread h1 h2 o X2 I1), R1. f_equal.
      rewrite R2. apply map_ext_in. intros x Hx. apply want_head_extends; [exact X1|].
      rewrite Forall_forall in Hds. now apply Hds.
Qed.

Theorem deletes_head_frame_paths : forall br ds (h : heap) h' os,
  Forall (dsrc_ok h) ds ->
  build_deletes (to_delete_head extra br) h ds = (h', os) ->
  (forall id, id < length h -> get_arr h' id = get_arr h id) /\
  (forall s, s_id s < length h -> sreach h' s = sreach h s /\ sread h' s = sread h s) /\
  read_all h' os = map (want_head br h) ds.
Proof.
  intros br ds h h' os Hok E. destruct (build_deletes_head_spec _ _ _ _ _ Hok E) as [X [_ R]].
  split; [now apply extends_frame|]. split; [|exact R].
  intros s Hs. split; [now apply extends_sreach|now apply extends_sread].
Qed.

(** joinPrefixAndPath reads the caller's slices and writes only its own *)
Lemma append_extends_or_last : forall (h : heap) a s xs,
  s_id s = length h -> exists l, fst (append extra (h ++ [a]) s xs) = h ++ l.
Proof.
  intros h a s xs Hid. unfold append.
  destruct (s_len s + length xs <=? s_cap s); simpl.
  - rewrite Hid, get_app_last, set_app_last. eexists; reflexivity.
  - rewrite <- app_assoc. eexists; reflexivity.
Qed.

(** ** the multi-notification branch *)

Section Dispatch.
Context {U D : Type}.
Variable handle : heap -> @nobj U D -> heap.
(** gnmiUpdate / gnmiRemove on a unit: whatever they do (store the clone, build
    delete notifications with [build_deletes], call the client), on HEAD they
    only add arrays *)
Hypothesis handle_extends : forall h c, extends h (handle h c).

Lemma fold_units_extends : forall {X} (mk : X -> option U * option D) (l : list X) (h : heap) n0,
  extends h (fold_left (fun h x => let '(h', c) := unit_of h n0 (fst (mk x)) (snd (mk x)) in handle h' c) l h).
Proof.
  intros X mk l. induction l as [|x l IH]; intros h n0; simpl; [apply extends_refl|].
  eapply extends_trans; [|apply IH].
  unfold unit_of, clone. eapply extends_trans; [|apply handle_extends]. eexists; reflexivity.
Qed.

Theorem dispatch_restores : forall (h : heap) (n : @nobj U D),
  let '(h', n') := dispatch handle h n in
  n' = n /\ extends h h'.
Proof.
  intros h n. unfold dispatch. split; [destruct n; reflexivity|].
  eapply extends_trans.
  - apply (fold_units_extends (fun u => (Some u, None))).
  - apply (fold_units_extends (fun d => (None, Some d))).
Qed.

(** every unit's prefix is a slice of a NEW array without spare capacity: no
    unit shares a backing array with the caller or with another unit *)
Theorem unit_prefix_is_fresh : forall (h : heap) (n : @nobj U D) u d h1 c,
  unit_of h n u d = (h1, c) ->
  s_id (o_pfx c) = length h /\ s_cap (o_pfx c) = s_len (o_pfx c) /\
  (s_id (o_pfx n) < length h -> sread h1 (o_pfx c) = sread h (o_pfx n)).
Proof.
  intros h n u d h1 c. unfold unit_of, clone. intros [= <- <-]. simpl.
  split; [reflexivity|]. split; [reflexivity|]. intros Hid.
  unfold sread at 1. simpl. rewrite get_app_last. simpl.
  pose proof (sread_length h (o_pfx n)).
  rewrite firstn_all2; [reflexivity|exact H].
Qed.
End Dispatch.

End Proofs.

(** ** the code before 20c4a71 on the witness of corpus/C03/fixed_delete_alias.json:
    three leaves x, y, z written through ONE prefix object [a, b] whose Elem
    slice has two spare slots; delete a/b *)
From Coq Require Import String.
Section Witness.
Local Open Scope string_scope.
Definition w_heap : @heap string :=
  [[Some "a"; Some "b"; None; None]; [Some "x"]; [Some "y"]; [Some "z"]].
Definition w_pfx := Sl 0 0 2 4.
Definition w_ds : list (dsrc string) :=
  [DSrc w_pfx [] (Sl 1 0 1 1) []; DSrc w_pfx [] (Sl 2 0 1 1) []; DSrc w_pfx [] (Sl 3 0 1 1) []].
Definition w_extra (c n : nat) := n.

Lemma w_ok : Forall (dsrc_ok w_heap) w_ds.
Proof. repeat constructor; simpl; lia. Qed.

(** HEAD on the witness: three distinct paths, the caller's array untouched *)
Example w_fixed :
  let '(h', os) := build_deletes (to_delete_fixed w_extra) w_heap w_ds in
  read_all h' os = [[Some "a"; Some "b"; Some "x"]; [Some "a"; Some "b"; Some "y"]; [Some "a"; Some "b"; Some "z"]]
  /\ get_arr h' 0 = get_arr w_heap 0.
Proof. vm_compute. split; reflexivity. Qed.

(** the old code: all three delete notifications carry the LAST path, and a
    cell of the caller's array (its spare capacity) has been written *)
Lemma old_code_aliases :
  exists (h : @heap string) ds,
    Forall (dsrc_ok h) ds /\
    let '(h', os) := build_deletes (to_delete_old w_extra) h ds in
    read_all h' os <> map (want h) ds /\
    read_all h' os = [[Some "a"; Some "b"; Some "z"]; [Some "a"; Some "b"; Some "z"]; [Some "a"; Some "b"; Some "z"]] /\
    sreach h' w_pfx <> sreach h w_pfx.
Proof.
  exists w_heap, w_ds. split; [exact w_ok|]. vm_compute.
  split; [discriminate|]. split; [reflexivity|discriminate].
Qed.
End Witness.

(** C15, history form of latest_is_max (round 7).

    The exported latest timestamp after ANY history of calls equals the
    greatest timestamp of the accepted, tracked notifications handed to the
    target since its last Reset / Add / Remove -- exactly as the code decides
    it:
      - a notification is TRACKED when it has an update and the index path of
        its FIRST update (the prefix alone when atomic) is not under "meta"
        ([CacheModel.tracks_ts], the deferred checkTimestamp of
        Target.GnmiUpdate since a096aa9).  The first update decides for the
        whole notification (documented quirk);
      - it is ACCEPTED when gnmiUpdate returned no error for at least one of
        its update units (announced or suppressed); the one unit of an atomic
        group or of a single update; deletes never count ([accepted],
        characterised declaratively in [accepted_multi_spec]).
    Nothing is assumed of the history (panicking calls included).

    Second part: soundness of the K_P clause (tag 5) against the declarative
    statement on the implementation's observations, and its agreement with the
    model's notion of acceptance. *)
From Gnmi Require Import Base.Prelude CTree.CTreeModel Path.PathModel Cache.CacheModel
  Cache.MultiCache Cache.C14Proofs Cache.C14Check Cache.C15Check Cache.C15Proofs.
Local Open Scope Z_scope.

(** * Acceptance, as the code decides it *)

Definition unit_ok (t : target) (now : Z) (n : notif) : bool :=
  match snd (gnmi_update1 t now n) with Ok _ => true | _ => false end.

(** the [updateTS] flag of Target.GnmiUpdate at the deferred checkTimestamp *)
Definition accepted (t : target) (now : Z) (n : notif) : bool :=
  if n_atomic n then
    match n_del n, n_upd n with
    | [], _ :: _ => unit_ok t now n
    | _, _ => false
    end
  else
    match n_upd n, n_del n with
    | [], _ => false
    | [_], [] => unit_ok t now n
    | us, _ => a_ok (fold_left (multi_update_step now n) us (Acc t [] [] false None))
    end.

(** the latest timestamp after one notification, exactly *)
Definition latest_next (t : target) (now : Z) (n : notif) : option Z :=
  if tracks_ts n && accepted t now n then zmax_opt (t_ts t) (n_ts n) else t_ts t.

Lemma check_timestamp_max t z : t_ts (check_timestamp t z) = zmax_opt (t_ts t) z.
Proof.
  unfold check_timestamp, zmax_opt. destruct (t_ts t) as [y|] eqn:E; [|reflexivity].
  destruct (Z.ltb_spec y z); cbn [t_ts set_ts]; [f_equal; lia|rewrite E; f_equal; lia].
Qed.

Lemma finish_ts_exact n b x : t_ts (finish_ts n b x) = if tracks_ts n && b then zmax_opt (t_ts x) (n_ts n) else t_ts x.
Proof. unfold finish_ts. destruct (tracks_ts n && b); [apply check_timestamp_max|reflexivity]. Qed.

Lemma multi_delete_step_ok n a d : a_ok (multi_delete_step n a d) = a_ok a.
Proof.
  unfold multi_delete_step. destruct (a_panic a); [reflexivity|]. cbv zeta.
  destruct (gnmi_remove (add_int (a_t a) md_update_count 1) (clone_with_delete n d)) as [t1 [rm|e|w]]; reflexivity.
Qed.

Lemma fold_delete_ok n ds : forall a, a_ok (fold_left (multi_delete_step n) ds a) = a_ok a.
Proof. induction ds as [|d ds IH]; cbn; intros a; [reflexivity|]. now rewrite IH, multi_delete_step_ok. Qed.

Lemma tracks_ts_no_upd n : n_upd n = [] -> tracks_ts n = false.
Proof. unfold tracks_ts. intros ->. reflexivity. Qed.

Theorem latest_exact t now n t' fd r :
  target_gnmi_update t now n = (t', fd, r) -> t_ts t' = latest_next t now n.
Proof.
  unfold target_gnmi_update, latest_next, accepted, unit_ok.
  assert (Hfold : forall us ds,
            t_ts (a_t (fold_left (multi_delete_step n) ds
                        (fold_left (multi_update_step now n) us (Acc t [] [] false None)))) = t_ts t).
  { intros us ds. rewrite (fold_ts _ ds (multi_delete_step_ts n)).
    rewrite (fold_ts _ us (multi_update_step_ts now n)). reflexivity. }
  destruct (n_atomic n).
  - destruct (n_del n) as [|d ds].
    + destruct (n_upd n) as [|u us] eqn:Eu.
      * intros H; inversion H; subst. rewrite andb_false_r. reflexivity.
      * destruct (gnmi_update1 t now n) as [t1 r1] eqn:E.
        pose proof (gnmi_update1_ts _ _ _ _ _ E) as Hts. cbn [snd].
        destruct r1 as [[nd|]|e|w]; intros H; inversion H; subst; rewrite finish_ts_exact;
          cbn [t_ts add_int set_meta]; rewrite Hts; reflexivity.
    + intros H; inversion H; subst. destruct (n_upd n); rewrite andb_false_r; reflexivity.
  - destruct (n_upd n) as [|u us] eqn:Eu.
    + rewrite andb_false_r. destruct (n_del n) as [|d [|d' ds]].
      * intros H; inversion H; subst. reflexivity.
      * destruct (gnmi_remove (add_int t md_update_count 1) n) as [t1 r1] eqn:E.
        pose proof (gnmi_remove_ts _ _ _ _ E) as Hts.
        destruct r1; intros H; inversion H; subst; exact Hts.
      * pose proof (Hfold [] (d :: d' :: ds)) as Hf. cbn [fold_left] in Hf |- *.
        intros H; inversion H; subst. rewrite finish_ts_exact, (tracks_ts_no_upd n Eu). cbn [andb].
        exact Hf.
    + destruct us as [|u2 us].
      * destruct (n_del n) as [|d ds].
        -- destruct (gnmi_update1 t now n) as [t1 r1] eqn:E.
           pose proof (gnmi_update1_ts _ _ _ _ _ E) as Hts. cbn [snd].
           destruct r1 as [[nd|]|e|w]; intros H; inversion H; subst; rewrite finish_ts_exact;
             cbn [t_ts add_int set_meta]; rewrite Hts; reflexivity.
        -- pose proof (Hfold [u] (d :: ds)) as Hf. cbn [fold_left] in Hf |- *.
           intros H; inversion H; subst. rewrite finish_ts_exact, Hf, fold_delete_ok, multi_delete_step_ok.
           reflexivity.
      * pose proof (Hfold (u :: u2 :: us) (n_del n)) as Hf. cbn [fold_left] in Hf |- *.
        intros H; inversion H; subst. rewrite finish_ts_exact, Hf, fold_delete_ok.
        destruct (n_del n); reflexivity.
Qed.

(** what [a_ok] of the update loop means: some update unit, run in the state
    its predecessors left and before any panic, was not refused *)
Lemma multi_update_step_panicked now n a u : a_panic a <> None -> multi_update_step now n a u = a.
Proof. unfold multi_update_step. destruct (a_panic a); [reflexivity|congruence]. Qed.

Lemma fold_update_panicked now n us : forall a, a_panic a <> None -> fold_left (multi_update_step now n) us a = a.
Proof. induction us as [|u us IH]; cbn; intros a Ha; [reflexivity|]. rewrite multi_update_step_panicked; auto. Qed.

Definition unit_accepted_at (now : Z) (n : notif) (a : acc) (u : update) : Prop :=
  a_panic a = None /\ unit_ok (a_t a) now (clone_with_update n u) = true.

Lemma multi_update_step_ok now n a u :
  a_ok (multi_update_step now n a u) = true <-> a_ok a = true \/ unit_accepted_at now n a u.
Proof.
  unfold multi_update_step, unit_accepted_at, unit_ok. destruct (a_panic a) as [w|] eqn:Ep.
  - split; [auto|intros [H|[H _]]; [exact H|discriminate]].
  - destruct (gnmi_update1 (a_t a) now (clone_with_update n u)) as [t1 [[nd|]|e|w]]; cbn [a_ok snd];
      split; auto; intros [H|[_ H]]; auto; discriminate.
Qed.

Theorem accepted_multi_spec now n us : forall a,
  a_ok (fold_left (multi_update_step now n) us a) = true <->
  a_ok a = true \/
  exists us1 u us2, us = us1 ++ u :: us2 /\
    unit_accepted_at now n (fold_left (multi_update_step now n) us1 a) u.
Proof.
  induction us as [|u us IH]; cbn [fold_left]; intros a.
  - split; [auto|]. intros [H|(us1 & u & us2 & H & _)]; [exact H|]. destruct us1; discriminate.
  - rewrite IH, multi_update_step_ok. split.
    + intros [[H|H]|(us1 & v & us2 & -> & H)]; [now left| |].
      * right. exists [], u, us. split; [reflexivity|exact H].
      * right. exists (u :: us1), v, us2. split; [reflexivity|exact H].
    + intros [H|(us1 & v & us2 & E & H)]; [now left; left|].
      destruct us1 as [|u' us1]; cbn in E; inversion E; subst.
      * left; right. exact H.
      * right. exists us1, v, us2. split; [reflexivity|exact H].
Qed.

(** * What leaves the latest timestamp and its export alone *)

Definition gl (t : target) : Z := gi (t_meta t) md_latest_ts.

Lemma meta_side_effect_gl t k two u t1 r : meta_side_effect t k two u = (t1, r) -> gl t1 = gl t.
Proof.
  unfold meta_side_effect, gl. repeat break_match; intros H; inversion H; subst;
    cbn [t_meta set_meta set_sync]; rewrite ?gi_set_bool, ?gi_set_str; reflexivity.
Qed.

Lemma update_pre_gl t p u t1 r : update_pre t p u = (t1, r) -> gl t1 = gl t.
Proof.
  unfold update_pre. repeat break_match; intros H;
    first [ eapply meta_side_effect_gl; eassumption | inversion H; subst; reflexivity ].
Qed.

Lemma update_leaf_gl t1 now p u n t2 r : update_leaf t1 now p u n = (t2, r) -> gl t2 = gl t1.
Proof.
  unfold update_leaf, gl. repeat break_match; intros H; inversion H; subst;
    cbn [t_meta set_meta set_tree add_int]; rewrite ?lat_compute_meta;
    cbn [t_meta set_meta set_tree add_int]; rewrite ?gi_add_int; cbn; lia.
Qed.

Lemma gnmi_update1_gl t now n t' r : gnmi_update1 t now n = (t', r) -> gl t' = gl t.
Proof.
  unfold gnmi_update1. destruct (n_upd n) as [|u ?]; [intros H; inversion H; reflexivity|].
  destruct (unit_index n) as [p|e|w]; try (intros H; inversion H; reflexivity).
  destruct (update_pre t p u) as [t1 r1] eqn:Hpre. pose proof (update_pre_gl _ _ _ _ _ Hpre) as H1.
  destruct r1 as [[]|e|w]; try (intros H; inversion H; subst; exact H1).
  intros H. rewrite (update_leaf_gl _ _ _ _ _ _ _ H). exact H1.
Qed.

Definition keeps (z : option Z) (g : Z) (t : target) : Prop := t_ts t = z /\ gl t = g.

Lemma generate_meta_updates_keeps z g t now :
  keeps z g t -> keeps z g (fst (fst (generate_meta_updates t now))).
Proof.
  intros Hinv. unfold generate_meta_updates. cbv zeta.
  assert (Hone : forall k v same st, gst_ok (keeps z g) (fun _ => True) st ->
                   gst_ok (keeps z g) (fun _ => True) (gen_meta_one now k v same st)).
  { intros k v same st Hst. apply gen_meta_one_inv; [|exact Hst].
    intros val t' r t0 [Hz Hg] _ _ E. split; [|auto].
    split; [rewrite (gnmi_update1_ts _ _ _ _ _ E); exact Hz|rewrite (gnmi_update1_gl _ _ _ _ _ E); exact Hg]. }
  match goal with |- keeps z g (fst (fst ?x)) =>
    assert (H : gst_ok (keeps z g) (fun _ => True) x) end.
  { repeat (apply fold_gst_ok; [intros; apply Hone; assumption|]). split; [exact Hinv|constructor]. }
  exact (proj1 H).
Qed.

(** The history form ([latest_history], [latest_history_exported]) is in C15History.v. *)

(** Example: a multi notification on a fresh target whose FIRST update is a
    metadata leaf and whose second creates a real leaf: both units are accepted,
    the notification is not tracked, the latest timestamp stays unset -- the
    documented quirk; with the units swapped it moves to the timestamp. *)
Definition exl_t : target := new_target "t" (Cfg 0 true []).
Definition exl_meta_first : notif :=
  Notif 7 (Some (GPath "t" "" [] [])) None
    [Upd (Some (gp_of_names ["meta"; "x"])) (Some (TInt 1)) 0;
     Upd (Some (gp_of_names ["a"; "b"])) (Some (TInt 1)) 0] [] false.
Definition exl_real_first : notif :=
  Notif 7 (Some (GPath "t" "" [] [])) None
    [Upd (Some (gp_of_names ["a"; "b"])) (Some (TInt 1)) 0;
     Upd (Some (gp_of_names ["meta"; "x"])) (Some (TInt 1)) 0] [] false.

Example ex_latest_first_decides :
  accepted exl_t 1 exl_meta_first = true /\ tracks_ts exl_meta_first = false /\
  latest_next exl_t 1 exl_meta_first = None /\
  accepted exl_t 1 exl_real_first = true /\ latest_next exl_t 1 exl_real_first = Some 7.
Proof. vm_compute. repeat split; reflexivity. Qed.

(** the natural reading "greatest timestamp of an accepted non-metadata UNIT"
    is false of the code: in [exl_meta_first] the unit a/b is accepted (a new
    leaf outside "meta") and the latest timestamp does not move *)
Theorem latest_is_max_of_units_refuted :
  exists t now n t' fd r u,
    target_gnmi_update t now n = (t', fd, r) /\ r = GOk /\ In u (n_upd n) /\
    tracks_ts (clone_with_update n u) = true /\ t_ts t' <> zmax_opt (t_ts t) (n_ts n).
Proof.
  exists exl_t, 1, exl_meta_first.
  destruct (target_gnmi_update exl_t 1 exl_meta_first) as [[t' fd] r] eqn:E.
  exists t', fd, r, (Upd (Some (gp_of_names ["a"; "b"])) (Some (TInt 1)) 0).
  split; [reflexivity|]. vm_compute in E. inversion E; subst.
  split; [reflexivity|]. split; [right; left; reflexivity|]. split; [reflexivity|]. cbn. discriminate.
Qed.

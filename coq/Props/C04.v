(** C04 -- STREAM subscribers converge to the cache; sync marks the initial
    snapshot.  Statements over the transition system of Stream/StreamLts.v;
    each closed by [exact] of a lemma of Stream/StreamProofs.v. *)
From Gnmi Require Import Base.Prelude Stream.StreamLts Stream.StreamProofs.
Open Scope Z_scope.

(** Every leaf the initial walk selects is a leaf the feed delivers
    (ctree.Query's relation is contained in the match trie's). *)
Theorem C04_walk_relation_contained :
  forall q p, covers q p = true -> compat q p = true.
Proof. exact covers_compat. Qed.
Print Assumptions C04_walk_relation_contained.

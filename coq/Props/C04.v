(** C04 -- STREAM subscribers converge to the cache; sync marks the initial
    snapshot.

    Statements over the transition system of Stream/StreamLts.v: N writer
    goroutines (tree write, then one feed callback per announced leaf), M
    STREAM subscribers (registration path by path, one cache.Query per path
    under the tree's read lock, sync marker) and their senders (dequeue, read
    the leaf's LATEST value, Send).  [reachable h nw subs st]: [st] is reached
    from the initial state (nw writers, the subscriptions [subs], each started
    at an arbitrary moment) by SOME schedule -- "for all interleavings" is the
    universal quantification over [st].  Writers take the target's write
    mutex (Target.wmu, commit b865e5c) with their tree write and release it
    when the operation returns ([LUnlock]), so any number of writer goroutines
    may write one target.  [strict h] is the one hypothesis left: no
    subscription path longer than a leaf it is compatible with.  [full_stream st sb] = responses sent ++ the response
    inside Send ++ what the item in the sender's hand, the queue and the
    pending feed callbacks addressed to [sb] would be sent as NOW.  Only
    statements here, each closed by [exact] of a lemma of StreamProofs.v. *)
From Gnmi Require Import Base.Prelude Stream.StreamLts Stream.StreamProofs Stream.C04Check Stream.C04CheckProofs.
Open Scope Z_scope.

(** Two writers of one target exclude each other from the tree write to the
    end of the feed callbacks: whoever has announcements pending holds the
    target's mutex, and no two writers hold the same one. *)
Theorem C04_writers_exclusive :
  forall h nw subs st, strict h -> reachable h nw subs st ->
  (forall w it, In it (feed_of st w) -> exists t, lock_of st w = Some t /\ item_target st it = Some t) /\
  (forall w w' t, w <> w' -> lock_of st w = Some t -> lock_of st w' = Some t -> False).
Proof. exact writers_exclusive. Qed.
Print Assumptions C04_writers_exclusive.

(** The invariant: in EVERY reachable state, for every live subscriber whose
    initial walk is done, replaying (sent ++ in Send ++ in hand ++ queue ++
    pending announcements) yields, for every path one of its queries selects,
    exactly the cache's content (value; and timestamp when event-driven
    suppression is off). *)
Theorem C04_stream_invariant :
  forall h nw subs st, strict h -> reachable h nw subs st ->
  forall i sb, nth_error (st_subs st) i = Some sb -> s_end sb = false ->
    walk_done sb = true -> s_uo sb = false ->
    forall p, sub_matches sb p = true ->
      option_map (proj h) (replay_path p None (full_stream st sb)) = option_map (proj h) (cache_at st p).
Proof. exact stream_invariant. Qed.
Print Assumptions C04_stream_invariant.

(** Once nothing is in flight, the responses on the wire replay to the cache. *)
Theorem C04_stream_converges :
  forall h nw subs st, strict h -> reachable h nw subs st -> quiescent st ->
  forall i sb, nth_error (st_subs st) i = Some sb -> s_end sb = false -> s_uo sb = false ->
    forall p, sub_matches sb p = true ->
      option_map (proj h) (replay_path p None (s_sent sb)) = option_map (proj h) (cache_at st p).
Proof. exact stream_converges. Qed.
Print Assumptions C04_stream_converges.

(** Exactly one sync marker; every leaf attached and selected when one of the
    subscriber's walks started precedes it in the stream ([trace] = tags of
    sent ++ in Send ++ in hand ++ queue, which only ever grows at its end). *)
Theorem C04_snapshot_before_single_sync :
  forall h nw subs st, strict h -> reachable h nw subs st ->
  forall i sb, nth_error (st_subs st) i = Some sb -> s_end sb = false ->
    s_uo sb = false -> walk_done sb = true ->
    exists pre post, trace st sb = pre ++ TSync :: post /\ ~ In TSync pre /\ ~ In TSync post /\
      forall l, In l (s_snap sb) -> exists p, leaf_path st l = Some p /\ In (TUpd p) pre.
Proof. exact snapshot_before_single_sync. Qed.
Print Assumptions C04_snapshot_before_single_sync.

(** [s_snap] is complete: a walk's start records every attached leaf its path selects. *)
Theorem C04_walk_begin_snapshot :
  forall h st s st', step h st (LWalkBegin s) = Some st' ->
  forall sb sb' k q, nth_error (st_subs st) s = Some sb -> nth_error (st_subs st') s = Some sb' ->
    s_pc sb = SGap k -> nth_error (s_qs sb) k = Some q ->
    forall p l, tlookup p (st_tree st) = Some l -> covers q p = true -> In l (s_snap sb').
Proof. exact walk_begin_snapshot. Qed.
Print Assumptions C04_walk_begin_snapshot.

(** No sync marker anywhere in the stream before the walk is over. *)
Theorem C04_no_sync_before_walk_done :
  forall h nw subs st, strict h -> reachable h nw subs st ->
  forall i sb, nth_error (st_subs st) i = Some sb -> s_end sb = false ->
    s_uo sb = false -> walk_done sb = false -> ~ In TSync (trace st sb).
Proof. exact no_sync_before_walk_done. Qed.
Print Assumptions C04_no_sync_before_walk_done.

(** updates_only: the sync marker is first, and the only one. *)
Theorem C04_updates_only_sync_first :
  forall h nw subs st, strict h -> reachable h nw subs st ->
  forall i sb, nth_error (st_subs st) i = Some sb -> s_end sb = false -> s_uo sb = true ->
    exists post, trace st sb = TSync :: post /\ ~ In TSync post.
Proof. exact updates_only_sync_first. Qed.
Print Assumptions C04_updates_only_sync_first.

(** updates_only: never a wrong value -- the replay of the stream gives the
    cache's content or nothing (a leaf older than the subscription that has
    not changed since). *)
Theorem C04_updates_only_never_wrong :
  forall h nw subs st, strict h -> reachable h nw subs st ->
  forall i sb, nth_error (st_subs st) i = Some sb -> s_end sb = false -> s_uo sb = true ->
    forall p, reg_match sb p = true ->
      option_map (proj h) (replay_path p None (full_stream st sb)) = option_map (proj h) (cache_at st p)
      \/ (cache_at st p <> None /\ replay_path p None (full_stream st sb) = None).
Proof. exact updates_only_never_wrong. Qed.
Print Assumptions C04_updates_only_never_wrong.

(** No lost update: the tree write of an accepted update puts the leaf's
    handle on its way to every subscriber with a registered compatible path;
    it carries the newest value because the sender reads the leaf when it
    sends ([C04_stream_invariant] covers everything from there on). *)
Theorem C04_no_lost_update :
  forall h nw subs st w p v ts st', strict h -> reachable h nw subs st ->
  step h st (LWrite w (WUpd p v ts)) = Some st' ->
  forall l, In (ILeaf l) (feed_of st' w) ->
    leaf_path st' l = Some p /\ leaf_cont st' l = Some (v, ts) /\ tlookup p (st_tree st') = Some l /\
    forall sb, In sb (st_subs st') -> reg_match sb p = true -> In (ILeaf l) (pending_feed st' sb).
Proof. exact no_lost_update. Qed.
Print Assumptions C04_no_lost_update.

(** The hypothesis is satisfiable and the conclusion is not vacuous: an
    update landing between registration and walk is delivered coalesced. *)
Theorem C04_stream_converges_example :
  strict ex_hyps /\ reachable ex_hyps 1 kf_subs ex_state /\ quiescent ex_state /\
  exists sb, nth_error (st_subs ex_state) 0 = Some sb /\ s_end sb = false /\ s_uo sb = false /\
    walk_done sb = true /\ sub_matches sb kf_path = true /\
    s_sent sb = [RUpd kf_path 2 2 1; RSync] /\ cache_at ex_state kf_path = Some (2, 2).
Proof. exact stream_converges_example. Qed.
Print Assumptions C04_stream_converges_example.

(** Regression witness: WITHOUT the write mutex (the transition system of the
    code before commit b865e5c, [step_gen false]) the statement is FALSE
    (DESIGN 7.16, fixed): two writers of one target, update || delete of one
    leaf; the update's announcement overtakes the delete's. *)
Theorem C04_stream_converges_refuted :
  exists h nw subs st,
    h_agree h = true /\
    reachable_unlocked h nw subs st /\ quiescent st /\
    exists sb p, nth_error (st_subs st) 0 = Some sb /\ s_end sb = false /\ s_uo sb = false /\
      sub_matches sb p = true /\
      s_sent sb = [RUpd p 1 1 0; RSync; RDel p 10; RUpd p 5 5 0] /\
      cache_at st p = None /\
      option_map (proj h) (replay_path p None (s_sent sb)) <> option_map (proj h) (cache_at st p).
Proof. exact stream_converges_refuted. Qed.
Print Assumptions C04_stream_converges_refuted.

(** Every leaf the initial walk selects is a leaf the feed delivers
    (ctree.Query's relation is contained in the match trie's). *)
Theorem C04_walk_relation_contained :
  forall q p, covers q p = true -> compat q p = true.
Proof. exact covers_compat. Qed.
Print Assumptions C04_walk_relation_contained.

(** Soundness of the executable specification's convergence clause: what
    K_P accepts on the implementation's observations IS convergence. *)
Theorem C04_spec_sound :
  forall c qs rs p, C04Check.conv_path c qs false rs p = 0%N ->
  existsb (fun q => covers q p) qs = true ->
  C04Check.pcont (C04Check.c_ed c) (replay_path p None rs)
  = C04Check.pcont (C04Check.c_ed c) (C04Check.dlookup p (C04Check.c_dump c)).
Proof. exact C04CheckProofs.conv_path_sound. Qed.
Print Assumptions C04_spec_sound.

(** C09 -- path tree is a prefix-free map with consistent wildcard query/delete.
    This file holds only the property theorems, each closed by [exact] of a
    lemma proved elsewhere (CTree/CTreeTheorems.v, CTree/CTreeProofs.v), with
    [Print Assumptions] beneath.

    Vocabulary: [lookup t p] is the value stored at exactly path [p] (the
    abstraction of a tree to a partial map); [run ms] is the tree reached from
    the empty tree by the history [ms] of Add / Delete(Conditional) / WalkDeleted
    operations; [wf_tree] (distinct child names, no empty branch) holds of every
    reachable tree ([C09_reachable_wf]), so every statement below that assumes
    it is a statement about all histories. *)
From Gnmi Require Import Base.Prelude CTree.CTreeModel CTree.CTreeProofs CTree.CTreeTheorems.
From Coq Require Import Sorting.Sorted.

(** every reachable tree is well formed *)
Theorem C09_reachable_wf :
  forall (V : Type) (ms : list (@mut V)), wf_tree (run ms).
Proof. exact @reachable_wf. Qed.
Print Assumptions C09_reachable_wf.

(** no stored path is a prefix of another, in every reachable tree *)
Theorem C09_prefix_free :
  forall (V : Type) (ms : list (@mut V)) p s v w,
    lookup (run ms) p = Some v -> lookup (run ms) (p ++ s) = Some w -> s = [].
Proof. exact @reachable_prefix_free. Qed.
Print Assumptions C09_prefix_free.

(** an add either stores the value (exactly that binding changes) or fails
    leaving the tree unchanged; it fails exactly when the path conflicts with a
    stored path.  A delete removes exactly the selected bindings. *)
Theorem C09_step_refines_map :
  forall (V : Type) (t : tree V) (m : @mut V),
    wf_tree t ->
    match m with
    | MAdd p v =>
        (conflict_free t p /\
         forall q, lookup (mut_step t m) q = if path_eqb q p then Some v else lookup t q)
        \/ (~ conflict_free t p /\ add t p v = None /\ mut_step t m = t)
    | MDel q c =>
        forall s, lookup (mut_step t m) s = sel q c (lookup t s) s
    end.
Proof. exact @mut_step_refines. Qed.
Print Assumptions C09_step_refines_map.

(** Query reports exactly the stored leaves that match, each once *)
Theorem C09_query_exact :
  forall (V : Type) (t : tree V) q p v,
    wf_tree t -> (In (p, v) (query t q) <-> lookup t p = Some v /\ qmatch q p = true).
Proof. exact @query_exact. Qed.
Print Assumptions C09_query_exact.

Theorem C09_query_once :
  forall (V : Type) (t : tree V) q, wf_tree t -> NoDup (map fst (query t q)).
Proof. exact @query_once. Qed.
Print Assumptions C09_query_once.

(** Walk reports exactly the stored leaves, each once *)
Theorem C09_walk_exact :
  forall (V : Type) (t : tree V) p v,
    wf_tree t -> (In (p, v) (walk t) <-> lookup t p = Some v).
Proof. exact @walk_exact. Qed.
Print Assumptions C09_walk_exact.

Theorem C09_walk_once :
  forall (V : Type) (t : tree V), wf_tree t -> NoDup (map fst (walk t)).
Proof. exact @walk_once. Qed.
Print Assumptions C09_walk_once.

(** WalkSorted reports the same leaves in strictly increasing lexicographic
    (bytewise) path order *)
Theorem C09_walk_sorted :
  forall (V : Type) (t : tree V),
    wf_tree t ->
    Permutation (walk_sorted t) (walk t) /\
    StronglySorted path_lt (map fst (walk_sorted t)).
Proof. exact @walk_sorted_exact. Qed.
Print Assumptions C09_walk_sorted.

(** lookups *)
Theorem C09_get_leaf_exact :
  forall (V : Type) (t : tree V) p v, get t p = Some (Leaf v) <-> lookup t p = Some v.
Proof. exact @get_leaf_exact. Qed.
Print Assumptions C09_get_leaf_exact.

Theorem C09_is_branch_exact :
  forall (V : Type) (t : tree V) p,
    wf_tree t ->
    (is_branch_at t p = true <-> exists s v, s <> [] /\ lookup t (p ++ s) = Some v).
Proof. exact @is_branch_exact. Qed.
Print Assumptions C09_is_branch_exact.

Theorem C09_children_exact :
  forall (V : Type) (t : tree V) p ks,
    wf_tree t -> children_at t p = Some ks ->
    NoDup ks /\ forall k, In k ks <-> exists s v, lookup t (p ++ k :: s) = Some v.
Proof. exact @children_exact. Qed.
Print Assumptions C09_children_exact.

(** a delete removes and returns exactly the leaves a query for the same path
    reports, restricted by the condition, each once; everything else stays; the
    result is again well formed (emptied branches are pruned) *)
Theorem C09_delete_eq_query :
  forall (V : Type) (t : tree V) q c,
    wf_tree t ->
    let r := delete_cond t q c in
    (forall s v, In (s, v) (snd r) <-> In (s, v) (query t q) /\ c v = true) /\
    NoDup (map fst (snd r)) /\
    (forall s, lookup (fst r) s =
               match lookup t s with
               | Some v => if qmatch q s && c v then None else Some v
               | None => None
               end) /\
    wf_tree (fst r).
Proof. exact @delete_eq_query. Qed.
Print Assumptions C09_delete_eq_query.

(** after a delete an add succeeds exactly when no REMAINING leaf conflicts *)
Theorem C09_delete_prunes :
  forall (V : Type) (t : tree V) q c p v,
    wf_tree t ->
    let t' := fst (delete_cond t q c) in
    (add t' p v <> None <-> conflict_free t' p).
Proof. exact @delete_prunes. Qed.
Print Assumptions C09_delete_prunes.

(** deleting from an empty tree removes nothing *)
Theorem C09_delete_empty :
  forall (V : Type) (q : path) (c : V -> bool), delete_cond (None : tree V) q c = (None, []).
Proof. exact @delete_empty. Qed.
Print Assumptions C09_delete_empty.

(** deleting through a leaf removes nothing (a single trailing glob, which
    Query honours too, is the only continuation that selects the leaf) *)
Theorem C09_delete_through_leaf :
  forall (V : Type) (t : tree V) p k r c v,
    wf_tree t -> lookup t p = Some v ->
    (k <> "*"%string \/ r <> []) ->
    forall w, ~ In (p, w) (snd (delete_cond t (p ++ k :: r) c)).
Proof. exact @delete_through_leaf. Qed.
Print Assumptions C09_delete_through_leaf.

(** The executable flat prefix-free-map specification that the check applies
    to the implementation's own answers ([CTreeCheck.fstep], the checker K_P)
    is refined by the model for EVERY operation sequence over the whole API
    (Add, Get, GetLeaf, GetLeafValue, Query, Walk, WalkSorted, Delete,
    DeleteConditional, WalkDeleted, Children, IsBranch): answers agree, unordered
    ones up to permutation, except GetLeaf on a branch position (known finding
    KF-C09-1, constructor [OE_known_getleaf]). *)
From Gnmi Require Import CTree.CTreeCheck CTree.CTreeRefine.
Theorem C09_model_refines_flat_spec :
  forall os : list op,
    Forall2 (fun o rr => obs_equiv o (fst rr) (snd rr)) os (combine (mrun None os) (frun [] os)).
Proof. exact run_refines. Qed.
Print Assumptions C09_model_refines_flat_spec.

(** Leaf handles ([GetLeaf] hands out a pointer to the node; [Leaf.Value] and
    [Leaf.Update] read and write through it later).  CTreeHandle.v adds handle
    slots to the tree model ([hmstep]) and to the flat-map specification
    ([hfstep], what the check applies to the implementation's own answers).
    For EVERY sequence of tree operations and handle operations (hold a leaf's
    handle, update through it, read through it) the model's answers are the
    specification's. *)
From Gnmi Require Import CTree.CTreeHandle CTree.CTreeHandleProofs.
Theorem C09_handles_refine_flat_spec :
  forall hs : list hop,
    Forall2 (fun h rr => hobs_equiv h (fst rr) (snd rr)) hs
            (combine (hmrun hm0 hs) (hfrun hf0 hs)).
Proof. exact hrun_refines. Qed.
Print Assumptions C09_handles_refine_flat_spec.

(** in every reachable state the tree is well formed, is the abstraction of the
    specification's map, both sides hold the same handles, and every live
    handle stands on a stored leaf *)
Theorem C09_handles_reachable :
  forall hs : list hop,
    wf_tree (fst (hmstate hs)) /\ R (fst (hmstate hs)) (fst (hfstate hs)) /\
    snd (hmstate hs) = snd (hfstate hs) /\ live_ok (fst (hmstate hs)) (fst (snd (hmstate hs))).
Proof. exact hreachable. Qed.
Print Assumptions C09_handles_reachable.

(** the map changes only through add, delete and the update of a stored leaf:
    an update through a handle is exactly the map update at the handle's own
    path while its leaf is stored, and changes nothing otherwise *)
Theorem C09_handle_update_exact :
  forall (hs : list hop) s v,
    let t := fst (hmstate hs) in
    let sl := fst (snd (hmstate hs)) in
    let t' := fst (fst (hmstep (hmstate hs) (HUpdate s v))) in
    match sget sl s with
    | HLive p => forall q, lookup t' q = if path_eqb q p then Some v else lookup t q
    | _ => t' = t
    end.
Proof. exact handle_update_exact. Qed.
Print Assumptions C09_handle_update_exact.

Theorem C09_handle_value_exact :
  forall (hs : list hop) s p,
    let t := fst (hmstate hs) in
    let sl := fst (snd (hmstate hs)) in
    sget sl s = HLive p ->
    exists v, lookup t p = Some v /\ snd (hmstep (hmstate hs) (HValue s)) = RKind (KLeaf v).
Proof. exact handle_value_exact. Qed.
Print Assumptions C09_handle_value_exact.

(** a delete that removes a leaf detaches the handles on it (they keep the deleted
    value; [n] names the group of handles that now share the detached node) *)
Theorem C09_handle_stale_after_delete :
  forall (hs : list hop) s p w q c,
    let t := fst (hmstate hs) in
    let sl := fst (snd (hmstate hs)) in
    let n := snd (snd (hmstate hs)) in
    sget sl s = HLive p -> lookup t p = Some w -> qmatch q p = true -> cnd_eval c w = true ->
    let st1 := fst (hmstep (hmstate hs) (HOp (ODelete q c))) in
    sget (fst (snd st1)) s = HStale p n w /\ lookup (fst st1) p = None.
Proof. exact handle_stale_after_delete. Qed.
Print Assumptions C09_handle_stale_after_delete.

(** nothing written through a detached handle ever reaches the tree -- not even a
    leaf added again at the same path -- nor any live handle *)
Theorem C09_stale_handle_inert :
  forall (t : tree Z) (sl : slots) n s p e w (us : list Z),
    sget sl s = HStale p e w ->
    let st' := fold_left (fun st v => fst (hmstep st (HUpdate s v))) us (t, (sl, n)) in
    fst st' = t /\ forall s' q, sget sl s' = HLive q -> sget (fst (snd st')) s' = HLive q.
Proof. exact stale_handle_inert. Qed.
Print Assumptions C09_stale_handle_inert.

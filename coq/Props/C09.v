(** C09 -- path tree is a prefix-free map with consistent wildcard query/delete.
    This file holds only the property theorems, each closed by [exact] of a
    lemma proved elsewhere, with [Print Assumptions] beneath. *)
From Gnmi Require Import Base.Prelude CTree.CTreeModel.

Theorem C09_delete_empty :
  forall (V : Type) (q : path) (c : V -> bool), delete_cond (None : tree V) q c = (None, []).
Proof. reflexivity. Qed.
Print Assumptions C09_delete_empty.

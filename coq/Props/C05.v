(** C05 -- ONCE and POLL return exactly the matching snapshot, then sync.
    Only the property theorems, each closed by [exact] of a lemma proved in
    Subscribe/SubProofs.v, with [Print Assumptions] beneath.

    Vocabulary (SubProofs.v): [wf_cache c] -- target names distinct, every tree
    well formed (what every reachable cache satisfies: [C05_cache_ops_keep_wf]);
    [accepted c rq pf] -- the request has a SubscriptionList with prefix [pf],
    a non-empty target that the cache has (or "*"); [paths_ok rq pf] --
    CompletePath succeeds for every subscription (no origin conflict);
    [matches c t pf subs n] -- notification [n] is stored in a target selected
    by [t] under an index path that some completed subscription path matches
    ([qmatch]: wildcards at any position; origins are leading path elements). *)
From Gnmi Require Import Base.Prelude CTree.CTreeModel CTree.CTreeProofs Subscribe.SubModel Subscribe.SubProofs
  Subscribe.C05Check Subscribe.C07Check Subscribe.SubCheckProofs.

(** ONCE, unchanging cache: the updates before the sync are exactly the
    matching leaves with their current values; exactly one sync, last; status
    OK; nothing that does not match. *)
Theorem C05_once_exact :
  forall allow c rq pf,
    wf_cache c -> accepted c rq pf -> r_mode rq = 1%Z -> r_updates_only rq = false ->
    paths_ok rq pf ->
    exists ups,
      run allow NoACL (Some rq) (RS c PBefore) [SSub]
        = ([(ups ++ [RSync], COk)], RS c (PEnded SOK))
      /\ ~ In RSync ups
      /\ (forall n, In (RUpd n) ups <-> matches c (g_target pf) (Some pf) (r_subs rq) n).
Proof. exact once_exact. Qed.
Print Assumptions C05_once_exact.

Theorem C05_once_updates_only :
  forall allow c rq pf,
    accepted c rq pf -> r_mode rq = 1%Z -> r_updates_only rq = true ->
    run allow NoACL (Some rq) (RS c PBefore) [SSub] = ([([RSync], COk)], RS c (PEnded SOK)).
Proof. exact once_updates_only. Qed.
Print Assumptions C05_once_updates_only.

(** POLL, initial request: after any cache history [pre], the first group is
    exactly the leaves matching then, followed by one sync. *)
Theorem C05_poll_initial_exact :
  forall allow c0 rq pf pre ops,
    wf_cache c0 -> no_sub pre ->
    accepted (cache_after c0 pre) rq pf -> r_mode rq = 2%Z -> r_updates_only rq = false ->
    paths_ok rq pf ->
    exists ups,
      group_at allow NoACL (Some rq) (RS c0 PBefore) (pre ++ SSub :: ops) (List.length pre)
        = Some (ups ++ [RSync], COk)
      /\ ~ In RSync ups
      /\ (forall n, In (RUpd n) ups <->
                    matches (cache_after c0 pre) (g_target pf) (Some pf) (r_subs rq) n).
Proof. exact poll_initial_exact. Qed.
Print Assumptions C05_poll_initial_exact.

(** POLL, every trigger: for any number of earlier steps [ops1] (cache edits and
    earlier triggers) and later steps [ops2], the group of the trigger is exactly
    the leaves matching in the cache as edited so far, then one sync, last; and
    closing the request stream ends the RPC with status OK. *)
Theorem C05_poll_exact :
  forall allow c0 rq pf pre ops1 ops2,
    wf_cache c0 -> no_sub pre ->
    accepted (cache_after c0 pre) rq pf -> r_mode rq = 2%Z -> r_updates_only rq = false ->
    paths_ok rq pf ->
    let script := pre ++ SSub :: ops1 ++ SPoll :: ops2 in
    let c1 := cache_after c0 (pre ++ SSub :: ops1) in
    exists ups,
      group_at allow NoACL (Some rq) (RS c0 PBefore) script (List.length pre + 1 + List.length ops1)
        = Some (ups ++ [RSync], COk)
      /\ ~ In RSync ups
      /\ (forall n, In (RUpd n) ups <-> matches c1 (g_target pf) (Some pf) (r_subs rq) n)
      /\ final_status (rs_phase (snd (run allow NoACL (Some rq) (RS c0 PBefore) script))) = SOK.
Proof. exact poll_exact. Qed.
Print Assumptions C05_poll_exact.

(** between triggers a POLL sends nothing *)
Theorem C05_poll_silent_between :
  forall allow rq pf c ops1 o ops2,
    r_prefix rq = Some pf -> snapshot_ok rq pf ->
    exists cr,
      group_at allow NoACL (Some rq) (RS c (PPoll (g_target pf) rq)) (ops1 ++ SCache o :: ops2)
               (List.length ops1) = Some ([], cr).
Proof. exact run_poll_silent. Qed.
Print Assumptions C05_poll_silent_between.

(** every cache operation keeps the cache well formed, so the theorems above
    apply to every cache a history of operations can produce *)
Theorem C05_cache_ops_keep_wf :
  forall ts ops, wf_cache (cache_after (empty_cache ts) ops).
Proof. exact reachable_cache_wf. Qed.
Print Assumptions C05_cache_ops_keep_wf.

(** no leaf is reported twice by one tree query: per subscription and target a
    leaf is delivered at most once *)
Theorem C05_query_reports_each_leaf_once :
  forall (tr : tree noti) q, wf_tree tr -> NoDup (map fst (query tr q)).
Proof. exact query_nodup. Qed.
Print Assumptions C05_query_reports_each_leaf_once.

(** Concurrent writers -- PARTIAL.  Full statement wanted (once_weak): in the
    LTS of the real goroutines (walker, sender, any number of cache writers)
    every leaf matching throughout the ONCE call appears at least once with a
    value it held during the call, nothing that never matched is sent, then
    exactly one sync, then OK.  Proved here: the same two clauses over the
    interleaving model [conc_walk] in which the cache moves through an
    arbitrary history of states during the walk and each per-tree query is only
    assumed to satisfy the weak query specification [weak_query] (what C10
    establishes for ctree under concurrency); the set of targets is fixed during
    the call.  Not proved: that ctree.Query under concurrent writers satisfies
    [weak_query] (C10), and the LTS refinement itself. *)
Theorem C05_once_weak_partial :
  forall hist names pf subs ups,
    conc_walk hist names pf subs ups ->
    (forall n, In (RUpd n) ups ->
       exists c t tr p sp full,
         In c hist /\ In t names /\ assoc t c = Some tr /\ lookup tr p = Some n
         /\ In sp subs /\ complete_path pf sp = Some full /\ qmatch full p = true)
    /\ (forall t p sp full,
          In t names -> In sp subs -> complete_path pf sp = Some full -> qmatch full p = true ->
          (forall tr, In tr (trees_of hist t) -> lookup tr p <> None) ->
          exists n c tr, In (RUpd n) ups /\ In c hist /\ assoc t c = Some tr /\ lookup tr p = Some n)
    /\ ~ In RSync ups.
Proof. exact once_weak_partial. Qed.
Print Assumptions C05_once_weak_partial.

(** the sequential walk of the model is the writer-free instance of [conc_walk] *)
Theorem C05_sequential_walk_is_an_interleaving :
  forall c rt pf subs,
    wf_cache c -> snd (walk_subs c rt pf subs) = true ->
    conc_walk [c] (sel_names c rt) pf subs (fst (walk_subs c rt pf subs)).
Proof. exact walk_subs_conc. Qed.
Print Assumptions C05_sequential_walk_is_an_interleaving.

(** soundness of the executable specification applied to the implementation's
    observations (C05Check.kp_snapshot) *)
Theorem C05_kp_snapshot_sound :
  forall rq pf d g,
    kp_snapshot rq pf d g = [] -> r_updates_only rq = false ->
    (exists l, g = l ++ [OSync] /\ ~ In OSync l)
    /\ (forall e, In e d -> wants rq pf (fst (fst e)) (snd e) = true ->
                  existsb (noti_eqb (snd e)) (before_sync g) = true)
    /\ (forall n, In n (upds_of g) ->
                  existsb (fun e => wants rq pf (fst (fst e)) (snd e) && noti_eqb n (snd e)) d = true).
Proof. exact kp_snapshot_sound. Qed.
Print Assumptions C05_kp_snapshot_sound.

(** soundness of the weak specification applied to a walk that concurrent
    writers overlapped (C05Check.kp_weak; harness families *-writers) *)
Theorem C05_kp_weak_sound :
  forall rq pf d0 writes d1 g,
    kp_weak rq pf d0 writes d1 g = [] -> r_updates_only rq = false ->
    (exists l, g = l ++ [OSync] /\ ~ In OSync l)
    /\ (forall n, In n (upds_of g) ->
          wants rq pf (g_target (n_prefix n)) n = true
          /\ existsb (noti_eqb n) (map snd d0 ++ writes) = true)
    /\ (forall e, In e d0 -> wants rq pf (fst (fst e)) (snd e) = true ->
          existsb (dentry_eqb e) d1 = true ->
          existsb (noti_eqb (snd e)) (before_sync g) = true).
Proof. exact kp_weak_sound. Qed.
Print Assumptions C05_kp_weak_sound.

(** Writes between the walk and the send -- PARTIAL (same standing as
    C05_once_weak_partial: an interleaving model, not the LTS of the goroutines).
    The walk over [c0] queues handles ([walk_handles]); the sender reads each
    handle when it sends it ([held_send]: the value at the walk, or a value
    stored later under the same target and path in one of the states [hist]).
    Then: everything delivered was stored under a matching path at some moment
    of the call; every leaf the walk found is delivered with a value it held
    during the call; no sync inside, and one response per queued handle -- a
    leaf deleted or rewritten after it was queued does not abort the delivery
    of the rest (the sync and the OK status follow as in C05_once_exact). *)
Theorem C05_once_held_weak_partial :
  forall c0 hist names pf subs ups,
    wf_cache c0 -> (forall sp, In sp subs -> complete_path pf sp <> None) ->
    held_send hist (walk_handles c0 names pf subs) ups ->
    (forall n, In (RUpd n) ups ->
       exists t p sp full, In t names /\ In sp subs /\ complete_path pf sp = Some full
         /\ qmatch full p = true
         /\ exists c tr, In c (c0 :: hist) /\ assoc t c = Some tr /\ lookup tr p = Some n)
    /\ (forall t tr p n0 sp full,
          In t names -> assoc t c0 = Some tr -> lookup tr p = Some n0 -> In sp subs ->
          complete_path pf sp = Some full -> qmatch full p = true ->
          exists n, In (RUpd n) ups
            /\ exists c tr', In c (c0 :: hist) /\ assoc t c = Some tr' /\ lookup tr' p = Some n)
    /\ ~ In RSync ups
    /\ List.length ups = List.length (walk_handles c0 names pf subs).
Proof. exact once_held_weak. Qed.
Print Assumptions C05_once_held_weak_partial.

(** non-vacuity: delivering every handle as it was queued is a [held_send] *)
Theorem C05_sequential_delivery_is_held_send :
  forall hist q, held_send hist q (map (fun h => RUpd (snd h)) q).
Proof. exact held_send_refl. Qed.
Print Assumptions C05_sequential_delivery_is_held_send.

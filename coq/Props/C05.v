(** C05 -- ONCE and POLL return exactly the matching snapshot, then sync.
    Only the property theorems, each closed by [exact] of a lemma proved in
    Subscribe/SubProofs.v, with [Print Assumptions] beneath. *)
From Gnmi Require Import Base.Prelude CTree.CTreeModel Subscribe.SubModel Subscribe.SubProofs.

Theorem C05_no_acl_sends_everything :
  forall allow l, send_filter allow NoACL l = l.
Proof. exact send_filter_noacl. Qed.
Print Assumptions C05_no_acl_sends_everything.

(** C17 -- target config loads are monotonic and announced as exact diffs.
    This file holds only the property theorems, each closed by [exact] of a
    lemma proved elsewhere, with [Print Assumptions] beneath.

    Reading guide.  [R], [O], [X] are the contents of a SubscribeRequest, of a
    Target besides addresses/request name, of a Configuration besides
    revision/requests/targets; [R_eqb], [O_eqb] stand for proto.Equal and are
    assumed to decide equality of content.  [p] is the patch flag of
    TargetCfgModel.patched_C17_1 ([true] = target.go as it is now, [false] = before the fix b7e5099): every
    theorem holds for both values unless it says otherwise.  [effective s] maps
    each target name to (target settings, content of the request it names);
    [replay] applies Add/Update/Delete calls strictly (Add of a held name,
    Update/Delete of an absent one is an error). *)
From Gnmi Require Import Base.Prelude TargetCfg.TargetCfgModel TargetCfg.TargetCfgProofs
  TargetCfg.TargetCfgConcProofs TargetCfg.TargetCfgCheck TargetCfg.TargetCfgKSound.
Open Scope Z_scope.

(** a load is applied iff its argument is a valid configuration and (there is
    no current one or its revision is strictly greater); then the new state is
    the stored argument; otherwise state unchanged, no handler call *)
Theorem C17_load_gate :
  forall (R O X : Type) (R_eqb : R -> R -> bool) (O_eqb : O -> O -> bool)
         (R_empty : R) (O_empty : O) (p : bool) (s : state R O X) (arg : option (config R O X)),
    (load_err R_eqb O_eqb R_empty O_empty p s arg = None <->
     (exists cf : config R O X, arg = Some cf /\ valid_p p cf /\ TargetCfgProofs.newer s cf))
    /\ (forall cf : config R O X,
          arg = Some cf -> valid_p p cf -> TargetCfgProofs.newer s cf ->
          load_state R_eqb O_eqb R_empty O_empty p s arg = Some (store_gen R_empty O_empty p cf))
    /\ (load_err R_eqb O_eqb R_empty O_empty p s arg <> None ->
        load_state R_eqb O_eqb R_empty O_empty p s arg = s
        /\ load_calls R_eqb O_eqb R_empty O_empty p s arg = []).
Proof. exact @load_gate. Qed.
Print Assumptions C17_load_gate.

(** Validate's verdict is the order-independent predicate [valid_p] *)
Theorem C17_validate_spec :
  forall (R O X : Type) (p : bool) (c : config R O X), validate_gen p c = None <-> valid_p p c.
Proof. exact @validate_spec. Qed.
Print Assumptions C17_validate_spec.

(** for EVERY history (loads that are nil / invalid / stale / good, and -- for
    the patched code -- in-place edits by the caller), starting from any valid
    base or none, replaying the handler calls, those of each load in ANY order,
    onto the effective base never errs and yields exactly the effective
    current configuration *)
Theorem C17_replay_converges :
  forall (R O X : Type) (R_eqb : R -> R -> bool) (O_eqb : O -> O -> bool) (R_empty : R) (O_empty : O),
    (forall a b : R, R_eqb a b = true <-> a = b) ->
    (forall a b : O, O_eqb a b = true <-> a = b) ->
    forall (p : bool) (s0 : state R O X) (hs : list (hop R O X)),
      state_ok s0 ->
      Forall hop_wf hs ->
      p = true \/ forallb is_load hs = true ->
      forall css' : list (list (call R O)),
        Forall2 (@Permutation (call R O)) (snd (run_gen R_eqb O_eqb R_empty O_empty p s0 hs)) css' ->
        exists e : eff R O,
          replay (List.concat css') (effective s0) = Some e
          /\ Permutation e (effective (fst (run_gen R_eqb O_eqb R_empty O_empty p s0 hs))).
Proof. exact @replay_converges. Qed.
Print Assumptions C17_replay_converges.

(** ... and that result does not depend on the order inside a load *)
Theorem C17_replay_order_independent :
  forall (R O X : Type) (R_eqb : R -> R -> bool) (O_eqb : O -> O -> bool) (R_empty : R) (O_empty : O),
    (forall a b : R, R_eqb a b = true <-> a = b) ->
    (forall a b : O, O_eqb a b = true <-> a = b) ->
    forall (p : bool) (s0 : state R O X) (hs : list (hop R O X))
           (css1 css2 : list (list (call R O))) (e1 e2 : eff R O),
      state_ok s0 ->
      Forall hop_wf hs ->
      p = true \/ forallb is_load hs = true ->
      Forall2 (@Permutation (call R O)) (snd (run_gen R_eqb O_eqb R_empty O_empty p s0 hs)) css1 ->
      Forall2 (@Permutation (call R O)) (snd (run_gen R_eqb O_eqb R_empty O_empty p s0 hs)) css2 ->
      replay (List.concat css1) (effective s0) = Some e1 ->
      replay (List.concat css2) (effective s0) = Some e2 ->
      Permutation e1 e2.
Proof. exact @replay_order_independent. Qed.
Print Assumptions C17_replay_order_independent.

(** regression witness: FALSE of target.go as it was before b7e5099 (p = false)
    once the caller edits a loaded message in place: the edit became current
    without announcement and the valid, newer re-load was refused (former
    finding KF-C17-1; the code as it is now is p = true, covered above) *)
Theorem C17_replay_converges_unpatched_refuted :
  exists hs : list Witness.shop,
    Forall hop_wf hs
    /\ (let r := Witness.srun false None hs in
        exists e, replay (List.concat (snd r)) (effective (None : state string string string)) = Some e
                  /\ ~ Permutation e (effective (fst r)))
    /\ load_err String.eqb String.eqb "" "" false
         (fst (Witness.srun false None [HLoad (Some Witness.cA); HMutate Witness.cA'])) (Some Witness.cA') <> None
    /\ valid_p true Witness.cA' /\ TargetCfgProofs.newer (Some Witness.cA) Witness.cA'.
Proof. exact Witness.replay_converges_unpatched_refuted. Qed.
Print Assumptions C17_replay_converges_unpatched_refuted.

(** an accepted load announces exactly the difference between the effective
    configurations before and after *)
Theorem C17_calls_exact :
  forall (R O X : Type) (R_eqb : R -> R -> bool) (O_eqb : O -> O -> bool) (R_empty : R) (O_empty : O),
    (forall a b : O, O_eqb a b = true <-> a = b) ->
    forall (p : bool) (s : state R O X) (cf : config R O X),
      state_ok s -> wf_config cf ->
      load_err R_eqb O_eqb R_empty O_empty p s (Some cf) = None ->
      load_calls R_eqb O_eqb R_empty O_empty p s (Some cf)
      = TargetCfgModel.eff_diff R_eqb O_eqb (effective s) (effective (Some cf)).
Proof. exact @load_calls_exact. Qed.
Print Assumptions C17_calls_exact.

(** a target whose settings and request content are unchanged gets no call *)
Theorem C17_unchanged_silent :
  forall (R O X : Type) (R_eqb : R -> R -> bool) (O_eqb : O -> O -> bool) (R_empty : R) (O_empty : O),
    (forall a b : R, R_eqb a b = true <-> a = b) ->
    (forall a b : O, O_eqb a b = true <-> a = b) ->
    forall (p : bool) (s : state R O X) (cf : config R O X) (k : string),
      state_ok s -> wf_config cf ->
      load_err R_eqb O_eqb R_empty O_empty p s (Some cf) = None ->
      assoc k (effective s) = assoc k (effective (Some cf)) ->
      ~ In k (map call_name (load_calls R_eqb O_eqb R_empty O_empty p s (Some cf))).
Proof. exact @unchanged_silent. Qed.
Print Assumptions C17_unchanged_silent.

(** a target that is new, gone or different gets exactly one call, of the right
    kind, carrying the new settings and request content *)
Theorem C17_changed_announced_once :
  forall (R O X : Type) (R_eqb : R -> R -> bool) (O_eqb : O -> O -> bool) (R_empty : R) (O_empty : O),
    (forall a b : R, R_eqb a b = true <-> a = b) ->
    (forall a b : O, O_eqb a b = true <-> a = b) ->
    forall (p : bool) (s : state R O X) (cf : config R O X),
      state_ok s -> wf_config cf ->
      load_err R_eqb O_eqb R_empty O_empty p s (Some cf) = None ->
      let cs := load_calls R_eqb O_eqb R_empty O_empty p s (Some cf) in
      NoDup (map call_name cs)
      /\ Forall (call_ok (effective s) (effective (Some cf))) cs
      /\ (forall k : string,
            assoc k (effective s) <> assoc k (effective (Some cf)) -> In k (map call_name cs)).
Proof. exact @changed_announced_once. Qed.
Print Assumptions C17_changed_announced_once.

(** re-ordering the request / target maps of the current and of the new
    configuration (Go's map iteration order) only permutes the announcements *)
Theorem C17_calls_order_independent :
  forall (R O X : Type) (R_eqb : R -> R -> bool) (O_eqb : O -> O -> bool),
    (forall a b : O, O_eqb a b = true <-> a = b) ->
    forall (s s' : state R O X) (cf cf' : config R O X),
      state_ok s -> valid_p false cf -> wf_config cf ->
      state_perm s s' -> config_perm cf cf' ->
      Permutation (handle_diffs R_eqb O_eqb s cf) (handle_diffs R_eqb O_eqb s' cf').
Proof. exact @handle_diffs_order_independent. Qed.
Print Assumptions C17_calls_order_independent.

(** whether Validate fails does not depend on the iteration order either *)
Theorem C17_validate_order_independent :
  forall (R O X : Type) (p : bool) (c c' : config R O X),
    wf_config c ->
    Permutation (c_request c) (c_request c') -> Permutation (c_target c) (c_target c') ->
    (validate_gen p c = None <-> validate_gen p c' = None).
Proof. exact @validate_order_independent. Qed.
Print Assumptions C17_validate_order_independent.

(** soundness of the executable specification K_P used by the correspondence
    run: an observed Load step on which it raises no tag satisfies the gate,
    state, exact-announcement and replay clauses as propositions *)
Theorem C17_K_sound_load :
  forall (st : option cfg) (e0 : ceff) (arg : option cfg) (err : bool) (cs : list ccall)
         (cur st' : option cfg) (rep' : option ceff),
    kstep st (Some e0) (OLoad arg) (RLoad err cs cur) = ([], st', rep') ->
    (err = false ->
       exists cf, arg = Some cf /\ valid_p false cf /\ TargetCfgProofs.newer st cf /\ st' = arg)
    /\ (err = true ->
          st' = st /\ cs = []
          /\ ~ (exists cf, arg = Some cf /\ valid_p true cf /\ TargetCfgProofs.newer st cf))
    /\ cfg_equiv cur (shown st')
    /\ Permutation cs (if err then [] else TargetCfgCheck.eff_diff (eff_of st) (eff_of arg))
    /\ exists e, replay cs e0 = Some e /\ rep' = Some e /\ Permutation e (eff_of st').
Proof. exact kstep_load_sound. Qed.
Print Assumptions C17_K_sound_load.

Theorem C17_K_sound_mutate :
  forall (st : option cfg) (rep : option ceff) (c' : cfg) (cur st' : option cfg) (rep' : option ceff),
    kstep st rep (OMutate c') (RCur cur) = ([], st', rep') ->
    st' = st /\ rep' = rep /\ cfg_equiv cur (shown st).
Proof. exact kstep_mutate_sound. Qed.
Print Assumptions C17_K_sound_mutate.

(** monotonic: a load never lowers the revision of the current configuration
    and never returns it to nil; an applied load on an existing configuration
    strictly raises the revision *)
Theorem C17_load_monotonic :
  forall (R O X : Type) (R_eqb : R -> R -> bool) (O_eqb : O -> O -> bool) (R_empty : R) (O_empty : O)
         (p : bool) (s : state R O X) (arg : option (config R O X)),
    let s' := load_state R_eqb O_eqb R_empty O_empty p s arg in
    rev_le (rev_of s) (rev_of s')
    /\ (load_err R_eqb O_eqb R_empty O_empty p s arg = None ->
        forall cur, s = Some cur ->
        exists cf, arg = Some cf /\ s' = Some (store_gen R_empty O_empty p cf)
                   /\ c_revision cur < c_revision cf).
Proof. exact @load_monotonic. Qed.
Print Assumptions C17_load_monotonic.

(** ... hence along every history of loads *)
Theorem C17_history_monotonic :
  forall (R O X : Type) (R_eqb : R -> R -> bool) (O_eqb : O -> O -> bool) (R_empty : R) (O_empty : O)
         (p : bool) (hs : list (hop R O X)) (s : state R O X),
    forallb is_load hs = true ->
    rev_le (rev_of s) (rev_of (fst (run_gen R_eqb O_eqb R_empty O_empty p s hs))).
Proof. exact @history_monotonic. Qed.
Print Assumptions C17_history_monotonic.

(** ** overlapping Loads on one Config ([lstep]: Validate outside the mutex;
    lock + revision gate; one handler call per step with the mutex held;
    store + unlock; a thread that finds the mutex held does not move) *)

(** any number of threads, ANY schedule, every reachable state: state and
    global handler-call sequence are those of a sequential run of the loads
    that have returned, in the order they returned, followed by a prefix of the
    calls of the load that holds the mutex -- calls of one load are contiguous *)
Theorem C17_conc_invariant :
  forall (R O X : Type) (R_eqb : R -> R -> bool) (O_eqb : O -> O -> bool) (R_empty : R) (O_empty : O)
         (p : bool) (args : list (option (config R O X))) (s0 : state R O X) (sch : list nat),
    let g := lexec R_eqb O_eqb R_empty O_empty p args (ginit s0 (List.length args)) sch in
    g_cfg g = fst (seq_run R_eqb O_eqb R_empty O_empty p args s0 (g_order g))
    /\ g_trace g = snd (seq_run R_eqb O_eqb R_empty O_empty p args s0 (g_order g)) ++ holder_part g
    /\ (forall h : nat,
          g_lock g = Some h ->
          exists (cf : config R O X) (rem : list (call R O)),
            nth_error args h = Some (Some cf)
            /\ load_calls R_eqb O_eqb R_empty O_empty p (g_cfg g) (Some cf) = g_emitted g ++ rem)
    /\ (g_lock g = None -> holder_part g = []).
Proof. exact @conc_invariant. Qed.
Print Assumptions C17_conc_invariant.

(** once all threads have returned: SOME sequential order of all the loads
    explains the final state and the whole call sequence *)
Theorem C17_conc_serialisable :
  forall (R O X : Type) (R_eqb : R -> R -> bool) (O_eqb : O -> O -> bool) (R_empty : R) (O_empty : O)
         (p : bool) (args : list (option (config R O X))) (s0 : state R O X) (sch : list nat),
    let g := lexec R_eqb O_eqb R_empty O_empty p args (ginit s0 (List.length args)) sch in
    all_done g = true ->
    exists order : list nat,
      Permutation order (seq 0 (List.length args))
      /\ g_cfg g = fst (seq_run R_eqb O_eqb R_empty O_empty p args s0 order)
      /\ g_trace g = snd (seq_run R_eqb O_eqb R_empty O_empty p args s0 order).
Proof. exact @conc_serialisable. Qed.
Print Assumptions C17_conc_serialisable.

(** hence [replay_converges] carries over to overlapping Loads: replaying the
    calls in the global order in which they were made yields exactly the
    effective current configuration *)
Theorem C17_conc_replay_converges :
  forall (R O X : Type) (R_eqb : R -> R -> bool) (O_eqb : O -> O -> bool) (R_empty : R) (O_empty : O)
         (p : bool) (args : list (option (config R O X))) (s0 : state R O X),
    (forall a b : R, R_eqb a b = true <-> a = b) ->
    (forall a b : O, O_eqb a b = true <-> a = b) ->
    forall sch : list nat,
      state_ok s0 ->
      Forall (fun a : option (config R O X) =>
                match a with Some cf => wf_config cf | None => True end) args ->
      let g := lexec R_eqb O_eqb R_empty O_empty p args (ginit s0 (List.length args)) sch in
      all_done g = true ->
      exists e : eff R O,
        replay (map snd (g_trace g)) (effective s0) = Some e
        /\ Permutation e (effective (g_cfg g)).
Proof. exact @conc_replay_converges. Qed.
Print Assumptions C17_conc_replay_converges.

(** K_P on two overlapping Loads: no tag => the observed global order is
    load-contiguous, the second load returned early only if refused before the
    mutex, each load passes K_P on its own, the replay in call order is right *)
Theorem C17_K_sound_par :
  forall (st : option cfg) (rep : option ceff) (a b : option cfg) (early : bool)
         (tr : list (nat * ccall)) (ea eb : bool) (cur st' : option cfg) (rep' : option ceff),
    kstep st rep (OPar a b) (RPar early tr ea eb cur) = ([], st', rep') ->
    contiguous (map fst tr) = true
    /\ (early = true ->
        eb = true /\ match b with Some c => ~ valid_p true c | None => True end)
    /\ exists st1 rep1 rep2,
         kstep st rep (OLoad a)
               (RLoad ea (calls_of 0 tr) (shown (if admissible st a ea then a else st)))
         = ([], st1, rep1)
         /\ kstep st1 rep1 (OLoad b) (RLoad eb (calls_of 1 tr) cur) = ([], st', rep2)
         /\ rep' = replay_step rep (map snd tr)
         /\ rep_ok rep' st' = true.
Proof. exact kstep_par_sound. Qed.
Print Assumptions C17_K_sound_par.

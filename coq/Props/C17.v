(** C17 -- target config loads are monotonic and announced as exact diffs.
    This file holds only the property theorems, each closed by [exact] of a
    lemma proved elsewhere, with [Print Assumptions] beneath. *)
From Gnmi Require Import Base.Prelude TargetCfg.TargetCfgModel TargetCfg.TargetCfgProofs.

Theorem C17_rejected_unchanged :
  forall (R O X : Type) (R_eqb : R -> R -> bool) (O_eqb : O -> O -> bool) (R_empty : R) (O_empty : O)
         (p : bool) (s : state R O X) (arg : option (config R O X)),
    snd (fst (load_gen R_eqb O_eqb R_empty O_empty p s arg)) <> None ->
    fst (fst (load_gen R_eqb O_eqb R_empty O_empty p s arg)) = s
    /\ snd (load_gen R_eqb O_eqb R_empty O_empty p s arg) = [].
Proof. exact @load_rejected_unchanged. Qed.
Print Assumptions C17_rejected_unchanged.

(** C17 -- target config loads are monotonic and announced as exact diffs.
    This file holds only the property theorems, each closed by [exact] of a
    lemma proved elsewhere, with [Print Assumptions] beneath. *)
From Gnmi Require Import Base.Prelude TargetCfg.TargetCfgModel TargetCfg.TargetCfgProofs.

Theorem C17_rejected_unchanged :
  forall (R O X : Type) (R_eqb : R -> R -> bool) (O_eqb : O -> O -> bool)
         (s : state R O X) (arg : option (config R O X)),
    snd (fst (load R_eqb O_eqb s arg)) <> None ->
    fst (fst (load R_eqb O_eqb s arg)) = s /\ snd (load R_eqb O_eqb s arg) = [].
Proof. exact @load_rejected_unchanged. Qed.
Print Assumptions C17_rejected_unchanged.

(** C06 -- streaming filter is consistent with queries; one delivery per
    notification.  This file holds only the property theorems, each closed by
    [exact] of a lemma proved in Match/MatchProofs.v, with [Print Assumptions]
    beneath.  Non-vacuity examples: MatchProofs.ex_*.

    The model follows the code as it is now (repository HEAD 434b003, which
    contains the three fixes this check led to: 0aa714c, 601ff89, 434b003).
    For each of the three clauses that were false before, the file holds the
    full clause about the current model and, as a regression witness, the
    refutation over the model of the code before the fix ([_unpatched_refuted]:
    the [_gen] functions with the flag [false]). *)
From Gnmi Require Import Base.Prelude Base.Lts CTree.CTreeModel Path.PathModel
  Match.MatchModel Match.MatchCheck Match.MatchProofs.

(** ** offered iff compatible *)

(** For every trie reachable from the empty one by any sequence of
    registrations and removals (any paths, any clients, removals of pairs
    never registered or already removed included), Match.Update offers the
    node to client c iff some registered path of c agrees with the update path
    on every element they both have. *)
Theorem C06_offered_iff_compatible :
  forall (h : list hop) (p : path) (c : cid),
    In c (match_update (run_hist h) p) <->
    exists q, In (q, c) (regs h) /\ compat q p = true.
Proof. exact offered_iff_compatible. Qed.
Print Assumptions C06_offered_iff_compatible.

(** The same for a notification passed through subscribe.UpdateNotification
    (whether or not the [updated] set is allocated). *)
Theorem C06_notification_offered_iff :
  forall (h : list hop) (prefix : path) (paths : list path) (c : cid),
    In c (update_notification (run_hist h) prefix paths) <->
    exists p q, In p paths /\ In (q, c) (regs h) /\ compat q (prefix ++ p) = true.
Proof. exact (notification_offered_iff fixed_C06_1). Qed.
Print Assumptions C06_notification_offered_iff.

(** Go's random map iteration order cannot change who is called how often. *)
Theorem C06_map_order_irrelevant :
  forall (vs vs' : list cid) (u : option (list cid)),
    Permutation vs vs' -> Permutation (fst (deliver vs u)) (fst (deliver vs' u)).
Proof. exact deliver_perm. Qed.
Print Assumptions C06_map_order_irrelevant.

(** ** every leaf a query would return is streamed *)

(** ctree.Query's relation is contained in the streaming relation. *)
Theorem C06_query_relation_contained :
  forall q p : path, qmatch q p = true -> compat q p = true.
Proof. exact qmatch_compat. Qed.
Print Assumptions C06_query_relation_contained.

(** Every entry [e] of a subscription list, with or without a path, on any
    well-formed trie: when CompletePath accepts it ([fp] is what the snapshot
    queries) and the targets agree (equal, or [*] on either side), every index
    path [ip] the query selects is offered to the client when it is updated. *)
Theorem C06_query_implies_stream :
  forall b c pre ents b' qs e fp t' ip,
    wf b ->
    add_subscription b c pre ents = Some (b', qs) ->
    In e ents ->
    complete_path pre (gp_of_opt e) = Ok fp ->
    gp_target pre <> "" ->
    (gp_target pre = t' \/ gp_target pre = "*" \/ t' = "*") ->
    qmatch fp ip = true ->
    In c (visit b' (t' :: ip)).
Proof. exact (query_implies_stream_patched fixed_C06_3). Qed.
Print Assumptions C06_query_implies_stream.

(** Before 601ff89 (entries without a path were not registered) the clause was false: *)
Theorem C06_query_implies_stream_unpatched_refuted :
  exists c pre ents b' qs e fp t' ip,
    add_subscription_gen false false empty_branch c pre ents = Some (b', qs) /\
    In e ents /\ complete_path pre (gp_of_opt e) = Ok fp /\
    gp_target pre = t' /\ qmatch fp ip = true /\
    ~ In c (visit b' (t' :: ip)).
Proof. exact query_implies_stream_refuted. Qed.
Print Assumptions C06_query_implies_stream_unpatched_refuted.

(** ** at most once per notification *)

(** Any trie, any prefix, any number of updates/deletes: each client at most once. *)
Theorem C06_at_most_once :
  forall (b : branch) (prefix : path) (paths : list path) (c : cid),
    (count_occ Nat.eq_dec (update_notification b prefix paths) c <= 1)%nat.
Proof. exact at_most_once_patched. Qed.
Print Assumptions C06_at_most_once.

(** Before 0aa714c (set allocated only for two or more updates/deletes) it was false: *)
Theorem C06_at_most_once_unpatched_refuted :
  exists h prefix paths c,
    (2 <= count_occ Nat.eq_dec (update_notification_gen false (run_hist h) prefix paths) c)%nat.
Proof. exact at_most_once_refuted. Qed.
Print Assumptions C06_at_most_once_unpatched_refuted.

(** ** never after removal; other subscribers unaffected *)

(** After the removal closure of (q, c) has run, c is offered an update only
    through another of its registered paths; for every history. *)
Theorem C06_no_delivery_after_remove :
  forall (h : list hop) (q : path) (c : cid) (p : path),
    (forall q', In (q', c) (regs h) -> q' <> q -> compat q' p = false) ->
    ~ In c (match_update (run_hist (h ++ [HRem q c])) p).
Proof. exact no_delivery_after_remove. Qed.
Print Assumptions C06_no_delivery_after_remove.

(** Other clients -- registered with the same path or any other -- see no change. *)
Theorem C06_remove_isolated :
  forall (h : list hop) (q : path) (c : cid) (p : path) (c' : cid),
    c' <> c ->
    (In c' (match_update (run_hist (h ++ [HRem q c])) p) <-> In c' (match_update (run_hist h) p)).
Proof. exact remove_isolated. Qed.
Print Assumptions C06_remove_isolated.

(** The removal closure is idempotent (on the trie itself, not only observably). *)
Theorem C06_remove_idempotent :
  forall (h : list hop) (q : path) (c : cid),
    remove_root q c (remove_root q c (run_hist h)) = remove_root q c (run_hist h).
Proof. exact remove_idempotent_hist. Qed.
Print Assumptions C06_remove_idempotent.

(** Pruning: once nothing is registered the trie is the empty trie again. *)
Theorem C06_no_leak :
  forall h : list hop, (forall q c, ~ In (q, c) (regs h)) -> run_hist h = empty_branch.
Proof. exact no_leak. Qed.
Print Assumptions C06_no_leak.

(** ** the same under concurrency (lock discipline of Match.mu, MatchModel.cstep)

    Any number of Update / UpdateOnce calls, removal closures and AddQuery
    calls, every interleaving of their atomic steps (RLock, each client
    callback, RUnlock; Lock + change, Unlock).  A schedule is a list of thread
    numbers; [reachable_from (cstep true) (cinit t0 thr) s] ranges over all of
    them. *)

(** Every callback is made to a client that is registered, in the trie as it
    is at that moment, on a path compatible with the update. *)
Theorem C06_concurrent_delivery_current :
  forall t0 thr s tid p upd c l,
    wf t0 -> forallb thread_idle thr = true ->
    reachable_from (cstep true) (cinit t0 thr) s ->
    nth_error (cs_thr s) tid = Some (TUpd p upd (UHold (c :: l))) ->
    exists q, In c (clients_at (cs_trie s) q) /\ compat q p = true.
Proof. exact concurrent_delivery_current. Qed.
Print Assumptions C06_concurrent_delivery_current.

(** While a call is handing a notification out, no removal closure (and no
    AddQuery) can enter its critical section, hence none can return. *)
Theorem C06_concurrent_remove_blocked :
  forall t0 thr s u p upd l tid,
    wf t0 -> forallb thread_idle thr = true ->
    reachable_from (cstep true) (cinit t0 thr) s ->
    nth_error (cs_thr s) u = Some (TUpd p upd (UHold l)) ->
    (forall q c, nth_error (cs_thr s) tid = Some (TRem q c WIdle) -> cstep true s tid = None) /\
    (forall q c, nth_error (cs_thr s) tid = Some (TAdd q c WIdle) -> cstep true s tid = None).
Proof. exact concurrent_remove_blocked. Qed.
Print Assumptions C06_concurrent_remove_blocked.

(** Once the removal closure of (q, c) has RETURNED (and no AddQuery for the
    same pair is among the calls), every later callback to c -- the next step
    of a call whose pending list starts with c -- is justified by another path
    of c, registered at that moment and compatible with the update. *)
Theorem C06_no_delivery_after_remove_concurrent :
  forall t0 thr s r q c u p upd l,
    wf t0 -> forallb thread_idle thr = true ->
    (forall st, ~ In (TAdd q c st) thr) ->
    reachable_from (cstep true) (cinit t0 thr) s ->
    nth_error (cs_thr s) r = Some (TRem q c WDone) ->
    nth_error (cs_thr s) u = Some (TUpd p upd (UHold (c :: l))) ->
    exists q', q' <> q /\ In c (clients_at (cs_trie s) q') /\ compat q' p = true.
Proof. exact no_delivery_after_remove_concurrent. Qed.
Print Assumptions C06_no_delivery_after_remove_concurrent.

(** Registration is atomic w.r.t. other subscribers' calls: once AddQuery(q, c)
    has RETURNED, and until a removal closure of that pair is called, every
    Update / UpdateOnce of a compatible path that starts is going to call c
    (unless its [updated] set already holds c) -- whatever other subscribers
    register or remove on shared prefixes meanwhile, in every interleaving. *)
Theorem C06_registered_until_removed_concurrent :
  forall t0 thr s a q c u p upd s',
    wf t0 -> forallb thread_idle thr = true ->
    reachable_from (cstep true) (cinit t0 thr) s ->
    nth_error (cs_thr s) a = Some (TAdd q c WDone) ->
    rem_idle q c (cs_thr s) ->
    compat q p = true ->
    nth_error (cs_thr s) u = Some (TUpd p upd UIdle) ->
    cstep true s u = Some s' ->
    exists l, nth_error (cs_thr s') u = Some (TUpd p upd (UHold l)) /\
              (In c l \/ exists set, upd = Some set /\ In c set).
Proof. exact registered_until_removed_concurrent. Qed.
Print Assumptions C06_registered_until_removed_concurrent.

(** The variant of AddQuery that finds the existing part of the query under
    the read lock and attaches under the write lock without looking again
    loses the registration when another subscriber's removal prunes the node
    found in between; the code as it is registers the client. *)
Theorem C06_split_add_refuted :
  exists t q c qy cy,
    wf t /\
    let j := prefix_len t q in
    let t1 := remove_root qy cy t in
    (forall q', ~ In c (clients_at (split_add_attach j q c t1) q')) /\
    In c (clients_at (add_query q c t1) q).
Proof. exact split_add_refuted. Qed.
Print Assumptions C06_split_add_refuted.

(** The variant that collects the clients under the read lock and calls them
    after RUnlock violates it: the removal closure returns and the client is
    called afterwards although it is registered nowhere. *)
Theorem C06_concurrent_unlocked_refuted :
  exists t0 thr sch s,
    wf t0 /\ forallb thread_idle thr = true /\
    run (cstep false) (cinit t0 thr) sch = Some s /\
    cs_trace s = [EReturned 1%nat; EDeliver 0%nat 2%nat] /\
    (forall q, ~ In 2%nat (clients_at (cs_trie s) q)).
Proof. exact concurrent_unlocked_refuted. Qed.
Print Assumptions C06_concurrent_unlocked_refuted.

(** Subscribe-level removal: after addSubscription followed by its removal
    closure the registrations are those from before, minus this client's own
    pairs -- so the client is offered nothing through the removed list, and
    every other client is unaffected. *)
Theorem C06_unsubscribe_clean :
  forall b c pre ents b' qs q' c',
    wf b ->
    add_subscription b c pre ents = Some (b', qs) ->
    (In c' (clients_at (remove_all qs c b') q') <->
     In c' (clients_at b q') /\ ~ (c' = c /\ In q' (sub_queries fixed_C06_2 pre ents))).
Proof. exact (subscription_removed_gen fixed_C06_2). Qed.
Print Assumptions C06_unsubscribe_clean.

(** Before 434b003 (captured slices shared one backing array) the client was
    still offered updates after its subscription had been removed: *)
Theorem C06_unsubscribe_unpatched_refuted :
  exists c pre ents b' qs p,
    add_subscription_gen false false empty_branch c pre ents = Some (b', qs) /\
    In c (match_update (remove_all qs c b') p).
Proof. exact unsubscribe_refuted. Qed.
Print Assumptions C06_unsubscribe_unpatched_refuted.

(** Registration: the
    trie after addSubscription holds exactly the old registrations plus the
    client on each entry's path. *)
Theorem C06_subscribe_registers :
  forall b c pre ents b' qs q' c',
    add_subscription b c pre ents = Some (b', qs) ->
    (In c' (clients_at b' q') <->
     In c' (clients_at b q') \/ (c' = c /\ In q' (sub_queries fixed_C06_2 pre ents))).
Proof. exact subscribe_registers. Qed.
Print Assumptions C06_subscribe_registers.

(** addSubscription is defined for every prefix (no length bound since 434b003). *)
Theorem C06_add_subscription_total :
  forall b c pre ents, exists b' qs, add_subscription b c pre ents = Some (b', qs).
Proof. exact (add_subscription_total fixed_C06_2). Qed.
Print Assumptions C06_add_subscription_total.

(** ** the executable specification used on the implementation's observations *)

Theorem C06_spec_sound :
  forall s np ps offers hits c,
    mem c (s_unspec s) = false ->
    judge s true np ps offers hits c = [] ->
    let live := regs_of c ps (s_reg s) in
    let n := count_of c offers in
    (live = [] <-> n = 0%nat) /\ (n <= 1)%nat /\ (mem c hits = true -> n <> 0%nat).
Proof. exact judge_sound. Qed.
Print Assumptions C06_spec_sound.

(** C06 -- streaming filter is consistent with queries; one delivery per
    notification.  This file holds only the property theorems, each closed by
    [exact] of a lemma proved elsewhere, with [Print Assumptions] beneath. *)
From Gnmi Require Import Base.Prelude CTree.CTreeModel Path.PathModel Match.MatchModel Match.MatchProofs.

Theorem C06_qmatch_implies_compat :
  forall q p : path, qmatch q p = true -> compat q p = true.
Proof. exact qmatch_compat. Qed.
Print Assumptions C06_qmatch_implies_compat.

(** C03 -- the cache change feed reproduces the cache exactly.
    Only the property theorems, each closed by [exact] of a lemma proved in
    Cache/FeedReplay.v (or CacheProofs.v), with [Print Assumptions] beneath.

    Vocabulary: [tfeed t H] is everything Target.GnmiUpdate handed to the
    client callback over the history H, in order; [replay] (C03Check.v) applies
    those notifications to an empty map keyed by (target, index path): an
    update sets its leaf, an atomic update replaces what is at or below its
    path as one unit, a delete removes what its path matches; [rel ed] relates
    a replayed entry to a stored one: both absent, or the same notification,
    or -- event-driven emulation [ed] -- two non-atomic notifications with
    equal values, the replayed one not newer.  [good_notif name A n]: see
    FeedReplay.v ([A] fixes which index paths hold atomic containers). *)
From Gnmi Require Import Base.Prelude CTree.CTreeModel CTree.CTreeProofs Path.PathModel
  Cache.CacheModel Cache.CacheProofs Cache.C02Check Cache.C03Check Cache.FeedReplay.
Local Open Scope Z_scope.

(** for every history on a fresh target, hence at every quiescent point *)
Theorem C03_feed_replays_cache :
  forall name A cfg (H : hist),
    (forall h, In h H -> good_notif name A (snd h)) ->
    no_panic (new_target name cfg) H ->
    forall s, rel (cfg_event_driven cfg)
                  (rfind (replay (tfeed (new_target name cfg) H)) name s)
                  (lookup (t_tree (trun (new_target name cfg) H)) s).
Proof. exact feed_replays_target. Qed.
Print Assumptions C03_feed_replays_cache.

(** the inductive step, from any state the invariant holds in (covers states
    reached through calls this file does not model as history items) *)
Theorem C03_update_keeps_replay_invariant :
  forall name A t m now n t' gs r,
    Inv name A t m -> good_notif name A n -> target_gnmi_update t now n = (t', gs, r) ->
    (forall w, r <> GPanic w) ->
    Inv name A t' (fold_left feed_apply (render_feed gs) m).
Proof. exact target_update_inv. Qed.
Print Assumptions C03_update_keeps_replay_invariant.

(** FULL STATEMENT (false of the model as the code is now, see the refuted
    lemmas): the same without the clauses of [good_unit] that exclude shared
    prefix slices with spare capacity, atomic and scalar use of one index path,
    and origins carried by the update path. *)
Theorem C03_feed_replays_refuted_alias :
  if defect_c03_1_alias then exists s, replay_differs wit_alias s else True.
Proof. exact feed_replays_refuted_alias. Qed.
Print Assumptions C03_feed_replays_refuted_alias.

Theorem C03_feed_replays_refuted_atomic :
  if defect_c03_2_atomic_suppress then exists s, replay_differs wit_atomic s else True.
Proof. exact feed_replays_refuted_atomic. Qed.
Print Assumptions C03_feed_replays_refuted_atomic.

Theorem C03_feed_replays_refuted_origin : exists s, replay_differs wit_origin s.
Proof. exact feed_replays_refuted_origin. Qed.
Print Assumptions C03_feed_replays_refuted_origin.

Theorem C03_withheld_only_if :
  forall t now n t' r,
    wf_tree (t_tree t) -> gnmi_update1 t now n = (t', r) ->
    match r with
    | Ok (Some nd) =>
        nd = n /\ exists p, unit_index n = Ok p /\ lookup (t_tree t') p = Some n
    | Ok None =>
        exists p old, unit_index n = Ok p /\ lookup (t_tree t) p = Some old /\
          lookup (t_tree t') p = Some n /\
          cfg_event_driven (t_cfg t) = true /\ n_atomic n = false /\
          value_equal (first_val old) (first_val n) = true /\
          (defect_c03_2_atomic_suppress = true \/ n_atomic old = false)
    | Err _ => t_tree t' = t_tree t
    | Panic _ => True
    end.
Proof. exact withheld_only_if. Qed.
Print Assumptions C03_withheld_only_if.

Theorem C03_atomic_unit :
  forall t now n t' gs r,
    wf_tree (t_tree t) -> n_atomic n = true -> target_gnmi_update t now n = (t', gs, r) ->
    (gs = [] \/ gs = [FUpd n]) /\
    (forall p, unit_index n = Ok p -> forall q, q <> p -> lookup (t_tree t') q = lookup (t_tree t) q) /\
    (gs = [FUpd n] -> exists p, unit_index n = Ok p /\ lookup (t_tree t') p = Some n).
Proof. exact atomic_unit. Qed.
Print Assumptions C03_atomic_unit.

(** a notification with several updates and deletes acts on every leaf as its
    units one at a time, updates first, then deletes (stored state; the feed
    side is C03_update_keeps_replay_invariant, whose proof replays the groups
    in that order) *)
Theorem C03_multi_is_sequence_of_units :
  forall t now n t' fd r,
    wf_tree (t_tree t) -> target_gnmi_update t now n = (t', fd, r) -> clean r ->
    forall q, lookup (t_tree t') q = lookup_after t now q (units n) (lookup (t_tree t) q).
Proof. intros t now n t' fd r Hwf E Hc. exact (proj2 (proj2 (proj2 (notif_leaf t now n t' fd r Hwf E Hc)))). Qed.
Print Assumptions C03_multi_is_sequence_of_units.

(** a delete hands the client exactly the removed leaves (C02_delete_exact
    gives the removed set); without slice aliasing each delete notification is
    built from its own stored notification *)
Theorem C03_delete_feed_is_per_leaf :
  forall removed ts,
    Forall (fun d => alias_write d = None) removed ->
    render_deletes removed ts = map (fun d => mk_delete d ts (del_path d)) removed.
Proof. exact render_alias_free. Qed.
Print Assumptions C03_delete_feed_is_per_leaf.

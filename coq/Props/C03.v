(** C03 -- the cache change feed reproduces the cache exactly.
    Only the property theorems, each closed by [exact] of a lemma proved in
    Cache/FeedReplay.v (or CacheProofs.v), with [Print Assumptions] beneath.

    Vocabulary: [tfeed t H] is everything Target.GnmiUpdate handed to the
    client callback over the history H, in order; [replay] (C03Check.v) applies
    those notifications to an empty map keyed by (target, index path): an
    update sets its leaf, an atomic update replaces what is at or below its
    path as one unit, a delete removes what its path matches; [rel ed] relates
    a replayed entry to a stored one: both absent, or the same notification,
    or -- event-driven emulation [ed] -- two non-atomic notifications with
    equal values, the replayed one not newer.  [good_notif name n]: every
    update unit of n is addressed to [name], its key maps are maps, its index
    path has no "*", and the delete notification built from it addresses its
    own index path (FeedReplay.v). *)
From Gnmi Require Import Base.Prelude CTree.CTreeModel CTree.CTreeProofs Path.PathModel
  Cache.CacheModel Cache.CacheProofs Cache.C02Check Cache.C03Check Cache.FeedReplay.
From Gnmi Require Cache.SliceHeap Cache.SliceHeapProofs.
Local Open Scope Z_scope.

(** the whole cache: every history of GnmiUpdate / Reset / Remove / Add (of an
    absent target) / Sync / Connect / ConnectError / UpdateMetadata calls over
    any number of targets, hence every prefix of it (every quiescent point):
    the replayed callback stream stands for every target's stored leaves,
    metadata leaves included, and holds nothing for an absent target.
    [good_ops]: each notification's update units are good for the target it
    names, Add only of an absent target, no call panics. *)
Theorem C03_feed_replays_cache :
  forall cfg names ops,
    NoDup names -> ~ In "" names -> good_ops (new_cache cfg names) ops ->
    forall name,
      match assoc name (c_targets (crun (new_cache cfg names) ops)) with
      | Some t => forall s, rel (cfg_event_driven (t_cfg t))
                                (rfind (replay (cfeed_hist (new_cache cfg names) ops)) name s)
                                (lookup (t_tree t) s)
      | None => forall s, rfind (replay (cfeed_hist (new_cache cfg names) ops)) name s = None
      end.
Proof. exact feed_replays_cache. Qed.
Print Assumptions C03_feed_replays_cache.

(** every single call keeps the replay invariant (the inductive step) *)
Theorem C03_call_keeps_replay_invariant :
  forall c m o c' r mf,
    CInv c m -> good_op c o -> mstep c o = (c', r, mf) -> r <> RPanic ->
    CInv c' (fold_left feed_apply (cfeed mf) m).
Proof. exact cache_step_inv. Qed.
Print Assumptions C03_call_keeps_replay_invariant.

(** Reset: metadata refreshed, every root deleted and announced *)
Theorem C03_reset_keeps_replay_invariant :
  forall name, name <> "" ->
  forall m0 t now t' feed,
    Inv name t m0 -> t_name t = name -> target_reset t now = (t', feed, None) ->
    Inv name t' (fold_left feed_apply feed m0) /\ Forall (ft name) feed /\ t_name t' = name.
Proof. exact reset_inv. Qed.
Print Assumptions C03_reset_keeps_replay_invariant.

(** one target, GnmiUpdate histories (the statement above restricted) *)
Theorem C03_feed_replays_target :
  forall name cfg (H : hist),
    (forall h, In h H -> good_notif name (snd h)) ->
    no_panic (new_target name cfg) H ->
    forall s, rel (cfg_event_driven cfg)
                  (rfind (replay (tfeed (new_target name cfg) H)) name s)
                  (lookup (t_tree (trun (new_target name cfg) H)) s).
Proof. exact feed_replays_target. Qed.
Print Assumptions C03_feed_replays_cache.

(** the inductive step, from any state the invariant holds in (covers states
    reached through calls this file does not model as history items) *)
Theorem C03_update_keeps_replay_invariant :
  forall name t m now n t' gs r,
    Inv name t m -> good_notif name n -> target_gnmi_update t now n = (t', gs, r) ->
    (forall w, r <> GPanic w) ->
    Inv name t' (fold_left feed_apply (render_feed gs) m).
Proof. exact target_update_inv. Qed.
Print Assumptions C03_update_keeps_replay_invariant.

(** FULL STATEMENT (false of the model, see C03_feed_replays_refuted_origin):
    the same without the clause of [good_unit] that excludes origins carried
    by the update path / mixed Elem-Element forms (known finding KF-C03-3).
    The two statements below were the refutations for the two defects fixed
    in /repo (20c4a71, 4775c12); they are stated under the model switches,
    which are off, and document what the witnesses showed. *)
Theorem C03_feed_replays_refuted_alias :
  if defect_c03_1_alias then exists s, replay_differs wit_alias s else True.
Proof. exact feed_replays_refuted_alias. Qed.
Print Assumptions C03_feed_replays_refuted_alias.

Theorem C03_feed_replays_refuted_atomic :
  if defect_c03_2_atomic_suppress then exists s, replay_differs wit_atomic s else True.
Proof. exact feed_replays_refuted_atomic. Qed.
Print Assumptions C03_feed_replays_refuted_atomic.

Theorem C03_feed_replays_refuted_origin : exists s, replay_differs wit_origin s.
Proof. exact feed_replays_refuted_origin. Qed.
Print Assumptions C03_feed_replays_refuted_origin.

Theorem C03_withheld_only_if :
  forall t now n t' r,
    wf_tree (t_tree t) -> gnmi_update1 t now n = (t', r) ->
    match r with
    | Ok (Some nd) =>
        nd = n /\ exists p, unit_index n = Ok p /\ lookup (t_tree t') p = Some n
    | Ok None =>
        exists p old, unit_index n = Ok p /\ lookup (t_tree t) p = Some old /\
          lookup (t_tree t') p = Some n /\
          cfg_event_driven (t_cfg t) = true /\ n_atomic n = false /\
          value_equal (first_val old) (first_val n) = true /\
          (defect_c03_2_atomic_suppress = true \/ n_atomic old = false)
    | Err _ => t_tree t' = t_tree t
    | Panic _ => True
    end.
Proof. exact withheld_only_if. Qed.
Print Assumptions C03_withheld_only_if.

Theorem C03_atomic_unit :
  forall t now n t' gs r,
    wf_tree (t_tree t) -> n_atomic n = true -> target_gnmi_update t now n = (t', gs, r) ->
    (gs = [] \/ gs = [FUpd n]) /\
    (forall p, unit_index n = Ok p -> forall q, q <> p -> lookup (t_tree t') q = lookup (t_tree t) q) /\
    (gs = [FUpd n] -> exists p, unit_index n = Ok p /\ lookup (t_tree t') p = Some n).
Proof. exact atomic_unit. Qed.
Print Assumptions C03_atomic_unit.

(** a notification with several updates and deletes acts on every leaf as its
    units one at a time, updates first, then deletes (stored state; the feed
    side is C03_update_keeps_replay_invariant, whose proof replays the groups
    in that order) *)
Theorem C03_multi_is_sequence_of_units :
  forall t now n t' fd r,
    wf_tree (t_tree t) -> target_gnmi_update t now n = (t', fd, r) -> clean r ->
    forall q, lookup (t_tree t') q = lookup_after t now q (units n) (lookup (t_tree t) q).
Proof. intros t now n t' fd r Hwf E Hc. exact (proj2 (proj2 (proj2 (notif_leaf t now n t' fd r Hwf E Hc)))). Qed.
Print Assumptions C03_multi_is_sequence_of_units.

(** ... and, with the future check disabled, exactly as its single
    notifications sent one after the other through the same entry point *)
Theorem C03_multi_is_sequence :
  forall t now n q,
    wf_tree (t_tree t) -> thr_of t <= 0 ->
    n_atomic n = false -> (2 <= List.length (n_upd n) + List.length (n_del n))%nat ->
    clean (tres t (now, n)) -> clean_history t (map (pair now) (singles n)) ->
    lookup (t_tree (tstep t (now, n))) q =
    lookup (t_tree (trun t (map (pair now) (singles n)))) q.
Proof. exact multi_is_sequence. Qed.
Print Assumptions C03_multi_is_sequence.

(** FULL STATEMENT (without [thr_of t <= 0]) is false: inside a multi
    notification the latest accepted timestamp moves only after the whole
    notification, so with a future threshold a later update of the same
    notification can be refused where the same update sent on its own is
    accepted *)
Theorem C03_multi_is_sequence_refuted :
  wf_tree (t_tree wit_seq_t) /\ thr_of wit_seq_t = 2 /\
  clean (tres wit_seq_t (0, wit_seq_n)) /\ clean_history wit_seq_t (map (pair 0) (singles wit_seq_n)) /\
  lookup (t_tree (tstep wit_seq_t (0, wit_seq_n))) ["a"; "c"] <>
  lookup (t_tree (trun wit_seq_t (map (pair 0) (singles wit_seq_n)))) ["a"; "c"].
Proof. exact multi_is_sequence_refuted. Qed.
Print Assumptions C03_multi_is_sequence_refuted.

(** a delete hands the client exactly the removed leaves (C02_delete_exact
    gives the removed set), each delete notification built from its own stored
    notification whatever slices the stored prefixes share *)
Theorem C03_delete_feed_is_per_leaf :
  forall removed ts,
    render_deletes removed ts = map (fun d => mk_delete d ts (del_path d)) removed.
Proof. exact render_alias_free. Qed.
Print Assumptions C03_delete_feed_is_per_leaf.

(** two concurrent writers of one target: with the per-target write lock held
    across [decide; write; announce] (b865e5c) every schedule of the two
    critical sections ends in the state and feed of one of the two sequential
    orders, for ANY sequential call semantics [f] ... *)
Theorem C03_locked_writers_serialise :
  forall (S F O : Type) (f : S -> O -> S * list F) (op : bool -> O) (s0 : S) sched st,
    trun2 f op true sched (tinit s0) = Some st ->
    (sh st, fd st) = seqrun f op s0 (ord st) /\
    (w_pc (wt st) = 4%nat -> w_pc (wf st) = 4%nat -> ord st = [true; false] \/ ord st = [false; true]).
Proof. intros S F O f op s0 sched st. exact (locked_writers_serialise f op s0 true sched st eq_refl). Qed.
Print Assumptions C03_locked_writers_serialise.

(** ... in particular for two calls on the cache model *)
Theorem C03_cache_writers_serialise :
  forall (c0 : cache) (a b : cop) sched st,
    trun2 (fun c o => let '(c', _, mf) := mstep c o in (c', cfeed mf)) (fun i : bool => if i then a else b) true
          sched (tinit c0) = Some st ->
    w_pc (wt st) = 4%nat -> w_pc (wf st) = 4%nat ->
    let g := fun c o => let '(c', _, mf) := mstep c o in (c', cfeed mf) in
    (sh st, fd st) = seqrun g (fun i : bool => if i then a else b) c0 [true; false] \/
    (sh st, fd st) = seqrun g (fun i : bool => if i then a else b) c0 [false; true].
Proof. exact cache_writers_serialise. Qed.
Print Assumptions C03_cache_writers_serialise.

(** ... and without the lock the decision is stale at commit time (refuted:
    stored 50, writers 100 and 200, the leaf ends at 100) *)
Theorem C03_unlocked_lost_update :
  let f := fun (s v : Z) => if Z.ltb s v then (v, [v]) else (s, []) in
  let op := fun i : bool => if i then 100 else 200 in
  exists sched st,
    trun2 f op false sched (tinit 50) = Some st /\
    w_pc (wt st) = 4%nat /\ w_pc (wf st) = 4%nat /\
    (sh st, fd st) <> seqrun f op 50 [true; false] /\
    (sh st, fd st) <> seqrun f op 50 [false; true] /\ sh st = 100.
Proof. exact unlocked_lost_update. Qed.
Print Assumptions C03_unlocked_lost_update.

(** every update unit the cache stores and hands to the feed carries no delete
    (so the consumer model of C03Check -- update part first, then the deletes of
    the same notification, as the gNMI client applies them -- meets only
    notifications with one of the two; the clause [n_del v = []] of [good_unit]
    is therefore no assumption on the inputs) *)
Theorem C03_units_carry_no_delete :
  forall n m, In (UUpd m) (units n) -> n_del m = [].
Proof. exact units_carry_no_delete. Qed.
Print Assumptions C03_units_carry_no_delete.

(** FULL STATEMENT (with [good_op (OUpdT _ tgt n)] weakened to allow a prefix
    without a target) is false: a target-less write through the exported Target
    handle is stored in the handle's target but announced without one (known
    finding KF-C03-5) *)
Theorem C03_feed_replays_refuted_handle :
  exists t, assoc "t" (c_targets (crun (new_cache wit_cfg ["t"]) wit_handle_ops)) = Some t /\
    lookup (t_tree t) ["b"] <> None /\
    rfind (replay (cfeed_hist (new_cache wit_cfg ["t"]) wit_handle_ops)) "t" ["b"] = None /\
    rfind (replay (cfeed_hist (new_cache wit_cfg ["t"]) wit_handle_ops)) "" ["b"] <> None.
Proof. exact feed_replays_refuted_handle. Qed.
Print Assumptions C03_feed_replays_refuted_handle.

(** * input_unmodified over the slice-heap model (Cache/SliceHeap.v)

    [heap] = backing arrays, a slice = (array id, offset, len, cap), [append]
    writes in place when len < cap.  [dsrc_ok h d]: the two slices of a stored
    notification name arrays of [h] -- nothing else is assumed: any number of
    notifications may share one prefix slice, with ARBITRARY spare capacity,
    any offsets, any growth policy [extra] of the runtime. *)

(** (a) frame: after gnmiRemove has built its delete notifications (HEAD), every
    array that existed before -- every cell a caller can reach through any
    slice [s], spare capacity included -- is unchanged *)
Theorem C03_input_unmodified_frame :
  forall (A : Type) (extra : nat -> nat -> nat) (ds : list (SliceHeap.dsrc A)) h h' os,
    Forall (SliceHeapProofs.dsrc_ok h) ds ->
    SliceHeap.build_deletes (SliceHeap.to_delete_fixed extra) h ds = (h', os) ->
    (forall id, (id < List.length h)%nat -> SliceHeap.get_arr h' id = SliceHeap.get_arr h id) /\
    (forall s, (SliceHeap.s_id s < List.length h)%nat ->
               SliceHeap.sreach h' s = SliceHeap.sreach h s /\ SliceHeap.sread h' s = SliceHeap.sread h s).
Proof. exact (@SliceHeapProofs.deletes_frame). Qed.
Print Assumptions C03_input_unmodified_frame.

(** (b) the k delete notifications, read after ALL were built, carry the k paths
    (prefix elements ++ path elements) of the k removed leaves, in order: no
    later append overwrites an earlier result *)
Theorem C03_input_unmodified_paths :
  forall (A : Type) (extra : nat -> nat -> nat) (ds : list (SliceHeap.dsrc A)) h h' os,
    Forall (SliceHeapProofs.dsrc_ok h) ds ->
    SliceHeap.build_deletes (SliceHeap.to_delete_fixed extra) h ds = (h', os) ->
    SliceHeap.read_all h' os = map (SliceHeap.want h) ds.
Proof. exact (@SliceHeapProofs.deletes_paths). Qed.
Print Assumptions C03_input_unmodified_paths.

(** the multi-notification branch of Target.GnmiUpdate (strip n.Update/n.Delete,
    clone per unit, deferred restore): whatever the unit handler does, as long
    as it only adds arrays (which (a) shows of gnmiRemove), the caller's object
    is as before and the old heap is a prefix of the new one *)
Theorem C03_input_unmodified_multi_restores :
  forall (A U D : Type) (handle : @SliceHeap.heap A -> @SliceHeap.nobj U D -> @SliceHeap.heap A),
    (forall h c, SliceHeapProofs.extends h (handle h c)) ->
    forall h n, let '(h', n') := SliceHeap.dispatch handle h n in
                n' = n /\ SliceHeapProofs.extends h h'.
Proof. exact (@SliceHeapProofs.dispatch_restores). Qed.
Print Assumptions C03_input_unmodified_multi_restores.

(** the code before 20c4a71 ([append(prefix.GetElem(), path.GetElem()...)] in the
    loop) on the witness of corpus/C03/fixed_delete_alias.json: three leaves
    through one prefix [a, b] with two spare slots -- all three delete
    notifications carry a/b/z and the caller's array has been written *)
Theorem C03_input_unmodified_prefix_alias_refuted :
  exists (h : @SliceHeap.heap String.string) ds,
    Forall (SliceHeapProofs.dsrc_ok h) ds /\
    let '(h', os) := SliceHeap.build_deletes (SliceHeap.to_delete_old SliceHeapProofs.w_extra) h ds in
    SliceHeap.read_all h' os <> map (SliceHeap.want h) ds /\
    SliceHeap.read_all h' os =
      [[Some "a"; Some "b"; Some "z"]; [Some "a"; Some "b"; Some "z"]; [Some "a"; Some "b"; Some "z"]]%string /\
    SliceHeap.sreach h' SliceHeapProofs.w_pfx <> SliceHeap.sreach h SliceHeapProofs.w_pfx.
Proof. exact SliceHeapProofs.old_code_aliases. Qed.
Print Assumptions C03_input_unmodified_prefix_alias_refuted.

(** all three branches of toDeleteNotification on HEAD, mixed in one
    gnmiRemove ([br d]: atomic container -- the stored prefix slice itself is
    handed out --, Elem / mixed encoding, both sides in the deprecated
    encoding): frame and paths together *)
Theorem C03_input_unmodified_all_branches :
  forall (A : Type) (extra : nat -> nat -> nat) (br : SliceHeap.dsrc A -> SliceHeap.branch)
         (ds : list (SliceHeap.dsrc A)) h h' os,
    Forall (SliceHeapProofs.dsrc_ok h) ds ->
    SliceHeap.build_deletes (SliceHeap.to_delete_head extra br) h ds = (h', os) ->
    (forall id, (id < List.length h)%nat -> SliceHeap.get_arr h' id = SliceHeap.get_arr h id) /\
    (forall s, (SliceHeap.s_id s < List.length h)%nat ->
               SliceHeap.sreach h' s = SliceHeap.sreach h s /\ SliceHeap.sread h' s = SliceHeap.sread h s) /\
    SliceHeap.read_all h' os = map (SliceHeap.want_head br h) ds.
Proof. exact (@SliceHeapProofs.deletes_head_frame_paths). Qed.
Print Assumptions C03_input_unmodified_all_branches.

(** the [[]string] instance: the [default:] branch (prefix.Element, path.Element) *)
Theorem C03_input_unmodified_element_branch :
  forall (extra : nat -> nat -> nat) (ds : list (SliceHeap.dsrc String.string)) h h' os,
    Forall (SliceHeapProofs.dsrc_ok h) ds ->
    SliceHeap.build_deletes (SliceHeap.to_delete_head extra (fun _ => SliceHeap.BElement)) h ds = (h', os) ->
    (forall id, (id < List.length h)%nat -> SliceHeap.get_arr h' id = SliceHeap.get_arr h id) /\
    (forall s, (SliceHeap.s_id s < List.length h)%nat ->
               SliceHeap.sreach h' s = SliceHeap.sreach h s /\ SliceHeap.sread h' s = SliceHeap.sread h s) /\
    SliceHeap.read_all h' os =
      map (fun d => SliceHeap.sread h (SliceHeap.d_pfx d) ++ SliceHeap.sread h (SliceHeap.d_path d)) ds.
Proof. exact (fun extra => @SliceHeapProofs.deletes_head_frame_paths String.string extra (fun _ => SliceHeap.BElement)). Qed.
Print Assumptions C03_input_unmodified_element_branch.

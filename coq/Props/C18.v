(** C18 -- client Subscribe/Close always terminate; reconnect keeps callback
    discipline.  This file holds only the property theorems, each closed by
    [exact] of a lemma proved in Client/ClientProofs*.v, with
    [Print Assumptions] beneath.

    [step rc sc] is the transition system of ClientModel.v ([rc]: through a
    ReconnectClient or a bare Base/Cache client; [sc]: what the transport does
    in each attempt); [run] / [exec] quantify over all schedules of the
    subscriber, the closer and the canceller. *)
From Gnmi Require Import Base.Prelude Client.ClientModel Client.ClientCheck
     Client.ClientProofs Client.ClientProofs2 Client.ClientProofs3 Client.ClientProofs4 Client.ClientProofs5.

(** The acceptance check is sound: an accepted recording is a trace of the model
    ([step_now] = [step] since DEFECT C18_1 was fixed in /repo 4c160ca). *)
Theorem C18_accepts_sound : forall rc l tr ss,
  model_accepts rc l tr = inr ss -> exists s, run (step_now rc (sc_of l)) init tr s.
Proof. exact model_accepts_sound. Qed.
Print Assumptions C18_accepts_sound.

Theorem C18_step_now_is_step : forall rc sc s, step_now rc sc s = step rc sc s.
Proof. exact step_now_eq. Qed.
Print Assumptions C18_step_now_is_step.

(** Regression witness of former known finding 1 (DEFECT C18_1, fixed): the
    recording made before the patch -- bare client, Close while a second
    Subscribe was connecting returned nil, three whole messages delivered
    afterwards -- fails the tag-5 monitor and is not a trace of the model; the
    recording of the patched code on the same scenario is accepted and passes
    K_P (witness corpus/C18/fixed_close_during_second_connect.json). *)
Theorem C18_at_most_one_after_close_refuted :
  k_after false kf1_tr = Some 19 /\ stale_close 0 0 kf1_tr = true /\
  model_accepts false kf1_l kf1_tr = inl 15 /\
  check_case (false, true, kf1_l, kf1_tr_fixed) = [].
Proof. exact at_most_one_after_close_refuted. Qed.
Print Assumptions C18_at_most_one_after_close_refuted.

(** Close, once invoked on a ReconnectClient, sets [p.closed] in its next step,
    whatever the other threads do (the step is never blocked). *)
Theorem C18_close_takes_effect : forall sc s,
  c_pc s = CLock -> exists s1, In (None, s1) (step true sc s) /\ r_closed s1 = true.
Proof. exact close_takes_effect. Qed.
Print Assumptions C18_close_takes_effect.

(** For any history of earlier Subscribe / Close calls on a ReconnectClient:
    from any reachable state in which some Close has set [p.closed], as long as
    the application makes no new API call ([nc_step] = all steps but new
    Subscribe / Close calls) every continuation has at most [mu sc s] steps,
    goes through at most one backoff sleep, and cannot get stuck before the
    Subscribe call in progress (if any) and the Close call have returned.  The
    last part holds with quiet streams that their context does not wake
    ([IBlockQ]) in every re-subscribe situation -- [resub_ok]: a transport was
    installed on the inner client before; the teardown of that transport is a
    step of the model at which the closer may run -- and for scripts without
    quiet streams ([noquiet]) always. *)
Theorem C18_close_subscribe_terminate : forall sc s,
  reach true sc s -> r_closed s = true ->
  forall n s', exec (nc_step true sc) s n s' ->
    n <= mu sc s /\
    nsleep s' <= nsleep s + 1 /\
    (noquiet sc \/ resub_ok s ->
     nc (sstep true sc s' ++ cstep true s') = [] ->
     (s_pc s' = SFin \/ s_pc s' = SIdle) /\ c_pc s' = CFin).
Proof. exact close_subscribe_terminate_rc. Qed.
Print Assumptions C18_close_subscribe_terminate.

(** closed_is_sticky: once some Close call on a ReconnectClient has returned,
    that stays so and [p.closed] stays set whatever is called afterwards, no
    subscriber state that hands something to the application is reachable any
    more, and every later Subscribe call is at most 8 subscriber steps long
    (no backoff sleep, no handler invocation) -- for every script, schedule
    and sequence of further calls. *)
Theorem C18_closed_is_sticky : forall sc s,
  reach true sc s -> c_done s = true ->
  r_closed s = true /\ emits (s_pc s) = false /\ mq s <= 9 /\
  (forall l s1, In (l, s1) (step true sc s) -> c_done s1 = true /\ r_closed s1 = true) /\
  (forall l s1, In (l, s1) (sstep true sc s) -> is_call l = false ->
     mq s1 < mq s /\ (forall e, l = Some e -> is_handler e = false)).
Proof. exact closed_is_sticky. Qed.
Print Assumptions C18_closed_is_sticky.

(** A bare Base/Cache client, for any history of earlier calls (Close at any
    moment, a new Subscribe only when no Close is in progress): between API calls
    executions are bounded, and after a Close that counts for the Subscribe call
    in progress (made after it re-opened the client, transport found installed --
    including the transport of an EARLIER call while this one still connects)
    nothing blocks before both returned. *)
Theorem C18_close_subscribe_terminate_base : forall sc s,
  reach false sc s ->
  forall n s', exec (nc_step false sc) s n s' ->
    n <= mu sc s /\
    (close_succeeded s -> nc (sstep false sc s' ++ cstep false s') = [] ->
     s_pc s' = SFin /\ c_pc s' = CFin).
Proof. exact close_subscribe_terminate_base. Qed.
Print Assumptions C18_close_subscribe_terminate_base.

(** one_disconnect_per_attempt, reset_before_retry, resubscription after every
    failure unless Close / cancel was called: the monitor [disc_step] (K_P, tag 3)
    accepts every trace of the model. *)
Theorem C18_disconnect_reset_discipline : forall rc sc tr s,
  run (step rc sc) init tr s -> k_disc rc tr = None.
Proof. exact model_k_disc. Qed.
Print Assumptions C18_disconnect_reset_discipline.

(** connected_first, order_preserved, no notification lost on a stream that
    ended before any Close / cancel was called, streams end at message
    boundaries: the monitor [order_step] (K_P, tag 4) accepts every trace of
    the model. *)
Theorem C18_connected_first_order_preserved : forall rc sc tr s,
  run (step rc sc) init tr s -> k_order rc sc tr = None.
Proof. exact model_k_order. Qed.
Print Assumptions C18_connected_first_order_preserved.

(** at_most_one_after_close: the monitor [after_step] (K_P, tag 5) accepts
    every trace of the model. *)
Theorem C18_at_most_one_after_close : forall rc sc tr s,
  run (step rc sc) init tr s -> k_after rc tr = None.
Proof. exact model_k_after. Qed.
Print Assumptions C18_at_most_one_after_close.

(** exactly_one_cancel: for the context of the Subscribe call in progress, once
    both initDone and some Close's critical section have run it is cancelled,
    by exactly one effective call of [p.cancel] (repeated Close calls cancel an
    already cancelled context); before that by none. *)
Theorem C18_exactly_one_cancel : forall sc s,
  reach true sc s ->
  (r_closed s = true /\ r_hascancel s = true -> ctx_r s = true /\ ncancel s = 1) /\
  (ncancel s <= 1) /\
  (ncancel s = 1 -> r_closed s = true /\ r_hascancel s = true).
Proof. exact exactly_one_cancel_lemma. Qed.
Print Assumptions C18_exactly_one_cancel.

(** What K_P's tag-3 monitor means: at every moment of a recording it accepts,
    #disconnect <= #attempts <= #disconnect + 1 (one disconnect per ended
    attempt), #reset <= #disconnect, and #attempts <= #reset + #Subscribe calls + 1
    (every attempt but the first of a call has its own reset before it). *)
Theorem C18_k_disc_sound : forall tr,
  k_disc true tr = None ->
  forall pre suf, tr = pre ++ suf ->
    cnt isD pre <= cnt isF pre <= S (cnt isD pre) /\
    cnt isF pre <= S (cnt isR pre + cnt isS pre) /\ cnt isR pre <= cnt isD pre.
Proof. exact k_disc_sound. Qed.
Print Assumptions C18_k_disc_sound.

(** What K_P's tag-5 monitor means through a ReconnectClient: no handler
    invocation after Close returned. *)
Theorem C18_k_after_sound : forall tr,
  k_after true tr = None ->
  forall pre e suf ok, tr = pre ++ e :: suf -> In (ECloseRet ok) pre -> is_handler e = false.
Proof. exact k_after_sound_rc. Qed.
Print Assumptions C18_k_after_sound.

(** connected_first, read off K_P's tag-4 monitor: in a recording it accepts,
    the first notification handed to the application after a transport was
    constructed (before that stream ends) is [Connected]. *)
Theorem C18_connected_first : forall rc sc tr,
  k_order rc sc tr = None ->
  forall pre k mid e suf,
    tr = pre ++ EFactory k :: mid ++ e :: suf ->
    forallb quiet mid = true -> is_handler e = true -> e = EConn.
Proof. exact k_order_connected_first. Qed.
Print Assumptions C18_connected_first.

(** Round 6: the poller (a goroutine calling Poll() -- BaseClient.Poll takes the
    current transport under c.mu and runs one read round on it outside any lock)
    is a thread of [step]; the theorems above quantify over executions with its
    steps in them, so Subscribe and Close return whatever Poll rounds are
    outstanding.  The poller itself: a stalled round has a step as soon as the
    context is cancelled or the transport it reads from has been closed, and
    every Poll call is at most [mu_p] <= 4 poller steps long. *)
Theorem C18_poll_round_wakes : forall s a j,
  p_pc s = PRound a j -> (cancelled s = true \/ p_wake s = true \/ a = true) -> pstep s <> [].
Proof. exact poll_round_wakes. Qed.
Print Assumptions C18_poll_round_wakes.

Theorem C18_poll_steps_bounded : forall s l s1,
  In (l, s1) (pstep s) -> is_call l = false -> mu_p s1 < mu_p s.
Proof. exact poll_steps_bounded. Qed.
Print Assumptions C18_poll_steps_bounded.

(** C18 -- client Subscribe/Close always terminate; reconnect keeps callback
    discipline.  This file holds only the property theorems, each closed by
    [exact] of a lemma proved in Client/ClientProofs.v, with
    [Print Assumptions] beneath. *)
From Gnmi Require Import Base.Prelude Client.ClientModel Client.ClientCheck Client.ClientProofs.

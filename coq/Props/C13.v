(** C13 -- target manager: strict per-target session discipline; silence after
    Remove.  Only theorem statements closed by [exact]; proofs are in
    Manager/ManagerProofs.v. *)
From Coq Require Import List Bool ZArith NArith.
Import ListNotations.
From Gnmi Require Import Manager.ManagerModel Manager.ManagerCheck Manager.ManagerProofs.

Theorem C13_unknown_remove_refused_step :
  forall c s, managed s = false -> vis c s (ERemoveReturned true) = [].
Proof. exact unknown_remove_refused_step. Qed.
Print Assumptions C13_unknown_remove_refused_step.
